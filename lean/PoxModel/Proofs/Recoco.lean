import PoxModel.Model.Recoco
/-! Helper lemmas for C06 (recoco scheduler).  Core only.

Part 1: the placement invariant `Inv` (every live task is in at most one of running / ready / incoming / hub, queue members are
        live, a live sub-task's caller is live, blocked and has no other live sub-task) is preserved by every transition.
Part 2: the hub side changes a task only in `rv` (`HubFr`); program order `PO` (step indices = 0..pc-1, pc bounded by the program).
Part 3: wake-time accounting `NEA`/`NEx`/`NE` (a timed wait is never resumed early), incl. what the hub scan, the `rets` loops and
        the virtual select guarantee.
Part 4: one-cycle theorems (isolation, sub-task return, delivery).
Part 5: a cycle changes kind/pc/status of the task it runs only (`CycFr`); finished tasks never run again (`dead_stays`).
Part 6: round-robin order of the ready deque for program tables without sub-task calls (`fair_cycles`).
Part 7: timers: allowed changes of a timer record (`TStep`), firings in the trace = firing counter (`FI`), kinds never change. -/
namespace Pox.Recoco

def stL (l : List Task) (t : Nat) : Option Status := (l[t]?).map (·.st)
def kdL (l : List Task) (t : Nat) : Option Kind := (l[t]?).map (·.kind)
/-- the queues a task can sit in, in one list: running slot, ready deque, hub inbox, hub table -/
def places (s : St) : List Nat := s.running.toList ++ (s.ready ++ (incTids s ++ hubTids s))

structure InvA (pl : List Nat) (st : Nat → Option Status) (kd : Nat → Option Kind) : Prop where
  nodup : pl.Nodup
  live : ∀ t ∈ pl, st t = some .live
  parent : ∀ c k p, kd c = some (.sub k p) → st c = some .live → p ∉ pl ∧ st p = some .live
  uniq : ∀ c c' k k' p, kd c = some (.sub k p) → kd c' = some (.sub k' p) → st c = some .live → st c' = some .live → c = c'

def Inv (s : St) : Prop := InvA (places s) (stL s.tasks) (kdL s.tasks)

/-! ### abstract transitions -/

theorem InvA.perm {pl pl' st kd} (h : InvA pl st kd) (hp : pl'.Perm pl) : InvA pl' st kd where
  nodup := hp.nodup_iff.mpr h.nodup
  live := fun t ht => h.live t (hp.mem_iff.mp ht)
  parent := fun c k p hk hs => ⟨fun hm => (h.parent c k p hk hs).1 (hp.mem_iff.mp hm), (h.parent c k p hk hs).2⟩
  uniq := h.uniq

theorem InvA.drop {t pl st kd} (h : InvA (t :: pl) st kd) : InvA pl st kd where
  nodup := (List.nodup_cons.mp h.nodup).2
  live := fun u hu => h.live u (List.mem_cons_of_mem _ hu)
  parent := fun c k p hk hs => ⟨fun hm => (h.parent c k p hk hs).1 (List.mem_cons_of_mem _ hm), (h.parent c k p hk hs).2⟩
  uniq := h.uniq

theorem InvA.kill {t pl st st' kd} {x : Option Status} (h : InvA (t :: pl) st kd)
    (hst : ∀ u, st' u = if u = t then x else st u) (hx : x ≠ some .live) : InvA pl st' kd := by
  have hnd := List.nodup_cons.mp h.nodup
  have hne : ∀ u, st' u = some .live → u ≠ t ∧ st u = some .live := by
    intro u hu; rw [hst] at hu; split at hu
    · exact absurd hu hx
    · exact ⟨by assumption, hu⟩
  refine ⟨hnd.2, ?_, ?_, ?_⟩
  · intro u hu
    have : u ≠ t := fun e => hnd.1 (e ▸ hu)
    rw [hst, if_neg this]; exact h.live u (List.mem_cons_of_mem _ hu)
  · intro c k p hk hs
    obtain ⟨_, hs'⟩ := hne c hs
    obtain ⟨hp1, hp2⟩ := h.parent c k p hk hs'
    have : p ≠ t := fun e => hp1 (e ▸ List.mem_cons_self)
    exact ⟨fun hm => hp1 (List.mem_cons_of_mem _ hm), by rw [hst, if_neg this]; exact hp2⟩
  · intro c c' k k' p hk hk' hs hs'
    exact h.uniq c c' k k' p hk hk' (hne c hs).2 (hne c' hs').2

theorem InvA.spawn {t pl st st' kd kd'} {c k : Nat} (h : InvA (t :: pl) st kd) (hc : st c = none)
    (hst : ∀ u, st' u = if u = c then some .live else st u)
    (hkd : ∀ u, kd' u = if u = c then some (.sub k t) else kd u) : InvA (c :: pl) st' kd' := by
  have hnd := List.nodup_cons.mp h.nodup
  have hfresh : ∀ u, st u = some .live → u ≠ c := fun u hu e => by rw [e, hc] at hu; cases hu
  have htl : st t = some .live := h.live t List.mem_cons_self
  have hcpl : c ∉ pl := fun hm => hfresh c (h.live c (List.mem_cons_of_mem _ hm)) rfl
  refine ⟨List.nodup_cons.mpr ⟨hcpl, hnd.2⟩, ?_, ?_, ?_⟩
  · intro u hu
    rw [hst]; split
    · rfl
    · cases hu with
      | head => contradiction
      | tail _ hu => exact h.live u (List.mem_cons_of_mem _ hu)
  · intro c0 k0 p hk hs
    rw [hkd] at hk; rw [hst] at hs
    by_cases e : c0 = c
    · subst e; simp at hk; obtain ⟨_, rfl⟩ := hk
      refine ⟨?_, by rw [hst, if_neg (hfresh t htl)]; exact htl⟩
      intro hm; cases hm with
      | head => exact hfresh _ htl rfl
      | tail _ hm => exact hnd.1 hm
    · rw [if_neg e] at hk hs
      obtain ⟨hp1, hp2⟩ := h.parent c0 k0 p hk hs
      refine ⟨?_, by rw [hst, if_neg (hfresh p hp2)]; exact hp2⟩
      intro hm; cases hm with
      | head => exact hfresh _ hp2 rfl
      | tail _ hm => exact hp1 (List.mem_cons_of_mem _ hm)
  · intro c0 c1 k0 k1 p hk0 hk1 hs0 hs1
    rw [hkd] at hk0 hk1; rw [hst] at hs0 hs1
    by_cases e0 : c0 = c <;> by_cases e1 : c1 = c
    · rw [e0, e1]
    · rw [if_pos e0] at hk0; rw [if_neg e1] at hk1 hs1
      simp at hk0; obtain ⟨_, rfl⟩ := hk0
      exact absurd List.mem_cons_self (h.parent c1 k1 _ hk1 hs1).1
    · rw [if_pos e1] at hk1; rw [if_neg e0] at hk0 hs0
      simp at hk1; obtain ⟨_, rfl⟩ := hk1
      exact absurd List.mem_cons_self (h.parent c0 k0 _ hk0 hs0).1
    · rw [if_neg e0] at hk0 hs0; rw [if_neg e1] at hk1 hs1
      exact h.uniq c0 c1 k0 k1 p hk0 hk1 hs0 hs1

theorem InvA.finish {t pl st st' kd} {k p : Nat} {x : Option Status} (h : InvA (t :: pl) st kd) (hk : kd t = some (.sub k p))
    (hst : ∀ u, st' u = if u = t then x else st u) (hx : x ≠ some .live) : InvA (p :: pl) st' kd := by
  have hnd := List.nodup_cons.mp h.nodup
  have htl : st t = some .live := h.live t List.mem_cons_self
  obtain ⟨hp1, hp2⟩ := h.parent t k p hk htl
  have hpt : p ≠ t := fun e => hp1 (e ▸ List.mem_cons_self)
  have hne : ∀ u, st' u = some .live → u ≠ t ∧ st u = some .live := by
    intro u hu; rw [hst] at hu; split at hu
    · exact absurd hu hx
    · exact ⟨by assumption, hu⟩
  refine ⟨List.nodup_cons.mpr ⟨fun hm => hp1 (List.mem_cons_of_mem _ hm), hnd.2⟩, ?_, ?_, ?_⟩
  · intro u hu
    cases hu with
    | head => rw [hst, if_neg hpt]; exact hp2
    | tail _ hu =>
      have : u ≠ t := fun e => hnd.1 (e ▸ hu)
      rw [hst, if_neg this]; exact h.live u (List.mem_cons_of_mem _ hu)
  · intro c0 k0 p0 hk0 hs0
    obtain ⟨hc0, hs0'⟩ := hne c0 hs0
    obtain ⟨hq1, hq2⟩ := h.parent c0 k0 p0 hk0 hs0'
    have hp0t : p0 ≠ t := fun e => hq1 (e ▸ List.mem_cons_self)
    refine ⟨?_, by rw [hst, if_neg hp0t]; exact hq2⟩
    intro hm; cases hm with
    | head => exact hc0 (h.uniq c0 t k0 k _ hk0 hk hs0' htl)
    | tail _ hm => exact hq1 (List.mem_cons_of_mem _ hm)
  · intro c c' k1 k2 p1 hk1 hk2 hs hs'
    exact h.uniq c c' k1 k2 p1 hk1 hk2 (hne c hs).2 (hne c' hs').2


/-! ### frames -/

section
variable {s : St} {u : Nat} {f : Task → Task}
@[simp] theorem setTask_running : (setTask s u f).running = s.running := rfl
@[simp] theorem setTask_ready : (setTask s u f).ready = s.ready := rfl
@[simp] theorem setTask_incoming : (setTask s u f).incoming = s.incoming := rfl
@[simp] theorem setTask_hub : (setTask s u f).hub = s.hub := rfl
@[simp] theorem setTask_now : (setTask s u f).now = s.now := rfl
@[simp] theorem setTask_trace : (setTask s u f).trace = s.trace := rfl
@[simp] theorem setTask_timers : (setTask s u f).timers = s.timers := rfl
@[simp] theorem setTask_pings : (setTask s u f).pings = s.pings := rfl
@[simp] theorem setTask_crashed : (setTask s u f).crashed = s.crashed := rfl
@[simp] theorem setTask_hasQuit : (setTask s u f).hasQuit = s.hasQuit := rfl
@[simp] theorem setTask_tasks : (setTask s u f).tasks = s.tasks.modify u f := rfl
@[simp] theorem setTask_sendScript : (setTask s u f).sendScript = s.sendScript := rfl
@[simp] theorem setTask_recvScript : (setTask s u f).recvScript = s.recvScript := rfl
@[simp] theorem setTask_cycles : (setTask s u f).cycles = s.cycles := rfl
end

@[simp] theorem stL_modify {l : List Task} {u : Nat} {f : Task → Task} (h : ∀ k, (f k).st = k.st) : stL (l.modify u f) = stL l := by
  funext t
  simp only [stL, List.getElem?_modify]
  cases l[t]? with
  | none => rfl
  | some a => by_cases e : u = t <;> simp [e, h]

@[simp] theorem kdL_modify {l : List Task} {u : Nat} {f : Task → Task} (h : ∀ k, (f k).kind = k.kind) : kdL (l.modify u f) = kdL l := by
  funext t
  simp only [kdL, List.getElem?_modify]
  cases l[t]? with
  | none => rfl
  | some a => by_cases e : u = t <;> simp [e, h]

theorem stL_setStatus {l : List Task} {t : Nat} {x : Status} (hl : stL l t ≠ none) :
    ∀ u, stL (l.modify t (fun k => { k with st := x })) u = if u = t then some x else stL l u := by
  intro u
  simp only [stL, List.getElem?_modify] at hl ⊢
  by_cases e : u = t
  · subst e; cases h : l[u]? with
    | none => simp [h] at hl
    | some a => simp
  · have : ¬ t = u := fun h => e h.symm
    cases l[u]? <;> simp [e, this]

theorem stL_push (l : List Task) (tk : Task) : ∀ u, stL (l ++ [tk]) u = if u = l.length then some tk.st else stL l u := by
  intro u
  simp only [stL]
  by_cases e : u = l.length
  · subst e; simp
  · rw [if_neg e]
    by_cases lt : u < l.length
    · rw [List.getElem?_append_left lt]
    · have h1 : l.length ≤ u := by omega
      have h2 : (l ++ [tk]).length ≤ u := by rw [List.length_append, List.length_singleton]; omega
      rw [List.getElem?_eq_none h2, List.getElem?_eq_none h1]

theorem kdL_push (l : List Task) (tk : Task) : ∀ u, kdL (l ++ [tk]) u = if u = l.length then some tk.kind else kdL l u := by
  intro u
  simp only [kdL]
  by_cases e : u = l.length
  · subst e; simp
  · rw [if_neg e]
    by_cases lt : u < l.length
    · rw [List.getElem?_append_left lt]
    · have h1 : l.length ≤ u := by omega
      have h2 : (l ++ [tk]).length ≤ u := by rw [List.length_append, List.length_singleton]; omega
      rw [List.getElem?_eq_none h2, List.getElem?_eq_none h1]

theorem stL_fresh (l : List Task) : stL l l.length = none := by simp [stL]

/-- the running task `t` has been popped and not yet placed again -/
def Held (s : St) (t : Nat) : Prop :=
  s.running = none ∧ InvA (t :: (s.ready ++ (incTids s ++ hubTids s))) (stL s.tasks) (kdL s.tasks)

theorem Inv.of_running_none {s : St} (h : s.running = none) :
    Inv s ↔ InvA (s.ready ++ (incTids s ++ hubTids s)) (stL s.tasks) (kdL s.tasks) := by
  simp [Inv, places, h]

/-- `held h` closes a goal `Held s' t` (or `Inv s'`) when `s'` differs from the state of `h` only in fields the invariant does not
    read (or in task fields other than `st`/`kind`) -/
syntax "held " term : tactic
macro_rules
  | `(tactic| held $h) => `(tactic| (
      have hh := $h
      simp only [Held, Inv, places, incTids, hubTids, setTask_running, setTask_ready, setTask_incoming, setTask_hub, setTask_tasks,
        stL_modify, kdL_modify, implies_true, cancelTimer] at hh ⊢
      exact hh))

theorem Held.live {s : St} {t : Nat} (h : Held s t) : stL s.tasks t = some .live := h.2.live t List.mem_cons_self

theorem Held.not_ready {s : St} {t : Nat} (h : Held s t) : t ∉ s.ready :=
  fun hm => (List.nodup_cons.mp h.2.nodup).1 (List.mem_append_left _ hm)

/-- the held task blocks (stays live, in no queue) -/
theorem Held.block {s : St} {t : Nat} (h : Held s t) : Inv s := (Inv.of_running_none h.1).mpr h.2.drop

/-- the held task is appended to / pushed on the ready deque -/
theorem Held.toReady {s : St} {t : Nat} (h : Held s t) (first : Bool) :
    Inv { s with ready := if first then t :: s.ready else s.ready ++ [t] } := by
  refine (Inv.of_running_none (s := { s with ready := if first then t :: s.ready else s.ready ++ [t] }) h.1).mpr (h.2.perm ?_)
  simp only [incTids, hubTids]
  cases first
  · simp only [Bool.false_eq_true, if_false, List.append_assoc, List.singleton_append]; exact List.perm_middle
  · simp

theorem Held.fastSchedule {s : St} {t : Nat} (h : Held s t) (first : Bool) : Inv (fastSchedule s t first) := by
  unfold Pox.Recoco.fastSchedule
  rw [if_neg h.not_ready]
  exact h.toReady first

theorem Held.register {s : St} {t : Nat} (h : Held s t) (rl wl xl : List Nat) (tto : Option Nat) :
    Inv (registerSelect s t rl wl xl tto) := by
  refine (Inv.of_running_none (s := registerSelect s t rl wl xl tto) h.1).mpr ?_
  have h' : InvA (t :: (s.ready ++ (incTids s ++ hubTids s)))
      (stL (s.tasks.modify t (fun k => { k with wake := tto.map (fun w => (w, (HubEntry.mk t rl wl xl tto).hasFds)) })))
      (kdL (s.tasks.modify t (fun k => { k with wake := tto.map (fun w => (w, (HubEntry.mk t rl wl xl tto).hasFds)) }))) := by
    simp only [stL_modify, kdL_modify, implies_true]; exact h.2
  refine h'.perm ?_
  simp only [registerSelect, setTask_ready, setTask_incoming, setTask_hub, incTids, hubTids, List.map_append, List.map_cons,
    List.map_nil, List.append_assoc, List.singleton_append]
  rw [← List.append_assoc]
  exact List.perm_middle.trans (List.Perm.of_eq (by simp))

/-- `Again.execute`: the held task blocks, a new sub-task is pushed on the front of the ready deque -/
theorem Held.spawn {s : St} {t : Nat} (h : Held s t) (k : Nat) :
    Inv (Pox.Recoco.fastSchedule { s with tasks := s.tasks ++ [{ kind := .sub k t, prio := prioOf s t }] } s.tasks.length true) := by
  have hfresh : s.tasks.length ∉ t :: (s.ready ++ (incTids s ++ hubTids s)) := fun hm => by
    have := h.2.live _ hm; rw [stL_fresh] at this; cases this
  have hnr : s.tasks.length ∉ s.ready := fun hm => hfresh (List.mem_cons_of_mem _ (List.mem_append_left _ hm))
  unfold Pox.Recoco.fastSchedule
  rw [if_neg hnr]
  have := h.2.spawn (c := s.tasks.length) (k := k) (stL_fresh _) (stL_push s.tasks { kind := .sub k t, prio := prioOf s t }) (kdL_push s.tasks { kind := .sub k t, prio := prioOf s t })
  refine (Inv.of_running_none ?hr).mpr (this.perm (List.Perm.of_eq ?_))
  case hr => exact h.1
  simp [incTids, hubTids]

/-- tail of `AgainTask.run_again`: the held sub-task is done, its caller is pushed on the front of the ready deque -/
theorem Held.finishSub {s : St} {t k p : Nat} (h : Held s t) (hk : kdL s.tasks t = some (.sub k p)) : Inv (finishSub s t p) := by
  have hp := h.2.parent t k p hk h.live
  have hnr : p ∉ s.ready := fun hm => hp.1 (List.mem_cons_of_mem _ (List.mem_append_left _ hm))
  unfold Pox.Recoco.finishSub Pox.Recoco.fastSchedule
  rw [if_neg (by simpa [setStatus] using hnr)]
  have hne : stL s.tasks t ≠ none := by rw [h.live]; simp
  have := h.2.finish (x := some .done) hk (stL_setStatus (x := .done) hne) (by simp)
  rw [← kdL_modify (l := s.tasks) (u := t) (f := fun k => { k with st := .done }) (fun _ => rfl)] at this
  refine (Inv.of_running_none (by simpa [setStatus] using h.1)).mpr (this.perm (List.Perm.of_eq ?_))
  simp [incTids, hubTids, setStatus]

theorem Held.doYield {s : St} {t : Nat} (h : Held s t) (y : Y) : Inv (doYield s t y) := by
  cases y with
  | num n => cases n with
    | zero => exact h.toReady false
    | succ n => exact h.register _ _ _ _
  | block => exact h.block
  | sleep d => cases d with
    | none => exact h.block
    | some d =>
      simp only [Pox.Recoco.doYield]
      split
      · refine Held.fastSchedule ?_ false; held h
      · exact h.register _ _ _ _
  | sleepAbs w =>
    simp only [Pox.Recoco.doYield]
    split
    · refine Held.fastSchedule ?_ false; held h
    · exact h.register _ _ _ _
  | select r w x to => exact h.register _ _ _ _
  | recv fd to => refine Held.register ?_ _ _ _ _; held h
  | send fd len to bs => refine Held.register ?_ _ _ _ _; held h
  | exit => simp only [Pox.Recoco.doYield]; held h.block
  | raise n => exact h.block
  | again k c => exact h.spawn k
  | cancel j =>
    have h' : Held (cancelTimer s j) t := by held h
    exact h'.toReady false

/-- the held task finishes or dies -/
theorem Held.kill {s : St} {t : Nat} (h : Held s t) {x : Status} (hx : x ≠ .live) : Inv (setStatus s t x) := by
  have hne : stL s.tasks t ≠ none := by rw [h.live]; simp
  have := h.2.kill (x := some x) (stL_setStatus (x := x) hne) (by simpa using hx)
  rw [← kdL_modify (l := s.tasks) (u := t) (f := fun k => { k with st := x }) (fun _ => rfl)] at this
  exact (Inv.of_running_none (by simpa [setStatus] using h.1)).mpr this

theorem Held.topOut {s : St} {t : Nat} (h : Held s t) (o : Out) : Inv (topOut s t o) := by
  cases o with
  | stop => exact h.kill (by simp)
  | raise e => exact h.kill (by simp)
  | yield y => exact h.doYield y

theorem Held.subOut {fx : Bool} {s : St} {t k p : Nat} (h : Held s t) (hk : kdL s.tasks t = some (.sub k p)) (pc : Nat) (o : Out) :
    Inv (subOut fx s t p pc o) := by
  have fin : ∀ (f : Task → Task), (∀ k, (f k).st = k.st) → (∀ k, (f k).kind = k.kind) →
      Inv (Pox.Recoco.finishSub (setTask s p f) t p) := by
    intro f h1 h2
    refine Held.finishSub (k := k) (s := setTask s p f) ?_ ?_
    · have := h; simp only [Held, incTids, hubTids, setTask_running, setTask_ready, setTask_incoming, setTask_hub, setTask_tasks,
        stL_modify h1, kdL_modify h2] at this ⊢; exact this
    · rw [setTask_tasks, kdL_modify h2]; exact hk
  cases o with
  | raise e => exact fin _ (fun _ => rfl) (fun _ => rfl)
  | stop =>
    simp only [Pox.Recoco.subOut]
    split
    · exact fin _ (fun _ => rfl) (fun _ => rfl)
    · exact h.finishSub hk
  | yield y =>
    simp only [Pox.Recoco.subOut]
    split
    · exact h.doYield y
    · split
      · exact fin _ (fun _ => rfl) (fun _ => rfl)
      · exact fin _ (fun _ => rfl) (fun _ => rfl)
      · rename_i j _
        have h' : Held (cancelTimer s j) t := by held h
        refine Held.finishSub (k := k) (s := setTask (cancelTimer s j) p _) ?_ ?_
        · held h'
        · simp only [setTask_tasks, kdL_modify, implies_true, cancelTimer]; exact hk
      · exact h.block

theorem Held.timerStep {s : St} {t : Nat} (h : Held s t) (j pc : Nat) : Inv (timerStep s t j pc) := by
  unfold Pox.Recoco.timerStep
  split
  · held h.block
  · split
    · exact h.kill (by simp)
    · split
      · held h.block
      · split
        · exact h.doYield _
        · simp only
          split
          · held h.block
          · refine Held.doYield ?_ _; held h

theorem kdL_of_get {l : List Task} {t : Nat} {tk : Task} (h : l[t]? = some tk) : kdL l t = some tk.kind := by
  simp [kdL, h]

theorem Held.resumeGen (cfg : Cfg) {s : St} {t : Nat} {tk : Task} (h : Held s t) (ht : s.tasks[t]? = some tk) (r : Recv) (raw : Val) :
    Inv (resumeGen cfg s t tk r raw) := by
  have h0 : Held { Pox.Recoco.setTask s t (fun k => { k with pc := k.pc + 1, wake := none }) with
                   trace := s.trace ++ [.step t tk.pc s.now r raw tk.wake] } t := by held h
  have hk0 := kdL_of_get ht
  unfold Pox.Recoco.resumeGen
  simp only
  split
  · split
    · held h0.block
    · exact h0.topOut _
  · rename_i k p hkind
    split
    · held h0.block
    · have hk1 : kdL s.tasks t = some (.sub k p) := by rw [hk0, hkind]
      split
      · refine Held.subOut (k := k) (s := setTask _ p _) ?_ ?_ _ _
        · held h0
        · simp only [setTask_tasks, kdL_modify, implies_true]; exact hk1
      · refine h0.subOut (k := k) ?_ _ _
        simp only [setTask_tasks, kdL_modify, implies_true]; exact hk1
  · exact h0.timerStep _ _

/-- what `execPre` guarantees: after `ABORT` the task has been re-registered, otherwise it is still held -/
def PreOK (t : Nat) : ExecPre × St → Prop
  | (.abort, s1) => Inv s1
  | (_, s1) => Held s1 t

theorem Held.execPre (cfg : Cfg) {s : St} {t : Nat} (h : Held s t) (tk : Task) : PreOK t (execPre cfg s t tk) := by
  unfold Pox.Recoco.execPre
  simp only []
  repeat' split
  all_goals first
    | (simp only [PreOK]; held h)
    | (simp only [PreOK]; refine Held.register ?_ _ _ _ _; held h)

/-- the lottery only rotates the ready deque: the chosen task and what is left are a permutation of what was there -/
theorem lottery_perm (s : List Task) : ∀ (ds r : List Nat) {t : Nat} {r' ds' : List Nat},
    lottery s ds r = some (t, r', ds') → (t :: r').Perm r := by
  intro ds
  induction ds with
  | nil =>
    intro r t r' ds' h
    cases r with
    | nil => simp [lottery] at h
    | cons a rest =>
      simp only [lottery] at h
      split at h
      · simp at h; obtain ⟨rfl, rfl, _⟩ := h; exact List.Perm.refl _
      · split at h
        · simp at h; obtain ⟨rfl, rfl, _⟩ := h; subst_vars; exact List.Perm.refl _
        · simp at h; obtain ⟨rfl, rfl, _⟩ := h; exact List.Perm.refl _
  | cons d ds ih =>
    intro r t r' ds' h
    cases r with
    | nil => simp [lottery] at h
    | cons a rest =>
      simp only [lottery] at h
      split at h
      · simp at h; obtain ⟨rfl, rfl, _⟩ := h; exact List.Perm.refl _
      · split at h
        · simp at h; obtain ⟨rfl, rfl, _⟩ := h; subst_vars; exact List.Perm.refl _
        · split at h
          · simp at h; obtain ⟨rfl, rfl, _⟩ := h; exact List.Perm.refl _
          · have := ih (rest ++ [a]) h
            exact this.trans (by simp [List.perm_append_singleton])

/-- a task of priority >= 1 at the head of the deque is taken without a draw -/
theorem lottery_head (s : List Task) (ds : List Nat) (t : Nat) (rest : List Nat) (h : 8 ≤ prioL s t) :
    lottery s ds (t :: rest) = some (t, rest, ds) := by
  cases ds <;> simp [lottery, h]

theorem lottery_none (s : List Task) (ds r : List Nat) (h : lottery s ds r = none) : r = [] := by
  induction ds generalizing r with
  | nil =>
    cases r with
    | nil => rfl
    | cons a rest =>
      simp only [lottery] at h
      repeat' split at h
      all_goals cases h
  | cons d ds ih =>
    cases r with
    | nil => rfl
    | cons a rest =>
      simp only [lottery] at h
      repeat' split at h
      all_goals first
        | cases h
        | (have := ih _ h; simp at this)

@[simp] theorem length_applyPrios : ∀ (l : List Task) (ps : List Nat), (applyPrios l ps).length = l.length
  | [], [] => rfl
  | [], _ :: _ => rfl
  | _ :: _, [] => rfl
  | _ :: r, _ :: ps => by simp [applyPrios, length_applyPrios r ps]

theorem applyPrios_map {β} (g : Task → β) (hg : ∀ k p, g { k with prio := p } = g k) :
    ∀ (l : List Task) (ps : List Nat), (applyPrios l ps).map g = l.map g
  | [], [] => rfl
  | [], _ :: _ => rfl
  | _ :: _, [] => rfl
  | k :: r, p :: ps => by simp [applyPrios, hg, applyPrios_map g hg r ps]

theorem applyPrios_get {β} (g : Task → β) (hg : ∀ k p, g { k with prio := p } = g k) (l : List Task) (ps : List Nat) (t : Nat) :
    ((applyPrios l ps)[t]?).map g = (l[t]?).map g := by
  have := congrArg (fun m => m[t]?) (applyPrios_map g hg l ps)
  simpa using this

theorem Inv.cyclePop {s : St} (h : Inv s) : Inv (cyclePop s) := by
  unfold Pox.Recoco.cyclePop
  split
  · exact h
  · rename_i hr
    split
    · exact h
    · rename_i t rest ds hl
      have hp := lottery_perm _ _ _ hl
      refine InvA.perm (pl := places s) ?_ ?_
      · exact h
      · simp only [places, hr, incTids, hubTids, Option.toList, List.nil_append, List.cons_append]
        exact (List.Perm.append_right _ hp)

theorem Inv.cycleExec (cfg : Cfg) {s : St} (h : Inv s) : Inv (cycleExec cfg s) := by
  unfold Pox.Recoco.cycleExec
  split
  · exact h
  · rename_i t hr
    have h0 : Held { s with running := none } t := by
      refine ⟨rfl, ?_⟩
      have := h
      simp only [Inv, places, hr, incTids, hubTids, Option.toList, List.cons_append, List.nil_append] at this ⊢
      exact this
    simp only
    split
    · held h0.block
    · rename_i tk htk
      have hp := h0.execPre cfg tk
      split
      · rename_i s1 he; rw [he] at hp; exact hp
      · rename_i e s1 he; rw [he] at hp; exact Held.kill hp (by simp)
      · rename_i r s1 he; rw [he] at hp
        split
        · have hp' : Held s1 t := hp
          held hp'.block
        · rename_i tk1 htk1; exact Held.resumeGen cfg hp htk1 r _


/-! ### the select hub -/

theorem perm_extract {t : Nat} : ∀ (H : List Nat), H.Nodup → t ∈ H → H.Perm (t :: H.filter (fun x => !decide (x = t)))
  | [], _, hm => by cases hm
  | a :: r, hn, hm => by
    have hn' := List.nodup_cons.mp hn
    by_cases e : a = t
    · subst e
      have : r.filter (fun x => !decide (x = a)) = r := by
        apply List.filter_eq_self.mpr
        intro x hx; simp; intro e; subst e; exact hn'.1 hx
      simp [this]
    · have hm' : t ∈ r := by
        cases hm with
        | head => exact absurd rfl e
        | tail _ h => exact h
      have ih := perm_extract r hn'.2 hm'
      have : (a :: r).filter (fun x => !decide (x = t)) = a :: r.filter (fun x => !decide (x = t)) := by simp [e]
      rw [this]
      exact (List.Perm.cons a ih).trans (List.Perm.swap _ _ _)

theorem perm_move {R rd inc H H' : List Nat} {t : Nat} (hH : H.Perm (t :: H')) :
    (R ++ ((rd ++ [t]) ++ (inc ++ H'))).Perm (R ++ (rd ++ (inc ++ H))) := by
  refine List.Perm.append_left R ?_
  rw [List.append_assoc]
  refine List.Perm.append_left rd ?_
  refine (List.Perm.trans ?_ (List.Perm.append_left inc hH.symm))
  simp only [List.singleton_append]
  exact List.perm_middle.symm

theorem hubTids_filter (hub : List HubEntry) (t : Nat) :
    (hub.filter (fun e => !decide (e.tid = t))).map (·.tid) = (hub.map (·.tid)).filter (fun x => !decide (x = t)) := by
  induction hub with
  | nil => rfl
  | cons e r ih =>
    by_cases h : e.tid = t
    · simp only [List.filter_cons, h, decide_true, Bool.not_true, Bool.false_eq_true, if_false, List.map_cons]; exact ih
    · simp only [List.filter_cons, h, decide_false, Bool.not_false, if_true, List.map_cons, ih]

theorem Inv.nodup_hub {s : St} (h : Inv s) : (hubTids s).Nodup := by
  have hsub : (hubTids s).Sublist (places s) :=
    (List.sublist_append_right _ _).trans ((List.sublist_append_right _ _).trans (List.sublist_append_right _ _))
  exact hsub.nodup h.nodup

theorem InvA.sublist {pl pl' st kd} (h : InvA pl st kd) (hsub : pl'.Sublist pl) : InvA pl' st kd :=
  ⟨hsub.nodup h.nodup, fun u hu => h.live u (hsub.subset hu),
   fun c k p hk hs => ⟨fun hm => (h.parent c k p hk hs).1 (hsub.subset hm), (h.parent c k p hk hs).2⟩, h.uniq⟩

theorem Inv.hubDelReturn {s : St} (h : Inv s) (t : Nat) (v : Val) : Inv (hubDelReturn s t v) := by
  unfold Pox.Recoco.hubDelReturn
  simp only [decide_not]
  split
  · rename_i hm
    have hperm := perm_extract (hubTids s) h.nodup_hub hm
    have hI : InvA (s.running.toList ++ ((s.ready ++ [t]) ++ (incTids s ++ (hubTids s).filter (fun x => !decide (x = t)))))
        (stL s.tasks) (kdL s.tasks) := h.perm (perm_move hperm)
    unfold hubReturn Pox.Recoco.fastSchedule
    split
    · -- the assert fails: unreachable, but harmless for the invariant
      have hsub : (s.running.toList ++ (s.ready ++ (incTids s ++ (hubTids s).filter (fun x => !decide (x = t))))).Sublist
          (s.running.toList ++ ((s.ready ++ [t]) ++ (incTids s ++ (hubTids s).filter (fun x => !decide (x = t))))) := by
        refine List.Sublist.append_left (List.Sublist.append ?_ (List.Sublist.refl _)) _
        exact List.sublist_append_left _ _
      have := hI.sublist hsub
      simp only [Inv, places, incTids, hubTids, setTask_running, setTask_ready, setTask_incoming, setTask_hub, setTask_tasks,
        stL_modify, kdL_modify, implies_true, hubTids_filter] at this ⊢
      exact this
    · have := hI
      simp only [Inv, places, incTids, hubTids, setTask_running, setTask_ready, setTask_incoming, setTask_hub, setTask_tasks,
        stL_modify, kdL_modify, implies_true, hubTids_filter, if_false, Bool.false_eq_true] at this ⊢
      exact this
  · held h

theorem Inv.returnAll : ∀ (rets : Rets) {s : St}, Inv s → Inv (returnAll s rets)
  | [], _, h => h
  | (t, (a, b, c)) :: r, s, h => by
    simp only [Pox.Recoco.returnAll]
    split
    · exact h.hubDelReturn _ _
    · exact Inv.returnAll r (h.hubDelReturn _ _)

theorem Inv.returnExpired : ∀ (l : List Nat) {s : St}, Inv s → Inv (returnExpired s l)
  | [], _, h => h
  | t :: r, s, h => by
    simp only [Pox.Recoco.returnExpired]
    split
    · exact h.hubDelReturn _ _
    · exact Inv.returnExpired r (h.hubDelReturn _ _)

theorem drain_inv : ∀ (l : List HubEntry) (s : St),
    InvA (s.running.toList ++ (s.ready ++ (l.map (·.tid) ++ hubTids s))) (stL s.tasks) (kdL s.tasks) → Inv (drain s l)
  | [], s, h => by
    simp only [drain, Inv, places, incTids, List.map_nil] at h ⊢; exact h
  | e :: r, s, h => by
    simp only [drain]
    split
    · simp only [Inv, places, incTids] at h ⊢; exact h
    · refine drain_inv r _ (h.perm ?_)
      simp only [hubTids, List.map_append, List.map_cons, List.map_nil]
      refine List.Perm.append_left _ (List.Perm.append_left _ ?_)
      simp only [List.cons_append]
      exact (List.perm_middle (a := e.tid) (l₁ := r.map (·.tid) ++ s.hub.map (·.tid)) (l₂ := [])).trans
        (List.Perm.of_eq (by simp)) |>.symm |>.trans (List.Perm.of_eq (by simp)) |>.symm

theorem Inv.hubPong (r : SelRes) {s : St} (h : Inv s) : Inv (hubPong r s) := by
  unfold Pox.Recoco.hubPong
  split
  · refine drain_inv _ _ ?_
    have := h
    simp only [Inv, places, incTids, hubTids] at this ⊢
    exact this
  · exact h

theorem Inv.hubDispatch (sc : Scan) (r : SelRes) {s : St} (h : Inv s) : Inv (hubDispatch sc r s) := by
  unfold Pox.Recoco.hubDispatch
  split
  · exact h
  · split
    · exact h
    · split
      · held h
      · exact Inv.returnAll _ h

theorem Inv.hubFinish (sc : Scan) (r : SelRes) {s : St} (h : Inv s) : Inv (hubFinish sc r s) := by
  unfold Pox.Recoco.hubFinish
  split
  · split
    · exact h.hubDelReturn _ _
    · exact h
  · exact (h.hubPong r).hubDispatch sc r

theorem Inv.hubSelect (cfg : Cfg) {s : St} (h : Inv s) : Inv (hubSelect cfg s) := by
  unfold Pox.Recoco.hubSelect
  simp only []
  have h1 := Inv.returnExpired (hubScan s).expired h
  split
  · exact h1
  · refine Inv.hubFinish _ _ ?_; held h1


theorem Inv.cycle (cfg : Cfg) {s : St} (h : Inv s) : Inv (cycle cfg s) := by
  unfold Pox.Recoco.cycle
  refine Inv.cycleExec cfg (Inv.cyclePop ?_); held h

theorem Inv.idleStep (cfg : Cfg) {s : St} (h : Inv s) : Inv (idleStep cfg s) := by
  unfold Pox.Recoco.idleStep
  split
  · exact h.hubSelect cfg
  · exact h

theorem Inv.iter (cfg : Cfg) {s : St} (h : Inv s) : Inv (iter cfg s) := by
  unfold Pox.Recoco.iter
  have h1 := h.idleStep cfg
  split
  · exact h
  · simp only []
    split
    · exact h1
    · exact h1.cycle cfg

theorem Inv.run (cfg : Cfg) : ∀ (n : Nat) {s : St}, Inv s → Inv (run cfg n s)
  | 0, _, h => h
  | n + 1, _, h => Inv.run cfg n (h.iter cfg)

/-- the initial task table seen through any projection that ignores the priority -/
theorem initSt_view {β} (g : Task → β) (hg : ∀ k p, g { k with prio := p } = g k)
    (t0 : Nat) (tasks : List Nat) (timers : List TimerCfg) (ss rs : List (Option Nat)) (ps ds : List Nat) :
    (initSt t0 tasks timers ss rs ps ds).tasks.map g =
      tasks.map (fun k => g { kind := .top k }) ++ (List.range timers.length).map (fun j => g { kind := .timer j }) := by
  simp [initSt, applyPrios_map g hg, List.map_map, Function.comp_def]

theorem initSt_tasks_get (t0 : Nat) (tasks : List Nat) (timers : List TimerCfg) (ss rs : List (Option Nat)) (ps ds : List Nat) (t : Nat) :
    ∀ tk, (initSt t0 tasks timers ss rs ps ds).tasks[t]? = some tk →
      t < tasks.length + timers.length ∧ tk.st = .live ∧ (∀ k p, tk.kind ≠ .sub k p) := by
  intro tk h0
  have h : ((initSt t0 tasks timers ss rs ps ds).tasks.map (fun k => (k.st, k.kind)))[t]? = some (tk.st, tk.kind) := by simp [h0]
  rw [initSt_view (fun k => (k.st, k.kind)) (fun _ _ => rfl)] at h
  simp only [List.getElem?_append, List.length_map, List.getElem?_map, List.length_range] at h
  split at h
  · rename_i hlt
    cases hg : tasks[t]? with
    | none => simp [hg] at h
    | some k => simp [hg] at h; exact ⟨by omega, h.1.symm, by rw [← h.2]; simp⟩
  · cases hg : (List.range timers.length)[t - tasks.length]? with
    | none => simp [hg] at h
    | some j =>
      simp [hg] at h
      have := List.getElem?_eq_some_iff.mp hg
      obtain ⟨hlt, _⟩ := this
      simp at hlt
      exact ⟨by omega, h.1.symm, by rw [← h.2]; simp⟩

theorem Inv.init (t0 : Nat) (tasks : List Nat) (timers : List TimerCfg) (ss rs : List (Option Nat)) (ps ds : List Nat) :
    Inv (initSt t0 tasks timers ss rs ps ds) := by
  have hpl : places (initSt t0 tasks timers ss rs ps ds) = List.range (tasks.length + timers.length) := by
    simp [places, initSt, incTids, hubTids]
  refine ⟨by rw [hpl]; exact List.nodup_range, ?_, ?_, ?_⟩
  · intro t ht
    rw [hpl, List.mem_range] at ht
    have hlen : (initSt t0 tasks timers ss rs ps ds).tasks.length = tasks.length + timers.length := by simp [initSt]
    have hsome : ∃ tk, (initSt t0 tasks timers ss rs ps ds).tasks[t]? = some tk :=
      ⟨_, List.getElem?_eq_getElem (by omega)⟩
    obtain ⟨tk, htk⟩ := hsome
    simp only [stL, htk, Option.map_some]
    rw [(initSt_tasks_get _ _ _ _ _ _ _ _ tk htk).2.1]
  · intro c k p hk
    simp only [kdL] at hk
    cases htk : (initSt t0 tasks timers ss rs ps ds).tasks[c]? with
    | none => simp [htk] at hk
    | some tk => simp [htk] at hk; exact absurd hk ((initSt_tasks_get _ _ _ _ _ _ _ _ tk htk).2.2 k p)
  · intro c c' k k' p hk
    simp only [kdL] at hk
    cases htk : (initSt t0 tasks timers ss rs ps ds).tasks[c]? with
    | none => simp [htk] at hk
    | some tk => simp [htk] at hk; exact absurd hk ((initSt_tasks_get _ _ _ _ _ _ _ _ tk htk).2.2 k p)


/-! ## Part 2: frames of the hub side, program order

The select hub (everything under `idleStep`) changes a task only in its `rv` field and never touches the trace, the timers, the
scripts or the running slot. -/

def eraseRv (k : Task) : Task := { k with rv := .none }

theorem map_modify_of {α β} (g : α → β) (f : α → α) (h : ∀ a, g (f a) = g a) (l : List α) (u : Nat) :
    (l.modify u f).map g = l.map g := by
  apply List.ext_getElem?
  intro i
  simp only [List.getElem?_map, List.getElem?_modify]
  cases l[i]? with
  | none => rfl
  | some a => by_cases e : u = i <;> simp [e, h]

structure HubFr (s s' : St) : Prop where
  trace : s'.trace = s.trace
  timers : s'.timers = s.timers
  running : s'.running = s.running
  tasks : s'.tasks.map eraseRv = s.tasks.map eraseRv
  sendScript : s'.sendScript = s.sendScript
  recvScript : s'.recvScript = s.recvScript
  cycles : s'.cycles = s.cycles

theorem HubFr.refl (s : St) : HubFr s s := ⟨rfl, rfl, rfl, rfl, rfl, rfl, rfl⟩
theorem HubFr.trans {a b c : St} (h1 : HubFr a b) (h2 : HubFr b c) : HubFr a c :=
  ⟨h2.trace.trans h1.trace, h2.timers.trans h1.timers, h2.running.trans h1.running, h2.tasks.trans h1.tasks,
   h2.sendScript.trans h1.sendScript, h2.recvScript.trans h1.recvScript, h2.cycles.trans h1.cycles⟩

theorem HubFr.of_after {a b c : St} (h2 : HubFr b c) (h1 : HubFr a b) : HubFr a c := h1.trans h2

theorem HubFr.hubDelReturn (s : St) (t : Nat) (v : Val) : HubFr s (hubDelReturn s t v) := by
  unfold Pox.Recoco.hubDelReturn hubReturn fastSchedule
  split
  · split
    all_goals
      refine ⟨rfl, rfl, rfl, ?_, rfl, rfl, rfl⟩
      simp only [setTask_tasks]
      refine map_modify_of _ _ ?_ _ _
      intro _; rfl
  · exact ⟨rfl, rfl, rfl, rfl, rfl, rfl, rfl⟩

theorem HubFr.returnAll : ∀ (rets : Rets) (s : St), HubFr s (returnAll s rets)
  | [], s => HubFr.refl s
  | (t, (a, b, c)) :: r, s => by
    simp only [Pox.Recoco.returnAll]
    split
    · exact HubFr.hubDelReturn _ _ _
    · exact (HubFr.hubDelReturn _ _ _).trans (HubFr.returnAll r _)

theorem HubFr.returnExpired : ∀ (l : List Nat) (s : St), HubFr s (returnExpired s l)
  | [], s => HubFr.refl s
  | t :: r, s => by
    simp only [Pox.Recoco.returnExpired]
    split
    · exact HubFr.hubDelReturn _ _ _
    · exact (HubFr.hubDelReturn _ _ _).trans (HubFr.returnExpired r _)

theorem HubFr.drain : ∀ (l : List HubEntry) (s : St), HubFr s (drain s l)
  | [], s => ⟨rfl, rfl, rfl, rfl, rfl, rfl, rfl⟩
  | e :: r, s => by
    simp only [Pox.Recoco.drain]
    split
    · exact ⟨rfl, rfl, rfl, rfl, rfl, rfl, rfl⟩
    · refine HubFr.of_after (HubFr.drain r _) ?_
      exact ⟨rfl, rfl, rfl, rfl, rfl, rfl, rfl⟩

theorem HubFr.hubPong (r : SelRes) (s : St) : HubFr s (hubPong r s) := by
  unfold Pox.Recoco.hubPong
  split
  · refine HubFr.of_after (HubFr.drain _ _) ?_
    exact ⟨rfl, rfl, rfl, rfl, rfl, rfl, rfl⟩
  · exact HubFr.refl s

theorem HubFr.hubDispatch (sc : Scan) (r : SelRes) (s : St) : HubFr s (hubDispatch sc r s) := by
  unfold Pox.Recoco.hubDispatch
  split
  · exact HubFr.refl s
  · split
    · exact HubFr.refl s
    · split
      · exact ⟨rfl, rfl, rfl, rfl, rfl, rfl, rfl⟩
      · exact HubFr.returnAll _ _

theorem HubFr.hubFinish (sc : Scan) (r : SelRes) (s : St) : HubFr s (hubFinish sc r s) := by
  unfold Pox.Recoco.hubFinish
  split
  · split
    · exact HubFr.hubDelReturn _ _ _
    · exact HubFr.refl s
  · exact (HubFr.hubPong r s).trans (HubFr.hubDispatch sc r _)

theorem HubFr.hubSelect (cfg : Cfg) (s : St) : HubFr s (hubSelect cfg s) := by
  unfold Pox.Recoco.hubSelect
  simp only []
  split
  · exact HubFr.returnExpired _ _
  · refine HubFr.of_after (HubFr.hubFinish _ _ _) (HubFr.of_after ?_ (HubFr.returnExpired (hubScan s).expired s))
    exact ⟨rfl, rfl, rfl, rfl, rfl, rfl, rfl⟩

theorem HubFr.idleStep (cfg : Cfg) (s : St) : HubFr s (idleStep cfg s) := by
  unfold Pox.Recoco.idleStep
  split
  · exact HubFr.hubSelect cfg s
  · exact HubFr.refl s


/-! ### program order -/

/-- the part of a task that only its own step changes -/
def ctl (k : Task) : Kind × Nat × Status := (k.kind, k.pc, k.st)

def pcC (cl : List (Kind × Nat × Status)) (t : Nat) : Nat :=
  match cl[t]? with
  | some c => c.2.1
  | none => 0

def stepIdx (t : Nat) : Ev → Option Nat
  | .step t' i _ _ _ _ => if t' = t then some i else none
  | .fire _ _ _ => none

/-- the program a task's generator executes (timers have their own fixed body) -/
def progOf (cfg : Cfg) : Kind → Option (List Y)
  | .top k => cfg.progs[k]?
  | .sub k _ => cfg.progs[k]?
  | .timer _ => none

/-- `ex`: a task in the middle of its step may momentarily have `pc = len + 1` before its status is updated -/
structure POv (cfg : Cfg) (ex : Option Nat) (tr : List Ev) (cl : List (Kind × Nat × Status)) : Prop where
  idx : ∀ t, tr.filterMap (stepIdx t) = List.range (pcC cl t)
  bound : ∀ t c prog, cl[t]? = some c → progOf cfg c.1 = some prog →
            c.2.1 ≤ prog.length + 1 ∧ (c.2.2 = .live → ex ≠ some t → c.2.1 ≤ prog.length)

def PO (cfg : Cfg) (s : St) : Prop := POv cfg none s.trace (s.tasks.map ctl)

@[simp] theorem map_ctl_modify {l : List Task} {u : Nat} {f : Task → Task}
    (h : ∀ k, (f k).kind = k.kind ∧ (f k).pc = k.pc ∧ (f k).st = k.st) :
    (l.modify u f).map ctl = l.map ctl :=
  map_modify_of ctl f (fun k => by simp only [ctl, (h k).1, (h k).2.1, (h k).2.2]) l u

theorem POv.fire {cfg ex tr cl} (h : POv cfg ex tr cl) (t n tm : Nat) : POv cfg ex (tr ++ [.fire t n tm]) cl :=
  ⟨fun u => by rw [List.filterMap_append, h.idx u]; simp [stepIdx], h.bound⟩

theorem POv.status {cfg ex tr cl} (h : POv cfg ex tr cl) (t : Nat) (x : Status) (hx : x ≠ .live) :
    POv cfg ex tr (cl.modify t (fun c => (c.1, c.2.1, x))) := by
  refine ⟨fun u => ?_, fun u c prog hc hp => ?_⟩
  · rw [h.idx u]; congr 1
    simp only [pcC, List.getElem?_modify]
    cases cl[u]? with
    | none => rfl
    | some c => by_cases e : t = u <;> simp [e]
  · simp only [List.getElem?_modify] at hc
    cases hcl : cl[u]? with
    | none => simp [hcl] at hc
    | some c0 =>
      by_cases e : t = u
      · simp [hcl, e] at hc; subst hc
        exact ⟨(h.bound u c0 prog hcl hp).1, fun hl => absurd hl hx⟩
      · simp [hcl, e] at hc; subst hc
        exact h.bound u c0 prog hcl hp

theorem POv.push {cfg ex tr cl} (h : POv cfg ex tr cl) (kd : Kind) : POv cfg ex tr (cl ++ [(kd, 0, .live)]) := by
  refine ⟨fun u => ?_, fun u c prog hc hp => ?_⟩
  · rw [h.idx u]; congr 1
    simp only [pcC]
    by_cases lt : u < cl.length
    · rw [List.getElem?_append_left lt]
    · by_cases e : u = cl.length
      · subst e; simp
      · have h1 : cl.length ≤ u := by omega
        have h2 : (cl ++ [(kd, 0, Status.live)]).length ≤ u := by rw [List.length_append, List.length_singleton]; omega
        rw [List.getElem?_eq_none h2, List.getElem?_eq_none h1]
  · by_cases lt : u < cl.length
    · rw [List.getElem?_append_left lt] at hc; exact h.bound u c prog hc hp
    · by_cases e : u = cl.length
      · subst e; simp at hc; subst hc; exact ⟨by simp, fun _ _ => by simp⟩
      · have h2 : (cl ++ [(kd, 0, Status.live)]).length ≤ u := by rw [List.length_append, List.length_singleton]; omega
        rw [List.getElem?_eq_none h2] at hc; cases hc

/-- the generator of `t` is resumed: one more step event, `pc + 1`; `t` becomes the exempt task -/
theorem POv.step {cfg tr cl} (h : POv cfg none tr cl) (t : Nat) (c : Kind × Nat × Status) (hc : cl[t]? = some c)
    (hl : c.2.2 = .live) (tm : Nat) (r : Recv) (raw : Val) (w : Option (Nat × Bool)) :
    POv cfg (some t) (tr ++ [.step t c.2.1 tm r raw w]) (cl.modify t (fun c => (c.1, c.2.1 + 1, c.2.2))) := by
  refine ⟨fun u => ?_, fun u c' prog hc' hp => ?_⟩
  · rw [List.filterMap_append, h.idx u]
    simp only [pcC, List.getElem?_modify, List.filterMap_cons, List.filterMap_nil, stepIdx]
    by_cases e : t = u
    · subst e; simp [hc, List.range_succ]
    · simp only [e, if_false]
      cases cl[u]? <;> simp
  · simp only [List.getElem?_modify] at hc'
    cases hcl : cl[u]? with
    | none => simp [hcl] at hc'
    | some c0 =>
      by_cases e : t = u
      · subst e
        simp [hcl] at hc'; subst hc'
        rw [hc] at hcl; cases hcl
        have := (h.bound t c prog hc hp).2 hl (by simp)
        exact ⟨by simp; omega, fun _ hne => absurd rfl hne⟩
      · simp [hcl, e] at hc'; subst hc'
        have := h.bound u c0 prog hcl hp
        exact ⟨this.1, fun hl' _ => this.2 hl' (by simp)⟩

/-- the exempt task is done with its step: either it is no longer live or it still has a yield to come back from -/
theorem POv.restore {cfg tr cl} {t : Nat} (h : POv cfg (some t) tr cl)
    (ht : ∀ c prog, cl[t]? = some c → progOf cfg c.1 = some prog → c.2.2 = .live → c.2.1 ≤ prog.length) : POv cfg none tr cl :=
  ⟨h.idx, fun u c prog hc hp => ⟨(h.bound u c prog hc hp).1, fun hl _ => by
    by_cases e : u = t
    · subst e; exact ht c prog hc hp hl
    · exact (h.bound u c prog hc hp).2 hl (by simp; exact fun h => e h.symm)⟩⟩

theorem POv.weaken {cfg tr cl} {t : Nat} (h : POv cfg none tr cl) : POv cfg (some t) tr cl :=
  ⟨h.idx, fun u c prog hc hp => ⟨(h.bound u c prog hc hp).1, fun hl _ => (h.bound u c prog hc hp).2 hl (by simp)⟩⟩


theorem POv.status_restore {cfg tr cl} {t : Nat} (h : POv cfg (some t) tr cl) (x : Status) (hx : x ≠ .live) :
    POv cfg none tr (cl.modify t (fun c => (c.1, c.2.1, x))) := by
  refine (h.status t x hx).restore ?_
  intro c prog hc _ hl
  simp only [List.getElem?_modify] at hc
  cases hcl : cl[t]? with
  | none => simp [hcl] at hc
  | some c0 => simp [hcl] at hc; subst hc; exact absurd hl hx

theorem map_ctl_setStatus (l : List Task) (t : Nat) (x : Status) :
    (l.modify t (fun k => { k with st := x })).map ctl = (l.map ctl).modify t (fun c => (c.1, c.2.1, x)) := by
  apply List.ext_getElem?
  intro i
  simp only [List.getElem?_map, List.getElem?_modify]
  cases l[i]? with
  | none => rfl
  | some a => by_cases e : t = i <;> simp [e, ctl]

def POx (cfg : Cfg) (ex : Option Nat) (s : St) : Prop := POv cfg ex s.trace (s.tasks.map ctl)

/-- closes `POx cfg ex s'` from `h : POx cfg ex s` when `s'` has the same trace and the same `ctl` of every task -/
syntax "po " term : tactic
macro_rules
  | `(tactic| po $h) => `(tactic| (
      have hh := $h
      simp only [POx, PO, setTask_tasks, setTask_trace, map_ctl_modify, and_self, implies_true, cancelTimer] at hh ⊢
      exact hh))

theorem POx.fastSchedule {cfg ex} {s : St} (h : POx cfg ex s) (t : Nat) (first : Bool) : POx cfg ex (fastSchedule s t first) := by
  unfold Pox.Recoco.fastSchedule; split <;> po h

theorem POx.registerSelect {cfg ex} {s : St} (h : POx cfg ex s) (t : Nat) (rl wl xl : List Nat) (tto : Option Nat) :
    POx cfg ex (registerSelect s t rl wl xl tto) := by
  unfold Pox.Recoco.registerSelect; po h

theorem POx.setStatus {cfg} {s : St} {t : Nat} (h : POx cfg (some t) s) (x : Status) (hx : x ≠ .live) :
    POx cfg none (setStatus s t x) := by
  have := h.status_restore x hx
  rw [← map_ctl_setStatus] at this
  exact this

theorem POx.finishSub {cfg} {s : St} {t : Nat} (h : POx cfg (some t) s) (p : Nat) : POx cfg none (finishSub s t p) :=
  POx.fastSchedule (h.setStatus .done (by simp)) p true

theorem POx.doYield {cfg ex} {s : St} (h : POx cfg ex s) (t : Nat) (y : Y) : POx cfg ex (doYield s t y) := by
  cases y with
  | num n => cases n with
    | zero => simp only [Pox.Recoco.doYield]; po h
    | succ n => exact h.registerSelect _ _ _ _ _
  | block => exact h
  | sleep d => cases d with
    | none => exact h
    | some d =>
      simp only [Pox.Recoco.doYield]
      split
      · refine POx.fastSchedule ?_ _ _; po h
      · exact h.registerSelect _ _ _ _ _
  | sleepAbs w =>
    simp only [Pox.Recoco.doYield]
    split
    · refine POx.fastSchedule ?_ _ _; po h
    · exact h.registerSelect _ _ _ _ _
  | select r w x to => exact h.registerSelect _ _ _ _ _
  | recv fd to => refine POx.registerSelect ?_ _ _ _ _ _; po h
  | send fd len to bs => refine POx.registerSelect ?_ _ _ _ _ _; po h
  | exit => simp only [Pox.Recoco.doYield]; po h
  | raise n => exact h
  | again k c =>
    simp only [Pox.Recoco.doYield]
    refine POx.fastSchedule ?_ _ _
    have := POv.push h (.sub k t)
    simp only [POx, List.map_append, List.map_cons, List.map_nil, ctl]
    exact this
  | cancel j => simp only [Pox.Recoco.doYield]; po h

theorem POx.timerStep {cfg ex} {s : St} (h : POx cfg ex s) (t j pc : Nat) : POx cfg ex (timerStep s t j pc) := by
  unfold Pox.Recoco.timerStep
  split
  · po h
  · split
    · simp only [Pox.Recoco.setStatus]
      have := POv.status h t .done (by simp)
      rw [← map_ctl_setStatus] at this
      exact this
    · split
      · po h
      · split
        · exact h.doYield _ _
        · simp only
          rename_i tm _ _ _ _
          have hf : POx cfg ex { s with
              timers := s.timers.modify j (fun m => { m with
                next := s.now + (if tm.cfg.recurring then tm.cfg.delay else 0), fired := m.fired + 1 }),
              trace := s.trace ++ [.fire t tm.fired s.now] } := POv.fire h _ _ _
          split
          · po hf
          · exact hf.doYield _ _

theorem genStep_yield_lt {n : Nat} {prog : List Y} {pc : Nat} {r : Recv} {y : Y} (h : genStep n prog pc r = .yield y) :
    pc < prog.length := by
  unfold genStep at h
  have key : ∀ o, (match prog[pc]? with
      | none => Out.stop
      | some (.raise n) => .raise (.user n)
      | some (.cancel j) => if j < n then .yield (.cancel j) else .raise .indexError
      | some y => .yield y) = o → o = .yield y → pc < prog.length := by
    intro o ho hy
    cases hp : prog[pc]? with
    | none => rw [hp] at ho; subst ho; cases hy
    | some _ => exact (List.getElem?_eq_some_iff.mp hp).1
  split at h
  · cases h
  · exact key _ rfl h


theorem POx.execPre {cfg ex} {s : St} (h : POx cfg ex s) (t : Nat) (tk : Task) : POx cfg ex (execPre cfg s t tk).2 := by
  unfold Pox.Recoco.execPre
  simp only []
  repeat' split
  all_goals first
    | po h
    | (refine POx.registerSelect ?_ _ _ _ _ _; po h)

theorem ctl_get {l : List Task} {t : Nat} {tk : Task} (h : l[t]? = some tk) : (l.map ctl)[t]? = some (ctl tk) := by
  simp [h]

theorem POx.topOut {cfg} {s : St} {t k : Nat} {prog : List Y} (h : POx cfg (some t) s) (c : Kind × Nat × Status)
    (ht : (s.tasks.map ctl)[t]? = some c) (hk : progOf cfg c.1 = some prog) (pc : Nat) (hpc : c.2.1 = pc + 1) (r : Recv) :
    POx cfg none (topOut s t (genStep k prog pc r)) := by
  cases hg : genStep k prog pc r with
  | stop => exact h.setStatus _ (by simp)
  | raise e => exact h.setStatus _ (by simp)
  | yield y =>
    refine POx.doYield (POv.restore h ?_) _ _
    intro c' prog' hc hp _
    rw [ht] at hc; cases hc
    rw [hk] at hp; cases hp
    have := genStep_yield_lt hg; omega

theorem POx.subOut {cfg} {fx : Bool} {s : St} {t k p : Nat} {prog : List Y} (h : POx cfg (some t) s) (c : Kind × Nat × Status)
    (ht : (s.tasks.map ctl)[t]? = some c) (hk : progOf cfg c.1 = some prog) (pc : Nat) (hpc : c.2.1 = pc + 1) (r : Recv) :
    POx cfg none (subOut fx s t p pc (genStep k prog pc r)) := by
  have fin : ∀ (f : Task → Task), (∀ k, (f k).kind = k.kind ∧ (f k).pc = k.pc ∧ (f k).st = k.st) →
      POx cfg none (Pox.Recoco.finishSub (setTask s p f) t p) := by
    intro f hf
    refine POx.finishSub ?_ p
    have := h
    simp only [POx, setTask_tasks, setTask_trace, map_ctl_modify hf] at this ⊢
    exact this
  have rest : ∀ y, genStep k prog pc r = .yield y → POx cfg none s := fun y hg =>
    POv.restore h (fun c' prog' hc hp _ => by
      rw [ht] at hc; cases hc
      rw [hk] at hp; cases hp
      have := genStep_yield_lt hg; omega)
  cases hg : genStep k prog pc r with
  | raise e => exact fin _ (fun _ => ⟨rfl, rfl, rfl⟩)
  | stop =>
    simp only [Pox.Recoco.subOut]
    split
    · exact fin _ (fun _ => ⟨rfl, rfl, rfl⟩)
    · exact h.finishSub p
  | yield y =>
    simp only [Pox.Recoco.subOut]
    split
    · exact POx.doYield (rest y hg) _ _
    · split
      · exact fin _ (fun _ => ⟨rfl, rfl, rfl⟩)
      · exact fin _ (fun _ => ⟨rfl, rfl, rfl⟩)
      · rename_i j _
        have h' : POx cfg (some t) (cancelTimer s j) := by po h
        refine POx.finishSub (s := setTask (cancelTimer s j) p _) ?_ p
        po h'
      · exact rest y hg

theorem PO.resumeGen {cfg : Cfg} {s : St} {t : Nat} {tk : Task} (h : PO cfg s) (ht : s.tasks[t]? = some tk)
    (hl : tk.st = .live) (r : Recv) (raw : Val) : PO cfg (resumeGen cfg s t tk r raw) := by
  -- the step event and `pc + 1`
  have h0 : POx cfg (some t) { Pox.Recoco.setTask s t (fun k => { k with pc := k.pc + 1, wake := none }) with
                   trace := s.trace ++ [.step t tk.pc s.now r raw tk.wake] } := by
    have := POv.step h t (ctl tk) (ctl_get ht) hl s.now r raw tk.wake
    simp only [POx, setTask_tasks]
    have e : (s.tasks.modify t (fun k => { k with pc := k.pc + 1, wake := none })).map ctl
        = (s.tasks.map ctl).modify t (fun c => (c.1, c.2.1 + 1, c.2.2)) := by
      apply List.ext_getElem?
      intro i
      simp only [List.getElem?_map, List.getElem?_modify]
      cases s.tasks[i]? with
      | none => rfl
      | some a => by_cases e : t = i <;> simp [e, ctl]
    rw [e]; exact this
  have ht0 : (({ Pox.Recoco.setTask s t (fun k => { k with pc := k.pc + 1, wake := none }) with
                   trace := s.trace ++ [.step t tk.pc s.now r raw tk.wake] } : St).tasks.map ctl)[t]?
      = some (tk.kind, tk.pc + 1, tk.st) := by
    simp [List.getElem?_modify, ht, ctl]
  unfold Pox.Recoco.resumeGen
  simp only
  split
  · rename_i k hkind
    split
    · rename_i hnone
      have : POx cfg none _ := POv.restore h0 (fun c prog hc hp _ => by
        rw [ht0] at hc; cases hc
        simp only [hkind, progOf, hnone] at hp; cases hp)
      po this
    · rename_i prog hprog
      exact POx.topOut h0 _ ht0 (by simp [progOf, hkind, hprog]) tk.pc rfl r
  · rename_i k p hkind
    split
    · rename_i hnone
      have : POx cfg none _ := POv.restore h0 (fun c prog hc hp _ => by
        rw [ht0] at hc; cases hc
        simp only [hkind, progOf, hnone] at hp; cases hp)
      po this
    · rename_i prog hprog
      split
      · refine POx.subOut (s := setTask _ p _) ?_ (tk.kind, tk.pc + 1, tk.st) ?_ (by simp [progOf, hkind, hprog]) tk.pc rfl r
        · po h0
        · simp only [setTask_tasks, map_ctl_modify, and_self, implies_true]; exact ht0
      · exact POx.subOut h0 _ ht0 (by simp [progOf, hkind, hprog]) tk.pc rfl r
  · rename_i j hkind
    refine POx.timerStep (POv.restore h0 (fun c prog hc hp _ => ?_)) _ _ _
    rw [ht0] at hc; cases hc
    simp only [hkind, progOf] at hp; cases hp


theorem execPre_ctl (cfg : Cfg) (s : St) (t : Nat) (tk : Task) : (execPre cfg s t tk).2.tasks.map ctl = s.tasks.map ctl := by
  unfold Pox.Recoco.execPre
  simp only []
  repeat' split
  all_goals simp only [setTask_tasks, registerSelect, map_ctl_modify, and_self, implies_true]

theorem PO.cycleExec {cfg : Cfg} {s : St} (hi : Inv s) (h : PO cfg s) : PO cfg (cycleExec cfg s) := by
  unfold Pox.Recoco.cycleExec
  split
  · exact h
  · rename_i t hr
    have h0 : POx cfg none { s with running := none } := h
    simp only
    split
    · po h0
    · rename_i tk htk
      have hl : tk.st = .live := by
        have := hi.live t (by simp [places, hr])
        simp only [stL] at this
        have htk' : s.tasks[t]? = some tk := htk
        rw [htk'] at this; simpa using this
      have hp := h0.execPre t tk
      have hc := execPre_ctl cfg { s with running := none } t tk
      split
      · rename_i s1 he; rw [he] at hp; exact hp
      · rename_i e s1 he; rw [he] at hp
        have := POv.status hp t .dead (by simp)
        rw [← map_ctl_setStatus] at this
        exact this
      · rename_i r s1 he; rw [he] at hp hc
        split
        · po hp
        · rename_i tk1 htk1
          refine PO.resumeGen hp htk1 ?_ r _
          have e1 := ctl_get htk1
          have e2 := ctl_get (l := s.tasks) htk
          simp only at hc
          rw [hc, e2] at e1
          simp only [ctl, Option.some.injEq, Prod.mk.injEq] at e1
          rw [← e1.2.2]; exact hl

theorem PO.cycle {cfg : Cfg} {s : St} (hi : Inv s) (h : PO cfg s) : PO cfg (cycle cfg s) := by
  unfold Pox.Recoco.cycle
  have hi' : Inv (cyclePop { s with cycles := s.cycles + 1 }) := by refine Inv.cyclePop ?_; held hi
  refine PO.cycleExec hi' ?_
  unfold Pox.Recoco.cyclePop
  split
  · po h
  · split
    · po h
    · po h

theorem HubFr.ctl_eq {s s' : St} (h : HubFr s s') : s'.tasks.map Pox.Recoco.ctl = s.tasks.map Pox.Recoco.ctl := by
  have e : ∀ l : List Task, l.map Pox.Recoco.ctl = (l.map eraseRv).map Pox.Recoco.ctl := by
    intro l; rw [List.map_map]; rfl
  rw [e s'.tasks, e s.tasks, h.tasks]

theorem HubFr.po {cfg : Cfg} {s s' : St} (hf : HubFr s s') (h : PO cfg s) : PO cfg s' := by
  unfold PO at *; rw [hf.trace, hf.ctl_eq]; exact h

theorem PO.iter {cfg : Cfg} {s : St} (hi : Inv s) (h : PO cfg s) : PO cfg (iter cfg s) := by
  unfold Pox.Recoco.iter
  have h1 := (HubFr.idleStep cfg s).po h
  have hi1 := hi.idleStep cfg
  split
  · exact h
  · simp only []
    split
    · exact h1
    · exact PO.cycle hi1 h1

theorem PO.run (cfg : Cfg) : ∀ (n : Nat) {s : St}, Inv s → PO cfg s → PO cfg (run cfg n s)
  | 0, _, _, h => h
  | n + 1, _, hi, h => PO.run cfg n (hi.iter cfg) (PO.iter hi h)

theorem PO.init (cfg : Cfg) (t0 : Nat) (tasks : List Nat) (timers : List TimerCfg) (ss rs : List (Option Nat)) (ps ds : List Nat) :
    PO cfg (initSt t0 tasks timers ss rs ps ds) := by
  have hpc : ∀ (t : Nat) (c : Kind × Nat × Status), ((initSt t0 tasks timers ss rs ps ds).tasks.map ctl)[t]? = some c → c.2.1 = 0 := by
    intro t c hc
    rw [initSt_view ctl (fun _ _ => rfl)] at hc
    simp only [List.getElem?_append, List.getElem?_map, List.length_map] at hc
    split at hc
    · cases h : tasks[t]? with
      | none => simp [h] at hc
      | some k => simp [h, ctl] at hc; rw [← hc]
    · cases h : (List.range timers.length)[t - tasks.length]? with
      | none => simp [h] at hc
      | some k => simp [h, ctl] at hc; rw [← hc]
  refine ⟨fun t => ?_, fun t c prog hc _ => ?_⟩
  · simp only [pcC]
    cases h : ((initSt t0 tasks timers ss rs ps ds).tasks.map ctl)[t]? with
    | none => simp [initSt]
    | some c => simp [hpc t c h, initSt]
  · rw [hpc t c hc]; exact ⟨by omega, fun _ _ => by omega⟩


/-! ## Part 3: a timed wait is never resumed early -/

/-- resumed now, would the generator be sent the timeout value `([],[],[])`? -/
def plainTimeout (k : Task) : Prop := k.rv = timeoutVal

def wkL (l : List Task) (t : Nat) : Option (Nat × Bool) := (l[t]?).bind (·.wake)
def ptL (l : List Task) (t : Nat) : Prop := ∃ k, l[t]? = some k ∧ plainTimeout k

structure NEA (hd : List Nat) (ents : List HubEntry) (rdy : List Nat) (now : Nat) (wk : Nat → Option (Nat × Bool))
    (pt : Nat → Prop) (st : Nat → Option Status) : Prop where
  entry : ∀ e ∈ ents, wk e.tid = e.tto.map (fun w => (w, e.hasFds))
  ready : ∀ t ∈ hd ++ rdy, ∀ w fds, wk t = some (w, fds) → (fds = false ∨ pt t) → w ≤ now
  blocked : ∀ t, st t = some .live → t ∉ hd ++ (rdy ++ ents.map (·.tid)) → wk t = none

theorem NEA.mono {hd hd' ents ents' rdy rdy' now now' wk pt pt' st st'} (h : NEA hd ents rdy now wk pt st)
    (he : ∀ e ∈ ents', e ∈ ents) (hr : ∀ u ∈ hd' ++ rdy', u ∈ hd ++ rdy)
    (hp : ∀ u, u ∈ hd ++ (rdy ++ ents.map (·.tid)) → u ∈ hd' ++ (rdy' ++ ents'.map (·.tid)) ∨ st' u ≠ some .live ∨ wk u = none)
    (hn : now ≤ now') (hs : ∀ u, st' u = some .live → st u = some .live) (hpt : ∀ u ∈ hd' ++ rdy', pt' u → pt u) :
    NEA hd' ents' rdy' now' wk pt' st' := by
  refine ⟨fun e h' => h.entry e (he e h'), ?_, ?_⟩
  · intro u hu w fds hw hc
    exact Nat.le_trans (h.ready u (hr u hu) w fds hw (hc.imp id (hpt u hu))) hn
  · intro u hl hnp
    by_cases hm : u ∈ hd ++ (rdy ++ ents.map (·.tid))
    · rcases hp u hm with h1 | h1 | h1
      · exact absurd h1 hnp
      · exact absurd hl h1
      · exact h1
    · exact h.blocked u (hs u hl) hm

theorem NEA.addReady {hd ents rdy rdy' now wk pt st} {t : Nat} (h : NEA hd ents rdy now wk pt st)
    (hr : ∀ u, u ∈ rdy' ↔ u = t ∨ u ∈ rdy) (ht : ∀ w fds, wk t = some (w, fds) → (fds = false ∨ pt t) → w ≤ now) :
    NEA hd ents rdy' now wk pt st := by
  refine ⟨h.entry, ?_, ?_⟩
  · intro u hu w fds hw hc
    rcases List.mem_append.mp hu with h1 | h1
    · exact h.ready u (List.mem_append_left _ h1) w fds hw hc
    · rcases (hr u).mp h1 with rfl | h2
      · exact ht w fds hw hc
      · exact h.ready u (List.mem_append_right _ h2) w fds hw hc
  · intro u hl hnp
    refine h.blocked u hl (fun hm => hnp ?_)
    simp only [List.mem_append] at hm ⊢
    rcases hm with h1 | h1 | h1
    · exact .inl h1
    · exact .inr (.inl ((hr u).mpr (.inr h1)))
    · exact .inr (.inr h1)

theorem NEA.setWk {hd ents rdy now wk wk' pt st} {t : Nat} (h : NEA hd ents rdy now wk pt st)
    (hne : t ∉ ents.map (·.tid)) (hwk : ∀ u, u ≠ t → wk' u = wk u)
    (h1 : t ∈ hd ++ rdy → ∀ w fds, wk' t = some (w, fds) → (fds = false ∨ pt t) → w ≤ now)
    (h2 : t ∉ hd ++ rdy → wk' t = none) : NEA hd ents rdy now wk' pt st := by
  refine ⟨?_, ?_, ?_⟩
  · intro e he
    have : e.tid ≠ t := fun e' => hne (e' ▸ List.mem_map_of_mem he)
    rw [hwk _ this]; exact h.entry e he
  · intro u hu w fds hw hc
    by_cases e : u = t
    · subst e; exact h1 hu w fds hw hc
    · rw [hwk u e] at hw; exact h.ready u hu w fds hw hc
  · intro u hl hnp
    by_cases e : u = t
    · subst e; exact h2 (fun hm => hnp (by simp only [List.mem_append] at hm ⊢; rcases hm with h|h; exact .inl h; exact .inr (.inl h)))
    · rw [hwk u e]; exact h.blocked u hl hnp

/-- the held task registers a wait with the hub -/
theorem NEA.register {ents rdy now wk wk' pt pt' st} {t : Nat} (e : HubEntry) (h : NEA [t] ents rdy now wk pt st)
    (het : e.tid = t) (hne : t ∉ ents.map (·.tid)) (hnr : t ∉ rdy) (hwk : ∀ u, u ≠ t → wk' u = wk u)
    (hw : wk' t = e.tto.map (fun w => (w, e.hasFds))) (hpt : ∀ u, u ≠ t → (pt' u ↔ pt u)) :
    NEA [] (ents ++ [e]) rdy now wk' pt' st := by
  refine ⟨?_, ?_, ?_⟩
  · intro e' he'
    rcases List.mem_append.mp he' with h1 | h1
    · have : e'.tid ≠ t := fun e'' => hne (e'' ▸ List.mem_map_of_mem h1)
      rw [hwk _ this]; exact h.entry e' h1
    · simp only [List.mem_singleton] at h1; subst h1; rw [het, hw]
  · intro u hu w fds hw' hc
    simp only [List.nil_append] at hu
    have : u ≠ t := fun e' => hnr (e' ▸ hu)
    rw [hwk u this] at hw'
    exact h.ready u (List.mem_append_right _ hu) w fds hw' (hc.imp id (hpt u this).mp)
  · intro u hl hnp
    have : u ≠ t := fun e' => hnp (by simp [e', het])
    rw [hwk u this]
    refine h.blocked u hl (fun hm => hnp ?_)
    simp only [List.mem_append, List.mem_cons, List.not_mem_nil, or_false, List.map_append, List.nil_append] at hm ⊢
    rcases hm with h1 | h1 | h1
    · exact absurd h1 this
    · exact .inl h1
    · exact .inr (.inl h1)


/-- `t` leaves the hub (all its entries are dropped from `ents`) and is appended to the ready deque; only its `pt` may change -/
theorem NEA.wake {ents ents' rdy rdy' now wk pt pt' st} {t : Nat} (h : NEA [] ents rdy now wk pt st)
    (hsub : ∀ e ∈ ents', e ∈ ents) (hkeep : ∀ e ∈ ents, e.tid ≠ t → e ∈ ents')
    (hr : ∀ u, u ∈ rdy' ↔ u = t ∨ u ∈ rdy)
    (hpt : ∀ u, u ≠ t → (pt' u ↔ pt u))
    (hv : ∀ e ∈ ents, e.tid = t → ∀ w, e.tto = some w → (e.hasFds = false ∨ pt' t) → w ≤ now)
    (hm : t ∈ ents.map (·.tid)) (hnr : t ∉ rdy) : NEA [] ents' rdy' now wk pt' st := by
  obtain ⟨e0, he0, rfl⟩ := List.mem_map.mp hm
  refine ⟨fun e he => h.entry e (hsub e he), ?_, ?_⟩
  · intro u hu w fds hw hc
    simp only [List.nil_append] at hu
    rcases (hr u).mp hu with rfl | hu
    · have := h.entry e0 he0
      rw [hw] at this
      cases htto : e0.tto with
      | none => simp [htto] at this
      | some w' =>
        simp [htto] at this
        exact hv e0 he0 rfl w (by rw [htto, this.1]) (by rw [← this.2]; exact hc)
    · have : u ≠ e0.tid := fun e => hnr (e ▸ hu)
      exact h.ready u (by simpa using hu) w fds hw (hc.imp id (hpt u this).mp)
  · intro u hl hn
    refine h.blocked u hl (fun hm => hn ?_)
    simp only [List.nil_append, List.mem_append, List.mem_map] at hm ⊢
    rcases hm with h1 | ⟨e, he, rfl⟩
    · exact .inl ((hr u).mpr (.inr h1))
    · by_cases e' : e.tid = e0.tid
      · exact .inl ((hr _).mpr (.inl e'))
      · exact .inr ⟨e, hkeep e he e', rfl⟩

/-- a brand-new task `c` (no wake time yet) is put on the ready deque -/
theorem NEA.push {hd ents rdy rdy' now wk pt pt' st st'} {c : Nat} (h : NEA hd ents rdy now wk pt st) (hc : wk c = none)
    (hr : ∀ u, u ∈ rdy' ↔ u = c ∨ u ∈ rdy) (hst : ∀ u, u ≠ c → st' u = st u) (hpt : ∀ u, u ≠ c → (pt' u ↔ pt u)) :
    NEA hd ents rdy' now wk pt' st' := by
  refine ⟨h.entry, ?_, ?_⟩
  · intro u hu w fds hw hcond
    by_cases e : u = c
    · subst e; rw [hc] at hw; cases hw
    · refine h.ready u ?_ w fds hw (hcond.imp id (hpt u e).mp)
      simp only [List.mem_append] at hu ⊢
      rcases hu with h1 | h1
      · exact .inl h1
      · rcases (hr u).mp h1 with h2 | h2
        · exact absurd h2 e
        · exact .inr h2
  · intro u hl hnp
    by_cases e : u = c
    · subst e; exact hc
    · rw [hst u e] at hl
      refine h.blocked u hl (fun hm => hnp ?_)
      simp only [List.mem_append] at hm ⊢
      rcases hm with h1 | h1 | h1
      · exact .inl h1
      · exact .inr (.inl ((hr u).mpr (.inr h1)))
      · exact .inr (.inr h1)

/-! ### frames for `wkL` / `ptL` -/

@[simp] theorem wkL_modify_keep {l : List Task} {u : Nat} {f : Task → Task} (h : ∀ k, (f k).wake = k.wake) :
    wkL (l.modify u f) = wkL l := by
  funext t
  simp only [wkL, List.getElem?_modify]
  cases l[t]? with
  | none => rfl
  | some a => by_cases e : u = t <;> simp [e, h]

@[simp] theorem ptL_modify_keep {l : List Task} {u : Nat} {f : Task → Task}
    (h : ∀ k, (f k).rf = k.rf ∧ (f k).re = k.re ∧ (f k).rv = k.rv) : ptL (l.modify u f) = ptL l := by
  funext t
  simp only [ptL, List.getElem?_modify, plainTimeout]
  cases l[t]? with
  | none => simp
  | some a => by_cases e : u = t <;> simp [e, h]

theorem wkL_modify_ne {l : List Task} {u t : Nat} {f : Task → Task} (h : t ≠ u) : wkL (l.modify u f) t = wkL l t := by
  simp only [wkL, List.getElem?_modify]
  cases l[t]? with
  | none => rfl
  | some a => have : ¬ u = t := fun e => h e.symm
              simp [this]

theorem ptL_modify_ne {l : List Task} {u t : Nat} {f : Task → Task} (h : t ≠ u) : ptL (l.modify u f) t ↔ ptL l t := by
  simp only [ptL, List.getElem?_modify]
  cases l[t]? with
  | none => simp
  | some a => have : ¬ u = t := fun e => h e.symm
              simp [this]

theorem wkL_modify_self {l : List Task} {t : Nat} {f : Task → Task} {k : Task} (h : l[t]? = some k) :
    wkL (l.modify t f) t = (f k).wake := by
  simp [wkL, List.getElem?_modify, h]

theorem stL_some {l : List Task} {t : Nat} (h : stL l t = some .live) : ∃ k, l[t]? = some k := by
  simp only [stL] at h
  cases hk : l[t]? with
  | none => simp [hk] at h
  | some k => exact ⟨k, rfl⟩

def evOK : Ev → Prop
  | .step _ _ tm _ raw (some (w, fds)) => (fds = false ∨ raw = timeoutVal) → w ≤ tm
  | _ => True

def ents (s : St) : List HubEntry := s.incoming ++ s.hub

def NEx (hd : List Nat) (s : St) : Prop :=
  NEA hd (ents s) s.ready s.now (wkL s.tasks) (ptL s.tasks) (stL s.tasks) ∧ ∀ ev ∈ s.trace, evOK ev

theorem ents_tids (s : St) : (ents s).map (·.tid) = incTids s ++ hubTids s := by simp [ents, incTids, hubTids]

theorem Inv.not_ready_of_hub {s : St} (hi : Inv s) {t : Nat} (hm : t ∈ hubTids s) : t ∉ s.ready := by
  intro hr
  have := hi.nodup
  simp only [places] at this
  have h2 := (List.nodup_append.mp this).2.1
  exact (List.nodup_append.mp h2).2.2 t hr t (List.mem_append_right _ hm) rfl

theorem NEx.hubDelReturn {s : St} (h : NEx [] s) (hi : Inv s) (t : Nat) (v : Val)
    (hv : ∀ e ∈ ents s, e.tid = t → ∀ w, e.tto = some w → (e.hasFds = false ∨ v = timeoutVal) → w ≤ s.now) :
    NEx [] (hubDelReturn s t v) := by
  unfold Pox.Recoco.hubDelReturn
  split
  · rename_i hm
    have hnr := hi.not_ready_of_hub hm
    unfold hubReturn Pox.Recoco.fastSchedule
    rw [if_neg (by simpa using hnr)]
    refine ⟨?_, h.2⟩
    simp only [ents, setTask_incoming, setTask_hub, setTask_ready, setTask_now, setTask_tasks, wkL_modify_keep, stL_modify,
      implies_true, Bool.false_eq_true, if_false]
    refine NEA.wake (t := t) h.1 ?_ ?_ ?_ ?_ ?_ ?_ hnr
    · intro e he
      simp only [ents, List.mem_append, List.mem_filter] at he ⊢
      exact he.imp id (·.1)
    · intro e he hne
      simp only [ents, List.mem_append, List.mem_filter] at he ⊢
      exact he.imp id (fun h => ⟨h, by simpa using hne⟩)
    · intro u; simp [or_comm]
    · intro u hu; exact ptL_modify_ne hu
    · intro e he het w hw hc
      refine hv e he het w hw (hc.imp id ?_)
      rintro ⟨k, hk, hp⟩
      simp only [List.getElem?_modify] at hk
      cases hs : s.tasks[t]? with
      | none => simp [hs] at hk
      | some k0 => simp [hs] at hk; subst hk; exact hp
    · rw [ents_tids]; exact List.mem_append_right _ hm
  · exact ⟨h.1, h.2⟩


theorem hubDelReturn_now (s : St) (t : Nat) (v : Val) : (hubDelReturn s t v).now = s.now := by
  unfold Pox.Recoco.hubDelReturn hubReturn fastSchedule
  split
  · split <;> rfl
  · rfl

theorem hubDelReturn_ents_sub (s : St) (t : Nat) (v : Val) : ∀ e ∈ ents (hubDelReturn s t v), e ∈ ents s := by
  intro e he
  unfold Pox.Recoco.hubDelReturn hubReturn fastSchedule at he
  split at he
  · split at he
    all_goals
      simp only [ents, setTask_incoming, setTask_hub, List.mem_append, List.mem_filter] at he ⊢
      exact he.imp id (·.1)
  · exact he

theorem NEx.returnExpired : ∀ (l : List Nat) {s : St}, NEx [] s → Inv s →
    (∀ t ∈ l, ∀ e ∈ ents s, e.tid = t → ∀ w, e.tto = some w → w ≤ s.now) → NEx [] (returnExpired s l)
  | [], _, h, _, _ => h
  | t :: r, s, h, hi, hv => by
    have h1 := h.hubDelReturn hi t timeoutVal (fun e he het w hw _ => hv t List.mem_cons_self e he het w hw)
    simp only [Pox.Recoco.returnExpired]
    split
    · exact h1
    · refine NEx.returnExpired r h1 (hi.hubDelReturn _ _) ?_
      intro u hu e he het w hw
      rw [hubDelReturn_now]
      exact hv u (List.mem_cons_of_mem _ hu) e (hubDelReturn_ents_sub _ _ _ e he) het w hw

theorem NEx.returnAll : ∀ (rets : Rets) {s : St}, NEx [] s → Inv s →
    (∀ p ∈ rets, p.2 ≠ ([], [], []) ∧ ∀ e ∈ ents s, e.tid = p.1 → e.hasFds = true) → NEx [] (returnAll s rets)
  | [], _, h, _, _ => h
  | (t, (a, b, c)) :: r, s, h, hi, hv => by
    have h1 := h.hubDelReturn hi t (.sel a b c) (fun e he het w _ hc => by
      have := hv (t, (a, b, c)) List.mem_cons_self
      rcases hc with hc | hc
      · rw [this.2 e he het] at hc; cases hc
      · exfalso; apply this.1
        simp only [timeoutVal, Val.sel.injEq] at hc
        simp [hc.1, hc.2.1, hc.2.2])
    simp only [Pox.Recoco.returnAll]
    split
    · exact h1
    · refine NEx.returnAll r h1 (hi.hubDelReturn _ _) ?_
      intro p hp
      exact ⟨(hv p (List.mem_cons_of_mem _ hp)).1, fun e he het =>
        (hv p (List.mem_cons_of_mem _ hp)).2 e (hubDelReturn_ents_sub _ _ _ e he) het⟩

theorem NEA.of_mem {hd ents ents' rdy now wk pt st} (h : NEA hd ents rdy now wk pt st) (he : ∀ e, e ∈ ents' ↔ e ∈ ents) :
    NEA hd ents' rdy now wk pt st := by
  refine h.mono (fun e h' => (he e).mp h') (fun _ h' => h') ?_ (Nat.le_refl _) (fun _ h' => h') (fun _ _ h' => h')
  intro u hu
  left
  simp only [List.mem_append, List.mem_map] at hu ⊢
  rcases hu with h1 | h1 | ⟨e, h1, rfl⟩
  · exact .inl h1
  · exact .inr (.inl h1)
  · exact .inr (.inr ⟨e, (he e).mpr h1, rfl⟩)

theorem drain_ne : ∀ (l : List HubEntry) (s : St),
    NEA [] (l ++ s.hub) s.ready s.now (wkL s.tasks) (ptL s.tasks) (stL s.tasks) → (∀ ev ∈ s.trace, evOK ev) → NEx [] (drain s l)
  | [], s, h, htr => ⟨by simpa [drain, ents] using h, htr⟩
  | e :: r, s, h, htr => by
    simp only [drain]
    split
    · exact ⟨h, htr⟩
    · refine drain_ne r _ (h.of_mem ?_) htr
      intro e'; simp only [List.mem_append, List.mem_cons, List.mem_singleton, List.not_mem_nil, or_false]
      grind

theorem drain_ents_mem : ∀ (l : List HubEntry) (s : St) (e : HubEntry), e ∈ ents (drain s l) ↔ e ∈ l ++ s.hub
  | [], s, e => by simp [drain, ents]
  | a :: r, s, e => by
    simp only [drain]
    split
    · simp [ents]
    · rw [drain_ents_mem r _ e]; simp only [List.mem_append, List.mem_cons, List.mem_singleton, List.not_mem_nil, or_false]
      grind

theorem hubPong_ents_mem (r : SelRes) (s : St) (e : HubEntry) : e ∈ ents (hubPong r s) ↔ e ∈ ents s := by
  unfold Pox.Recoco.hubPong
  split
  · rw [drain_ents_mem]; rfl
  · rfl

theorem NEx.hubPong (r : SelRes) {s : St} (h : NEx [] s) : NEx [] (hubPong r s) := by
  unfold Pox.Recoco.hubPong
  split
  · exact drain_ne _ _ h.1 h.2
  · exact h

theorem NEx.hubDispatch (sc : Scan) (r : SelRes) {s : St} (h : NEx [] s) (hi : Inv s)
    (hrets : ∀ rets, ((retsLoop sc.rl 0 r.ro []).bind (retsLoop sc.wl 1 r.wo) |>.bind (retsLoop sc.xl 2 r.xo)) = some rets →
       ∀ p ∈ rets, p.2 ≠ ([], [], []) ∧ ∀ e ∈ ents s, e.tid = p.1 → e.hasFds = true) :
    NEx [] (hubDispatch sc r s) := by
  unfold Pox.Recoco.hubDispatch
  split
  · exact h
  · split
    · exact h
    · split
      · exact ⟨h.1, h.2⟩
      · rename_i rets hr
        exact NEx.returnAll rets h hi (hrets rets hr)


/-! ### what the scan of the hub table computes -/

theorem dictSet_mem {m : List (Nat × Nat)} {k v : Nat} {p : Nat × Nat} (h : p ∈ dictSet m k v) : p ∈ m ∨ p = (k, v) := by
  induction m with
  | nil => simp [dictSet] at h; exact .inr h
  | cons a r ih =>
    obtain ⟨k', v'⟩ := a
    simp only [dictSet] at h
    split at h
    · rcases List.mem_cons.mp h with h1 | h1
      · exact .inr h1
      · exact .inl (List.mem_cons_of_mem _ h1)
    · rcases List.mem_cons.mp h with h1 | h1
      · exact .inl (h1 ▸ List.mem_cons_self)
      · rcases ih h1 with h2 | h2
        · exact .inl (List.mem_cons_of_mem _ h2)
        · exact .inr h2

theorem dictFold_mem {t : Nat} {p : Nat × Nat} : ∀ (fds : List Nat) (m : List (Nat × Nat)),
    p ∈ fds.foldl (fun m i => dictSet m i t) m → p ∈ m ∨ (p.2 = t ∧ p.1 ∈ fds)
  | [], m, h => .inl h
  | i :: is, m, h => by
    rcases dictFold_mem is _ h with h1 | h1
    · rcases dictSet_mem h1 with h2 | h2
      · exact .inl h2
      · exact .inr ⟨by rw [h2], by rw [h2]; exact List.mem_cons_self⟩
    · exact .inr ⟨h1.1, List.mem_cons_of_mem _ h1.2⟩

theorem dictGet_mem {m : List (Nat × Nat)} {i t : Nat} (h : dictGet m i = some t) : (i, t) ∈ m := by
  induction m with
  | nil => simp [dictGet] at h
  | cons a r ih =>
    obtain ⟨k', v'⟩ := a
    simp only [dictGet] at h
    split at h
    · rename_i e; cases h; subst e; exact List.mem_cons_self
    · exact List.mem_cons_of_mem _ (ih h)

structure ScanOK (now : Nat) (hub : List HubEntry) (sc : Scan) : Prop where
  expired : ∀ t ∈ sc.expired, ∃ e ∈ hub, e.tid = t ∧ ∃ w, e.tto = some w ∧ w ≤ now
  timeout : ∀ t, sc.timeoutTask = some t → ∃ e ∈ hub, e.tid = t ∧ ∃ w, e.tto = some w ∧ now < w ∧ sc.timeout = some (w - now)
  fds : ∀ p, p ∈ sc.rl ∨ p ∈ sc.wl ∨ p ∈ sc.xl → ∃ e ∈ hub, e.tid = p.2 ∧ e.hasFds = true ∧ ∀ w, e.tto = some w → now < w

theorem hasFds_of_mem {e : HubEntry} {i : Nat} (h : i ∈ e.rl ∨ i ∈ e.wl ∨ i ∈ e.xl) : e.hasFds = true := by
  cases hr : e.rl <;> cases hw : e.wl <;> cases hx : e.xl <;> simp_all [HubEntry.hasFds]

theorem ScanOK.addFds {now hub sc} {e : HubEntry} (h : ScanOK now hub sc) (he : e ∈ hub) (hlive : ∀ w, e.tto = some w → now < w) :
    ScanOK now hub (addFds sc e) := by
  refine ⟨h.expired, h.timeout, ?_⟩
  intro p hp
  simp only [Pox.Recoco.addFds] at hp
  rcases hp with hp | hp | hp
  all_goals
    rcases dictFold_mem _ _ hp with h1 | h1
    · first
        | exact h.fds p (.inl h1)
        | exact h.fds p (.inr (.inl h1))
        | exact h.fds p (.inr (.inr h1))
    · first
        | exact ⟨e, he, h1.1.symm, hasFds_of_mem (.inl h1.2), hlive⟩
        | exact ⟨e, he, h1.1.symm, hasFds_of_mem (.inr (.inl h1.2)), hlive⟩
        | exact ⟨e, he, h1.1.symm, hasFds_of_mem (.inr (.inr h1.2)), hlive⟩

theorem ScanOK.weaken {now hub hub' sc} (h : ScanOK now hub sc) (hs : ∀ e ∈ hub, e ∈ hub') : ScanOK now hub' sc :=
  ⟨fun t ht => let ⟨e, he, r⟩ := h.expired t ht; ⟨e, hs e he, r⟩,
   fun t ht => let ⟨e, he, r⟩ := h.timeout t ht; ⟨e, hs e he, r⟩,
   fun p hp => let ⟨e, he, r⟩ := h.fds p hp; ⟨e, hs e he, r⟩⟩

theorem ScanOK.step {now pre sc} (e : HubEntry) (h : ScanOK now pre sc) : ScanOK now (pre ++ [e]) (scanEntry now sc e) := by
  have h' : ScanOK now (pre ++ [e]) sc := h.weaken (fun _ h1 => List.mem_append_left _ h1)
  have he : e ∈ pre ++ [e] := List.mem_append_right _ List.mem_cons_self
  unfold scanEntry
  split
  · rename_i hnone
    exact h'.addFds he (fun w hw => by rw [hnone] at hw; cases hw)
  · rename_i w hw
    split
    · rename_i hle
      refine ⟨?_, h'.timeout, h'.fds⟩
      intro t ht
      rcases List.mem_append.mp ht with h1 | h1
      · exact h'.expired t h1
      · simp only [List.mem_singleton] at h1; subst h1
        exact ⟨e, he, rfl, w, hw, hle⟩
    · rename_i hlt
      simp only []
      refine ScanOK.addFds ?_ he (fun w' hw' => by rw [hw] at hw'; cases hw'; omega)
      split
      · refine ⟨h'.expired, ?_, h'.fds⟩
        intro t ht; simp only [Option.some.injEq] at ht; subst ht
        exact ⟨e, he, rfl, w, hw, by omega, rfl⟩
      · split
        · refine ⟨h'.expired, ?_, h'.fds⟩
          intro t ht; simp only [Option.some.injEq] at ht; subst ht
          exact ⟨e, he, rfl, w, hw, by omega, rfl⟩
        · exact h'

theorem ScanOK.fold {now : Nat} : ∀ (l pre : List HubEntry) (sc : Scan), ScanOK now pre sc →
    ScanOK now (pre ++ l) (l.foldl (scanEntry now) sc)
  | [], pre, sc, h => by simpa using h
  | e :: r, pre, sc, h => by
    have := ScanOK.fold r (pre ++ [e]) _ (h.step e)
    simpa using this

theorem hubScan_ok (s : St) : ScanOK s.now s.hub (hubScan s) := by
  have := ScanOK.fold (now := s.now) s.hub [] {} ⟨by simp, by simp, by simp⟩
  simpa [hubScan] using this

/-! ### what the `rets` loops build -/

def RetsOK (K : Nat → Prop) (rets : Rets) : Prop := ∀ p ∈ rets, p.2 ≠ ([], [], []) ∧ K p.1

theorem RetsOK.add {K rets} (h : RetsOK K rets) (t which i : Nat) (hk : K t) : RetsOK K (retsAdd rets t which i) := by
  induction rets with
  | nil =>
    intro p hp
    simp only [retsAdd, List.mem_singleton] at hp; subst hp
    refine ⟨?_, hk⟩
    by_cases h0 : which = 0 <;> by_cases h1 : which = 1 <;> simp [h0, h1]
  | cons a r ih =>
    obtain ⟨t', a1, b1, c1⟩ := a
    intro p hp
    simp only [retsAdd] at hp
    split at hp
    · rcases List.mem_cons.mp hp with h1 | h1
      · subst h1
        refine ⟨?_, (h _ List.mem_cons_self).2⟩
        by_cases h0 : which = 0 <;> by_cases h1 : which = 1 <;> simp [h0, h1]
      · exact h p (List.mem_cons_of_mem _ h1)
    · rcases List.mem_cons.mp hp with h1 | h1
      · subst h1; exact h _ List.mem_cons_self
      · exact ih (fun q hq => h q (List.mem_cons_of_mem _ hq)) p h1

theorem RetsOK.loop {K} {m : List (Nat × Nat)} {which : Nat} (hm : ∀ p ∈ m, K p.2) :
    ∀ (is : List Nat) (rets rets' : Rets), RetsOK K rets → retsLoop m which is rets = some rets' → RetsOK K rets'
  | [], rets, rets', h, he => by simp only [retsLoop, Option.some.injEq] at he; subst he; exact h
  | i :: is, rets, rets', h, he => by
    simp only [retsLoop] at he
    split at he
    · cases he
    · rename_i t ht
      exact RetsOK.loop hm is _ rets' (h.add t which i (hm _ (dictGet_mem ht))) he

/-! ### what the virtual select guarantees -/

theorem earliest_mem {tab : List (Option Nat)} {c : Nat} : ∀ (fds : List Nat), earliest tab fds = some c → ∃ f ∈ fds, fdTime tab f = some c
  | [], h => by simp [earliest] at h
  | f :: fs, h => by
    simp only [earliest] at h
    cases h1 : fdTime tab f with
    | none =>
      rw [h1] at h; simp only [optMin] at h
      obtain ⟨g, hg, hc⟩ := earliest_mem fs h
      exact ⟨g, List.mem_cons_of_mem _ hg, hc⟩
    | some a =>
      cases h2 : earliest tab fs with
      | none => rw [h1, h2] at h; simp only [optMin, Option.some.injEq] at h; subst h; exact ⟨f, List.mem_cons_self, h1⟩
      | some b =>
        rw [h1, h2] at h; simp only [optMin, Option.some.injEq] at h
        by_cases hab : a ≤ b
        · rw [Nat.min_eq_left hab] at h; subst h; exact ⟨f, List.mem_cons_self, h1⟩
        · rw [Nat.min_eq_right (by omega)] at h; subst h
          obtain ⟨g, hg, hc⟩ := earliest_mem fs h2
          exact ⟨g, List.mem_cons_of_mem _ hg, hc⟩

theorem readyAt_ne_nil {tab : List (Option Nat)} {c : Nat} {fds : List Nat} (h : earliest tab fds = some c) :
    readyAt tab c fds ≠ [] := by
  obtain ⟨f, hf, hc⟩ := earliest_mem fds h
  intro hnil
  have : f ∈ readyAt tab c fds := by
    simp only [readyAt, List.mem_filter]; exact ⟨hf, by simp [hc]⟩
  rw [hnil] at this; cases this

theorem optMin_some {a b : Option Nat} {c : Nat} (h : optMin a b = some c) : a = some c ∨ b = some c := by
  cases a with
  | none => simp only [optMin] at h; exact .inr h
  | some x =>
    cases b with
    | none => simp only [optMin] at h; exact .inl h
    | some y =>
      simp only [optMin, Option.some.injEq] at h
      by_cases hxy : x ≤ y
      · rw [Nat.min_eq_left hxy] at h; exact .inl (by rw [h])
      · rw [Nat.min_eq_right (by omega)] at h; exact .inr (by rw [h])

theorem vselect_now_le (env : Env) (now : Nat) (rk wk xk : List Nat) (to : Nat) (p ht : Bool) :
    now ≤ (vselect env now rk wk xk to p ht).now := by
  unfold vselect
  simp only []
  split
  · exact Nat.le_refl _
  · split
    · split
      · exact Nat.le_add_right _ _
      · exact Nat.le_add_right _ _
    · split
      · exact Nat.le_add_right _ _
      · exact Nat.le_refl _

/-- an empty answer (no descriptor, no ping) while a timer is pending means the whole timeout has elapsed -/
theorem vselect_idle (env : Env) (now : Nat) (rk wk xk : List Nat) (to : Nat) (p : Bool)
    (h : (vselect env now rk wk xk to p true).ro = [] ∧ (vselect env now rk wk xk to p true).wo = [] ∧
         (vselect env now rk wk xk to p true).xo = [] ∧ (vselect env now rk wk xk to p true).pinger = false) :
    (vselect env now rk wk xk to p true).now = now + to := by
  by_cases hc : (p = true ∨ readyAt env.rAt now rk ≠ [] ∨ readyAt env.wAt now wk ≠ [] ∨ readyAt env.xAt now xk ≠ [])
  · exfalso
    simp only [vselect, if_pos hc] at h
    rcases hc with hc | hc | hc | hc
    · rw [hc] at h; simp at h
    · exact hc h.1
    · exact hc h.2.1
    · exact hc h.2.2.1
  · simp only [vselect, if_neg hc] at h ⊢
    cases hmin : optMin (earliest env.rAt rk) (optMin (earliest env.wAt wk) (earliest env.xAt xk)) with
    | none => simp
    | some c =>
      simp only [hmin] at h ⊢
      by_cases hle : c ≤ now + to
      · exfalso
        simp only [if_pos hle] at h
        rcases optMin_some hmin with h1 | h1
        · exact readyAt_ne_nil h1 h.1
        · rcases optMin_some h1 with h2 | h2
          · exact readyAt_ne_nil h2 h.2.1
          · exact readyAt_ne_nil h2 h.2.2.1
      · simp only [if_neg hle]


theorem tid_inj : ∀ {l : List HubEntry}, (l.map (·.tid)).Nodup → ∀ {a b : HubEntry}, a ∈ l → b ∈ l → a.tid = b.tid → a = b
  | [], _, _, _, ha, _, _ => by cases ha
  | x :: r, hn, a, b, ha, hb, h => by
    simp only [List.map_cons, List.nodup_cons, List.mem_map, not_exists, not_and] at hn
    rcases List.mem_cons.mp ha with rfl | ha' <;> rcases List.mem_cons.mp hb with rfl | hb'
    · rfl
    · exact absurd h.symm (hn.1 b hb')
    · exact absurd h (hn.1 a ha')
    · exact tid_inj hn.2 ha' hb' h

theorem Inv.nodup_ents {s : St} (hi : Inv s) : ((ents s).map (·.tid)).Nodup := by
  rw [ents_tids]
  have hsub : (incTids s ++ hubTids s).Sublist (places s) :=
    (List.sublist_append_right _ _).trans (List.sublist_append_right _ _)
  exact hsub.nodup hi.nodup

theorem returnExpired_now : ∀ (l : List Nat) (s : St), (returnExpired s l).now = s.now
  | [], _ => rfl
  | t :: r, s => by
    simp only [returnExpired]
    split
    · exact hubDelReturn_now _ _ _
    · rw [returnExpired_now r, hubDelReturn_now]

theorem returnExpired_ents_sub : ∀ (l : List Nat) (s : St), ∀ e ∈ ents (returnExpired s l), e ∈ ents s
  | [], _, e, he => he
  | t :: r, s, e, he => by
    simp only [returnExpired] at he
    split at he
    · exact hubDelReturn_ents_sub _ _ _ e he
    · exact hubDelReturn_ents_sub _ _ _ e (returnExpired_ents_sub r _ e he)

theorem NEx.hubFinish (sc : Scan) (r : SelRes) {s : St} (h : NEx [] s) (hi : Inv s)
    (htt : ∀ t, sc.timeoutTask = some t → (r.ro = [] ∧ r.wo = [] ∧ r.xo = [] ∧ r.pinger = false) →
             ∀ e ∈ ents s, e.tid = t → ∀ w, e.tto = some w → w ≤ s.now)
    (hK : ∀ p, p ∈ sc.rl ∨ p ∈ sc.wl ∨ p ∈ sc.xl → ∀ e ∈ ents s, e.tid = p.2 → e.hasFds = true) :
    NEx [] (hubFinish sc r s) := by
  unfold Pox.Recoco.hubFinish
  split
  · rename_i hidle
    split
    · rename_i t ht
      exact h.hubDelReturn hi t timeoutVal (fun e he het w hw _ =>
        htt t ht ⟨hidle.1, hidle.2.1, hidle.2.2.1, hidle.2.2.2.1⟩ e he het w hw)
    · exact h
  · refine NEx.hubDispatch sc r (h.hubPong r) (hi.hubPong r) ?_
    intro rets hrets
    let K : Nat → Prop := fun t => ∀ e ∈ ents s, e.tid = t → e.hasFds = true
    have hm : ∀ (m : List (Nat × Nat)), (∀ p ∈ m, p ∈ sc.rl ∨ p ∈ sc.wl ∨ p ∈ sc.xl) → ∀ p ∈ m, K p.2 :=
      fun m hsub p hp => hK p (hsub p hp)
    obtain ⟨r2, h12, h3⟩ := Option.bind_eq_some_iff.mp hrets
    obtain ⟨r1, h1, h2⟩ := Option.bind_eq_some_iff.mp h12
    have k1 : RetsOK K r1 := RetsOK.loop (hm sc.rl (fun p hp => .inl hp)) _ _ _ (fun p hp => by cases hp) h1
    have k2 : RetsOK K r2 := RetsOK.loop (hm sc.wl (fun p hp => .inr (.inl hp))) _ _ _ k1 h2
    have k3 : RetsOK K rets := RetsOK.loop (hm sc.xl (fun p hp => .inr (.inr hp))) _ _ _ k2 h3
    intro p hp
    exact ⟨(k3 p hp).1, fun e he het => (k3 p hp).2 e ((hubPong_ents_mem r s e).mp he) het⟩

theorem NEx.hubSelect (cfg : Cfg) {s : St} (h : NEx [] s) (hi : Inv s) : NEx [] (hubSelect cfg s) := by
  have hsc := hubScan_ok s
  have hinj := hi.nodup_ents
  have hhub : ∀ e ∈ s.hub, e ∈ ents s := fun e he => List.mem_append_right _ he
  have h1 : NEx [] (Pox.Recoco.returnExpired s (hubScan s).expired) := by
    refine NEx.returnExpired _ h hi ?_
    intro t ht e he het w hw
    obtain ⟨e0, he0, het0, w0, hw0, hle⟩ := hsc.expired t ht
    have : e = e0 := tid_inj hinj he (hhub e0 he0) (het.trans het0.symm)
    subst this; rw [hw0] at hw; cases hw; exact hle
  have hi1 := Inv.returnExpired (hubScan s).expired hi
  unfold Pox.Recoco.hubSelect
  simp only []
  split
  · exact h1
  · have hnow := returnExpired_now (hubScan s).expired s
    have hsub := returnExpired_ents_sub (hubScan s).expired s
    refine NEx.hubFinish _ _ ?_ ?_ ?_ ?_
    · refine ⟨h1.1.mono (fun _ h' => h') (fun _ h' => h') (fun _ h' => .inl h') ?_ (fun _ h' => h') (fun _ _ h' => h'), h1.2⟩
      exact vselect_now_le _ _ _ _ _ _ _ _
    · held hi1
    · intro t ht hidle e he het w hw
      obtain ⟨e0, he0, het0, w0, hw0, hlt, hto⟩ := hsc.timeout t ht
      have : e = e0 := tid_inj hinj (hsub e he) (hhub e0 he0) (het.trans het0.symm)
      subst this; rw [hw0] at hw; cases hw
      have hsome : (hubScan s).timeoutTask.isSome = true := by rw [ht]; rfl
      have := vselect_idle cfg.env (Pox.Recoco.returnExpired s (hubScan s).expired).now ((hubScan s).rl.map (·.1))
        ((hubScan s).wl.map (·.1)) ((hubScan s).xl.map (·.1)) (hubTimeout (hubScan s))
        (decide (0 < (Pox.Recoco.returnExpired s (hubScan s).expired).pings)) (by rw [← hsome]; exact hidle)
      simp only [hsome] at this ⊢
      rw [this, hnow]
      simp only [hubTimeout, hto]; omega
    · intro p hp e he het
      obtain ⟨e0, he0, het0, hf, _⟩ := hsc.fds p hp
      have : e = e0 := tid_inj hinj (hsub e he) (hhub e0 he0) (het.trans het0.symm)
      subst this; exact hf

theorem NEx.idleStep (cfg : Cfg) {s : St} (h : NEx [] s) (hi : Inv s) : NEx [] (idleStep cfg s) := by
  unfold Pox.Recoco.idleStep
  split
  · exact h.hubSelect cfg hi
  · exact h

/-! ### the cycle side -/

theorem NEA.congr' {hd ents rdy now wk wk' pt pt' st st'} (h : NEA hd ents rdy now wk pt st)
    (hwk : ∀ u, wk' u = wk u) (hpt : ∀ u, pt' u ↔ pt u) (hst : ∀ u, st' u = st u) : NEA hd ents rdy now wk' pt' st' := by
  have e1 : wk' = wk := funext hwk
  have e2 : pt' = pt := funext (fun u => propext (hpt u))
  have e3 : st' = st := funext hst
  rw [e1, e2, e3]; exact h

theorem Held.not_ents {s : St} {t : Nat} (h : Held s t) : t ∉ (ents s).map (·.tid) := by
  rw [ents_tids]
  exact fun hm => (List.nodup_cons.mp h.2.nodup).1 (List.mem_append_right _ hm)

theorem Held.get {s : St} {t : Nat} (h : Held s t) : ∃ k, s.tasks[t]? = some k := stL_some h.live

theorem NEx.toReady {s : St} {t : Nat} (h : NEx [t] s) (first : Bool) :
    NEx [] { s with ready := if first then t :: s.ready else s.ready ++ [t] } := by
  refine ⟨h.1.mono (fun _ h' => h') ?_ ?_ (Nat.le_refl _) (fun _ h' => h') (fun _ _ h' => h'), h.2⟩
  · intro u hu; cases first <;> simp [ents] at hu ⊢ <;> grind
  · intro u hu; left; cases first <;> simp [ents] at hu ⊢ <;> grind

theorem NEx.blockT {s : St} {t : Nat} (h : NEx [t] s) (hw : wkL s.tasks t = none) : NEx [] s := by
  refine ⟨h.1.mono (fun _ h' => h') (fun u hu => List.mem_append_right _ hu) ?_ (Nat.le_refl _) (fun _ h' => h') (fun _ _ h' => h'), h.2⟩
  intro u hu
  simp only [List.mem_append, List.mem_singleton, List.nil_append] at hu ⊢
  rcases hu with rfl | h1
  · exact .inr (.inr hw)
  · exact .inl h1

theorem NEx.kill {s : St} {t : Nat} (h : NEx [t] s) (hh : Held s t) {x : Status} (hx : x ≠ .live) : NEx [] (setStatus s t x) := by
  have hne : stL s.tasks t ≠ none := by rw [hh.live]; simp
  have hst := stL_setStatus (l := s.tasks) (t := t) (x := x) hne
  refine ⟨?_, h.2⟩
  simp only [setStatus, ents, setTask_incoming, setTask_hub, setTask_ready, setTask_now, setTask_tasks, wkL_modify_keep,
    ptL_modify_keep, and_self, implies_true]
  refine h.1.mono (fun _ h' => h') (fun u hu => List.mem_append_right _ hu) ?_ (Nat.le_refl _) ?_ (fun _ _ h' => h')
  · intro u hu
    simp only [List.mem_append, List.mem_singleton, List.nil_append] at hu ⊢
    rcases hu with rfl | h1
    · exact .inr (.inl (by rw [hst]; simpa using hx))
    · exact .inl h1
  · intro u hu
    rw [hst] at hu
    split at hu
    · simp at hu; exact absurd hu hx
    · exact hu

theorem NEx.register {s : St} {t : Nat} (h : NEx [t] s) (hh : Held s t) (rl wl xl : List Nat) (tto : Option Nat) :
    NEx [] (registerSelect s t rl wl xl tto) := by
  obtain ⟨k, hk⟩ := hh.get
  refine ⟨?_, h.2⟩
  simp only [registerSelect, ents, setTask_incoming, setTask_hub, setTask_ready, setTask_now, setTask_tasks, stL_modify,
    implies_true]
  have := NEA.register (t := t) (wk' := wkL (s.tasks.modify t (fun k => { k with wake := tto.map (fun w => (w, (HubEntry.mk t rl wl xl tto).hasFds)) })))
    (pt' := ptL (s.tasks.modify t (fun k => { k with wake := tto.map (fun w => (w, (HubEntry.mk t rl wl xl tto).hasFds)) })))
    ⟨t, rl, wl, xl, tto⟩ h.1 rfl hh.not_ents hh.not_ready (fun u hu => wkL_modify_ne hu)
    (by rw [wkL_modify_self hk]) (fun u hu => ptL_modify_ne hu)
  refine this.of_mem ?_
  intro e; simp only [ents, List.mem_append, List.mem_singleton]; grind

/-- the held task's `rf`/`re`/`rv` change in a way that cannot turn a non-timeout resume into a timeout resume -/
theorem NEx.modPt {s : St} {t : Nat} (h : NEx [t] s) (f : Task → Task) (h1 : ∀ k, (f k).wake = k.wake) (h2 : ∀ k, (f k).st = k.st)
    (h3 : ∀ k, plainTimeout (f k) → plainTimeout k) : NEx [t] (setTask s t f) := by
  refine ⟨?_, h.2⟩
  simp only [ents, setTask_incoming, setTask_hub, setTask_ready, setTask_now, setTask_tasks, wkL_modify_keep h1, stL_modify h2]
  refine h.1.mono (fun _ h' => h') (fun _ h' => h') (fun _ h' => .inl h') (Nat.le_refl _) (fun _ h' => h') ?_
  intro u _ hp
  by_cases e : u = t
  · subst e
    obtain ⟨k, hk, hpk⟩ := hp
    simp only [List.getElem?_modify] at hk
    cases hs : s.tasks[u]? with
    | none => simp [hs] at hk
    | some k0 => simp [hs] at hk; subst hk; exact ⟨k0, hs, h3 k0 hpk⟩
  · exact (ptL_modify_ne e).mp hp

/-- the held task's wake time is (re)set to a time that has already passed, or cleared -/
theorem NEx.setWake {s : St} {t : Nat} (h : NEx [t] s) (hh : Held s t) (f : Task → Task) (h2 : ∀ k, (f k).st = k.st)
    (h3 : ∀ k, (f k).wake = none ∨ ∃ w fds, (f k).wake = some (w, fds) ∧ w ≤ s.now) : NEx [t] (setTask s t f) := by
  obtain ⟨k, hk⟩ := hh.get
  refine ⟨?_, h.2⟩
  simp only [ents, setTask_incoming, setTask_hub, setTask_ready, setTask_now, setTask_tasks, stL_modify h2]
  have := NEA.setWk (t := t) (wk' := wkL (s.tasks.modify t f)) h.1 hh.not_ents (fun u hu => wkL_modify_ne hu)
    (fun _ w fds hw _ => by
      rw [wkL_modify_self hk] at hw
      rcases h3 k with h' | ⟨w', fds', h', hle⟩
      · rw [h'] at hw; cases hw
      · rw [h'] at hw; cases hw; exact hle)
    (fun hn => absurd (List.mem_append_left _ List.mem_cons_self) hn)
  -- `pt` may change at `t` only, and there the ready clause has just been re-established without using it
  refine ⟨this.entry, ?_, this.blocked⟩
  intro u hu w fds hw hc
  by_cases e : u = t
  · subst e
    rw [wkL_modify_self hk] at hw
    rcases h3 k with h' | ⟨w', fds', h', hle⟩
    · rw [h'] at hw; cases hw
    · rw [h'] at hw; cases hw; exact hle
  · exact this.ready u hu w fds hw (hc.imp id (ptL_modify_ne e).mp)

theorem wkL_setWake_none {l : List Task} {t : Nat} (f : Task → Task) (h : ∀ k, (f k).wake = none) : wkL (l.modify t f) t = none := by
  simp only [wkL, List.getElem?_modify]
  cases l[t]? <;> simp [h]


theorem wkL_push (l : List Task) (tk : Task) (h : tk.wake = none) : ∀ u, wkL (l ++ [tk]) u = wkL l u := by
  intro u
  simp only [wkL]
  by_cases lt : u < l.length
  · rw [List.getElem?_append_left lt]
  · by_cases e : u = l.length
    · subst e; simp [h]
    · have h1 : l.length ≤ u := by omega
      have h2 : (l ++ [tk]).length ≤ u := by rw [List.length_append, List.length_singleton]; omega
      rw [List.getElem?_eq_none h2, List.getElem?_eq_none h1]

theorem ptL_push (l : List Task) (tk : Task) : ∀ u, u ≠ l.length → (ptL (l ++ [tk]) u ↔ ptL l u) := by
  intro u hu
  simp only [ptL]
  by_cases lt : u < l.length
  · rw [List.getElem?_append_left lt]
  · have h1 : l.length ≤ u := by omega
    have h2 : (l ++ [tk]).length ≤ u := by rw [List.length_append, List.length_singleton]; omega
    rw [List.getElem?_eq_none h2, List.getElem?_eq_none h1]

/-- `Again.execute`: the held task blocks (it has no wake time), the new sub-task goes to the front of the ready deque -/
theorem NEx.spawn {s : St} {t : Nat} (h : NEx [t] s) (hh : Held s t) (hw : wkL s.tasks t = none) (k : Nat) :
    NEx [] (Pox.Recoco.fastSchedule { s with tasks := s.tasks ++ [{ kind := .sub k t, prio := prioOf s t }] } s.tasks.length true) := by
  have hfresh : s.tasks.length ∉ t :: (s.ready ++ (incTids s ++ hubTids s)) := fun hm => by
    have := hh.2.live _ hm; rw [stL_fresh] at this; cases this
  have hnr : s.tasks.length ∉ s.ready := fun hm => hfresh (List.mem_cons_of_mem _ (List.mem_append_left _ hm))
  unfold Pox.Recoco.fastSchedule
  rw [if_neg hnr]
  refine ⟨?_, h.2⟩
  simp only [ents, if_true]
  have h0 := (h.blockT hw).1
  refine (NEA.push (c := s.tasks.length) (rdy' := s.tasks.length :: s.ready)
    (pt' := ptL (s.tasks ++ [{ kind := .sub k t, prio := prioOf s t }])) (st' := stL (s.tasks ++ [{ kind := .sub k t, prio := prioOf s t }])) h0 ?_ ?_ ?_ ?_).congr'
      (wkL_push _ _ rfl) (fun _ => Iff.rfl) (fun _ => rfl)
  · simp [wkL]
  · intro u; simp
  · intro u hu; rw [stL_push]; simp [hu]
  · intro u hu; exact ptL_push _ _ u hu

/-- tail of `AgainTask.run_again` -/
theorem NEx.finishSub {s : St} {t k p : Nat} (h : NEx [t] s) (hh : Held s t) (hk : kdL s.tasks t = some (.sub k p)) :
    NEx [] (finishSub s t p) := by
  have hp := hh.2.parent t k p hk hh.live
  have hnr : p ∉ s.ready := fun hm => hp.1 (List.mem_cons_of_mem _ (List.mem_append_left _ hm))
  have hwp : wkL s.tasks p = none := by
    refine h.1.blocked p hp.2 (fun hm => hp.1 ?_)
    rw [ents_tids] at hm
    simpa using hm
  have h1 := h.kill hh (x := .done) (by simp)
  unfold Pox.Recoco.finishSub Pox.Recoco.fastSchedule
  rw [if_neg (by simpa [setStatus] using hnr)]
  refine ⟨?_, h1.2⟩
  simp only [ents, if_true]
  refine NEA.addReady (t := p) h1.1 (fun u => by simp) ?_
  intro w fds hw
  simp only [setStatus, setTask_tasks, wkL_modify_keep, implies_true] at hw
  rw [hwp] at hw; cases hw

/-- the caller of the held sub-task (blocked, in no queue) gets its `rv` / `re` set -/
theorem NEx.setParent {s : St} {t k p : Nat} (h : NEx [t] s) (hh : Held s t) (hk : kdL s.tasks t = some (.sub k p))
    (f : Task → Task) (h1 : ∀ k, (f k).wake = k.wake) (h2 : ∀ k, (f k).st = k.st) : NEx [t] (setTask s p f) := by
  have hp := hh.2.parent t k p hk hh.live
  refine ⟨?_, h.2⟩
  simp only [ents, setTask_incoming, setTask_hub, setTask_ready, setTask_now, setTask_tasks, wkL_modify_keep h1, stL_modify h2]
  refine h.1.mono (fun _ h' => h') (fun _ h' => h') (fun _ h' => .inl h') (Nat.le_refl _) (fun _ h' => h') ?_
  intro u hu hpu
  have : u ≠ p := by
    rintro rfl
    apply hp.1
    simp only [List.mem_append, List.mem_singleton] at hu
    rcases hu with rfl | hu
    · exact List.mem_cons_self
    · exact List.mem_cons_of_mem _ (List.mem_append_left _ hu)
  exact (ptL_modify_ne this).mp hpu

/-- closes `NEx hd s'` from `h : NEx hd s` when `s'` differs only in fields the invariant does not read -/
syntax "nex " term : tactic
macro_rules
  | `(tactic| nex $h) => `(tactic| (
      have hh := $h
      simp only [NEx, ents, setTask_incoming, setTask_hub, setTask_ready, setTask_now, setTask_tasks, setTask_trace, cancelTimer] at hh ⊢
      exact hh))

theorem NEx.doYield {s : St} {t : Nat} (h : NEx [t] s) (hh : Held s t) (hw : wkL s.tasks t = none) (y : Y) :
    NEx [] (doYield s t y) := by
  have rfSet : ∀ (rf : Rf), NEx [t] (setTask s t (fun k => { k with rf := some rf })) ∧ Held (setTask s t (fun k => { k with rf := some rf })) t :=
    fun rf => ⟨h.modPt _ (fun _ => rfl) (fun _ => rfl) (fun k hp => hp), by held hh⟩
  have wkSet : ∀ w, (w = 0 ∨ w < s.now) →
      NEx [] (Pox.Recoco.fastSchedule (setTask s t (fun k => { k with wake := some (w, false) })) t false) := by
    intro w hwl
    have h1 : NEx [t] (setTask s t (fun k => { k with wake := some (w, false) })) :=
      h.setWake hh _ (fun _ => rfl) (fun _ => .inr ⟨w, false, rfl, by omega⟩)
    unfold Pox.Recoco.fastSchedule
    rw [if_neg (by simpa using hh.not_ready)]
    exact h1.toReady false
  cases y with
  | num n => cases n with
    | zero => exact h.toReady false
    | succ n => exact h.register hh _ _ _ _
  | block => exact h.blockT hw
  | sleep d => cases d with
    | none => exact h.blockT hw
    | some d =>
      simp only [Pox.Recoco.doYield]
      split
      · exact wkSet _ ‹_›
      · exact h.register hh _ _ _ _
  | sleepAbs w =>
    simp only [Pox.Recoco.doYield]
    split
    · exact wkSet _ ‹_›
    · exact h.register hh _ _ _ _
  | select r w x to => exact h.register hh _ _ _ _
  | recv fd to => exact (rfSet _).1.register (rfSet _).2 _ _ _ _
  | send fd len to bs => exact (rfSet _).1.register (rfSet _).2 _ _ _ _
  | exit => simp only [Pox.Recoco.doYield]; nex (h.blockT hw)
  | raise n => exact h.blockT hw
  | again k c => exact h.spawn hh hw k
  | cancel j =>
    have h' : NEx [t] (cancelTimer s j) := by nex h
    exact h'.toReady false

theorem NEx.topOut {s : St} {t : Nat} (h : NEx [t] s) (hh : Held s t) (hw : wkL s.tasks t = none) (o : Out) :
    NEx [] (topOut s t o) := by
  cases o with
  | stop => exact h.kill hh (by simp)
  | raise e => exact h.kill hh (by simp)
  | yield y => exact h.doYield hh hw y


theorem NEx.subOut {fx : Bool} {s : St} {t k p : Nat} (h : NEx [t] s) (hh : Held s t) (hw : wkL s.tasks t = none)
    (hk : kdL s.tasks t = some (.sub k p)) (pc : Nat) (o : Out) : NEx [] (subOut fx s t p pc o) := by
  have fin : ∀ (f : Task → Task), (∀ k, (f k).wake = k.wake) → (∀ k, (f k).st = k.st) → (∀ k, (f k).kind = k.kind) →
      NEx [] (Pox.Recoco.finishSub (setTask s p f) t p) := by
    intro f h1 h2 h3
    refine NEx.finishSub (k := k) (h.setParent hh hk f h1 h2) ?_ ?_
    · have := hh; simp only [Held, incTids, hubTids, setTask_running, setTask_ready, setTask_incoming, setTask_hub, setTask_tasks,
        stL_modify h2, kdL_modify h3] at this ⊢; exact this
    · rw [setTask_tasks, kdL_modify h3]; exact hk
  cases o with
  | raise e => exact fin _ (fun _ => rfl) (fun _ => rfl) (fun _ => rfl)
  | stop =>
    simp only [Pox.Recoco.subOut]
    split
    · exact fin _ (fun _ => rfl) (fun _ => rfl) (fun _ => rfl)
    · exact h.finishSub hh hk
  | yield y =>
    simp only [Pox.Recoco.subOut]
    split
    · exact h.doYield hh hw y
    · split
      · exact fin _ (fun _ => rfl) (fun _ => rfl) (fun _ => rfl)
      · exact fin _ (fun _ => rfl) (fun _ => rfl) (fun _ => rfl)
      · rename_i j _
        have h' : NEx [t] (cancelTimer s j) := by nex h
        have hh' : Held (cancelTimer s j) t := by held hh
        refine NEx.finishSub (k := k) (s := setTask (cancelTimer s j) p _)
          (h'.setParent hh' (by simpa [cancelTimer] using hk) _ (fun _ => rfl) (fun _ => rfl)) ?_ ?_
        · held hh'
        · simp only [setTask_tasks, kdL_modify, implies_true, cancelTimer]; exact hk
      · exact h.blockT hw

theorem NEx.timerStep {s : St} {t : Nat} (h : NEx [t] s) (hh : Held s t) (hw : wkL s.tasks t = none) (j pc : Nat) :
    NEx [] (timerStep s t j pc) := by
  unfold Pox.Recoco.timerStep
  split
  · nex (h.blockT hw)
  · split
    · exact h.kill hh (by simp)
    · split
      · nex (h.blockT hw)
      · split
        · exact h.doYield hh hw _
        · simp only
          rename_i tm _ _ _ _
          have hf : NEx [t] { s with
              timers := s.timers.modify j (fun m => { m with
                next := s.now + (if tm.cfg.recurring then tm.cfg.delay else 0), fired := m.fired + 1 }),
              trace := s.trace ++ [.fire t tm.fired s.now] } := by
            refine ⟨h.1, ?_⟩
            intro ev hev
            rcases List.mem_append.mp hev with h1 | h1
            · exact h.2 ev h1
            · simp only [List.mem_singleton] at h1; subst h1; trivial
          split
          · nex (hf.blockT hw)
          · refine NEx.doYield hf ?_ hw _; held hh

/-- what `execPre` leaves of the state when the generator is going to be resumed (or the return function raised) -/
structure PreFr (s s1 : St) (t : Nat) (tk : Task) : Prop where
  ents : ents s1 = ents s
  ready : s1.ready = s.ready
  now : s1.now = s.now
  trace : s1.trace = s.trace
  get : ∀ u, u ≠ t → s1.tasks[u]? = s.tasks[u]?
  self : ∃ tk1, s1.tasks[t]? = some tk1 ∧ tk1.wake = tk.wake ∧ tk1.st = tk.st ∧ tk1.kind = tk.kind ∧ tk1.pc = tk.pc

theorem getElem?_modify_ne' {l : List Task} {t u : Nat} {f : Task → Task} (h : u ≠ t) : (l.modify t f)[u]? = l[u]? := by
  simp only [List.getElem?_modify]
  have : ¬ t = u := fun e => h e.symm
  cases l[u]? <;> simp [this]

theorem PreFr.setSelf {s : St} {t : Nat} {tk : Task} (ht : s.tasks[t]? = some tk) (f : Task → Task)
    (h1 : (f tk).wake = tk.wake) (h2 : (f tk).st = tk.st) (h3 : (f tk).kind = tk.kind) (h4 : (f tk).pc = tk.pc) :
    PreFr s (setTask s t f) t tk :=
  ⟨rfl, rfl, rfl, rfl, fun u hu => getElem?_modify_ne' hu, ⟨f tk, by simp [List.getElem?_modify, ht], h1, h2, h3, h4⟩⟩

def PreNE (s : St) (t : Nat) (tk : Task) : ExecPre × St → Prop
  | (.abort, s1) => NEx [] s1
  | (.raised _, s1) => NEx [t] s1
  | (.resume _, s1) => PreFr s s1 t tk

theorem NEx.execPre (cfg : Cfg) {s : St} {t : Nat} {tk : Task} (h : NEx [t] s) (hh : Held s t) (ht : s.tasks[t]? = some tk) :
    PreNE s t tk (execPre cfg s t tk) := by
  have frS : ∀ (f : Task → Task) (x : List (Option Nat)), (f tk).wake = tk.wake → (f tk).st = tk.st → (f tk).kind = tk.kind →
      (f tk).pc = tk.pc → PreFr s (setTask { s with sendScript := x } t f) t tk := by
    intro f x h1 h2 h3 h4
    exact ⟨rfl, rfl, rfl, rfl, fun u hu => getElem?_modify_ne' hu, ⟨f tk, by simp [List.getElem?_modify, ht], h1, h2, h3, h4⟩⟩
  have frR : ∀ (f : Task → Task) (x : List (Option Nat)), (f tk).wake = tk.wake → (f tk).st = tk.st → (f tk).kind = tk.kind →
      (f tk).pc = tk.pc → PreFr s ({ setTask s t f with recvScript := x }) t tk := by
    intro f x h1 h2 h3 h4
    exact ⟨rfl, rfl, rfl, rfl, fun u hu => getElem?_modify_ne' hu, ⟨f tk, by simp [List.getElem?_modify, ht], h1, h2, h3, h4⟩⟩
  unfold Pox.Recoco.execPre
  simp only []
  split
  · -- Recv
    split
    · split
      · exact PreFr.setSelf ht _ rfl rfl rfl rfl
      · exact frR _ _ rfl rfl rfl rfl
    · exact h
  · -- Send
    split
    · split
      · exact PreFr.setSelf ht _ rfl rfl rfl rfl
      · split
        · split
          · show NEx [] _
            refine NEx.register (s := { s with sendScript := _ }) ?_ ?_ _ _ _ _
            · nex h
            · held hh
          · show NEx [t] _
            nex h
        · split
          · exact frS _ _ rfl rfl rfl rfl
          · show NEx [] _
            refine NEx.register (NEx.modPt (s := { s with sendScript := _ }) ?_ _ ?_ ?_ ?_) ?_ _ _ _ _
            · nex h
            · intro _; rfl
            · intro _; rfl
            · intro k hp; exact hp
            · held hh
    · exact h
  · split
    · rename_i e he
      exact PreFr.setSelf ht _ rfl rfl rfl rfl
    · exact PreFr.setSelf ht _ rfl rfl rfl rfl


theorem wkL_of_get {l l' : List Task} {u : Nat} (h : l'[u]? = l[u]?) : wkL l' u = wkL l u := by simp [wkL, h]
theorem ptL_of_get {l l' : List Task} {u : Nat} (h : l'[u]? = l[u]?) : ptL l' u ↔ ptL l u := by simp [ptL, h]
theorem stL_of_get {l l' : List Task} {u : Nat} (h : l'[u]? = l[u]?) : stL l' u = stL l u := by simp [stL, h]

/-- the generator of the held task is about to be resumed: its wake time is cleared (and recorded in the trace event) -/
theorem NEx.resume {s s1 : St} {t : Nat} {tk : Task} (h : NEx [t] s) (hh : Held s t) (hf : PreFr s s1 t tk)
    (f : Task → Task) (hfw : ∀ k, (f k).wake = none) : NEx [t] (setTask s1 t f) := by
  have hget : ∀ u, u ≠ t → (s1.tasks.modify t f)[u]? = s.tasks[u]? := fun u hu => by
    rw [getElem?_modify_ne' hu]; exact hf.get u hu
  have hwt : wkL (s1.tasks.modify t f) t = none := wkL_setWake_none f hfw
  have hne := hh.not_ents
  refine ⟨?_, by simpa [hf.trace] using h.2⟩
  simp only [setTask_incoming, setTask_hub, setTask_ready, setTask_now, setTask_tasks]
  have e1 : Pox.Recoco.ents (setTask s1 t f) = Pox.Recoco.ents s := hf.ents
  rw [e1, hf.ready, hf.now]
  refine ⟨?_, ?_, ?_⟩
  · intro e he
    have : e.tid ≠ t := fun e' => hne (e' ▸ List.mem_map_of_mem he)
    rw [wkL_of_get (hget _ this)]; exact h.1.entry e he
  · intro u hu w fds hw hc
    by_cases e : u = t
    · subst e; rw [hwt] at hw; cases hw
    · rw [wkL_of_get (hget u e)] at hw
      exact h.1.ready u hu w fds hw (hc.imp id (ptL_of_get (hget u e)).mp)
  · intro u hl hnp
    by_cases e : u = t
    · subst e; exact absurd (List.mem_append_left _ List.mem_cons_self) hnp
    · rw [wkL_of_get (hget u e)]
      rw [stL_of_get (hget u e)] at hl
      exact h.1.blocked u hl hnp

theorem NEx.resumeGen (cfg : Cfg) {s : St} {t : Nat} {tk : Task} (r : Recv) (raw : Val)
    (h : NEx [t] (setTask s t (fun k => { k with pc := k.pc + 1, wake := none })))
    (hev : evOK (.step t tk.pc s.now r raw tk.wake)) (hh : Held s t) (ht : s.tasks[t]? = some tk) :
    NEx [] (resumeGen cfg s t tk r raw) := by
  have h0 : NEx [t] { setTask s t (fun k => { k with pc := k.pc + 1, wake := none }) with
                   trace := s.trace ++ [.step t tk.pc s.now r raw tk.wake] } := by
    refine ⟨h.1, ?_⟩
    intro ev hev'
    rcases List.mem_append.mp hev' with h1 | h1
    · exact h.2 ev h1
    · simp only [List.mem_singleton] at h1; subst h1; exact hev
  have hh0 : Held { setTask s t (fun k => { k with pc := k.pc + 1, wake := none }) with
                   trace := s.trace ++ [.step t tk.pc s.now r raw tk.wake] } t := by held hh
  have hw0 : wkL ({ setTask s t (fun k => { k with pc := k.pc + 1, wake := none }) with
                   trace := s.trace ++ [.step t tk.pc s.now r raw tk.wake] } : St).tasks t = none :=
    wkL_setWake_none _ (fun _ => rfl)
  have hk0 := kdL_of_get ht
  unfold Pox.Recoco.resumeGen
  simp only
  split
  · split
    · nex (h0.blockT hw0)
    · exact h0.topOut hh0 hw0 _
  · rename_i k p hkind
    have hk1 : kdL s.tasks t = some (.sub k p) := by rw [hk0, hkind]
    have hk2 : kdL ({ setTask s t (fun k => { k with pc := k.pc + 1, wake := none }) with
                   trace := s.trace ++ [.step t tk.pc s.now r raw tk.wake] } : St).tasks t = some (.sub k p) := by
      simp only [setTask_tasks, kdL_modify, implies_true]; exact hk1
    split
    · nex (h0.blockT hw0)
    · split
      · refine NEx.subOut (k := k) (s := setTask _ p _) (h0.setParent hh0 hk2 _ ?_ ?_) ?_ ?_ ?_ _ _
        · intro _; rfl
        · intro _; rfl
        · held hh0
        · simp only [setTask_tasks, wkL_modify_keep, implies_true]; exact hw0
        · simp only [setTask_tasks, kdL_modify, implies_true]; exact hk1
      · exact h0.subOut hh0 hw0 hk2 _ _
  · exact h0.timerStep hh0 hw0 _ _


/-! ### the running slot is empty between cycles -/

@[simp] theorem fastSchedule_running (s : St) (t : Nat) (f : Bool) : (fastSchedule s t f).running = s.running := by
  unfold fastSchedule; split <;> rfl
@[simp] theorem registerSelect_running (s : St) (t : Nat) (a b c : List Nat) (d : Option Nat) :
    (registerSelect s t a b c d).running = s.running := rfl
@[simp] theorem setStatus_running (s : St) (t : Nat) (x : Status) : (setStatus s t x).running = s.running := rfl
@[simp] theorem finishSub_running (s : St) (t p : Nat) : (finishSub s t p).running = s.running := by simp [finishSub]
@[simp] theorem cancelTimer_running (s : St) (j : Nat) : (cancelTimer s j).running = s.running := rfl

@[simp] theorem doYield_running (s : St) (t : Nat) (y : Y) : (doYield s t y).running = s.running := by
  cases y with
  | num n => cases n <;> simp [doYield]
  | sleep d => cases d with
    | none => rfl
    | some d => simp only [doYield]; split <;> simp
  | sleepAbs w => simp only [doYield]; split <;> simp
  | _ => simp [doYield]

@[simp] theorem topOut_running (s : St) (t : Nat) (o : Out) : (topOut s t o).running = s.running := by
  cases o <;> simp [topOut]

@[simp] theorem subOut_running (fx : Bool) (s : St) (t p pc : Nat) (o : Out) : (subOut fx s t p pc o).running = s.running := by
  cases o with
  | raise e => simp [subOut]
  | stop => simp only [subOut]; split <;> simp
  | yield y =>
    simp only [subOut]
    split
    · simp
    · split <;> simp

@[simp] theorem timerStep_running (s : St) (t j pc : Nat) : (timerStep s t j pc).running = s.running := by
  unfold timerStep
  repeat' split
  all_goals first
    | (simp; done)
    | (simp only []; split <;> simp)

@[simp] theorem resumeGen_running (cfg : Cfg) (s : St) (t : Nat) (tk : Task) (r : Recv) (raw : Val) :
    (resumeGen cfg s t tk r raw).running = s.running := by
  unfold resumeGen
  simp only
  repeat' split
  all_goals simp

theorem execPre_running (cfg : Cfg) (s : St) (t : Nat) (tk : Task) : (execPre cfg s t tk).2.running = s.running := by
  unfold execPre
  simp only []
  repeat' split
  all_goals simp

theorem cycleExec_running (cfg : Cfg) (s : St) : (cycleExec cfg s).running = none := by
  unfold cycleExec
  split
  · assumption
  · rename_i t _
    simp only
    split
    · rfl
    · rename_i tk _
      have := execPre_running cfg { s with running := none } t tk
      split
      · rename_i he; rw [he] at this; exact this
      · rename_i he; rw [he] at this; simpa using this
      · rename_i he; rw [he] at this
        split
        · exact this
        · simpa using this

/-! ### assembling -/

/-- between cycles: nobody is running and every pending timed wait is accounted for -/
def NE (s : St) : Prop := s.running = none ∧ NEx [] s

theorem NE.cycle (cfg : Cfg) {s : St} (hi : Inv s) (h : NE s) : NE (cycle cfg s) := by
  refine ⟨by unfold Pox.Recoco.cycle; exact cycleExec_running _ _, ?_⟩
  unfold Pox.Recoco.cycle cyclePop
  simp only [h.1]
  cases hl : lottery s.tasks s.draws s.ready with
  | none =>
    -- nothing to pop
    simp only []
    unfold Pox.Recoco.cycleExec
    simp only [h.1]
    nex h.2
  | some res =>
    obtain ⟨t, rest, ds'⟩ := res
    simp only []
    have hperm := lottery_perm _ _ _ hl
    have hh : Held { s with cycles := s.cycles + 1, running := none, ready := rest, draws := ds' } t := by
      refine ⟨rfl, ?_⟩
      have := hi
      simp only [Inv, places, h.1, incTids, hubTids, Option.toList, List.nil_append] at this ⊢
      refine this.perm ?_
      rw [← List.cons_append]
      exact List.Perm.append_right _ hperm
    have hx : NEx [t] { s with cycles := s.cycles + 1, running := none, ready := rest, draws := ds' } := by
      have := h.2
      simp only [NEx, ents] at this ⊢
      refine ⟨this.1.mono (fun _ h' => h') (fun u hu => ?_) (fun u hu => .inl ?_)
        (Nat.le_refl _) (fun _ h' => h') (fun _ _ h' => h'), this.2⟩
      · simp only [List.nil_append]; exact hperm.mem_iff.mp (by simpa using hu)
      · simp only [List.nil_append, List.mem_append] at hu ⊢
        rcases hu with hu | hu
        · have := hperm.mem_iff.mpr hu
          simp only [List.mem_cons] at this
          rcases this with rfl | h1
          · exact .inl (List.mem_singleton.mpr rfl)
          · exact .inr (.inl h1)
        · exact .inr (.inr hu)
    unfold Pox.Recoco.cycleExec
    simp only
    split
    · nex (hx.blockT (by rename_i hn; simp [wkL]; simp at hn; simp [hn]))
    · rename_i tk htk
      have htk' : s.tasks[t]? = some tk := htk
      have hp := hx.execPre cfg hh htk'
      have hpo := hh.execPre cfg tk
      split
      · rename_i s1 he; rw [he] at hp; exact hp
      · rename_i e s1 he; rw [he] at hp hpo; exact NEx.kill hp hpo (by simp)
      · rename_i r s1 he; rw [he] at hp hpo
        have hf : PreFr _ s1 t tk := hp
        obtain ⟨tk1, htk1, hw1, _⟩ := hf.self
        split
        · rename_i hn; rw [htk1] at hn; cases hn
        · rename_i tk1' htk1'
          rw [htk1] at htk1'; cases htk1'
          refine NEx.resumeGen cfg r _ (hx.resume hh hf _ (fun _ => rfl)) ?_ hpo htk1
          -- the recorded event is not early
          rw [hw1, hf.now]
          cases hwk : tk.wake with
          | none => trivial
          | some wf =>
            obtain ⟨w, fds⟩ := wf
            intro hc
            refine hx.1.ready t (List.mem_append_left _ List.mem_cons_self) w fds (by simp [wkL, htk', hwk]) (hc.imp id ?_)
            intro hr
            exact ⟨tk, htk', hr⟩

theorem NE.idleStep (cfg : Cfg) {s : St} (hi : Inv s) (h : NE s) : NE (idleStep cfg s) :=
  ⟨(HubFr.idleStep cfg s).running.trans h.1, h.2.idleStep cfg hi⟩

theorem NE.iter (cfg : Cfg) {s : St} (hi : Inv s) (h : NE s) : NE (iter cfg s) := by
  unfold Pox.Recoco.iter
  have h1 := h.idleStep cfg hi
  have hi1 := hi.idleStep cfg
  split
  · exact h
  · simp only []
    split
    · exact h1
    · exact h1.cycle cfg hi1

theorem NE.run (cfg : Cfg) : ∀ (n : Nat) {s : St}, Inv s → NE s → NE (run cfg n s)
  | 0, _, _, h => h
  | n + 1, _, hi, h => NE.run cfg n (hi.iter cfg) (h.iter cfg hi)

theorem NE.init (t0 : Nat) (tasks : List Nat) (timers : List TimerCfg) (ss rs : List (Option Nat)) (ps ds : List Nat) :
    NE (initSt t0 tasks timers ss rs ps ds) := by
  have hwk : ∀ t, wkL (initSt t0 tasks timers ss rs ps ds).tasks t = none := by
    intro t
    have e : wkL (initSt t0 tasks timers ss rs ps ds).tasks t = (((initSt t0 tasks timers ss rs ps ds).tasks.map (·.wake))[t]?).join := by
      simp only [wkL, List.getElem?_map]; cases (initSt t0 tasks timers ss rs ps ds).tasks[t]? <;> rfl
    rw [e, initSt_view (·.wake) (fun _ _ => rfl)]
    simp only [List.getElem?_append, List.length_map, List.getElem?_map]
    split
    · cases tasks[t]? <;> simp
    · cases (List.range timers.length)[t - tasks.length]? <;> simp
  refine ⟨rfl, ⟨?_, ?_, ?_⟩, ?_⟩
  · intro e he; simp [ents, initSt] at he
  · intro t _ w fds hw; rw [hwk] at hw; cases hw
  · intro t _ _; exact hwk t
  · intro ev hev; simp [initSt] at hev

/-! ## Part 4: one-cycle theorems (isolation, sub-task return, delivery)

`cycle` = lottery (`cyclePop`) ; `execPre` (rf / re / rv delivery) ; `resumeGen`.  The theorems below are about the last stage, for
an arbitrary state and an arbitrary value `r` handed to the generator; `cycle_pop` / `cycleExec_resume` / `cycleExec_raised` /
`execPre_same` connect them to a whole cycle, whatever way the task was woken (plain value, pending exception, or through the
return function of `Recv` / `Send`). -/

/-- the state `cycleExec` starts from when the lottery picked `t` -/
def popped (s : St) (t : Nat) (rest ds' : List Nat) : St :=
  { s with cycles := s.cycles + 1, running := some t, ready := rest, draws := ds' }

theorem cycle_pop (cfg : Cfg) (s : St) (t : Nat) (rest ds' : List Nat) (hrun : s.running = none)
    (hpop : lottery s.tasks s.draws s.ready = some (t, rest, ds')) : cycle cfg s = cycleExec cfg (popped s t rest ds') := by
  simp [cycle, cyclePop, hrun, hpop, popped]

theorem cycleExec_resume (cfg : Cfg) (s s1 : St) (t : Nat) (tk tk1 : Task) (r : Recv) (hrun : s.running = some t)
    (htk : s.tasks[t]? = some tk) (hpre : execPre cfg { s with running := none } t tk = (.resume r, s1))
    (htk1 : s1.tasks[t]? = some tk1) : cycleExec cfg s = resumeGen cfg s1 t tk1 r tk.rv := by
  have htk' : ({ s with running := none } : St).tasks[t]? = some tk := htk
  simp only [cycleExec, hrun, htk', hpre, htk1]

theorem cycleExec_raised (cfg : Cfg) (s s1 : St) (t : Nat) (tk : Task) (e : Exc) (hrun : s.running = some t)
    (htk : s.tasks[t]? = some tk) (hpre : execPre cfg { s with running := none } t tk = (.raised e, s1)) :
    cycleExec cfg s = setStatus s1 t .dead := by
  have htk' : ({ s with running := none } : St).tasks[t]? = some tk := htk
  simp only [cycleExec, hrun, htk', hpre]

/-- what `execPre` may touch when it does not answer `ABORT`: the scripts and, of task `t` only, `rv` / `re` / `rf` -/
structure PreSame (s s1 : St) (t : Nat) (tk : Task) : Prop where
  ready : s1.ready = s.ready
  incoming : s1.incoming = s.incoming
  hub : s1.hub = s.hub
  now : s1.now = s.now
  hasQuit : s1.hasQuit = s.hasQuit
  crashed : s1.crashed = s.crashed
  running : s1.running = s.running
  timers : s1.timers = s.timers
  trace : s1.trace = s.trace
  others : ∀ u, u ≠ t → s1.tasks[u]? = s.tasks[u]?
  self : (s1.tasks[t]?).map (fun k => (k.kind, k.pc, k.st, k.wake, k.prio)) = some (tk.kind, tk.pc, tk.st, tk.wake, tk.prio)

theorem execPre_same (cfg : Cfg) (s : St) (t : Nat) (tk : Task) (ht : s.tasks[t]? = some tk) :
    ∀ x s1, execPre cfg s t tk = (x, s1) → x ≠ .abort → PreSame s s1 t tk := by
  intro x s1 h hx
  unfold execPre at h
  simp only [] at h
  repeat' split at h
  all_goals
    simp only [Prod.mk.injEq] at h
    obtain ⟨rfl, rfl⟩ := h
  all_goals first
    | exact absurd rfl hx
    | exact ⟨rfl, rfl, rfl, rfl, rfl, rfl, rfl, rfl, rfl, fun _ _ => rfl, by simp [ht]⟩
    | exact ⟨rfl, rfl, rfl, rfl, rfl, rfl, rfl, rfl, rfl, fun u hu => getElem?_modify_ne' hu, by simp [List.getElem?_modify, ht]⟩

/-- without a return function the generator is sent the pending exception, else the pending value -/
def pendingRecv (tk : Task) : Recv :=
  match tk.re with
  | some e => .exc e
  | none => .val tk.rv

theorem execPre_plain (cfg : Cfg) (s : St) (t : Nat) (tk : Task) (hrf : tk.rf = none) :
    (execPre cfg s t tk).1 = .resume (pendingRecv tk) := by
  unfold execPre pendingRecv
  simp only [hrf]
  cases tk.re <;> rfl

theorem genStep_ne_yield_raise (n : Nat) (prog : List Y) (pc : Nat) (r : Recv) (m : Nat) :
    genStep n prog pc r ≠ .yield (.raise m) := by
  unfold genStep
  have key : (match prog[pc]? with
      | none => Out.stop
      | some (.raise n) => .raise (.user n)
      | some (.cancel j) => if j < n then .yield (.cancel j) else .raise .indexError
      | some y => .yield y) ≠ .yield (.raise m) := by
    cases hp : prog[pc]? with
    | none => simp
    | some y => cases y <;> simp <;> split <;> simp
  split
  · simp
  · exact key

/-- what `AgainTask.run_again` writes into its caller when the wrapped generator produced the final outcome `o` -/
def deliver (fx : Bool) (o : Out) (pc : Nat) (ptk : Task) : Task :=
  match o with
  | .raise e => { ptk with re := some e }
  | .stop => if pc = 0 ∧ fx = false then { ptk with re := some .stopIteration } else ptk
  | .yield (.num n) => { ptk with rv := .num n }
  | .yield .block => { ptk with rv := .fals }
  | .yield (.cancel _) => { ptk with rv := .num 0 }
  | .yield _ => ptk

/-- the sub-task's generator is finished after `o` (it raised, returned, or yielded a plain value = "return") -/
def Out.final : Out → Bool
  | .yield y => !y.isBlocking
  | _ => true

@[simp] theorem fastSchedule_trace (s : St) (t : Nat) (f : Bool) : (fastSchedule s t f).trace = s.trace := by
  unfold fastSchedule; split <;> rfl
@[simp] theorem registerSelect_trace (s : St) (t : Nat) (a b c : List Nat) (d : Option Nat) :
    (registerSelect s t a b c d).trace = s.trace := rfl
@[simp] theorem setStatus_trace (s : St) (t : Nat) (x : Status) : (setStatus s t x).trace = s.trace := rfl
@[simp] theorem finishSub_trace (s : St) (t p : Nat) : (finishSub s t p).trace = s.trace := by simp [finishSub]
@[simp] theorem cancelTimer_trace (s : St) (j : Nat) : (cancelTimer s j).trace = s.trace := rfl

@[simp] theorem doYield_trace (s : St) (t : Nat) (y : Y) : (doYield s t y).trace = s.trace := by
  cases y with
  | num n => cases n <;> simp [doYield]
  | sleep d => cases d with
    | none => rfl
    | some d => simp only [doYield]; split <;> simp
  | sleepAbs w => simp only [doYield]; split <;> simp
  | _ => simp [doYield]

@[simp] theorem topOut_trace (s : St) (t : Nat) (o : Out) : (topOut s t o).trace = s.trace := by
  cases o <;> simp [topOut]

@[simp] theorem subOut_trace (fx : Bool) (s : St) (t p pc : Nat) (o : Out) : (subOut fx s t p pc o).trace = s.trace := by
  cases o with
  | raise e => simp [subOut]
  | stop => simp only [subOut]; split <;> simp
  | yield y =>
    simp only [subOut]
    split
    · simp
    · split <;> simp


/-- **isolation, generator stage.**  The generator of a top-level task raises when resumed with `r` (its own `raise`, or an
exception thrown in that it does not catch): the task becomes dead and stays out of every queue; nothing else changes. -/
theorem resumeGen_raise (cfg : Cfg) (s : St) (t : Nat) (tk : Task) (k : Nat) (prog : List Y) (e : Exc) (r : Recv) (raw : Val)
    (htk : s.tasks[t]? = some tk) (hkind : tk.kind = .top k) (hprog : cfg.progs[k]? = some prog)
    (hraise : genStep s.timers.length prog tk.pc r = .raise e) :
    let s' := resumeGen cfg s t tk r raw
    s'.ready = s.ready ∧ s'.running = s.running ∧ s'.incoming = s.incoming ∧ s'.hub = s.hub ∧ s'.now = s.now ∧
    s'.hasQuit = s.hasQuit ∧ s'.crashed = s.crashed ∧ s'.timers = s.timers ∧
    (∀ u, u ≠ t → s'.tasks[u]? = s.tasks[u]?) ∧ stL s'.tasks t = some .dead ∧
    s'.trace = s.trace ++ [.step t tk.pc s.now r raw tk.wake] := by
  obtain ⟨kind, pc, rv, re, rf, st, wake, prio⟩ := tk
  simp only at hkind hraise ⊢
  subst hkind
  simp [resumeGen, hprog, hraise, topOut, setStatus, stL, List.getElem?_modify, htk]
  intro u hu
  have : ¬ t = u := fun e => hu e.symm
  cases s.tasks[u]? <;> simp [this]

/-- **again_return, generator stage.**  The generator of a sub-task finishes when resumed with `r` (raises, runs out, or yields a
plain value): exactly its caller gets the outcome, the caller goes to the front of the ready deque, the sub-task is done. -/
theorem resumeGen_final (cfg : Cfg) (s : St) (c p k : Nat) (tk ptk : Task) (prog : List Y) (r : Recv) (raw : Val)
    (htk : s.tasks[c]? = some tk) (hkind : tk.kind = .sub k p) (hprog : cfg.progs[k]? = some prog)
    (hp : s.tasks[p]? = some ptk) (hpc : p ≠ c) (hnr : p ∉ s.ready)
    (hfin : (genStep s.timers.length prog tk.pc r).final = true) :
    let s' := resumeGen cfg s c tk r raw
    let o := genStep s.timers.length prog tk.pc r
    s'.ready = p :: s.ready ∧ s'.running = s.running ∧ s'.incoming = s.incoming ∧ s'.hub = s.hub ∧ s'.now = s.now ∧
    s'.tasks[p]? = some (deliver cfg.fixEmptySub o tk.pc (if tk.pc = 0 then { ptk with rv := .none } else ptk)) ∧
    (∀ u, u ≠ c → u ≠ p → s'.tasks[u]? = s.tasks[u]?) ∧ stL s'.tasks c = some .done ∧
    s'.trace = s.trace ++ [.step c tk.pc s.now r raw tk.wake] := by
  have hcp : ¬ c = p := fun e => hpc e.symm
  obtain ⟨kind, pc, rv, re, rf, st, wake, prio⟩ := tk
  simp only at hkind hfin ⊢
  subst hkind
  generalize hgo : genStep s.timers.length prog pc r = o at hfin
  have fin2 : ∀ (u : Nat), u ≠ c → u ≠ p → ¬ c = u ∧ ¬ p = u := fun u h1 h2 => ⟨fun e => h1 e.symm, fun e => h2 e.symm⟩
  simp only [resumeGen, hprog, setTask_timers, hgo]
  rcases Nat.eq_zero_or_pos pc with rfl | hpos
  · cases o with
    | raise e =>
      simp [hgo, subOut, finishSub, fastSchedule, setStatus, hnr, deliver, stL, List.getElem?_modify, hp, hpc, hcp, htk]
      intro u h1 h2
      obtain ⟨e1, e2⟩ := fin2 u h1 h2
      cases s.tasks[u]? <;> simp [e1, e2]
    | stop =>
      cases hfx : cfg.fixEmptySub
      all_goals
        simp [hgo, hfx, subOut, finishSub, fastSchedule, setStatus, hnr, deliver, stL, List.getElem?_modify, hp, hpc, hcp, htk]
        intro u h1 h2
        obtain ⟨e1, e2⟩ := fin2 u h1 h2
        cases s.tasks[u]? <;> simp [e1, e2]
    | yield y =>
      cases y <;> simp [Out.final, Y.isBlocking] at hfin
      case raise m => exact absurd hgo (genStep_ne_yield_raise _ _ _ _ _)
      all_goals
        simp [hgo, subOut, Y.isBlocking, finishSub, fastSchedule, setStatus, hnr, deliver, stL, List.getElem?_modify, hp, hpc, hcp, htk,
          cancelTimer]
        intro u h1 h2
        obtain ⟨e1, e2⟩ := fin2 u h1 h2
        cases s.tasks[u]? <;> simp [e1, e2]
  · have hne : pc ≠ 0 := by omega
    cases o with
    | raise e =>
      simp [hgo, hne, subOut, finishSub, fastSchedule, setStatus, hnr, deliver, stL, List.getElem?_modify, hp, hpc, hcp, htk]
      intro u h1 h2
      obtain ⟨e1, e2⟩ := fin2 u h1 h2
      cases s.tasks[u]? <;> simp [e1, e2]
    | stop =>
      simp [hgo, hne, subOut, finishSub, fastSchedule, setStatus, hnr, deliver, stL, List.getElem?_modify, hp, hpc, hcp, htk]
      intro u h1 h2
      obtain ⟨e1, e2⟩ := fin2 u h1 h2
      cases s.tasks[u]? <;> simp [e1, e2]
    | yield y =>
      cases y <;> simp [Out.final, Y.isBlocking] at hfin
      case raise m => exact absurd hgo (genStep_ne_yield_raise _ _ _ _ _)
      all_goals
        simp [hgo, hne, subOut, Y.isBlocking, finishSub, fastSchedule, setStatus, hnr, deliver, stL, List.getElem?_modify, hp, hpc, hcp, htk,
          cancelTimer]
        intro u h1 h2
        obtain ⟨e1, e2⟩ := fin2 u h1 h2
        cases s.tasks[u]? <;> simp [e1, e2]

/-- **delivery, generator stage.**  Resuming the generator of a task that runs a program appends exactly one step event, which
records the value handed over, the raw `rv` it came from and the wake time the task was waiting for. -/
theorem resumeGen_event (cfg : Cfg) (s : St) (t : Nat) (tk : Task) (prog : List Y) (r : Recv) (raw : Val)
    (hprog : progOf cfg tk.kind = some prog) :
    (resumeGen cfg s t tk r raw).trace = s.trace ++ [.step t tk.pc s.now r raw tk.wake] := by
  obtain ⟨kind, pc, rv, re, rf, st, wake, prio⟩ := tk
  simp only at hprog ⊢
  cases kind with
  | top k =>
    simp only [progOf] at hprog
    simp [resumeGen, hprog]
  | sub k p =>
    simp only [progOf] at hprog
    simp [resumeGen, hprog]
    split <;> rfl
  | timer j => simp [progOf] at hprog

/-! ## Part 5: a cycle changes `ctl` (kind, pc, status) of the task it runs only; finished tasks never run again -/

/-- everything of a task except the mailbox fields `rv` / `re` (which a finishing sub-task writes into its caller) -/
def ctl2 (k : Task) : Kind × Nat × Status × Option (Nat × Bool) × Nat × Option Rf := (k.kind, k.pc, k.st, k.wake, k.prio, k.rf)

/-- `l'` extends `l` and agrees with it on `ctl2` everywhere except possibly at index `t` -/
def CtlExt (t : Nat) (l l' : List Task) : Prop :=
  ∀ u, u ≠ t → u < l.length → (l'.map ctl2)[u]? = (l.map ctl2)[u]?

theorem CtlExt.refl (t : Nat) (l : List Task) : CtlExt t l l := fun _ _ _ => rfl

theorem CtlExt.trans {t : Nat} {a b c : List Task} (h1 : CtlExt t a b) (h2 : CtlExt t b c) (hlen : a.length ≤ b.length) :
    CtlExt t a c := fun u hu hl => (h2 u hu (by omega)).trans (h1 u hu hl)

theorem CtlExt.modify_keep {t u : Nat} {l : List Task} {f : Task → Task}
    (h : ∀ k, ctl2 (f k) = ctl2 k) : CtlExt t l (l.modify u f) := by
  intro v _ _; rw [map_modify_of ctl2 f h]

theorem CtlExt.modify_self {t : Nat} {l : List Task} {f : Task → Task} : CtlExt t l (l.modify t f) := by
  intro v hv _
  simp only [List.getElem?_map, List.getElem?_modify]
  have : ¬ t = v := fun e => hv e.symm
  cases l[v]? <;> simp [this]

theorem CtlExt.push {t : Nat} {l : List Task} {tk : Task} : CtlExt t l (l ++ [tk]) := by
  intro v _ hl
  simp only [List.map_append, List.getElem?_append_left (by simpa using hl : v < (l.map ctl2).length)]

/-- frame of one scheduler transition with respect to the task it runs -/
structure CycFr (t : Nat) (s s' : St) : Prop where
  len : s.tasks.length ≤ s'.tasks.length
  ctl : CtlExt t s.tasks s'.tasks

theorem CycFr.refl (t : Nat) (s : St) : CycFr t s s := ⟨Nat.le_refl _, CtlExt.refl _ _⟩
theorem CycFr.trans {t : Nat} {a b c : St} (h1 : CycFr t a b) (h2 : CycFr t b c) : CycFr t a c :=
  ⟨Nat.le_trans h1.len h2.len, h1.ctl.trans h2.ctl h1.len⟩
theorem CycFr.of_after {t : Nat} {a b c : St} (h2 : CycFr t b c) (h1 : CycFr t a b) : CycFr t a c := h1.trans h2

theorem CycFr.of_tasks {t : Nat} {s s' : St} (h : s'.tasks = s.tasks) : CycFr t s s' :=
  ⟨by rw [h]; exact Nat.le_refl _, by rw [h]; exact CtlExt.refl _ _⟩

theorem CycFr.setTask_keep {t u : Nat} {s : St} {f : Task → Task}
    (h : ∀ k, ctl2 (f k) = ctl2 k) : CycFr t s (setTask s u f) :=
  ⟨by simp, CtlExt.modify_keep h⟩

theorem CycFr.setTask_self {t : Nat} {s : St} {f : Task → Task} : CycFr t s (setTask s t f) :=
  ⟨by simp, CtlExt.modify_self⟩

theorem CycFr.fastSchedule (t : Nat) (s : St) (u : Nat) (f : Bool) : CycFr t s (fastSchedule s u f) := by
  unfold Pox.Recoco.fastSchedule; split <;> exact CycFr.of_tasks rfl

theorem CycFr.registerSelect (t : Nat) (s : St) (a b c : List Nat) (d : Option Nat) : CycFr t s (registerSelect s t a b c d) := by
  unfold Pox.Recoco.registerSelect
  exact CycFr.trans (CycFr.setTask_self (f := _)) (CycFr.of_tasks rfl)

theorem CycFr.setStatus (t : Nat) (s : St) (x : Status) : CycFr t s (setStatus s t x) := CycFr.setTask_self

theorem CycFr.finishSub (t : Nat) (s : St) (p : Nat) : CycFr t s (finishSub s t p) :=
  (CycFr.setStatus t s .done).trans (CycFr.fastSchedule t _ p true)

theorem CycFr.doYield (t : Nat) (s : St) (y : Y) : CycFr t s (doYield s t y) := by
  cases y with
  | num n => cases n with
    | zero => exact CycFr.of_tasks rfl
    | succ n => exact CycFr.registerSelect t s _ _ _ _
  | block => exact CycFr.refl _ _
  | sleep d => cases d with
    | none => exact CycFr.refl _ _
    | some d =>
      simp only [Pox.Recoco.doYield]
      split
      · exact CycFr.setTask_self.trans (CycFr.fastSchedule t _ t false)
      · exact CycFr.registerSelect t s _ _ _ _
  | sleepAbs w =>
    simp only [Pox.Recoco.doYield]
    split
    · exact CycFr.setTask_self.trans (CycFr.fastSchedule t _ t false)
    · exact CycFr.registerSelect t s _ _ _ _
  | select r w x to => exact CycFr.registerSelect t s _ _ _ _
  | recv fd to => exact CycFr.setTask_self.trans (CycFr.registerSelect t _ _ _ _ _)
  | send fd len to bs => exact CycFr.setTask_self.trans (CycFr.registerSelect t _ _ _ _ _)
  | exit => exact CycFr.of_tasks rfl
  | raise n => exact CycFr.refl _ _
  | again k c =>
    simp only [Pox.Recoco.doYield]
    refine CycFr.of_after (CycFr.fastSchedule t _ _ true) ⟨by simp, CtlExt.push⟩
  | cancel j => exact CycFr.of_tasks rfl

theorem CycFr.topOut (t : Nat) (s : St) (o : Out) : CycFr t s (topOut s t o) := by
  cases o with
  | stop => exact CycFr.setStatus t s _
  | raise e => exact CycFr.setStatus t s _
  | yield y => exact CycFr.doYield t s y

theorem CycFr.subOut (fx : Bool) (t : Nat) (s : St) (p pc : Nat) (o : Out) : CycFr t s (subOut fx s t p pc o) := by
  have keep : ∀ (f : Task → Task), (∀ k, ctl2 (f k) = ctl2 k) →
      CycFr t s (Pox.Recoco.finishSub (setTask s p f) t p) :=
    fun f hf => (CycFr.setTask_keep hf).trans (CycFr.finishSub t _ p)
  cases o with
  | raise e => exact keep _ (fun _ => rfl)
  | stop =>
    simp only [Pox.Recoco.subOut]
    split
    · exact keep _ (fun _ => rfl)
    · exact CycFr.finishSub t s p
  | yield y =>
    simp only [Pox.Recoco.subOut]
    split
    · exact CycFr.doYield t s y
    · split
      · exact keep _ (fun _ => rfl)
      · exact keep _ (fun _ => rfl)
      · refine CycFr.of_after (CycFr.finishSub t _ p) (CycFr.of_after (CycFr.setTask_keep (fun _ => rfl)) (CycFr.of_tasks rfl))
      · exact CycFr.refl _ _

theorem CycFr.timerStep (t : Nat) (s : St) (j pc : Nat) : CycFr t s (timerStep s t j pc) := by
  unfold Pox.Recoco.timerStep
  split
  · exact CycFr.of_tasks rfl
  · split
    · exact CycFr.setStatus t s _
    · split
      · exact CycFr.of_tasks rfl
      · split
        · exact CycFr.doYield t s _
        · simp only
          split
          · exact CycFr.of_tasks rfl
          · exact CycFr.of_after (CycFr.doYield t _ _) (CycFr.of_tasks rfl)

theorem CycFr.resumeGen (cfg : Cfg) (t : Nat) (s : St) (tk : Task) (r : Recv) (raw : Val) : CycFr t s (resumeGen cfg s t tk r raw) := by
  have h0 : CycFr t s { setTask s t (fun k => { k with pc := k.pc + 1, wake := none }) with
                   trace := s.trace ++ [.step t tk.pc s.now r raw tk.wake] } :=
    CycFr.setTask_self.trans (CycFr.of_tasks rfl)
  unfold Pox.Recoco.resumeGen
  simp only
  split
  · split
    · refine CycFr.of_after ?_ h0; exact CycFr.of_tasks rfl
    · refine CycFr.of_after ?_ h0; exact CycFr.topOut t _ _
  · split
    · refine CycFr.of_after ?_ h0; exact CycFr.of_tasks rfl
    · split
      · refine CycFr.of_after ?_ h0
        refine CycFr.of_after (CycFr.subOut _ t _ _ _ _) ?_
        exact CycFr.setTask_keep (fun _ => rfl)
      · refine CycFr.of_after ?_ h0; exact CycFr.subOut _ t _ _ _ _
  · refine CycFr.of_after ?_ h0; exact CycFr.timerStep t _ _ _

/-- `execPre` touches no task but `t` -/
theorem execPre_others (cfg : Cfg) (s : St) (t : Nat) (tk : Task) : ∀ u, u ≠ t → (execPre cfg s t tk).2.tasks[u]? = s.tasks[u]? := by
  intro u hu
  unfold Pox.Recoco.execPre
  simp only []
  repeat' split
  all_goals first
    | rfl
    | exact getElem?_modify_ne' hu
    | (simp only [registerSelect, setTask_tasks]; rw [getElem?_modify_ne' hu, getElem?_modify_ne' hu])
    | (simp only [registerSelect, setTask_tasks]; rw [getElem?_modify_ne' hu])

theorem CycFr.execPre (cfg : Cfg) (t : Nat) (s : St) (tk : Task) : CycFr t s (Pox.Recoco.execPre cfg s t tk).2 := by
  refine ⟨?_, fun u hu _ => by simp only [List.getElem?_map]; rw [execPre_others cfg s t tk u hu]⟩
  have := congrArg List.length (execPre_ctl cfg s t tk)
  simp only [List.length_map] at this
  omega

/-- `ctl` is a projection of `ctl2` -/
theorem ctl_of_ctl2 {l l' : List Task} {u : Nat} (h : (l'.map ctl2)[u]? = (l.map ctl2)[u]?) : (l'.map ctl)[u]? = (l.map ctl)[u]? := by
  have e : ∀ m : List Task, (m.map ctl)[u]? = ((m.map ctl2)[u]?).map (fun c => (c.1, c.2.1, c.2.2.1)) := by
    intro m; simp only [List.getElem?_map]; cases m[u]? <;> rfl
  rw [e, e, h]


theorem CycFr.cycleExec (cfg : Cfg) (s : St) (t : Nat) (hr : s.running = some t) : CycFr t s (Pox.Recoco.cycleExec cfg s) := by
  unfold Pox.Recoco.cycleExec
  simp only [hr]
  split
  · exact CycFr.of_tasks rfl
  · rename_i tk _
    have hp : CycFr t s (Pox.Recoco.execPre cfg { s with running := none } t tk).2 :=
      CycFr.of_after (CycFr.execPre cfg t _ tk) (CycFr.of_tasks rfl)
    split
    · rename_i s1 he; rw [he] at hp; exact hp
    · rename_i e s1 he; rw [he] at hp; exact hp.trans (CycFr.setStatus t s1 .dead)
    · rename_i r s1 he; rw [he] at hp
      split
      · exact hp.trans (CycFr.of_tasks rfl)
      · exact hp.trans (CycFr.resumeGen cfg t s1 _ r _)

/-- one cycle leaves kind, step counter and status of every task other than the one it runs untouched -/
theorem cycle_ctl_other (cfg : Cfg) (s : St) (hrun : s.running = none) (u : Nat) (hu : u ∉ s.ready)
    (hl : u < s.tasks.length) : ((cycle cfg s).tasks.map ctl)[u]? = (s.tasks.map ctl)[u]? := by
  cases hlot : lottery s.tasks s.draws s.ready with
  | none =>
    simp [cycle, cyclePop, hrun, hlot, cycleExec]
  | some res =>
    obtain ⟨t, rest, ds'⟩ := res
    rw [cycle_pop cfg s t rest ds' hrun hlot]
    have hne : u ≠ t := by
      rintro rfl
      exact hu ((lottery_perm _ _ _ hlot).mem_iff.mp List.mem_cons_self)
    exact ctl_of_ctl2 ((CycFr.cycleExec cfg (popped s t rest ds') t rfl).ctl u hne hl)

theorem iter_running (cfg : Cfg) (s : St) (hrun : s.running = none) : (iter cfg s).running = none := by
  unfold Pox.Recoco.iter
  have h1 : (idleStep cfg s).running = none := (HubFr.idleStep cfg s).running.trans hrun
  split
  · exact hrun
  · simp only []
    split
    · exact h1
    · unfold Pox.Recoco.cycle; exact cycleExec_running _ _

theorem Inv.ready_live {s : St} (hi : Inv s) {t : Nat} (h : t ∈ s.ready) : stL s.tasks t = some .live :=
  hi.live t (by simp [places, h])

/-- a task that is done or dead keeps its step counter and status for ever: it is never run again -/
theorem dead_stays (cfg : Cfg) : ∀ (n : Nat) {s : St}, Inv s → s.running = none → ∀ (u : Nat) (c : Kind × Nat × Status),
    (s.tasks.map ctl)[u]? = some c → c.2.2 ≠ .live → ((run cfg n s).tasks.map ctl)[u]? = some c
  | 0, _, _, _, _, _, hc, _ => hc
  | n + 1, s, hi, hrun, u, c, hc, hd => by
    refine dead_stays cfg n (hi.iter cfg) (iter_running cfg s hrun) u c ?_ hd
    have hidle : ((idleStep cfg s).tasks.map ctl)[u]? = some c := by rw [(HubFr.idleStep cfg s).ctl_eq]; exact hc
    unfold Pox.Recoco.iter
    split
    · exact hc
    · simp only []
      split
      · exact hidle
      · have hi1 := hi.idleStep cfg
        have hr1 : (idleStep cfg s).running = none := (HubFr.idleStep cfg s).running.trans hrun
        rw [cycle_ctl_other cfg _ hr1 u ?_ ?_]
        · exact hidle
        · intro hh
          have := hi1.ready_live hh
          simp only [stL] at this
          simp only [List.getElem?_map] at hidle
          cases hk : (idleStep cfg s).tasks[u]? with
          | none => simp [hk] at hidle
          | some k =>
            simp [hk] at hidle this
            rw [← hidle] at hd
            exact hd (by simpa [ctl] using this)
        · have := List.getElem?_eq_some_iff.mp hidle
          obtain ⟨hlt, _⟩ := this
          simpa using hlt

/-! ## Part 6: round-robin fairness of the ready deque (programs without sub-task calls) -/

def Y.isAgain : Y → Bool
  | .again _ _ => true
  | _ => false

/-- no program calls a sub-task -/
def NoAgain (cfg : Cfg) : Prop := ∀ prog ∈ cfg.progs, ∀ y ∈ prog, y.isAgain = false

/-- no `AgainTask` exists -/
def NoSub (s : St) : Prop := ∀ k ∈ s.tasks.map (·.kind), ∀ a p, k ≠ .sub a p

/-- the ready deque only grew at its tail, and no task was created or changed kind -/
structure RA (s s' : St) : Prop where
  ready : ∃ post, s'.ready = s.ready ++ post
  kinds : s'.tasks.map (·.kind) = s.tasks.map (·.kind)
  prios : s'.tasks.map (·.prio) = s.tasks.map (·.prio)

theorem RA.refl (s : St) : RA s s := ⟨⟨[], by simp⟩, rfl, rfl⟩
theorem RA.trans {a b c : St} (h1 : RA a b) (h2 : RA b c) : RA a c := by
  obtain ⟨p1, e1⟩ := h1.ready
  obtain ⟨p2, e2⟩ := h2.ready
  exact ⟨⟨p1 ++ p2, by rw [e2, e1, List.append_assoc]⟩, h2.kinds.trans h1.kinds, h2.prios.trans h1.prios⟩
theorem RA.of_after {a b c : St} (h2 : RA b c) (h1 : RA a b) : RA a c := h1.trans h2

theorem RA.same {s s' : St} (hr : s'.ready = s.ready) (ht : s'.tasks = s.tasks) : RA s s' :=
  ⟨⟨[], by simp [hr]⟩, by rw [ht], by rw [ht]⟩

theorem RA.setTask {s : St} {u : Nat} {f : Task → Task} (h : ∀ k, (f k).kind = k.kind ∧ (f k).prio = k.prio) :
    RA s (setTask s u f) :=
  ⟨⟨[], by simp⟩, map_modify_of (·.kind) f (fun k => (h k).1) _ _, map_modify_of (·.prio) f (fun k => (h k).2) _ _⟩

theorem RA.fastSchedule (s : St) (t : Nat) : RA s (fastSchedule s t false) := by
  unfold Pox.Recoco.fastSchedule
  split
  · exact RA.same rfl rfl
  · exact ⟨⟨[t], by simp⟩, rfl, rfl⟩

theorem RA.registerSelect (s : St) (t : Nat) (a b c : List Nat) (d : Option Nat) : RA s (registerSelect s t a b c d) := by
  unfold Pox.Recoco.registerSelect
  refine RA.of_after (b := Pox.Recoco.setTask s t _) (RA.same rfl rfl) (RA.setTask ?_)
  intro _; exact ⟨rfl, rfl⟩

theorem RA.doYield (s : St) (t : Nat) (y : Y) (hy : y.isAgain = false) : RA s (doYield s t y) := by
  cases y with
  | num n => cases n with
    | zero => exact ⟨⟨[t], rfl⟩, rfl, rfl⟩
    | succ n => exact RA.registerSelect s t _ _ _ _
  | block => exact RA.refl s
  | sleep d => cases d with
    | none => exact RA.refl s
    | some d =>
      simp only [Pox.Recoco.doYield]
      split
      · refine RA.of_after (RA.fastSchedule _ t) (RA.setTask ?_); intro _; exact ⟨rfl, rfl⟩
      · exact RA.registerSelect s t _ _ _ _
  | sleepAbs w =>
    simp only [Pox.Recoco.doYield]
    split
    · refine RA.of_after (RA.fastSchedule _ t) (RA.setTask ?_); intro _; exact ⟨rfl, rfl⟩
    · exact RA.registerSelect s t _ _ _ _
  | select r w x to => exact RA.registerSelect s t _ _ _ _
  | recv fd to => refine RA.of_after (RA.registerSelect _ t _ _ _ _) (RA.setTask ?_); intro _; exact ⟨rfl, rfl⟩
  | send fd len to bs => refine RA.of_after (RA.registerSelect _ t _ _ _ _) (RA.setTask ?_); intro _; exact ⟨rfl, rfl⟩
  | exit => exact RA.same rfl rfl
  | raise n => exact RA.refl s
  | again k c => simp [Y.isAgain] at hy
  | cancel j => exact ⟨⟨[t], rfl⟩, rfl, rfl⟩

theorem RA.topOut (s : St) (t : Nat) (o : Out) (ho : ∀ y, o = .yield y → y.isAgain = false) : RA s (topOut s t o) := by
  cases o with
  | stop => refine RA.setTask ?_; intro _; exact ⟨rfl, rfl⟩
  | raise e => refine RA.setTask ?_; intro _; exact ⟨rfl, rfl⟩
  | yield y => exact RA.doYield s t y (ho y rfl)

theorem RA.timerStep (s : St) (t j pc : Nat) : RA s (timerStep s t j pc) := by
  unfold Pox.Recoco.timerStep
  split
  · exact RA.same rfl rfl
  · split
    · refine RA.setTask ?_; intro _; exact ⟨rfl, rfl⟩
    · split
      · exact RA.same rfl rfl
      · split
        · exact RA.doYield s t _ rfl
        · simp only
          split
          · exact RA.same rfl rfl
          · exact RA.of_after (RA.doYield _ t _ rfl) (RA.same rfl rfl)

theorem genStep_noAgain {n : Nat} {prog : List Y} {pc : Nat} {r : Recv} (hp : ∀ y ∈ prog, y.isAgain = false) :
    ∀ y, genStep n prog pc r = .yield y → y.isAgain = false := by
  intro y h
  unfold genStep at h
  have key : ∀ o, (match prog[pc]? with
      | none => Out.stop
      | some (.raise n) => .raise (.user n)
      | some (.cancel j) => if j < n then .yield (.cancel j) else .raise .indexError
      | some y => .yield y) = o → o = .yield y → y.isAgain = false := by
    intro o ho hy
    cases hq : prog[pc]? with
    | none => rw [hq] at ho; subst ho; cases hy
    | some z =>
      have hz := hp z (List.mem_of_getElem? hq)
      rw [hq] at ho
      cases z <;> simp at ho
      all_goals first
        | (subst ho; cases hy; exact hz)
        | (subst ho; cases hy)
        | (split at ho <;> (subst ho; first | (cases hy; rfl) | cases hy))
  split at h
  · cases h
  · exact key _ rfl h

theorem RA.execPre (cfg : Cfg) (s : St) (t : Nat) (tk : Task) : RA s (execPre cfg s t tk).2 := by
  unfold Pox.Recoco.execPre
  simp only []
  repeat' split
  all_goals first
    | exact RA.refl s
    | exact RA.same rfl rfl
    | (refine RA.setTask ?_; intro _; exact ⟨rfl, rfl⟩)
    | (refine RA.of_after (b := Pox.Recoco.setTask s t _) (RA.same rfl rfl) (RA.setTask ?_); intro _; exact ⟨rfl, rfl⟩)
    | (refine RA.of_after (RA.setTask ?_) (RA.same rfl rfl); intro _; exact ⟨rfl, rfl⟩)
    | exact RA.of_after (RA.registerSelect _ t _ _ _ _) (RA.same rfl rfl)
    | (refine RA.of_after (RA.registerSelect _ t _ _ _ _) (RA.of_after (RA.setTask ?_) (RA.same rfl rfl)); intro _; exact ⟨rfl, rfl⟩)


theorem RA.resumeGen (cfg : Cfg) (hna : NoAgain cfg) (s : St) (t : Nat) (tk : Task) (r : Recv) (raw : Val)
    (hk : ∀ a p, tk.kind ≠ .sub a p) : RA s (resumeGen cfg s t tk r raw) := by
  have h0 : RA s { Pox.Recoco.setTask s t (fun k => { k with pc := k.pc + 1, wake := none }) with
                   trace := s.trace ++ [.step t tk.pc s.now r raw tk.wake] } := by
    refine RA.of_after (b := Pox.Recoco.setTask s t _) (RA.same rfl rfl) (RA.setTask ?_); intro _; exact ⟨rfl, rfl⟩
  unfold Pox.Recoco.resumeGen
  simp only
  split
  · split
    · refine RA.of_after ?_ h0; exact RA.same rfl rfl
    · rename_i prog hprog
      refine RA.of_after ?_ h0
      exact RA.topOut _ t _ (genStep_noAgain (hna prog (List.mem_of_getElem? hprog)))
  · rename_i a p hkind; exact absurd hkind (hk a p)
  · refine RA.of_after ?_ h0; exact RA.timerStep _ t _ _

theorem kind_of_get {l : List Task} {t : Nat} {tk : Task} (h : l[t]? = some tk) : tk.kind ∈ l.map (·.kind) :=
  List.mem_map_of_mem (List.mem_of_getElem? h)

theorem RA.cycleExec (cfg : Cfg) (hna : NoAgain cfg) (s : St) (hns : NoSub s) : RA s (Pox.Recoco.cycleExec cfg s) := by
  unfold Pox.Recoco.cycleExec
  split
  · exact RA.refl s
  · rename_i t hr
    simp only
    split
    · exact RA.same rfl rfl
    · rename_i tk htk
      have hp : RA s (Pox.Recoco.execPre cfg { s with running := none } t tk).2 :=
        RA.of_after (RA.execPre cfg _ t tk) (RA.same rfl rfl)
      split
      · rename_i s1 he; rw [he] at hp; exact hp
      · rename_i e s1 he; rw [he] at hp
        refine RA.of_after (RA.setTask ?_) hp; intro _; exact ⟨rfl, rfl⟩
      · rename_i r s1 he; rw [he] at hp
        have hp' : RA s s1 := hp
        split
        · exact RA.of_after (b := s1) (RA.same rfl rfl) hp'
        · rename_i tk1 htk1
          refine RA.of_after (RA.resumeGen cfg hna s1 t tk1 r _ ?_) hp
          intro a p hk
          have hm := kind_of_get htk1
          rw [hp.kinds] at hm
          exact hns _ hm a p hk

/-- `k` consecutive cycles -/
def cycles (cfg : Cfg) : Nat → St → St
  | 0, s => s
  | k + 1, s => cycles cfg k (cycle cfg s)

/-- every task has priority >= 1 (the default): the lottery of `cycle` always takes the head of the deque -/
def HiPrio (s : St) : Prop := ∀ p ∈ s.tasks.map (·.prio), 8 ≤ p

theorem HiPrio.prioL {s : St} (h : HiPrio s) (t : Nat) : 8 ≤ prioL s.tasks t := by
  unfold Pox.Recoco.prioL
  cases ht : s.tasks[t]? with
  | none => exact Nat.le_refl _
  | some k => exact h k.prio (List.mem_map_of_mem (List.mem_of_getElem? ht))

/-- **fair** (programs without sub-task calls, priorities >= 1): the task at position `k` of the ready deque is at its head after
exactly `k` cycles — nothing overtakes it, every cycle brings it one place forward. -/
theorem fair_cycles (cfg : Cfg) (hna : NoAgain cfg) : ∀ (k : Nat) (s : St) (t : Nat), NoSub s → HiPrio s → s.running = none →
    s.ready[k]? = some t →
    (cycles cfg k s).ready.head? = some t ∧ (cycles cfg k s).running = none ∧ NoSub (cycles cfg k s)
  | 0, s, t, hns, _, hrun, hk => ⟨by cases hr : s.ready <;> simp_all [cycles], hrun, hns⟩
  | k + 1, s, t, hns, hhp, hrun, hk => by
    cases hr : s.ready with
    | nil => rw [hr] at hk; simp at hk
    | cons h rest =>
      rw [hr] at hk; simp only [List.getElem?_cons_succ] at hk
      have hlot : lottery s.tasks s.draws s.ready = some (h, rest, s.draws) := by
        rw [hr]; exact lottery_head _ _ _ _ (hhp.prioL h)
      have hcyc := cycle_pop cfg s h rest s.draws hrun hlot
      have hra := RA.cycleExec cfg hna (popped s h rest s.draws) hns
      obtain ⟨post, hpost⟩ := hra.ready
      have hk' : (cycle cfg s).ready[k]? = some t := by
        rw [hcyc, hpost]
        have hlt : k < rest.length := (List.getElem?_eq_some_iff.mp hk).1
        simp only [popped]
        rw [List.getElem?_append_left hlt]; exact hk
      have hns' : NoSub (cycle cfg s) := by
        rw [hcyc]; intro kd hkd; rw [hra.kinds] at hkd; exact hns kd hkd
      have hhp' : HiPrio (cycle cfg s) := by
        rw [hcyc]; intro p hp; rw [hra.prios] at hp; exact hhp p hp
      have hrun' : (cycle cfg s).running = none := by rw [hcyc]; exact cycleExec_running _ _
      exact fair_cycles cfg hna k (cycle cfg s) t hns' hhp' hrun' hk'

/-! ## Part 7: timers -/

/-- the only ways a timer record changes in one scheduler transition (`now` = clock at a firing) -/
inductive TStep : TimerSt → TimerSt → Prop
  | same (tm) : TStep tm tm
  | cancel (tm) : TStep tm { tm with cancelled := true }
  | noticed (tm) (hc : tm.cancelled = true) : TStep tm { tm with final := true }
  | fire (tm) (now : Nat) (hf : tm.final = false) (hc : tm.cancelled = false) :
      TStep tm { tm with next := now + (if tm.cfg.recurring then tm.cfg.delay else 0), fired := tm.fired + 1,
                         final := (tm.cfg.selfStop && tm.cfg.falseAt == some tm.fired) || !tm.cfg.recurring }

/-- what is true of every timer record at all times -/
structure TOK (tm : TimerSt) : Prop where
  oneShot : tm.cfg.recurring = false → tm.fired ≤ 1 ∧ (tm.fired = 1 → tm.final = true)
  selfStop : ∀ m, tm.cfg.selfStop = true → tm.cfg.falseAt = some m → tm.fired ≤ m + 1 ∧ (tm.fired = m + 1 → tm.final = true)

theorem TStep.cfg {a b : TimerSt} (h : TStep a b) : b.cfg = a.cfg := by cases h <;> rfl

theorem TStep.ok {a b : TimerSt} (h : TStep a b) (ha : TOK a) : TOK b := by
  cases h with
  | same => exact ha
  | cancel => exact ⟨ha.oneShot, ha.selfStop⟩
  | noticed hc => exact ⟨fun h => ⟨(ha.oneShot h).1, fun _ => rfl⟩, fun m h1 h2 => ⟨(ha.selfStop m h1 h2).1, fun _ => rfl⟩⟩
  | fire now hf hc =>
    refine ⟨?_, ?_⟩
    · intro hr
      simp only at hr ⊢
      have h1 := ha.oneShot hr
      have : a.fired = 0 := by
        rcases Nat.lt_or_ge a.fired 1 with h | h
        · omega
        · have := h1.2 (by omega); rw [hf] at this; cases this
      exact ⟨by omega, fun _ => by simp [hr]⟩
    · intro m hs hm
      simp only at hs hm ⊢
      have h1 := ha.selfStop m hs hm
      have hlt : a.fired ≤ m := by
        rcases Nat.lt_or_ge a.fired (m + 1) with h | h
        · omega
        · have := h1.2 (by omega); rw [hf] at this; cases this
      refine ⟨by omega, fun he => ?_⟩
      have : a.fired = m := by omega
      simp [hs, hm, this]

/-- once cancelled a timer never fires again, and stays cancelled -/
theorem TStep.cancelled {a b : TimerSt} (h : TStep a b) (ha : a.cancelled = true) : b.cancelled = true ∧ b.fired = a.fired := by
  cases h with
  | same => exact ⟨ha, rfl⟩
  | cancel => exact ⟨rfl, rfl⟩
  | noticed hc => exact ⟨ha, rfl⟩
  | fire now hf hc => rw [ha] at hc; cases hc

/-- a stopped timer (it reached its trailing `yield False`) never fires again -/
theorem TStep.final {a b : TimerSt} (h : TStep a b) (ha : a.final = true) : b.final = true ∧ b.fired = a.fired := by
  cases h with
  | same => exact ⟨ha, rfl⟩
  | cancel => exact ⟨ha, rfl⟩
  | noticed hc => exact ⟨rfl, rfl⟩
  | fire now hf hc => rw [ha] at hf; cases hf

theorem TStep.fired_mono {a b : TimerSt} (h : TStep a b) : a.fired ≤ b.fired := by
  cases h <;> simp

inductive TStar : TimerSt → TimerSt → Prop
  | refl (a) : TStar a a
  | tail {a b c} (h1 : TStar a b) (h2 : TStep b c) : TStar a c

theorem TStar.trans {a b c : TimerSt} (h1 : TStar a b) (h2 : TStar b c) : TStar a c := by
  induction h2 with
  | refl => exact h1
  | tail _ hs ih => exact .tail ih hs

theorem TStar.single {a b : TimerSt} (h : TStep a b) : TStar a b := .tail (.refl a) h

theorem TStar.ok {a b : TimerSt} (h : TStar a b) (ha : TOK a) : TOK b := by
  induction h with
  | refl => exact ha
  | tail _ hs ih => exact hs.ok ih

theorem TStar.cfg {a b : TimerSt} (h : TStar a b) : b.cfg = a.cfg := by
  induction h with
  | refl => rfl
  | tail _ hs ih => rw [hs.cfg, ih]

theorem TStar.cancelled {a b : TimerSt} (h : TStar a b) (ha : a.cancelled = true) : b.cancelled = true ∧ b.fired = a.fired := by
  induction h with
  | refl => exact ⟨ha, rfl⟩
  | tail _ hs ih => have := hs.cancelled ih.1; exact ⟨this.1, this.2.trans ih.2⟩

theorem TStar.final {a b : TimerSt} (h : TStar a b) (ha : a.final = true) : b.final = true ∧ b.fired = a.fired := by
  induction h with
  | refl => exact ⟨ha, rfl⟩
  | tail _ hs ih => have := hs.final ih.1; exact ⟨this.1, this.2.trans ih.2⟩

theorem TStar.fired_mono {a b : TimerSt} (h : TStar a b) : a.fired ≤ b.fired := by
  induction h with
  | refl => exact Nat.le_refl _
  | tail _ hs ih => exact Nat.le_trans ih hs.fired_mono

/-- every timer record of `s'` comes from the record with the same index in `s` by `TStep`s; no timer is created or lost -/
def TFr (s s' : St) : Prop :=
  s'.timers.length = s.timers.length ∧
  ∀ (j : Nat) (a b : TimerSt), s.timers[j]? = some a → s'.timers[j]? = some b → TStar a b

theorem TFr.same {s s' : St} (h : s'.timers = s.timers) : TFr s s' :=
  ⟨by rw [h], fun j a b ha hb => by rw [h, ha] at hb; cases hb; exact .refl a⟩

theorem TFr.refl (s : St) : TFr s s := TFr.same rfl

theorem TFr.trans {a b c : St} (h1 : TFr a b) (h2 : TFr b c) : TFr a c := by
  refine ⟨h2.1.trans h1.1, fun j x z hx hz => ?_⟩
  have hlt : j < b.timers.length := by
    rw [h1.1]; exact (List.getElem?_eq_some_iff.mp hx).1
  obtain ⟨y, hy⟩ : ∃ y, b.timers[j]? = some y := ⟨_, List.getElem?_eq_getElem hlt⟩
  exact (h1.2 j x y hx hy).trans (h2.2 j y z hy hz)

theorem TFr.of_after {a b c : St} (h2 : TFr b c) (h1 : TFr a b) : TFr a c := h1.trans h2

/-- one record is rewritten by a single `TStep` -/
theorem TFr.modify {s s' : St} {j : Nat} {f : TimerSt → TimerSt} (h : s'.timers = s.timers.modify j f)
    (hf : ∀ a, s.timers[j]? = some a → TStep a (f a)) : TFr s s' := by
  refine ⟨by rw [h, List.length_modify], fun i a b ha hb => ?_⟩
  rw [h, List.getElem?_modify, ha] at hb
  simp only [Option.map_eq_map, Option.map_some, Option.some.injEq] at hb
  by_cases e : j = i
  · subst e; simp only [if_true] at hb; subst hb; exact .single (hf a ha)
  · simp only [e, if_false] at hb; subst hb; exact .refl a


theorem TFr.fastSchedule (s : St) (t : Nat) (f : Bool) : TFr s (fastSchedule s t f) := by
  unfold Pox.Recoco.fastSchedule; split <;> exact TFr.same rfl

theorem TFr.finishSub (s : St) (t p : Nat) : TFr s (finishSub s t p) :=
  TFr.of_after (TFr.fastSchedule _ p true) (TFr.same rfl)

theorem TFr.cancelTimer (s : St) (j : Nat) : TFr s (cancelTimer s j) :=
  TFr.modify (f := fun tm => { tm with cancelled := true }) rfl (fun a _ => .cancel a)

theorem TFr.doYield (s : St) (t : Nat) (y : Y) : TFr s (doYield s t y) := by
  cases y with
  | num n => cases n <;> exact TFr.same rfl
  | sleep d => cases d with
    | none => exact TFr.refl s
    | some d =>
      simp only [Pox.Recoco.doYield]
      split
      · exact TFr.of_after (TFr.fastSchedule _ t false) (TFr.same rfl)
      · exact TFr.same rfl
  | sleepAbs w =>
    simp only [Pox.Recoco.doYield]
    split
    · exact TFr.of_after (TFr.fastSchedule _ t false) (TFr.same rfl)
    · exact TFr.same rfl
  | again k c => simp only [Pox.Recoco.doYield]; exact TFr.of_after (TFr.fastSchedule _ _ true) (TFr.same rfl)
  | cancel j => exact TFr.of_after (b := Pox.Recoco.cancelTimer s j) (TFr.same rfl) (TFr.cancelTimer s j)
  | _ => exact TFr.same rfl

theorem TFr.topOut (s : St) (t : Nat) (o : Out) : TFr s (topOut s t o) := by
  cases o with
  | stop => exact TFr.same rfl
  | raise e => exact TFr.same rfl
  | yield y => exact TFr.doYield s t y

theorem TFr.subOut (fx : Bool) (s : St) (t p pc : Nat) (o : Out) : TFr s (subOut fx s t p pc o) := by
  cases o with
  | raise e => exact TFr.of_after (TFr.finishSub _ t p) (TFr.same rfl)
  | stop =>
    simp only [Pox.Recoco.subOut]
    split
    · exact TFr.of_after (TFr.finishSub _ t p) (TFr.same rfl)
    · exact TFr.finishSub s t p
  | yield y =>
    simp only [Pox.Recoco.subOut]
    split
    · exact TFr.doYield s t y
    · split
      · exact TFr.of_after (TFr.finishSub _ t p) (TFr.same rfl)
      · exact TFr.of_after (TFr.finishSub _ t p) (TFr.same rfl)
      · rename_i j _
        exact TFr.of_after (TFr.finishSub _ t p) (TFr.of_after (b := Pox.Recoco.cancelTimer s j) (TFr.same rfl) (TFr.cancelTimer s j))
      · exact TFr.refl s

theorem TFr.timerStep (s : St) (t j pc : Nat) : TFr s (timerStep s t j pc) := by
  unfold Pox.Recoco.timerStep
  split
  · exact TFr.same rfl
  · rename_i tm htm
    split
    · exact TFr.same rfl
    · rename_i hfin
      split
      · rename_i hc
        refine TFr.modify (f := fun m => { m with final := true }) rfl (fun a ha => ?_)
        rw [htm] at ha; cases ha
        exact .noticed tm hc
      · rename_i hc
        split
        · exact TFr.doYield s t _
        · simp only
          have hf' : tm.final = false := by simpa using hfin
          have hc' : tm.cancelled = false := by simpa using hc
          split
          · rename_i hcond
            refine TFr.modify (j := j) (f := (fun m => { m with final := true }) ∘
              (fun m => { m with next := s.now + (if tm.cfg.recurring then tm.cfg.delay else 0), fired := m.fired + 1 })) ?_ ?_
            · simp only [List.modify_modify_eq]
            · intro a ha
              rw [htm] at ha; cases ha
              have := TStep.fire tm s.now hf' hc'
              simp only [hcond] at this
              exact this
          · rename_i hcond
            refine TFr.of_after (TFr.doYield _ t _) ?_
            refine TFr.modify (j := j)
              (f := fun m => { m with next := s.now + (if tm.cfg.recurring then tm.cfg.delay else 0), fired := m.fired + 1 }) rfl ?_
            intro a ha
            rw [htm] at ha; cases ha
            have := TStep.fire tm s.now hf' hc'
            have hcf : ((tm.cfg.selfStop && tm.cfg.falseAt == some tm.fired) || !tm.cfg.recurring) = false := by
              simpa using hcond
            simp only [hcf] at this
            rw [← hf'] at this
            exact this


theorem TFr.resumeGen (cfg : Cfg) (s : St) (t : Nat) (tk : Task) (r : Recv) (raw : Val) : TFr s (resumeGen cfg s t tk r raw) := by
  have h0 : TFr s { Pox.Recoco.setTask s t (fun k => { k with pc := k.pc + 1, wake := none }) with
                   trace := s.trace ++ [.step t tk.pc s.now r raw tk.wake] } := TFr.same rfl
  unfold Pox.Recoco.resumeGen
  simp only
  split
  · split
    · refine TFr.of_after ?_ h0; exact TFr.same rfl
    · refine TFr.of_after ?_ h0; exact TFr.topOut _ t _
  · split
    · refine TFr.of_after ?_ h0; exact TFr.same rfl
    · split
      · refine TFr.of_after ?_ h0
        refine TFr.of_after (TFr.subOut _ _ t _ _ _) ?_
        exact TFr.same rfl
      · refine TFr.of_after ?_ h0; exact TFr.subOut _ _ t _ _ _
  · refine TFr.of_after ?_ h0; exact TFr.timerStep _ t _ _

theorem execPre_timers (cfg : Cfg) (s : St) (t : Nat) (tk : Task) : (execPre cfg s t tk).2.timers = s.timers := by
  unfold Pox.Recoco.execPre
  simp only []
  repeat' split
  all_goals rfl

theorem TFr.cycleExec (cfg : Cfg) (s : St) : TFr s (Pox.Recoco.cycleExec cfg s) := by
  unfold Pox.Recoco.cycleExec
  split
  · exact TFr.refl s
  · rename_i t hr
    simp only
    split
    · exact TFr.same rfl
    · rename_i tk htk
      have hp : TFr s (Pox.Recoco.execPre cfg { s with running := none } t tk).2 := TFr.same (execPre_timers cfg _ t tk)
      split
      · rename_i s1 he; rw [he] at hp; exact hp
      · rename_i e s1 he; rw [he] at hp
        exact TFr.of_after (b := s1) (TFr.same rfl) hp
      · rename_i r s1 he; rw [he] at hp
        have hp' : TFr s s1 := hp
        split
        · exact TFr.of_after (b := s1) (TFr.same rfl) hp'
        · exact TFr.of_after (TFr.resumeGen cfg s1 t _ r _) hp'

theorem TFr.cycle (cfg : Cfg) (s : St) : TFr s (Pox.Recoco.cycle cfg s) := by
  unfold Pox.Recoco.cycle
  refine TFr.of_after (TFr.cycleExec cfg _) ?_
  unfold Pox.Recoco.cyclePop
  repeat' split
  all_goals exact TFr.same rfl

theorem TFr.iter (cfg : Cfg) (s : St) : TFr s (Pox.Recoco.iter cfg s) := by
  unfold Pox.Recoco.iter
  have h1 : TFr s (idleStep cfg s) := TFr.same (HubFr.idleStep cfg s).timers
  split
  · exact TFr.refl s
  · simp only []
    split
    · exact h1
    · exact TFr.of_after (TFr.cycle cfg _) h1

theorem TFr.run (cfg : Cfg) : ∀ (n : Nat) (s : St), TFr s (Pox.Recoco.run cfg n s)
  | 0, s => TFr.refl s
  | n + 1, s => TFr.of_after (TFr.run cfg n _) (TFr.iter cfg s)

theorem TOK.init (c : TimerCfg) (next : Nat) : TOK { cfg := c, next := next } :=
  ⟨fun _ => ⟨by simp, by simp⟩, fun m _ _ => ⟨by simp, by simp⟩⟩


/-! ### firings in the trace -/

def fireIdx (t : Nat) : Ev → Option Nat
  | .fire t' n _ => if t' = t then some n else none
  | .step _ _ _ _ _ _ => none

def isSub : Kind → Prop
  | .sub _ _ => True
  | _ => False

/-- frame of a transition that does not fire a timer: kinds of existing tasks are kept (new tasks are sub-tasks), the firing
    counters are kept, the trace gains no `fire` event -/
structure NF (s s' : St) : Prop where
  kinds : ∃ ext, s'.tasks.map (·.kind) = s.tasks.map (·.kind) ++ ext ∧ ∀ k ∈ ext, isSub k
  fired : s'.timers.map (·.fired) = s.timers.map (·.fired)
  trace : ∀ t, s'.trace.filterMap (fireIdx t) = s.trace.filterMap (fireIdx t)

theorem NF.refl (s : St) : NF s s := ⟨⟨[], by simp, by simp⟩, rfl, fun _ => rfl⟩

theorem NF.trans {a b c : St} (h1 : NF a b) (h2 : NF b c) : NF a c := by
  obtain ⟨e1, k1, s1⟩ := h1.kinds
  obtain ⟨e2, k2, s2⟩ := h2.kinds
  refine ⟨⟨e1 ++ e2, by rw [k2, k1, List.append_assoc], ?_⟩, h2.fired.trans h1.fired, fun t => (h2.trace t).trans (h1.trace t)⟩
  intro k hk
  rcases List.mem_append.mp hk with h | h
  · exact s1 k h
  · exact s2 k h

theorem NF.of_after {a b c : St} (h2 : NF b c) (h1 : NF a b) : NF a c := h1.trans h2

theorem NF.same {s s' : St} (h1 : s'.tasks = s.tasks) (h2 : s'.timers = s.timers) (h3 : s'.trace = s.trace) : NF s s' :=
  ⟨⟨[], by simp [h1], by simp⟩, by rw [h2], fun _ => by rw [h3]⟩

theorem NF.setTask {s : St} {u : Nat} {f : Task → Task} (h : ∀ k, (f k).kind = k.kind) : NF s (Pox.Recoco.setTask s u f) :=
  ⟨⟨[], by simp only [setTask_tasks, List.append_nil]; exact map_modify_of (·.kind) f h _ _, by simp⟩, rfl, fun _ => rfl⟩

theorem NF.fastSchedule (s : St) (t : Nat) (f : Bool) : NF s (Pox.Recoco.fastSchedule s t f) := by
  unfold Pox.Recoco.fastSchedule; split <;> exact NF.same rfl rfl rfl

theorem NF.registerSelect (s : St) (t : Nat) (a b c : List Nat) (d : Option Nat) : NF s (Pox.Recoco.registerSelect s t a b c d) := by
  unfold Pox.Recoco.registerSelect
  refine NF.of_after (b := Pox.Recoco.setTask s t _) (NF.same rfl rfl rfl) (NF.setTask ?_)
  intro _; rfl

theorem NF.setStatus (s : St) (t : Nat) (x : Status) : NF s (Pox.Recoco.setStatus s t x) := by
  unfold Pox.Recoco.setStatus; refine NF.setTask ?_; intro _; rfl

theorem NF.finishSub (s : St) (t p : Nat) : NF s (Pox.Recoco.finishSub s t p) :=
  NF.of_after (NF.fastSchedule _ p true) (NF.setStatus s t .done)

theorem NF.cancelTimer (s : St) (j : Nat) : NF s (Pox.Recoco.cancelTimer s j) :=
  ⟨⟨[], by simp [Pox.Recoco.cancelTimer], by simp⟩, by
    simp only [Pox.Recoco.cancelTimer]; refine map_modify_of (fun m : TimerSt => m.fired) _ ?_ _ _; intro _; rfl, fun _ => rfl⟩

theorem NF.doYield (s : St) (t : Nat) (y : Y) : NF s (Pox.Recoco.doYield s t y) := by
  cases y with
  | num n => cases n with
    | zero => exact NF.same rfl rfl rfl
    | succ n => exact NF.registerSelect s t _ _ _ _
  | block => exact NF.refl s
  | sleep d => cases d with
    | none => exact NF.refl s
    | some d =>
      simp only [Pox.Recoco.doYield]
      split
      · refine NF.of_after (NF.fastSchedule _ t false) (NF.setTask ?_); intro _; rfl
      · exact NF.registerSelect s t _ _ _ _
  | sleepAbs w =>
    simp only [Pox.Recoco.doYield]
    split
    · refine NF.of_after (NF.fastSchedule _ t false) (NF.setTask ?_); intro _; rfl
    · exact NF.registerSelect s t _ _ _ _
  | select r w x to => exact NF.registerSelect s t _ _ _ _
  | recv fd to => refine NF.of_after (NF.registerSelect _ t _ _ _ _) (NF.setTask ?_); intro _; rfl
  | send fd len to bs => refine NF.of_after (NF.registerSelect _ t _ _ _ _) (NF.setTask ?_); intro _; rfl
  | exit => exact NF.same rfl rfl rfl
  | raise n => exact NF.refl s
  | again k c =>
    simp only [Pox.Recoco.doYield]
    refine NF.of_after (NF.fastSchedule _ _ true) ⟨⟨[.sub k t], by simp, by simp [isSub]⟩, rfl, fun _ => rfl⟩
  | cancel j => exact NF.of_after (b := Pox.Recoco.cancelTimer s j) (NF.same rfl rfl rfl) (NF.cancelTimer s j)

theorem NF.topOut (s : St) (t : Nat) (o : Out) : NF s (Pox.Recoco.topOut s t o) := by
  cases o with
  | stop => exact NF.setStatus s t _
  | raise e => exact NF.setStatus s t _
  | yield y => exact NF.doYield s t y

theorem NF.subOut (fx : Bool) (s : St) (t p pc : Nat) (o : Out) : NF s (Pox.Recoco.subOut fx s t p pc o) := by
  have keep : ∀ (f : Task → Task), (∀ k, (f k).kind = k.kind) → NF s (Pox.Recoco.finishSub (Pox.Recoco.setTask s p f) t p) :=
    fun f hf => NF.of_after (NF.finishSub _ t p) (NF.setTask hf)
  cases o with
  | raise e => refine keep _ ?_; intro _; rfl
  | stop =>
    simp only [Pox.Recoco.subOut]
    split
    · refine keep _ ?_; intro _; rfl
    · exact NF.finishSub s t p
  | yield y =>
    simp only [Pox.Recoco.subOut]
    split
    · exact NF.doYield s t y
    · split
      · refine keep _ ?_; intro _; rfl
      · refine keep _ ?_; intro _; rfl
      · rename_i j _
        refine NF.of_after (NF.finishSub _ t p) (NF.of_after (b := Pox.Recoco.cancelTimer s j) (NF.setTask ?_) (NF.cancelTimer s j))
        intro _; rfl
      · exact NF.refl s

theorem execPre_trace (cfg : Cfg) (s : St) (t : Nat) (tk : Task) : (execPre cfg s t tk).2.trace = s.trace := by
  unfold Pox.Recoco.execPre
  simp only []
  repeat' split
  all_goals rfl

theorem NF.execPre (cfg : Cfg) (s : St) (t : Nat) (tk : Task) : NF s (Pox.Recoco.execPre cfg s t tk).2 := by
  refine ⟨⟨[], ?_, by simp⟩, by rw [execPre_timers], fun _ => by rw [execPre_trace]⟩
  have := execPre_ctl cfg s t tk
  have e : ∀ l : List Task, l.map (·.kind) = (l.map ctl).map (·.1) := by intro l; simp [ctl]
  rw [List.append_nil, e, e, this]


/-- the firings recorded in the trace are exactly the ones counted in the timer records -/
structure FI (s : St) : Prop where
  uniq : ∀ t t' j, kdL s.tasks t = some (.timer j) → kdL s.tasks t' = some (.timer j) → t = t'
  count : ∀ t j tm, kdL s.tasks t = some (.timer j) → s.timers[j]? = some tm →
            s.trace.filterMap (fireIdx t) = List.range tm.fired
  others : ∀ t, (∀ j, kdL s.tasks t ≠ some (.timer j)) → s.trace.filterMap (fireIdx t) = []

theorem kdL_of_kinds {l l' : List Task} {ext : List Kind} (h : l'.map (·.kind) = l.map (·.kind) ++ ext) (hs : ∀ k ∈ ext, isSub k)
    (t : Nat) : (t < l.length → kdL l' t = kdL l t) ∧ (l.length ≤ t → ∀ j, kdL l' t ≠ some (.timer j)) := by
  have e : ∀ (m : List Task) (u : Nat), kdL m u = (m.map (·.kind))[u]? := by intro m u; simp [kdL]
  refine ⟨fun hlt => ?_, fun hge j hk => ?_⟩
  · rw [e, e, h, List.getElem?_append_left (by simpa using hlt)]
  · rw [e, h, List.getElem?_append_right (by simpa using hge)] at hk
    have := hs _ (List.mem_of_getElem? hk)
    exact this

theorem FI.nf {s s' : St} (h : FI s) (hf : NF s s') : FI s' := by
  obtain ⟨ext, hk, hs⟩ := hf.kinds
  have key := kdL_of_kinds hk hs
  have back : ∀ t j, kdL s'.tasks t = some (.timer j) → kdL s.tasks t = some (.timer j) := by
    intro t j ht
    by_cases hlt : t < s.tasks.length
    · rw [← (key t).1 hlt]; exact ht
    · exact absurd ht ((key t).2 (by omega) j)
  refine ⟨fun t t' j h1 h2 => h.uniq t t' j (back t j h1) (back t' j h2), ?_, ?_⟩
  · intro t j tm' ht htm
    have hfm : (s'.timers.map (·.fired))[j]? = some tm'.fired := by simp [htm]
    rw [hf.fired] at hfm
    simp only [List.getElem?_map] at hfm
    cases htm0 : s.timers[j]? with
    | none => simp [htm0] at hfm
    | some tm =>
      simp [htm0] at hfm
      rw [hf.trace, h.count t j tm (back t j ht) htm0, hfm]
  · intro t hnt
    rw [hf.trace]
    refine h.others t (fun j hj => ?_)
    by_cases hlt : t < s.tasks.length
    · exact hnt j (by rw [(key t).1 hlt]; exact hj)
    · simp only [kdL] at hj
      rw [List.getElem?_eq_none (by omega)] at hj; cases hj

/-- timer `j`, run by task `t`, fires -/
theorem FI.fire {s : St} (h : FI s) {t j : Nat} {tm : TimerSt} (ht : kdL s.tasks t = some (.timer j)) (htm : s.timers[j]? = some tm)
    (x : Nat) :
    FI { s with timers := s.timers.modify j (fun m => { m with next := x, fired := m.fired + 1 }),
                trace := s.trace ++ [.fire t tm.fired s.now] } := by
  refine ⟨h.uniq, ?_, ?_⟩
  · intro u i um hu hum
    simp only [List.getElem?_modify] at hum
    simp only [List.filterMap_append, List.filterMap_cons, List.filterMap_nil, fireIdx]
    by_cases e : j = i
    · subst e
      have : u = t := h.uniq u t j hu ht
      subst this
      rw [htm] at hum; simp at hum; subst hum
      simp [h.count u j tm hu htm, List.range_succ]
    · cases hi : s.timers[i]? with
      | none => simp [hi] at hum
      | some im =>
        simp [hi, e] at hum; subst hum
        have hne : ¬ t = u := by
          intro e'; subst e'
          rw [ht] at hu; simp at hu; exact e hu
        simp [hne, h.count u i im hu hi]
  · intro u hnu
    have hne : ¬ t = u := by intro e'; subst e'; exact hnu j ht
    simp [List.filterMap_append, fireIdx, hne, h.others u hnu]

theorem map_fired_modify (l : List TimerSt) (j : Nat) (f : TimerSt → TimerSt) (h : ∀ m, (f m).fired = m.fired) :
    (l.modify j f).map (·.fired) = l.map (·.fired) := map_modify_of (fun m : TimerSt => m.fired) f h l j

theorem map_kind_modify (l : List Task) (u : Nat) (f : Task → Task) (h : ∀ k, (f k).kind = k.kind) :
    (l.modify u f).map (·.kind) = l.map (·.kind) := map_modify_of (fun k : Task => k.kind) f h l u

theorem FI.timerStep {s : St} (h : FI s) {t j : Nat} (ht : kdL s.tasks t = some (.timer j)) (pc : Nat) :
    FI (Pox.Recoco.timerStep s t j pc) := by
  unfold Pox.Recoco.timerStep
  split
  · exact h.nf (NF.same rfl rfl rfl)
  · rename_i tm htm
    split
    · exact h.nf (NF.setStatus s t _)
    · split
      · refine h.nf ⟨⟨[], by simp, by simp⟩, ?_, fun _ => rfl⟩
        refine map_fired_modify _ _ _ ?_; intro _; rfl
      · split
        · exact h.nf (NF.doYield s t _)
        · simp only
          have hf := h.fire ht htm (s.now + (if tm.cfg.recurring then tm.cfg.delay else 0))
          split
          · refine hf.nf ⟨⟨[], by simp, by simp⟩, ?_, fun _ => rfl⟩
            refine map_fired_modify _ _ _ ?_; intro _; rfl
          · exact hf.nf (NF.doYield _ t _)

theorem FI.resumeGen (cfg : Cfg) {s : St} (h : FI s) {t : Nat} {tk : Task} (htk : s.tasks[t]? = some tk) (r : Recv) (raw : Val) :
    FI (Pox.Recoco.resumeGen cfg s t tk r raw) := by
  have n0 : NF s { Pox.Recoco.setTask s t (fun k => { k with pc := k.pc + 1, wake := none }) with
                   trace := s.trace ++ [.step t tk.pc s.now r raw tk.wake] } := by
    refine ⟨⟨[], ?_, by simp⟩, rfl, fun u => by simp [List.filterMap_append, fireIdx]⟩
    simp only [setTask_tasks, List.append_nil]
    refine map_kind_modify _ _ _ ?_; intro _; rfl
  have h0 := h.nf n0
  unfold Pox.Recoco.resumeGen
  simp only
  split
  · split
    · exact h0.nf (NF.same rfl rfl rfl)
    · exact h0.nf (NF.topOut _ t _)
  · split
    · exact h0.nf (NF.same rfl rfl rfl)
    · split
      · refine h0.nf (NF.of_after (NF.subOut _ _ t _ _ _) (NF.setTask ?_)); intro _; rfl
      · exact h0.nf (NF.subOut _ _ t _ _ _)
  · rename_i j hkind
    refine FI.timerStep h0 ?_ _
    simp only [setTask_tasks, kdL_modify, implies_true]
    rw [kdL_of_get htk, hkind]

theorem FI.cycleExec (cfg : Cfg) {s : St} (h : FI s) : FI (Pox.Recoco.cycleExec cfg s) := by
  unfold Pox.Recoco.cycleExec
  split
  · exact h
  · rename_i t hr
    simp only
    split
    · exact h.nf (NF.same rfl rfl rfl)
    · rename_i tk htk
      have hp : FI (Pox.Recoco.execPre cfg { s with running := none } t tk).2 :=
        (h.nf (NF.same (s' := { s with running := none }) rfl rfl rfl)).nf (NF.execPre cfg _ t tk)
      split
      · rename_i s1 he; rw [he] at hp; exact hp
      · rename_i e s1 he; rw [he] at hp; exact FI.nf (s := s1) hp (NF.setStatus s1 t .dead)
      · rename_i r s1 he; rw [he] at hp
        have hp' : FI s1 := hp
        split
        · exact hp'.nf (NF.same rfl rfl rfl)
        · rename_i tk1 htk1; exact hp'.resumeGen cfg htk1 r _

theorem FI.iter (cfg : Cfg) {s : St} (h : FI s) : FI (Pox.Recoco.iter cfg s) := by
  have hub : NF s (idleStep cfg s) := by
    have hf := HubFr.idleStep cfg s
    refine ⟨⟨[], ?_, by simp⟩, by rw [hf.timers], fun _ => by rw [hf.trace]⟩
    have e : ∀ l : List Task, l.map (·.kind) = (l.map eraseRv).map (·.kind) := by intro l; simp [eraseRv]
    rw [List.append_nil, e, e s.tasks, hf.tasks]
  have h1 := h.nf hub
  unfold Pox.Recoco.iter
  split
  · exact h
  · simp only []
    split
    · exact h1
    · unfold Pox.Recoco.cycle
      refine FI.cycleExec cfg (h1.nf ?_)
      unfold Pox.Recoco.cyclePop
      repeat' split
      all_goals exact NF.same rfl rfl rfl

theorem FI.run (cfg : Cfg) : ∀ (n : Nat) {s : St}, FI s → FI (Pox.Recoco.run cfg n s)
  | 0, _, h => h
  | n + 1, _, h => FI.run cfg n (h.iter cfg)


theorem initSt_kind (t0 : Nat) (tasks : List Nat) (timers : List TimerCfg) (ss rs : List (Option Nat)) (ps ds : List Nat) (t j : Nat) :
    kdL (initSt t0 tasks timers ss rs ps ds).tasks t = some (.timer j) ↔ (t = tasks.length + j ∧ j < timers.length) := by
  have e : kdL (initSt t0 tasks timers ss rs ps ds).tasks t = ((initSt t0 tasks timers ss rs ps ds).tasks.map (·.kind))[t]? := by
    simp [kdL]
  rw [e, initSt_view (·.kind) (fun _ _ => rfl)]
  simp only [List.getElem?_append, List.length_map, List.getElem?_map]
  split
  · rename_i hlt
    cases h : tasks[t]? <;> simp <;> omega
  · rename_i hge
    cases h : (List.range timers.length)[t - tasks.length]? with
    | none =>
      simp
      intro h1
      have hn := List.getElem?_eq_none_iff.mp h
      simp at hn
      omega
    | some i =>
      have := List.getElem?_eq_some_iff.mp h
      obtain ⟨hlt, hv⟩ := this
      simp at hlt hv
      simp
      omega

theorem FI.init (t0 : Nat) (tasks : List Nat) (timers : List TimerCfg) (ss rs : List (Option Nat)) (ps ds : List Nat) :
    FI (initSt t0 tasks timers ss rs ps ds) := by
  refine ⟨?_, ?_, ?_⟩
  · intro t t' j h1 h2
    rw [initSt_kind] at h1 h2; omega
  · intro t j tm _ htm
    have : tm.fired = 0 := by
      simp only [initSt, List.getElem?_map] at htm
      cases h : timers[j]? with
      | none => simp [h] at htm
      | some c => simp [h] at htm; rw [← htm]
    simp [initSt, this]
  · intro t _; simp [initSt]

theorem TOK.initSt (t0 : Nat) (tasks : List Nat) (timers : List TimerCfg) (ss rs : List (Option Nat)) (ps ds : List Nat) (j : Nat) (tm : TimerSt)
    (h : (Pox.Recoco.initSt t0 tasks timers ss rs ps ds).timers[j]? = some tm) :
    TOK tm ∧ tm.cancelled = false ∧ (∃ c, timers[j]? = some c ∧ tm.cfg = c) := by
  simp only [Pox.Recoco.initSt, List.getElem?_map] at h
  cases hc : timers[j]? with
  | none => simp [hc] at h
  | some c => simp [hc] at h; subst h; exact ⟨TOK.init c _, rfl, c, rfl, rfl⟩


/-! ### kinds never change -/

/-- tasks are only ever appended; existing tasks keep their kind -/
def KP (s s' : St) : Prop := ∃ ext, s'.tasks.map (·.kind) = s.tasks.map (·.kind) ++ ext

theorem KP.refl (s : St) : KP s s := ⟨[], by simp⟩
theorem KP.trans {a b c : St} (h1 : KP a b) (h2 : KP b c) : KP a c := by
  obtain ⟨e1, k1⟩ := h1; obtain ⟨e2, k2⟩ := h2
  exact ⟨e1 ++ e2, by rw [k2, k1, List.append_assoc]⟩
theorem KP.of_after {a b c : St} (h2 : KP b c) (h1 : KP a b) : KP a c := h1.trans h2
theorem KP.of_nf {s s' : St} (h : NF s s') : KP s s' := let ⟨e, k, _⟩ := h.kinds; ⟨e, k⟩
theorem KP.same {s s' : St} (h : s'.tasks = s.tasks) : KP s s' := ⟨[], by simp [h]⟩

theorem KP.timerStep (s : St) (t j pc : Nat) : KP s (Pox.Recoco.timerStep s t j pc) := by
  unfold Pox.Recoco.timerStep
  split
  · exact KP.same rfl
  · split
    · exact KP.of_nf (NF.setStatus s t _)
    · split
      · exact KP.same rfl
      · split
        · exact KP.of_nf (NF.doYield s t _)
        · simp only
          split
          · exact KP.same rfl
          · exact KP.of_after (KP.of_nf (NF.doYield _ t _)) (KP.same rfl)

theorem KP.resumeGen (cfg : Cfg) (s : St) (t : Nat) (tk : Task) (r : Recv) (raw : Val) : KP s (Pox.Recoco.resumeGen cfg s t tk r raw) := by
  have h0 : KP s { Pox.Recoco.setTask s t (fun k => { k with pc := k.pc + 1, wake := none }) with
                   trace := s.trace ++ [.step t tk.pc s.now r raw tk.wake] } := by
    refine ⟨[], ?_⟩
    simp only [setTask_tasks, List.append_nil]
    refine map_kind_modify _ _ _ ?_; intro _; rfl
  unfold Pox.Recoco.resumeGen
  simp only
  split
  · split
    · refine KP.of_after ?_ h0; exact KP.same rfl
    · refine KP.of_after ?_ h0; exact KP.of_nf (NF.topOut _ t _)
  · split
    · refine KP.of_after ?_ h0; exact KP.same rfl
    · split
      · refine KP.of_after ?_ h0
        refine KP.of_after (KP.of_nf (NF.subOut _ _ t _ _ _)) (KP.of_nf (NF.setTask ?_)); intro _; rfl
      · refine KP.of_after ?_ h0; exact KP.of_nf (NF.subOut _ _ t _ _ _)
  · refine KP.of_after ?_ h0; exact KP.timerStep _ t _ _

theorem KP.cycleExec (cfg : Cfg) (s : St) : KP s (Pox.Recoco.cycleExec cfg s) := by
  unfold Pox.Recoco.cycleExec
  split
  · exact KP.refl s
  · rename_i t hr
    simp only
    split
    · exact KP.same rfl
    · rename_i tk htk
      have hp : KP s (Pox.Recoco.execPre cfg { s with running := none } t tk).2 :=
        KP.of_after (KP.of_nf (NF.execPre cfg _ t tk)) (KP.same rfl)
      split
      · rename_i s1 he; rw [he] at hp; exact hp
      · rename_i e s1 he; rw [he] at hp
        have hp' : KP s s1 := hp
        exact KP.of_after (KP.of_nf (NF.setStatus s1 t .dead)) hp'
      · rename_i r s1 he; rw [he] at hp
        have hp' : KP s s1 := hp
        split
        · exact KP.of_after (b := s1) (KP.same rfl) hp'
        · exact KP.of_after (KP.resumeGen cfg s1 t _ r _) hp'

theorem KP.iter (cfg : Cfg) (s : St) : KP s (Pox.Recoco.iter cfg s) := by
  have h1 : KP s (idleStep cfg s) := by
    have hf := HubFr.idleStep cfg s
    refine ⟨[], ?_⟩
    have e : ∀ l : List Task, l.map (·.kind) = (l.map eraseRv).map (·.kind) := by intro l; simp [eraseRv]
    rw [List.append_nil, e, e s.tasks, hf.tasks]
  unfold Pox.Recoco.iter
  split
  · exact KP.refl s
  · simp only []
    split
    · exact h1
    · unfold Pox.Recoco.cycle
      refine KP.of_after (KP.cycleExec cfg _) (KP.of_after ?_ h1)
      unfold Pox.Recoco.cyclePop
      repeat' split
      all_goals exact KP.same rfl

theorem KP.run (cfg : Cfg) : ∀ (n : Nat) (s : St), KP s (Pox.Recoco.run cfg n s)
  | 0, s => KP.refl s
  | n + 1, s => KP.of_after (KP.run cfg n _) (KP.iter cfg s)

/-- a task keeps its kind for ever -/
theorem kind_stable (cfg : Cfg) (n : Nat) (s : St) (t : Nat) (k : Kind) (h : kdL s.tasks t = some k) :
    kdL (Pox.Recoco.run cfg n s).tasks t = some k := by
  obtain ⟨ext, he⟩ := KP.run cfg n s
  have e : ∀ (m : List Task) (u : Nat), kdL m u = (m.map (·.kind))[u]? := by intro m u; simp [kdL]
  rw [e] at h ⊢
  have hlt : t < (s.tasks.map (·.kind)).length := (List.getElem?_eq_some_iff.mp h).1
  rw [he, List.getElem?_append_left hlt]; exact h

/-! ## Part 8: the scheduler never hits one of its own assertions / KeyErrors (`crashed` stays false) -/

theorem fastSchedule_nc {s : St} {t : Nat} (f : Bool) (h : t ∉ s.ready) : (fastSchedule s t f).crashed = s.crashed := by
  unfold fastSchedule; rw [if_neg h]

@[simp] theorem registerSelect_crashed (s : St) (t : Nat) (a b c : List Nat) (d : Option Nat) :
    (registerSelect s t a b c d).crashed = s.crashed := rfl
@[simp] theorem setStatus_crashed (s : St) (t : Nat) (x : Status) : (setStatus s t x).crashed = s.crashed := rfl
@[simp] theorem cancelTimer_crashed (s : St) (j : Nat) : (cancelTimer s j).crashed = s.crashed := rfl

theorem doYield_nc {s : St} {t : Nat} (h : Held s t) (y : Y) : (doYield s t y).crashed = s.crashed := by
  have hnr := h.not_ready
  cases y with
  | num n => cases n <;> simp [doYield]
  | sleep d => cases d with
    | none => rfl
    | some d =>
      simp only [doYield]
      split
      · rw [fastSchedule_nc false (by simpa using hnr)]; rfl
      · rfl
  | sleepAbs w =>
    simp only [doYield]
    split
    · rw [fastSchedule_nc false (by simpa using hnr)]; rfl
    · rfl
  | again k c =>
    simp only [doYield]
    have hfresh : s.tasks.length ∉ s.ready := fun hm => by
      have := h.2.live _ (List.mem_cons_of_mem _ (List.mem_append_left _ hm)); rw [stL_fresh] at this; cases this
    rw [fastSchedule_nc true (by simpa using hfresh)]
  | _ => simp [doYield]

theorem finishSub_nc {s : St} {t k p : Nat} (h : Held s t) (hk : kdL s.tasks t = some (.sub k p)) :
    (finishSub s t p).crashed = s.crashed := by
  have hp := h.2.parent t k p hk h.live
  have hnr : p ∉ s.ready := fun hm => hp.1 (List.mem_cons_of_mem _ (List.mem_append_left _ hm))
  unfold Pox.Recoco.finishSub
  rw [fastSchedule_nc true (by simpa [setStatus] using hnr)]; rfl

theorem topOut_nc {s : St} {t : Nat} (h : Held s t) (o : Out) : (topOut s t o).crashed = s.crashed := by
  cases o with
  | stop => rfl
  | raise e => rfl
  | yield y => exact doYield_nc h y

theorem subOut_nc {fx : Bool} {s : St} {t k p : Nat} (h : Held s t) (hk : kdL s.tasks t = some (.sub k p)) (pc : Nat) (o : Out) :
    (subOut fx s t p pc o).crashed = s.crashed := by
  have fin : ∀ (f : Task → Task), (∀ k, (f k).st = k.st) → (∀ k, (f k).kind = k.kind) →
      (Pox.Recoco.finishSub (setTask s p f) t p).crashed = s.crashed := by
    intro f h1 h2
    have hh : Held (setTask s p f) t := by
      have := h; simp only [Held, incTids, hubTids, setTask_running, setTask_ready, setTask_incoming, setTask_hub, setTask_tasks,
        stL_modify h1, kdL_modify h2] at this ⊢; exact this
    rw [finishSub_nc (k := k) hh (by rw [setTask_tasks, kdL_modify h2]; exact hk)]; rfl
  cases o with
  | raise e => exact fin _ (fun _ => rfl) (fun _ => rfl)
  | stop =>
    simp only [Pox.Recoco.subOut]
    split
    · exact fin _ (fun _ => rfl) (fun _ => rfl)
    · exact finishSub_nc h hk
  | yield y =>
    simp only [Pox.Recoco.subOut]
    split
    · exact doYield_nc h y
    · split
      · exact fin _ (fun _ => rfl) (fun _ => rfl)
      · exact fin _ (fun _ => rfl) (fun _ => rfl)
      · rename_i j _
        have h' : Held (cancelTimer s j) t := by held h
        have hh : Held (setTask (cancelTimer s j) p (fun k => { k with rv := .num 0 })) t := by held h'
        rw [finishSub_nc (k := k) hh (by simp only [setTask_tasks, kdL_modify, implies_true, cancelTimer]; exact hk)]; rfl
      · rfl

theorem timerStep_nc {s : St} {t : Nat} (h : Held s t) (j pc : Nat) (hj : j < s.timers.length) :
    (timerStep s t j pc).crashed = s.crashed := by
  unfold Pox.Recoco.timerStep
  split
  · rename_i hn; rw [List.getElem?_eq_none_iff] at hn; omega
  · split
    · rfl
    · split
      · rfl
      · split
        · exact doYield_nc h _
        · simp only
          rename_i tm _ _ _ _
          split
          · rfl
          · have h' : Held { s with
                timers := s.timers.modify j (fun m => { m with
                  next := s.now + (if tm.cfg.recurring then tm.cfg.delay else 0), fired := m.fired + 1 }),
                trace := s.trace ++ [.fire t tm.fired s.now] } t := by held h
            rw [doYield_nc h']


/-! ### well-formed program tables: every program index that occurs is valid -/

/-- every `Again` in the table calls an existing program -/
def WFcfg (cfg : Cfg) : Prop := ∀ prog ∈ cfg.progs, ∀ y ∈ prog, ∀ k c, y = Y.again k c → k < cfg.progs.length

def kindOK (cfg : Cfg) (nt : Nat) : Kind → Prop
  | .top k => k < cfg.progs.length
  | .sub k _ => k < cfg.progs.length
  | .timer j => j < nt

/-- every task runs an existing program / timer -/
def WFs (cfg : Cfg) (s : St) : Prop := ∀ kd ∈ s.tasks.map (·.kind), kindOK cfg s.timers.length kd

/-- frame: no timer appears or disappears, existing tasks keep their kind, new tasks are sub-tasks running existing programs -/
def KW (cfg : Cfg) (s s' : St) : Prop :=
  s'.timers.length = s.timers.length ∧
  ∃ ext, s'.tasks.map (·.kind) = s.tasks.map (·.kind) ++ ext ∧ ∀ kd ∈ ext, ∃ k p, kd = Kind.sub k p ∧ k < cfg.progs.length

theorem KW.refl (cfg : Cfg) (s : St) : KW cfg s s := ⟨rfl, [], by simp, by simp⟩
theorem KW.trans {cfg : Cfg} {a b c : St} (h1 : KW cfg a b) (h2 : KW cfg b c) : KW cfg a c := by
  obtain ⟨l1, e1, k1, s1⟩ := h1; obtain ⟨l2, e2, k2, s2⟩ := h2
  refine ⟨l2.trans l1, e1 ++ e2, by rw [k2, k1, List.append_assoc], ?_⟩
  intro kd hk
  rcases List.mem_append.mp hk with h | h
  · exact s1 kd h
  · exact s2 kd h
theorem KW.of_after {cfg : Cfg} {a b c : St} (h2 : KW cfg b c) (h1 : KW cfg a b) : KW cfg a c := h1.trans h2
theorem KW.same {cfg : Cfg} {s s' : St} (h1 : s'.tasks = s.tasks) (h2 : s'.timers.length = s.timers.length) : KW cfg s s' :=
  ⟨h2, [], by simp [h1], by simp⟩
theorem KW.setTask {cfg : Cfg} {s : St} {u : Nat} {f : Task → Task} (h : ∀ k, (f k).kind = k.kind) :
    KW cfg s (Pox.Recoco.setTask s u f) :=
  ⟨rfl, [], by simp only [setTask_tasks, List.append_nil]; exact map_kind_modify _ _ _ h, by simp⟩

theorem KW.wfs {cfg : Cfg} {s s' : St} (h : KW cfg s s') (hw : WFs cfg s) : WFs cfg s' := by
  obtain ⟨hl, ext, hk, hs⟩ := h
  intro kd hm
  rw [hk] at hm
  rcases List.mem_append.mp hm with h1 | h1
  · have := hw kd h1
    rw [hl]; exact this
  · obtain ⟨k, p, rfl, hlt⟩ := hs kd h1
    exact hlt

theorem KW.fastSchedule (cfg : Cfg) (s : St) (t : Nat) (f : Bool) : KW cfg s (Pox.Recoco.fastSchedule s t f) := by
  unfold Pox.Recoco.fastSchedule; split <;> exact KW.same rfl rfl

theorem KW.registerSelect (cfg : Cfg) (s : St) (t : Nat) (a b c : List Nat) (d : Option Nat) :
    KW cfg s (Pox.Recoco.registerSelect s t a b c d) := by
  unfold Pox.Recoco.registerSelect
  refine KW.of_after (b := Pox.Recoco.setTask s t _) (KW.same rfl rfl) (KW.setTask ?_)
  intro _; rfl

theorem KW.setStatus (cfg : Cfg) (s : St) (t : Nat) (x : Status) : KW cfg s (Pox.Recoco.setStatus s t x) := by
  unfold Pox.Recoco.setStatus; refine KW.setTask ?_; intro _; rfl

theorem KW.finishSub (cfg : Cfg) (s : St) (t p : Nat) : KW cfg s (Pox.Recoco.finishSub s t p) :=
  KW.of_after (KW.fastSchedule cfg _ p true) (KW.setStatus cfg s t .done)

theorem KW.cancelTimer (cfg : Cfg) (s : St) (j : Nat) : KW cfg s (Pox.Recoco.cancelTimer s j) :=
  KW.same rfl (by simp [Pox.Recoco.cancelTimer])

theorem KW.doYield (cfg : Cfg) (s : St) (t : Nat) (y : Y) (hy : ∀ k c, y = Y.again k c → k < cfg.progs.length) :
    KW cfg s (Pox.Recoco.doYield s t y) := by
  cases y with
  | num n => cases n with
    | zero => exact KW.same rfl rfl
    | succ n => exact KW.registerSelect cfg s t _ _ _ _
  | block => exact KW.refl cfg s
  | sleep d => cases d with
    | none => exact KW.refl cfg s
    | some d =>
      simp only [Pox.Recoco.doYield]
      split
      · refine KW.of_after (KW.fastSchedule cfg _ t false) (KW.setTask ?_); intro _; rfl
      · exact KW.registerSelect cfg s t _ _ _ _
  | sleepAbs w =>
    simp only [Pox.Recoco.doYield]
    split
    · refine KW.of_after (KW.fastSchedule cfg _ t false) (KW.setTask ?_); intro _; rfl
    · exact KW.registerSelect cfg s t _ _ _ _
  | select r w x to => exact KW.registerSelect cfg s t _ _ _ _
  | recv fd to => refine KW.of_after (KW.registerSelect cfg _ t _ _ _ _) (KW.setTask ?_); intro _; rfl
  | send fd len to bs => refine KW.of_after (KW.registerSelect cfg _ t _ _ _ _) (KW.setTask ?_); intro _; rfl
  | exit => exact KW.same rfl rfl
  | raise n => exact KW.refl cfg s
  | again k c =>
    simp only [Pox.Recoco.doYield]
    refine KW.of_after (KW.fastSchedule cfg _ _ true) ⟨rfl, [.sub k t], by simp, ?_⟩
    intro kd hk; simp only [List.mem_singleton] at hk; exact ⟨k, t, hk, hy k c rfl⟩
  | cancel j => exact KW.of_after (b := Pox.Recoco.cancelTimer s j) (KW.same rfl rfl) (KW.cancelTimer cfg s j)

theorem KW.topOut (cfg : Cfg) (s : St) (t : Nat) (o : Out) (ho : ∀ y k c, o = .yield y → y = Y.again k c → k < cfg.progs.length) :
    KW cfg s (Pox.Recoco.topOut s t o) := by
  cases o with
  | stop => exact KW.setStatus cfg s t _
  | raise e => exact KW.setStatus cfg s t _
  | yield y => exact KW.doYield cfg s t y (fun k c h => ho y k c rfl h)

theorem KW.subOut (cfg : Cfg) (fx : Bool) (s : St) (t p pc : Nat) (o : Out)
    (ho : ∀ y k c, o = .yield y → y = Y.again k c → k < cfg.progs.length) : KW cfg s (Pox.Recoco.subOut fx s t p pc o) := by
  have keep : ∀ (f : Task → Task), (∀ k, (f k).kind = k.kind) → KW cfg s (Pox.Recoco.finishSub (Pox.Recoco.setTask s p f) t p) :=
    fun f hf => KW.of_after (KW.finishSub cfg _ t p) (KW.setTask hf)
  cases o with
  | raise e => refine keep _ ?_; intro _; rfl
  | stop =>
    simp only [Pox.Recoco.subOut]
    split
    · refine keep _ ?_; intro _; rfl
    · exact KW.finishSub cfg s t p
  | yield y =>
    simp only [Pox.Recoco.subOut]
    split
    · exact KW.doYield cfg s t y (fun k c h => ho y k c rfl h)
    · split
      · refine keep _ ?_; intro _; rfl
      · refine keep _ ?_; intro _; rfl
      · rename_i j _
        refine KW.of_after (KW.finishSub cfg _ t p) (KW.of_after (b := Pox.Recoco.cancelTimer s j) (KW.setTask ?_) (KW.cancelTimer cfg s j))
        intro _; rfl
      · exact KW.refl cfg s

theorem KW.timerStep (cfg : Cfg) (s : St) (t j pc : Nat) : KW cfg s (Pox.Recoco.timerStep s t j pc) := by
  unfold Pox.Recoco.timerStep
  split
  · exact KW.same rfl rfl
  · split
    · exact KW.setStatus cfg s t _
    · split
      · exact KW.same rfl (by simp)
      · split
        · exact KW.doYield cfg s t _ (by intro k c h; cases h)
        · simp only
          split
          · exact KW.same rfl (by simp)
          · exact KW.of_after (KW.doYield cfg _ t _ (by intro k c h; cases h)) (KW.same rfl (by simp))

theorem genStep_yield_mem {n : Nat} {prog : List Y} {pc : Nat} {r : Recv} {y : Y} (h : genStep n prog pc r = .yield y) : y ∈ prog := by
  unfold genStep at h
  have key : ∀ o, (match prog[pc]? with
      | none => Out.stop
      | some (.raise n) => .raise (.user n)
      | some (.cancel j) => if j < n then .yield (.cancel j) else .raise .indexError
      | some y => .yield y) = o → o = .yield y → y ∈ prog := by
    intro o ho hy
    cases hq : prog[pc]? with
    | none => rw [hq] at ho; subst ho; cases hy
    | some z =>
      have hz := List.mem_of_getElem? hq
      rw [hq] at ho
      cases z <;> simp at ho
      all_goals first
        | (subst ho; cases hy; exact hz)
        | (subst ho; cases hy)
        | (split at ho <;> (subst ho; first | (cases hy; exact hz) | cases hy))
  split at h
  · cases h
  · exact key _ rfl h

theorem KW.resumeGen (cfg : Cfg) (hwf : WFcfg cfg) (s : St) (t : Nat) (tk : Task) (r : Recv) (raw : Val) :
    KW cfg s (Pox.Recoco.resumeGen cfg s t tk r raw) := by
  have h0 : KW cfg s { Pox.Recoco.setTask s t (fun k => { k with pc := k.pc + 1, wake := none }) with
                   trace := s.trace ++ [.step t tk.pc s.now r raw tk.wake] } := by
    refine KW.of_after (b := Pox.Recoco.setTask s t _) (KW.same rfl rfl) (KW.setTask ?_); intro _; rfl
  have hy : ∀ (k : Nat) (prog : List Y) (n pc : Nat), cfg.progs[k]? = some prog →
      ∀ y k' c, genStep n prog pc r = .yield y → y = Y.again k' c → k' < cfg.progs.length :=
    fun k prog n pc hp y k' c hg he => hwf prog (List.mem_of_getElem? hp) y (genStep_yield_mem hg) k' c he
  unfold Pox.Recoco.resumeGen
  simp only
  split
  · split
    · refine KW.of_after ?_ h0; exact KW.same rfl rfl
    · rename_i prog hprog
      refine KW.of_after ?_ h0; exact KW.topOut cfg _ t _ (hy _ prog _ _ hprog)
  · split
    · refine KW.of_after ?_ h0; exact KW.same rfl rfl
    · rename_i prog hprog
      split
      · refine KW.of_after ?_ h0
        refine KW.of_after (KW.subOut cfg _ _ t _ _ _ (hy _ prog _ _ hprog)) (KW.setTask ?_); intro _; rfl
      · refine KW.of_after ?_ h0; exact KW.subOut cfg _ _ t _ _ _ (hy _ prog _ _ hprog)
  · refine KW.of_after ?_ h0; exact KW.timerStep cfg _ t _ _


theorem resumeGen_nc (cfg : Cfg) {s : St} {t : Nat} {tk : Task} (h : Held s t) (ht : s.tasks[t]? = some tk)
    (hw : kindOK cfg s.timers.length tk.kind) (r : Recv) (raw : Val) :
    (Pox.Recoco.resumeGen cfg s t tk r raw).crashed = s.crashed := by
  have h0 : Held { Pox.Recoco.setTask s t (fun k => { k with pc := k.pc + 1, wake := none }) with
                   trace := s.trace ++ [.step t tk.pc s.now r raw tk.wake] } t := by held h
  have hk0 := kdL_of_get ht
  unfold Pox.Recoco.resumeGen
  simp only
  split
  · rename_i k hkind
    rw [hkind] at hw
    split
    · rename_i hn; rw [List.getElem?_eq_none_iff] at hn; simp only [kindOK] at hw; omega
    · rw [topOut_nc h0]; rfl
  · rename_i k p hkind
    rw [hkind] at hw
    have hk1 : kdL s.tasks t = some (.sub k p) := by rw [hk0, hkind]
    split
    · rename_i hn; rw [List.getElem?_eq_none_iff] at hn; simp only [kindOK] at hw; omega
    · split
      · have hh : Held (setTask { Pox.Recoco.setTask s t (fun k => { k with pc := k.pc + 1, wake := none }) with
                   trace := s.trace ++ [.step t tk.pc s.now r raw tk.wake] } p (fun k => { k with rv := .none })) t := by held h0
        rw [subOut_nc (k := k) hh (by simp only [setTask_tasks, kdL_modify, implies_true]; exact hk1)]; rfl
      · rw [subOut_nc (k := k) h0 (by simp only [setTask_tasks, kdL_modify, implies_true]; exact hk1)]; rfl
  · rename_i j hkind
    rw [hkind] at hw
    rw [timerStep_nc h0 _ _ (by simpa [kindOK] using hw)]; rfl

theorem execPre_crashed (cfg : Cfg) (s : St) (t : Nat) (tk : Task) : (execPre cfg s t tk).2.crashed = s.crashed := by
  unfold Pox.Recoco.execPre
  simp only []
  repeat' split
  all_goals rfl

theorem KW.execPre (cfg : Cfg) (s : St) (t : Nat) (tk : Task) : KW cfg s (Pox.Recoco.execPre cfg s t tk).2 := by
  refine ⟨by rw [execPre_timers], [], ?_, by simp⟩
  have := execPre_ctl cfg s t tk
  have e : ∀ l : List Task, l.map (·.kind) = (l.map ctl).map (·.1) := by intro l; simp [ctl]
  rw [List.append_nil, e, e, this]

theorem WFs.get {cfg : Cfg} {s : St} (h : WFs cfg s) {t : Nat} {tk : Task} (ht : s.tasks[t]? = some tk) :
    kindOK cfg s.timers.length tk.kind := h _ (List.mem_map_of_mem (List.mem_of_getElem? ht))

/-- one `cycleExec` neither crashes nor breaks well-formedness -/
theorem cycleExec_nc (cfg : Cfg) (hwf : WFcfg cfg) {s : St} (hi : Inv s) (hw : WFs cfg s) :
    (Pox.Recoco.cycleExec cfg s).crashed = s.crashed ∧ KW cfg s (Pox.Recoco.cycleExec cfg s) := by
  unfold Pox.Recoco.cycleExec
  split
  · exact ⟨rfl, KW.refl cfg s⟩
  · rename_i t hr
    have h0 : Held { s with running := none } t := by
      refine ⟨rfl, ?_⟩
      have := hi
      simp only [Inv, places, hr, incTids, hubTids, Option.toList, List.cons_append, List.nil_append] at this ⊢
      exact this
    simp only
    split
    · rename_i hn
      have := stL_some h0.live
      obtain ⟨k, hk⟩ := this
      have hk' : s.tasks[t]? = some k := hk
      rw [hk'] at hn; cases hn
    · rename_i tk htk
      have htk' : s.tasks[t]? = some tk := htk
      have hp := h0.execPre cfg tk
      have hc := execPre_crashed cfg { s with running := none } t tk
      have hkw : KW cfg s (Pox.Recoco.execPre cfg { s with running := none } t tk).2 :=
        KW.of_after (KW.execPre cfg _ t tk) (KW.same rfl rfl)
      have hctl := execPre_ctl cfg { s with running := none } t tk
      split
      · rename_i s1 he; rw [he] at hc hkw; exact ⟨hc, hkw⟩
      · rename_i e s1 he; rw [he] at hc hkw
        exact ⟨hc, KW.of_after (b := s1) (KW.setStatus cfg s1 t .dead) hkw⟩
      · rename_i r s1 he; rw [he] at hp hc hkw hctl
        have hkw' : KW cfg s s1 := hkw
        have hws1 : WFs cfg s1 := hkw'.wfs hw
        split
        · rename_i hn
          exfalso
          have e1 := ctl_get (l := s.tasks) htk'
          have : (s1.tasks.map ctl)[t]? = some (ctl tk) := by
            have hctl' : s1.tasks.map ctl = s.tasks.map ctl := hctl
            rw [hctl']; exact e1
          simp [hn] at this
        · rename_i tk1 htk1
          have hres := resumeGen_nc cfg (tk := tk1) hp htk1 (hws1.get htk1) r tk.rv
          exact ⟨hres.trans hc, KW.of_after (KW.resumeGen cfg hwf s1 t tk1 r tk.rv) hkw'⟩


/-! ### the hub side never crashes -/

theorem hubDelReturn_nc {s : St} {t : Nat} (v : Val) (hm : t ∈ hubTids s) (hnr : t ∉ s.ready) :
    (hubDelReturn s t v).crashed = s.crashed := by
  unfold Pox.Recoco.hubDelReturn hubReturn
  rw [if_pos hm, fastSchedule_nc false (by simpa using hnr)]; rfl

theorem hubTids_hubDelReturn {s : St} {t u : Nat} (v : Val) (hu : u ∈ hubTids s) (hne : u ≠ t) :
    u ∈ hubTids (hubDelReturn s t v) := by
  unfold Pox.Recoco.hubDelReturn hubReturn fastSchedule
  have key : u ∈ (s.hub.filter (fun e => e.tid ≠ t)).map (·.tid) := by
    obtain ⟨e, he, rfl⟩ := List.mem_map.mp hu
    exact List.mem_map.mpr ⟨e, List.mem_filter.mpr ⟨he, by simpa using hne⟩, rfl⟩
  split
  · split <;> simpa [hubTids] using key
  · exact hu

theorem returnExpired_nc : ∀ (l : List Nat) {s : St}, Inv s → l.Nodup → (∀ t ∈ l, t ∈ hubTids s) →
    (returnExpired s l).crashed = s.crashed ∧ ∀ u, u ∈ hubTids s → u ∉ l → u ∈ hubTids (returnExpired s l)
  | [], _, _, _, _ => ⟨rfl, fun _ h _ => h⟩
  | t :: r, s, hi, hn, hm => by
    have hn' := List.nodup_cons.mp hn
    have hc := hubDelReturn_nc (s := s) timeoutVal (hm t List.mem_cons_self) (hi.not_ready_of_hub (hm t List.mem_cons_self))
    have hkeep : ∀ u, u ∈ hubTids s → u ≠ t → u ∈ hubTids (hubDelReturn s t timeoutVal) :=
      fun u hu hne => hubTids_hubDelReturn timeoutVal hu hne
    simp only [Pox.Recoco.returnExpired]
    split
    · exact ⟨hc, fun u hu hnl => hkeep u hu (fun e => hnl (e ▸ List.mem_cons_self))⟩
    · have ih := returnExpired_nc r (hi.hubDelReturn t timeoutVal) hn'.2
        (fun u hu => hkeep u (hm u (List.mem_cons_of_mem _ hu)) (fun e => hn'.1 (e ▸ hu)))
      exact ⟨ih.1.trans hc, fun u hu hnl => ih.2 u (hkeep u hu (fun e => hnl (e ▸ List.mem_cons_self)))
        (fun h => hnl (List.mem_cons_of_mem _ h))⟩

theorem returnAll_nc : ∀ (rets : Rets) {s : St}, Inv s → (rets.map (·.1)).Nodup → (∀ t ∈ rets.map (·.1), t ∈ hubTids s) →
    (returnAll s rets).crashed = s.crashed
  | [], _, _, _, _ => rfl
  | (t, (a, b, c)) :: r, s, hi, hn, hm => by
    simp only [List.map_cons] at hn hm
    have hn' := List.nodup_cons.mp hn
    have hc := hubDelReturn_nc (s := s) (.sel a b c) (hm t List.mem_cons_self) (hi.not_ready_of_hub (hm t List.mem_cons_self))
    simp only [Pox.Recoco.returnAll]
    split
    · exact hc
    · have ih := returnAll_nc r (hi.hubDelReturn t (.sel a b c)) hn'.2
        (fun u hu => hubTids_hubDelReturn _ (hm u (List.mem_cons_of_mem _ hu)) (fun e => hn'.1 (e ▸ hu)))
      exact ih.trans hc

theorem drain_nc : ∀ (l : List HubEntry) (s : St), (l.map (·.tid) ++ hubTids s).Nodup →
    (drain s l).crashed = s.crashed ∧ ∀ u, u ∈ hubTids s → u ∈ hubTids (drain s l)
  | [], s, _ => ⟨rfl, fun _ h => h⟩
  | e :: r, s, hn => by
    have hne : e.tid ∉ hubTids s := by
      intro hm
      have := List.nodup_append.mp hn
      exact this.2.2 e.tid (by simp) e.tid hm rfl
    simp only [drain]
    rw [if_neg hne]
    have hn2 : (r.map (·.tid) ++ hubTids { s with hub := s.hub ++ [e] }).Nodup := by
      simp only [hubTids, List.map_append, List.map_cons, List.map_nil]
      have : (e.tid :: (r.map (·.tid) ++ s.hub.map (·.tid))).Nodup := by simpa [hubTids] using hn
      have hp : (r.map (·.tid) ++ (s.hub.map (·.tid) ++ [e.tid])).Perm (e.tid :: (r.map (·.tid) ++ s.hub.map (·.tid))) := by
        rw [← List.append_assoc]; exact List.perm_append_singleton _ _
      exact hp.nodup_iff.mpr this
    have ih := drain_nc r _ hn2
    exact ⟨ih.1, fun u hu => ih.2 u (by simp only [hubTids, List.map_append, List.mem_append]; exact .inl hu)⟩

theorem Inv.nodup_inc_hub {s : St} (hi : Inv s) : (incTids s ++ hubTids s).Nodup := by
  have hsub : (incTids s ++ hubTids s).Sublist (places s) :=
    (List.sublist_append_right _ _).trans (List.sublist_append_right _ _)
  exact hsub.nodup hi.nodup

theorem hubPong_nc (r : SelRes) {s : St} (hi : Inv s) :
    (hubPong r s).crashed = s.crashed ∧ ∀ u, u ∈ hubTids s → u ∈ hubTids (hubPong r s) := by
  unfold Pox.Recoco.hubPong
  split
  · have hn : (s.incoming.map (·.tid) ++ hubTids ({ s with pings := s.pings - 1024 } : St)).Nodup := by
      have := hi.nodup_inc_hub
      simp only [incTids, hubTids] at this ⊢
      exact this
    obtain ⟨h1, h2⟩ := drain_nc s.incoming { s with pings := s.pings - 1024 } hn
    refine ⟨?_, ?_⟩
    · rw [h1]
    · intro u hu
      refine h2 u ?_
      simp only [hubTids] at hu ⊢
      exact hu
  · exact ⟨rfl, fun _ h => h⟩

/-! keys of the `rets` dictionary -/

theorem retsAdd_keys (rets : Rets) (t which i : Nat) :
    (retsAdd rets t which i).map (·.1) = if t ∈ rets.map (·.1) then rets.map (·.1) else rets.map (·.1) ++ [t] := by
  induction rets with
  | nil => simp [retsAdd]
  | cons a r ih =>
    obtain ⟨t', a1, b1, c1⟩ := a
    simp only [retsAdd]
    by_cases e : t' = t
    · simp [e]
    · have e' : ¬ t = t' := fun h => e h.symm
      simp only [if_neg e, List.map_cons, ih, List.mem_cons, e', false_or]
      split <;> simp

theorem retsLoop_keys {m : List (Nat × Nat)} {which : Nat} {K : Nat → Prop} (hm : ∀ p ∈ m, K p.2) :
    ∀ (is : List Nat) (rets rets' : Rets), retsLoop m which is rets = some rets' →
      (rets.map (·.1)).Nodup → (∀ t ∈ rets.map (·.1), K t) → (rets'.map (·.1)).Nodup ∧ ∀ t ∈ rets'.map (·.1), K t
  | [], rets, rets', h, hn, hk => by simp only [retsLoop, Option.some.injEq] at h; subst h; exact ⟨hn, hk⟩
  | i :: is, rets, rets', h, hn, hk => by
    simp only [retsLoop] at h
    split at h
    · cases h
    · rename_i t ht
      refine retsLoop_keys hm is _ rets' h ?_ ?_
      · rw [retsAdd_keys]; split
        · exact hn
        · rename_i hnm; exact List.nodup_append.mpr ⟨hn, by simp, fun a ha b hb => by simp at hb; subst hb; exact fun e => hnm (e ▸ ha)⟩
      · intro u hu
        rw [retsAdd_keys] at hu
        split at hu
        · exact hk u hu
        · rcases List.mem_append.mp hu with h1 | h1
          · exact hk u h1
          · simp at h1; subst h1; exact hm _ (dictGet_mem ht)

theorem dictGet_of_key {m : List (Nat × Nat)} {i : Nat} (h : i ∈ m.map (·.1)) : ∃ t, dictGet m i = some t := by
  induction m with
  | nil => simp at h
  | cons a r ih =>
    obtain ⟨k', v'⟩ := a
    simp only [dictGet]
    by_cases e : k' = i
    · exact ⟨v', by simp [e]⟩
    · simp only [List.map_cons, List.mem_cons] at h
      rcases h with h | h
      · exact absurd h.symm e
      · simp only [if_neg e]; exact ih h

theorem retsLoop_some {m : List (Nat × Nat)} {which : Nat} : ∀ (is : List Nat) (rets : Rets), (∀ i ∈ is, i ∈ m.map (·.1)) →
    ∃ rets', retsLoop m which is rets = some rets'
  | [], rets, _ => ⟨rets, rfl⟩
  | i :: is, rets, h => by
    obtain ⟨t, ht⟩ := dictGet_of_key (h i List.mem_cons_self)
    simp only [retsLoop, ht]
    exact retsLoop_some is _ (fun j hj => h j (List.mem_cons_of_mem _ hj))

theorem readyAt_sub (tab : List (Option Nat)) (t : Nat) (fds : List Nat) : ∀ i ∈ readyAt tab t fds, i ∈ fds :=
  fun i hi => (List.mem_filter.mp hi).1

theorem vselect_sub (env : Env) (now : Nat) (rk wk xk : List Nat) (to : Nat) (p ht : Bool) :
    (∀ i ∈ (vselect env now rk wk xk to p ht).ro, i ∈ rk) ∧ (∀ i ∈ (vselect env now rk wk xk to p ht).wo, i ∈ wk) ∧
    (∀ i ∈ (vselect env now rk wk xk to p ht).xo, i ∈ xk) := by
  unfold vselect
  simp only []
  split
  · exact ⟨readyAt_sub _ _ _, readyAt_sub _ _ _, readyAt_sub _ _ _⟩
  · split
    · split
      · exact ⟨readyAt_sub _ _ _, readyAt_sub _ _ _, readyAt_sub _ _ _⟩
      · simp
    · split <;> simp


def expiredP (now : Nat) (e : HubEntry) : Bool :=
  match e.tto with
  | some w => decide (w ≤ now)
  | none => false

theorem addFds_expired (sc : Scan) (e : HubEntry) : (addFds sc e).expired = sc.expired := rfl

theorem scanEntry_expired (now : Nat) (sc : Scan) (e : HubEntry) :
    (scanEntry now sc e).expired = sc.expired ++ (if expiredP now e then [e.tid] else []) := by
  unfold scanEntry expiredP
  split
  · rename_i h; simp [h, addFds_expired]
  · rename_i w h
    split
    · rename_i hle; simp [h, hle]
    · rename_i hle
      simp only [h, hle, decide_false, Bool.false_eq_true, if_false, List.append_nil]
      split
      · rfl
      · split <;> rfl

theorem scan_expired (now : Nat) : ∀ (l : List HubEntry) (sc : Scan),
    (l.foldl (scanEntry now) sc).expired = sc.expired ++ (l.filter (expiredP now)).map (·.tid)
  | [], sc => by simp
  | e :: r, sc => by
    rw [List.foldl_cons, scan_expired now r, scanEntry_expired, List.filter_cons]
    by_cases h : expiredP now e = true <;> simp [h]

theorem hubScan_expired (s : St) : (hubScan s).expired = (s.hub.filter (expiredP s.now)).map (·.tid) := by
  have := scan_expired s.now s.hub {}
  simpa [hubScan] using this

theorem hubScan_expired_props {s : St} (hi : Inv s) :
    (hubScan s).expired.Nodup ∧ (∀ t ∈ (hubScan s).expired, t ∈ hubTids s) ∧
    (∀ e ∈ s.hub, (∀ w, e.tto = some w → s.now < w) → e.tid ∉ (hubScan s).expired) := by
  rw [hubScan_expired]
  have hsub : ((s.hub.filter (expiredP s.now)).map (·.tid)).Sublist (hubTids s) := (List.filter_sublist).map _
  refine ⟨hsub.nodup hi.nodup_hub, fun t ht => hsub.subset ht, ?_⟩
  intro e he hlive hm
  obtain ⟨e', he', het⟩ := List.mem_map.mp hm
  obtain ⟨he'h, hp⟩ := List.mem_filter.mp he'
  have hn : (s.hub.map (·.tid)).Nodup := hi.nodup_hub
  have : e' = e := tid_inj hn he'h he het
  subst this
  unfold expiredP at hp
  cases hw : e'.tto with
  | none => simp [hw] at hp
  | some w => simp [hw] at hp; have := hlive w hw; omega

theorem hubDispatch_nc (sc : Scan) (r : SelRes) {s : St} (hi : Inv s) (hc : s.crashed = false)
    (hro : ∀ i ∈ r.ro, i ∈ sc.rl.map (·.1)) (hwo : ∀ i ∈ r.wo, i ∈ sc.wl.map (·.1)) (hxo : ∀ i ∈ r.xo, i ∈ sc.xl.map (·.1))
    (hK : ∀ p, p ∈ sc.rl ∨ p ∈ sc.wl ∨ p ∈ sc.xl → p.2 ∈ hubTids s) : (hubDispatch sc r s).crashed = false := by
  unfold Pox.Recoco.hubDispatch
  rw [if_neg (by simp [hc])]
  split
  · exact hc
  · obtain ⟨r1, h1⟩ := retsLoop_some (m := sc.rl) (which := 0) r.ro [] hro
    obtain ⟨r2, h2⟩ := retsLoop_some (m := sc.wl) (which := 1) r.wo r1 hwo
    obtain ⟨r3, h3⟩ := retsLoop_some (m := sc.xl) (which := 2) r.xo r2 hxo
    have k1 := retsLoop_keys (K := fun t => t ∈ hubTids s) (fun p hp => hK p (.inl hp)) _ _ _ h1 (by simp) (by simp)
    have k2 := retsLoop_keys (K := fun t => t ∈ hubTids s) (fun p hp => hK p (.inr (.inl hp))) _ _ _ h2 k1.1 k1.2
    have k3 := retsLoop_keys (K := fun t => t ∈ hubTids s) (fun p hp => hK p (.inr (.inr hp))) _ _ _ h3 k2.1 k2.2
    simp only [h1, h2, h3, Option.bind_some]
    rw [returnAll_nc r3 hi k3.1 k3.2]; exact hc

theorem hubFinish_nc (sc : Scan) (r : SelRes) {s : St} (hi : Inv s) (hc : s.crashed = false)
    (htt : ∀ t, sc.timeoutTask = some t → t ∈ hubTids s)
    (hro : ∀ i ∈ r.ro, i ∈ sc.rl.map (·.1)) (hwo : ∀ i ∈ r.wo, i ∈ sc.wl.map (·.1)) (hxo : ∀ i ∈ r.xo, i ∈ sc.xl.map (·.1))
    (hK : ∀ p, p ∈ sc.rl ∨ p ∈ sc.wl ∨ p ∈ sc.xl → p.2 ∈ hubTids s) : (hubFinish sc r s).crashed = false := by
  unfold Pox.Recoco.hubFinish
  split
  · split
    · rename_i t ht
      rw [hubDelReturn_nc timeoutVal (htt t ht) (hi.not_ready_of_hub (htt t ht))]; exact hc
    · exact hc
  · have hp := hubPong_nc r hi
    exact hubDispatch_nc sc r (hi.hubPong r) (by rw [hp.1]; exact hc) hro hwo hxo (fun p hp' => hp.2 _ (hK p hp'))

theorem hubSelect_nc (cfg : Cfg) {s : St} (hi : Inv s) (hc : s.crashed = false) : (hubSelect cfg s).crashed = false := by
  have hsc := hubScan_ok s
  obtain ⟨hnd, hmem, hlive⟩ := hubScan_expired_props hi
  have hexp := returnExpired_nc (hubScan s).expired hi hnd hmem
  have hi1 := Inv.returnExpired (hubScan s).expired hi
  have keep : ∀ e ∈ s.hub, (∀ w, e.tto = some w → s.now < w) → e.tid ∈ hubTids (Pox.Recoco.returnExpired s (hubScan s).expired) :=
    fun e he hl => hexp.2 e.tid (List.mem_map_of_mem he) (hlive e he hl)
  unfold Pox.Recoco.hubSelect
  simp only []
  split
  · rename_i h; rw [hexp.1, hc] at h; cases h
  · have hv := vselect_sub cfg.env (Pox.Recoco.returnExpired s (hubScan s).expired).now ((hubScan s).rl.map (·.1))
      ((hubScan s).wl.map (·.1)) ((hubScan s).xl.map (·.1)) (hubTimeout (hubScan s))
      (decide (0 < (Pox.Recoco.returnExpired s (hubScan s).expired).pings)) (hubScan s).timeoutTask.isSome
    refine hubFinish_nc _ _ ?_ ?_ ?_ hv.1 hv.2.1 hv.2.2 ?_
    · held hi1
    · show (Pox.Recoco.returnExpired s (hubScan s).expired).crashed = false
      rw [hexp.1]; exact hc
    · intro t ht
      obtain ⟨e, he, het, w, hw, hlt, _⟩ := hsc.timeout t ht
      have := keep e he (fun w' hw' => by rw [hw] at hw'; cases hw'; exact hlt)
      rw [het] at this
      simpa [hubTids] using this
    · intro p hp
      obtain ⟨e, he, het, _, hl⟩ := hsc.fds p hp
      have := keep e he hl
      rw [het] at this
      simpa [hubTids] using this

/-- nothing in the scheduler or the hub trips over its own bookkeeping, and the task table stays well-formed -/
structure NC (cfg : Cfg) (s : St) : Prop where
  crashed : s.crashed = false
  wfs : WFs cfg s

theorem NC.idleStep (cfg : Cfg) {s : St} (hi : Inv s) (h : NC cfg s) : NC cfg (idleStep cfg s) := by
  have hf := HubFr.idleStep cfg s
  refine ⟨?_, ?_⟩
  · unfold Pox.Recoco.idleStep
    split
    · exact hubSelect_nc cfg hi h.crashed
    · exact h.crashed
  · intro kd hm
    have e : ∀ l : List Task, l.map (·.kind) = (l.map eraseRv).map (·.kind) := by intro l; simp [eraseRv]
    rw [e, hf.tasks, ← e] at hm
    rw [hf.timers]; exact h.wfs kd hm

theorem NC.cycle (cfg : Cfg) (hwf : WFcfg cfg) {s : St} (hi : Inv s) (h : NC cfg s) : NC cfg (cycle cfg s) := by
  unfold Pox.Recoco.cycle
  have hi' : Inv (cyclePop { s with cycles := s.cycles + 1 }) := by refine Inv.cyclePop ?_; held hi
  have hkw : KW cfg s (cyclePop { s with cycles := s.cycles + 1 }) := by
    unfold Pox.Recoco.cyclePop
    repeat' split
    all_goals exact KW.same rfl rfl
  have hc : (cyclePop { s with cycles := s.cycles + 1 }).crashed = s.crashed := by
    unfold Pox.Recoco.cyclePop
    repeat' split
    all_goals rfl
  have := cycleExec_nc cfg hwf hi' (hkw.wfs h.wfs)
  exact ⟨by rw [this.1, hc]; exact h.crashed, this.2.wfs (hkw.wfs h.wfs)⟩

theorem NC.iter (cfg : Cfg) (hwf : WFcfg cfg) {s : St} (hi : Inv s) (h : NC cfg s) : NC cfg (iter cfg s) := by
  unfold Pox.Recoco.iter
  have h1 := h.idleStep cfg hi
  have hi1 := hi.idleStep cfg
  split
  · exact h
  · simp only []
    split
    · exact h1
    · exact h1.cycle cfg hwf hi1

theorem NC.run (cfg : Cfg) (hwf : WFcfg cfg) : ∀ (n : Nat) {s : St}, Inv s → NC cfg s → NC cfg (run cfg n s)
  | 0, _, _, h => h
  | n + 1, _, hi, h => NC.run cfg hwf n (hi.iter cfg) (h.iter cfg hwf hi)

theorem NC.init (cfg : Cfg) (t0 : Nat) (tasks : List Nat) (timers : List TimerCfg) (ss rs : List (Option Nat)) (ps ds : List Nat)
    (ht : ∀ k ∈ tasks, k < cfg.progs.length) : NC cfg (initSt t0 tasks timers ss rs ps ds) := by
  refine ⟨rfl, ?_⟩
  intro kd hm
  rw [initSt_view (·.kind) (fun _ _ => rfl)] at hm
  rcases List.mem_append.mp hm with h | h
  · obtain ⟨k, hk, rfl⟩ := List.mem_map.mp h; exact ht k hk
  · obtain ⟨j, hj, rfl⟩ := List.mem_map.mp h
    simp only [kindOK, initSt, List.length_map]
    exact List.mem_range.mp hj

/-! ## Part 9: the wake time is the requested one; an expired wait is handed back -/

/-- the absolute wake time (and whether descriptors are involved) that yielding `y` at time `now` asks for -/
def reqWake (now : Nat) : Y → Option (Nat × Bool)
  | .num (n + 1) => some (now + (n + 1), false)
  | .sleep (some d) => some (now + d, false)
  | .sleepAbs w => some (w, false)
  | .select r w x to => to.map (fun d => (now + d, (HubEntry.mk 0 r w x none).hasFds))
  | .recv _ to => to.map (fun d => (now + d, true))
  | .send _ _ to _ => to.map (fun d => (now + d, true))
  | _ => none

theorem wkL_get {l : List Task} {t : Nat} {k : Task} (h : l[t]? = some k) : wkL l t = k.wake := by simp [wkL, h]

theorem hasFds_tid (a b : Nat) (r w x : List Nat) (p q : Option Nat) :
    (HubEntry.mk a r w x p).hasFds = (HubEntry.mk b r w x q).hasFds := rfl

/-- **wake_is_requested, scheduler stage**: interpreting the yielded value `y` of task `t` (whose old wake time has been consumed)
    notes exactly the wake time `y` asks for -/
theorem doYield_wake {s : St} {t : Nat} {tk : Task} (ht : s.tasks[t]? = some tk) (hw : tk.wake = none) (y : Y) :
    wkL (doYield s t y).tasks t = reqWake s.now y := by
  have hlt : t < s.tasks.length := (List.getElem?_eq_some_iff.mp ht).1
  cases y with
  | num n => cases n with
    | zero => simp [doYield, reqWake, wkL_get ht, hw]
    | succ n => simp [doYield, reqWake, registerSelect, wkL, List.getElem?_modify, ht, HubEntry.hasFds]
  | block => simp [doYield, reqWake, wkL_get ht, hw]
  | sleep d => cases d with
    | none => simp [doYield, reqWake, wkL_get ht, hw]
    | some d =>
      simp only [doYield, reqWake]
      split
      · unfold fastSchedule; split <;> simp [wkL, List.getElem?_modify, ht]
      · simp [registerSelect, wkL, List.getElem?_modify, ht, HubEntry.hasFds]
  | sleepAbs w =>
    simp only [doYield, reqWake]
    split
    · unfold fastSchedule; split <;> simp [wkL, List.getElem?_modify, ht]
    · simp [registerSelect, wkL, List.getElem?_modify, ht, HubEntry.hasFds]
  | select r w x to =>
    cases to <;> simp [doYield, reqWake, registerSelect, wkL, List.getElem?_modify, ht]
    rfl
  | recv fd to => cases to <;> simp [doYield, reqWake, registerSelect, wkL, List.getElem?_modify, ht, HubEntry.hasFds]
  | send fd len to bs => cases to <;> simp [doYield, reqWake, registerSelect, wkL, List.getElem?_modify, ht, HubEntry.hasFds]
  | exit => simp [doYield, reqWake, wkL_get ht, hw]
  | raise n => simp [doYield, reqWake, wkL_get ht, hw]
  | again k c =>
    simp only [doYield, reqWake]
    unfold fastSchedule
    split <;> simp [wkL, List.getElem?_append_left hlt, ht, hw]
  | cancel j => simp [doYield, reqWake, cancelTimer, wkL_get ht, hw]

/-- **wake_is_requested, generator stage** (top-level task): after the resume that yields `y`, the task's wake field is what `y`
    asks for at the current time -/
theorem resumeGen_wake (cfg : Cfg) (s : St) (t : Nat) (tk : Task) (k : Nat) (prog : List Y) (y : Y) (r : Recv) (raw : Val)
    (htk : s.tasks[t]? = some tk) (hkind : tk.kind = .top k) (hprog : cfg.progs[k]? = some prog)
    (hy : genStep s.timers.length prog tk.pc r = .yield y) :
    wkL (resumeGen cfg s t tk r raw).tasks t = reqWake s.now y := by
  obtain ⟨kind, pc, rv, re, rf, st, wake, prio⟩ := tk
  simp only at hkind hy
  subst hkind
  simp only [resumeGen, hprog, setTask_timers, hy, topOut]
  have ht' : ({ setTask s t (fun k => { k with pc := k.pc + 1, wake := none }) with
      trace := s.trace ++ [.step t pc s.now r raw wake] } : St).tasks[t]? =
      some { kind := .top k, pc := pc + 1, rv := rv, re := re, rf := rf, st := st, wake := none, prio := prio } := by
    simp [List.getElem?_modify, htk]
  exact doYield_wake ht' rfl y

/-- the wake field of a task changes only in a cycle that runs that task: a cycle leaves everybody else's alone … -/
theorem cycle_wake_other (cfg : Cfg) (s : St) (hrun : s.running = none) (u : Nat) (hu : u ∉ s.ready)
    (hl : u < s.tasks.length) : wkL (cycle cfg s).tasks u = wkL s.tasks u := by
  have key : ((cycle cfg s).tasks.map ctl2)[u]? = (s.tasks.map ctl2)[u]? := by
    cases hlot : lottery s.tasks s.draws s.ready with
    | none => simp [cycle, cyclePop, hrun, hlot, cycleExec]
    | some res =>
      obtain ⟨t, rest, ds'⟩ := res
      rw [cycle_pop cfg s t rest ds' hrun hlot]
      have hne : u ≠ t := by
        rintro rfl
        exact hu ((lottery_perm _ _ _ hlot).mem_iff.mp List.mem_cons_self)
      exact (CycFr.cycleExec cfg (popped s t rest ds') t rfl).ctl u hne hl
  simp only [List.getElem?_map] at key
  simp only [wkL]
  cases h1 : (cycle cfg s).tasks[u]? <;> cases h2 : s.tasks[u]? <;> simp [h1, h2, ctl2] at key ⊢
  exact key.2.2.2.1

/-- … and the select hub never touches it -/
theorem idle_wake (cfg : Cfg) (s : St) (u : Nat) : wkL (idleStep cfg s).tasks u = wkL s.tasks u := by
  have hf := (HubFr.idleStep cfg s).tasks
  have := congrArg (fun m => m[u]?) hf
  simp only [List.getElem?_map] at this
  simp only [wkL]
  cases h1 : (idleStep cfg s).tasks[u]? <;> cases h2 : s.tasks[u]? <;> simp [h1, h2, eraseRv] at this ⊢
  exact this.2.2.2.2.2.1


/-! ### no lost wake-up for an expired wait (one step) -/

theorem hubDelReturn_ready_mono (s : St) (t : Nat) (v : Val) : ∀ u ∈ s.ready, u ∈ (hubDelReturn s t v).ready := by
  intro u hu
  unfold hubDelReturn hubReturn fastSchedule
  split
  · split
    · exact hu
    · simp only [setTask_ready, Bool.false_eq_true, if_false]; exact List.mem_append_left _ hu
  · exact hu

theorem hubDelReturn_ready_self {s : St} {t : Nat} (v : Val) (hm : t ∈ hubTids s) (hnr : t ∉ s.ready) :
    t ∈ (hubDelReturn s t v).ready := by
  unfold hubDelReturn hubReturn fastSchedule
  rw [if_pos hm, if_neg (by simpa using hnr)]
  simp

theorem returnAll_ready_mono : ∀ (rets : Rets) (s : St), ∀ u ∈ s.ready, u ∈ (returnAll s rets).ready
  | [], _, _, hu => hu
  | (t, (a, b, c)) :: r, s, u, hu => by
    simp only [returnAll]
    split
    · exact hubDelReturn_ready_mono _ _ _ u hu
    · exact returnAll_ready_mono r _ u (hubDelReturn_ready_mono _ _ _ u hu)

theorem drain_ready : ∀ (l : List HubEntry) (s : St), (drain s l).ready = s.ready
  | [], _ => rfl
  | e :: r, s => by
    simp only [drain]
    split
    · rfl
    · exact drain_ready r _

theorem hubFinish_ready_mono (sc : Scan) (r : SelRes) (s : St) : ∀ u ∈ s.ready, u ∈ (hubFinish sc r s).ready := by
  intro u hu
  unfold hubFinish
  split
  · split
    · exact hubDelReturn_ready_mono _ _ _ u hu
    · exact hu
  · have hp : (hubPong r s).ready = s.ready := by
      unfold hubPong; split
      · rw [drain_ready]
      · rfl
    unfold hubDispatch
    split
    · rw [hp]; exact hu
    · split
      · rw [hp]; exact hu
      · split
        · simp only []; rw [hp]; exact hu
        · exact returnAll_ready_mono _ _ u (by rw [hp]; exact hu)

theorem returnExpired_ready : ∀ (l : List Nat) {s : St}, Inv s → s.crashed = false → l.Nodup → (∀ t ∈ l, t ∈ hubTids s) →
    (∀ t ∈ l, t ∈ (returnExpired s l).ready) ∧ (∀ u ∈ s.ready, u ∈ (returnExpired s l).ready)
  | [], _, _, _, _, _ => ⟨fun _ h => (by cases h), fun _ h => h⟩
  | t :: r, s, hi, hc, hn, hm => by
    have hn' := List.nodup_cons.mp hn
    have htm := hm t List.mem_cons_self
    have hnr := hi.not_ready_of_hub htm
    have hc' : (hubDelReturn s t timeoutVal).crashed = false := by rw [hubDelReturn_nc timeoutVal htm hnr]; exact hc
    have ih := returnExpired_ready r (hi.hubDelReturn t timeoutVal) hc' hn'.2
      (fun u hu => hubTids_hubDelReturn timeoutVal (hm u (List.mem_cons_of_mem _ hu)) (fun e => hn'.1 (e ▸ hu)))
    simp only [returnExpired]
    rw [if_neg (by simp [hc'])]
    refine ⟨?_, fun u hu => ih.2 u (hubDelReturn_ready_mono _ _ _ u hu)⟩
    intro u hu
    rcases List.mem_cons.mp hu with rfl | h
    · exact ih.2 _ (hubDelReturn_ready_self timeoutVal htm hnr)
    · exact ih.1 u h

/-- **no lost wake-up (expired wait).**  When the scheduler goes idle, every hub entry whose deadline has passed is handed back:
    its task is in the ready deque after `idleStep`. -/
theorem expired_returns (cfg : Cfg) {s : St} (hi : Inv s) (hc : s.crashed = false) (hr : s.ready = [])
    (e : HubEntry) (he : e ∈ s.hub) (w : Nat) (hw : e.tto = some w) (hle : w ≤ s.now) : e.tid ∈ (idleStep cfg s).ready := by
  unfold idleStep
  rw [if_pos hr]
  obtain ⟨hnd, hmem, _⟩ := hubScan_expired_props hi
  have hexp : e.tid ∈ (hubScan s).expired := by
    rw [hubScan_expired]
    exact List.mem_map.mpr ⟨e, List.mem_filter.mpr ⟨he, by simp [expiredP, hw, hle]⟩, rfl⟩
  have h1 := (returnExpired_ready (hubScan s).expired hi hc hnd hmem).1 e.tid hexp
  have hc1 := (returnExpired_nc (hubScan s).expired hi hnd hmem).1
  unfold hubSelect
  simp only []
  rw [if_neg (by rw [hc1, hc]; simp)]
  exact hubFinish_ready_mono _ _ _ _ h1


/-! ## Part 10: a timer never fires before it is due -/

/-- the period of a timer (`Timer._interval`) -/
def ivl (c : TimerCfg) : Nat := if c.recurring then c.delay else 0

theorem TStar.keep_of_fired {a b : TimerSt} (h : TStar a b) (hf : b.fired = a.fired) :
    b.next = a.next ∧ (b.final = false → a.final = false) := by
  induction h with
  | refl => exact ⟨rfl, id⟩
  | tail h1 h2 ih =>
    rename_i b c
    have m1 := h1.fired_mono
    have m2 := h2.fired_mono
    have e1 : b.fired = a.fired := by omega
    have e2 : c.fired = b.fired := by omega
    obtain ⟨ihn, ihf⟩ := ih e1
    cases h2 with
    | same => exact ⟨ihn, ihf⟩
    | cancel => exact ⟨ihn, ihf⟩
    | noticed hc => exact ⟨ihn, fun h => by simp at h⟩
    | fire now hfin hcan => simp at e2

theorem resumeGen_trace_nt (cfg : Cfg) (s : St) (t : Nat) (tk : Task) (r : Recv) (raw : Val) (hk : ∀ j, tk.kind ≠ .timer j) :
    (resumeGen cfg s t tk r raw).trace = s.trace ++ [.step t tk.pc s.now r raw tk.wake] := by
  obtain ⟨kind, pc, rv, re, rf, st, wake, prio⟩ := tk
  cases kind with
  | top k => simp only [resumeGen]; split <;> simp
  | sub k p =>
    simp only [resumeGen]
    split
    · simp
    · split <;> simp
  | timer j => exact absurd rfl (hk j)

theorem NF.resumeGen_nt (cfg : Cfg) (s : St) (t : Nat) (tk : Task) (r : Recv) (raw : Val) (hk : ∀ j, tk.kind ≠ .timer j) :
    NF s (Pox.Recoco.resumeGen cfg s t tk r raw) := by
  have n0 : NF s { Pox.Recoco.setTask s t (fun k => { k with pc := k.pc + 1, wake := none }) with
                   trace := s.trace ++ [.step t tk.pc s.now r raw tk.wake] } := by
    refine ⟨⟨[], ?_, by simp⟩, rfl, fun u => by simp [List.filterMap_append, fireIdx]⟩
    simp only [setTask_tasks, List.append_nil]
    refine map_kind_modify _ _ _ ?_; intro _; rfl
  unfold Pox.Recoco.resumeGen
  simp only
  split
  · split
    · refine NF.of_after ?_ n0; exact NF.same rfl rfl rfl
    · refine NF.of_after ?_ n0; exact NF.topOut _ t _
  · split
    · refine NF.of_after ?_ n0; exact NF.same rfl rfl rfl
    · split
      · refine NF.of_after ?_ n0
        refine NF.of_after (NF.subOut _ _ t _ _ _) (NF.setTask ?_); intro _; rfl
      · refine NF.of_after ?_ n0; exact NF.subOut _ _ t _ _ _
  · rename_i j hkind; exact absurd hkind (hk j)

/-- a cycle that runs a task which is not a timer: no firing, the firing counters stay, and the trace gains at most one step event -/
theorem cycleExec_nt (cfg : Cfg) (s : St) (t : Nat) (tk : Task) (hr : s.running = some t) (htk : s.tasks[t]? = some tk)
    (hk : ∀ j, tk.kind ≠ .timer j) :
    NF s (Pox.Recoco.cycleExec cfg s) ∧
    (∀ u n x, Ev.fire u n x ∈ (Pox.Recoco.cycleExec cfg s).trace → Ev.fire u n x ∈ s.trace) := by
  have htk' : ({ s with running := none } : St).tasks[t]? = some tk := htk
  unfold Pox.Recoco.cycleExec
  simp only [hr, htk']
  have hp : NF s (Pox.Recoco.execPre cfg { s with running := none } t tk).2 :=
    NF.of_after (NF.execPre cfg _ t tk) (NF.same rfl rfl rfl)
  have htr := execPre_trace cfg { s with running := none } t tk
  have hctl := execPre_ctl cfg { s with running := none } t tk
  split
  · rename_i s1 he; rw [he] at hp htr
    exact ⟨hp, fun u n x h => by rw [show s1.trace = s.trace from htr] at h; exact h⟩
  · rename_i e s1 he; rw [he] at hp htr
    have hp' : NF s s1 := hp
    exact ⟨NF.of_after (NF.setStatus s1 t .dead) hp', fun u n x h => by
      rw [show (setStatus s1 t .dead).trace = s.trace from htr] at h; exact h⟩
  · rename_i r s1 he; rw [he] at hp htr hctl
    have hp' : NF s s1 := hp
    have htr' : s1.trace = s.trace := htr
    split
    · exact ⟨NF.of_after (b := s1) (NF.same rfl rfl rfl) hp', fun u n x h => by
        rw [show ({ s1 with crashed := true } : St).trace = s.trace from htr'] at h; exact h⟩
    · rename_i tk1 htk1
      have hk1 : ∀ j, tk1.kind ≠ .timer j := by
        have e1 := ctl_get htk1
        have e2 := ctl_get (l := s.tasks) htk
        have hctl' : s1.tasks.map ctl = s.tasks.map ctl := hctl
        rw [hctl', e2] at e1
        simp only [ctl, Option.some.injEq, Prod.mk.injEq] at e1
        intro j; rw [← e1.1]; exact hk j
      refine ⟨NF.of_after (NF.resumeGen_nt cfg s1 t tk1 r tk.rv hk1) hp', fun u n x h => ?_⟩
      rw [resumeGen_trace_nt cfg s1 t tk1 r tk.rv hk1, htr'] at h
      rcases List.mem_append.mp h with h | h
      · exact h
      · simp at h


/-- `ex`: the timer task that is in the middle of its step (its wake time has been consumed) -/
structure TNIx (t0 : Nat) (cfgs : List TimerCfg) (ex : Option Nat) (s : St) : Prop where
  next : ∀ (j : Nat) (tm : TimerSt), s.timers[j]? = some tm → ∃ c, cfgs[j]? = some c ∧ tm.cfg = c ∧ t0 + c.delay + tm.fired * ivl c ≤ tm.next
  task : ∀ (t j : Nat) (tk : Task) (tm : TimerSt), s.tasks[t]? = some tk → tk.kind = .timer j → s.timers[j]? = some tm →
           tk.rf = none ∧ (ex ≠ some t → tk.st = .live → tm.final = false → 0 < tk.pc → tk.wake = some (tm.next, false))
  fires : ∀ (t n x : Nat), Ev.fire t n x ∈ s.trace →
            ∃ j c, kdL s.tasks t = some (.timer j) ∧ cfgs[j]? = some c ∧ t0 + c.delay + n * ivl c ≤ x
  rf : ∀ (t j : Nat) (tk : Task), s.tasks[t]? = some tk → tk.kind = .timer j → tk.rf = none

theorem get_of_map_eq {β} {g : Task → β} {l l' : List Task} (h : l'.map g = l.map g) {t : Nat} {k' : Task} (hk : l'[t]? = some k') :
    ∃ k, l[t]? = some k ∧ g k = g k' := by
  have := congrArg (fun m => m[t]?) h
  simp only [List.getElem?_map, hk, Option.map_some] at this
  cases hl : l[t]? with
  | none => simp [hl] at this
  | some k => simp [hl] at this; exact ⟨k, rfl, this.symm⟩

theorem TNIx.idle {t0 cfgs} (cfg : Cfg) {s : St} (h : TNIx t0 cfgs none s) : TNIx t0 cfgs none (idleStep cfg s) := by
  have hf := HubFr.idleStep cfg s
  refine ⟨?_, ?_, ?_, ?_⟩
  · intro j tm htm; rw [hf.timers] at htm; exact h.next j tm htm
  · intro t j tk' tm htk hkind htm
    rw [hf.timers] at htm
    obtain ⟨tk, htk0, he⟩ := get_of_map_eq hf.tasks htk
    have e : tk'.kind = tk.kind ∧ tk'.rf = tk.rf ∧ tk'.st = tk.st ∧ tk'.pc = tk.pc ∧ tk'.wake = tk.wake := by
      simp only [eraseRv, Task.mk.injEq] at he
      exact ⟨he.1.symm, he.2.2.2.2.1.symm, he.2.2.2.2.2.1.symm, he.2.1.symm, he.2.2.2.2.2.2.1.symm⟩
    have := h.task t j tk tm htk0 (by rw [← e.1]; exact hkind) htm
    rw [e.2.1, e.2.2.1, e.2.2.2.1, e.2.2.2.2]; exact this
  · intro t n x hm
    rw [hf.trace] at hm
    obtain ⟨j, c, hk, hc, hb⟩ := h.fires t n x hm
    refine ⟨j, c, ?_, hc, hb⟩
    have e : ∀ l : List Task, kdL l t = ((l.map eraseRv)[t]?).map (·.kind) := by
      intro l; simp only [kdL, List.getElem?_map]; cases l[t]? <;> rfl
    rw [e, hf.tasks, ← e]; exact hk
  · intro t j tk' htk hkind
    obtain ⟨tk, htk0, he⟩ := get_of_map_eq hf.tasks htk
    simp only [eraseRv, Task.mk.injEq] at he
    rw [← he.2.2.2.2.1]; exact h.rf t j tk htk0 (by rw [he.1]; exact hkind)

/-- a cycle that runs a task which is not a timer -/
theorem TNIx.cycle_nt {t0 cfgs} (cfg : Cfg) {s : St} (h : TNIx t0 cfgs none s) (t : Nat) (tk : Task) (hr : s.running = some t)
    (htk : s.tasks[t]? = some tk) (hk : ∀ j, tk.kind ≠ .timer j) : TNIx t0 cfgs none (Pox.Recoco.cycleExec cfg s) := by
  obtain ⟨hnf, hfire⟩ := cycleExec_nt cfg s t tk hr htk hk
  have htf := TFr.cycleExec cfg s
  have hcf := CycFr.cycleExec cfg s t hr
  obtain ⟨ext, hkinds, hext⟩ := hnf.kinds
  have hkd := kdL_of_kinds hkinds hext
  have timer_back : ∀ (j : Nat) (tm' : TimerSt), (Pox.Recoco.cycleExec cfg s).timers[j]? = some tm' →
      ∃ tm : TimerSt, s.timers[j]? = some tm ∧ tm'.cfg = tm.cfg ∧ tm'.fired = tm.fired ∧ tm'.next = tm.next ∧ (tm'.final = false → tm.final = false) := by
    intro j tm' htm'
    have hlt : j < s.timers.length := by rw [← htf.1]; exact (List.getElem?_eq_some_iff.mp htm').1
    obtain ⟨tm, htm⟩ : ∃ tm, s.timers[j]? = some tm := ⟨_, List.getElem?_eq_getElem hlt⟩
    have hstar := htf.2 j tm tm' htm htm'
    have hfm : ((Pox.Recoco.cycleExec cfg s).timers.map (·.fired))[j]? = some tm'.fired := by simp [htm']
    rw [hnf.fired] at hfm
    simp only [List.getElem?_map, htm, Option.map_some, Option.some.injEq] at hfm
    have := hstar.keep_of_fired hfm.symm
    exact ⟨tm, htm, hstar.cfg, hfm.symm, this.1, this.2⟩
  refine ⟨?_, ?_, ?_, ?_⟩
  · intro j tm' htm'
    obtain ⟨tm, htm, hc, hf, hn, _⟩ := timer_back j tm' htm'
    obtain ⟨c, hcc, hcfg, hb⟩ := h.next j tm htm
    exact ⟨c, hcc, hc.trans hcfg, by rw [hf, hn]; exact hb⟩
  · intro u j tk' tm' htk' hkind htm'
    obtain ⟨tm, htm, _, _, hn, hfin⟩ := timer_back j tm' htm'
    have hku : kdL (Pox.Recoco.cycleExec cfg s).tasks u = some (.timer j) := by rw [kdL_of_get htk', hkind]
    by_cases hlt : u < s.tasks.length
    · have hku0 : kdL s.tasks u = some (.timer j) := by rw [← (hkd u).1 hlt]; exact hku
      have hne : u ≠ t := by
        rintro rfl
        rw [kdL_of_get htk] at hku0
        simp only [Option.some.injEq] at hku0
        exact hk j hku0
      have h2 := hcf.ctl u hne hlt
      simp only [List.getElem?_map, htk', Option.map_some] at h2
      cases hu0 : s.tasks[u]? with
      | none => simp [hu0] at h2
      | some tk0 =>
        simp only [hu0, Option.map_some, Option.some.injEq, ctl2, Prod.mk.injEq] at h2
        have := h.task u j tk0 tm hu0 (by rw [← h2.1]; exact hkind) htm
        rw [h2.2.2.2.2.2, h2.2.2.1, h2.2.1, h2.2.2.2.1, hn]
        exact ⟨this.1, fun _ hl hf hp => this.2 (by simp) hl (hfin hf) hp⟩
    · exact absurd hku ((hkd u).2 (by omega) j)
  · intro u n x hm
    obtain ⟨j, c, hk0, hc, hb⟩ := h.fires u n x (hfire u n x hm)
    refine ⟨j, c, ?_, hc, hb⟩
    have hlt : u < s.tasks.length := by
      simp only [kdL] at hk0
      cases hu : s.tasks[u]? with
      | none => simp [hu] at hk0
      | some _ => exact (List.getElem?_eq_some_iff.mp hu).1
    rw [(hkd u).1 hlt]; exact hk0
  · intro u j tk' htk' hkind
    have hku : kdL (Pox.Recoco.cycleExec cfg s).tasks u = some (.timer j) := by rw [kdL_of_get htk', hkind]
    by_cases hlt : u < s.tasks.length
    · have hku0 : kdL s.tasks u = some (.timer j) := by rw [← (hkd u).1 hlt]; exact hku
      have hne : u ≠ t := by
        rintro rfl
        rw [kdL_of_get htk] at hku0
        simp only [Option.some.injEq] at hku0
        exact hk j hku0
      have h2 := hcf.ctl u hne hlt
      simp only [List.getElem?_map, htk', Option.map_some] at h2
      cases hu0 : s.tasks[u]? with
      | none => simp [hu0] at h2
      | some tk0 =>
        simp only [hu0, Option.map_some, Option.some.injEq, ctl2, Prod.mk.injEq] at h2
        rw [h2.2.2.2.2.2]; exact h.rf u j tk0 hu0 (by rw [← h2.1]; exact hkind)
    · exact absurd hku ((hkd u).2 (by omega) j)


theorem kdL_modify_kind {l : List Task} {u t : Nat} {f : Task → Task} (h : ∀ k, (f k).kind = k.kind) : kdL (l.modify u f) t = kdL l t := by
  rw [kdL_modify h]

/-- the exempt task's record is rewritten (its step is over) -/
theorem TNIx.finish {t0 cfgs} {σ σ' : St} {t : Nat} (f : Task → Task) (hx : TNIx t0 cfgs (some t) σ)
    (h1 : σ'.timers = σ.timers) (h2 : σ'.trace = σ.trace) (h3 : σ'.tasks = σ.tasks.modify t f)
    (hk : ∀ k, (f k).kind = k.kind) (hrf : ∀ k, (f k).rf = k.rf)
    (ht : ∀ tk j tm, σ.tasks[t]? = some tk → tk.kind = .timer j → σ.timers[j]? = some tm → (f tk).st = .live → tm.final = false →
            (f tk).wake = some (tm.next, false)) : TNIx t0 cfgs none σ' := by
  refine ⟨?_, ?_, ?_, ?_⟩
  · intro j tm htm; rw [h1] at htm; exact hx.next j tm htm
  · intro u j tk' tm htk' hkind htm
    rw [h1] at htm
    rw [h3, List.getElem?_modify] at htk'
    cases hu : σ.tasks[u]? with
    | none => simp [hu] at htk'
    | some tk0 =>
      simp only [hu, Option.map_eq_map, Option.map_some, Option.some.injEq] at htk'
      by_cases e : t = u
      · subst e
        simp only [if_true] at htk'; subst htk'
        have hk0 : tk0.kind = .timer j := by rw [← hk]; exact hkind
        refine ⟨by rw [hrf]; exact (hx.task t j tk0 tm hu hk0 htm).1, fun _ hl hf _ => ht tk0 j tm hu hk0 htm hl hf⟩
      · simp only [e, if_false] at htk'; subst htk'
        have := hx.task u j tk0 tm hu hkind htm
        exact ⟨this.1, fun _ => this.2 (by simp; exact fun h => e h)⟩
  · intro u n x hm
    rw [h2] at hm
    obtain ⟨j, c, hkd, hc, hb⟩ := hx.fires u n x hm
    exact ⟨j, c, by rw [h3, kdL_modify_kind hk]; exact hkd, hc, hb⟩
  · intro u j tk' htk' hkind
    rw [h3, List.getElem?_modify] at htk'
    cases hu : σ.tasks[u]? with
    | none => simp [hu] at htk'
    | some tk0 =>
      simp only [hu, Option.map_eq_map, Option.map_some, Option.some.injEq] at htk'
      by_cases e : t = u
      · simp only [e, if_true] at htk'; subst htk'
        rw [hrf]; exact hx.rf u j tk0 hu (by rw [← hk]; exact hkind)
      · simp only [e, if_false] at htk'; subst htk'
        exact hx.rf u j tk0 hu hkind

/-- the exempt timer task's timer record is rewritten, possibly with a firing -/
theorem TNIx.setTimer {t0 cfgs} {σ σ' : St} {t j : Nat} {tm : TimerSt} (f : TimerSt → TimerSt) (tm' : TimerSt) (hf : f tm = tm') (hx : TNIx t0 cfgs (some t) σ)
    (huniq : ∀ u tku, σ.tasks[u]? = some tku → tku.kind = .timer j → u = t)
    (htm : σ.timers[j]? = some tm) (h1 : σ'.timers = σ.timers.modify j f) (h3 : σ'.tasks = σ.tasks)
    (hcfg : tm'.cfg = tm.cfg)
    (hb : ∀ c, tm.cfg = c → t0 + c.delay + tm.fired * ivl c ≤ tm.next → t0 + c.delay + tm'.fired * ivl c ≤ tm'.next)
    (h2 : σ'.trace = σ.trace ∨ ∃ n x, σ'.trace = σ.trace ++ [.fire t n x] ∧ kdL σ.tasks t = some (.timer j) ∧
            ∀ c, tm.cfg = c → t0 + c.delay + tm.fired * ivl c ≤ tm.next → t0 + c.delay + n * ivl c ≤ x) :
    TNIx t0 cfgs (some t) σ' := by
  obtain ⟨c0, hc0, hcfg0, hb0⟩ := hx.next j tm htm
  refine ⟨?_, ?_, ?_, fun u i tk' htk' hkind => hx.rf u i tk' (by rw [← h3]; exact htk') hkind⟩
  · intro i m hm
    rw [h1, List.getElem?_modify] at hm
    by_cases e : j = i
    · subst e
      simp only [htm, Option.map_eq_map, Option.map_some, if_true, Option.some.injEq] at hm; subst hm
      rw [hf]
      exact ⟨c0, hc0, hcfg.trans hcfg0, hb c0 hcfg0 hb0⟩
    · cases hi : σ.timers[i]? with
      | none => simp [hi] at hm
      | some mi => simp [hi, e] at hm; subst hm; exact hx.next i mi hi
  · intro u i tk' m htk' hkind hm
    rw [h3] at htk'
    rw [h1, List.getElem?_modify] at hm
    by_cases e : j = i
    · subst e
      have : u = t := huniq u tk' htk' hkind
      subst this
      exact ⟨(hx.task u j tk' tm htk' hkind htm).1, fun hne => absurd rfl hne⟩
    · cases hi : σ.timers[i]? with
      | none => simp [hi] at hm
      | some mi => simp [hi, e] at hm; subst hm; exact hx.task u i tk' mi htk' hkind hi
  · intro u n x hm
    rcases h2 with h2 | ⟨n0, x0, h2, hkt, hbf⟩
    · rw [h2] at hm
      obtain ⟨i, c, hkd, hc, hb'⟩ := hx.fires u n x hm
      exact ⟨i, c, by rw [h3]; exact hkd, hc, hb'⟩
    · rw [h2] at hm
      rcases List.mem_append.mp hm with hm | hm
      · obtain ⟨i, c, hkd, hc, hb'⟩ := hx.fires u n x hm
        exact ⟨i, c, by rw [h3]; exact hkd, hc, hb'⟩
      · simp only [List.mem_singleton, Ev.fire.injEq] at hm
        obtain ⟨rfl, rfl, rfl⟩ := hm
        exact ⟨j, c0, by rw [h3]; exact hkt, hc0, hbf c0 hcfg0 hb0⟩

theorem doYield_sleepAbs_frame (σ : St) (t w : Nat) :
    (doYield σ t (.sleepAbs w)).tasks = σ.tasks.modify t (fun k => { k with wake := some (w, false) }) ∧
    (doYield σ t (.sleepAbs w)).timers = σ.timers ∧ (doYield σ t (.sleepAbs w)).trace = σ.trace := by
  simp only [doYield]
  split
  · unfold fastSchedule; split <;> exact ⟨rfl, rfl, rfl⟩
  · exact ⟨by simp [registerSelect, HubEntry.hasFds], rfl, rfl⟩


theorem timerStep_tni {t0 cfgs} (σ : St) (t j pc : Nat) (tm : TimerSt) (tk2 : Task)
    (hx : TNIx t0 cfgs (some t) σ)
    (huniq : ∀ u tku, σ.tasks[u]? = some tku → tku.kind = .timer j → u = t)
    (htm : σ.timers[j]? = some tm) (ht2 : σ.tasks[t]? = some tk2) (hk2 : tk2.kind = .timer j)
    (hdue : pc ≠ 0 → tm.final = false → tm.next ≤ σ.now) :
    TNIx t0 cfgs none (timerStep σ t j pc) := by
  have hkd : kdL σ.tasks t = some (.timer j) := by simp [kdL, ht2, hk2]
  unfold Pox.Recoco.timerStep
  simp only [htm]
  split
  · rename_i hfin
    refine TNIx.finish (fun k => { k with st := .done }) hx rfl rfl rfl (fun _ => rfl) (fun _ => rfl) ?_
    intro tk j' tm' _ _ _ hl; cases hl
  · rename_i hfin
    split
    · refine TNIx.finish (t := t) id (σ := { σ with timers := σ.timers.modify j (fun m => { m with final := true }) }) ?_ rfl rfl (by simp) (fun _ => rfl) (fun _ => rfl) ?_
      · exact TNIx.setTimer (fun m => { m with final := true }) { tm with final := true } rfl hx huniq htm rfl rfl rfl (fun c _ h => h) (Or.inl rfl)
      · intro tk j' tm' htk hkj htm' _ hf
        rw [ht2] at htk; cases htk
        rw [hk2] at hkj; cases hkj
        simp [List.getElem?_modify, htm] at htm'; subst htm'; cases hf
    · split
      · obtain ⟨h1, h2, h3⟩ := doYield_sleepAbs_frame σ t tm.next
        refine TNIx.finish _ hx h2 h3 h1 (fun _ => rfl) (fun _ => rfl) ?_
        intro tk j' tm' htk hkj htm' _ _
        rw [ht2] at htk; cases htk
        rw [hk2] at hkj; cases hkj
        rw [htm] at htm'; cases htm'; rfl
      · rename_i hcan hpc
        have hnext : tm.next ≤ σ.now := hdue hpc (by simpa using hfin)
        have hx3 : TNIx t0 cfgs (some t) { σ with
              timers := σ.timers.modify j (fun m => { m with
                next := σ.now + (if tm.cfg.recurring then tm.cfg.delay else 0), fired := m.fired + 1 }),
              trace := σ.trace ++ [.fire t tm.fired σ.now] } := by
          refine TNIx.setTimer _ { tm with next := σ.now + (if tm.cfg.recurring then tm.cfg.delay else 0), fired := tm.fired + 1 } rfl hx huniq htm rfl rfl rfl ?_ (Or.inr ⟨tm.fired, σ.now, rfl, hkd, ?_⟩)
          · intro c hc hb; subst hc
            simp only [ivl] at hb ⊢
            rw [Nat.add_mul]; omega
          · intro c hc hb; omega
        have htm3 : ({ σ with
              timers := σ.timers.modify j (fun m => { m with
                next := σ.now + (if tm.cfg.recurring then tm.cfg.delay else 0), fired := m.fired + 1 }),
              trace := σ.trace ++ [.fire t tm.fired σ.now] } : St).timers[j]? =
            some { tm with next := σ.now + (if tm.cfg.recurring then tm.cfg.delay else 0), fired := tm.fired + 1 } := by
          simp [List.getElem?_modify, htm]
        split
        · refine TNIx.finish (t := t) id (σ := { σ with
              timers := (σ.timers.modify j (fun m => { m with
                next := σ.now + (if tm.cfg.recurring then tm.cfg.delay else 0), fired := m.fired + 1 })).modify j (fun m => { m with final := true }),
              trace := σ.trace ++ [.fire t tm.fired σ.now] }) ?_ rfl rfl (by simp) (fun _ => rfl) (fun _ => rfl) ?_
          · exact TNIx.setTimer (fun m => { m with final := true }) _ rfl hx3 huniq htm3 rfl rfl rfl (fun c _ h => h) (Or.inl rfl)
          · intro tk j' tm' htk hkj htm' _ hf
            rw [ht2] at htk; cases htk
            rw [hk2] at hkj; cases hkj
            simp [List.getElem?_modify, htm] at htm'; subst htm'; cases hf
        · obtain ⟨h1, h2, h3⟩ := doYield_sleepAbs_frame { σ with
              timers := σ.timers.modify j (fun m => { m with
                next := σ.now + (if tm.cfg.recurring then tm.cfg.delay else 0), fired := m.fired + 1 }),
              trace := σ.trace ++ [.fire t tm.fired σ.now] } t (σ.now + (if tm.cfg.recurring then tm.cfg.delay else 0))
          refine TNIx.finish _ hx3 h2 h3 h1 (fun _ => rfl) (fun _ => rfl) ?_
          intro tk j' tm' htk hkj htm' _ _
          rw [ht2] at htk; cases htk
          rw [hk2] at hkj; cases hkj
          rw [htm3] at htm'; cases htm'; rfl


theorem timerStep_tni' {t0 cfgs} (σ : St) (t j pc : Nat) (tk2 : Task)
    (hx : TNIx t0 cfgs (some t) σ)
    (huniq : ∀ u tku, σ.tasks[u]? = some tku → tku.kind = .timer j → u = t)
    (ht2 : σ.tasks[t]? = some tk2) (hk2 : tk2.kind = .timer j)
    (hdue : ∀ tm, σ.timers[j]? = some tm → pc ≠ 0 → tm.final = false → tm.next ≤ σ.now) :
    TNIx t0 cfgs none (timerStep σ t j pc) := by
  cases htm : σ.timers[j]? with
  | some tm => exact timerStep_tni σ t j pc tm tk2 hx huniq htm ht2 hk2 (hdue tm htm)
  | none =>
    unfold Pox.Recoco.timerStep
    simp only [htm]
    refine TNIx.finish (t := t) id hx rfl rfl (by simp) (fun _ => rfl) (fun _ => rfl) ?_
    intro tk j' tm' htk hkj htm'
    rw [ht2] at htk; cases htk
    rw [hk2] at hkj; cases hkj
    rw [htm] at htm'; cases htm'

/-- the step of task `t` begins: its record is being rewritten, the trace gains no firing -/
theorem TNIx.start {t0 cfgs} {ex : Option Nat} {σ σ' : St} {t : Nat} (f : Task → Task) (hx : TNIx t0 cfgs ex σ)
    (hex : ∀ u, ex = some u → u = t)
    (h1 : σ'.timers = σ.timers) (h2 : ∀ u n x, Ev.fire u n x ∈ σ'.trace → Ev.fire u n x ∈ σ.trace)
    (h3 : σ'.tasks = σ.tasks.modify t f)
    (hk : ∀ k, (f k).kind = k.kind) (hrf : ∀ k, (f k).rf = k.rf) : TNIx t0 cfgs (some t) σ' := by
  refine ⟨?_, ?_, ?_, ?_⟩
  · intro j tm htm; rw [h1] at htm; exact hx.next j tm htm
  · intro u j tk' tm htk' hkind htm
    rw [h1] at htm
    rw [h3, List.getElem?_modify] at htk'
    cases hu : σ.tasks[u]? with
    | none => simp [hu] at htk'
    | some tk0 =>
      simp only [hu, Option.map_eq_map, Option.map_some, Option.some.injEq] at htk'
      by_cases e : t = u
      · subst e
        simp only [if_true] at htk'; subst htk'
        have hk0 : tk0.kind = .timer j := by rw [← hk]; exact hkind
        exact ⟨by rw [hrf]; exact (hx.task t j tk0 tm hu hk0 htm).1, fun hne => absurd rfl hne⟩
      · simp only [e, if_false] at htk'; subst htk'
        have := hx.task u j tk0 tm hu hkind htm
        exact ⟨this.1, fun _ => this.2 (fun h' => e (hex u h').symm)⟩
  · intro u n x hm
    obtain ⟨j, c, hkd, hc, hb⟩ := hx.fires u n x (h2 u n x hm)
    exact ⟨j, c, by rw [h3, kdL_modify_kind hk]; exact hkd, hc, hb⟩
  · intro u j tk' htk' hkind
    rw [h3, List.getElem?_modify] at htk'
    cases hu : σ.tasks[u]? with
    | none => simp [hu] at htk'
    | some tk0 =>
      simp only [hu, Option.map_eq_map, Option.map_some, Option.some.injEq] at htk'
      by_cases e : t = u
      · simp only [e, if_true] at htk'; subst htk'
        rw [hrf]; exact hx.rf u j tk0 hu (by rw [← hk]; exact hkind)
      · simp only [e, if_false] at htk'; subst htk'
        exact hx.rf u j tk0 hu hkind

/-- the generator stage of a timer task whose wake time has passed -/
theorem tni_resume_timer {t0 cfgs} (cfg : Cfg) {s : St} (h : TNIx t0 cfgs none s) (hfi : FI s) (t j : Nat) (tk : Task)
    (htk : s.tasks[t]? = some tk) (hkind : tk.kind = .timer j) (hlive : tk.st = .live)
    (hdue : ∀ w, tk.wake = some (w, false) → w ≤ s.now)
    (g : Task → Task) (hg : ∀ k, (g k).kind = k.kind ∧ (g k).pc = k.pc ∧ (g k).rf = k.rf)
    (r : Recv) (raw : Val) :
    TNIx t0 cfgs none (resumeGen cfg (setTask { s with running := none } t g) t (g tk) r raw) := by
  have hgk : (g tk).kind = .timer j := by rw [(hg tk).1]; exact hkind
  unfold Pox.Recoco.resumeGen
  simp only [hgk]
  have hx1 : TNIx t0 cfgs (some t) (setTask { s with running := none } t g) :=
    TNIx.start g h (fun _ h' => by cases h') rfl (fun _ _ _ h' => h') rfl (fun k => (hg k).1) (fun k => (hg k).2.2)
  have hx2 : TNIx t0 cfgs (some t) { setTask (setTask { s with running := none } t g) t (fun k => { k with pc := k.pc + 1, wake := none }) with
      trace := (setTask { s with running := none } t g).trace ++ [.step t (g tk).pc (setTask { s with running := none } t g).now r raw (g tk).wake] } := by
    refine TNIx.start (fun k => { k with pc := k.pc + 1, wake := none }) hx1 (fun _ h' => by cases h'; rfl) rfl ?_ rfl (fun _ => rfl) (fun _ => rfl)
    intro u n x hm
    rcases List.mem_append.mp hm with hm | hm
    · exact hm
    · simp at hm
  refine timerStep_tni' _ t j _ { g tk with pc := (g tk).pc + 1, wake := none } hx2 ?_ ?_ hgk ?_
  · intro u tku hu hku
    have h1 : kdL s.tasks u = some (.timer j) := by
      have := kdL_of_get hu
      simp only [setTask_tasks] at this
      rw [kdL_modify_kind (f := fun k => { k with pc := k.pc + 1, wake := none }) (fun _ => rfl), kdL_modify_kind (fun k => (hg k).1), hku] at this
      exact this
    exact hfi.uniq u t j h1 (by rw [kdL_of_get htk, hkind])
  · simp [List.getElem?_modify, htk]
  · intro tm htm hpc hfin
    have htm' : s.timers[j]? = some tm := htm
    have := (h.task t j tk tm htk hkind htm').2 (by simp) hlive hfin (by rw [(hg tk).2.1] at hpc; omega)
    exact hdue tm.next this

/-- a cycle that runs a timer task whose wake time has passed -/
theorem TNIx.cycle_timer {t0 cfgs} (cfg : Cfg) {s : St} (h : TNIx t0 cfgs none s) (hfi : FI s) (t j : Nat) (tk : Task)
    (hr : s.running = some t) (htk : s.tasks[t]? = some tk) (hkind : tk.kind = .timer j) (hlive : tk.st = .live)
    (hdue : ∀ w, tk.wake = some (w, false) → w ≤ s.now) : TNIx t0 cfgs none (Pox.Recoco.cycleExec cfg s) := by
  have hrf := h.rf t j tk htk hkind
  have htk' : ({ s with running := none } : St).tasks[t]? = some tk := htk
  unfold Pox.Recoco.cycleExec
  simp only [hr, htk']
  unfold Pox.Recoco.execPre
  simp only [hrf]
  cases hre : tk.re with
  | none =>
    simp only [setTask_tasks, List.getElem?_modify, htk, if_true, Option.map_eq_map, Option.map_some]
    exact tni_resume_timer cfg h hfi t j tk htk hkind hlive hdue (fun k => { k with rv := .none }) (fun _ => ⟨rfl, rfl, rfl⟩) _ _
  | some e =>
    simp only [setTask_tasks, List.getElem?_modify, htk, if_true, Option.map_eq_map, Option.map_some]
    exact tni_resume_timer cfg h hfi t j tk htk hkind hlive hdue (fun k => { k with re := none }) (fun _ => ⟨rfl, rfl, rfl⟩) _ _


theorem TNIx.same {t0 cfgs ex} {σ σ' : St} (h : TNIx t0 cfgs ex σ) (h1 : σ'.tasks = σ.tasks) (h2 : σ'.timers = σ.timers)
    (h3 : σ'.trace = σ.trace) : TNIx t0 cfgs ex σ' :=
  ⟨fun j tm htm => h.next j tm (by rw [← h2]; exact htm),
   fun t j tk tm htk hk htm => h.task t j tk tm (by rw [← h1]; exact htk) hk (by rw [← h2]; exact htm),
   fun t n x hm => by rw [h1]; exact h.fires t n x (by rw [← h3]; exact hm),
   fun t j tk htk hk => h.rf t j tk (by rw [← h1]; exact htk) hk⟩

theorem TNIx.cycle {t0 cfgs} (cfg : Cfg) {s : St} (hi : Inv s) (hne : NE s) (hfi : FI s) (h : TNIx t0 cfgs none s) :
    TNIx t0 cfgs none (Pox.Recoco.cycle cfg s) := by
  cases hl : lottery s.tasks s.draws s.ready with
  | none =>
    have e : Pox.Recoco.cycle cfg s = { s with cycles := s.cycles + 1 } := by
      simp [Pox.Recoco.cycle, cyclePop, hne.1, hl, Pox.Recoco.cycleExec]
    rw [e]; exact h.same rfl rfl rfl
  | some res =>
    obtain ⟨t, rest, ds'⟩ := res
    rw [cycle_pop cfg s t rest ds' hne.1 hl]
    have hp : TNIx t0 cfgs none (popped s t rest ds') := h.same rfl rfl rfl
    have hfp : FI (popped s t rest ds') := hfi.nf (NF.same rfl rfl rfl)
    have hmem : t ∈ s.ready := (lottery_perm _ _ _ hl).mem_iff.mp List.mem_cons_self
    cases htk : s.tasks[t]? with
    | none =>
      have htk' : ({ popped s t rest ds' with running := none } : St).tasks[t]? = none := htk
      have e : Pox.Recoco.cycleExec cfg (popped s t rest ds') = { { popped s t rest ds' with running := none } with crashed := true } := by
        simp only [Pox.Recoco.cycleExec, popped, htk]
      rw [e]; exact hp.same rfl rfl rfl
    | some tk =>
      have htkp : (popped s t rest ds').tasks[t]? = some tk := htk
      by_cases hk : ∃ j, tk.kind = .timer j
      · obtain ⟨j, hk⟩ := hk
        refine hp.cycle_timer cfg hfp t j tk rfl htkp hk ?_ ?_
        · have := hi.ready_live hmem
          simpa [stL, htk] using this
        · intro w hw
          exact hne.2.1.ready t (by simpa using hmem) w false (by simp [wkL, htk, hw]) (Or.inl rfl)
      · exact hp.cycle_nt cfg t tk rfl htkp (fun j hj => hk ⟨j, hj⟩)

theorem TNIx.iter {t0 cfgs} (cfg : Cfg) {s : St} (hi : Inv s) (hne : NE s) (hfi : FI s) (h : TNIx t0 cfgs none s) :
    TNIx t0 cfgs none (Pox.Recoco.iter cfg s) := by
  unfold Pox.Recoco.iter
  have h1 := h.idle cfg
  have hi1 := hi.idleStep cfg
  have hne1 := hne.idleStep cfg hi
  have hfi1 : FI (idleStep cfg s) := by
    have hf := HubFr.idleStep cfg s
    refine hfi.nf ⟨⟨[], ?_, by simp⟩, by rw [hf.timers], fun _ => by rw [hf.trace]⟩
    have e : ∀ l : List Task, l.map (·.kind) = (l.map eraseRv).map (·.kind) := by intro l; simp [eraseRv]
    rw [List.append_nil, e, e s.tasks, hf.tasks]
  split
  · exact h
  · simp only []
    split
    · exact h1
    · exact h1.cycle cfg hi1 hne1 hfi1

theorem TNIx.run {t0 cfgs} (cfg : Cfg) : ∀ (n : Nat) {s : St}, Inv s → NE s → FI s → TNIx t0 cfgs none s →
    TNIx t0 cfgs none (Pox.Recoco.run cfg n s)
  | 0, _, _, _, _, h => h
  | n + 1, _, hi, hne, hfi, h => TNIx.run cfg n (hi.iter cfg) (hne.iter cfg hi) (hfi.iter cfg) (h.iter cfg hi hne hfi)

theorem TNIx.init (t0 : Nat) (tasks : List Nat) (timers : List TimerCfg) (ss rs : List (Option Nat)) (ps ds : List Nat) :
    TNIx t0 timers none (initSt t0 tasks timers ss rs ps ds) := by
  have hall : ∀ (t : Nat) (tk : Task), (initSt t0 tasks timers ss rs ps ds).tasks[t]? = some tk → tk.rf = none ∧ tk.pc = 0 := by
    intro t tk h0
    have h : ((initSt t0 tasks timers ss rs ps ds).tasks.map (fun k => (k.rf, k.pc)))[t]? = some (tk.rf, tk.pc) := by simp [h0]
    rw [initSt_view (fun k => (k.rf, k.pc)) (fun _ _ => rfl)] at h
    simp only [List.getElem?_append, List.length_map, List.getElem?_map, List.length_range] at h
    split at h
    · cases hx : tasks[t]? with
      | none => simp [hx] at h
      | some _ => simp [hx] at h; exact ⟨h.1.symm, h.2.symm⟩
    · cases hx : (List.range timers.length)[t - tasks.length]? with
      | none => simp [hx] at h
      | some _ => simp [hx] at h; exact ⟨h.1.symm, h.2.symm⟩
  refine ⟨?_, ?_, ?_, ?_⟩
  · intro j tm htm
    simp only [initSt, List.getElem?_map] at htm
    cases hc : timers[j]? with
    | none => simp [hc] at htm
    | some c =>
      simp only [hc, Option.map_some, Option.some.injEq] at htm; subst htm
      exact ⟨c, rfl, rfl, by simp⟩
  · intro t j tk tm htk _ _
    obtain ⟨h1, h2⟩ := hall t tk htk
    exact ⟨h1, fun _ _ _ hp => by omega⟩
  · intro t n x hm; simp [initSt] at hm
  · intro t j tk htk _; exact (hall t tk htk).1

/-- **a timer never fires early**: the `n`-th firing (counted from 0) of a timer with delay `d` happens at or after
    `t0 + d` (one-shot, or first firing) resp. `t0 + d + n * d` (recurring) -/
theorem timer_not_early (cfg : Cfg) (t0 : Nat) (tasks : List Nat) (timers : List TimerCfg) (ss rs : List (Option Nat)) (ps ds : List Nat)
    (n : Nat) (t k x : Nat) (h : Ev.fire t k x ∈ (Pox.Recoco.run cfg n (initSt t0 tasks timers ss rs ps ds)).trace) :
    ∃ j c, kdL (Pox.Recoco.run cfg n (initSt t0 tasks timers ss rs ps ds)).tasks t = some (.timer j) ∧ timers[j]? = some c ∧
      t0 + c.delay + k * ivl c ≤ x :=
  (TNIx.run cfg n (Inv.init t0 tasks timers ss rs ps ds) (NE.init t0 tasks timers ss rs ps ds) (FI.init t0 tasks timers ss rs ps ds)
    (TNIx.init t0 tasks timers ss rs ps ds)).fires t k x h


/-! ## Part 11: whole-cycle forms of the generator-stage lemmas (task without a return function) -/

theorem execPre_rfnone (cfg : Cfg) (s : St) (t : Nat) (tk : Task) (hrf : tk.rf = none) :
    ∃ g : Task → Task, execPre cfg s t tk = (.resume (pendingRecv tk), setTask s t g) ∧ ∀ k, ctl2 (g k) = ctl2 k := by
  unfold execPre pendingRecv
  simp only [hrf]
  cases tk.re with
  | none => exact ⟨_, rfl, fun _ => rfl⟩
  | some e => exact ⟨_, rfl, fun _ => rfl⟩

/-- a cycle whose lottery picks `t` (no return function pending) is: pop `t`, clear what is pending, resume the generator -/
theorem cycle_resume_plain (cfg : Cfg) (s : St) (t : Nat) (rest ds' : List Nat) (tk : Task) (hrun : s.running = none)
    (hpop : lottery s.tasks s.draws s.ready = some (t, rest, ds')) (htk : s.tasks[t]? = some tk) (hrf : tk.rf = none) :
    ∃ g : Task → Task, (∀ k, ctl2 (g k) = ctl2 k) ∧
      cycle cfg s = resumeGen cfg (setTask { popped s t rest ds' with running := none } t g) t (g tk) (pendingRecv tk) tk.rv := by
  obtain ⟨g, hpre, hg⟩ := execPre_rfnone cfg { popped s t rest ds' with running := none } t tk hrf
  refine ⟨g, hg, ?_⟩
  rw [cycle_pop cfg s t rest ds' hrun hpop]
  exact cycleExec_resume cfg (popped s t rest ds') _ t tk (g tk) _ rfl htk hpre (by simp [popped, List.getElem?_modify, htk])

theorem cycle_raise (cfg : Cfg) (s : St) (t : Nat) (rest ds' : List Nat) (tk : Task) (k : Nat) (prog : List Y) (e : Exc)
    (hrun : s.running = none) (hpop : lottery s.tasks s.draws s.ready = some (t, rest, ds')) (htk : s.tasks[t]? = some tk)
    (hkind : tk.kind = .top k) (hprog : cfg.progs[k]? = some prog) (hrf : tk.rf = none)
    (hraise : genStep s.timers.length prog tk.pc (pendingRecv tk) = .raise e) :
    let s' := cycle cfg s
    s'.ready = rest ∧ s'.running = none ∧ s'.incoming = s.incoming ∧ s'.hub = s.hub ∧ s'.now = s.now ∧
    s'.hasQuit = s.hasQuit ∧ s'.crashed = s.crashed ∧ s'.timers = s.timers ∧
    (∀ u, u ≠ t → s'.tasks[u]? = s.tasks[u]?) ∧ stL s'.tasks t = some .dead ∧
    s'.trace = s.trace ++ [.step t tk.pc s.now (pendingRecv tk) tk.rv tk.wake] := by
  obtain ⟨g, hg, hc⟩ := cycle_resume_plain cfg s t rest ds' tk hrun hpop htk hrf
  have h2 := hg tk
  simp only [ctl2, Prod.mk.injEq] at h2
  obtain ⟨hk, hpc, _, hwk, _, _⟩ := h2
  have h1 := resumeGen_raise cfg (setTask { popped s t rest ds' with running := none } t g) t (g tk) k prog e (pendingRecv tk) tk.rv
    (by simp [popped, List.getElem?_modify, htk]) (by rw [hk]; exact hkind) hprog (by rw [hpc]; exact hraise)
  simp only [] at h1 ⊢
  rw [hc]
  obtain ⟨a1, a2, a3, a4, a5, a6, a7, a8, a9, a10, a11⟩ := h1
  refine ⟨a1, a2, a3, a4, a5, a6, a7, a8, ?_, a10, ?_⟩
  · intro u hu
    rw [a9 u hu]
    exact getElem?_modify_ne' hu
  · rw [a11, hpc, hwk]; rfl

theorem cycle_final (cfg : Cfg) (s : St) (c p k : Nat) (rest ds' : List Nat) (tk ptk : Task) (prog : List Y)
    (hrun : s.running = none) (hpop : lottery s.tasks s.draws s.ready = some (c, rest, ds')) (htk : s.tasks[c]? = some tk)
    (hkind : tk.kind = .sub k p) (hprog : cfg.progs[k]? = some prog) (hrf : tk.rf = none)
    (hp : s.tasks[p]? = some ptk) (hpc : p ≠ c) (hnr : p ∉ rest)
    (hfin : (genStep s.timers.length prog tk.pc (pendingRecv tk)).final = true) :
    let s' := cycle cfg s
    let o := genStep s.timers.length prog tk.pc (pendingRecv tk)
    s'.ready = p :: rest ∧ s'.running = none ∧ s'.incoming = s.incoming ∧ s'.hub = s.hub ∧ s'.now = s.now ∧
    s'.tasks[p]? = some (deliver cfg.fixEmptySub o tk.pc (if tk.pc = 0 then { ptk with rv := .none } else ptk)) ∧
    (∀ u, u ≠ c → u ≠ p → s'.tasks[u]? = s.tasks[u]?) ∧ stL s'.tasks c = some .done ∧
    s'.trace = s.trace ++ [.step c tk.pc s.now (pendingRecv tk) tk.rv tk.wake] := by
  obtain ⟨g, hg, hc⟩ := cycle_resume_plain cfg s c rest ds' tk hrun hpop htk hrf
  have h2 := hg tk
  simp only [ctl2, Prod.mk.injEq] at h2
  obtain ⟨hk, hpc', _, hwk, _, _⟩ := h2
  have h1 := resumeGen_final cfg (setTask { popped s c rest ds' with running := none } c g) c p k (g tk) ptk prog (pendingRecv tk) tk.rv
    (by simp [popped, List.getElem?_modify, htk]) (by rw [hk]; exact hkind) hprog
    (by simp only [setTask_tasks, popped]; rw [getElem?_modify_ne' hpc]; exact hp) hpc hnr (by rw [hpc']; exact hfin)
  simp only [] at h1 ⊢
  rw [hc]
  obtain ⟨a1, a2, a3, a4, a5, a6, a7, a8, a9⟩ := h1
  refine ⟨a1, a2, a3, a4, a5, ?_, ?_, a8, ?_⟩
  · rw [a6, hpc']; rfl
  · intro u hu hup
    rw [a7 u hu hup]
    exact getElem?_modify_ne' hu
  · rw [a9, hpc', hwk]; rfl


theorem cycle_event (cfg : Cfg) (s : St) (t : Nat) (rest ds' : List Nat) (tk : Task) (prog : List Y)
    (hrun : s.running = none) (hpop : lottery s.tasks s.draws s.ready = some (t, rest, ds')) (htk : s.tasks[t]? = some tk)
    (hrf : tk.rf = none) (hprog : progOf cfg tk.kind = some prog) :
    (cycle cfg s).trace = s.trace ++ [.step t tk.pc s.now (pendingRecv tk) tk.rv tk.wake] := by
  obtain ⟨g, hg, hc⟩ := cycle_resume_plain cfg s t rest ds' tk hrun hpop htk hrf
  have h2 := hg tk
  simp only [ctl2, Prod.mk.injEq] at h2
  obtain ⟨hk, hpc, _, hwk, _, _⟩ := h2
  rw [hc, resumeGen_event cfg _ t (g tk) prog _ _ (by rw [hk]; exact hprog), hpc, hwk]; rfl

/-- the wake time noted for a top-level task after its step is the one its yield asked for -/
theorem cycle_wake (cfg : Cfg) (s : St) (t : Nat) (rest ds' : List Nat) (tk : Task) (k : Nat) (prog : List Y) (y : Y)
    (hrun : s.running = none) (hpop : lottery s.tasks s.draws s.ready = some (t, rest, ds')) (htk : s.tasks[t]? = some tk)
    (hkind : tk.kind = .top k) (hprog : cfg.progs[k]? = some prog) (hrf : tk.rf = none)
    (hy : genStep s.timers.length prog tk.pc (pendingRecv tk) = .yield y) :
    wkL (cycle cfg s).tasks t = reqWake s.now y := by
  obtain ⟨g, hg, hc⟩ := cycle_resume_plain cfg s t rest ds' tk hrun hpop htk hrf
  have h2 := hg tk
  simp only [ctl2, Prod.mk.injEq] at h2
  obtain ⟨hk, hpc, _, _, _, _⟩ := h2
  rw [hc]
  exact resumeGen_wake cfg (setTask { popped s t rest ds' with running := none } t g) t (g tk) k prog y _ _
    (by simp [popped, List.getElem?_modify, htk]) (by rw [hk]; exact hkind) hprog (by rw [hpc]; exact hy)

/-- the return function of the popped task raises (`Recv`/`Send` on something that is not a select result, or D25): the
    generator is not resumed, the task is descheduled, nothing else changes (the scripts excepted) -/
theorem cycle_rf_raised (cfg : Cfg) (s s1 : St) (t : Nat) (rest ds' : List Nat) (tk : Task) (e : Exc)
    (hrun : s.running = none) (hpop : lottery s.tasks s.draws s.ready = some (t, rest, ds')) (htk : s.tasks[t]? = some tk)
    (hpre : execPre cfg { popped s t rest ds' with running := none } t tk = (.raised e, s1)) :
    let s' := cycle cfg s
    s'.ready = rest ∧ s'.running = none ∧ s'.incoming = s.incoming ∧ s'.hub = s.hub ∧ s'.now = s.now ∧
    s'.hasQuit = s.hasQuit ∧ s'.crashed = s.crashed ∧ s'.timers = s.timers ∧
    (∀ u, u ≠ t → s'.tasks[u]? = s.tasks[u]?) ∧ stL s'.tasks t = some .dead ∧ s'.trace = s.trace := by
  have hs := execPre_same cfg { popped s t rest ds' with running := none } t tk htk _ _ hpre (by simp)
  simp only []
  rw [cycle_pop cfg s t rest ds' hrun hpop, cycleExec_raised cfg (popped s t rest ds') s1 t tk e rfl htk hpre]
  refine ⟨hs.ready, hs.running, hs.incoming, hs.hub, hs.now, hs.hasQuit, hs.crashed, hs.timers, ?_, ?_, hs.trace⟩
  · intro u hu
    simp only [setStatus, setTask_tasks]
    rw [getElem?_modify_ne' hu]; exact hs.others u hu
  · have := hs.self
    simp only [setStatus, setTask_tasks, stL, List.getElem?_modify]
    cases h1 : s1.tasks[t]? with
    | none => simp [h1] at this
    | some _ => simp

theorem deliver_ctl (fx : Bool) (o : Out) (pc : Nat) (ptk : Task) :
    (deliver fx o pc ptk).kind = ptk.kind ∧ (deliver fx o pc ptk).pc = ptk.pc ∧ (deliver fx o pc ptk).rf = ptk.rf ∧
    (deliver fx o pc ptk).prio = ptk.prio ∧ (deliver fx o pc ptk).wake = ptk.wake := by
  cases o with
  | raise e => exact ⟨rfl, rfl, rfl, rfl, rfl⟩
  | stop => simp only [deliver]; split <;> exact ⟨rfl, rfl, rfl, rfl, rfl⟩
  | yield y => cases y <;> exact ⟨rfl, rfl, rfl, rfl, rfl⟩

/-- **the caller is resumed next, with the outcome** (caller priority >= 1): two cycles from a state whose lottery picks a
    sub-task that finishes -/
theorem again_then_caller (cfg : Cfg) (s : St) (c p k : Nat) (rest ds' : List Nat) (tk ptk : Task) (prog pprog : List Y)
    (hrun : s.running = none) (hpop : lottery s.tasks s.draws s.ready = some (c, rest, ds')) (htk : s.tasks[c]? = some tk)
    (hkind : tk.kind = .sub k p) (hprog : cfg.progs[k]? = some prog) (hrf : tk.rf = none)
    (hp : s.tasks[p]? = some ptk) (hpc : p ≠ c) (hnr : p ∉ rest)
    (hfin : (genStep s.timers.length prog tk.pc (pendingRecv tk)).final = true)
    (hprf : ptk.rf = none) (hpprog : progOf cfg ptk.kind = some pprog) (hprio : 8 ≤ ptk.prio) :
    let o := genStep s.timers.length prog tk.pc (pendingRecv tk)
    let ptk' := deliver cfg.fixEmptySub o tk.pc (if tk.pc = 0 then { ptk with rv := .none } else ptk)
    (cycle cfg (cycle cfg s)).trace =
      s.trace ++ [.step c tk.pc s.now (pendingRecv tk) tk.rv tk.wake, .step p ptk.pc s.now (pendingRecv ptk') ptk'.rv ptk.wake] := by
  obtain ⟨a1, a2, _, _, a5, a6, _, _, a9⟩ := cycle_final cfg s c p k rest ds' tk ptk prog hrun hpop htk hkind hprog hrf hp hpc hnr hfin
  simp only [] at a1 a2 a5 a6 a9 ⊢
  have hd := deliver_ctl cfg.fixEmptySub (genStep s.timers.length prog tk.pc (pendingRecv tk)) tk.pc (if tk.pc = 0 then { ptk with rv := .none } else ptk)
  have hbase : ∀ (f : Task → Nat), (f = Task.pc ∨ f = Task.prio) → f (if tk.pc = 0 then { ptk with rv := .none } else ptk) = f ptk := by
    intro f hf; split <;> rcases hf with rfl | rfl <;> rfl
  have hb1 : (if tk.pc = 0 then { ptk with rv := Val.none } else ptk).kind = ptk.kind := by split <;> rfl
  have hb2 : (if tk.pc = 0 then { ptk with rv := Val.none } else ptk).rf = ptk.rf := by split <;> rfl
  have hb3 : (if tk.pc = 0 then { ptk with rv := Val.none } else ptk).wake = ptk.wake := by split <;> rfl
  have hlot : lottery (cycle cfg s).tasks (cycle cfg s).draws (cycle cfg s).ready = some (p, rest, (cycle cfg s).draws) := by
    rw [a1]
    refine lottery_head _ _ _ _ ?_
    simp only [prioL, a6, hd.2.2.2.1, hbase Task.prio (.inr rfl)]
    exact hprio
  rw [cycle_event cfg (cycle cfg s) p rest _ _ pprog a2 hlot a6 (by rw [hd.2.2.1, hb2]; exact hprf) (by rw [hd.1, hb1]; exact hpprog),
    a9, a5, hd.2.1, hbase Task.pc (.inl rfl), hd.2.2.2.2, hb3]
  simp


/-! ## Part 12: the wake time recorded in a step event is the one the preceding yield asked for (trace level) -/

def Y.isSend : Y → Bool
  | .send _ _ _ _ => true
  | _ => false

def Rf.isSend : Rf → Bool
  | .send _ _ _ _ _ => true
  | _ => false

def evTid : Ev → Nat
  | .step t _ _ _ _ _ => t
  | .fire t _ _ => t

theorem genStep_yield_get {n : Nat} {prog : List Y} {pc : Nat} {r : Recv} {y : Y} (h : genStep n prog pc r = .yield y) :
    prog[pc]? = some y := by
  unfold genStep at h
  have key : ∀ o, (match prog[pc]? with
      | none => Out.stop
      | some (.raise n) => .raise (.user n)
      | some (.cancel j) => if j < n then .yield (.cancel j) else .raise .indexError
      | some y => .yield y) = o → o = .yield y → prog[pc]? = some y := by
    intro o ho hy
    cases hq : prog[pc]? with
    | none => rw [hq] at ho; subst ho; cases hy
    | some z =>
      rw [hq] at ho
      cases z <;> simp only [] at ho <;> subst ho <;> first
        | (cases hy; rfl)
        | cases hy
        | (split at hy <;> first | (cases hy; rfl) | cases hy)
  split at h
  · cases h
  · exact key _ rfl h

theorem timerStep_trace_ext (s : St) (t j pc : Nat) :
    ∃ ext, (timerStep s t j pc).trace = s.trace ++ ext ∧ ∀ e ∈ ext, evTid e = t := by
  unfold Pox.Recoco.timerStep
  split
  · exact ⟨[], by simp, by simp⟩
  · split
    · exact ⟨[], by simp, by simp⟩
    · split
      · exact ⟨[], by simp, by simp⟩
      · split
        · exact ⟨[], by simp, by simp⟩
        · simp only []
          rename_i tm _ _ _ _
          split
          · exact ⟨[.fire t tm.fired s.now], rfl, by simp [evTid]⟩
          · exact ⟨[.fire t tm.fired s.now], by simp, by simp [evTid]⟩

theorem resumeGen_trace_ext (cfg : Cfg) (s : St) (t : Nat) (tk : Task) (r : Recv) (raw : Val) :
    ∃ ext, (resumeGen cfg s t tk r raw).trace = s.trace ++ ext ∧ ∀ e ∈ ext, evTid e = t := by
  by_cases hk : ∀ j, tk.kind ≠ .timer j
  · exact ⟨_, resumeGen_trace_nt cfg s t tk r raw hk, by simp [evTid]⟩
  · have ⟨j, hj⟩ : ∃ j, tk.kind = .timer j := by
      cases h : tk.kind with
      | timer j => exact ⟨j, rfl⟩
      | top k => exact absurd (fun j => by rw [h]; simp) hk
      | sub k p => exact absurd (fun j => by rw [h]; simp) hk
    unfold Pox.Recoco.resumeGen
    simp only [hj]
    obtain ⟨ext, he, hx⟩ := timerStep_trace_ext { setTask s t (fun k => { k with pc := k.pc + 1, wake := none }) with
        trace := s.trace ++ [.step t tk.pc s.now r raw tk.wake] } t j tk.pc
    refine ⟨.step t tk.pc s.now r raw tk.wake :: ext, ?_, ?_⟩
    · rw [he]; simp
    · intro e hm
      rcases List.mem_cons.mp hm with rfl | hm
      · rfl
      · exact hx e hm

theorem cycleExec_trace_ext (cfg : Cfg) (s : St) (t : Nat) (hr : s.running = some t) :
    ∃ ext, (cycleExec cfg s).trace = s.trace ++ ext ∧ ∀ e ∈ ext, evTid e = t := by
  unfold Pox.Recoco.cycleExec
  simp only [hr]
  split
  · exact ⟨[], by simp, by simp⟩
  · rename_i tk htk
    have htr := execPre_trace cfg { s with running := none } t tk
    split
    · rename_i s1 he; rw [he] at htr
      exact ⟨[], by rw [List.append_nil]; exact htr, by simp⟩
    · rename_i e s1 he; rw [he] at htr
      exact ⟨[], by rw [List.append_nil]; exact htr, by simp⟩
    · rename_i r s1 he; rw [he] at htr
      have htr' : s1.trace = s.trace := htr
      split
      · exact ⟨[], by rw [List.append_nil]; exact htr', by simp⟩
      · rename_i tk1 _
        obtain ⟨ext, h1, h2⟩ := resumeGen_trace_ext cfg s1 t tk1 r tk.rv
        exact ⟨ext, by rw [h1, htr'], h2⟩


/-- `execute()` answers `ABORT` only for a `Send` that has to wait again; the task keeps a `Send` return function -/
theorem execPre_abort (cfg : Cfg) (s s1 : St) (t : Nat) (tk : Task) (ht : s.tasks[t]? = some tk)
    (h : execPre cfg s t tk = (.abort, s1)) :
    (∃ rf, tk.rf = some rf ∧ rf.isSend = true) ∧
    ∃ tk1, s1.tasks[t]? = some tk1 ∧ tk1.kind = tk.kind ∧ tk1.pc = tk.pc ∧ tk1.st = tk.st ∧ ∃ rf, tk1.rf = some rf ∧ rf.isSend = true := by
  unfold execPre at h
  simp only [] at h
  repeat' split at h
  all_goals
    simp only [Prod.mk.injEq] at h
    obtain ⟨h1, rfl⟩ := h
  all_goals try (cases h1)
  all_goals
    have hrf := ‹tk.rf = some _›
    refine ⟨⟨_, hrf, rfl⟩, ?_⟩
    simp [registerSelect, List.getElem?_modify, ht, hrf, Rf.isSend]


theorem execPre_resume_rf (cfg : Cfg) (s s1 : St) (t : Nat) (tk : Task) (r : Recv) (ht : s.tasks[t]? = some tk)
    (h : execPre cfg s t tk = (.resume r, s1)) : ∃ tk1, s1.tasks[t]? = some tk1 ∧ tk1.rf = none := by
  unfold execPre at h
  simp only [] at h
  repeat' split at h
  all_goals
    simp only [Prod.mk.injEq] at h
    obtain ⟨h1, rfl⟩ := h
  all_goals try (cases h1)
  all_goals first
    | (simp [List.getElem?_modify, ht]; done)
    | (have hrf := ‹tk.rf = none›
       simp [List.getElem?_modify, ht, hrf])

/-- the generator of a top-level task (no return function pending) yields `y`: what the task record looks like afterwards -/
theorem resumeGen_top_yield (cfg : Cfg) (s : St) (t : Nat) (tk : Task) (k : Nat) (prog : List Y) (y : Y) (r : Recv) (raw : Val)
    (htk : s.tasks[t]? = some tk) (hkind : tk.kind = .top k) (hprog : cfg.progs[k]? = some prog) (hrf : tk.rf = none)
    (hy : genStep s.timers.length prog tk.pc r = .yield y) :
    ∃ tk', (resumeGen cfg s t tk r raw).tasks[t]? = some tk' ∧ tk'.kind = .top k ∧ tk'.pc = tk.pc + 1 ∧
      tk'.wake = reqWake s.now y ∧ (∀ rf, tk'.rf = some rf → rf.isSend = true → y.isSend = true) := by
  have hw := resumeGen_wake cfg s t tk k prog y r raw htk hkind hprog hy
  have hlt : t < s.tasks.length := (List.getElem?_eq_some_iff.mp htk).1
  obtain ⟨kind, pc, rv, re, rf, st, wake, prio⟩ := tk
  simp only at hkind hy hrf
  subst hkind hrf
  simp only [resumeGen, hprog, setTask_timers, hy, topOut] at hw ⊢
  cases y with
  | num n => cases n <;> simp_all [doYield, registerSelect, List.getElem?_modify, wkL, Y.isSend]
  | block => simp_all [doYield, List.getElem?_modify, wkL]
  | sleep d =>
    cases d with
    | none => simp_all [doYield, List.getElem?_modify, wkL]
    | some d =>
      simp only [doYield] at hw ⊢
      split at hw
      · rename_i hc; simp only [hc, if_true] at ⊢
        unfold fastSchedule at hw ⊢
        split at hw <;> simp_all [List.getElem?_modify, wkL]
      · rename_i hc; simp only [hc, if_false] at ⊢
        simp_all [registerSelect, List.getElem?_modify, wkL]
  | sleepAbs w =>
    simp only [doYield] at hw ⊢
    split at hw
    · rename_i hc; simp only [hc, if_true] at ⊢
      unfold fastSchedule at hw ⊢
      split at hw <;> simp_all [List.getElem?_modify, wkL]
    · rename_i hc; simp only [hc, if_false] at ⊢
      simp_all [registerSelect, List.getElem?_modify, wkL]
  | select a b c to => simp_all [doYield, registerSelect, List.getElem?_modify, wkL]
  | recv fd to => simp_all [doYield, registerSelect, List.getElem?_modify, wkL, Rf.isSend]
  | send fd len to bs => simp_all [doYield, registerSelect, List.getElem?_modify, wkL, Y.isSend]
  | exit => simp_all [doYield, List.getElem?_modify, wkL]
  | raise n => simp_all [doYield, List.getElem?_modify, wkL]
  | again k2 c =>
    simp only [doYield] at hw ⊢
    unfold fastSchedule at hw ⊢
    split at hw <;> simp_all [List.getElem?_modify, wkL, List.getElem?_append_left]
  | cancel j => simp_all [doYield, cancelTimer, List.getElem?_modify, wkL]


theorem resumeGen_top_stop (cfg : Cfg) (s : St) (t : Nat) (tk : Task) (k : Nat) (prog : List Y) (r : Recv) (raw : Val)
    (htk : s.tasks[t]? = some tk) (hkind : tk.kind = .top k) (hprog : cfg.progs[k]? = some prog)
    (hy : genStep s.timers.length prog tk.pc r = .stop) : stL (resumeGen cfg s t tk r raw).tasks t = some .done := by
  obtain ⟨kind, pc, rv, re, rf, st, wake, prio⟩ := tk
  simp only at hkind hy
  subst hkind
  simp [resumeGen, hprog, hy, topOut, setStatus, stL, List.getElem?_modify, htk]

theorem cycleExec_abort (cfg : Cfg) (s s1 : St) (t : Nat) (tk : Task) (hrun : s.running = some t)
    (htk : s.tasks[t]? = some tk) (hpre : execPre cfg { s with running := none } t tk = (.abort, s1)) :
    cycleExec cfg s = s1 := by
  have htk' : ({ s with running := none } : St).tasks[t]? = some tk := htk
  simp only [cycleExec, hrun, htk', hpre]

/-- for the top-level tasks that exist from the start (`t < n0`): the noted wake time is the one the last yield asked for, and
    every recorded resume carries the wake time its preceding yield asked for (`Send` excepted: it re-registers itself) -/
structure WQ (cfg : Cfg) (n0 : Nat) (s : St) : Prop where
  len : n0 ≤ s.tasks.length
  task : ∀ (t : Nat) (tk : Task) (k : Nat) (prog : List Y) (i : Nat), t < n0 → s.tasks[t]? = some tk → tk.kind = .top k →
    cfg.progs[k]? = some prog → tk.st = .live → tk.pc = i + 1 →
    ∃ y, prog[i]? = some y ∧ (∀ rf, tk.rf = some rf → rf.isSend = true → y.isSend = true) ∧
      (y.isSend = false → ∃ tm r raw w, Ev.step t i tm r raw w ∈ s.trace ∧ tk.wake = reqWake tm y)
  ev : ∀ (t i tm : Nat) (r : Recv) (raw : Val) (wf : Option (Nat × Bool)) (k : Nat) (prog : List Y) (y : Y), t < n0 →
    Ev.step t (i + 1) tm r raw wf ∈ s.trace → kdL s.tasks t = some (.top k) → cfg.progs[k]? = some prog → prog[i]? = some y →
    y.isSend = false → ∃ tm0 r0 raw0 w0, Ev.step t i tm0 r0 raw0 w0 ∈ s.trace ∧ wf = reqWake tm0 y

theorem WQ.same {cfg n0} {s s' : St} (h : WQ cfg n0 s) (h1 : s'.tasks = s.tasks) (h2 : s'.trace = s.trace) : WQ cfg n0 s' :=
  ⟨by rw [h1]; exact h.len,
   fun t tk k prog i a b c d e f => by rw [h1] at b; rw [h2]; exact h.task t tk k prog i a b c d e f,
   fun t i tm r raw wf k prog y a b c d e f => by rw [h2] at b ⊢; rw [h1] at c; exact h.ev t i tm r raw wf k prog y a b c d e f⟩

theorem ctl2_of_get {l l' : List Task} {u : Nat} {tk' : Task} (h : (l'.map ctl2)[u]? = (l.map ctl2)[u]?) (hk : l'[u]? = some tk') :
    ∃ tk, l[u]? = some tk ∧ ctl2 tk = ctl2 tk' := by
  simp only [List.getElem?_map, hk, Option.map_some] at h
  cases hl : l[u]? with
  | none => simp [hl] at h
  | some tk => simp [hl] at h; exact ⟨tk, rfl, h.symm⟩

/-- one step of task `t`: everybody else keeps kind, pc, status, wake and return function, the trace grows by events of `t` -/
theorem WQ.step {cfg n0} {s s' : St} (h : WQ cfg n0 s) (t : Nat) (hlen : s.tasks.length ≤ s'.tasks.length)
    (hctl : CtlExt t s.tasks s'.tasks) (hkt : kdL s'.tasks t = kdL s.tasks t)
    (ext : List Ev) (htr : s'.trace = s.trace ++ ext) (hext : ∀ e ∈ ext, evTid e = t)
    (ht_task : ∀ (tk : Task) (k : Nat) (prog : List Y) (i : Nat), t < n0 → s'.tasks[t]? = some tk → tk.kind = .top k →
      cfg.progs[k]? = some prog → tk.st = .live → tk.pc = i + 1 →
      ∃ y, prog[i]? = some y ∧ (∀ rf, tk.rf = some rf → rf.isSend = true → y.isSend = true) ∧
        (y.isSend = false → ∃ tm r raw w, Ev.step t i tm r raw w ∈ s'.trace ∧ tk.wake = reqWake tm y))
    (ht_ev : ∀ (i tm : Nat) (r : Recv) (raw : Val) (wf : Option (Nat × Bool)) (k : Nat) (prog : List Y) (y : Y), t < n0 →
      Ev.step t (i + 1) tm r raw wf ∈ ext → kdL s.tasks t = some (.top k) → cfg.progs[k]? = some prog → prog[i]? = some y →
      y.isSend = false → ∃ tm0 r0 raw0 w0, Ev.step t i tm0 r0 raw0 w0 ∈ s'.trace ∧ wf = reqWake tm0 y) :
    WQ cfg n0 s' := by
  have hsub : ∀ e, e ∈ s.trace → e ∈ s'.trace := fun e he => by rw [htr]; exact List.mem_append_left _ he
  have hkd : ∀ u, u < n0 → kdL s'.tasks u = kdL s.tasks u := by
    intro u hu
    by_cases e : u = t
    · subst e; exact hkt
    · have := hctl u e (Nat.lt_of_lt_of_le hu h.len)
      simp only [List.getElem?_map] at this
      simp only [kdL]
      cases h1 : s'.tasks[u]? <;> cases h2 : s.tasks[u]? <;> simp [h1, h2, ctl2] at this ⊢
      exact this.1
  refine ⟨Nat.le_trans h.len hlen, ?_, ?_⟩
  · intro u tk' k prog i hu htk' hkind hprog hlive hpc
    by_cases e : u = t
    · subst e; exact ht_task tk' k prog i hu htk' hkind hprog hlive hpc
    · obtain ⟨tk, htk, hc⟩ := ctl2_of_get (hctl u e (Nat.lt_of_lt_of_le hu h.len)) htk'
      simp only [ctl2, Prod.mk.injEq] at hc
      obtain ⟨c1, c2, c3, c4, _, c6⟩ := hc
      obtain ⟨y, hy, hrf, hw⟩ := h.task u tk k prog i hu htk (by rw [c1]; exact hkind) hprog (by rw [c3]; exact hlive) (by rw [c2]; exact hpc)
      refine ⟨y, hy, fun rf h1 h2 => hrf rf (by rw [c6]; exact h1) h2, fun hns => ?_⟩
      obtain ⟨tm, r, raw, w, hm, hwk⟩ := hw hns
      exact ⟨tm, r, raw, w, hsub _ hm, by rw [← c4]; exact hwk⟩
  · intro u i tm r raw wf k prog y hu hm hkind hprog hy hns
    rw [htr] at hm
    rcases List.mem_append.mp hm with hm | hm
    · obtain ⟨tm0, r0, raw0, w0, h1, h2⟩ := h.ev u i tm r raw wf k prog y hu hm (by rw [← hkd u hu]; exact hkind) hprog hy hns
      exact ⟨tm0, r0, raw0, w0, hsub _ h1, h2⟩
    · have := hext _ hm
      simp only [evTid] at this
      subst this
      exact ht_ev i tm r raw wf k prog y hu hm (by rw [← hkd u hu]; exact hkind) hprog hy hns


theorem WQ.idle {cfg n0} {s : St} (h : WQ cfg n0 s) : WQ cfg n0 (idleStep cfg s) := by
  have hf := HubFr.idleStep cfg s
  have hlen : (idleStep cfg s).tasks.length = s.tasks.length := by
    have := congrArg List.length hf.tasks; simpa using this
  refine ⟨by rw [hlen]; exact h.len, ?_, ?_⟩
  · intro u tk' k prog i hu htk' hkind hprog hlive hpc
    obtain ⟨tk, htk, he⟩ := get_of_map_eq hf.tasks htk'
    simp only [eraseRv, Task.mk.injEq] at he
    obtain ⟨e1, e2, _, e4, e5, e6, e7, _⟩ := he
    rw [hf.trace, ← e7, ← e5]
    exact h.task u tk k prog i hu htk (by rw [e1]; exact hkind) hprog (by rw [e6]; exact hlive) (by rw [e2]; exact hpc)
  · intro u i tm r raw wf k prog y hu hm hkind hprog hy hns
    rw [hf.trace] at hm ⊢
    refine h.ev u i tm r raw wf k prog y hu hm ?_ hprog hy hns
    have e : ∀ l : List Task, kdL l u = ((l.map eraseRv)[u]?).map (·.kind) := by
      intro l; simp only [kdL, List.getElem?_map]; cases l[u]? <;> rfl
    rw [e, ← hf.tasks, ← e]; exact hkind

theorem WQ.cycle {cfg n0} {s : St} (hi : Inv s) (hrun : s.running = none) (h : WQ cfg n0 s) : WQ cfg n0 (Pox.Recoco.cycle cfg s) := by
  cases hl : lottery s.tasks s.draws s.ready with
  | none =>
    have e : Pox.Recoco.cycle cfg s = { s with cycles := s.cycles + 1 } := by
      simp [Pox.Recoco.cycle, cyclePop, hrun, hl, Pox.Recoco.cycleExec]
    rw [e]; exact h.same rfl rfl
  | some res =>
    obtain ⟨t, rest, ds'⟩ := res
    rw [cycle_pop cfg s t rest ds' hrun hl]
    have hp : WQ cfg n0 (popped s t rest ds') := h.same rfl rfl
    have hmem : t ∈ s.ready := (lottery_perm _ _ _ hl).mem_iff.mp List.mem_cons_self
    have hcf := CycFr.cycleExec cfg (popped s t rest ds') t rfl
    obtain ⟨kext, hkp⟩ := KP.cycleExec cfg (popped s t rest ds')
    have hlive := hi.ready_live hmem
    obtain ⟨tk, htk⟩ := stL_some hlive
    have hst : tk.st = .live := by simpa [stL, htk] using hlive
    have htkp : (popped s t rest ds').tasks[t]? = some tk := htk
    have hkt : kdL (Pox.Recoco.cycleExec cfg (popped s t rest ds')).tasks t = kdL (popped s t rest ds').tasks t := by
      have e : ∀ (m : List Task) (u : Nat), kdL m u = (m.map (·.kind))[u]? := by intro m u; simp [kdL]
      rw [e, e, hkp, List.getElem?_append_left]
      simpa using (List.getElem?_eq_some_iff.mp htkp).1
    by_cases hk : ∃ k, tk.kind = .top k
    · obtain ⟨k, hk⟩ := hk
      have hkd0 : kdL (popped s t rest ds').tasks t = some (.top k) := by rw [kdL_of_get htkp, hk]
      cases hpre : execPre cfg { popped s t rest ds' with running := none } t tk with
      | mk x s1 =>
        cases x with
        | abort =>
          have hce := cycleExec_abort cfg (popped s t rest ds') s1 t tk rfl htkp hpre
          obtain ⟨⟨rf0, hrf0, hs0⟩, tk1, htk1, c1, c2, c3, rf1, hrf1, hs1⟩ := execPre_abort cfg { popped s t rest ds' with running := none } s1 t tk htkp hpre
          have htr : s1.trace = (popped s t rest ds').trace := by
            have := execPre_trace cfg { popped s t rest ds' with running := none } t tk; rw [hpre] at this; exact this
          refine hp.step t hcf.len hcf.ctl hkt [] (by rw [hce, htr]; simp) (by simp) ?_ (by simp)
          intro tk' k' prog i hu htk' hkind hprog hlive' hpc
          rw [hce, htk1] at htk'; cases htk'
          obtain ⟨y, hy, hrf, _⟩ := hp.task t tk k' prog i hu htkp (by rw [← c1]; exact hkind) hprog hst (by rw [← c2]; exact hpc)
          have hsend := hrf rf0 hrf0 hs0
          exact ⟨y, hy, fun _ _ _ => hsend, fun hns => by rw [hsend] at hns; cases hns⟩
        | raised e =>
          have hce := cycleExec_raised cfg (popped s t rest ds') s1 t tk e rfl htkp hpre
          have hs := execPre_same cfg { popped s t rest ds' with running := none } t tk htkp _ _ hpre (by simp)
          refine hp.step t hcf.len hcf.ctl hkt [] (by rw [hce]; simp [hs.trace]) (by simp) ?_ (by simp)
          intro tk' k' prog i hu htk' hkind hprog hlive' hpc
          rw [hce] at htk'
          simp only [setStatus, setTask_tasks, List.getElem?_modify] at htk'
          cases h1 : s1.tasks[t]? with
          | none => simp [h1] at htk'
          | some q => simp [h1] at htk'; subst htk'; cases hlive'
        | resume r =>
          have hs := execPre_same cfg { popped s t rest ds' with running := none } t tk htkp _ _ hpre (by simp)
          obtain ⟨tk1, htk1, hrf1⟩ := execPre_resume_rf cfg { popped s t rest ds' with running := none } s1 t tk r htkp hpre
          have hself := hs.self
          simp only [htk1, Option.map_some, Option.some.injEq, Prod.mk.injEq] at hself
          obtain ⟨c1, c2, c3, c4, _⟩ := hself
          have hce := cycleExec_resume cfg (popped s t rest ds') s1 t tk tk1 r rfl htkp hpre htk1
          have hk1 : tk1.kind = .top k := by rw [c1]; exact hk
          have htrace := resumeGen_trace_nt cfg s1 t tk1 r tk.rv (by intro j; rw [hk1]; simp)
          have hnow : s1.now = s.now := hs.now
          have htr1 : s1.trace = s.trace := hs.trace
          refine hp.step t hcf.len hcf.ctl hkt [.step t tk1.pc s1.now r tk.rv tk1.wake] (by rw [hce, htrace, htr1]; rfl) (by simp [evTid]) ?_ ?_
          · intro tk' k' prog i hu htk' hkind hprog hlive' hpc
            rw [hce] at htk'
            have hkk : k' = k := by
              have := hkt
              rw [hce, kdL_of_get htk', hkd0, hkind] at this
              simpa using this
            subst hkk
            cases hg : genStep s1.timers.length prog tk1.pc r with
            | stop =>
              have := resumeGen_top_stop cfg s1 t tk1 k' prog r tk.rv htk1 hk1 hprog hg
              simp [stL, htk', hlive'] at this
            | raise e =>
              have := (resumeGen_raise cfg s1 t tk1 k' prog e r tk.rv htk1 hk1 hprog hg).2.2.2.2.2.2.2.2.2.1
              simp [stL, htk', hlive'] at this
            | yield y =>
              obtain ⟨tk'', h1, _, h3, h4, h5⟩ := resumeGen_top_yield cfg s1 t tk1 k' prog y r tk.rv htk1 hk1 hprog hrf1 hg
              rw [htk'] at h1; cases h1
              have hi' : i = tk1.pc := by omega
              subst hi'
              refine ⟨y, genStep_yield_get hg, h5, fun _ => ⟨s1.now, r, tk.rv, tk1.wake, ?_, h4⟩⟩
              rw [hce, htrace]; simp
          · intro i tm r' raw wf k' prog y hu hm hkind hprog hy hns
            simp only [List.mem_singleton, Ev.step.injEq] at hm
            obtain ⟨_, hpc, _, _, _, hwf⟩ := hm
            obtain ⟨y', hy', _, hw⟩ := hp.task t tk k' prog i hu htkp (by rw [hkd0] at hkind; cases hkind; exact hk) hprog hst (by rw [← c2]; exact hpc.symm)
            rw [hy] at hy'; cases hy'
            obtain ⟨tm0, r0, raw0, w0, h1, h2⟩ := hw hns
            refine ⟨tm0, r0, raw0, w0, ?_, by rw [hwf, c4]; exact h2⟩
            rw [hce, htrace, htr1]; exact List.mem_append_left _ h1
    · obtain ⟨ext, he, hx⟩ := cycleExec_trace_ext cfg (popped s t rest ds') t rfl
      have hnt : ∀ k, kdL (popped s t rest ds').tasks t ≠ some (.top k) := by
        intro k hkk; rw [kdL_of_get htkp] at hkk; exact hk ⟨k, by simpa using hkk⟩
      refine hp.step t hcf.len hcf.ctl hkt ext he hx ?_ ?_
      · intro tk' k' prog i hu htk' hkind _ _ _
        exact absurd (by rw [← hkt, kdL_of_get htk', hkind]) (hnt k')
      · intro i tm r raw wf k' prog y hu hm hkind _ _ _
        exact absurd hkind (hnt k')


theorem WQ.iter {cfg n0} {s : St} (hi : Inv s) (hrun : s.running = none) (h : WQ cfg n0 s) : WQ cfg n0 (Pox.Recoco.iter cfg s) := by
  unfold Pox.Recoco.iter
  have h1 := h.idle (cfg := cfg)
  have hi1 := hi.idleStep cfg
  have hr1 : (idleStep cfg s).running = none := (HubFr.idleStep cfg s).running.trans hrun
  split
  · exact h
  · simp only []
    split
    · exact h1
    · exact h1.cycle hi1 hr1

theorem WQ.run {cfg n0} : ∀ (n : Nat) {s : St}, Inv s → s.running = none → WQ cfg n0 s → WQ cfg n0 (Pox.Recoco.run cfg n s)
  | 0, _, _, _, h => h
  | n + 1, s, hi, hrun, h => WQ.run n (hi.iter cfg) (iter_running cfg s hrun) (h.iter hi hrun)

theorem initSt_tasks_length (t0 : Nat) (tasks : List Nat) (timers : List TimerCfg) (ss rs : List (Option Nat)) (ps ds : List Nat) :
    (initSt t0 tasks timers ss rs ps ds).tasks.length = tasks.length + timers.length := by
  have := congrArg List.length (initSt_view (fun _ => ()) (fun _ _ => rfl) t0 tasks timers ss rs ps ds)
  simpa using this

theorem WQ.init (cfg : Cfg) (t0 : Nat) (tasks : List Nat) (timers : List TimerCfg) (ss rs : List (Option Nat)) (ps ds : List Nat) :
    WQ cfg tasks.length (initSt t0 tasks timers ss rs ps ds) := by
  have hpc : ∀ (t : Nat) (tk : Task), (initSt t0 tasks timers ss rs ps ds).tasks[t]? = some tk → tk.pc = 0 := by
    intro t tk h0
    have h : ((initSt t0 tasks timers ss rs ps ds).tasks.map (·.pc))[t]? = some tk.pc := by simp [h0]
    rw [initSt_view (·.pc) (fun _ _ => rfl)] at h
    simp only [List.getElem?_append, List.length_map, List.getElem?_map] at h
    split at h
    · cases hx : tasks[t]? with
      | none => simp [hx] at h
      | some _ => simp [hx] at h; exact h.symm
    · cases hx : (List.range timers.length)[t - tasks.length]? with
      | none => simp [hx] at h
      | some _ => simp [hx] at h; exact h.symm
  refine ⟨by rw [initSt_tasks_length]; omega, ?_, ?_⟩
  · intro t tk k prog i _ htk _ _ _ hp
    have := hpc t tk htk; omega
  · intro t i tm r raw wf k prog y _ hm
    simp [initSt] at hm

/-- **wake_is_requested, trace level.**  In every reachable state: if the trace contains the resume number `i+1` of a top-level
    task whose yield number `i` is `y` (anything but a `Send`), then it also contains resume number `i`, at some time `tm0`, and
    the wake time recorded in resume `i+1` is exactly what `y` asks for at `tm0`. -/
theorem wake_requested_trace (cfg : Cfg) (t0 : Nat) (tasks : List Nat) (timers : List TimerCfg) (ss rs : List (Option Nat)) (ps ds : List Nat)
    (n : Nat) (t i tm : Nat) (r : Recv) (raw : Val) (wf : Option (Nat × Bool)) (k : Nat) (prog : List Y) (y : Y)
    (ht : tasks[t]? = some k) (hprog : cfg.progs[k]? = some prog) (hy : prog[i]? = some y) (hns : y.isSend = false)
    (hm : Ev.step t (i + 1) tm r raw wf ∈ (Pox.Recoco.run cfg n (initSt t0 tasks timers ss rs ps ds)).trace) :
    ∃ tm0 r0 raw0 w0, Ev.step t i tm0 r0 raw0 w0 ∈ (Pox.Recoco.run cfg n (initSt t0 tasks timers ss rs ps ds)).trace ∧
      wf = reqWake tm0 y := by
  have hw := WQ.run (cfg := cfg) n (Inv.init t0 tasks timers ss rs ps ds) rfl (WQ.init cfg t0 tasks timers ss rs ps ds)
  have hlt : t < tasks.length := (List.getElem?_eq_some_iff.mp ht).1
  refine hw.ev t i tm r raw wf k prog y hlt hm ?_ hprog hy hns
  refine kind_stable cfg n _ t _ ?_
  have e : kdL (initSt t0 tasks timers ss rs ps ds).tasks t = ((initSt t0 tasks timers ss rs ps ds).tasks.map (·.kind))[t]? := by simp [kdL]
  rw [e, initSt_view (·.kind) (fun _ _ => rfl), List.getElem?_append_left (by simpa using hlt)]
  simp [ht]


/-! ## Part 13: no lost wake-up for a ready descriptor -/

theorem dictGet_dictSet_self (m : List (Nat × Nat)) (k v : Nat) : dictGet (dictSet m k v) k = some v := by
  induction m with
  | nil => simp [dictSet, dictGet]
  | cons a r ih =>
    obtain ⟨k', v'⟩ := a
    simp only [dictSet]
    split
    · simp [dictGet]
    · rename_i h; simp [dictGet, h, ih]

theorem dictGet_dictSet_ne (m : List (Nat × Nat)) {k f : Nat} (v : Nat) (h : k ≠ f) : dictGet (dictSet m k v) f = dictGet m f := by
  induction m with
  | nil => simp [dictSet, dictGet, h]
  | cons a r ih =>
    obtain ⟨k', v'⟩ := a
    simp only [dictSet]
    split
    · rename_i e; subst e; simp [dictGet, h]
    · simp only [dictGet]; split <;> simp [ih]

theorem dictFold_get (t f : Nat) : ∀ (fds : List Nat) (m : List (Nat × Nat)),
    dictGet (fds.foldl (fun m i => dictSet m i t) m) f = if f ∈ fds then some t else dictGet m f
  | [], m => by simp
  | i :: is, m => by
    rw [List.foldl_cons, dictFold_get t f is]
    by_cases h1 : f ∈ is
    · simp [h1]
    · by_cases h2 : i = f
      · subst h2; simp [h1, dictGet_dictSet_self]
      · have : ¬ f = i := fun e => h2 e.symm
        simp [h1, this, dictGet_dictSet_ne _ _ h2]

theorem dictGet_some_key {m : List (Nat × Nat)} {f t : Nat} (h : dictGet m f = some t) : f ∈ m.map (·.1) := by
  induction m with
  | nil => simp [dictGet] at h
  | cons a r ih =>
    obtain ⟨k', v'⟩ := a
    simp only [dictGet] at h
    split at h
    · rename_i e; simp [e]
    · simp only [List.map_cons, List.mem_cons]; exact .inr (ih h)

theorem scanEntry_rl (now : Nat) (sc : Scan) (e : HubEntry) :
    (scanEntry now sc e).rl = if expiredP now e then sc.rl else e.rl.foldl (fun m i => dictSet m i e.tid) sc.rl := by
  unfold scanEntry expiredP
  cases hto : e.tto with
  | none => simp [addFds]
  | some w =>
    simp only []
    by_cases h : w ≤ now
    · simp [h]
    · simp only [h, if_false, decide_false, Bool.false_eq_true]
      cases sc.timeout with
      | none => simp [addFds]
      | some cur => simp only [addFds]; split <;> rfl

/-- the `rl` dictionary after the scan: a descriptor that a non-expired entry waits on, and that only entries of task `tid` wait on -/
theorem scan_rl_get (now f tid : Nat) : ∀ (l : List HubEntry) (sc : Scan),
    (∀ e' ∈ l, f ∈ e'.rl → e'.tid = tid) →
    (dictGet sc.rl f = some tid ∨ ∃ e ∈ l, f ∈ e.rl ∧ expiredP now e = false) →
    dictGet (l.foldl (scanEntry now) sc).rl f = some tid
  | [], sc, _, h => by
    rcases h with h | ⟨e, he, _⟩
    · exact h
    · cases he
  | e :: r, sc, hu, h => by
    rw [List.foldl_cons]
    refine scan_rl_get now f tid r _ (fun e' he' => hu e' (List.mem_cons_of_mem _ he')) ?_
    rw [scanEntry_rl, ]
    by_cases hx : expiredP now e = true
    · simp only [hx, if_true]
      rcases h with h | ⟨e0, he0, hf0, hx0⟩
      · exact .inl h
      · rcases List.mem_cons.mp he0 with rfl | h1
        · rw [hx] at hx0; cases hx0
        · exact .inr ⟨e0, h1, hf0, hx0⟩
    · simp only [hx, if_false, Bool.false_eq_true]
      rw [dictFold_get]
      by_cases hf : f ∈ e.rl
      · simp only [hf, if_true]
        rw [hu e List.mem_cons_self hf]; exact .inl rfl
      · simp only [hf, if_false]
        rcases h with h | ⟨e0, he0, hf0, hx0⟩
        · exact .inl h
        · rcases List.mem_cons.mp he0 with rfl | h1
          · exact absurd hf0 hf
          · exact .inr ⟨e0, h1, hf0, hx0⟩

theorem vselect_ready_now (env : Env) (now : Nat) (rk wk xk : List Nat) (to : Nat) (p ht : Bool) (f rt : Nat)
    (hf : f ∈ rk) (hrt : fdTime env.rAt f = some rt) (hle : rt ≤ now) :
    f ∈ (vselect env now rk wk xk to p ht).ro := by
  have hm : f ∈ readyAt env.rAt now rk := by
    unfold readyAt
    exact List.mem_filter.mpr ⟨hf, by simp [hrt, hle]⟩
  unfold vselect
  simp only []
  rw [if_pos (.inr (.inl (List.ne_nil_of_mem hm)))]
  exact hm

theorem retsLoop_mono {m : List (Nat × Nat)} {which : Nat} : ∀ (is : List Nat) (rets rets' : Rets),
    retsLoop m which is rets = some rets' →
    (∀ t ∈ rets.map (·.1), t ∈ rets'.map (·.1)) ∧ (∀ i ∈ is, ∀ t, dictGet m i = some t → t ∈ rets'.map (·.1))
  | [], rets, rets', h => by
    simp only [retsLoop, Option.some.injEq] at h; subst h
    exact ⟨fun _ h => h, fun _ hi => by cases hi⟩
  | i :: is, rets, rets', h => by
    simp only [retsLoop] at h
    split at h
    · cases h
    · rename_i t ht
      obtain ⟨h1, h2⟩ := retsLoop_mono is _ rets' h
      have hk : ∀ u ∈ rets.map (·.1), u ∈ (retsAdd rets t which i).map (·.1) := by
        intro u hu; rw [retsAdd_keys]; split
        · exact hu
        · exact List.mem_append_left _ hu
      have ht' : t ∈ (retsAdd rets t which i).map (·.1) := by
        rw [retsAdd_keys]; split
        · assumption
        · exact List.mem_append_right _ List.mem_cons_self
      refine ⟨fun u hu => h1 u (hk u hu), ?_⟩
      intro j hj u hu
      rcases List.mem_cons.mp hj with rfl | hj
      · rw [ht] at hu; cases hu; exact h1 _ ht'
      · exact h2 j hj u hu

theorem returnAll_ready : ∀ (rets : Rets) {s : St}, Inv s → s.crashed = false → (rets.map (·.1)).Nodup →
    (∀ t ∈ rets.map (·.1), t ∈ hubTids s) → ∀ t ∈ rets.map (·.1), t ∈ (returnAll s rets).ready
  | [], _, _, _, _, _ => fun _ h => by cases h
  | (t, (a, b, c)) :: r, s, hi, hc, hn, hm => by
    simp only [List.map_cons] at hn hm
    have hn' := List.nodup_cons.mp hn
    have htm := hm t List.mem_cons_self
    have hnr := hi.not_ready_of_hub htm
    have hc' : (hubDelReturn s t (.sel a b c)).crashed = false := by rw [hubDelReturn_nc _ htm hnr]; exact hc
    have ih := returnAll_ready r (hi.hubDelReturn t (.sel a b c)) hc' hn'.2
      (fun u hu => hubTids_hubDelReturn _ (hm u (List.mem_cons_of_mem _ hu)) (fun e => hn'.1 (e ▸ hu)))
    simp only [returnAll, List.map_cons]
    rw [if_neg (by simp [hc'])]
    intro u hu
    rcases List.mem_cons.mp hu with rfl | h
    · exact returnAll_ready_mono r _ _ (hubDelReturn_ready_self _ htm hnr)
    · exact ih u h

theorem hubFinish_ready_fd (sc : Scan) (r : SelRes) {s2 : St} (hi2 : Inv s2) (hc2 : s2.crashed = false)
    (hro : ∀ i ∈ r.ro, i ∈ sc.rl.map (·.1)) (hwo : ∀ i ∈ r.wo, i ∈ sc.wl.map (·.1)) (hxo : ∀ i ∈ r.xo, i ∈ sc.xl.map (·.1))
    (hk2 : ∀ p, p ∈ sc.rl ∨ p ∈ sc.wl ∨ p ∈ sc.xl → p.2 ∈ hubTids s2)
    (f tid : Nat) (hget : dictGet sc.rl f = some tid) (hfro : f ∈ r.ro) : tid ∈ (hubFinish sc r s2).ready := by
  have hne : r.ro ≠ [] := List.ne_nil_of_mem hfro
  unfold Pox.Recoco.hubFinish
  rw [if_neg (by simp [hne])]
  have hp := hubPong_nc r hi2
  have hi3 := hi2.hubPong r
  have hc3 : (hubPong r s2).crashed = false := by rw [hp.1]; exact hc2
  unfold Pox.Recoco.hubDispatch
  rw [if_neg (by simp [hc3]), if_neg (by simp [hne])]
  obtain ⟨r1, h1⟩ := retsLoop_some (m := sc.rl) (which := 0) r.ro [] hro
  obtain ⟨r2, h2⟩ := retsLoop_some (m := sc.wl) (which := 1) r.wo r1 hwo
  obtain ⟨r3, h3⟩ := retsLoop_some (m := sc.xl) (which := 2) r.xo r2 hxo
  have hK : ∀ p, p ∈ sc.rl ∨ p ∈ sc.wl ∨ p ∈ sc.xl → p.2 ∈ hubTids (hubPong r s2) := fun p hp' => hp.2 _ (hk2 p hp')
  have k1 := retsLoop_keys (K := fun t => t ∈ hubTids (hubPong r s2)) (fun p hp => hK p (.inl hp)) _ _ _ h1 (by simp) (by simp)
  have k2 := retsLoop_keys (K := fun t => t ∈ hubTids (hubPong r s2)) (fun p hp => hK p (.inr (.inl hp))) _ _ _ h2 k1.1 k1.2
  have k3 := retsLoop_keys (K := fun t => t ∈ hubTids (hubPong r s2)) (fun p hp => hK p (.inr (.inr hp))) _ _ _ h3 k2.1 k2.2
  simp only [h1, h2, h3, Option.bind_some]
  have m1 := (retsLoop_mono _ _ _ h1).2 f hfro tid hget
  have m2 := (retsLoop_mono _ _ _ h2).1 _ m1
  have m3 := (retsLoop_mono _ _ _ h3).1 _ m2
  exact returnAll_ready r3 hi3 hc3 k3.1 k3.2 _ m3

/-- **no lost wake-up (ready descriptor).**  When the scheduler goes idle: a hub entry that waits for descriptor `f` to become
    readable, `f` being readable now and no other task waiting on `f` (a later registration for the same descriptor shadows an
    earlier one in `_select`'s `rl` dictionary), is handed back in this very hub pass. -/
theorem fd_ready_returns (cfg : Cfg) {s : St} (hi : Inv s) (hc : s.crashed = false) (hr : s.ready = [])
    (e : HubEntry) (he : e ∈ s.hub) (f : Nat) (hf : f ∈ e.rl) (huniq : ∀ e' ∈ s.hub, f ∈ e'.rl → e'.tid = e.tid)
    (rt : Nat) (hrt : fdTime cfg.env.rAt f = some rt) (hle : rt ≤ s.now) : e.tid ∈ (idleStep cfg s).ready := by
  by_cases hx : expiredP s.now e = true
  · -- its timeout has expired as well: it is returned as expired
    unfold expiredP at hx
    cases hw : e.tto with
    | none => simp [hw] at hx
    | some w => simp [hw] at hx; exact expired_returns cfg hi hc hr e he w hw hx
  · have hx' : expiredP s.now e = false := by simpa using hx
    have hsc := hubScan_ok s
    obtain ⟨hnd, hmem, hlv⟩ := hubScan_expired_props hi
    have hexp := returnExpired_nc (hubScan s).expired hi hnd hmem
    have hi1 := Inv.returnExpired (hubScan s).expired hi
    have keep : ∀ e ∈ s.hub, (∀ w, e.tto = some w → s.now < w) → e.tid ∈ hubTids (Pox.Recoco.returnExpired s (hubScan s).expired) :=
      fun e he hl => hexp.2 e.tid (List.mem_map_of_mem he) (hlv e he hl)
    have hget : dictGet (hubScan s).rl f = some e.tid := by
      unfold hubScan
      exact scan_rl_get s.now f e.tid s.hub {} huniq (.inr ⟨e, he, hf, hx'⟩)
    have hkey := dictGet_some_key hget
    unfold idleStep
    rw [if_pos hr]
    unfold Pox.Recoco.hubSelect
    simp only []
    rw [if_neg (by rw [hexp.1, hc]; simp)]
    have hnow : (Pox.Recoco.returnExpired s (hubScan s).expired).now = s.now := returnExpired_now _ _
    have hv := vselect_sub cfg.env (Pox.Recoco.returnExpired s (hubScan s).expired).now ((hubScan s).rl.map (·.1))
      ((hubScan s).wl.map (·.1)) ((hubScan s).xl.map (·.1)) (hubTimeout (hubScan s))
      (decide (0 < (Pox.Recoco.returnExpired s (hubScan s).expired).pings)) (hubScan s).timeoutTask.isSome
    have hfro := vselect_ready_now cfg.env (Pox.Recoco.returnExpired s (hubScan s).expired).now ((hubScan s).rl.map (·.1))
      ((hubScan s).wl.map (·.1)) ((hubScan s).xl.map (·.1)) (hubTimeout (hubScan s))
      (decide (0 < (Pox.Recoco.returnExpired s (hubScan s).expired).pings)) (hubScan s).timeoutTask.isSome f rt hkey hrt (by rw [hnow]; exact hle)
    refine hubFinish_ready_fd _ _ ?_ ?_ hv.1 hv.2.1 hv.2.2 ?_ f e.tid hget hfro
    · held hi1
    · show (Pox.Recoco.returnExpired s (hubScan s).expired).crashed = false
      rw [hexp.1]; exact hc
    · intro p hp
      obtain ⟨e', he', het, _, hl⟩ := hsc.fds p hp
      have := keep e' he' hl
      rw [het] at this
      simpa [hubTids] using this

theorem scanEntry_wl (now : Nat) (sc : Scan) (e : HubEntry) :
    (scanEntry now sc e).wl = if expiredP now e then sc.wl else e.wl.foldl (fun m i => dictSet m i e.tid) sc.wl := by
  unfold scanEntry expiredP
  cases hto : e.tto with
  | none => simp [addFds]
  | some w =>
    simp only []
    by_cases h : w ≤ now
    · simp [h]
    · simp only [h, if_false, decide_false, Bool.false_eq_true]
      cases sc.timeout with
      | none => simp [addFds]
      | some cur => simp only [addFds]; split <;> rfl

/-- the `wl` dictionary after the scan: a descriptor that a non-expired entry waits on, and that only entries of task `tid` wait on -/
theorem scan_wl_get (now f tid : Nat) : ∀ (l : List HubEntry) (sc : Scan),
    (∀ e' ∈ l, f ∈ e'.wl → e'.tid = tid) →
    (dictGet sc.wl f = some tid ∨ ∃ e ∈ l, f ∈ e.wl ∧ expiredP now e = false) →
    dictGet (l.foldl (scanEntry now) sc).wl f = some tid
  | [], sc, _, h => by
    rcases h with h | ⟨e, he, _⟩
    · exact h
    · cases he
  | e :: r, sc, hu, h => by
    rw [List.foldl_cons]
    refine scan_wl_get now f tid r _ (fun e' he' => hu e' (List.mem_cons_of_mem _ he')) ?_
    rw [scanEntry_wl, ]
    by_cases hx : expiredP now e = true
    · simp only [hx, if_true]
      rcases h with h | ⟨e0, he0, hf0, hx0⟩
      · exact .inl h
      · rcases List.mem_cons.mp he0 with rfl | h1
        · rw [hx] at hx0; cases hx0
        · exact .inr ⟨e0, h1, hf0, hx0⟩
    · simp only [hx, if_false, Bool.false_eq_true]
      rw [dictFold_get]
      by_cases hf : f ∈ e.wl
      · simp only [hf, if_true]
        rw [hu e List.mem_cons_self hf]; exact .inl rfl
      · simp only [hf, if_false]
        rcases h with h | ⟨e0, he0, hf0, hx0⟩
        · exact .inl h
        · rcases List.mem_cons.mp he0 with rfl | h1
          · exact absurd hf0 hf
          · exact .inr ⟨e0, h1, hf0, hx0⟩

theorem vselect_ready_now_wl (env : Env) (now : Nat) (rk wk xk : List Nat) (to : Nat) (p ht : Bool) (f rt : Nat)
    (hf : f ∈ wk) (hrt : fdTime env.wAt f = some rt) (hle : rt ≤ now) :
    f ∈ (vselect env now rk wk xk to p ht).wo := by
  have hm : f ∈ readyAt env.wAt now wk := by
    unfold readyAt
    exact List.mem_filter.mpr ⟨hf, by simp [hrt, hle]⟩
  unfold vselect
  simp only []
  rw [if_pos (.inr (.inr (.inl (List.ne_nil_of_mem hm))))]
  exact hm

theorem hubFinish_ready_fd_wl (sc : Scan) (r : SelRes) {s2 : St} (hi2 : Inv s2) (hc2 : s2.crashed = false)
    (hro : ∀ i ∈ r.ro, i ∈ sc.rl.map (·.1)) (hwo : ∀ i ∈ r.wo, i ∈ sc.wl.map (·.1)) (hxo : ∀ i ∈ r.xo, i ∈ sc.xl.map (·.1))
    (hk2 : ∀ p, p ∈ sc.rl ∨ p ∈ sc.wl ∨ p ∈ sc.xl → p.2 ∈ hubTids s2)
    (f tid : Nat) (hget : dictGet sc.wl f = some tid) (hfro : f ∈ r.wo) : tid ∈ (hubFinish sc r s2).ready := by
  have hne : r.wo ≠ [] := List.ne_nil_of_mem hfro
  unfold Pox.Recoco.hubFinish
  rw [if_neg (by simp [hne])]
  have hp := hubPong_nc r hi2
  have hi3 := hi2.hubPong r
  have hc3 : (hubPong r s2).crashed = false := by rw [hp.1]; exact hc2
  unfold Pox.Recoco.hubDispatch
  rw [if_neg (by simp [hc3]), if_neg (by simp [hne])]
  obtain ⟨r1, h1⟩ := retsLoop_some (m := sc.rl) (which := 0) r.ro [] hro
  obtain ⟨r2, h2⟩ := retsLoop_some (m := sc.wl) (which := 1) r.wo r1 hwo
  obtain ⟨r3, h3⟩ := retsLoop_some (m := sc.xl) (which := 2) r.xo r2 hxo
  have hK : ∀ p, p ∈ sc.rl ∨ p ∈ sc.wl ∨ p ∈ sc.xl → p.2 ∈ hubTids (hubPong r s2) := fun p hp' => hp.2 _ (hk2 p hp')
  have k1 := retsLoop_keys (K := fun t => t ∈ hubTids (hubPong r s2)) (fun p hp => hK p (.inl hp)) _ _ _ h1 (by simp) (by simp)
  have k2 := retsLoop_keys (K := fun t => t ∈ hubTids (hubPong r s2)) (fun p hp => hK p (.inr (.inl hp))) _ _ _ h2 k1.1 k1.2
  have k3 := retsLoop_keys (K := fun t => t ∈ hubTids (hubPong r s2)) (fun p hp => hK p (.inr (.inr hp))) _ _ _ h3 k2.1 k2.2
  simp only [h1, h2, h3, Option.bind_some]
  have m2 := (retsLoop_mono _ _ _ h2).2 f hfro tid hget
  have m3 := (retsLoop_mono _ _ _ h3).1 _ m2
  exact returnAll_ready r3 hi3 hc3 k3.1 k3.2 _ m3

/-- **no lost wake-up (ready descriptor).**  When the scheduler goes idle: a hub entry that waits for descriptor `f` to become
    writable, `f` being so now and no other task waiting on `f` (a later registration for the same descriptor shadows an
    earlier one in `_select`'s `rl` dictionary), is handed back in this very hub pass. -/
theorem fd_ready_returns_wl (cfg : Cfg) {s : St} (hi : Inv s) (hc : s.crashed = false) (hr : s.ready = [])
    (e : HubEntry) (he : e ∈ s.hub) (f : Nat) (hf : f ∈ e.wl) (huniq : ∀ e' ∈ s.hub, f ∈ e'.wl → e'.tid = e.tid)
    (rt : Nat) (hrt : fdTime cfg.env.wAt f = some rt) (hle : rt ≤ s.now) : e.tid ∈ (idleStep cfg s).ready := by
  by_cases hx : expiredP s.now e = true
  · -- its timeout has expired as well: it is returned as expired
    unfold expiredP at hx
    cases hw : e.tto with
    | none => simp [hw] at hx
    | some w => simp [hw] at hx; exact expired_returns cfg hi hc hr e he w hw hx
  · have hx' : expiredP s.now e = false := by simpa using hx
    have hsc := hubScan_ok s
    obtain ⟨hnd, hmem, hlv⟩ := hubScan_expired_props hi
    have hexp := returnExpired_nc (hubScan s).expired hi hnd hmem
    have hi1 := Inv.returnExpired (hubScan s).expired hi
    have keep : ∀ e ∈ s.hub, (∀ w, e.tto = some w → s.now < w) → e.tid ∈ hubTids (Pox.Recoco.returnExpired s (hubScan s).expired) :=
      fun e he hl => hexp.2 e.tid (List.mem_map_of_mem he) (hlv e he hl)
    have hget : dictGet (hubScan s).wl f = some e.tid := by
      unfold hubScan
      exact scan_wl_get s.now f e.tid s.hub {} huniq (.inr ⟨e, he, hf, hx'⟩)
    have hkey := dictGet_some_key hget
    unfold idleStep
    rw [if_pos hr]
    unfold Pox.Recoco.hubSelect
    simp only []
    rw [if_neg (by rw [hexp.1, hc]; simp)]
    have hnow : (Pox.Recoco.returnExpired s (hubScan s).expired).now = s.now := returnExpired_now _ _
    have hv := vselect_sub cfg.env (Pox.Recoco.returnExpired s (hubScan s).expired).now ((hubScan s).rl.map (·.1))
      ((hubScan s).wl.map (·.1)) ((hubScan s).xl.map (·.1)) (hubTimeout (hubScan s))
      (decide (0 < (Pox.Recoco.returnExpired s (hubScan s).expired).pings)) (hubScan s).timeoutTask.isSome
    have hfro := vselect_ready_now_wl cfg.env (Pox.Recoco.returnExpired s (hubScan s).expired).now ((hubScan s).rl.map (·.1))
      ((hubScan s).wl.map (·.1)) ((hubScan s).xl.map (·.1)) (hubTimeout (hubScan s))
      (decide (0 < (Pox.Recoco.returnExpired s (hubScan s).expired).pings)) (hubScan s).timeoutTask.isSome f rt hkey hrt (by rw [hnow]; exact hle)
    refine hubFinish_ready_fd_wl _ _ ?_ ?_ hv.1 hv.2.1 hv.2.2 ?_ f e.tid hget hfro
    · held hi1
    · show (Pox.Recoco.returnExpired s (hubScan s).expired).crashed = false
      rw [hexp.1]; exact hc
    · intro p hp
      obtain ⟨e', he', het, _, hl⟩ := hsc.fds p hp
      have := keep e' he' hl
      rw [het] at this
      simpa [hubTids] using this


theorem scanEntry_xl (now : Nat) (sc : Scan) (e : HubEntry) :
    (scanEntry now sc e).xl = if expiredP now e then sc.xl else e.xl.foldl (fun m i => dictSet m i e.tid) sc.xl := by
  unfold scanEntry expiredP
  cases hto : e.tto with
  | none => simp [addFds]
  | some w =>
    simp only []
    by_cases h : w ≤ now
    · simp [h]
    · simp only [h, if_false, decide_false, Bool.false_eq_true]
      cases sc.timeout with
      | none => simp [addFds]
      | some cur => simp only [addFds]; split <;> rfl

/-- the `xl` dictionary after the scan: a descriptor that a non-expired entry waits on, and that only entries of task `tid` wait on -/
theorem scan_xl_get (now f tid : Nat) : ∀ (l : List HubEntry) (sc : Scan),
    (∀ e' ∈ l, f ∈ e'.xl → e'.tid = tid) →
    (dictGet sc.xl f = some tid ∨ ∃ e ∈ l, f ∈ e.xl ∧ expiredP now e = false) →
    dictGet (l.foldl (scanEntry now) sc).xl f = some tid
  | [], sc, _, h => by
    rcases h with h | ⟨e, he, _⟩
    · exact h
    · cases he
  | e :: r, sc, hu, h => by
    rw [List.foldl_cons]
    refine scan_xl_get now f tid r _ (fun e' he' => hu e' (List.mem_cons_of_mem _ he')) ?_
    rw [scanEntry_xl, ]
    by_cases hx : expiredP now e = true
    · simp only [hx, if_true]
      rcases h with h | ⟨e0, he0, hf0, hx0⟩
      · exact .inl h
      · rcases List.mem_cons.mp he0 with rfl | h1
        · rw [hx] at hx0; cases hx0
        · exact .inr ⟨e0, h1, hf0, hx0⟩
    · simp only [hx, if_false, Bool.false_eq_true]
      rw [dictFold_get]
      by_cases hf : f ∈ e.xl
      · simp only [hf, if_true]
        rw [hu e List.mem_cons_self hf]; exact .inl rfl
      · simp only [hf, if_false]
        rcases h with h | ⟨e0, he0, hf0, hx0⟩
        · exact .inl h
        · rcases List.mem_cons.mp he0 with rfl | h1
          · exact absurd hf0 hf
          · exact .inr ⟨e0, h1, hf0, hx0⟩

theorem vselect_ready_now_xl (env : Env) (now : Nat) (rk wk xk : List Nat) (to : Nat) (p ht : Bool) (f rt : Nat)
    (hf : f ∈ xk) (hrt : fdTime env.xAt f = some rt) (hle : rt ≤ now) :
    f ∈ (vselect env now rk wk xk to p ht).xo := by
  have hm : f ∈ readyAt env.xAt now xk := by
    unfold readyAt
    exact List.mem_filter.mpr ⟨hf, by simp [hrt, hle]⟩
  unfold vselect
  simp only []
  rw [if_pos (.inr (.inr (.inr (List.ne_nil_of_mem hm))))]
  exact hm

theorem hubFinish_ready_fd_xl (sc : Scan) (r : SelRes) {s2 : St} (hi2 : Inv s2) (hc2 : s2.crashed = false)
    (hro : ∀ i ∈ r.ro, i ∈ sc.rl.map (·.1)) (hwo : ∀ i ∈ r.wo, i ∈ sc.wl.map (·.1)) (hxo : ∀ i ∈ r.xo, i ∈ sc.xl.map (·.1))
    (hk2 : ∀ p, p ∈ sc.rl ∨ p ∈ sc.wl ∨ p ∈ sc.xl → p.2 ∈ hubTids s2)
    (f tid : Nat) (hget : dictGet sc.xl f = some tid) (hfro : f ∈ r.xo) : tid ∈ (hubFinish sc r s2).ready := by
  have hne : r.xo ≠ [] := List.ne_nil_of_mem hfro
  unfold Pox.Recoco.hubFinish
  rw [if_neg (by simp [hne])]
  have hp := hubPong_nc r hi2
  have hi3 := hi2.hubPong r
  have hc3 : (hubPong r s2).crashed = false := by rw [hp.1]; exact hc2
  unfold Pox.Recoco.hubDispatch
  rw [if_neg (by simp [hc3]), if_neg (by simp [hne])]
  obtain ⟨r1, h1⟩ := retsLoop_some (m := sc.rl) (which := 0) r.ro [] hro
  obtain ⟨r2, h2⟩ := retsLoop_some (m := sc.wl) (which := 1) r.wo r1 hwo
  obtain ⟨r3, h3⟩ := retsLoop_some (m := sc.xl) (which := 2) r.xo r2 hxo
  have hK : ∀ p, p ∈ sc.rl ∨ p ∈ sc.wl ∨ p ∈ sc.xl → p.2 ∈ hubTids (hubPong r s2) := fun p hp' => hp.2 _ (hk2 p hp')
  have k1 := retsLoop_keys (K := fun t => t ∈ hubTids (hubPong r s2)) (fun p hp => hK p (.inl hp)) _ _ _ h1 (by simp) (by simp)
  have k2 := retsLoop_keys (K := fun t => t ∈ hubTids (hubPong r s2)) (fun p hp => hK p (.inr (.inl hp))) _ _ _ h2 k1.1 k1.2
  have k3 := retsLoop_keys (K := fun t => t ∈ hubTids (hubPong r s2)) (fun p hp => hK p (.inr (.inr hp))) _ _ _ h3 k2.1 k2.2
  simp only [h1, h2, h3, Option.bind_some]
  have m3 := (retsLoop_mono _ _ _ h3).2 f hfro tid hget
  exact returnAll_ready r3 hi3 hc3 k3.1 k3.2 _ m3

/-- **no lost wake-up (ready descriptor).**  When the scheduler goes idle: a hub entry that waits for descriptor `f` to become
    in error, `f` being so now and no other task waiting on `f` (a later registration for the same descriptor shadows an
    earlier one in `_select`'s `rl` dictionary), is handed back in this very hub pass. -/
theorem fd_ready_returns_xl (cfg : Cfg) {s : St} (hi : Inv s) (hc : s.crashed = false) (hr : s.ready = [])
    (e : HubEntry) (he : e ∈ s.hub) (f : Nat) (hf : f ∈ e.xl) (huniq : ∀ e' ∈ s.hub, f ∈ e'.xl → e'.tid = e.tid)
    (rt : Nat) (hrt : fdTime cfg.env.xAt f = some rt) (hle : rt ≤ s.now) : e.tid ∈ (idleStep cfg s).ready := by
  by_cases hx : expiredP s.now e = true
  · -- its timeout has expired as well: it is returned as expired
    unfold expiredP at hx
    cases hw : e.tto with
    | none => simp [hw] at hx
    | some w => simp [hw] at hx; exact expired_returns cfg hi hc hr e he w hw hx
  · have hx' : expiredP s.now e = false := by simpa using hx
    have hsc := hubScan_ok s
    obtain ⟨hnd, hmem, hlv⟩ := hubScan_expired_props hi
    have hexp := returnExpired_nc (hubScan s).expired hi hnd hmem
    have hi1 := Inv.returnExpired (hubScan s).expired hi
    have keep : ∀ e ∈ s.hub, (∀ w, e.tto = some w → s.now < w) → e.tid ∈ hubTids (Pox.Recoco.returnExpired s (hubScan s).expired) :=
      fun e he hl => hexp.2 e.tid (List.mem_map_of_mem he) (hlv e he hl)
    have hget : dictGet (hubScan s).xl f = some e.tid := by
      unfold hubScan
      exact scan_xl_get s.now f e.tid s.hub {} huniq (.inr ⟨e, he, hf, hx'⟩)
    have hkey := dictGet_some_key hget
    unfold idleStep
    rw [if_pos hr]
    unfold Pox.Recoco.hubSelect
    simp only []
    rw [if_neg (by rw [hexp.1, hc]; simp)]
    have hnow : (Pox.Recoco.returnExpired s (hubScan s).expired).now = s.now := returnExpired_now _ _
    have hv := vselect_sub cfg.env (Pox.Recoco.returnExpired s (hubScan s).expired).now ((hubScan s).rl.map (·.1))
      ((hubScan s).wl.map (·.1)) ((hubScan s).xl.map (·.1)) (hubTimeout (hubScan s))
      (decide (0 < (Pox.Recoco.returnExpired s (hubScan s).expired).pings)) (hubScan s).timeoutTask.isSome
    have hfro := vselect_ready_now_xl cfg.env (Pox.Recoco.returnExpired s (hubScan s).expired).now ((hubScan s).rl.map (·.1))
      ((hubScan s).wl.map (·.1)) ((hubScan s).xl.map (·.1)) (hubTimeout (hubScan s))
      (decide (0 < (Pox.Recoco.returnExpired s (hubScan s).expired).pings)) (hubScan s).timeoutTask.isSome f rt hkey hrt (by rw [hnow]; exact hle)
    refine hubFinish_ready_fd_xl _ _ ?_ ?_ hv.1 hv.2.1 hv.2.2 ?_ f e.tid hget hfro
    · held hi1
    · show (Pox.Recoco.returnExpired s (hubScan s).expired).crashed = false
      rw [hexp.1]; exact hc
    · intro p hp
      obtain ⟨e', he', het, _, hl⟩ := hsc.fds p hp
      have := keep e' he' hl
      rw [het] at this
      simpa [hubTids] using this

end Pox.Recoco
