import PoxModel.Proofs.STreeBridge
import PoxModel.Proofs.STreeCull
/-! The executable specification `Spec.validForest` (Model/STree.lean) against the notions the C19 theorems are stated in:
    a leaf sequence passes `acyclic`; switches joined by edges get the same component name (`sameComp` is complete), and switches with
    the same component name are joined by edges (`sameComp` is sound).  Core only. -/
namespace Pox.STree
open Spec

/-! ### `acyclic` -/

theorem LeafSeq.sublist : ∀ {es es' : List (Nat × Nat)}, LeafSeq es → es'.Sublist es → LeafSeq es'
  | _, _, h, .slnil => h
  | _, _, h, .cons _ hs => by
    cases h with
    | cons hl _ _ => exact LeafSeq.sublist hl hs
  | _, _, h, .cons_cons _ hs => by
    cases h with
    | cons hl hne hfresh => exact .cons (LeafSeq.sublist hl hs) hne (fun e he => hfresh e (hs.subset he))

theorem removeLeaf_some : ∀ (r pre es' : List (Nat × Nat)), removeLeaf pre r = some es' →
    es'.Sublist (pre ++ r) ∧ es'.length + 1 = (pre ++ r).length
  | [], _, _, h => by simp [removeLeaf] at h
  | e :: r, pre, es', h => by
    unfold removeLeaf at h
    split at h
    · cases h
      exact ⟨(List.sublist_cons_self e r).append_left pre, by simp; omega⟩
    · have := removeLeaf_some r (pre ++ [e]) es' h
      simpa using this

theorem removeLeaf_none : ∀ (r pre : List (Nat × Nat)), removeLeaf pre r = none →
    ∀ a e b, r = a ++ e :: b → isLeafEdge e (pre ++ a ++ b) = false
  | [], _, _, a, e, b, h => by simp at h
  | e0 :: r0, pre, hn, a, e, b, h => by
    unfold removeLeaf at hn
    split at hn
    · cases hn
    · rename_i hleaf
      cases a with
      | nil =>
        simp only [List.nil_append, List.cons.injEq] at h
        obtain ⟨rfl, rfl⟩ := h
        simpa using hleaf
      | cons a0 a' =>
        simp only [List.cons_append, List.cons.injEq] at h
        obtain ⟨rfl, rfl⟩ := h
        have := removeLeaf_none _ (pre ++ [e0]) hn a' e b rfl
        simpa using this

/-- the edge attached last hangs on the others by its fresh end -/
theorem last_is_leaf (a : List (Nat × Nat)) (e : Nat × Nat) (h : LeafSeq (a ++ [e]).reverse) : isLeafEdge e a = true := by
  rw [List.reverse_append] at h
  cases h with
  | cons _ hne hfresh =>
    rename_i v w
    simp only [isLeafEdge, untouched, Bool.and_eq_true, Bool.or_eq_true, decide_eq_true_eq, List.all_eq_true]
    refine ⟨fun c => hne c.symm, .inl ?_⟩
    intro f hf
    exact hfresh f (by simpa using hf)

theorem peel_of_leafSeq : ∀ (n : Nat) (es : List (Nat × Nat)), es.length ≤ n → LeafSeq es.reverse → peel n es = true
  | 0, es, hl, _ => by
    have : es = [] := List.eq_nil_of_length_eq_zero (by omega)
    subst this; rfl
  | n+1, es, hl, h => by
    unfold peel
    by_cases he : es.isEmpty
    · simp [he]
    · simp only [he]
      cases hr : removeLeaf [] es with
      | none =>
        exfalso
        have hne : es ≠ [] := by simpa using he
        obtain ⟨a, e, rfl⟩ : ∃ a e, es = a ++ [e] := ⟨es.dropLast, es.getLast hne, (List.dropLast_concat_getLast hne).symm⟩
        have h1 := removeLeaf_none _ [] hr a e [] rfl
        have h2 := last_is_leaf a e h
        simp at h1
        rw [h1] at h2
        cases h2
      | some es' =>
        obtain ⟨hs, hlen⟩ := removeLeaf_some es [] es' hr
        simp only [List.nil_append] at hs hlen
        exact peel_of_leafSeq n es' (by omega) (LeafSeq.sublist h hs.reverse)

theorem acyclic_of_leafSeq (es : List (Nat × Nat)) (h : LeafSeq es.reverse) : acyclic es = true :=
  peel_of_leafSeq es.length es (Nat.le_refl _) h

/-! ### `sameComp` -/

theorem applySubs_append : ∀ (s1 s2 : List (Nat × Nat)) (l : Nat), applySubs (s1 ++ s2) l = applySubs s2 (applySubs s1 l)
  | [], _, _ => rfl
  | s :: r, s2, l => by simp only [List.cons_append, applySubs]; exact applySubs_append r s2 _

theorem applySubs_addEdge (subs : List (Nat × Nat)) (e : Nat × Nat) (x : Nat) :
    applySubs (addEdge subs e) x =
      if applySubs subs x = applySubs subs e.2 then applySubs subs e.1 else applySubs subs x := by
  simp [addEdge, applySubs_append, applySubs]

theorem foldl_labels : ∀ (es subs : List (Nat × Nat)),
    (∀ x y, applySubs subs x = applySubs subs y → applySubs (es.foldl addEdge subs) x = applySubs (es.foldl addEdge subs) y) ∧
    (∀ e ∈ es, applySubs (es.foldl addEdge subs) e.1 = applySubs (es.foldl addEdge subs) e.2)
  | [], _ => ⟨fun _ _ h => h, fun _ he => by simp at he⟩
  | e0 :: r, subs => by
    obtain ⟨ih1, ih2⟩ := foldl_labels r (addEdge subs e0)
    simp only [List.foldl_cons]
    refine ⟨fun x y h => ih1 x y (by rw [applySubs_addEdge, applySubs_addEdge, h]), ?_⟩
    intro e he
    rcases List.mem_cons.mp he with rfl | he
    · exact ih1 _ _ (by rw [applySubs_addEdge, applySubs_addEdge]; simp)
    · exact ih2 e he

/-- COMPLETE: switches joined by edges have the same component name -/
theorem sameComp_of_conn {es : List (Nat × Nat)} {a b : Nat} (c : Conn es a b) : sameComp es a b = true := by
  simp only [sameComp, decide_eq_true_eq]
  induction c with
  | refl a => rfl
  | edge h => exact (foldl_labels es []).2 _ h
  | symm _ ih => exact ih.symm
  | trans _ _ i1 i2 => exact i1.trans i2

/-- component names are switches joined to the switch they name -/
theorem foldl_names : ∀ (es done subs : List (Nat × Nat)), (∀ x, Conn (done ++ es) x (applySubs subs x)) →
    ∀ x, Conn (done ++ es) x (applySubs (es.foldl addEdge subs) x)
  | [], _, _, h => h
  | e0 :: r, done, subs, h => by
    have hm : ∀ e, e ∈ done ++ e0 :: r ↔ e ∈ (done ++ [e0]) ++ r := by intro e; simp
    have hc : ∀ {x y}, Conn (done ++ e0 :: r) x y ↔ Conn ((done ++ [e0]) ++ r) x y :=
      ⟨Conn.mono (fun e he => (hm e).mp he), Conn.mono (fun e he => (hm e).mpr he)⟩
    intro x
    simp only [List.foldl_cons]
    refine hc.mpr (foldl_names r (done ++ [e0]) (addEdge subs e0) ?_ x)
    intro y
    refine hc.mp ?_
    rw [applySubs_addEdge]
    split
    · rename_i heq
      have h1 : Conn (done ++ e0 :: r) y (applySubs subs e0.2) := heq ▸ h y
      have h2 : Conn (done ++ e0 :: r) e0.1 e0.2 := .edge (by simp)
      exact .trans h1 (.trans (.symm (h e0.2)) (.trans (.symm h2) (h e0.1)))
    · exact h y

/-- SOUND: switches with the same component name are joined by edges -/
theorem conn_of_sameComp {es : List (Nat × Nat)} {a b : Nat} (h : sameComp es a b = true) : Conn es a b := by
  simp only [sameComp, decide_eq_true_eq] at h
  have hn := foldl_names es [] [] (fun x => .refl x)
  simp only [List.nil_append] at hn
  exact .trans (hn a) (h ▸ .symm (hn b))

end Pox.STree
