import PoxModel.Proofs.PacketExt
/-!
# IGMPv3 membership reports (RFC 3376 §4.2): group records, checksum, round trip (C14 phase 2; core only)
-/
namespace Pox.Packet
open Pox Pox.PktLayout Pox.Checksum

def u32sBytes : List Nat → Bytes
  | [] => []
  | a :: r => beEnc 4 a ++ u32sBytes r

theorem u32sBytes_length (l : List Nat) : (u32sBytes l).length = 4 * l.length := by
  induction l with
  | nil => rfl
  | cons a r ih => simp [u32sBytes, ih]; omega

theorem packU32s_ok (l : List Nat) (h : ∀ a ∈ l, a < 4294967296) : packU32s l = .ok (u32sBytes l) := by
  induction l with
  | nil => rfl
  | cons a r ih =>
    have ih' := ih (fun q hq => h q (by simp [hq]))
    simp [packU32s, pk, encode, h a (by simp), ih', u32sBytes, bind, Except.bind, pure, Except.pure]

theorem unpackU32s_rt (l : List Nat) (h : ∀ a ∈ l, a < 4294967296) (rest : Bytes) :
    unpackU32s l.length (u32sBytes l ++ rest) = some (l, rest) := by
  induction l with
  | nil => simp [unpackU32s, u32sBytes]
  | cons a r ih =>
    have ih' := ih (fun q hq => h q (by simp [hq]))
    have hl : ¬ ((u32sBytes (a :: r) ++ rest).length < 4) := by simp [u32sBytes]
    have e1 : (u32sBytes (a :: r) ++ rest).drop 4 = u32sBytes r ++ rest := by
      simp only [u32sBytes, List.append_assoc]; exact drop_left _ _ 4 (by simp)
    have e2 : (u32sBytes (a :: r) ++ rest).take 4 = beEnc 4 a := by
      simp only [u32sBytes, List.append_assoc]; exact take_left _ _ 4 (by simp)
    simp only [unpackU32s, List.length_cons, hl, if_false, e1, e2, ih']
    simp [beDec_beEnc 4 a (by simpa using h a (by simp))]

structure GroupRec.Fits (g : GroupRec) : Prop where
  type : g.type < 256
  addr : g.addr < 4294967296
  srcs : ∀ a ∈ g.srcs, a < 4294967296
  nsrc : g.srcs.length < 65536
  aux4 : g.aux.length % 4 = 0
  auxLen : g.aux.length / 4 < 256

/-- record type, aux data length (in words), number of sources (network order), multicast address, sources, aux data -/
def groupRecBytes (g : GroupRec) : Bytes :=
  (beEnc 1 g.type ++ (beEnc 1 (g.aux.length / 4) ++ (be16 g.srcs.length ++ beEnc 4 g.addr))) ++ (u32sBytes g.srcs ++ g.aux)

def groupRecsBytes : List GroupRec → Bytes
  | [] => []
  | g :: r => groupRecBytes g ++ groupRecsBytes r

theorem groupRecPack_ok (g : GroupRec) (hf : g.Fits) : groupRecPack g = .ok (groupRecBytes g) := by
  simp [groupRecPack, pk, encode, packU32s_ok g.srcs hf.srcs, groupRecBytes, be16, hf.type, hf.auxLen, hf.nsrc, hf.addr,
    bind, Except.bind, pure, Except.pure]

theorem groupRecsPack_ok (gs : List GroupRec) (hf : ∀ g ∈ gs, g.Fits) : groupRecsPack gs = .ok (groupRecsBytes gs) := by
  induction gs with
  | nil => rfl
  | cons g r ih =>
    have ih' := ih (fun q hq => hf q (by simp [hq]))
    simp [groupRecsPack, groupRecPack_ok g (hf g (by simp)), ih', groupRecsBytes, bind, Except.bind, pure, Except.pure]

theorem groupRecUnpack_rt (g : GroupRec) (hf : g.Fits) (rest : Bytes) :
    groupRecUnpack (groupRecBytes g ++ rest) = some (g, rest) := by
  have hhd : (beEnc 1 g.type ++ (beEnc 1 (g.aux.length / 4) ++ (be16 g.srcs.length ++ beEnc 4 g.addr))).length = 8 := by simp
  have hraw : groupRecBytes g ++ rest
      = (beEnc 1 g.type ++ (beEnc 1 (g.aux.length / 4) ++ (be16 g.srcs.length ++ beEnc 4 g.addr)))
        ++ (u32sBytes g.srcs ++ (g.aux ++ rest)) := by simp [groupRecBytes, List.append_assoc]
  have hl : ¬ ((groupRecBytes g ++ rest).length < 8) := by rw [hraw, List.length_append, hhd]; omega
  have g0 : ((groupRecBytes g ++ rest).headD 0).toNat = g.type := by
    simp [groupRecBytes, beEnc, Nat.mod_eq_of_lt hf.type]
  have g1 : (((groupRecBytes g ++ rest).drop 1).headD 0).toNat = g.aux.length / 4 := by
    simp [groupRecBytes, beEnc, Nat.mod_eq_of_lt hf.auxLen]
  have s1 : sl (groupRecBytes g ++ rest) 2 4 = be16 g.srcs.length := by
    rw [hraw]; simp only [List.append_assoc]
    rw [← List.append_assoc (beEnc 1 _) (beEnc 1 _)]
    exact sl_mid (beEnc 1 g.type ++ beEnc 1 (g.aux.length / 4)) _ _ 2 4 (by simp) (by simp)
  have s2 : sl (groupRecBytes g ++ rest) 4 8 = beEnc 4 g.addr := by
    rw [hraw]; simp only [List.append_assoc]
    rw [← List.append_assoc (beEnc 1 _) (beEnc 1 _), ← List.append_assoc (beEnc 1 _ ++ beEnc 1 _) (be16 _)]
    exact sl_mid ((beEnc 1 g.type ++ beEnc 1 (g.aux.length / 4)) ++ be16 g.srcs.length) _ _ 4 8 (by simp) (by simp)
  have d8 : (groupRecBytes g ++ rest).drop 8 = u32sBytes g.srcs ++ (g.aux ++ rest) := by
    rw [hraw]; exact drop_left _ _ 8 hhd.symm
  have haux : g.aux.length / 4 * 4 = g.aux.length := by have := hf.aux4; omega
  unfold groupRecUnpack
  simp only [hl, if_false, g0, g1, s1, s2, d8, be16]
  rw [beDec_beEnc 2 _ (by simpa using hf.nsrc), unpackU32s_rt g.srcs hf.srcs, beDec_beEnc 4 _ (by simpa using hf.addr)]
  simp only [haux]
  rw [take_left g.aux rest _ rfl, drop_left g.aux rest _ rfl]

theorem groupRecsUnpack_rt (gs : List GroupRec) (hf : ∀ g ∈ gs, g.Fits) (rest : Bytes) :
    groupRecsUnpack gs.length (groupRecsBytes gs ++ rest) = some (gs, rest) := by
  induction gs with
  | nil => simp [groupRecsUnpack, groupRecsBytes]
  | cons g r ih =>
    have ih' := ih (fun q hq => hf q (by simp [hq]))
    simp only [groupRecsUnpack, List.length_cons, groupRecsBytes, List.append_assoc,
      groupRecUnpack_rt g (hf g (by simp)), ih']
    simp

structure Igmp.Fits3 (h : Igmp) : Prop where
  vt : h.vt = 0x22
  mrt : h.mrt = 0
  addr : h.addr = none
  groups : ∀ g ∈ h.groups, g.Fits
  ngroups : h.groups.length < 65536
  size : (groupRecsBytes h.groups).length + h.extra.length + 8 ≤ 131072

/-- RFC 3376 §4.2.2: RFC 1071 over the whole report with a zero checksum -/
def igmp3CsumSpec (h : Igmp) : Nat :=
  rfc1071 ([0x22, 0] ++ 0 :: 0 :: (be16 0 ++ (be16 h.groups.length ++ (groupRecsBytes h.groups ++ h.extra))))

def igmp3Bytes (h : Igmp) : Bytes :=
  [0x22, 0] ++ (be16 (igmp3CsumSpec h) ++ (be16 0 ++ (be16 h.groups.length ++ (groupRecsBytes h.groups ++ h.extra))))

theorem igmp3_encode (h : Igmp) (c : Nat) (hf : h.Fits3) (hc : c < 65536) :
    encode igmp3L [.num 0x22, .num 0, .num c, .num 0, .num h.groups.length]
      = some ([0x22, 0] ++ (be16 c ++ (be16 0 ++ be16 h.groups.length))) := by
  simp [igmp3L, encode, be16, hc, hf.ngroups, beEnc]

theorem igmp3_checksum (h : Igmp) (hf : h.Fits3) :
    checksum (([0x22, 0] ++ (be16 0 ++ (be16 0 ++ be16 h.groups.length))) ++ (groupRecsBytes h.groups ++ h.extra)) 0 none
      = igmp3CsumSpec h := by
  have hdata : ([0x22, 0] ++ (be16 0 ++ (be16 0 ++ be16 h.groups.length))) ++ (groupRecsBytes h.groups ++ h.extra)
      = [0x22, 0] ++ 0 :: 0 :: (be16 0 ++ (be16 h.groups.length ++ (groupRecsBytes h.groups ++ h.extra))) := by
    simp [be16_zero, List.append_assoc]
  have hlen : ([0x22, 0] ++ 0 :: 0 :: (be16 0 ++ (be16 h.groups.length ++ (groupRecsBytes h.groups ++ h.extra)))).length
      ≤ 131072 := by have := hf.size; simp; omega
  rw [hdata, checksum_eq _ hlen]; rfl

theorem igmpHdr_v3_ok (h : Igmp) (hf : h.Fits3) :
    igmpHdr h = .ok ({ h with csum := igmp3CsumSpec h }, igmp3Bytes h) := by
  have e0 := igmp3_encode h 0 hf (by decide)
  have ec := igmp3_encode h (igmp3CsumSpec h) hf (rfc1071_lt _)
  unfold igmpHdr
  simp only [hf.vt, if_true, groupRecsPack_ok h.groups hf.groups, pk_of_encode e0, bind, Except.bind, pure, Except.pure,
    igmp3_checksum h hf, pk_of_encode ec]
  simp [igmp3Bytes, List.append_assoc]

theorem igmp3_verifies (h : Igmp) : rfc1071 (igmp3Bytes h) = 0 := by
  unfold igmp3Bytes igmp3CsumSpec
  rw [← List.append_assoc]
  exact rfc1071_verifies _ _ (by simp)

/-- `igmp(raw = hdr)` for a v3 report: the checksum test accepts it and every group record (type, multicast address,
source list, auxiliary data) and any trailing bytes come back -/
theorem igmp_v3_parse (h : Igmp) (hf : h.Fits3) : igmpParse (igmp3Bytes h) = .igmp { h with csum := igmp3CsumSpec h } := by
  have hcs : igmp3CsumSpec h < 65536 := rfc1071_lt _
  have hfit : fits igmp3L [.num 0x22, .num 0, .num (igmp3CsumSpec h), .num 0, .num h.groups.length] := by
    simp [igmp3L, fits, hcs, hf.ngroups]
  have he := igmp3_encode h _ hf hcs
  obtain ⟨hu, hd, hl⟩ := unpack_take igmp3L _ _ (groupRecsBytes h.groups ++ h.extra) he hfit
  have hsz : size igmp3L = 8 := rfl
  rw [hsz] at hu hd hl
  have hraw : igmp3Bytes h = ([0x22, 0] ++ (be16 (igmp3CsumSpec h) ++ (be16 0 ++ be16 h.groups.length)))
      ++ (groupRecsBytes h.groups ++ h.extra) := by simp [igmp3Bytes, List.append_assoc]
  have hhead : ((igmp3Bytes h).headD 0).toNat = 0x22 := by simp [igmp3Bytes]
  have hlen : ¬ ((igmp3Bytes h).length < 8) := by rw [hraw, List.length_append, hl]; omega
  have e0 := igmp3_encode h 0 hf (by decide)
  unfold igmpParse
  rw [hhead]
  simp only [hlen, if_false, if_true]
  rw [hraw, hu, hd]
  simp only [pk_of_encode e0, groupRecsUnpack_rt h.groups hf.groups h.extra, igmp3_checksum h hf]
  have h1 := hf.vt; have h2 := hf.mrt; have h3 := hf.addr
  cases h
  simp_all

end Pox.Packet
