import PoxModel.Proofs.ActionsOutput
/-!
# C12, part 6: `port_mod` replaces exactly the masked, supported configuration bits (bit by bit, for all 32 positions),
and the LINK_DOWN state bit follows a PORT_DOWN change.  Core only.
-/
namespace Pox.Actions
open Pox

/-- configuration bits `_set_port_config_bit` acts on: PORT_DOWN(0) NO_RECV(2) NO_RECV_STP(3) NO_FLOOD(4) NO_FWD(5)
NO_PACKET_IN(6); NO_STP(1) is accepted but never changed, everything else is "unsupported" -/
def handledIdx (i : Nat) : Bool := i == 0 || i == 2 || i == 3 || i == 4 || i == 5 || i == 6

theorem two_pow_inj {i k : Nat} : 2 ^ i = 2 ^ k ↔ i = k := Nat.pow_right_inj (by decide)

theorem eq_of_xor_eq_zero {a b : Nat} (h : a ^^^ b = 0) : a = b := by
  apply Nat.eq_of_testBit_eq
  intro i
  have : (a ^^^ b).testBit i = false := by rw [h]; exact Nat.zero_testBit i
  rw [Nat.testBit_xor] at this
  cases ha : a.testBit i <;> cases hb : b.testBit i <;> simp [ha, hb] at this ⊢

theorem has_two_pow (x i : Nat) : has x (2 ^ i) = x.testBit i := by
  unfold has
  cases hx : x.testBit i with
  | true =>
    have : (x &&& 2 ^ i).testBit i = true := by rw [Nat.testBit_and, Nat.testBit_two_pow, hx]; simp
    have hne : x &&& 2 ^ i ≠ 0 := by intro e; rw [e, Nat.zero_testBit] at this; cases this
    simpa using hne
  | false =>
    have : x &&& 2 ^ i = 0 := by
      apply Nat.eq_of_testBit_eq
      intro j
      rw [Nat.testBit_and, Nat.testBit_two_pow, Nat.zero_testBit]
      by_cases hj : i = j
      · subst hj; simp [hx]
      · simp [hj]
    simp [this]

theorem clearBits_testBit (x i j : Nat) : (clearBits x (2 ^ i)).testBit j = (x.testBit j && !decide (i = j)) := by
  unfold clearBits
  rw [Nat.testBit_xor, Nat.testBit_and, Nat.testBit_two_pow]
  cases x.testBit j <;> cases decide (i = j) <;> rfl

theorem newConfig_testBit (x config i j : Nat) :
    (clearBits x (2 ^ i) ||| (config &&& 2 ^ i)).testBit j = if i = j then config.testBit j else x.testBit j := by
  rw [Nat.testBit_or, clearBits_testBit, Nat.testBit_and, Nat.testBit_two_pow]
  by_cases h : i = j
  · subst h; simp
  · simp [h]

theorem handled_cond (i : Nat) :
    (2 ^ i = PC_PORT_DOWN || 2 ^ i = PC_NO_RECV || 2 ^ i = PC_NO_RECV_STP || 2 ^ i = PC_NO_FLOOD || 2 ^ i = PC_NO_FWD
      || 2 ^ i = PC_NO_PACKET_IN : Bool) = (handledIdx i && !(i == 1)) := by
  have e0 : PC_PORT_DOWN = 2 ^ 0 := rfl
  have e2 : PC_NO_RECV = 2 ^ 2 := rfl
  have e3 : PC_NO_RECV_STP = 2 ^ 3 := rfl
  have e4 : PC_NO_FLOOD = 2 ^ 4 := rfl
  have e5 : PC_NO_FWD = 2 ^ 5 := rfl
  have e6 : PC_NO_PACKET_IN = 2 ^ 6 := rfl
  rw [e0, e2, e3, e4, e5, e6]
  simp only [two_pow_inj, handledIdx]
  by_cases h0 : i = 0 <;> by_cases h2 : i = 2 <;> by_cases h3 : i = 3 <;> by_cases h4 : i = 4 <;> by_cases h5 : i = 5 <;>
    by_cases h6 : i = 6 <;> by_cases h1 : i = 1 <;> simp_all

/-- one round of the loop: bit `i` of the configuration becomes bit `i` of the requested one if the bit is supported,
every other bit stays; number and hardware address stay -/
theorem setBitStep_config (p : Port) (i config : Nat) :
    (setBitStep p (2 ^ i) (config &&& 2 ^ i)).1.no = p.no ∧ (setBitStep p (2 ^ i) (config &&& 2 ^ i)).1.hw = p.hw ∧
    ∀ j, (setBitStep p (2 ^ i) (config &&& 2 ^ i)).1.config.testBit j =
      if i = j ∧ handledIdx i = true then config.testBit j else p.config.testBit j := by
  unfold setBitStep
  by_cases h1 : i = 1
  · subst h1
    have : (2 : Nat) ^ 1 = PC_NO_STP := rfl
    simp [this, handledIdx]
  · have hne : ¬ (2 ^ i = PC_NO_STP) := by
      have : PC_NO_STP = 2 ^ 1 := rfl
      rw [this, two_pow_inj]; exact h1
    simp only [hne, if_false, handled_cond i]
    have hb : (i == 1) = false := by simpa using h1
    simp only [hb, Bool.not_false, Bool.and_true]
    cases hh : handledIdx i with
    | false => simp
    | true =>
      simp only [Bool.not_true, Bool.false_eq_true, if_false, and_true]
      split
      · split
        · exact ⟨rfl, rfl, fun j => newConfig_testBit _ _ _ _⟩
        · exact ⟨rfl, rfl, fun j => newConfig_testBit _ _ _ _⟩
      · rename_i hz
        have hz' : p.config ^^^ (clearBits p.config (2 ^ i) ||| config &&& 2 ^ i) = 0 := by simpa using hz
        have heq : p.config = clearBits p.config (2 ^ i) ||| config &&& 2 ^ i := eq_of_xor_eq_zero hz'
        refine ⟨rfl, rfl, fun j => ?_⟩
        have := newConfig_testBit p.config config i j
        rw [← heq] at this
        exact this

/-- the whole loop over distinct bit positions -/
theorem portModBits_config (config mask : Nat) : ∀ (l : List Nat) (p : Port), l.Nodup →
    (portModBits config mask l p).1.no = p.no ∧ (portModBits config mask l p).1.hw = p.hw ∧
    ∀ j, (portModBits config mask l p).1.config.testBit j =
      if j ∈ l ∧ mask.testBit j = true ∧ handledIdx j = true then config.testBit j else p.config.testBit j := by
  intro l
  induction l with
  | nil => intro p _; simp [portModBits]
  | cons i rest ih =>
    intro p hnd
    obtain ⟨hni, hrest⟩ := List.nodup_cons.mp hnd
    simp only [portModBits, has_two_pow]
    cases hm : mask.testBit i with
    | false =>
      simp only [Bool.false_eq_true, if_false]
      obtain ⟨a, b, c⟩ := ih p hrest
      refine ⟨a, b, fun j => ?_⟩
      rw [c j]
      by_cases hj : j = i
      · subst hj; simp [hni, hm]
      · simp [hj]
    | true =>
      simp only [if_true]
      obtain ⟨s1, s2, s3⟩ := setBitStep_config p i config
      obtain ⟨a, b, c⟩ := ih (setBitStep p (2 ^ i) (config &&& 2 ^ i)).1 hrest
      refine ⟨a.trans s1, b.trans s2, fun j => ?_⟩
      rw [c j, s3 j]
      by_cases hj : j = i
      · subst hj; simp [hni, hm]
      · have hj' : ¬ i = j := fun e => hj e.symm
        simp [hj, hj']

theorem range32_nodup : (List.range 32).Nodup := List.nodup_range

/-- **port-mod**: for a port that exists and whose hardware address matches, bit `j` of the new configuration is bit `j`
of the request if `j < 32`, the mask selects it and the switch supports it, and the old bit otherwise; no other port and
no counter changes; no frame is emitted.  Unknown port / wrong address: an error and no change. -/
theorem portMod_spec (sw : Sw) (no : Nat) (hw : Bytes) (config mask : Nat) :
    (findPort sw.ports no = none → portMod sw no hw config mask = (sw, [.error 4 0])) ∧
    (∀ p, findPort sw.ports no = some p → p.hw ≠ hw → portMod sw no hw config mask = (sw, [.error 4 1])) ∧
    (∀ p, findPort sw.ports no = some p → p.hw = hw →
      ∃ p' o, portMod sw no hw config mask = ({ sw with ports := mapPort sw.ports no fun _ => p' }, o) ∧
        p'.no = p.no ∧ p'.hw = p.hw ∧
        ∀ j, p'.config.testBit j =
          if j < 32 ∧ mask.testBit j = true ∧ handledIdx j = true then config.testBit j else p.config.testBit j) := by
  refine ⟨fun h => by simp [portMod, h], fun p h hne => by simp [portMod, h, hne], fun p h he => ?_⟩
  obtain ⟨a, b, c⟩ := portModBits_config config mask (List.range 32) p range32_nodup
  refine ⟨(portModBits config mask (List.range 32) p).1, (portModBits config mask (List.range 32) p).2, ?_, a, b, ?_⟩
  · simp [portMod, h, he]
  · intro j; rw [c j]; simp [List.mem_range]

/-- LINK_DOWN follows the administrative state: a round for PORT_DOWN that changes the configuration bit sets the
LINK_DOWN state bit to it; every other round leaves the state alone -/
theorem setBitStep_state (p : Port) (i config : Nat) :
    (setBitStep p (2 ^ i) (config &&& 2 ^ i)).1.state =
      if i = 0 ∧ config.testBit 0 ≠ p.config.testBit 0 then
        (if config.testBit 0 then clearBits p.state PS_LINK_DOWN ||| PS_LINK_DOWN else clearBits p.state PS_LINK_DOWN)
      else p.state := by
  unfold setBitStep
  by_cases h1 : i = 1
  · subst h1
    have : (2 : Nat) ^ 1 = PC_NO_STP := rfl
    simp [this]
  · have hne : ¬ (2 ^ i = PC_NO_STP) := by
      have : PC_NO_STP = 2 ^ 1 := rfl
      rw [this, two_pow_inj]; exact h1
    simp only [hne, if_false, handled_cond i]
    have hb : (i == 1) = false := by simpa using h1
    simp only [hb, Bool.not_false, Bool.and_true]
    cases hh : handledIdx i with
    | false =>
      have h0 : i ≠ 0 := by intro e; subst e; simp [handledIdx] at hh
      simp [h0]
    | true =>
      simp only [Bool.not_true, Bool.false_eq_true, if_false]
      have hbit := newConfig_testBit p.config config i
      by_cases h0 : i = 0
      · subst h0
        have e0 : (2 : Nat) ^ 0 = PC_PORT_DOWN := rfl
        have hc0 := hbit 0
        simp only [if_true] at hc0
        split
        · rename_i hz
          have hz' : p.config ≠ clearBits p.config (2 ^ 0) ||| config &&& 2 ^ 0 := by
            intro e; apply (show ¬ (p.config ^^^ (clearBits p.config (2 ^ 0) ||| config &&& 2 ^ 0) != 0) = true from ?_) hz
            rw [← e]; simp
          have hdiff : config.testBit 0 ≠ p.config.testBit 0 := by
            intro e
            apply hz'
            apply Nat.eq_of_testBit_eq
            intro j
            rw [hbit j]
            by_cases hj : 0 = j
            · subst hj; simp [e]
            · simp [hj]
          have hhas : has (clearBits p.config (2 ^ 0) ||| config &&& 2 ^ 0) (2 ^ 0) = config.testBit 0 := by
            rw [has_two_pow, hc0]
          rw [e0] at hhas
          simp only [e0, if_true, true_and, ne_eq, hdiff, not_false_eq_true]
          cases hc : config.testBit 0 <;> simp [hhas, hc]
        · rename_i hz
          have hz' : p.config ^^^ (clearBits p.config (2 ^ 0) ||| config &&& 2 ^ 0) = 0 := by simpa using hz
          have heq := eq_of_xor_eq_zero hz'
          have : config.testBit 0 = p.config.testBit 0 := by rw [← hc0, ← heq]
          simp [this]
      · have hpd : ¬ (2 ^ i = PC_PORT_DOWN) := by
          have : PC_PORT_DOWN = 2 ^ 0 := rfl
          rw [this, two_pow_inj]; exact h0
        simp only [hpd, if_false, h0, false_and]
        split <;> rfl

end Pox.Actions
