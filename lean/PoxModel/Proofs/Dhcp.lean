import PoxModel.Proofs.PacketValid
/-!
# DHCP (dhcp.py): option TLVs incl. RFC 3396 long-option split/merge, and the whole message (C14 phase 4; core only)
-/
namespace Pox.Packet
open Pox Pox.PktLayout Pox.Checksum

/-! ## serialisation in closed form -/

def dhcpPad (v : Bytes) : Bytes := if v.length % 2 = 1 then [0] else []

/-- one `addPart`: code, length, value, and a PAD octet when the part would have odd length -/
def dhcpPartBytes (k : Nat) (v : Bytes) : Bytes := UInt8.ofNat k :: UInt8.ofNat v.length :: (v ++ dhcpPad v)

def dhcpPartsBytes (k : Nat) : List Bytes → Bytes
  | [] => []
  | c :: r => dhcpPartBytes k c ++ dhcpPartsBytes k r

/-- the parts an option value is written in: at most 255 bytes each (RFC 3396) -/
def dhcpParts (v : Bytes) : List Bytes := if v.length > 255 then chunks255 v.length v else [v]

def dhcpOptsBody : List (Nat × Bytes) → Bytes
  | [] => []
  | kv :: r => dhcpPartsBytes kv.1 (dhcpParts kv.2) ++ dhcpOptsBody r

def dhcpNParts : List (Nat × Bytes) → Nat
  | [] => 0
  | kv :: r => (dhcpParts kv.2).length + dhcpNParts r

/-- option codes are 1..254 and pairwise distinct (the option store is a dictionary); values are arbitrary byte strings -/
structure DhcpOptsOK (opts : List (Nat × Bytes)) : Prop where
  code : ∀ kv ∈ opts, kv.1 ≠ 0 ∧ kv.1 < 255
  nodup : (opts.map Prod.fst).Nodup

theorem dhcpAddPart_ok (k : Nat) (v : Bytes) (hk : k < 256) (hv : v.length < 256) : dhcpAddPart k v = .ok (dhcpPartBytes k v) := by
  have h : ¬ (k ≥ 256 ∨ v.length ≥ 256) := by omega
  unfold dhcpAddPart
  rw [if_neg h]
  simp only [dhcpPartBytes, dhcpPad, pure, Except.pure, List.length_cons]
  by_cases hp : v.length % 2 = 1
  · rw [if_pos (by omega), if_pos hp]; simp
  · rw [if_neg (by omega), if_neg hp]; simp

theorem dhcpAddParts_ok (k : Nat) (hk : k < 256) (cs : List Bytes) (hc : ∀ c ∈ cs, c.length < 256) :
    dhcpAddParts k cs = .ok (dhcpPartsBytes k cs) := by
  induction cs with
  | nil => rfl
  | cons c r ih =>
    simp [dhcpAddParts, dhcpPartsBytes, dhcpAddPart_ok k c hk (hc c (by simp)), ih (fun q hq => hc q (by simp [hq])),
      bind, Except.bind, pure, Except.pure]

theorem chunks255_spec : ∀ (f : Nat) (v : Bytes), v.length ≤ f →
    (chunks255 f v).flatten = v ∧ (∀ c ∈ chunks255 f v, c.length < 256) ∧ (v ≠ [] → chunks255 f v ≠ []) := by
  intro f
  induction f with
  | zero => intro v hv; have : v = [] := List.eq_nil_of_length_eq_zero (by omega); subst this; simp [chunks255]
  | succ f ih =>
    intro v hv
    by_cases he : v = []
    · subst he; simp [chunks255]
    · have hl : 0 < v.length := List.length_pos_iff.mpr he
      obtain ⟨i1, i2, _⟩ := ih (v.drop 255) (by simp; omega)
      simp only [chunks255, if_neg he]
      refine ⟨by simp [i1], ?_, by simp⟩
      intro c hc
      rcases List.mem_cons.mp hc with h | h
      · subst h; simp; omega
      · exact i2 c h

theorem dhcpParts_spec (v : Bytes) : (dhcpParts v).flatten = v ∧ (∀ c ∈ dhcpParts v, c.length < 256) ∧ dhcpParts v ≠ [] := by
  unfold dhcpParts
  by_cases h : v.length > 255
  · rw [if_pos h]
    obtain ⟨a, b, c⟩ := chunks255_spec v.length v (Nat.le_refl _)
    exact ⟨a, b, c (by intro e; subst e; simp at h)⟩
  · rw [if_neg h]
    refine ⟨by simp, ?_, by simp⟩
    intro c hc; simp at hc; subst hc; omega

theorem dhcpPackOpts_ok (opts : List (Nat × Bytes)) (hok : DhcpOptsOK opts) :
    dhcpPackOpts opts = .ok (dhcpOptsBody opts ++ [255]) := by
  have hcode := hok.code
  clear hok
  induction opts with
  | nil => rfl
  | cons kv r ih =>
    obtain ⟨k, v⟩ := kv
    obtain ⟨h0, h255⟩ := hcode (k, v) (by simp)
    have hk : ¬ (k = 255 ∨ k = 0) := by simp at h0 h255; omega
    have sp := dhcpParts_spec v
    have ihr := ih (fun q hq => hcode q (by simp [hq]))
    unfold dhcpParts at sp
    unfold dhcpPackOpts
    rw [if_neg hk]
    by_cases h : v.length > 255
    · rw [if_pos h] at sp
      rw [if_pos h, dhcpAddParts_ok k (by simp at h255; omega) _ sp.2.1, ihr]
      simp only [bind, Except.bind, pure, Except.pure, dhcpOptsBody, dhcpParts, if_pos h, List.append_assoc]
    · rw [if_neg h, dhcpAddPart_ok k v (by simp at h255; omega) (by omega), ihr]
      simp only [bind, Except.bind, pure, Except.pure, dhcpOptsBody, dhcpParts, if_neg h, dhcpPartsBytes, List.append_nil,
        List.append_assoc]

/-! ## `parseOptionSegment` on the packed options -/

/-- with at least `n` loop iterations left, the parser at offset `ofs` with the dictionary `acc` ends with `res` -/
def SegReaches (X : Bytes) (n ofs : Nat) (acc res : List (Nat × Bytes)) : Prop :=
  ∀ f, n ≤ f → dhcpParseSeg f X ofs acc = res

theorem SegReaches.mono {X : Bytes} {n m ofs : Nat} {acc res : List (Nat × Bytes)} (h : SegReaches X n ofs acc res) (hm : n ≤ m) :
    SegReaches X m ofs acc res := fun f hf => h f (by omega)

theorem seg_end (X A T : Bytes) (acc : List (Nat × Bytes)) (hX : X = A ++ 255 :: T) : SegReaches X 1 A.length acc acc := by
  intro f hf
  cases f with
  | zero => omega
  | succ f =>
    have hg : getU8 X A.length = some 255 := by subst hX; simp [getU8]
    have hl : A.length < X.length := by subst hX; simp
    unfold dhcpParseSeg
    simp [hl, hg]

theorem seg_pad (X A R v : Bytes) (n : Nat) (acc res : List (Nat × Bytes)) (hX : X = A ++ (dhcpPad v ++ R))
    (h : SegReaches X n (A.length + (dhcpPad v).length) acc res) : SegReaches X (n + 1) A.length acc res := by
  unfold dhcpPad at hX h
  by_cases hp : v.length % 2 = 1
  · rw [if_pos hp] at hX h
    intro f hf
    cases f with
    | zero => omega
    | succ f =>
      have hg : getU8 X A.length = some 0 := by subst hX; simp [getU8]
      have hl : A.length < X.length := by subst hX; simp
      unfold dhcpParseSeg
      simp only [hl, if_true, hg, show ¬ ((0 : Nat) = 255) by decide, if_false]
      exact h f (by omega)
  · rw [if_neg hp] at h
    exact SegReaches.mono (by simpa using h) (by omega)

theorem seg_part (X A R v : Bytes) (k n : Nat) (acc res : List (Nat × Bytes)) (hk0 : k ≠ 0) (hk : k < 255) (hv : v.length < 256)
    (hX : X = A ++ (dhcpPartBytes k v ++ R))
    (h : SegReaches X n (A.length + (dhcpPartBytes k v).length) (dhcpUpsert acc k v) res) :
    SegReaches X (n + 2) A.length acc res := by
  have hpl : (dhcpPartBytes k v).length = 2 + v.length + (dhcpPad v).length := by simp [dhcpPartBytes]; omega
  have g0 : getU8 X A.length = some k := by
    have := getU8_at' A (dhcpPartBytes k v) R 0 (by omega)
    rw [← hX, Nat.add_zero] at this
    rw [this]; simp [dhcpPartBytes, getU8, Nat.mod_eq_of_lt (show k < 256 by omega)]
  have g1 : getU8 X (A.length + 1) = some v.length := by
    have := getU8_at' A (dhcpPartBytes k v) R 1 (by omega)
    rw [← hX] at this
    rw [this]; simp [dhcpPartBytes, getU8, Nat.mod_eq_of_lt hv]
  have hs : sl X (A.length + 2) (A.length + 2 + v.length) = v := by
    have := sl_at A (dhcpPartBytes k v) R 2 (2 + v.length) (by omega)
    rw [← hX] at this
    rw [Nat.add_assoc, this]
    exact sl_mid [UInt8.ofNat k, UInt8.ofNat v.length] v (dhcpPad v) 2 (2 + v.length) rfl rfl
  have hxl : X.length = A.length + (2 + v.length + (dhcpPad v).length) + R.length := by
    subst hX; simp [hpl]; omega
  have hX2 : X = (A ++ (UInt8.ofNat k :: UInt8.ofNat v.length :: v)) ++ (dhcpPad v ++ R) := by
    subst hX; simp [dhcpPartBytes]
  have hrest : SegReaches X (n + 1) (A.length + 2 + v.length) (dhcpUpsert acc k v) res := by
    have := seg_pad X (A ++ (UInt8.ofNat k :: UInt8.ofNat v.length :: v)) R v n (dhcpUpsert acc k v) res hX2
      (by
        have e : (A ++ (UInt8.ofNat k :: UInt8.ofNat v.length :: v)).length + (dhcpPad v).length
            = A.length + (dhcpPartBytes k v).length := by simp [hpl]; omega
        rw [e]; exact h)
    have e2 : (A ++ (UInt8.ofNat k :: UInt8.ofNat v.length :: v)).length = A.length + 2 + v.length := by simp; omega
    rw [e2] at this
    exact this
  intro f hf
  cases f with
  | zero => omega
  | succ f =>
    unfold dhcpParseSeg
    rw [if_pos (by omega), g0]
    simp only [if_neg (show ¬ k = 255 by omega), if_neg hk0, if_neg (show ¬ (A.length + 1 ≥ X.length) by omega), g1,
      if_neg (show ¬ (A.length + 2 + v.length > X.length) by omega), hs]
    exact hrest f (by omega)

theorem dhcpUpsert_new (acc : List (Nat × Bytes)) (k : Nat) (v : Bytes) (h : k ∉ acc.map Prod.fst) :
    dhcpUpsert acc k v = acc ++ [(k, v)] := by
  induction acc with
  | nil => rfl
  | cons a r ih =>
    obtain ⟨k', v'⟩ := a
    simp at h
    simp only [dhcpUpsert, if_neg (show ¬ k' = k by omega), List.cons_append]
    rw [ih (by simp; exact h.2)]

theorem dhcpUpsert_last (acc : List (Nat × Bytes)) (k : Nat) (x v : Bytes) (h : k ∉ acc.map Prod.fst) :
    dhcpUpsert (acc ++ [(k, x)]) k v = acc ++ [(k, x ++ v)] := by
  induction acc with
  | nil => simp [dhcpUpsert]
  | cons a r ih =>
    obtain ⟨k', v'⟩ := a
    simp at h
    simp only [List.cons_append, dhcpUpsert, if_neg (show ¬ k' = k by omega)]
    rw [ih (by simp; exact h.2)]

/-- the continuation parts of a long option are appended to the entry the first part created -/
theorem seg_parts (k : Nat) (hk0 : k ≠ 0) (hk : k < 255) (acc res : List (Nat × Bytes)) (hacc : k ∉ acc.map Prod.fst) (X R : Bytes) :
    ∀ (cs : List Bytes) (A x : Bytes) (n : Nat), (∀ c ∈ cs, c.length < 256) → X = A ++ (dhcpPartsBytes k cs ++ R) →
      SegReaches X n (A.length + (dhcpPartsBytes k cs).length) (acc ++ [(k, x ++ cs.flatten)]) res →
      SegReaches X (n + 2 * cs.length) A.length (acc ++ [(k, x)]) res := by
  intro cs
  induction cs with
  | nil => intro A x n _ _ h; simpa [dhcpPartsBytes] using h
  | cons c r ih =>
    intro A x n hc hX h
    have hX1 : X = A ++ (dhcpPartBytes k c ++ (dhcpPartsBytes k r ++ R)) := by rw [hX]; simp [dhcpPartsBytes]
    have hX2 : X = (A ++ dhcpPartBytes k c) ++ (dhcpPartsBytes k r ++ R) := by rw [hX]; simp [dhcpPartsBytes]
    have step := ih (A ++ dhcpPartBytes k c) (x ++ c) n (fun q hq => hc q (by simp [hq])) hX2
      (by
        have e : (A ++ dhcpPartBytes k c).length + (dhcpPartsBytes k r).length
            = A.length + (dhcpPartsBytes k (c :: r)).length := by simp [dhcpPartsBytes]; omega
        rw [e]; simpa [List.append_assoc] using h)
    have := seg_part X A (dhcpPartsBytes k r ++ R) c k (n + 2 * r.length) (acc ++ [(k, x)]) res hk0 hk (hc c (by simp)) hX1
      (by rw [dhcpUpsert_last acc k x c hacc]; simpa using step)
    exact SegReaches.mono this (by simp; omega)

theorem dhcpOptsBody_len (opts : List (Nat × Bytes)) : 2 * dhcpNParts opts ≤ (dhcpOptsBody opts).length := by
  have parts : ∀ k (cs : List Bytes), 2 * cs.length ≤ (dhcpPartsBytes k cs).length := by
    intro k cs
    induction cs with
    | nil => simp
    | cons c r ih => simp [dhcpPartsBytes, dhcpPartBytes]; omega
  induction opts with
  | nil => simp [dhcpNParts]
  | cons kv r ih =>
    have := parts kv.1 (dhcpParts kv.2)
    simp [dhcpNParts, dhcpOptsBody]; omega

theorem seg_opts (res : List (Nat × Bytes)) (X R : Bytes) :
    ∀ (opts : List (Nat × Bytes)) (A : Bytes) (acc : List (Nat × Bytes)) (n : Nat),
      (∀ kv ∈ opts, kv.1 ≠ 0 ∧ kv.1 < 255) → ((acc ++ opts).map Prod.fst).Nodup → X = A ++ (dhcpOptsBody opts ++ R) →
      SegReaches X n (A.length + (dhcpOptsBody opts).length) (acc ++ opts) res →
      SegReaches X (n + 2 * dhcpNParts opts) A.length acc res := by
  intro opts
  induction opts with
  | nil => intro A acc n _ _ _ h; simpa [dhcpOptsBody, dhcpNParts] using h
  | cons kv r ih =>
    intro A acc n hcode hnd hX h
    obtain ⟨k, v⟩ := kv
    obtain ⟨hk0, hk⟩ := hcode (k, v) (by simp)
    simp only at hk0 hk
    obtain ⟨pf, pl, pne⟩ := dhcpParts_spec v
    have hacc : k ∉ acc.map Prod.fst := by
      intro hin
      simp only [List.map_append, List.map_cons] at hnd
      have := (List.nodup_append.mp hnd).2.2 k hin k (by simp)
      exact this rfl
    have hnd' : (((acc ++ [(k, v)]) ++ r).map Prod.fst).Nodup := by simpa [List.append_assoc] using hnd
    match hps : dhcpParts v, pne with
    | c :: cs, _ =>
      rw [hps] at pf pl
      have hX0 : X = A ++ (dhcpPartsBytes k (c :: cs) ++ (dhcpOptsBody r ++ R)) := by
        rw [hX]; simp [dhcpOptsBody, hps]
      have hXr : X = (A ++ dhcpPartsBytes k (c :: cs)) ++ (dhcpOptsBody r ++ R) := by rw [hX0]; simp
      have e : (A ++ dhcpPartsBytes k (c :: cs)).length + (dhcpOptsBody r).length
          = A.length + (dhcpOptsBody ((k, v) :: r)).length := by simp [dhcpOptsBody, hps]; omega
      have s1 := ih (A ++ dhcpPartsBytes k (c :: cs)) (acc ++ [(k, v)]) n (fun q hq => hcode q (by simp [hq])) hnd' hXr
        (by rw [e]; simpa [List.append_assoc] using h)
      -- the continuation parts
      have hX1 : X = (A ++ dhcpPartBytes k c) ++ (dhcpPartsBytes k cs ++ (dhcpOptsBody r ++ R)) := by
        rw [hX0]; simp [dhcpPartsBytes]
      have e1 : (A ++ dhcpPartBytes k c).length + (dhcpPartsBytes k cs).length = (A ++ dhcpPartsBytes k (c :: cs)).length := by
        simp [dhcpPartsBytes]; omega
      have hv : c ++ cs.flatten = v := by simpa using pf
      have s2 := seg_parts k hk0 hk acc res hacc X (dhcpOptsBody r ++ R) cs (A ++ dhcpPartBytes k c) c (n + 2 * dhcpNParts r)
        (fun q hq => pl q (by simp [hq])) hX1 (by rw [e1, hv]; exact s1)
      -- the first part creates the entry
      have hX2 : X = A ++ (dhcpPartBytes k c ++ (dhcpPartsBytes k cs ++ (dhcpOptsBody r ++ R))) := by
        rw [hX0]; simp [dhcpPartsBytes]
      have s3 := seg_part X A (dhcpPartsBytes k cs ++ (dhcpOptsBody r ++ R)) c k (n + 2 * dhcpNParts r + 2 * cs.length) acc res
        hk0 hk (pl c (by simp)) hX2 (by rw [dhcpUpsert_new acc k c hacc]; simpa using s2)
      exact SegReaches.mono s3 (by simp [dhcpNParts, hps]; omega)

/-- **DHCP option round trip**: `parseOptionSegment` on the packed options returns the option dictionary that was packed,
in order — including values longer than 255 bytes, which are split on the wire and concatenated again (RFC 3396) — and
ignores whatever follows the END option -/
theorem dhcp_opts_rt (opts : List (Nat × Bytes)) (hok : DhcpOptsOK opts) (T : Bytes) (f : Nat)
    (hf : (dhcpOptsBody opts).length + 1 ≤ f) : dhcpParseSeg f (dhcpOptsBody opts ++ 255 :: T) 0 [] = opts := by
  have hend := seg_end (dhcpOptsBody opts ++ 255 :: T) (dhcpOptsBody opts) T opts rfl
  have := seg_opts opts (dhcpOptsBody opts ++ 255 :: T) (255 :: T) opts [] [] 1 hok.code (by simpa using hok.nodup) (by simp)
    (by simpa using hend)
  exact this f (by have := dhcpOptsBody_len opts; omega)

/-! ## the whole message -/

structure Dhcp.Fits (h : Dhcp) : Prop where
  op : h.op < 256
  htype : h.htype < 256
  hlen : h.hlen ≤ 16
  hops : h.hops < 256
  xid : h.xid < 4294967296
  secs : h.secs < 65536
  flags : h.flags < 65536
  ciaddr : h.ciaddr < 4294967296
  yiaddr : h.yiaddr < 4294967296
  siaddr : h.siaddr < 4294967296
  giaddr : h.giaddr < 4294967296
  chaddr : h.chaddr.length = 16
  /-- an Ethernet hardware address is kept as an `EthAddr`: the ten bytes after it are not part of the object -/
  chaddr6 : h.hlen = 6 → h.chaddr.drop 6 = List.replicate 10 0
  sname : h.sname.length = 64
  file : h.file.length = 128
  magic : h.magic = DHCP_MAGIC
  opts : DhcpOptsOK h.opts
  some : h.opts ≠ []

def dhcpNumL : Layout := [.uint 1, .uint 1, .uint 1, .uint 1, .uint 4, .uint 2, .uint 2, .uint 4, .uint 4, .uint 4, .uint 4]

def dhcpNumVals (h : Dhcp) : List Val :=
  [.num h.op, .num h.htype, .num h.hlen, .num h.hops, .num h.xid, .num h.secs, .num h.flags, .num h.ciaddr, .num h.yiaddr,
   .num h.siaddr, .num h.giaddr]

def dhcpNumBytes (h : Dhcp) : Bytes :=
  beEnc 1 h.op ++ (beEnc 1 h.htype ++ (beEnc 1 h.hlen ++ (beEnc 1 h.hops ++ (beEnc 4 h.xid ++ (beEnc 2 h.secs ++ (beEnc 2 h.flags ++
    (beEnc 4 h.ciaddr ++ (beEnc 4 h.yiaddr ++ (beEnc 4 h.siaddr ++ beEnc 4 h.giaddr)))))))))

/-- the 236 fixed bytes, the magic cookie, the options and the END option -/
def dhcpBytes (h : Dhcp) : Bytes :=
  dhcpNumBytes h ++ (h.chaddr ++ (h.sname ++ (h.file ++ (h.magic ++ (dhcpOptsBody h.opts ++ [255])))))

theorem dhcpNum_fits (h : Dhcp) (hf : h.Fits) : fits dhcpNumL (dhcpNumVals h) := by
  have := hf.hlen
  simp [fits, dhcpNumL, dhcpNumVals, hf.op, hf.htype, hf.hops, hf.xid, hf.secs, hf.flags, hf.ciaddr, hf.yiaddr, hf.siaddr, hf.giaddr]
  omega

theorem dhcpNum_encode (h : Dhcp) (hf : h.Fits) : encode dhcpNumL (dhcpNumVals h) = some (dhcpNumBytes h) := by
  have : h.hlen < 256 := by have := hf.hlen; omega
  simp [encode, dhcpNumL, dhcpNumVals, dhcpNumBytes, hf.op, hf.htype, hf.hops, hf.xid, hf.secs, hf.flags, hf.ciaddr, hf.yiaddr,
    hf.siaddr, hf.giaddr, this]

theorem padTo_id (n : Nat) (b : Bytes) (h : b.length = n) : padTo n b = b := by
  unfold padTo; rw [List.take_append_of_le_length (by omega), List.take_of_length_le (by omega)]

theorem dhcpHdr_ok (h : Dhcp) (hf : h.Fits) :
    dhcpHdr h = .ok ({ h with rawOpts := dhcpOptsBody h.opts ++ [255] }, dhcpBytes h) := by
  have hl : h.hlen < 256 := by have := hf.hlen; omega
  have he : h.opts.isEmpty = false := by
    cases ho : h.opts with
    | nil => exact absurd ho hf.some
    | cons a r => rfl
  have hm : h.magic.length = 4 := by rw [hf.magic]; rfl
  unfold dhcpHdr
  rw [he]
  simp only [Bool.false_eq_true, if_false, dhcpPackOpts_ok h.opts hf.opts, bind, Except.bind]
  simp [pk, dhcpL, encode, padTo_id, hf.op, hf.htype, hf.hops, hf.xid, hf.secs, hf.flags, hf.ciaddr, hf.yiaddr, hf.siaddr,
    hf.giaddr, hl, hf.chaddr, hf.sname, hf.file, hm, pure, Except.pure, dhcpBytes, dhcpNumBytes, List.append_assoc]

/-- **DHCP message round trip**: every fixed field, the hardware address, `sname`, `file`, the cookie and the whole option
dictionary come back; the only difference is `_raw_options`, which the parser fills with the option bytes it read -/
theorem dhcp_parse (h : Dhcp) (hf : h.Fits) :
    dhcpParse (dhcpBytes h) = .dhcp { h with rawOpts := dhcpOptsBody h.opts ++ [255] } := by
  obtain ⟨hu, _, hnl⟩ := unpack_take dhcpNumL (dhcpNumVals h) (dhcpNumBytes h)
    (h.chaddr ++ (h.sname ++ (h.file ++ (h.magic ++ (dhcpOptsBody h.opts ++ [255]))))) (dhcpNum_encode h hf) (dhcpNum_fits h hf)
  have hsz : size dhcpNumL = 28 := rfl
  rw [hsz] at hu hnl
  have hm : h.magic.length = 4 := by rw [hf.magic]; rfl
  have hc := hf.chaddr
  have hsn := hf.sname
  have hfl := hf.file
  have hlen : (dhcpBytes h).length = 240 + (dhcpOptsBody h.opts).length + 1 := by
    simp [dhcpBytes, hnl, hc, hsn, hfl, hm]; omega
  have s1 : sl (dhcpBytes h) 28 44 = h.chaddr := sl_mid _ _ _ 28 44 (by omega) (by omega)
  have s1' : sl (dhcpBytes h) 28 34 = h.chaddr.take 6 := by
    have := sl_at (dhcpNumBytes h) h.chaddr (h.sname ++ (h.file ++ (h.magic ++ (dhcpOptsBody h.opts ++ [255])))) 0 6 (by omega)
    rw [hnl] at this
    simpa [sl, dhcpBytes] using this
  have s2 : sl (dhcpBytes h) 44 108 = h.sname := by
    have : dhcpBytes h = (dhcpNumBytes h ++ h.chaddr) ++ (h.sname ++ (h.file ++ (h.magic ++ (dhcpOptsBody h.opts ++ [255])))) := by
      simp [dhcpBytes]
    rw [this]; exact sl_mid _ _ _ 44 108 (by simp; omega) (by simp; omega)
  have s3 : sl (dhcpBytes h) 108 236 = h.file := by
    have : dhcpBytes h = (dhcpNumBytes h ++ h.chaddr ++ h.sname) ++ (h.file ++ (h.magic ++ (dhcpOptsBody h.opts ++ [255]))) := by
      simp [dhcpBytes]
    rw [this]; exact sl_mid _ _ _ 108 236 (by simp; omega) (by simp; omega)
  have s4 : sl (dhcpBytes h) 236 240 = h.magic := by
    have : dhcpBytes h = (dhcpNumBytes h ++ h.chaddr ++ h.sname ++ h.file) ++ (h.magic ++ (dhcpOptsBody h.opts ++ [255])) := by
      simp [dhcpBytes]
    rw [this]; exact sl_mid _ _ _ 236 240 (by simp; omega) (by simp; omega)
  have s5 : (dhcpBytes h).drop 240 = dhcpOptsBody h.opts ++ [255] := by
    have : dhcpBytes h = (dhcpNumBytes h ++ h.chaddr ++ h.sname ++ h.file ++ h.magic) ++ (dhcpOptsBody h.opts ++ [255]) := by
      simp [dhcpBytes]
    rw [this]; exact drop_left _ _ 240 (by simp; omega)
  have hch : (if h.hlen = 6 then sl (dhcpBytes h) 28 34 ++ List.replicate 10 0 else sl (dhcpBytes h) 28 44) = h.chaddr := by
    by_cases h6 : h.hlen = 6
    · rw [if_pos h6, s1', ← hf.chaddr6 h6, List.take_append_drop]
    · rw [if_neg h6, s1]
  have hopts := dhcp_opts_rt h.opts hf.opts [] ((dhcpBytes h).length + 1) (by omega)
  have hcond : ¬ (h.hlen > 16 ∨ h.magic ≠ DHCP_MAGIC) := by
    intro hc
    rcases hc with a | b
    · have := hf.hlen; omega
    · exact b hf.magic
  have hu' : unpack [.uint 1, .uint 1, .uint 1, .uint 1, .uint 4, .uint 2, .uint 2, .uint 4, .uint 4, .uint 4, .uint 4]
      ((dhcpBytes h).take 28) = some [.num h.op, .num h.htype, .num h.hlen, .num h.hops, .num h.xid, .num h.secs, .num h.flags,
        .num h.ciaddr, .num h.yiaddr, .num h.siaddr, .num h.giaddr] := hu
  unfold dhcpParse
  rw [if_neg (by omega)]
  rw [hu']
  simp only [hch, s2, s3, s4, s5, hcond, if_false, hopts]

end Pox.Packet
