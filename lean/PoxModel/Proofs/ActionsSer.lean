import PoxModel.Spec.ActionsSpec
import PoxModel.Proofs.PacketChain
/-!
# C12, part 1: `packet.pack()` of a well-formed chain is the declarative wire form `Spec.ser`, and that wire form has
valid length fields and RFC 1071 checksums (all by the C14 header theorems).  Core only.
-/
namespace Pox.Actions
open Pox Pox.Packet Pox.Checksum Pox.PktLayout Pox.Actions.Spec

/-- chains `pack()` can serialise: every field in its wire range, every IP datagram below 64 KiB.  (C14's `Good` minus the
demultiplexing conditions, which only matter for re-parsing: a rewritten port may well be 53.) -/
def WFp : Option IPCtx → Pkt → Prop
  | _, .raw _ => True
  | _, .vlan h n => h.Fits ∧ WFp none n
  | _, .arp h n => h.Fits ∧ isRaw n
  | _, .ipv4 h n => h.Fits ∧ WFp (some ⟨h.src, h.dst, h.proto⟩) n ∧ 4 * h.hl + plen n < 65536
  | ctx, .udp h n => (∃ c, ctx = some c ∧ c.Fits) ∧ h.Fits ∧ isRaw n ∧ plen n + 8 < 65536
  | ctx, .tcp h n => (∃ c, ctx = some c ∧ c.Fits) ∧ h.Fits ∧ (∀ o ∈ h.opts, o.OK) ∧ (optsPadded h.opts).length ≤ 40 ∧
                     isRaw n ∧ 20 + (optsPadded h.opts).length + plen n < 65536
  | _, .icmp h n => h.Fits ∧ WFp none n ∧ plen n + 4 ≤ 131072
  | _, .echo h n => h.Fits ∧ isRaw n
  | _, .unreach h n => h.Fits ∧ WFp none n
  | _, .timeEx h n => h.Fits ∧ WFp none n
  | _, _ => False

/-- a parsed Ethernet frame whose chain is well-formed -/
def Frame.WF (f : Frame) : Prop := f.eth.Fits ∧ WFp none f.pay

/-- every well-formed chain in the sense of C14 is one -/
theorem WFp_of_Good (p : Pkt) : ∀ ctx, Good ctx p → (∀ h n, p ≠ .eth h n) → WFp ctx p := by
  induction p with
  | raw b => intro _ _ _; trivial
  | nil => intro ctx hg; simp [Good] at hg
  | unparsed c r => intro ctx hg; simp [Good] at hg
  | unmodelled c r => intro ctx hg; simp [Good] at hg
  | eth h n ih => intro ctx _ hne; exact absurd rfl (hne h n)
  | vlan h n ih =>
    intro ctx hg _
    simp only [Good] at hg
    have hc := hg.2.1
    refine ⟨hg.1, ih none hg.2.2 ?_⟩
    intro h' n' e; subst e; simp [EthCompat] at hc
  | arp h n ih => intro ctx hg _; simp only [Good] at hg; exact hg
  | ipv4 h n ih =>
    intro ctx hg _
    simp only [Good] at hg
    have hc := hg.2.1
    refine ⟨hg.1, ih _ hg.2.2.1 ?_, hg.2.2.2⟩
    intro h' n' e; subst e; simp [IpCompat] at hc
  | udp h n ih => intro ctx hg _; simp only [Good] at hg; exact ⟨hg.1, hg.2.1, hg.2.2.2.1, hg.2.2.2.2⟩
  | tcp h n ih => intro ctx hg _; simp only [Good] at hg; exact hg
  | icmp h n ih =>
    intro ctx hg _
    simp only [Good] at hg
    have hc := hg.2.1
    refine ⟨hg.1, ih none hg.2.2.1 ?_, hg.2.2.2⟩
    intro h' n' e; subst e; simp [IcmpCompat] at hc
  | echo h n ih => intro ctx hg _; simp only [Good] at hg; exact hg
  | unreach h n ih =>
    intro ctx hg _
    simp only [Good] at hg
    have hc := hg.2.1
    refine ⟨hg.1, ih none hg.2.2 ?_⟩
    intro h' n' e; subst e; simp [QuoteCompat] at hc
  | timeEx h n ih =>
    intro ctx hg _
    simp only [Good] at hg
    have hc := hg.2.1
    refine ⟨hg.1, ih none hg.2.2 ?_⟩
    intro h' n' e; subst e; simp [QuoteCompat] at hc

theorem arpHdr_ok (h : Arp) (hf : h.Fits) : arpHdr h = .ok (arpBytes h) := by
  apply pk_of_encode
  simp [arpL, encode, arpBytes, be16, hf.hwtype, hf.prototype, hf.hwlen, hf.protolen, hf.opcode, hf.hwsrc, hf.protosrc,
    hf.hwdst, hf.protodst]

theorem arpBytes_length (h : Arp) (hf : h.Fits) : (arpBytes h).length = 28 := by
  simp [arpBytes, hf.hwsrc, hf.hwdst]

/-- **`pack()` = `ser`**: for every well-formed chain `packet.pack()` succeeds and returns the declarative wire form,
whose length is the sum of the header sizes -/
theorem packU_ser (p : Pkt) : ∀ ctx, WFp ctx p → ∃ p', packU ctx p = .ok (p', ser ctx p) ∧ (ser ctx p).length = plen p := by
  induction p with
  | raw b => intro ctx _; exact ⟨_, rfl, rfl⟩
  | nil => intro ctx h; simp [WFp] at h
  | unparsed c r => intro ctx h; simp [WFp] at h
  | unmodelled c r => intro ctx h; simp [WFp] at h
  | eth h n ih => intro ctx h; simp [WFp] at h
  | vlan h n ih =>
    intro ctx hw
    simp only [WFp] at hw
    obtain ⟨n', hp, hl⟩ := ih none hw.2
    refine ⟨.vlan h n', ?_, ?_⟩
    · simp [packU, hp, vlanHdr_ok h hw.1, ser, bind, Except.bind, pure, Except.pure]
    · simp [ser, plen, vlanBytes, hl]; omega
  | arp h n ih =>
    intro ctx hw
    simp only [WFp] at hw
    obtain ⟨b, rfl⟩ := isRaw_elim hw.2
    refine ⟨.arp h (.raw b), ?_, ?_⟩
    · simp [packU, arpHdr_ok h hw.1, ser, bind, Except.bind, pure, Except.pure]
    · simp [ser, plen, arpBytes_length h hw.1]
  | ipv4 h n ih =>
    intro ctx hw
    simp only [WFp] at hw
    obtain ⟨hf, hn, hsz⟩ := hw
    obtain ⟨n', hp, hl⟩ := ih _ hn
    have hlen : h.hl * 4 + (ser (some ⟨h.src, h.dst, h.proto⟩) n).length < 65536 := by rw [hl]; omega
    refine ⟨.ipv4 (ipv4Upd h (ser (some ⟨h.src, h.dst, h.proto⟩) n).length) n', ?_, ?_⟩
    · simp [packU, hp, ipv4Hdr_ok h _ hf hlen, ser, bind, Except.bind, pure, Except.pure]
    · simp only [ser, List.length_append, ipv4Bytes_length h _ hf, hl, plen]
  | udp h n ih =>
    intro ctx hw
    simp only [WFp] at hw
    obtain ⟨⟨c, rfl, hc⟩, hf, hr, hsz⟩ := hw
    obtain ⟨b, rfl⟩ := isRaw_elim hr
    simp only [plen] at hsz
    refine ⟨.udp (udpUpd c h b) (.raw b), ?_, ?_⟩
    · simp [packU, udpHdr_ok c h b hc hf hsz, ser, bind, Except.bind, pure, Except.pure]
    · simp [ser, plen, udpBytes_length]
  | tcp h n ih =>
    intro ctx hw
    simp only [WFp] at hw
    obtain ⟨⟨c, rfl, hc⟩, hf, hok, hol, hr, hsz⟩ := hw
    obtain ⟨b, rfl⟩ := isRaw_elim hr
    simp only [plen] at hsz
    have hres := tcpHdr_ok c h (optsPadded h.opts) b hc hf (tcpOptsPadded_ok h.opts hok) hol hsz
    refine ⟨.tcp (tcpUpd c h (optsPadded h.opts) b) (.raw b), ?_, ?_⟩
    · simp [packU, hres, ser, bind, Except.bind, pure, Except.pure]
    · simp [ser, plen, tcpBytes_length]
  | icmp h n ih =>
    intro ctx hw
    simp only [WFp] at hw
    obtain ⟨hf, hn, hsz⟩ := hw
    obtain ⟨n', hp, hl⟩ := ih none hn
    have hlen : (ser none n).length + 4 ≤ 131072 := by rw [hl]; exact hsz
    refine ⟨.icmp (icmpUpd h (ser none n)) n', ?_, ?_⟩
    · simp [packU, hp, icmpHdr_ok h _ hf hlen, ser, bind, Except.bind, pure, Except.pure]
    · simp [ser, plen, icmpBytes, icmpPre, hl]; omega
  | echo h n ih =>
    intro ctx hw
    simp only [WFp] at hw
    obtain ⟨b, rfl⟩ := isRaw_elim hw.2
    refine ⟨.echo h (.raw b), ?_, ?_⟩
    · simp [packU, echoHdr_ok h hw.1, ser, bind, Except.bind, pure, Except.pure]
    · simp [ser, plen, echoBytes]; omega
  | unreach h n ih =>
    intro ctx hw
    simp only [WFp] at hw
    obtain ⟨n', hp, hl⟩ := ih none hw.2
    refine ⟨.unreach h n', ?_, ?_⟩
    · simp [packU, hp, unreachHdr_ok h hw.1, ser, bind, Except.bind, pure, Except.pure]
    · simp [ser, plen, unreachBytes, hl]; omega
  | timeEx h n ih =>
    intro ctx hw
    simp only [WFp] at hw
    obtain ⟨n', hp, hl⟩ := ih none hw.2
    refine ⟨.timeEx h n', ?_, ?_⟩
    · simp [packU, hp, timeExHdr_ok h hw.1, ser, bind, Except.bind, pure, Except.pure]
    · simp [ser, plen, timeExBytes, hl]

/-- `packet.pack()` on the `ethernet` object of a well-formed frame -/
theorem packFrame_ser (f : Frame) (hw : f.WF) : packFrame f = .ok (serF f) := by
  obtain ⟨n', hp, _⟩ := packU_ser f.pay none hw.2
  simp [packFrame, pack, Frame.pkt, packU, hp, ethHdr_ok f.eth hw.1, serF, ser, bind, Except.bind, pure, Except.pure]

theorem serF_length (f : Frame) (hw : f.WF) : (serF f).length = 14 + plen f.pay := by
  obtain ⟨_, _, hl⟩ := packU_ser f.pay none hw.2
  simp [serF, Frame.pkt, ser, ethBytes_length f.eth hw.1, hl]

/-! ## the wire form carries valid lengths and checksums -/

theorem sl_left (a b : Bytes) (i j : Nat) (hj : j ≤ a.length) : sl (a ++ b) i j = sl a i j := by
  unfold sl
  rw [List.take_append_of_le_length hj]

/-- what a receiver checks, header by header, on the wire form `ser ctx p`:
* IPv4: the header (`4·hl` bytes) sums to zero under RFC 1071 and its total-length field is the datagram's length;
* UDP: the length field is the datagram's length and the checksum field is RFC 768's (RFC 1071 over pseudo header, header
  with zero checksum and data; zero sent as 0xffff — `udpCsumSpec`, C14);
* TCP: the data offset counts the header with its padded options and the checksum field is RFC 793's (`tcpCsumSpec`, C14);
* ICMP: the message sums to zero. -/
def Valid : Option IPCtx → Pkt → Prop
  | _, .eth _ n => Valid none n
  | _, .vlan _ n => Valid none n
  | _, .ipv4 h n =>
    rfc1071 ((ser none (.ipv4 h n)).take (4 * h.hl)) = 0 ∧
    beDec (sl (ser none (.ipv4 h n)) 2 4) = (ser none (.ipv4 h n)).length ∧
    Valid (some ⟨h.src, h.dst, h.proto⟩) n
  | some c, .udp h n =>
    beDec (sl (ser (some c) (.udp h n)) 4 6) = (ser (some c) (.udp h n)).length ∧
    beDec (sl (ser (some c) (.udp h n)) 6 8) = udpCsumSpec c h (ser none n)
  | some c, .tcp h n =>
    beDec (sl (ser (some c) (.tcp h n)) 12 13) / 16 * 4 = 20 + (optsPadded h.opts).length ∧
    beDec (sl (ser (some c) (.tcp h n)) 16 18) = tcpCsumSpec c h (optsPadded h.opts) (ser none n)
  | _, .icmp h n => rfc1071 (ser none (.icmp h n)) = 0 ∧ Valid none n
  | _, .unreach _ n => Valid none n
  | _, .timeEx _ n => Valid none n
  | _, _ => True

theorem valid_of_wf (p : Pkt) : ∀ ctx, WFp ctx p → Valid ctx p := by
  induction p with
  | vlan h n ih => intro ctx hw; simp only [WFp] at hw; simp only [Valid]; exact ih none hw.2
  | ipv4 h n ih =>
    intro ctx hw
    simp only [WFp] at hw
    obtain ⟨hf, hn, hsz⟩ := hw
    obtain ⟨_, _, hl⟩ := packU_ser n _ hn
    have hbl := ipv4Bytes_length h (ser (some ⟨h.src, h.dst, h.proto⟩) n).length hf
    have hlen : h.hl * 4 + (ser (some ⟨h.src, h.dst, h.proto⟩) n).length < 65536 := by rw [hl]; omega
    have h5 := hf.hl5
    simp only [Valid, ser]
    refine ⟨?_, ?_, ih _ hn⟩
    · rw [List.take_append_of_le_length (by omega), List.take_of_length_le (by omega)]
      exact ipv4_verifies h _
    · rw [sl_left _ _ 2 4 (by omega), ipv4_len_field h _ hlen, List.length_append, hbl]; omega
  | udp h n ih =>
    intro ctx hw
    simp only [WFp] at hw
    obtain ⟨⟨c, rfl, hc⟩, hf, hr, hsz⟩ := hw
    obtain ⟨b, rfl⟩ := isRaw_elim hr
    simp only [plen] at hsz
    simp only [Valid, ser]
    refine ⟨?_, ?_⟩
    · rw [sl_left _ _ 4 6 (by rw [udpBytes_length]; omega), udp_len_field c h b hsz, List.length_append, udpBytes_length]
      omega
    · rw [sl_left _ _ 6 8 (by rw [udpBytes_length]; omega), udp_csum_field]
  | tcp h n ih =>
    intro ctx hw
    simp only [WFp] at hw
    obtain ⟨⟨c, rfl, hc⟩, hf, hok, hol, hr, hsz⟩ := hw
    obtain ⟨b, rfl⟩ := isRaw_elim hr
    have h4 := tcpOptsPadded_mod4 h.opts _ (tcpOptsPadded_ok h.opts hok)
    simp only [Valid, ser]
    refine ⟨?_, ?_⟩
    · rw [sl_left _ _ 12 13 (by rw [tcpBytes_length]; omega), tcp_data_offset c h _ b hf hol h4, tcpBytes_length]
    · rw [sl_left _ _ 16 18 (by rw [tcpBytes_length]; omega), tcp_csum_field]
  | icmp h n ih =>
    intro ctx hw
    simp only [WFp] at hw
    simp only [Valid, ser]
    exact ⟨icmp_verifies h _, ih none hw.2.1⟩
  | unreach h n ih => intro ctx hw; simp only [WFp] at hw; simp only [Valid]; exact ih none hw.2
  | timeEx h n ih => intro ctx hw; simp only [WFp] at hw; simp only [Valid]; exact ih none hw.2
  | raw b => intro ctx _; cases ctx <;> simp [Valid]
  | nil => intro ctx _; cases ctx <;> simp [Valid]
  | unparsed c r => intro ctx _; cases ctx <;> simp [Valid]
  | unmodelled c r => intro ctx _; cases ctx <;> simp [Valid]
  | eth h n ih => intro ctx hw; simp [WFp] at hw
  | arp h n ih => intro ctx _; cases ctx <;> simp [Valid]
  | echo h n ih => intro ctx _; cases ctx <;> simp [Valid]

end Pox.Actions
