import PoxModel.Base.Layout
/-! # OpenFlow 1.0.0 wire structures (`openflow.h`, wire protocol 0x01), transcribed by hand from the standard

This file is part of the trusted base of C01: it is meant to be read against the specification.  Each definition
is one `struct` of `openflow.h` in declaration order, `uintN_t x` ↦ `uint "x" (N/8)`, `uint8_t pad[n]` ↦ `pad n`,
`uint8_t a[OFP_ETH_ALEN]` ↦ `blob "a" 6`, `char s[n]` ↦ `zstr "s" n`, an embedded fixed `struct ofp_match m` /
`struct ofp_phy_port d` ↦ `blob "m" 40` / `blob "d" 48` (the embedded structure is specified on its own),
`x[0]` trailing arrays ↦ the tail.  All integers are big-endian (network order) — that is `Base/Bytes.beEnc`.

Naming: field names are those of `openflow.h`, with two systematic exceptions so that they can be compared with the
attribute names of `libopenflow_01.py`: the header's `type` is called `header_type` (the library uses `type` for the
error/stats/action type of the same message), and every `length`/`len` field that holds the size of the enclosing
record is the nameless `lenSelf`. -/
namespace Pox.Spec.OF10
open Pox.Layout

/-- `struct ofp_header` (8 bytes): version, type, length, xid -/
def ofp_header : List Field := [.uint "version" 1, .uint "header_type" 1, .lenSelf 2, .uint "xid" 4]

/-- `struct ofp_phy_port` (48 bytes) -/
def ofp_phy_port : List Field :=
  [.uint "port_no" 2, .blob "hw_addr" 6, .zstr "name" 16, .uint "config" 4, .uint "state" 4, .uint "curr" 4,
   .uint "advertised" 4, .uint "supported" 4, .uint "peer" 4]

/-- `struct ofp_match` (40 bytes): wildcards, in_port, dl_src, dl_dst, dl_vlan, dl_vlan_pcp, pad1[1], dl_type, nw_tos,
    nw_proto, pad2[2], nw_src, nw_dst, tp_src, tp_dst -/
def ofp_match : List Field :=
  [.uint "wildcards" 4, .uint "in_port" 2, .blob "dl_src" 6, .blob "dl_dst" 6, .uint "dl_vlan" 2,
   .uint "dl_vlan_pcp" 1, .pad 1, .uint "dl_type" 2, .uint "nw_tos" 1, .uint "nw_proto" 1, .pad 2,
   .uint "nw_src" 4, .uint "nw_dst" 4, .uint "tp_src" 2, .uint "tp_dst" 2]

/-- `struct ofp_switch_features` (32 bytes + ports) -/
def ofp_switch_features : Layout :=
  ⟨ofp_header ++ [.uint "datapath_id" 8, .uint "n_buffers" 4, .uint "n_tables" 1, .pad 3, .uint "capabilities" 4,
    .uint "actions" 4], .list "ports" "ofp_phy_port"⟩

/-- `struct ofp_switch_config` (12 bytes): GET_CONFIG_REPLY and SET_CONFIG -/
def ofp_switch_config : Layout := ⟨ofp_header ++ [.uint "flags" 2, .uint "miss_send_len" 2], .none⟩

/-- `struct ofp_flow_mod` (72 bytes + actions) -/
def ofp_flow_mod : Layout :=
  ⟨ofp_header ++ [.blob "match" 40, .uint "cookie" 8, .uint "command" 2, .uint "idle_timeout" 2, .uint "hard_timeout" 2,
    .uint "priority" 2, .uint "buffer_id" 4, .uint "out_port" 2, .uint "flags" 2], .list "actions" "actions"⟩

/-- `struct ofp_port_mod` (32 bytes) -/
def ofp_port_mod : Layout :=
  ⟨ofp_header ++ [.uint "port_no" 2, .blob "hw_addr" 6, .uint "config" 4, .uint "mask" 4, .uint "advertise" 4, .pad 4], .none⟩

/-- `struct ofp_packet_in` (data at offset 18): buffer_id, total_len, in_port, reason, pad, data -/
def ofp_packet_in : Layout :=
  ⟨ofp_header ++ [.uint "buffer_id" 4, .uint "total_len" 2, .uint "in_port" 2, .uint "reason" 1, .pad 1], .rest "data"⟩

/-- `struct ofp_packet_out` fixed part (16 bytes): buffer_id, in_port, actions_len; then `actions_len` bytes of actions,
    then packet data.  (The second length field puts it outside the `Layout` vocabulary; see `Model/CodecOF`.) -/
def ofp_packet_out_fixed : List Field :=
  ofp_header ++ [.uint "buffer_id" 4, .uint "in_port" 2, .uint "actions_len" 2]

/-- `struct ofp_flow_removed` (88 bytes) -/
def ofp_flow_removed : Layout :=
  ⟨ofp_header ++ [.blob "match" 40, .uint "cookie" 8, .uint "priority" 2, .uint "reason" 1, .pad 1, .uint "duration_sec" 4,
    .uint "duration_nsec" 4, .uint "idle_timeout" 2, .pad 2, .uint "packet_count" 8, .uint "byte_count" 8], .none⟩

/-- `struct ofp_port_status` (64 bytes) -/
def ofp_port_status : Layout := ⟨ofp_header ++ [.uint "reason" 1, .pad 7, .blob "desc" 48], .none⟩

/-- `struct ofp_error_msg` (12 bytes + data) -/
def ofp_error_msg : Layout := ⟨ofp_header ++ [.uint "type" 2, .uint "code" 2], .rest "data"⟩

/-- header-only messages: HELLO, FEATURES_REQUEST, GET_CONFIG_REQUEST, BARRIER_REQUEST, BARRIER_REPLY -/
def header_only : Layout := ⟨ofp_header, .none⟩

/-- ECHO_REQUEST / ECHO_REPLY: header + arbitrary body -/
def ofp_echo : Layout := ⟨ofp_header, .rest "body"⟩

/-- `struct ofp_vendor_header` (12 bytes) + vendor data -/
def ofp_vendor : Layout := ⟨ofp_header ++ [.uint "vendor" 4], .rest "data"⟩

/-- `struct ofp_stats_request` / `struct ofp_stats_reply` (12 bytes + body) -/
def ofp_stats_msg : Layout := ⟨ofp_header ++ [.uint "type" 2, .uint "flags" 2], .rest "body"⟩

/-! ### statistics bodies -/

/-- `struct ofp_desc_stats` (1056 bytes) -/
def ofp_desc_stats : Layout :=
  ⟨[.zstr "mfr_desc" 256, .zstr "hw_desc" 256, .zstr "sw_desc" 256, .zstr "serial_num" 32, .zstr "dp_desc" 256], .none⟩

/-- `struct ofp_flow_stats_request` = `struct ofp_aggregate_stats_request` (44 bytes) -/
def ofp_flow_stats_request : Layout := ⟨[.blob "match" 40, .uint "table_id" 1, .pad 1, .uint "out_port" 2], .none⟩

/-- `struct ofp_flow_stats` (88 bytes + actions); `length` is the size of this entry -/
def ofp_flow_stats : Layout :=
  ⟨[.lenSelf 2, .uint "table_id" 1, .pad 1, .blob "match" 40, .uint "duration_sec" 4, .uint "duration_nsec" 4,
    .uint "priority" 2, .uint "idle_timeout" 2, .uint "hard_timeout" 2, .pad 6, .uint "cookie" 8, .uint "packet_count" 8,
    .uint "byte_count" 8], .list "actions" "actions"⟩

/-- `struct ofp_aggregate_stats_reply` (24 bytes) -/
def ofp_aggregate_stats_reply : Layout := ⟨[.uint "packet_count" 8, .uint "byte_count" 8, .uint "flow_count" 4, .pad 4], .none⟩

/-- `struct ofp_table_stats` (64 bytes) -/
def ofp_table_stats : Layout :=
  ⟨[.uint "table_id" 1, .pad 3, .zstr "name" 32, .uint "wildcards" 4, .uint "max_entries" 4, .uint "active_count" 4,
    .uint "lookup_count" 8, .uint "matched_count" 8], .none⟩

/-- `struct ofp_port_stats_request` (8 bytes) -/
def ofp_port_stats_request : Layout := ⟨[.uint "port_no" 2, .pad 6], .none⟩

/-- `struct ofp_port_stats` (104 bytes) -/
def ofp_port_stats : Layout :=
  ⟨[.uint "port_no" 2, .pad 6, .uint "rx_packets" 8, .uint "tx_packets" 8, .uint "rx_bytes" 8, .uint "tx_bytes" 8,
    .uint "rx_dropped" 8, .uint "tx_dropped" 8, .uint "rx_errors" 8, .uint "tx_errors" 8, .uint "rx_frame_err" 8,
    .uint "rx_over_err" 8, .uint "rx_crc_err" 8, .uint "collisions" 8], .none⟩

/-- `struct ofp_queue_stats_request` (8 bytes) -/
def ofp_queue_stats_request : Layout := ⟨[.uint "port_no" 2, .pad 2, .uint "queue_id" 4], .none⟩

/-- `struct ofp_queue_stats` (32 bytes) -/
def ofp_queue_stats : Layout :=
  ⟨[.uint "port_no" 2, .pad 2, .uint "queue_id" 4, .uint "tx_bytes" 8, .uint "tx_packets" 8, .uint "tx_errors" 8], .none⟩

/-- vendor statistics: "the first four bytes are the vendor identifier, the rest of the body is vendor-defined" -/
def ofp_vendor_stats : Layout := ⟨[.uint "vendor" 4], .rest "data"⟩

/-- DESC and TABLE requests have an empty body -/
def empty_body : Layout := ⟨[], .none⟩

/-! ### actions (`type`, `len`, …; every action is a multiple of 8 bytes) -/

def ofp_action_header : Layout := ⟨[.uint "type" 2, .lenSelf 2, .pad 4], .none⟩
def ofp_action_output : Layout := ⟨[.uint "type" 2, .lenSelf 2, .uint "port" 2, .uint "max_len" 2], .none⟩
def ofp_action_vlan_vid : Layout := ⟨[.uint "type" 2, .lenSelf 2, .uint "vlan_vid" 2, .pad 2], .none⟩
def ofp_action_vlan_pcp : Layout := ⟨[.uint "type" 2, .lenSelf 2, .uint "vlan_pcp" 1, .pad 3], .none⟩
def ofp_action_dl_addr : Layout := ⟨[.uint "type" 2, .lenSelf 2, .blob "dl_addr" 6, .pad 6], .none⟩
def ofp_action_nw_addr : Layout := ⟨[.uint "type" 2, .lenSelf 2, .uint "nw_addr" 4], .none⟩
def ofp_action_nw_tos : Layout := ⟨[.uint "type" 2, .lenSelf 2, .uint "nw_tos" 1, .pad 3], .none⟩
def ofp_action_tp_port : Layout := ⟨[.uint "type" 2, .lenSelf 2, .uint "tp_port" 2, .pad 2], .none⟩
def ofp_action_enqueue : Layout := ⟨[.uint "type" 2, .lenSelf 2, .uint "port" 2, .pad 6, .uint "queue_id" 4], .none⟩
/-- `struct ofp_action_vendor_header` (8 bytes) + vendor-defined body -/
def ofp_action_vendor : Layout := ⟨[.uint "type" 2, .lenSelf 2, .uint "vendor" 4], .rest "body"⟩

/-! ### queues -/

/-- `struct ofp_queue_get_config_request` (12 bytes) -/
def ofp_queue_get_config_request : Layout := ⟨ofp_header ++ [.uint "port" 2, .pad 2], .none⟩
/-- `struct ofp_queue_get_config_reply` (16 bytes + queues) -/
def ofp_queue_get_config_reply : Layout := ⟨ofp_header ++ [.uint "port" 2, .pad 6], .list "queues" "ofp_packet_queue"⟩
/-- `struct ofp_packet_queue` (8 bytes + properties); `len` is the size of this queue description -/
def ofp_packet_queue : Layout := ⟨[.uint "queue_id" 4, .lenSelf 2, .pad 2], .list "properties" "queue_props"⟩
/-- `struct ofp_queue_prop_header` (8 bytes): OFPQT_NONE -/
def ofp_queue_prop_header : Layout := ⟨[.uint "property" 2, .lenSelf 2, .pad 4], .none⟩
/-- `struct ofp_queue_prop_min_rate` (16 bytes) -/
def ofp_queue_prop_min_rate : Layout := ⟨[.uint "property" 2, .lenSelf 2, .pad 4, .uint "rate" 2, .pad 6], .none⟩

/-! ### which structure each library class must have -/

/-- class of `libopenflow_01.py` ↦ the structure of the standard it encodes -/
def table : List (String × Layout) := [
  ("ofp_phy_port", ⟨ofp_phy_port, .none⟩),
  ("ofp_match", ⟨ofp_match, .none⟩),
  ("ofp_hello", header_only), ("ofp_features_request", header_only), ("ofp_get_config_request", header_only),
  ("ofp_barrier_request", header_only), ("ofp_barrier_reply", header_only),
  ("ofp_echo_request", ofp_echo), ("ofp_echo_reply", ofp_echo),
  ("ofp_error", ofp_error_msg), ("ofp_vendor_generic", ofp_vendor),
  ("ofp_features_reply", ofp_switch_features),
  ("ofp_get_config_reply", ofp_switch_config), ("ofp_set_config", ofp_switch_config),
  ("ofp_packet_in", ofp_packet_in), ("ofp_flow_removed", ofp_flow_removed), ("ofp_port_status", ofp_port_status),
  ("ofp_flow_mod", ofp_flow_mod), ("ofp_port_mod", ofp_port_mod),
  ("ofp_stats_request", ofp_stats_msg), ("ofp_stats_reply", ofp_stats_msg),
  ("ofp_queue_get_config_request", ofp_queue_get_config_request),
  ("ofp_queue_get_config_reply", ofp_queue_get_config_reply),
  ("ofp_packet_queue", ofp_packet_queue), ("ofp_queue_prop_min_rate", ofp_queue_prop_min_rate),
  ("ofp_desc_stats", ofp_desc_stats), ("ofp_flow_stats_request", ofp_flow_stats_request),
  ("ofp_aggregate_stats_request", ofp_flow_stats_request), ("ofp_flow_stats", ofp_flow_stats),
  ("ofp_aggregate_stats", ofp_aggregate_stats_reply), ("ofp_table_stats", ofp_table_stats),
  ("ofp_port_stats_request", ofp_port_stats_request), ("ofp_port_stats", ofp_port_stats),
  ("ofp_queue_stats_request", ofp_queue_stats_request), ("ofp_queue_stats", ofp_queue_stats),
  ("ofp_vendor_stats_generic", ofp_vendor_stats),
  ("ofp_desc_stats_request", empty_body), ("ofp_table_stats_request", empty_body),
  ("ofp_action_output", ofp_action_output), ("ofp_action_vlan_vid", ofp_action_vlan_vid),
  ("ofp_action_vlan_pcp", ofp_action_vlan_pcp), ("ofp_action_strip_vlan", ofp_action_header),
  ("ofp_action_dl_addr", ofp_action_dl_addr), ("ofp_action_nw_addr", ofp_action_nw_addr),
  ("ofp_action_nw_tos", ofp_action_nw_tos), ("ofp_action_tp_port", ofp_action_tp_port),
  ("ofp_action_enqueue", ofp_action_enqueue), ("ofp_action_vendor_generic", ofp_action_vendor)]

/-- `enum ofp_type`: code ↦ structure of the message (`none` = outside the `Layout` vocabulary: packet-out) -/
def messageTypes : List (Nat × Option Layout) := [
  (0, some header_only), (1, some ofp_error_msg), (2, some ofp_echo), (3, some ofp_echo), (4, some ofp_vendor),
  (5, some header_only), (6, some ofp_switch_features), (7, some header_only), (8, some ofp_switch_config),
  (9, some ofp_switch_config), (10, some ofp_packet_in), (11, some ofp_flow_removed), (12, some ofp_port_status),
  (13, none), (14, some ofp_flow_mod), (15, some ofp_port_mod), (16, some ofp_stats_msg), (17, some ofp_stats_msg),
  (18, some header_only), (19, some header_only), (20, some ofp_queue_get_config_request),
  (21, some ofp_queue_get_config_reply)]

/-- `enum ofp_action_type`: OUTPUT 0, SET_VLAN_VID 1, SET_VLAN_PCP 2, STRIP_VLAN 3, SET_DL_SRC 4, SET_DL_DST 5,
    SET_NW_SRC 6, SET_NW_DST 7, SET_NW_TOS 8, SET_TP_SRC 9, SET_TP_DST 10, ENQUEUE 11, VENDOR 0xffff -/
def actionTypes : List (Nat × Layout) := [
  (0, ofp_action_output), (1, ofp_action_vlan_vid), (2, ofp_action_vlan_pcp), (3, ofp_action_header),
  (4, ofp_action_dl_addr), (5, ofp_action_dl_addr), (6, ofp_action_nw_addr), (7, ofp_action_nw_addr),
  (8, ofp_action_nw_tos), (9, ofp_action_tp_port), (10, ofp_action_tp_port), (11, ofp_action_enqueue),
  (65535, ofp_action_vendor)]

/-- `enum ofp_stats_types`: code ↦ (request body, reply body, reply is an array of entries) -/
def statsTypes : List (Nat × Layout × Layout × Bool) := [
  (0, empty_body, ofp_desc_stats, false),
  (1, ofp_flow_stats_request, ofp_flow_stats, true),
  (2, ofp_flow_stats_request, ofp_aggregate_stats_reply, false),
  (3, empty_body, ofp_table_stats, true),
  (4, ofp_port_stats_request, ofp_port_stats, true),
  (5, ofp_queue_stats_request, ofp_queue_stats, true),
  (65535, ofp_vendor_stats, ofp_vendor_stats, false)]

/-- `enum ofp_queue_properties`: OFPQT_NONE 0, OFPQT_MIN_RATE 1 -/
def queuePropTypes : List (Nat × Layout) := [(0, ofp_queue_prop_header), (1, ofp_queue_prop_min_rate)]

/-- `enum ofp_type` by name: OFPT_x (code) ↦ the library class named after it (`ofp_x`; OFPT_ERROR ↦ `ofp_error`,
    OFPT_VENDOR ↦ `ofp_vendor_generic`).  Distinguishes the messages that share a structure (the five header-only ones,
    echo request/reply, get-config-reply/set-config, stats request/reply). -/
def messageClass : List (Nat × String) := [
  (0, "ofp_hello"), (1, "ofp_error"), (2, "ofp_echo_request"), (3, "ofp_echo_reply"), (4, "ofp_vendor_generic"),
  (5, "ofp_features_request"), (6, "ofp_features_reply"), (7, "ofp_get_config_request"), (8, "ofp_get_config_reply"),
  (9, "ofp_set_config"), (10, "ofp_packet_in"), (11, "ofp_flow_removed"), (12, "ofp_port_status"), (13, "ofp_packet_out"),
  (14, "ofp_flow_mod"), (15, "ofp_port_mod"), (16, "ofp_stats_request"), (17, "ofp_stats_reply"), (18, "ofp_barrier_request"),
  (19, "ofp_barrier_reply"), (20, "ofp_queue_get_config_request"), (21, "ofp_queue_get_config_reply")]

/-- sizes asserted by `OFP_ASSERT(sizeof(...) == n)` in `openflow.h` (fixed parts) -/
def sizes : List (Layout × Nat) := [
  (⟨ofp_header, .none⟩, 8), (⟨ofp_phy_port, .none⟩, 48), (⟨ofp_match, .none⟩, 40), (ofp_switch_features, 32),
  (ofp_switch_config, 12), (ofp_flow_mod, 72), (ofp_port_mod, 32), (ofp_packet_in, 18), (⟨ofp_packet_out_fixed, .none⟩, 16),
  (ofp_flow_removed, 88), (ofp_port_status, 64), (ofp_error_msg, 12), (ofp_stats_msg, 12), (ofp_desc_stats, 1056),
  (ofp_flow_stats_request, 44), (ofp_flow_stats, 88), (ofp_aggregate_stats_reply, 24), (ofp_table_stats, 64),
  (ofp_port_stats_request, 8), (ofp_port_stats, 104), (ofp_queue_stats_request, 8), (ofp_queue_stats, 32),
  (ofp_vendor, 12), (ofp_action_header, 8), (ofp_action_output, 8), (ofp_action_vlan_vid, 8), (ofp_action_vlan_pcp, 8),
  (ofp_action_dl_addr, 16), (ofp_action_nw_addr, 8), (ofp_action_nw_tos, 8), (ofp_action_tp_port, 8),
  (ofp_action_enqueue, 16), (ofp_action_vendor, 8), (ofp_queue_get_config_request, 12), (ofp_queue_get_config_reply, 16),
  (ofp_packet_queue, 8), (ofp_queue_prop_header, 8), (ofp_queue_prop_min_rate, 16)]

/-- the transcription agrees with the standard's own `OFP_ASSERT`s (a typo in a width or pad above breaks this).
    `ofp_packet_in` is asserted as 20 in `openflow.h` because of two bytes of trailing alignment; `data` starts at
    offset 18, which is what is listed here. -/
theorem sizes_ok : ∀ p ∈ sizes, fixedSize p.1.fixed = p.2 := by decide

end Pox.Spec.OF10
