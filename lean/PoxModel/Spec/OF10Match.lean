import PoxModel.Model.Match
/-! # OpenFlow 1.0 matching semantics (specification §3.4, `openflow.h` `struct ofp_match` / `enum ofp_flow_wildcards`)

Transcribed from the standard, to be read against it.  Nothing here refers to the model's functions; only the two *data
types* `OfMatch` (the 40-byte `ofp_match` as transmitted: wildcard word + twelve field values) and `PHdr` (abstract description
of a frame: Ethernet header, optional LLC/SNAP header, optional 802.1Q tag, IPv4 / ARP header, transport header) are shared.

1. **The 12-tuple** (Table 2) — `Headers`.
2. **Header extraction** (Figure 4 "flowchart detailing header parsing", Table 3) — `headers`:
   * every field starts as zero; in_port, Ethernet source, destination and type are taken from the frame;
   * Ethernet type: "required to match the type in both standard Ethernet and 802.2 with a SNAP header and OUI of 0x000000.
     The special value of 0x05FF is used to match all 802.3 packets without SNAP headers";
   * type 0x8100: VLAN id and PCP from the tag, the encapsulated type is used from there on; otherwise VLAN id is
     `OFP_VLAN_NONE` (0xffff);
   * type 0x0806: IP source/destination from the ARP packet, "only the lower 8 bits of the ARP opcode are used";
   * type 0x0800: IP source, destination, protocol, ToS ("6 bits … specify as 8-bit value and place ToS in upper 6 bits");
   * not an IP fragment and protocol 6 / 17: transport ports; protocol 1: ICMP type and code in their place; fragments keep 0.
3. **Matching** — `matchHdr`: a frame matches iff every field that is not wildcarded — and whose protocol prerequisite is
   *specified* by the match (IP fields need dl_type = 0x0800 or 0x0806, ToS needs 0x0800, transport fields need dl_type =
   0x0800 and nw_proto ∈ {1, 6, 17}; otherwise the field is ignored) — equals the frame's header field.  IP addresses are
   compared on the bits the 6-bit wildcard counter leaves: counter `k` ignores the `k` least significant bits, `k ≥ 32`
   wildcards the whole field.
4. **Priority** — `rank`: "an entry that specifies an exact match (i.e., it has no wildcards) is always the highest priority";
   wildcarded entries are ordered by their priority field.  `IsBest` says what a lookup must return. -/
namespace Pox.Spec
open Pox.OF

/-- the header fields used for table lookup -/
structure Headers where
  inPort : Nat
  dlSrc : Nat
  dlDst : Nat
  dlVlan : Nat
  dlVlanPcp : Nat
  dlType : Nat
  nwTos : Nat
  nwProto : Nat
  nwSrc : Nat
  nwDst : Nat
  tpSrc : Nat
  tpDst : Nat
  deriving DecidableEq, Repr

/-! ## extraction -/

/-- Ethernet type of the frame before any VLAN tag is looked at -/
def etherType (p : PHdr) : Nat :=
  if p.typ < 0x600 then
    match p.llc with
    | some l => if l.snapOui = some 0 then l.ethType else 0x05ff
    | none => 0x05ff
  else p.typ

def zeroL3 (inPort : Nat) (p : PHdr) (vid pcp t : Nat) : Headers :=
  { inPort := inPort, dlSrc := p.src, dlDst := p.dst, dlVlan := vid, dlVlanPcp := pcp, dlType := t,
    nwTos := 0, nwProto := 0, nwSrc := 0, nwDst := 0, tpSrc := 0, tpDst := 0 }

/-- Ethernet type used for the L3 decision: the encapsulated type when the frame carries an 802.1Q tag -/
def dlTypeOf (p : PHdr) : Nat :=
  match p.vlan with
  | some v => v.ethType
  | none => etherType p

def headers (p : PHdr) (inPort : Nat) : Headers :=
  let (vid, pcp) : Nat × Nat := match p.vlan with
    | some v => (v.id, v.pcp)
    | none => (0xffff, 0)
  let t := dlTypeOf p
  let h := zeroL3 inPort p vid pcp t
  if t = 0x0806 then
    match p.l3 with
    | .arp op s d => { h with nwProto := op % 256, nwSrc := s, nwDst := d }
    | _ => h
  else if t = 0x0800 then
    match p.l3 with
    | .ipv4 s d pr tos frag l4 =>
      let h := { h with nwSrc := s, nwDst := d, nwProto := pr, nwTos := tos / 4 * 4 }
      if frag then h
      else match l4 with
        | .ports a b => if pr = 6 ∨ pr = 17 then { h with tpSrc := a, tpDst := b } else h
        | .icmp ty c => if pr = 1 then { h with tpSrc := ty, tpDst := c } else h
        | .none => h
    | _ => h
  else h

/-! ## matching -/

/-- `OFPFW_*` single-bit flags: bit positions in `ofp_match.wildcards` -/
def W_IN_PORT := 0
def W_DL_VLAN := 1
def W_DL_SRC := 2
def W_DL_DST := 3
def W_DL_TYPE := 4
def W_NW_PROTO := 5
def W_TP_SRC := 6
def W_TP_DST := 7
def W_DL_VLAN_PCP := 20
def W_NW_TOS := 21

def wild (r : OfMatch) (bit : Nat) : Bool := r.wildcards.testBit bit

/-- number of low address bits ignored: `OFPFW_NW_SRC_SHIFT = 8`, `OFPFW_NW_DST_SHIFT = 14`, 6 bits each;
    values ≥ 32 wildcard the whole field -/
def srcIgnored (r : OfMatch) : Nat := min 32 (r.wildcards / 2 ^ 8 % 64)
def dstIgnored (r : OfMatch) : Nat := min 32 (r.wildcards / 2 ^ 14 % 64)

/-- equality of two 32-bit addresses on all but the `k` least significant bits (`k ≥ 32`: nothing is compared) -/
def prefixEq (k a b : Nat) : Bool := 32 ≤ k || a / 2 ^ k == b / 2 ^ k

def dlTypeIs (r : OfMatch) (t : Nat) : Bool := !wild r W_DL_TYPE && r.dlType == t
/-- the match specifies IPv4 or ARP: nw_proto, nw_src, nw_dst are meaningful -/
def nwSpecified (r : OfMatch) : Bool := dlTypeIs r 0x0800 || dlTypeIs r 0x0806
/-- the match specifies IPv4: nw_tos is meaningful -/
def ipSpecified (r : OfMatch) : Bool := dlTypeIs r 0x0800
/-- the match specifies IPv4 and TCP / UDP / ICMP: tp_src, tp_dst are meaningful -/
def tpSpecified (r : OfMatch) : Bool :=
  dlTypeIs r 0x0800 && !wild r W_NW_PROTO && (r.nwProto == 1 || r.nwProto == 6 || r.nwProto == 17)

def matchHdr (r : OfMatch) (h : Headers) : Bool :=
  (wild r W_IN_PORT || r.inPort == h.inPort) &&
  (wild r W_DL_SRC || r.dlSrc == h.dlSrc) &&
  (wild r W_DL_DST || r.dlDst == h.dlDst) &&
  (wild r W_DL_VLAN || r.dlVlan == h.dlVlan) &&
  (wild r W_DL_VLAN_PCP || r.dlVlanPcp == h.dlVlanPcp) &&
  (wild r W_DL_TYPE || r.dlType == h.dlType) &&
  (!ipSpecified r || wild r W_NW_TOS || r.nwTos / 4 == h.nwTos / 4) &&
  (!nwSpecified r || wild r W_NW_PROTO || r.nwProto == h.nwProto) &&
  (!nwSpecified r || prefixEq (srcIgnored r) r.nwSrc h.nwSrc) &&
  (!nwSpecified r || prefixEq (dstIgnored r) r.nwDst h.nwDst) &&
  (!tpSpecified r || wild r W_TP_SRC || r.tpSrc == h.tpSrc) &&
  (!tpSpecified r || wild r W_TP_DST || r.tpDst == h.tpDst)

/-! ## priority and lookup -/

/-- "has no wildcards": all 22 defined wildcard bits are zero -/
def exact (r : OfMatch) : Bool := r.wildcards % 2 ^ 22 == 0

/-- a flow entry as the controller sends it: 16-bit priority and the transmitted match -/
structure Flow where
  priority : Nat
  mtch : OfMatch
  deriving DecidableEq, Repr

/-- exact-match entries rank above every 16-bit priority -/
def rank (f : Flow) : Nat := if exact f.mtch then 0x10000 else f.priority

/-- what a lookup for headers `h` in the flow list `fs` may answer: a matching flow that no matching flow outranks
    (`some`), or a miss exactly when nothing matches (`none`) -/
def IsBest (fs : List Flow) (h : Headers) : Option Flow → Prop
  | some f => f ∈ fs ∧ matchHdr f.mtch h = true ∧ ∀ g ∈ fs, matchHdr g.mtch h = true → rank g ≤ rank f
  | none => ∀ g ∈ fs, matchHdr g.mtch h = false

/-! ## exact match under the prerequisite rule

`exact` above reads "has no wildcards" literally (the 22 defined bits of the word are zero).  Under the prerequisite rule the wildcard
bits of ignored fields carry no information — "fields that are ignored don't need to be wildcarded" — so two transmitted matches that
differ only there describe the same flow and must rank alike.  `exactSig` is that reading: every field the match *could* compare is
compared in full (no flag set on a field whose prerequisite is specified, complete addresses when IPv4/ARP is specified).  It is what
the reference switch implements (ignored fields are marked exact-match so that such flows live in the exact-match table).  The two
readings agree on every match that wildcards no ignored field and is IPv4 TCP/UDP/ICMP when literally exact. -/

/-- the prerequisite of the field behind wildcard bit `bit` is specified by the match -/
def prereqOk (r : OfMatch) (bit : Nat) : Bool :=
  if bit = W_NW_TOS then ipSpecified r
  else if bit = W_NW_PROTO then nwSpecified r
  else if bit = W_TP_SRC ∨ bit = W_TP_DST then tpSpecified r
  else true

def flagBitsAll : List Nat :=
  [W_IN_PORT, W_DL_VLAN, W_DL_SRC, W_DL_DST, W_DL_TYPE, W_NW_PROTO, W_TP_SRC, W_TP_DST, W_DL_VLAN_PCP, W_NW_TOS]

def exactSig (r : OfMatch) : Bool :=
  flagBitsAll.all (fun bit => !wild r bit || !prereqOk r bit) &&
  (!nwSpecified r || (srcIgnored r == 0 && dstIgnored r == 0))

def rankSig (f : Flow) : Nat := if exactSig f.mtch then 0x10000 else f.priority

/-- `IsBest` with `rankSig` -/
def IsBestSig (fs : List Flow) (h : Headers) : Option Flow → Prop
  | some f => f ∈ fs ∧ matchHdr f.mtch h = true ∧ ∀ g ∈ fs, matchHdr g.mtch h = true → rankSig g ≤ rankSig f
  | none => ∀ g ∈ fs, matchHdr g.mtch h = false

/-! ## subsumption (used by the non-strict MODIFY / DELETE of §4.6) -/

/-- is the flag field behind wildcard bit `bit` compared by `r`?  (not wildcarded and its prerequisite specified) -/
def significant (r : OfMatch) (bit : Nat) : Bool :=
  !wild r bit &&
  (if bit = W_NW_TOS then ipSpecified r
   else if bit = W_NW_PROTO then nwSpecified r
   else if bit = W_TP_SRC ∨ bit = W_TP_DST then tpSpecified r
   else true)

def srcIgn (r : OfMatch) : Nat := if nwSpecified r then srcIgnored r else 32
def dstIgn (r : OfMatch) : Nat := if nwSpecified r then dstIgnored r else 32

/-- field-wise test for "every frame `b` matches, `a` matches too": each field `a` compares is compared by `b` with the
    same value; `a`'s address prefixes are no longer than `b`'s and agree with them.  `subsumes_iff_forall`
    (Proofs/Subsume) proves this equivalent to the semantic definition. -/
def subsumes (a b : OfMatch) : Bool :=
  (!significant a W_IN_PORT || (significant b W_IN_PORT && a.inPort == b.inPort)) &&
  (!significant a W_DL_SRC || (significant b W_DL_SRC && a.dlSrc == b.dlSrc)) &&
  (!significant a W_DL_DST || (significant b W_DL_DST && a.dlDst == b.dlDst)) &&
  (!significant a W_DL_VLAN || (significant b W_DL_VLAN && a.dlVlan == b.dlVlan)) &&
  (!significant a W_DL_VLAN_PCP || (significant b W_DL_VLAN_PCP && a.dlVlanPcp == b.dlVlanPcp)) &&
  (!significant a W_DL_TYPE || (significant b W_DL_TYPE && a.dlType == b.dlType)) &&
  (!significant a W_NW_TOS || (significant b W_NW_TOS && a.nwTos / 4 == b.nwTos / 4)) &&
  (!significant a W_NW_PROTO || (significant b W_NW_PROTO && a.nwProto == b.nwProto)) &&
  (srcIgn b ≤ srcIgn a && prefixEq (srcIgn a) a.nwSrc b.nwSrc) &&
  (dstIgn b ≤ dstIgn a && prefixEq (dstIgn a) a.nwDst b.nwDst) &&
  (!significant a W_TP_SRC || (significant b W_TP_SRC && a.tpSrc == b.tpSrc)) &&
  (!significant a W_TP_DST || (significant b W_TP_DST && a.tpDst == b.tpDst))

end Pox.Spec
