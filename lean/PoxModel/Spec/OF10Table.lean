import PoxModel.Spec.OF10Match
import PoxModel.Model.FlowMod
/-! # OpenFlow 1.0 flow-table semantics (specification §3.4 "exact match … highest priority", §4.6 "Flow Table Modification
Messages", §4.7 "Flow Removal", §5.3.3 `ofp_flow_mod`, §5.4.2 `ofp_flow_removed`, §5.3.5 flow / aggregate statistics)

Transcribed from the standard, to be read against it.  Nothing here refers to the model's *functions*; shared with the model are
only data types: `OfMatch` (the 40-byte match as transmitted), `PHdr` (a parsed frame), and from `Model/FlowMod` the message
types `Action`, `Cmd`, `FlowModMsg`, `Op` (the events of a history) and the numeric constants of `openflow.h`.

The table is a list of flows, each identified by the match **as transmitted** and its priority.

* **ADD** (§4.6): "the switch must first check for any overlapping flow entries" when `OFPFF_CHECK_OVERLAP` is set — "two flow
  entries overlap if a single packet may match both, and both entries have the same priority" — and refuse with `OFPFMFC_OVERLAP`;
  otherwise "if a flow entry with identical header fields and priority already resides in any table, then that entry, including
  its counters, must be removed, and the new flow entry added"; if there is no room, `OFPFMFC_ALL_TABLES_FULL`, table unchanged.
  A replaced flow produces no flow-removed message.
* **MODIFY** / **MODIFY_STRICT**: the actions of every flow the description subsumes (strict: the flow with identical match and
  priority) are replaced, counters and timers untouched; "if no flow currently residing … matches, the MODIFY acts like an ADD".
* **DELETE** / **DELETE_STRICT**: every flow the description subsumes (strict: identical match and priority) — and that, when
  `out_port ≠ OFPP_NONE`, "contain[s] an output action directed at that port" — is removed; each removed flow that carries
  `OFPFF_SEND_FLOW_REM` yields one flow-removed message with reason `OFPRR_DELETE`.
* **timeouts** (§4.7): a flow with non-zero idle timeout is removed when no packet matched it for more than `idle_timeout`
  seconds, one with non-zero hard timeout more than `hard_timeout` seconds after installation whatever the traffic.  Expiry is
  observed at *sweep* events (an implementation scans periodically): a sweep at time `t` removes exactly the flows whose deadline
  is strictly before `t`; the reason is `OFPRR_IDLE_TIMEOUT` if the idle deadline has passed, else `OFPRR_HARD_TIMEOUT`.
  Flow-removed is sent iff the flow carries `OFPFF_SEND_FLOW_REM`, with its duration and counters.
* **lookup**: a packet is accounted to the matching flow of highest rank (exact flows above all priorities); among matching flows of
  equal rank the standard leaves the choice open — this transcription keeps the list ordered by descending rank, newest first
  among equals, and takes the first matching flow.  A hit increments the flow's counters and restarts its idle clock only.
* **emergency flows** (`OFPFF_EMERG`): the emergency cache is not implemented; a request with non-zero timeouts is refused with
  `OFPFMFC_BAD_EMERG_TIMEOUT` (mandated), every other one with an implementation-chosen `OFPET_FLOW_MOD_FAILED` code
  (`EPERM` when it also asks for flow-removed, `ALL_TABLES_FULL` otherwise).  No emergency flow is ever installed.
* "identical header fields": the two descriptions denote the same set of packets (each subsumes the other), so that encodings
  differing only in ignored bits are the same flow.
* **buffer_id** (§5.3.3 "buffered packet to apply to"; §5.4.4 `OFPBRC_BUFFER_EMPTY` "specified buffer has already been used",
  `OFPBRC_BUFFER_UNKNOWN` "specified buffer does not exist"): a flow-mod that names a buffer has the packet stored under that id
  processed by the flow-mod's own actions and the buffer released; an id never handed out is answered `BUFFER_UNKNOWN`, one already
  used `BUFFER_EMPTY`.  The standard does not say whether this also happens when the command itself is refused or is a DELETE
  ("not meaningful"): this transcription does it for every defined command, as the code does; the flow's counters are not
  touched.  A table miss stores the frame and announces the id in the packet-in; which id is the switch's choice — the store
  and its allocation policy are C18's `BufPool.Pool` / `alloc` (shared component, proved there).
* an undefined `command` is refused with `OFPFMFC_BAD_COMMAND` and nothing else happens.
* **output to the controller** (§3.3 "CONTROLLER: encapsulate and send the packet to the controller", §5.4.1 reason
  `OFPR_ACTION`): each `output:CONTROLLER` among the actions applied to a packet — the actions of the flow it hit, or of the flow-mod
  that releases it from a buffer — stores the packet and sends a packet-in with reason ACTION carrying the new buffer id; when this
  happens during the release of a buffer the old buffer is freed only afterwards.  What the other actions do to the packet is outside
  this transcription (C12); `output:TABLE` is not transcribed at all (histories whose flow-mods carry it are not covered). -/
namespace Pox.Spec
open Pox.OF Pox.FlowMod
open Pox.BufPool (Pool alloc)

/-! ## relations between two transmitted matches -/

/-- "identical header fields": each description subsumes the other -/
def identical (a b : OfMatch) : Bool := subsumes a b && subsumes b a

/-- field `bit` does not keep `a` and `b` apart: not compared by both, or compared with equal values -/
def fieldCompat (a b : OfMatch) (bit : Nat) (x y : Nat) : Bool := !(significant a bit && significant b bit) || x == y

/-- "a single packet may match both": no field compared by both with different values, address prefixes agree on the shorter
    one.  `overlaps_iff_exists` (Proofs/Overlap) proves this equivalent to the existence of a common 12-tuple. -/
def overlaps (a b : OfMatch) : Bool :=
  fieldCompat a b W_IN_PORT a.inPort b.inPort &&
  fieldCompat a b W_DL_SRC a.dlSrc b.dlSrc &&
  fieldCompat a b W_DL_DST a.dlDst b.dlDst &&
  fieldCompat a b W_DL_VLAN a.dlVlan b.dlVlan &&
  fieldCompat a b W_DL_VLAN_PCP a.dlVlanPcp b.dlVlanPcp &&
  fieldCompat a b W_DL_TYPE a.dlType b.dlType &&
  fieldCompat a b W_NW_TOS (a.nwTos / 4) (b.nwTos / 4) &&
  fieldCompat a b W_NW_PROTO a.nwProto b.nwProto &&
  prefixEq (max (srcIgn a) (srcIgn b)) a.nwSrc b.nwSrc &&
  prefixEq (max (dstIgn a) (dstIgn b)) a.nwDst b.nwDst &&
  fieldCompat a b W_TP_SRC a.tpSrc b.tpSrc &&
  fieldCompat a b W_TP_DST a.tpDst b.tpDst

/-! ## the table -/

structure SFlow where
  mtch : OfMatch
  priority : Nat
  actions : List Action
  cookie : Nat
  flags : Nat
  idle : Nat
  hard : Nat
  /-- milliseconds -/
  installed : Nat
  lastUsed : Nat
  packets : Nat
  bytes : Nat
  deriving DecidableEq, Repr

structure STable where
  flows : List SFlow
  now : Nat
  capacity : Nat
  /-- packets stored for the controller, by buffer id -/
  buffers : Pool BFrame

/-- `ofp_flow_removed` (§5.4.2) -/
structure SRemoved where
  mtch : OfMatch
  cookie : Nat
  priority : Nat
  reason : Nat
  durSec : Nat
  durNsec : Nat
  idle : Nat
  packets : Nat
  bytes : Nat
  deriving DecidableEq, Repr

/-- `ofp_flow_stats` (§5.3.5) -/
structure SFlowStat where
  mtch : OfMatch
  durSec : Nat
  durNsec : Nat
  priority : Nat
  idle : Nat
  hard : Nat
  cookie : Nat
  packets : Nat
  bytes : Nat
  actions : List Action
  deriving DecidableEq, Repr

inductive SOut where
  | flowRemoved (m : SRemoved)
  | error (etype code : Nat)
  | packetIn (inPort : Nat) (bufferId : Option Nat) (reason : Nat)
  | release (id : Nat) (frame : BFrame) (actions : List Action)
  | flowStats (l : List SFlowStat)
  | aggStats (packets bytes flows : Nat)
  deriving DecidableEq, Repr

/-- exact flows (prerequisite-rule reading, `Spec.exactSig`: every field the description could compare is compared in full) rank
    above all priorities -/
def SFlow.rank (f : SFlow) : Nat := Spec.rankSig ⟨f.priority, f.mtch⟩

def hasOutput (f : SFlow) (port : Nat) : Bool :=
  f.actions.any fun a => match a with
    | .output q _ => q == port
    | .other _ _ => false

/-- identical match and priority -/
def sameFlow (m : OfMatch) (prio : Nat) (f : SFlow) : Bool := identical f.mtch m && f.priority == prio

/-- the flows a MODIFY / DELETE description selects -/
def selected (m : OfMatch) (prio : Nat) (strict : Bool) (f : SFlow) : Bool :=
  if strict then sameFlow m prio f else subsumes m f.mtch

def portOk (outPort : Nat) (f : SFlow) : Bool := outPort == OFPP_NONE || hasOutput f outPort

def wantsNotify (f : SFlow) : Bool := f.flags.testBit FF_SEND_FLOW_REM

def removedOf (now reason : Nat) (f : SFlow) : SRemoved :=
  { mtch := f.mtch, cookie := f.cookie, priority := f.priority, reason := reason,
    durSec := (now - f.installed) / 1000, durNsec := (now - f.installed) % 1000 * 1000000,
    idle := f.idle, packets := f.packets, bytes := f.bytes }

def notifications (now reason : Nat) (fs : List SFlow) : List SOut :=
  (fs.filter wantsNotify).map fun f => SOut.flowRemoved (removedOf now reason f)

/-- insert keeping descending rank, in front of the flows of equal rank -/
def insertFlow (f : SFlow) (fs : List SFlow) : List SFlow :=
  fs.takeWhile (fun g => g.rank > f.rank) ++ f :: fs.dropWhile (fun g => g.rank > f.rank)

def newFlow (now : Nat) (fm : FlowModMsg) : SFlow :=
  { mtch := fm.mtch, priority := fm.priority, actions := fm.actions, cookie := fm.cookie, flags := fm.flags, idle := fm.idle,
    hard := fm.hard, installed := now, lastUsed := now, packets := 0, bytes := 0 }

def failed (t : STable) (code : Nat) : STable × List SOut := (t, [.error OFPET_FLOW_MOD_FAILED code])

/-- the refusals of an emergency flow-mod -/
def emergencyCode (fm : FlowModMsg) : Nat :=
  if fm.idle ≠ 0 ∨ fm.hard ≠ 0 then OFPFMFC_BAD_EMERG_TIMEOUT
  else if fm.flags.testBit FF_SEND_FLOW_REM then OFPFMFC_EPERM
  else OFPFMFC_ALL_TABLES_FULL

/-- the flows that stay when `fm` replaces the flow with identical match and priority -/
def withoutSame (t : STable) (fm : FlowModMsg) : List SFlow := t.flows.filter (fun g => !sameFlow fm.mtch fm.priority g)

/-- OFPFC_ADD -/
def add (t : STable) (fm : FlowModMsg) : STable × List SOut :=
  if fm.flags.testBit FF_EMERG then failed t (emergencyCode fm)
  else if fm.flags.testBit FF_CHECK_OVERLAP &&
      t.flows.any (fun g => g.rank == (newFlow t.now fm).rank && overlaps g.mtch fm.mtch) then failed t OFPFMFC_OVERLAP
  else if (withoutSame t fm).length ≥ t.capacity then failed t OFPFMFC_ALL_TABLES_FULL
  else ({ t with flows := insertFlow (newFlow t.now fm) (withoutSame t fm) }, [])

/-- OFPFC_MODIFY / OFPFC_MODIFY_STRICT -/
def modify (t : STable) (fm : FlowModMsg) (strict : Bool) : STable × List SOut :=
  if t.flows.any (selected fm.mtch fm.priority strict) then
    ({ t with flows := t.flows.map fun f => if selected fm.mtch fm.priority strict f then { f with actions := fm.actions } else f }, [])
  else add t fm

/-- OFPFC_DELETE / OFPFC_DELETE_STRICT -/
def delete (t : STable) (fm : FlowModMsg) (strict : Bool) : STable × List SOut :=
  let hit := fun f => selected fm.mtch fm.priority strict f && portOk fm.outPort f
  ({ t with flows := t.flows.filter (fun f => !hit f) }, notifications t.now OFPRR_DELETE (t.flows.filter hit))

def idleExpired (now : Nat) (f : SFlow) : Bool := decide (f.idle ≠ 0) && decide (f.lastUsed + f.idle * 1000 < now)
def hardExpired (now : Nat) (f : SFlow) : Bool := decide (f.hard ≠ 0) && decide (f.installed + f.hard * 1000 < now)

/-- expiry scan at `t.now` -/
def expire (t : STable) : STable × List SOut :=
  ({ t with flows := t.flows.filter (fun f => !(idleExpired t.now f || hardExpired t.now f)) },
   notifications t.now OFPRR_IDLE_TIMEOUT (t.flows.filter (idleExpired t.now)) ++
   notifications t.now OFPRR_HARD_TIMEOUT (t.flows.filter (fun f => !idleExpired t.now f && hardExpired t.now f)))

/-- account a packet of `len` bytes to the first flow satisfying `hit` -/
def account (hit : SFlow → Bool) (len now : Nat) : List SFlow → List SFlow
  | [] => []
  | f :: r =>
    if hit f then { f with packets := f.packets + 1, bytes := f.bytes + len, lastUsed := now } :: r
    else f :: account hit len now r

/-- how many of the actions send the packet to the controller -/
def toController (actions : List Action) : Nat :=
  (actions.filter fun a => match a with
    | .output q _ => q == OFPP_CONTROLLER
    | .other _ _ => false).length

/-- send the packet `f` to the controller `n` times: each time it is stored and announced with reason ACTION -/
def sendToController (b : Pool BFrame) (f : BFrame) : Nat → Pool BFrame × List SOut
  | 0 => (b, [])
  | n + 1 =>
    let a := alloc b f
    let r := sendToController a.1 f n
    (r.1, .packetIn f.inPort a.2 1 :: r.2)

/-- the actions of the first flow satisfying `hit` -/
def actionsOfHit (hit : SFlow → Bool) (fs : List SFlow) : List Action :=
  match fs.find? hit with
  | some f => f.actions
  | none => []

/-- a frame arrives on `inPort` -/
def receive (t : STable) (p : PHdr) (inPort len : Nat) : STable × List SOut :=
  let hit := fun (f : SFlow) => matchHdr f.mtch (headers p inPort)
  if t.flows.any hit then
    let c := sendToController t.buffers { hdr := p, len := len, inPort := inPort } (toController (actionsOfHit hit t.flows))
    ({ t with flows := account hit len t.now t.flows, buffers := c.1 }, c.2)
  else
    let a := alloc t.buffers { hdr := p, len := len, inPort := inPort }
    ({ t with buffers := a.1 }, [.packetIn inPort a.2 0])

def statOf (now : Nat) (f : SFlow) : SFlowStat :=
  { mtch := f.mtch, durSec := (now - f.installed) / 1000, durNsec := (now - f.installed) % 1000 * 1000000,
    priority := f.priority, idle := f.idle, hard := f.hard, cookie := f.cookie, packets := f.packets, bytes := f.bytes,
    actions := f.actions }

/-- flows a statistics request describes: subsumed by its match, restricted by `out_port` -/
def statFlows (t : STable) (m : OfMatch) (outPort : Nat) : List SFlow :=
  t.flows.filter fun f => subsumes m f.mtch && portOk outPort f

/-- the packet stored under buffer id `id`, if any -/
def stored (t : STable) (id : Nat) : Option BFrame := if id = 0 then none else (t.buffers.slots[id - 1]?).join

/-- apply `actions` to the packet stored under `id` and release the buffer -/
def applyBuffer (t : STable) (id : Nat) (actions : List Action) : STable × List SOut :=
  match stored t id with
  | some f =>
    let c := sendToController t.buffers f (toController actions)
    ({ t with buffers := { c.1 with slots := c.1.slots.set (id - 1) none } }, c.2 ++ [.release id f actions])
  | none =>
    if id ≠ 0 ∧ id - 1 < t.buffers.slots.length then (t, [.error OFPET_BAD_REQUEST OFPBRC_BUFFER_EMPTY])
    else (t, [.error OFPET_BAD_REQUEST OFPBRC_BUFFER_UNKNOWN])

/-- the command of a flow-mod -/
def command (t : STable) (fm : FlowModMsg) : STable × List SOut :=
  match fm.cmd with
  | .add => add t fm
  | .modify => modify t fm false
  | .modifyStrict => modify t fm true
  | .delete => delete t fm false
  | .deleteStrict => delete t fm true
  | .unknown _ => failed t OFPFMFC_BAD_COMMAND

/-- OFPT_FLOW_MOD: the command, then the named buffer -/
def flowMod (t : STable) (fm : FlowModMsg) : STable × List SOut :=
  match fm.cmd, fm.bufferId with
  | .unknown _, _ => command t fm
  | _, none => command t fm
  | _, some id =>
    let r := command t fm
    let b := applyBuffer r.1 id fm.actions
    (b.1, r.2 ++ b.2)

def step (t : STable) : Op → STable × List SOut
  | .flowMod fm => flowMod t fm
  | .packet p inPort len => receive t p inPort len
  | .advance dt => ({ t with now := t.now + dt }, [])
  | .sweep => expire t
  | .flowStats m outPort => (t, [.flowStats ((statFlows t m outPort).map (statOf t.now))])
  | .aggStats m outPort =>
    let fs := statFlows t m outPort
    (t, [.aggStats (fs.map (·.packets)).sum (fs.map (·.bytes)).sum fs.length])

def run (t : STable) : List Op → STable × List (List SOut)
  | [] => (t, [])
  | op :: ops =>
    let r := step t op
    let rs := run r.1 ops
    (rs.1, r.2 :: rs.2)

end Pox.Spec
