import PoxModel.Spec.OF10Match
/-! # From the bytes of a frame to its description (`PHdr`) — IEEE 802.3 / 802.2 / 802.1Q, RFC 791 / 793 / 768 / 792 / 826

`Spec.headers` (Figure 4 of OpenFlow 1.0) is stated on the abstract frame description `PHdr`.  This file says which description a
sequence of bytes *is*, reading the bytes itself — nothing of the packet library under test is consulted, so a library that takes a
frame for something else (another Ethernet type for an 802.1Q tag, another IP flag for "more fragments") is seen to disagree.

* Ethernet: destination, source, type/length.  A value below 0x600 is a length: an 802.2 LLC header follows; DSAP = SSAP = 0xAA with
  control 3 is SNAP (OUI + type).  Only OUI 0 is Ethernet-in-SNAP; other organisations' SNAP and plain LLC stop the description.
* `0x8100` — and no other value: OpenFlow 1.0 knows one tag, 802.1ad / QinQ types (0x88a8, 0x9100, 0x9200, …) are ordinary Ethernet
  types to it — is an 802.1Q tag: PCP (3 bits), CFI, VLAN id (12 bits), encapsulated type.
* `0x0800`: IPv4.  Flags are the top three bits of the fragment word: reserved (4), DF (2), MF (1).  The datagram is a *fragment*
  iff MF is set or the fragment offset is non-zero (RFC 791); the reserved bit and DF say nothing about fragmentation.  The
  transport header starts after `IHL * 4` bytes (options skipped) and is only there when the fragment offset is zero.
* `0x0806`: ARP for IPv4 over Ethernet (hardware type 1, length 6; protocol 0x0800, length 4).

* TCP (RFC 793): the ports are the first four octets of the header.  The header is there in full when the data offset says at least
  20 octets and no more than the segment holds.  What the option area contains — well-formed options, unknown kinds, an option whose
  length octet is 0, 1 or runs past the header — has no bearing on the ports: OpenFlow 1.0 takes tp_src / tp_dst from the TCP header
  of every unfragmented TCP segment, it does not parse options.

`parse` returns the description and whether the frame is *complete*: every header its type fields promise is there in full — only
then does the standard say what the twelve header fields are.  (Left out, conservatively: LLC with an I- or S-format control field,
the group-bit variants of the SNAP SAPs, a length field behind SNAP or behind a tag.)
`parse_regular`: a complete frame's description satisfies the side condition `regularG false` of the extraction / lookup theorems. -/
namespace Pox.Spec.Frame
open Pox.OF

/-- big-endian number -/
def be (l : List Nat) : Nat := l.foldl (fun a b => a * 256 + b) 0

/-- bytes `i ..< j` -/
def slice (l : List Nat) (i j : Nat) : List Nat := (l.take j).drop i

/-- transport header of an IPv4 datagram with protocol `proto`, fragment offset `fo`, payload `pay` (`frag`: MF set or `fo ≠ 0`) -/
def l4 (proto fo : Nat) (frag : Bool) (pay : List Nat) : L4 × Bool :=
  if fo ≠ 0 then (.none, true)
  else if proto = 17 then
    if 8 ≤ pay.length then (.ports (be (slice pay 0 2)) (be (slice pay 2 4)), true) else (.none, frag)
  else if proto = 6 then
    let doff := (pay.getD 12 0 / 16) * 4
    if 20 ≤ pay.length ∧ 20 ≤ doff ∧ doff ≤ pay.length then
      (.ports (be (slice pay 0 2)) (be (slice pay 2 4)), true)
    else (.none, frag)
  else if proto = 1 then
    if 4 ≤ pay.length then (.icmp (pay.getD 0 0) (pay.getD 1 0), true) else (.none, frag)
  else (.none, true)

/-- what follows the (encapsulated) Ethernet type `t` -/
def l3 (t : Nat) (b : List Nat) : L3 × Bool :=
  if t = 0x0800 then
    let ver := b.getD 0 0 / 16
    let ihl := b.getD 0 0 % 16
    let tot := be (slice b 2 4)
    let fw := be (slice b 6 8)
    if b.length < 20 ∨ ver ≠ 4 ∨ ihl < 5 ∨ tot < ihl * 4 ∨ b.length < ihl * 4 then (.other, false)
    else
      let frag := (fw / 8192) % 2 == 1 || fw % 8192 != 0
      let r := l4 (b.getD 9 0) (fw % 8192) frag (slice b (ihl * 4) (min tot b.length))
      (.ipv4 (be (slice b 12 16)) (be (slice b 16 20)) (b.getD 9 0) (b.getD 1 0) frag r.1, r.2)
  else if t = 0x0806 then
    if b.length < 28 ∨ be (slice b 0 2) ≠ 1 ∨ be (slice b 2 4) ≠ 0x0800 ∨ b.getD 4 0 ≠ 6 ∨ b.getD 5 0 ≠ 4 then (.other, false)
    else (.arp (be (slice b 6 8)) (be (slice b 14 18)) (be (slice b 24 28)), true)
  else (.other, true)

/-- the part behind the Ethernet type `t` (of the Ethernet header, or of a zero-OUI SNAP header): an 802.1Q tag iff `t = 0x8100` -/
def tagged (src dst typ : Nat) (llc : Option Llc) (t : Nat) (b : List Nat) : PHdr × Bool :=
  if t = 0x8100 then
    if b.length < 4 then ({ src, dst, typ, llc, vlan := none, l3 := .other }, false)
    else
      let tci := be (slice b 0 2)
      let t' := be (slice b 2 4)
      let r := l3 t' (b.drop 4)
      ({ src, dst, typ, llc, vlan := some { id := tci % 4096, pcp := tci / 8192, ethType := t' }, l3 := r.1 }, decide (0x600 ≤ t') && r.2)
  else
    let r := l3 t b
    ({ src, dst, typ, llc, vlan := none, l3 := r.1 }, r.2)

def parse (fr : List Nat) : Option (PHdr × Bool) :=
  if fr.length < 14 then none
  else
    let dst := be (slice fr 0 6)
    let src := be (slice fr 6 12)
    let typ := be (slice fr 12 14)
    let b := fr.drop 14
    if typ < 0x600 then
      if b.length < 3 then some ({ src, dst, typ, llc := none, vlan := none, l3 := .other }, false)
      else if b.getD 0 0 = 0xaa ∧ b.getD 1 0 = 0xaa ∧ b.getD 2 0 = 3 then
        let oui := be (slice b 3 6)
        let t2 := be (slice b 6 8)
        if b.length < 8 then some ({ src, dst, typ, llc := none, vlan := none, l3 := .other }, false)
        else if oui ≠ 0 then some ({ src, dst, typ, llc := some { snapOui := some oui, ethType := t2 }, vlan := none, l3 := .other }, true)
        else if t2 < 0x600 then some ({ src, dst, typ, llc := some { snapOui := some 0, ethType := t2 }, vlan := none, l3 := .other }, false)
        else some (tagged src dst typ (some { snapOui := some 0, ethType := t2 }) t2 (b.drop 8))
      else
        some ({ src, dst, typ, llc := some { snapOui := none, ethType := 0xffff }, vlan := none, l3 := .other },
              !(b.getD 0 0 / 2 == 0x55 || b.getD 1 0 / 2 == 0x55))
    else some (tagged src dst typ none typ b)

end Pox.Spec.Frame
