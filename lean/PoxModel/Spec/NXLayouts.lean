import PoxModel.Spec.OF10Layouts
/-! # Nicira extension messages with an `nx_match` (`nicira-ext.h`), transcribed by hand

Part of the trusted base of C01, like `OF10Layouts.lean`; read as text by `harness/translate/spec_parser.py` for the
property oracle and used by `Model/CodecNX.lean` for the fixed parts.

`struct nx_flow_mod` (NXT_FLOW_MOD): `struct nicira_header` (ofp_header, vendor = NX_VENDOR_ID, subtype), cookie,
command ("OFPFC_* + possibly a table ID" in the high byte), idle_timeout, hard_timeout, priority, buffer_id, out_port, flags,
match_len, zeros[6]; "followed by: an nx_match of exactly match_len (possibly 0) bytes, then exactly
(match_len + 7)/8*8 - match_len (between 0 and 7) bytes of all-zero bytes, then actions to fill out the remainder of the
message length".
`struct nx_packet_in` (NXT_PACKET_IN): nicira_header, buffer_id, total_len, reason, table_id, cookie, match_len, pad[6];
"followed by: the nx_match, padded with zeros to a multiple of 8 bytes, then exactly 2 all-zero padding bytes, then the
Ethernet frame".  So the padding after the match is absent when `match_len` is a multiple of 8 (zero included).

`struct nx_action_learn` (NXAST_LEARN): type = OFPAT_VENDOR, len ("at least 24"), vendor, subtype, idle_timeout,
hard_timeout, priority, cookie, flags, table_id, pad, fin_idle_timeout, fin_hard_timeout (32 bytes), "followed by a
sequence of flow_mod_spec elements …, followed by enough zero bytes to bring the action's length to a multiple of 8".
One flow_mod_spec: a 16-bit header `src << 13 | dst << 11 | n_bits` (src: 0 field, 1 immediate; dst: 0 match, 1 load,
2 output); then the source — "if src is NX_LEARN_SRC_IMMEDIATE: (n_bits + 15) / 16 * 2 bytes, a series of 16-bit words in
network byte order; if src is NX_LEARN_SRC_FIELD: a 32-bit nxm_header followed by a 16-bit offset" — then the destination:
nxm_header + 16-bit offset for MATCH and LOAD, nothing for OUTPUT.
`struct nx_action_bundle` (NXAST_BUNDLE / NXAST_BUNDLE_LOAD): type, len, vendor, subtype, algorithm, fields, basis,
slave_type, n_slaves, ofs_nbits, dst, zero[4] (32 bytes), then n_slaves 16-bit port numbers, "followed by … zero bytes to
make the total length a multiple of 8". -/
namespace Pox.Spec.NX
open Pox.Layout

/-- `struct nx_flow_mod` up to and including `zeros[6]` (48 bytes); the tail is match ‖ pad to 8 ‖ actions -/
def nx_flow_mod : Layout :=
  ⟨OF10.ofp_header ++ [.uint "vendor" 4, .uint "subtype" 4, .uint "cookie" 8, .uint "command" 2, .uint "idle_timeout" 2, .uint "hard_timeout" 2, .uint "priority" 2, .uint "buffer_id" 4, .uint "out_port" 2, .uint "flags" 2, .uint "match_len" 2, .pad 6], .rest "match+pad+actions"⟩

/-- `struct nx_packet_in` up to and including `pad[6]` (40 bytes); the tail is match ‖ pad to 8 ‖ 2 zero bytes ‖ frame -/
def nxt_packet_in : Layout :=
  ⟨OF10.ofp_header ++ [.uint "vendor" 4, .uint "subtype" 4, .uint "buffer_id" 4, .uint "total_len" 2, .uint "reason" 1, .uint "table_id" 1, .uint "cookie" 8, .uint "match_len" 2, .pad 6], .rest "match+pad+data"⟩

/-- `struct nx_action_learn` (32 bytes); the tail is the flow_mod_specs ‖ pad to 8 -/
def nx_action_learn : Layout :=
  ⟨[.uint "type" 2, .lenSelf 2, .uint "vendor" 4, .uint "subtype" 2, .uint "idle_timeout" 2, .uint "hard_timeout" 2, .uint "priority" 2, .uint "cookie" 8, .uint "flags" 2, .uint "table_id" 1, .pad 1, .uint "fin_idle_timeout" 2, .uint "fin_hard_timeout" 2], .rest "specs+pad"⟩

/-- `struct nx_action_bundle` (32 bytes); the tail is the slaves ‖ pad to 8 -/
def nx_action_bundle : Layout :=
  ⟨[.uint "type" 2, .lenSelf 2, .uint "vendor" 4, .uint "subtype" 2, .uint "algorithm" 2, .uint "fields" 2, .uint "basis" 2, .blob "slave_type" 4, .uint "n_slaves" 2, .uint "ofs_nbits" 2, .blob "dst" 4, .pad 4], .rest "slaves+pad"⟩

/-- header word of a flow_mod_spec -/
def learnSpecHeader (src dst nBits : Nat) : Nat := src * 8192 + dst * 2048 + nBits
/-- bytes of an immediate source of `nBits` bits: whole 16-bit words -/
def immBytes (nBits : Nat) : Nat := (nBits + 15) / 16 * 2
/-- bytes of one flow_mod_spec (src 0 field / 1 immediate; dst 0 match / 1 load / 2 output) -/
def learnSpecSize (src dst nBits : Nat) : Nat :=
  2 + (if src = 1 then immBytes nBits else 6) + (if dst = 2 then 0 else 6)

/-- number of zero bytes after an nx_match of `n` bytes: up to the next multiple of 8, none when `n` is one -/
def matchPad (n : Nat) : Nat := (n + 7) / 8 * 8 - n

theorem sizes_ok : fixedSize nx_flow_mod.fixed = 48 ∧ fixedSize nxt_packet_in.fixed = 40 := by decide
theorem action_sizes_ok : fixedSize nx_action_learn.fixed = 32 ∧ fixedSize nx_action_bundle.fixed = 32 := by decide
/-- an immediate is the least even number of bytes that holds `n` bits -/
theorem immBytes_law (n : Nat) : immBytes n % 2 = 0 ∧ n ≤ 8 * immBytes n ∧ 8 * immBytes n < n + 16 := by
  unfold immBytes; omega
/-- the header word determines its three parts (n_bits < 1024 as the code asserts, dst < 4, src < 2) -/
theorem learnSpecHeader_inj (s d n : Nat) (hn : n < 2048) (hd : d < 4) :
    learnSpecHeader s d n % 2048 = n ∧ learnSpecHeader s d n / 2048 % 4 = d ∧ learnSpecHeader s d n / 8192 = s := by
  unfold learnSpecHeader; omega
theorem matchPad_law (n : Nat) : (n + matchPad n) % 8 = 0 ∧ matchPad n < 8 ∧ (n % 8 = 0 → matchPad n = 0) := by
  unfold matchPad; omega

end Pox.Spec.NX
