import PoxModel.Spec.OF10Layouts
/-! # Nicira extension messages with an `nx_match` (`nicira-ext.h`), transcribed by hand

Part of the trusted base of C01, like `OF10Layouts.lean`; read as text by `harness/translate/spec_parser.py` for the
property oracle and used by `Model/CodecNX.lean` for the fixed parts.

`struct nx_flow_mod` (NXT_FLOW_MOD): `struct nicira_header` (ofp_header, vendor = NX_VENDOR_ID, subtype), cookie,
command ("OFPFC_* + possibly a table ID" in the high byte), idle_timeout, hard_timeout, priority, buffer_id, out_port, flags,
match_len, zeros[6]; "followed by: an nx_match of exactly match_len (possibly 0) bytes, then exactly
(match_len + 7)/8*8 - match_len (between 0 and 7) bytes of all-zero bytes, then actions to fill out the remainder of the
message length".
`struct nx_packet_in` (NXT_PACKET_IN): nicira_header, buffer_id, total_len, reason, table_id, cookie, match_len, pad[6];
"followed by: the nx_match, padded with zeros to a multiple of 8 bytes, then exactly 2 all-zero padding bytes, then the
Ethernet frame".  So the padding after the match is absent when `match_len` is a multiple of 8 (zero included). -/
namespace Pox.Spec.NX
open Pox.Layout

/-- `struct nx_flow_mod` up to and including `zeros[6]` (48 bytes); the tail is match ‖ pad to 8 ‖ actions -/
def nx_flow_mod : Layout :=
  ⟨OF10.ofp_header ++ [.uint "vendor" 4, .uint "subtype" 4, .uint "cookie" 8, .uint "command" 2, .uint "idle_timeout" 2, .uint "hard_timeout" 2, .uint "priority" 2, .uint "buffer_id" 4, .uint "out_port" 2, .uint "flags" 2, .uint "match_len" 2, .pad 6], .rest "match+pad+actions"⟩

/-- `struct nx_packet_in` up to and including `pad[6]` (40 bytes); the tail is match ‖ pad to 8 ‖ 2 zero bytes ‖ frame -/
def nxt_packet_in : Layout :=
  ⟨OF10.ofp_header ++ [.uint "vendor" 4, .uint "subtype" 4, .uint "buffer_id" 4, .uint "total_len" 2, .uint "reason" 1, .uint "table_id" 1, .uint "cookie" 8, .uint "match_len" 2, .pad 6], .rest "match+pad+data"⟩

/-- number of zero bytes after an nx_match of `n` bytes: up to the next multiple of 8, none when `n` is one -/
def matchPad (n : Nat) : Nat := (n + 7) / 8 * 8 - n

theorem sizes_ok : fixedSize nx_flow_mod.fixed = 48 ∧ fixedSize nxt_packet_in.fixed = 40 := by decide
theorem matchPad_law (n : Nat) : (n + matchPad n) % 8 = 0 ∧ matchPad n < 8 ∧ (n % 8 = 0 → matchPad n = 0) := by
  unfold matchPad; omega

end Pox.Spec.NX
