/-! # Abstract specification for C17 (ports and multipart statistics)

Two small specifications, written without reference to how `of_01.py` stores things.

* **Ports** — the controller's picture of a switch's ports is a finite map *port number → port description*:
  the ports of the features reply with the port-status notifications folded in, in order of arrival
  (OpenFlow 1.0 §5.4.3: ADD and MODIFY carry the new description of the port, DELETE removes it).
* **Statistics** — a statistics reply is a sequence of parts carrying the request's xid and the statistics type;
  every part but the last has the `REPLY_MORE` flag (OpenFlow 1.0 §5.3.5).  The reply of request `(xid, type)` is
  complete at the part without the flag; its content is the concatenation of its parts' entries in order of
  arrival.  Parts of other requests arriving in between belong to those other requests. -/
namespace Pox.Spec17

/-- `ofp_phy_port`.  `name` is the zero-terminated name read as a number, `hw` the 48-bit address, `rest` the 24 bytes
of config/state/curr/advertised/supported/peer read as one number (they are carried, never inspected). -/
structure Port where
  no : Nat
  name : Nat
  hw : Nat
  rest : Nat
  deriving DecidableEq, Repr

abbrev PortMap := Nat → Option Port

/-- the three notifications of `ofp_port_status.reason` -/
inductive Notif where
  | add (p : Port)
  | modify (p : Port)
  | delete (p : Port)
  deriving DecidableEq, Repr

def set (m : PortMap) (k : Nat) (v : Option Port) : PortMap := fun j => if j = k then v else m j

/-- the ports a features reply reports (a features reply lists a port number once; for a list that does not, the
first entry is taken — the theorems that need uniqueness say so) -/
def init (f : List Port) : PortMap := fun k => f.find? (fun p => p.no == k)

def apply (m : PortMap) : Notif → PortMap
  | .add p => set m p.no (some p)
  | .modify p => set m p.no (some p)
  | .delete p => set m p.no none

/-- the port map after a history: the initially reported ports with the notifications applied in order -/
def fold (f : List Port) (h : List Notif) : PortMap := h.foldl apply (init f)

/-! ## statistics -/

/-- one `ofp_stats_reply` message: `more` is `flags & OFPSF_REPLY_MORE`; `body` the decoded entries (opaque ids) -/
structure Part where
  xid : Nat
  type : Nat
  more : Bool
  body : List Nat
  deriving DecidableEq, Repr

abbrev Req := Nat × Nat
def Part.req (p : Part) : Req := (p.xid, p.type)

/-- what a `*StatsReceived` event carries: the statistics type (which selects the event class), the entries
(`event.stats`) and the xids of the messages it was assembled from (`event.ofp`) -/
structure Event where
  type : Nat
  stats : List Nat
  xids : List Nat
  deriving DecidableEq, Repr

/-- the parts of request `r` among `pre` (the messages received so far) that are not yet closed by a final part:
the trailing run of `REPLY_MORE` parts of that request -/
def openParts (pre : List Part) (r : Req) : List Part :=
  (((pre.filter (fun q => q.req == r)).reverse).takeWhile (fun q => q.more)).reverse

/-- the event due when `p` arrives after `pre`: none for a part with `REPLY_MORE`; for a final part the
concatenation of the open parts of the same request and of `p` itself -/
def eventAt (pre : List Part) (p : Part) : Option Event :=
  if p.more then none
  else some ⟨p.type, ((openParts pre p.req) ++ [p]).flatMap (fun q => q.body),
             ((openParts pre p.req) ++ [p]).map (fun q => q.xid)⟩

def eventsFrom (pre : List Part) : List Part → List (Option Event)
  | [] => []
  | p :: s => eventAt pre p :: eventsFrom (pre ++ [p]) s

/-- for a stream of statistics parts, the event due at each position -/
def events (s : List Part) : List (Option Event) := eventsFrom [] s

/-- a well-formed reply to request `(xid, t)` whose content is split into the parts `init ++ [last]` -/
def mkReply (xid t : Nat) (init : List (List Nat)) (last : List Nat) : List Part :=
  init.map (fun b => ⟨xid, t, true, b⟩) ++ [⟨xid, t, false, last⟩]

end Pox.Spec17
