import PoxModel.Model.Actions
import PoxModel.Proofs.TcpOpts
/-!
# Declarative specification of the OpenFlow 1.0 data path for C12.  Core only.

* `ser` — the wire form of a header stack with every length field and every RFC 1071 checksum recomputed
  (`ipv4Bytes`, `udpBytes`, `tcpBytes`, `icmpBytes` are the closed forms of C14, stated with `rfc1071`, not with the
  code's little-endian summation).
* `rewrite1` / `rewrite` — what a header-rewrite action does to the *fields*, transcribed from OpenFlow 1.0 §3.3 with its
  own header traversal (`atL3`, `ifIpv4`, `ifL4`; no model helper is used): set-VLAN actions replace the 12-bit id / 3-bit
  priority of the outermost tag, pushing a zero tag in front of the payload of an untagged frame; strip removes the outermost
  tag; dl/nw/tp setters replace one field of the Ethernet header, of the IPv4 header behind at most one tag (ToS: the six
  DSCP bits), of the UDP/TCP header in it — and do nothing when there is no such header.
* `expand` — the physical ports an output reaches: `port` itself unless it is the ingress port, the ingress port for
  IN_PORT, every port but the ingress port for ALL, additionally without NO_FLOOD ports for FLOOD; always without ports
  that are administratively down, link-down or forwarding-disabled.
* `emitted` — the i-th output action emits `ser (rewrite (acts.take i) frame)` on `expand …` (a packet-in carrying it for
  CONTROLLER, the table's reaction for TABLE); processing ends at the first action the switch has no handler for.
-/
namespace Pox.Actions.Spec
open Pox Pox.Packet Pox.Checksum Pox.Actions

/-- the 28 bytes of an ARP header -/
def arpBytes (h : Arp) : Bytes :=
  be16 h.hwtype ++ (be16 h.prototype ++ (beEnc 1 h.hwlen ++ (beEnc 1 h.protolen ++ (be16 h.opcode ++
    (h.hwsrc ++ (beEnc 4 h.protosrc ++ (h.hwdst ++ beEnc 4 h.protodst)))))))

/-- wire form of a chain, lengths and checksums recomputed; `ctx` = the enclosing IPv4 header's pseudo-header fields -/
def ser : Option IPCtx → Pkt → Bytes
  | _, .raw b => b
  | _, .eth h n => ethBytes h ++ ser none n
  | _, .vlan h n => vlanBytes h ++ ser none n
  | _, .arp h n => arpBytes h ++ ser none n
  | _, .ipv4 h n =>
    let rest := ser (some ⟨h.src, h.dst, h.proto⟩) n
    ipv4Bytes h rest.length ++ rest
  | some c, .udp h n => let rest := ser none n; udpBytes c h rest ++ rest
  | some c, .tcp h n => let rest := ser none n; tcpBytes c h (optsPadded h.opts) rest ++ rest
  | _, .icmp h n => let rest := ser none n; icmpBytes h rest ++ rest
  | _, .echo h n => echoBytes h ++ ser none n
  | _, .unreach h n => unreachBytes h ++ ser none n
  | _, .timeEx h n => timeExBytes h ++ ser none n
  | _, _ => []

def serF (f : Frame) : Bytes := ser none f.pkt

/-! ## header rewrites -/

/-- replace a field of the outermost 802.1Q tag; an untagged frame first gets the tag `pcp 0, cfi 0, vid 0` carrying the
frame's EtherType -/
def setTag (g : Vlan → Vlan) (f : Frame) : Frame :=
  match f.pay with
  | .vlan v n => { f with pay := .vlan (g v) n }
  | n => { eth := { f.eth with type := 0x8100 }, pay := .vlan (g ⟨0, 0, 0, f.eth.type⟩) n }

def popTag (f : Frame) : Frame :=
  match f.pay with
  | .vlan v n => { eth := { f.eth with type := v.ethType }, pay := n }
  | _ => f

/-! The setters below are written from the OpenFlow 1.0.0 text (§3.3 "Modify-Field" table, `openflow.h` `ofp_action_*`),
with their own traversal of the header stack — not with the model's helpers:
* the network header is what follows the Ethernet header or the single 802.1Q tag OpenFlow 1.0 knows (`dl_vlan`); a second
  tag is payload;
* "Modify IPv4 source/destination address … only applicable to IPv4 packets"; "Modify IPv4 ToS bits — 6 bits — replace the
  existing IP ToS field", `nw_tos: IP ToS (DSCP field, 6 bits)`: the upper six bits of the action's octet replace the DSCP
  field, the two ECN bits of the packet stay;
* "Modify transport source/destination port … applicable to TCP and UDP packets": the header directly inside that IPv4
  header when it is UDP or TCP (an ICMP message quoting a UDP header is not a UDP packet);
* anything else is left as it is.  Checksums and lengths are not part of the rewrite: they are recomputed by `ser`. -/

/-- apply `g` to the network-layer part: the Ethernet payload, or the payload of the one 802.1Q tag in front of it -/
def atL3 (g : Pkt → Pkt) : Pkt → Pkt
  | .vlan v n => .vlan v (g n)
  | n => g n

/-- only an IPv4 header is touched -/
def ifIpv4 (g : IPv4 → Pkt → Pkt) : Pkt → Pkt
  | .ipv4 h n => g h n
  | p => p

/-- only a UDP or TCP header is touched -/
def ifL4 (gu : Udp → Udp) (gt : Tcp → Tcp) : Pkt → Pkt
  | .udp u n => .udp (gu u) n
  | .tcp t n => .tcp (gt t) n
  | p => p

def setIp (g : IPv4 → IPv4) (f : Frame) : Frame :=
  { f with pay := atL3 (ifIpv4 fun h n => .ipv4 (g h) n) f.pay }

def setL4 (gu : Udp → Udp) (gt : Tcp → Tcp) (f : Frame) : Frame :=
  { f with pay := atL3 (ifIpv4 fun h n => .ipv4 h (ifL4 gu gt n)) f.pay }

def rewrite1 (a : Action) (f : Frame) : Frame :=
  match a with
  | .setVlanVid vid => setTag (fun v => { v with id := vid % 4096 }) f
  | .setVlanPcp pcp => setTag (fun v => { v with pcp := pcp % 8 }) f
  | .stripVlan => popTag f
  | .setDlSrc a => { f with eth := { f.eth with src := a } }
  | .setDlDst a => { f with eth := { f.eth with dst := a } }
  | .setNwSrc a => setIp (fun h => { h with src := a }) f
  | .setNwDst a => setIp (fun h => { h with dst := a }) f
  | .setNwTos t => setIp (fun h => { h with tos := 4 * (t / 4 % 64) + h.tos % 4 }) f
  | .setTpSrc p => setL4 (fun u => { u with sport := p }) (fun t => { t with sport := p }) f
  | .setTpDst p => setL4 (fun u => { u with dport := p }) (fun t => { t with dport := p }) f
  | _ => f

/-- the packet after one action: a header rewrite, or — for an output to TABLE — whatever the matching flow entry's
own rewrites (`tr`) did to it (its handlers work on the same packet, as with Open vSwitch's resubmit) -/
def step1 (tr : Frame → Nat → Frame) (ingress : Nat) (a : Action) (f : Frame) : Frame :=
  match a with
  | .output port _ => if port = P_TABLE then tr f ingress else f
  | .enqueue port _ => if port = P_TABLE then tr f ingress else f
  | a => rewrite1 a f

/-- the packet after a list of actions -/
def rewrite (tr : Frame → Nat → Frame) (ingress : Nat) : List Action → Frame → Frame
  | [], f => f
  | a :: as, f => rewrite tr ingress as (step1 tr ingress a f)

/-! ## port rules -/

/-- a frame may leave through port `no`: the port exists, is not forwarding-disabled, not administratively down and
its link is up -/
def up (ps : List Port) (no : Nat) : Bool :=
  match findPort ps no with
  | some p => !has p.config PC_NO_FWD && !has p.config PC_PORT_DOWN && !has p.state PS_LINK_DOWN
  | none => false

def expand (ps : List Port) (port ingress : Nat) : List Nat :=
  if port < P_MAX then (if port != ingress && up ps port then [port] else [])
  else if port = P_IN_PORT then (if up ps ingress then [ingress] else [])
  else if port = P_FLOOD then
    (ps.filter fun p => p.no != ingress && !has p.config PC_NO_FLOOD && up ps p.no).map (·.no)
  else if port = P_ALL then (ps.filter fun p => p.no != ingress && up ps p.no).map (·.no)
  else []

/-! ## what an action list emits -/

def isVendor : Action → Bool
  | .vendor _ => true
  | _ => false

/-- the reaction of one output (`maxLen = none`: enqueue) to the frame as rewritten so far -/
def outOf (ps : List Port) (tk : Frame → Nat → List Out) (port : Nat) (maxLen : Option Nat) (f : Frame)
    (ingress : Nat) : List Out :=
  if port = P_CONTROLLER then [packetInOf ingress R_ACTION (serF f) maxLen]
  else if port = P_TABLE then tk f ingress
  else (expand ps port ingress).map fun p => .frame p (serF f)

def actOuts (ps : List Port) (tk : Frame → Nat → List Out) (a : Action) (f : Frame) (ingress : Nat) : List Out :=
  match a with
  | .output port ml => outOf ps tk port (some ml) f ingress
  | .enqueue port _ => outOf ps tk port none f ingress
  | _ => []

/-- the actions up to the first one without a handler -/
def effective (acts : List Action) : List Action := acts.takeWhile fun a => !isVendor a

/-- **the specification**: output number `i` sees exactly the rewrites of the actions before it -/
def emittedWith (ps : List Port) (tk : Frame → Nat → List Out) (tr : Frame → Nat → Frame) (acts : List Action)
    (f : Frame) (ingress : Nat) : List Out :=
  ((List.range (effective acts).length).flatMap fun i =>
      match (effective acts)[i]? with
      | some a => actOuts ps tk a (rewrite tr ingress ((effective acts).take i) f) ingress
      | none => [])
  ++ (if (effective acts).length < acts.length then [.error 2 0] else [])

/-- table miss: a packet-in with the first `miss_send_len` bytes unless the ingress port has NO_PACKET_IN -/
def missOuts (sw : Sw) (data : Bytes) (ingress : Nat) : List Out :=
  match findPort sw.ports ingress with
  | some p => if has p.config PC_NO_PACKET_IN then [] else [packetInOf ingress R_NO_MATCH data (some sw.missLen)]
  | none => [packetInOf ingress R_NO_MATCH data (some sw.missLen)]

/-- the flow table's reaction to a frame (`wire`: the bytes as received, for a frame that came from a port).
Flow entries do not output to TABLE (OpenFlow 1.0: "can only be the destination port for packet-out messages"). -/
def tableOuts (sw : Sw) (f : Frame) (ingress : Nat) (wire : Option Bytes) : List Out :=
  match lookup sw.table ingress with
  | some acts => emittedWith sw.ports (fun _ _ => []) (fun f _ => f) acts f ingress
  | none => missOuts sw (wire.getD (serF f)) ingress

/-- what the matching entry's rewrites leave of the packet -/
def tableRewrite (sw : Sw) (f : Frame) (ingress : Nat) : Frame :=
  match lookup sw.table ingress with
  | some acts => rewrite (fun f _ => f) ingress (effective acts) f
  | none => f

/-- a packet-out: `acts` applied to `f` with ingress port `ingress` -/
def emitted (sw : Sw) (acts : List Action) (f : Frame) (ingress : Nat) : List Out :=
  emittedWith sw.ports (fun f' p => tableOuts sw f' p none) (tableRewrite sw) acts f ingress

/-- a frame from the wire is accepted: the port exists, is not receive-disabled (NO_RECV spares 802.1D frames,
NO_RECV_STP drops exactly those), and it is not a fragment while fragments are dropped -/
def accepts (sw : Sw) (f : Frame) (inPort : Nat) : Bool :=
  match findPort sw.ports inPort with
  | some p => rxAccepts sw p f
  | none => false

def rxOuts (sw : Sw) (f : Frame) (inPort : Nat) (wire : Bytes) : List Out :=
  if accepts sw f inPort then tableOuts sw f inPort (some wire) else []

/-- the same for a packet object handed over without wire bytes: a table miss sends its serialisation -/
def rxObjOuts (sw : Sw) (f : Frame) (inPort : Nat) : List Out :=
  if accepts sw f inPort then tableOuts sw f inPort none else []

/-! ## counters -/

def txCount (outs : List Out) (no : Nat) : Nat :=
  (outs.filter fun o => match o with | .frame p _ => p == no | _ => false).length

def txBytes : List Out → Nat → Nat
  | [], _ => 0
  | .frame p b :: r, no => (if p == no then b.length else 0) + txBytes r no
  | _ :: r, no => txBytes r no

/-- the transmit counters after the frames in `outs` left -/
def tally (st : List Stat) (outs : List Out) : List Stat :=
  st.map fun s => { s with txP := s.txP + txCount outs s.no, txB := s.txB + txBytes outs s.no }

end Pox.Actions.Spec
