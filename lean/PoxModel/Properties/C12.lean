import PoxModel.Proofs.ActionsSpec
import PoxModel.Proofs.ActionsPorts
import PoxModel.Proofs.ActionsPortMod
import PoxModel.Proofs.ActionsPure
import PoxModel.Proofs.ActionsTotal
/-!
# C12 — the datapath applies actions and port rules as the specification prescribes

Model: `Model/Actions.lean` (`SoftwareSwitchBase`: `rx_packet`, `_lookup_packet`, `_output_packet`,
`_process_actions_for_packet`, the twelve `_action_*` handlers, `_rx_port_mod`, `_set_port_config_bit`) over the packet
chain type of C14; it follows the code **after** the proposed repairs D7 (enqueue reads `action.port`), D8 (`output:TABLE`
does not run the receive half of `rx_packet` again) and C12-1 (VLAN action arguments reduced to the field width).
Specification: `Spec/ActionsSpec.lean` (`ser`, `rewrite`, `expand`, `emitted`, `accepts`, `tally`).

* `port_guards`, `flood_excludes_ingress`, `counters_exact`, `outputs_only`, `actions_total`, `port_mod_spec` hold for **every** frame the model accepts
  (no well-formedness), every action list, every port configuration, every operation history, every nesting depth.
* `actions_spec`, `rx_spec`, `checksums_ok` hold for every **well-formed** frame (`Frame.WF`: every header field in its wire
  range, every IP datagram below 64 KiB — C14's `Good` without the demultiplexing conditions), every action list with
  arguments as the wire format delivers them, every port configuration, every flow table whose entries do not output to
  TABLE (OpenFlow 1.0 allows TABLE only in packet-out).
* `enqueue_d7_defect`, `table_recount_d8_defect`, `vlan_pcp_c121_defect`, `strip_vlan_c122_defect`, `nw_tos_c126_defect`: the unrepaired lines violate the statements on
  concrete inputs (replayed against the real code by harness/c12.py).
-/
namespace Pox.C12
open Pox Pox.Packet Pox.Checksum Pox.Actions Pox.Actions.Spec

deriving instance DecidableEq for Except

/-! ## examples used for non-vacuity -/

def exPorts : List Port :=
  [⟨1, [2, 0, 0, 1, 0, 1], 2, 0⟩, ⟨2, [2, 0, 0, 1, 0, 2], 2 + 16, 0⟩, ⟨3, [2, 0, 0, 1, 0, 3], 2 + 32, 0⟩, ⟨4, [2, 0, 0, 1, 0, 4], 2, 0⟩]
def exSw : Sw :=
  { ports := exPorts, stats := [{ no := 1 }, { no := 2 }, { no := 3 }, { no := 4 }],
    table := [⟨some 3, [.setVlanVid 7, .output P_ALL 0]⟩] }
def exEth : Eth := ⟨[0x66, 0x77, 0x88, 0x99, 0xaa, 0xbb], [0, 0x11, 0x22, 0x33, 0x44, 0x55], 0x0800⟩
def exIp : IPv4 := ⟨4, 5, 0, 0, 0x1234, 2, 0, 64, 17, 0, 0x0a000001, 0x0a000002, []⟩
def exUdp : Udp := ⟨1000, 2000, 0, 0⟩
/-- a UDP datagram with an odd payload -/
def exFrame : Frame := ⟨exEth, .ipv4 exIp (.udp exUdp (.raw [1, 2, 3]))⟩
/-- an opaque EtherType -/
def exSmall : Frame := ⟨{ exEth with type := 0x88b5 }, .raw [1, 2]⟩
def exActs : List Action :=
  [.output 2 0, .setNwSrc 0xc0a80101, .setVlanPcp 5, .output P_FLOOD 0, .setTpDst 53, .stripVlan, .enqueue 1 0,
   .output P_CONTROLLER 20, .output P_TABLE 0, .output P_IN_PORT 0]

theorem exFrame_wf : exFrame.WF := by
  refine ⟨by constructor <;> decide, ?_⟩
  refine ⟨by constructor <;> decide, ⟨⟨_, rfl, by constructor <;> decide⟩, by constructor <;> decide, trivial, ?_⟩, ?_⟩
  · simp [plen]
  · simp [plen, exIp]

theorem exSmall_wf : exSmall.WF := ⟨by constructor <;> decide, trivial⟩

theorem exSw_rules : RulesOk exSw.table := by
  intro r hr
  simp only [exSw, List.mem_singleton] at hr
  subst hr
  refine ⟨?_, ?_⟩
  · intro a ha
    simp only [List.mem_cons, List.not_mem_nil, or_false] at ha
    rcases ha with rfl | rfl
    · trivial
    · simp [noTableAct, P_ALL, P_TABLE]
  · intro a ha
    simp only [List.mem_cons, List.not_mem_nil, or_false] at ha
    rcases ha with rfl | rfl <;> trivial

theorem exActs_args : ∀ a ∈ exActs, ArgsOk a := by
  intro a ha
  simp only [exActs, List.mem_cons, List.not_mem_nil, or_false] at ha
  rcases ha with rfl | rfl | rfl | rfl | rfl | rfl | rfl | rfl | rfl | rfl <;> simp [ArgsOk]

/-! ## port rules -/

/-- **Nothing is emitted on a port that is down, forwarding-disabled or (for flood) flood-disabled; nothing is accepted
from a receive-disabled port.**  For every frame, action list, port table, flow table and nesting depth:
1. every frame the action loop emits leaves through a port that exists, has NO_FWD and PORT_DOWN clear and its link up
   (`fuel`: how deep `output:TABLE` may nest; `var`: any variant of the code that has the D8 repair);
2. an output to FLOOD additionally only reaches ports with NO_FLOOD clear;
3. a frame from the wire that is not accepted (unknown port; NO_RECV unless it is an 802.1D frame; NO_RECV_STP if it is
   one; a fragment while fragments are dropped) leaves the switch unchanged and produces no output whatsoever. -/
theorem port_guards :
    (∀ (var : Variant) (fuel : Nat) (sw : Sw) (acts : List Action) (f : Frame) (inPort : Nat) (sw' : Sw) (f' : Frame)
        (outs : List Out), var.d8 = false → run var fuel sw acts f inPort = .ok (sw', f', outs) →
      ∀ p b, Out.frame p b ∈ outs → ∃ port, findPort sw.ports p = some port ∧ has port.config PC_NO_FWD = false ∧
        has port.config PC_PORT_DOWN = false ∧ has port.state PS_LINK_DOWN = false) ∧
    (∀ (table : TableK) (sw : Sw) (f : Frame) (inPort : Nat) (ml : Option Nat) (sw' : Sw) (f' : Frame) (outs : List Out),
        outputPacket table sw f P_FLOOD inPort ml = .ok (sw', f', outs) →
      ∀ p b, Out.frame p b ∈ outs → ∃ port ∈ sw.ports, port.no = p ∧ has port.config PC_NO_FLOOD = false) ∧
    (∀ (var : Variant) (sw : Sw) (f : Frame) (inPort : Nat) (wire : Bytes) (sw' : Sw) (outs : List Out),
        var.d8 = false → rxWire var sw f inPort wire = .ok (sw', outs) → accepts sw f inPort = false →
      sw' = sw ∧ outs = []) ∧
    (∀ (sw : Sw) (f : Frame) (inPort : Nat),
      (findPort sw.ports inPort = none → accepts sw f inPort = false) ∧
      (∀ p, findPort sw.ports inPort = some p → has p.config PC_NO_RECV = true → (f.eth.dst == stpMac) = false →
          accepts sw f inPort = false) ∧
      (∀ p, findPort sw.ports inPort = some p → has p.config PC_NO_RECV_STP = true → (f.eth.dst == stpMac) = true →
          accepts sw f inPort = false)) := by
  refine ⟨?_, ?_, ?_, accepts_guards⟩
  · intro var fuel sw acts f inPort sw' f' outs hv h p b hm
    have hup := (run_sound var hv fuel sw acts f inPort sw' f' outs h).guard p b hm
    unfold up at hup
    split at hup
    · rename_i port hf
      simp only [Bool.and_eq_true, Bool.not_eq_true'] at hup
      exact ⟨port, hf, hup.1.1, hup.1.2, hup.2⟩
    · cases hup
  · intro table sw f inPort ml sw' f' outs h p b hm
    exact (flood_ports table sw f inPort ml sw' f' outs h p b hm).2.2
  · intro var sw f inPort wire sw' outs hv h ha
    exact (rxWire_sound var hv sw f inPort wire sw' outs h).1 ha

/-- port 2 of the example has NO_FLOOD, port 3 NO_FWD: a packet-out from port 1 with FLOOD, ALL, explicit and IN_PORT
outputs reaches 4 | 2 4 | 2 | (3: nothing) | 1 -/
example : (packetOut {} exSw [.output P_FLOOD 0, .output P_ALL 0, .output 2 0, .output 3 0, .output P_IN_PORT 0] exSmall 1).map
    (fun r => r.2.map fun o => match o with | .frame p _ => p | _ => 0) = .ok [4, 2, 4, 2, 1] := by decide +kernel

/-! ## the ingress port -/

/-- **FLOOD and ALL never emit on the ingress port; an explicit output to the ingress port is dropped unless IN_PORT is
used.**  1. If neither the action list nor any flow entry contains an output (or enqueue) to IN_PORT, no frame leaves
through the ingress port — whatever else the lists contain (FLOOD, ALL, the ingress port's own number, TABLE), for every
frame and nesting depth.  2. An output to the ingress port's own number emits nothing and changes nothing.  3. The frames of
a FLOOD / ALL output are on ports other than the ingress port. -/
theorem flood_excludes_ingress :
    (∀ (var : Variant) (fuel : Nat) (sw : Sw) (acts : List Action) (f : Frame) (inPort : Nat) (sw' : Sw) (f' : Frame)
        (outs : List Out), var.d8 = false → RulesNoInPort sw → NoInPort acts →
        run var fuel sw acts f inPort = .ok (sw', f', outs) → ∀ b, Out.frame inPort b ∉ outs) ∧
    (∀ (table : TableK) (sw : Sw) (f : Frame) (inPort : Nat) (ml : Option Nat), inPort < P_MAX →
        outputPacket table sw f inPort inPort ml = .ok (sw, f, [])) ∧
    (∀ (table : TableK) (sw : Sw) (f : Frame) (inPort port : Nat) (ml : Option Nat) (sw' : Sw) (f' : Frame)
        (outs : List Out), port = P_FLOOD ∨ port = P_ALL → outputPacket table sw f port inPort ml = .ok (sw', f', outs) →
        ∀ p b, Out.frame p b ∈ outs → p ≠ inPort) := by
  refine ⟨?_, ?_, ?_⟩
  · intro var fuel sw acts f inPort sw' f' outs hv hr hn h
    exact run_notOn var hv fuel sw acts f inPort sw' f' outs hr hn h
  · intro table sw f inPort ml h
    exact output_ingress_dropped table sw f inPort h ml
  · intro table sw f inPort port ml sw' f' outs hp h p b hm
    rcases hp with rfl | rfl
    · exact (flood_ports table sw f inPort ml sw' f' outs h p b hm).1
    · exact (all_ports table sw f inPort ml sw' f' outs h p b hm).1

example : RulesNoInPort exSw ∧ NoInPort [.output P_FLOOD 0, .output P_ALL 0, .output 1 0, .output P_TABLE 0] := by
  refine ⟨?_, ?_⟩
  · intro r hr
    simp only [exSw, List.mem_singleton] at hr
    subst hr
    intro a ha
    simp only [List.mem_cons, List.not_mem_nil, or_false] at ha
    rcases ha with rfl | rfl <;> simp [noInPortAct, P_ALL, P_IN_PORT]
  · intro a ha
    simp only [List.mem_cons, List.not_mem_nil, or_false] at ha
    rcases ha with rfl | rfl | rfl | rfl <;> simp [noInPortAct, P_FLOOD, P_ALL, P_TABLE, P_IN_PORT]

/-! ## counters -/

/-- **tx counters = frames/bytes emitted per port; rx counters = frames/bytes accepted from the wire.**
For every variant of the code with the D8 repair, every state and every operation (port-mod, set-config, flow-mod,
link change, packet-out with any actions and any frame, frame from the wire): the statistics afterwards are
`countStep` — the previous ones, plus one frame and its wire length on the receive side of the ingress port iff the
operation is a frame from the wire that `accepts` admits, plus, per port, the number and total length of the frames in the
operation's output log (`tally`).  Hence (`runOps`) for every operation history — third conjunct, in closed form, not via
`step`: final = `closed initial (rxLog …) (all logs)`: per port, initial + number / bytes of the receptions `accepts` admits
(judged against the configuration as the port-mods, link changes and set-configs before them — `cfgStep` — left it) + number /
bytes of the frames in all output logs. -/
theorem counters_exact :
    (∀ (var : Variant) (sw : Sw) (op : Op) (sw' : Sw) (outs : List Out), var.d8 = false →
        step var sw op = .ok (sw', outs) → sw'.stats = countStep sw op outs) ∧
    (∀ (var : Variant) (ops : List Op) (sw sw' : Sw) (outss : List (List Out)), var.d8 = false →
        runOps var sw ops = .ok (sw', outss) → sw'.stats = countOps var sw ops outss) ∧
    (∀ (var : Variant) (ops : List Op) (sw sw' : Sw) (outss : List (List Out)), var.d8 = false →
        runOps var sw ops = .ok (sw', outss) → sw'.stats = closed sw.stats (rxLog sw ops) outss.flatten) ∧
    (∀ (var : Variant) (fuel : Nat) (sw : Sw) (acts : List Action) (f : Frame) (inPort : Nat) (sw' : Sw) (f' : Frame)
        (outs : List Out), var.d8 = false → run var fuel sw acts f inPort = .ok (sw', f', outs) →
        sw' = { sw with stats := tally sw.stats outs }) := by
  refine ⟨?_, ?_, ?_, ?_⟩
  · intro var sw op sw' outs hv h; exact step_counters var hv sw op sw' outs h
  · intro var ops sw sw' outss hv h; exact runOps_counters var hv ops sw sw' outss h
  · intro var ops sw sw' outss hv h; exact runOps_closed var hv ops sw sw' outss h
  · intro var fuel sw acts f inPort sw' f' outs hv h
    exact (run_sound var hv fuel sw acts f inPort sw' f' outs h).state

/-- `tally` really counts: two frames of 16 bytes on port 2, one on port 4, a packet-in in between -/
example : tally [{ no := 2 }, { no := 4, txP := 1, txB := 5 }]
      [.frame 2 (List.replicate 16 0), .packetIn 1 0 [] none true, .frame 4 (List.replicate 16 0), .frame 2 (List.replicate 16 0)]
    = [{ no := 2, txP := 2, txB := 32 }, { no := 4, txP := 2, txB := 21 }] := by decide

/-- a history: port 3 is reopened by a port-mod, a frame arrives on port 3 (flow entry: tag it, send it to ALL), a frame
arrives on the unknown port 9: the counters at the end are the replayed ones, rx 1 frame / 16 bytes on port 3 -/
example : (runOps {} exSw [.portMod 3 [2, 0, 0, 1, 0, 3] 0 32, .rx exSmall 3 (serF exSmall), .rx exSmall 9 (serF exSmall)]).map
    (fun r => r.1.stats) = .ok [{ no := 1, txP := 1, txB := 20 }, { no := 2, txP := 1, txB := 20 },
                                 { no := 3, rxP := 1, rxB := 16 }, { no := 4, txP := 1, txB := 20 }] := by decide +kernel

/-! ## actions -/

/-- **Emitted frames = specification, byte for byte, for every action list** (the i-th output sees exactly the rewrites
before it).  For every well-formed frame, every action list with wire-format arguments, every ingress port, every port
table and every flow table whose entries have wire-format arguments and no output to TABLE: the packet-out succeeds, its
output log is `Spec.emitted` — for each position `i` holding an output, `ser (rewrite (acts.take i) frame)` (lengths and
RFC 1071 checksums recomputed) on `expand port ingress ports`, a packet-in with that wire form for CONTROLLER, the flow
table's own reaction for TABLE; nothing after the first action without a handler — with the packet buffers settled in log
order (`settle`, see `buffers_spec`) — and the counters move by `tally`. -/
theorem actions_spec (sw : Sw) (acts : List Action) (f : Frame) (inPort : Nat) (hf : f.WF) (ha : ∀ a ∈ acts, ArgsOk a)
    (hr : RulesOk sw.table) :
    packetOut {} sw acts f inPort =
      .ok ({ sw with stats := tally sw.stats (emitted sw acts f inPort),
                     bufFree := (settle sw.bufFree (emitted sw acts f inPort)).1 },
           (settle sw.bufFree (emitted sw acts f inPort)).2) :=
  packetOut_spec sw hr acts ha f hf inPort

example : exFrame.WF ∧ (∀ a ∈ exActs, ArgsOk a) ∧ RulesOk exSw.table := ⟨exFrame_wf, exActs_args, exSw_rules⟩

/-- the specification unfolded on the example (ingress 3): port 2 gets the untouched frame; FLOOD after the address
rewrite and the priority tag reaches 1 and 4 (2 is NO_FLOOD, 3 the ingress); after the port rewrite and the strip an
enqueue to 1; a 20-byte packet-in; the table entry for port 3 tags the frame and sends it to ALL (1 2 4) — and the
IN_PORT output that follows TABLE carries that tag too, but port 3 is NO_FWD -/
example : (emitted exSw exActs exFrame 3).map (fun o => match o with
      | .frame p b => (p, b.length) | .packetIn _ r d dl _ => (100 + r, d.length + 1000 * dl.getD 0) | _ => (0, 0))
    = [(2, 45), (1, 49), (4, 49), (1, 45), (101, 45 + 20000), (1, 49), (2, 49), (4, 49)] := by decide +kernel

/-- … and the model computes exactly that (the theorem instantiated, evaluated by the kernel) -/
example : (packetOut {} exSw exActs exFrame 3).map (·.2) = .ok (settle 4096 (emitted exSw exActs exFrame 3)).2 := by
  rw [actions_spec exSw exActs exFrame 3 exFrame_wf exActs_args exSw_rules]; rfl

/-- **The buffer-pool-full path.**  `settle free log` is the log with each packet-in stamped: it got a buffer (id sent,
data cut to `max_len` / `miss_send_len`: `pinData`) iff fewer than `free` packet-ins precede it in the log; frames, errors
and the order are untouched; afterwards `free - #packet-ins` buffers are left (never below zero).  With `actions_spec` /
`rx_spec`: once the pool is exhausted every further packet-in carries the whole packet and no buffer id. -/
theorem buffers_spec (outs : List Out) (free : Nat) :
    (settle free outs).1 = free - pins outs ∧ (settle free outs).2.length = outs.length ∧
    (∀ i : Nat, (settle free outs).2[i]? = (outs[i]?).map (setBuffered (decide (pins (outs.take i) < free)))) ∧
    (∀ (d : Bytes) (n : Nat), pinData d (some n) true = d.take n ∧ pinData d (some n) false = d ∧ pinData d none true = d) := by
  obtain ⟨h1, h2, h3⟩ := settle_spec outs free
  refine ⟨h1, h2, h3, fun d n => ⟨?_, by simp [pinData], rfl⟩⟩
  simp only [pinData, Bool.true_and]
  split
  · rfl
  · rename_i h; exact (List.take_of_length_le (by simpa using h)).symm

/-- one buffer left, three CONTROLLER outputs with `max_len` 20: the first packet-in is cut to 20 bytes, the other two
carry all 45 and no buffer id; the pool is empty afterwards -/
example : (packetOut {} { exSw with bufFree := 1 } [.output P_CONTROLLER 20, .output 2 0, .output P_CONTROLLER 20, .enqueue P_CONTROLLER 0]
      exFrame 1).map (fun r => (r.1.bufFree, r.2.map fun o => match o with
        | .packetIn _ _ d dl b => (b, (pinData d dl b).length) | _ => (false, 0)))
    = .ok (0, [(true, 20), (false, 0), (false, 45), (false, 45)]) := by decide +kernel

/-- **Frames from the wire**: a well-formed frame is processed iff `accepts`; then the receive counters of its port move
by one frame / its wire length and the output is the flow table's reaction (`Spec.tableOuts`: the matching entry's actions
as in `actions_spec`, or a packet-in with the first `miss_send_len` bytes *as received* unless the port has NO_PACKET_IN) -/
theorem rx_spec (sw : Sw) (f : Frame) (inPort : Nat) (wire : Bytes) (hf : f.WF) (hr : RulesOk sw.table) :
    rxWire {} sw f inPort wire =
      .ok ({ (if accepts sw f inPort then
                { sw with stats := tally (bumpRx sw inPort wire.length).stats (rxOuts sw f inPort wire) }
              else sw) with bufFree := (settle sw.bufFree (rxOuts sw f inPort wire)).1 },
           (settle sw.bufFree (rxOuts sw f inPort wire)).2) :=
  rxWire_spec sw hr f hf inPort wire

/-- … and for a packet object handed to `rx_packet` without its wire bytes (`packet_data = None`): the receive byte
counter moves by the length of the packet's wire form, and a table miss sends that wire form -/
theorem rx_obj_spec (sw : Sw) (f : Frame) (inPort : Nat) (hf : f.WF) (hr : RulesOk sw.table) :
    rxObj {} sw f inPort =
      .ok ({ (if accepts sw f inPort then
                { sw with stats := tally (bumpRx sw inPort (serF f).length).stats (rxObjOuts sw f inPort) }
              else sw) with bufFree := (settle sw.bufFree (rxObjOuts sw f inPort)).1 },
           (settle sw.bufFree (rxObjOuts sw f inPort)).2) :=
  rxObj_spec sw hr f hf inPort

/-- port 4 has no flow entry: the 45-byte frame is counted and reported to the controller in full -/
example : (rxObj {} exSw exFrame 4).map (fun r => (r.1.stats.map fun s => (s.no, s.rxP, s.rxB), r.2.map fun o => match o with
      | .packetIn p r d dl b => (p, r, (pinData d dl b).length, d.length) | _ => (0, 0, 0, 0)))
    = .ok ([(1, 0, 0), (2, 0, 0), (3, 0, 0), (4, 1, 45)], [(4, 0, 45, 45)]) := by decide +kernel

example : accepts exSw exFrame 3 = true ∧ accepts exSw exFrame 9 = false ∧
    accepts { exSw with ports := [⟨1, [], 2 + 4, 0⟩] } exFrame 1 = false := by decide

/-- **Only the 802.1D bridge group address itself is spared by NO_RECV and refused by NO_RECV_STP** — `port_guards` (4) read
in both directions: while fragments are not dropped, a frame from a port that exists is accepted exactly when neither
receive rule applies, and "802.1D frame" means `dst = 01:80:c2:00:00:00`, not the reserved block around it (a pause, LACP,
802.1X or LLDP frame is an ordinary frame to both rules), whatever the other config and state bits of the port are and
however the port got them (`sw` is any switch state, not one reached by port-mods). -/
theorem rx_accepts_exact (sw : Sw) (f : Frame) (inPort : Nat) (p : Port) (hp : findPort sw.ports inPort = some p)
    (hfl : sw.flags &&& 3 = 0) :
    accepts sw f inPort =
      !((has p.config PC_NO_RECV && !(f.eth.dst == stpMac)) || (has p.config PC_NO_RECV_STP && (f.eth.dst == stpMac))) := by
  simp only [accepts, hp, rxAccepts, hfl]
  cases has p.config PC_NO_RECV <;> cases has p.config PC_NO_RECV_STP <;> cases (f.eth.dst == stpMac) <;> simp

/-- an LLDP-addressed frame (01:80:c2:00:00:0e) is dropped on the NO_RECV port 1 and accepted on the NO_RECV_STP port 2;
a frame to the bridge group address the other way round -/
example :
    let lldp : Frame := ⟨{ exEth with dst := [0x01, 0x80, 0xc2, 0, 0, 0x0e] }, .raw [1, 2]⟩
    let bpdu : Frame := ⟨{ exEth with dst := stpMac }, .raw [1, 2]⟩
    let sw : Sw := { exSw with ports := [⟨1, [], 2 + 4, 0⟩, ⟨2, [], 2 + 8, 0⟩] }
    accepts sw lldp 1 = false ∧ accepts sw lldp 2 = true ∧ accepts sw bpdu 1 = true ∧ accepts sw bpdu 2 = false := by decide

/-- the guards of `port_guards` (1) speak about the port table as it IS: a table no port-mod history produces — port 2
administratively down with its link up, port 3 with its link down and PORT_DOWN clear — lets ALL and explicit outputs from
port 1 reach port 4 only -/
example : (packetOut {} { exSw with ports := [⟨1, [], 2, 0⟩, ⟨2, [], 2 + 1, 0⟩, ⟨3, [], 2, 1⟩, ⟨4, [], 2, 0⟩] }
      [.output P_ALL 0, .output 2 0, .output 3 0, .output P_FLOOD 0] exSmall 1).map
    (fun r => r.2.map fun o => match o with | .frame p _ => p | _ => 0) = .ok [4, 4] := by decide +kernel

/-- **Every emitted IPv4/TCP/UDP frame has valid length fields and checksums** — with the packet named.  Under the
hypotheses of `actions_spec` let `F i` be the packet after the first `i` effective actions
(`rewrite (tableRewrite sw) inPort ((effective acts).take i) f`) and, for the flow entry `racts` that an output to TABLE
reaches, `G i j` the packet after `j` more of the entry's actions.  Then
1. every frame of the output log is `serF (F i)` for the position `i < |effective acts|` of the output that emitted it, or
   `serF (G i j)` for an output `j` of the entry reached through an output `i` to TABLE — no other bytes are emitted;
2. every `F i` and every `G i j` is well-formed and `Valid`: in its wire form (`serF x = ethBytes x.eth ++ ser none x.pay`)
   the IPv4 header sums to zero under RFC 1071 and its total-length field is the datagram's length; the UDP length field is
   the datagram's length and its checksum field is RFC 768's; the TCP data offset counts the header with its padded options
   and the checksum field is RFC 793's; an ICMP message sums to zero — at every nesting level (behind a VLAN tag, inside an
   ICMP error), by the C14 theorems `ipv4_hdr`, `udp_hdr`, `tcp_hdr`, `icmp_hdr`.
(The witness is determined by the position, not chosen: a frame with a wrong checksum cannot be "explained" by an opaque
payload.) -/
theorem checksums_ok (sw : Sw) (acts : List Action) (f : Frame) (inPort : Nat) (hf : f.WF) (ha : ∀ a ∈ acts, ArgsOk a)
    (hr : RulesOk sw.table) :
    (∀ p b, Out.frame p b ∈ emitted sw acts f inPort →
      ∃ i, i < (effective acts).length ∧
        (b = serF (rewrite (tableRewrite sw) inPort ((effective acts).take i) f) ∨
         ∃ racts j, lookup sw.table inPort = some racts ∧ j < (effective racts).length ∧
           b = serF (rewrite (fun f _ => f) inPort ((effective racts).take j)
                      (rewrite (tableRewrite sw) inPort ((effective acts).take i) f)))) ∧
    (∀ i, (rewrite (tableRewrite sw) inPort ((effective acts).take i) f).WF ∧
          Valid none (rewrite (tableRewrite sw) inPort ((effective acts).take i) f).pay) ∧
    (∀ racts i j, lookup sw.table inPort = some racts →
        (rewrite (fun f _ => f) inPort ((effective racts).take j)
          (rewrite (tableRewrite sw) inPort ((effective acts).take i) f)).WF ∧
        Valid none (rewrite (fun f _ => f) inPort ((effective racts).take j)
          (rewrite (tableRewrite sw) inPort ((effective acts).take i) f)).pay) := by
  have hF : ∀ i, (rewrite (tableRewrite sw) inPort ((effective acts).take i) f).WF := fun i =>
    rewrite_wf _ _ (fun x hx => tableRewrite_wf sw hr inPort x hx) _ f hf (effective_args ha i)
  refine ⟨fun p b hm => emitted_frame_witness sw acts f inPort p b hm, fun i => ⟨hF i, valid_of_wf _ none (hF i).2⟩, ?_⟩
  intro racts i j hl
  obtain ⟨r, hrm, rfl⟩ := lookup_mem hl
  have hG := rewrite_wf (fun f _ => f) inPort (fun _ h => h) ((effective r.acts).take j) _ (hF i) (effective_args (hr r hrm).2 j)
  exact ⟨hG, valid_of_wf _ none hG.2⟩

/-- on the example (ingress 3) the FLOOD at position 3 emits the packet after `output 2, set_nw_src, set_vlan_pcp 5`: tagged,
new source address, and exactly those bytes -/
example : (rewrite (tableRewrite exSw) 3 ((effective exActs).take 3) exFrame).pay =
      .vlan ⟨5, 0, 0, 0x0800⟩ (.ipv4 { exIp with src := 0xc0a80101 } (.udp exUdp (.raw [1, 2, 3]))) ∧
    Out.frame 4 (serF (rewrite (tableRewrite exSw) 3 ((effective exActs).take 3) exFrame)) ∈ emitted exSw exActs exFrame 3 := by
  refine ⟨rfl, ?_⟩
  decide +kernel

/-- the carry fold behind every one of these checksums runs *until no carry is left*: the specification's `rfc1071` folds with
`foldAll` (C14 `rfc1071_fold_spec`: `foldAll s = if s < 65536 then s else foldAll (s / 65536 + s % 65536)`), and the code's two
folding lines agree with it (C14 `checksum_rfc1071`).  One fold is not enough — for the words ffff ffff 0001 the first fold
leaves 0x10000, and a routine that stops there gets the checksum wrong: -/
example : (0x1ffff / 65536 + 0x1ffff % 65536 = 0x10000) ∧ foldAll 0x1ffff = 1 ∧ fold2 0x1ffff = 1 ∧
    checksum [0xff, 0xff, 0xff, 0xff, 0x01, 0x00] 0 none = rfc1071 [0xff, 0xff, 0xff, 0xff, 0x01, 0x00] ∧
    rfc1071 [0xff, 0xff, 0xff, 0xff, 0x00, 0x01] = 0xfffe := by decide

/-- `Valid` is not vacuous: on the example it is exactly the receiver's checks of an IPv4/UDP datagram (`u` = the UDP
datagram inside, 11 bytes) -/
example : Valid none exFrame.pay ↔
    (rfc1071 ((ser none exFrame.pay).take 20) = 0 ∧ beDec (sl (ser none exFrame.pay) 2 4) = (ser none exFrame.pay).length ∧
     (let u := ser (some ⟨0x0a000001, 0x0a000002, 17⟩) (.udp exUdp (.raw [1, 2, 3]))
      beDec (sl u 4 6) = u.length ∧ beDec (sl u 6 8) = udpCsumSpec ⟨0x0a000001, 0x0a000002, 17⟩ exUdp [1, 2, 3])) := Iff.rfl

example : (ser none exFrame.pay).length = 31 ∧
    (ser (some ⟨0x0a000001, 0x0a000002, 17⟩) (.udp exUdp (.raw [1, 2, 3]))).length = 11 := by
  have l1 : (ipv4Bytes exIp 11).length = 20 := by rw [ipv4Bytes_length exIp 11 (by constructor <;> decide)]; rfl
  have hu : ser (some ⟨0x0a000001, 0x0a000002, 17⟩) (.udp exUdp (.raw [1, 2, 3]))
      = udpBytes ⟨0x0a000001, 0x0a000002, 17⟩ exUdp [1, 2, 3] ++ [1, 2, 3] := rfl
  have e : ser none exFrame.pay = ipv4Bytes exIp 11 ++ (udpBytes ⟨0x0a000001, 0x0a000002, 17⟩ exUdp [1, 2, 3] ++ [1, 2, 3]) := rfl
  refine ⟨?_, ?_⟩
  · rw [e]; simp [l1, udpBytes_length]
  · rw [hu]; simp [udpBytes_length]

/-- **An action list that only outputs leaves the frame bytes unchanged — for every frame**, not only well-formed ones:
whatever `ethernet` object `f` the loop is given (any chain, any field values, also one whose parse gave up half-way), any
code variant, nesting depth, port and flow table: if the actions are outputs / enqueues to anything but TABLE, the packet
comes out of the loop as it went in, every emitted frame carries exactly `f.pack()` and every packet-in a prefix of it.
Second part (with C14's `roundtrip`): if `f` was parsed from the wire form `wire` of a well-formed chain, `f.pack()` is
`wire` — every copy that leaves the switch is byte for byte the frame that came in. -/
theorem outputs_only :
    (∀ (var : Variant) (fuel : Nat) (sw : Sw) (acts : List Action) (f : Frame) (inPort : Nat) (sw' : Sw) (f' : Frame)
        (outs : List Out), (∀ a ∈ acts, pureOutput a) → run var fuel sw acts f inPort = .ok (sw', f', outs) →
        f' = f ∧ ∀ o ∈ outs, ∃ b, packFrame f = .ok b ∧
          ((∃ p, o = Out.frame p b) ∨ (∃ r ml, o = packetInOf inPort r b ml))) ∧
    (∀ (p : Pkt) (wire : Bytes) (f : Frame), kindOf p = some .eth → Good none p → pack none p = .ok wire →
        f.pkt = parseTop .eth wire → packFrame f = .ok wire) :=
  ⟨fun var fuel sw acts f inPort sw' f' outs hp h => run_outputs_only var fuel sw acts f inPort sw' f' outs hp h,
   fun p wire f hk hg hw hf => packFrame_wire p hk hg wire hw f hf⟩

example : (∀ a ∈ [Action.output P_FLOOD 0, .enqueue 4 1, .output P_CONTROLLER 10, .output P_IN_PORT 0], pureOutput a) ∧
    kindOf exSmall.pkt = some .eth ∧ Good none exSmall.pkt ∧ pack none exSmall.pkt = .ok (serF exSmall) ∧
    exSmall.pkt = parseTop .eth (serF exSmall) := by
  refine ⟨?_, rfl, ⟨by constructor <;> decide, by simp [EthCompat, exSmall, exEth], trivial⟩, by decide +kernel, by rfl⟩
  intro a ha
  simp only [List.mem_cons, List.not_mem_nil, or_false] at ha
  rcases ha with rfl | rfl | rfl | rfl <;> simp [pureOutput, P_FLOOD, P_TABLE, P_CONTROLLER, P_IN_PORT]

/-- **Frames that are not well-formed** (a parse that gave up half-way, truncated headers, an attacker-chosen packet-out):
`actions_spec` does not speak about them; this does, for every `ethernet` object with a payload — every object the parser
returns — every action list (any arguments), port table, flow table and nesting depth of the repaired code:
1. no handler raises and the payload stays (`handle1_total`);
2. the action loop either returns or fails in `packet.pack()` / by exhausting the TABLE nesting allowance — no other
   exception escapes;
3. when it returns, the packet handed back and the packet behind every emitted frame are the input after some sequence of
   handlers (`Reach`), and the frame's bytes are exactly `pack()` of that packet.
Not decided here: whether `pack()` can fail on a tree the parser produced (that is the parser's side, C15). -/
theorem actions_total :
    (∀ (a : Action) (f : Frame), f.pay ≠ .nil → ∃ f', handle1 {} a f = .ok f' ∧ f'.pay ≠ .nil) ∧
    (∀ (fuel : Nat) (sw : Sw) (acts : List Action) (f : Frame) (inPort : Nat) (e : Actions.Err), f.pay ≠ .nil →
        run {} fuel sw acts f inPort = .error e → e = .recursion ∨ ∃ pe, e = .pack pe) ∧
    (∀ (fuel : Nat) (sw : Sw) (acts : List Action) (f : Frame) (inPort : Nat) (sw' : Sw) (f' : Frame) (outs : List Out),
        f.pay ≠ .nil → run {} fuel sw acts f inPort = .ok (sw', f', outs) →
        f'.pay ≠ .nil ∧ Reach f f' ∧ ∀ p b, Out.frame p b ∈ outs → ∃ x, Reach f x ∧ packFrame x = .ok b) :=
  ⟨fun a f hp => handle1_total a f hp,
   fun fuel sw acts f inPort e hp h => (run_total fuel sw acts f inPort hp).2 e h,
   fun fuel sw acts f inPort sw' f' outs hp h => (run_total fuel sw acts f inPort hp).1 sw' f' outs h⟩

/-- a frame that ends inside the IPv4 header behind a tag: every action applies without an exception, the strip works, the
unparsed remainder goes out as it came -/
example : (packetOut {} exSw [.setNwSrc 1, .setTpDst 2, .stripVlan, .setVlanVid 9, .output 4 0]
      ⟨{ exEth with type := 0x8100 }, .vlan ⟨1, 0, 5, 0x0800⟩ (.unparsed "ipv4" [0x45, 0, 0])⟩ 1).map (·.2)
    = .ok [.frame 4 ([0x66, 0x77, 0x88, 0x99, 0xaa, 0xbb, 0, 0x11, 0x22, 0x33, 0x44, 0x55, 0x81, 0x00, 0, 9, 8, 0, 0x45, 0, 0])] := by
  decide +kernel

/-! ## port-mod -/

/-- **port-mod replaces exactly the masked, supported configuration bits.**  For a port that exists and whose hardware
address matches: bit `j` of the new configuration is bit `j` of the request iff `j < 32`, the mask selects `j` and `j` is one of
PORT_DOWN, NO_RECV, NO_RECV_STP, NO_FLOOD, NO_FWD, NO_PACKET_IN (`handledIdx`; NO_STP and unknown bits never change);
number, address, all other ports and all counters stay.  Unknown port → PORT_MOD_FAILED/BAD_PORT, wrong address →
BAD_HW_ADDR, and nothing changes.  One loop round on PORT_DOWN that changes the bit makes LINK_DOWN follow it. -/
theorem port_mod_spec (sw : Sw) (no : Nat) (hw : Bytes) (config mask : Nat) :
    (findPort sw.ports no = none → portMod sw no hw config mask = (sw, [.error 4 0])) ∧
    (∀ p, findPort sw.ports no = some p → p.hw ≠ hw → portMod sw no hw config mask = (sw, [.error 4 1])) ∧
    (∀ p, findPort sw.ports no = some p → p.hw = hw →
      ∃ p' o, portMod sw no hw config mask = ({ sw with ports := mapPort sw.ports no fun _ => p' }, o) ∧
        p'.no = p.no ∧ p'.hw = p.hw ∧
        ∀ j, p'.config.testBit j =
          if j < 32 ∧ mask.testBit j = true ∧ handledIdx j = true then config.testBit j else p.config.testBit j) ∧
    (∀ (p : Port) (i : Nat), (setBitStep p (2 ^ i) (config &&& 2 ^ i)).1.state =
      if i = 0 ∧ config.testBit 0 ≠ p.config.testBit 0 then
        (if config.testBit 0 then clearBits p.state PS_LINK_DOWN ||| PS_LINK_DOWN else clearBits p.state PS_LINK_DOWN)
      else p.state) :=
  ⟨(portMod_spec sw no hw config mask).1, (portMod_spec sw no hw config mask).2.1, (portMod_spec sw no hw config mask).2.2,
   fun p i => setBitStep_state p i config⟩

/-- all seven bits requested on port 2 (config 2+16): NO_STP stays, the other six are taken, LINK_DOWN follows, one
port-status goes out -/
example : portMod exSw 2 [2, 0, 0, 1, 0, 2] 0x7d 0xffffffff =
    ({ exSw with ports := [⟨1, [2, 0, 0, 1, 0, 1], 2, 0⟩, ⟨2, [2, 0, 0, 1, 0, 2], 0x7f, 1⟩, ⟨3, [2, 0, 0, 1, 0, 3], 2 + 32, 0⟩,
                           ⟨4, [2, 0, 0, 1, 0, 4], 2, 0⟩] }, [.portStatus 2 0x13 1]) := by decide +kernel

/-! ## the unrepaired lines violate the statements (witnesses; replayed on the real code by the harness) -/

/-- D7: `_action_enqueue` reads `action.tp_port` — an enqueue action raises `AttributeError`, where the specification
(and the repaired code) emit the frame on port 4 -/
theorem enqueue_d7_defect :
    packetOut { d7 := true } exSw [.enqueue 4 0] exSmall 1 = .error .attributeError ∧
    ¬ (packetOut { d7 := true } exSw [.enqueue 4 0] exSmall 1).map (·.2) = .ok (emitted exSw [.enqueue 4 0] exSmall 1) ∧
    (packetOut {} exSw [.enqueue 4 0] exSmall 1).map (·.2) = .ok [.frame 4 (serF exSmall)] := by decide +kernel

/-- D8: `output:TABLE` re-enters `rx_packet` — a packet-out that hands the frame to the table counts it as *received* on
port 3 although nothing arrived from the wire: `counters_exact` fails (`countStep` expects the receive side untouched) -/
theorem table_recount_d8_defect :
    ∃ sw' outs, step { d8 := true } exSw (.packetOut [.output P_TABLE 0] exSmall 3) = .ok (sw', outs) ∧
      sw'.stats ≠ countStep exSw (.packetOut [.output P_TABLE 0] exSmall 3) outs ∧
      (sw'.stats.map fun s => (s.no, s.rxP, s.rxB)) = [(1, 0, 0), (2, 0, 0), (3, 1, 16), (4, 0, 0)] := by
  refine ⟨_, _, rfl, ?_, ?_⟩ <;> decide +kernel

/-- C12-1: `set_vlan_pcp` stores the unreduced 8-bit argument — `vlan.hdr` then raises `struct.error` inside `real_send`
(after `tx_packets` was incremented; the model reports the exception), where the specification emits the frame with
priority `9 mod 8` -/
theorem vlan_pcp_c121_defect :
    packetOut { c121 := true } exSw [.setVlanPcp 9, .output 4 0] exSmall 1 = .error (.pack .struct) ∧
    (packetOut {} exSw [.setVlanPcp 9, .output 4 0] exSmall 1).map (·.2)
      = .ok [.frame 4 (serF (rewrite1 (.setVlanPcp 9) exSmall))] := by decide +kernel

/-- C12-2: `strip_vlan` on a frame that ends inside the 802.1Q tag (the `vlan` object did not parse): the unrepaired line
does `packet.payload = None`, which raises `TypeError` out of the data path; the repaired one leaves the frame alone -/
theorem strip_vlan_c122_defect :
    packetOut { c122 := true } exSw [.stripVlan, .output 4 0] ⟨{ exEth with type := 0x8100 }, .unparsed "vlan" [0, 5]⟩ 1
      = .error .typeError ∧
    (packetOut {} exSw [.stripVlan, .output 4 0] ⟨{ exEth with type := 0x8100 }, .unparsed "vlan" [0, 5]⟩ 1).map (·.2)
      = .ok [.frame 4 [0x66, 0x77, 0x88, 0x99, 0xaa, 0xbb, 0, 0x11, 0x22, 0x33, 0x44, 0x55, 0x81, 0x00, 0, 5]] := by
  decide +kernel

/-- C12-6: `set_nw_tos` stores the whole octet — the packet's ECN bits are overwritten, where OpenFlow 1.0 ("IP ToS (DSCP
field, 6 bits)") replaces the six DSCP bits only: ToS 0x03 (ECN CE) + `set_nw_tos 0xb8` must give 0xbb, the unrepaired line
gives 0xb8 -/
theorem nw_tos_c126_defect :
    (handle1 { c126 := true } (.setNwTos 0xb8) ⟨exEth, .ipv4 { exIp with tos := 3 } (.raw [])⟩).map (·.pay)
      = .ok (.ipv4 { exIp with tos := 0xb8 } (.raw [])) ∧
    (handle1 {} (.setNwTos 0xb8) ⟨exEth, .ipv4 { exIp with tos := 3 } (.raw [])⟩).map (·.pay)
      = .ok (.ipv4 { exIp with tos := 0xbb } (.raw [])) ∧
    (rewrite1 (.setNwTos 0xb8) ⟨exEth, .ipv4 { exIp with tos := 3 } (.raw [])⟩).pay = .ipv4 { exIp with tos := 0xbb } (.raw []) :=
  ⟨rfl, rfl, rfl⟩

end Pox.C12
