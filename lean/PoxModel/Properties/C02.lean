import PoxModel.Proofs.Framing
import PoxModel.Proofs.Contain
import PoxModel.Proofs.FramingIO
/-! # C02 — message framing is independent of how the byte stream is segmented

Property theorems only (helper lemmas live in `Proofs/Framing.lean`).  `ctlFeed U 8` is the controller-side
`Connection.read`, `swFeed U` the switch-side `IOWorker._push_receive_data` + `OFConnection.read`; `U` ranges over
every decoder that consumes exactly a well-formed message (`WF`/`SWF`), `chunks` over every segmentation. -/
namespace Pox.C02
open Pox.Framing
variable {Msg : Type}

/-- Controller side, whole stream: every segmentation of a well-formed stream delivers exactly the messages, in order,
once each, leaves no residue and keeps the connection alive. -/
theorem ctl_framing (U : Unpack Msg) (ms : List (Bytes × Msg)) (chunks : List Bytes)
    (hwf : ∀ p ∈ ms, WF U p.1 p.2) (hseg : chunks.flatten = (ms.map (·.1)).flatten) :
    let r := chunks.foldl (ctlFeed U 8) init
    r.delivered = ms.map (·.2) ∧ r.buf = [] ∧ r.st = .alive :=
  stream_whole (WF U) (ctlFeed U 8) (ctlFeed_ok U 8 (Nat.le_refl 8))
    (fun _ _ h => by have := h.len8; omega) chunks ms hwf hseg

/-- Controller side, any prefix of the stream (the rest, `rest`, has not arrived yet): exactly the complete messages
`done` have been delivered; the incomplete trailing message is held in the buffer — never delivered early, dropped or
merged with its neighbour. -/
theorem ctl_prefix (U : Unpack Msg) (ms : List (Bytes × Msg)) (chunks : List Bytes) (rest : Bytes)
    (hwf : ∀ p ∈ ms, WF U p.1 p.2) (hseg : chunks.flatten ++ rest = (ms.map (·.1)).flatten) :
    let r := chunks.foldl (ctlFeed U 8) init
    ∃ done rem tl, ms = done ++ rem ∧ r.delivered = done.map (·.2) ∧ r.buf = tl ∧ r.st = .alive ∧
      chunks.flatten = (done.map (·.1)).flatten ++ tl ∧
      (tl = [] ∨ ∃ e m rem' y, rem = (e, m) :: rem' ∧ e = tl ++ y ∧ y ≠ []) := by
  obtain ⟨done, rem, tl, h1, h2, h3, h4, h5, h6⟩ :=
    stream_prefix (WF U) (ctlFeed U 8) (ctlFeed_ok U 8 (Nat.le_refl 8)) chunks ms init rest hwf rfl
      (by simpa [init] using hseg) (.inl rfl)
  exact ⟨done, rem, tl, h1, by simpa [init] using h2, h3, h4, by simpa [init] using h5, h6⟩

/-- Switch side, whole stream. -/
theorem sw_framing (U : Unpack Msg) (ms : List (Bytes × Msg)) (chunks : List Bytes)
    (hwf : ∀ p ∈ ms, SWF U p.1 p.2) (hseg : chunks.flatten = (ms.map (·.1)).flatten) :
    let r := chunks.foldl (swFeed U) init
    r.delivered = ms.map (·.2) ∧ r.buf = [] ∧ r.st = .alive :=
  stream_whole (SWF U) (swFeed U) (swFeed_ok U)
    (fun _ _ h => by have := h.len8; omega) chunks ms hwf hseg

/-- Switch side, any prefix of the stream. -/
theorem sw_prefix (U : Unpack Msg) (ms : List (Bytes × Msg)) (chunks : List Bytes) (rest : Bytes)
    (hwf : ∀ p ∈ ms, SWF U p.1 p.2) (hseg : chunks.flatten ++ rest = (ms.map (·.1)).flatten) :
    let r := chunks.foldl (swFeed U) init
    ∃ done rem tl, ms = done ++ rem ∧ r.delivered = done.map (·.2) ∧ r.buf = tl ∧ r.st = .alive ∧
      chunks.flatten = (done.map (·.1)).flatten ++ tl ∧
      (tl = [] ∨ ∃ e m rem' y, rem = (e, m) :: rem' ∧ e = tl ++ y ∧ y ≠ []) := by
  obtain ⟨done, rem, tl, h1, h2, h3, h4, h5, h6⟩ :=
    stream_prefix (SWF U) (swFeed U) (swFeed_ok U) chunks ms init rest hwf rfl
      (by simpa [init] using hseg) (.inl rfl)
  exact ⟨done, rem, tl, h1, by simpa [init] using h2, h3, h4, by simpa [init] using h5, h6⟩

/-- Instantiation used by the correspondence run: with the length-driven slice decoder, every list of byte strings
with valid headers is delivered verbatim under every segmentation, on both sides. -/
theorem slice_framing (es : List Bytes) (chunks : List Bytes) (hh : ∀ e ∈ es, Hdr e)
    (hseg : chunks.flatten = es.flatten) :
    (chunks.foldl (ctlFeed sliceU 8) init).delivered = es ∧ (chunks.foldl (ctlFeed sliceU 8) init).buf = [] ∧
    (chunks.foldl (swFeed sliceU) init).delivered = es ∧ (chunks.foldl (swFeed sliceU) init).buf = [] := by
  have hwf : ∀ p ∈ es.map (fun e => (e, e)), WF sliceU p.1 p.2 := by
    intro p hp
    obtain ⟨e, he, rfl⟩ := List.mem_map.mp hp
    exact sliceU_wf e (hh e he)
  have hs : chunks.flatten = ((es.map (fun e => (e, e))).map (·.1)).flatten := by
    simpa [List.map_map, Function.comp_def] using hseg
  have c := ctl_framing sliceU (es.map (fun e => (e, e))) chunks hwf hs
  have s := sw_framing sliceU (es.map (fun e => (e, e))) chunks (fun p hp => (hwf p hp).toSWF) hs
  simp only [List.map_map, Function.comp_def, List.map_id'] at c s
  exact ⟨c.1, c.2.1, s.1, s.2.1⟩

/-- **ctl_feed_no_disconnect**: the assumption "message handlers do not disconnect the connection in the middle of a
read" stated inside Lean — the controller read path WITH the `disconnected` test (what the code has) is, for handlers that
never disconnect, exactly the `ctlFeed` that `ctl_framing` / `ctl_prefix` are about; so those theorems are about the
real loop for every history of well-formed messages whose handlers leave the connection up. -/
theorem ctl_feed_no_disconnect {Msg : Type} (U : Unpack Msg) (s : CS Msg) (c : Bytes) :
    ctlFeedD U (fun _ => false) 8 s c = ctlFeed U 8 s c := by
  unfold ctlFeedD ctlFeed
  have hany : s.delivered.any (fun _ => false) = false := by
    induction s.delivered with
    | nil => rfl
    | cons a l ih => simp [List.any_cons, ih]
  cases s.st <;> simp only []
  rw [hany, ctlLoopD_never]

/-- non-vacuity: an OFPT_HELLO and an 12-byte echo request satisfy `Hdr`; a 3-chunk segmentation with a cut inside
    each header delivers both. -/
def hello : Bytes := [1, 0, 0, 8, 0, 0, 0, 7]
def echo : Bytes := [1, 2, 0, 12, 0, 0, 0, 9, 0xde, 0xad, 0xbe, 0xef]
example : Hdr hello := ⟨by decide, by decide, by decide, by decide⟩
example : Hdr echo := ⟨by decide, by decide, by decide, by decide⟩
example : ([[1, 0, 0], [8, 0, 0, 0, 7, 1, 2], [0, 12, 0, 0, 0, 9, 0xde, 0xad, 0xbe, 0xef]].foldl
            (ctlFeed sliceU 8) init).delivered = [hello, echo] := by decide

/-- **ctl_segmentation_independent**: the property's title, literally, and at EVERY moment of the stream (not only at its
end): two segmentations of the same bytes — any prefix of a well-formed stream — leave the controller-side read loop in
the same observable state: the same messages delivered in the same order, the same residual buffer, the same liveness.
(`ctl_prefix` gives each run a decomposition "complete messages ++ strict prefix of the next"; `decomp_unique` shows
that decomposition is determined by the bytes alone.) -/
theorem ctl_segmentation_independent (U : Unpack Msg) (ms : List (Bytes × Msg)) (c1 c2 : List Bytes) (rest : Bytes)
    (hwf : ∀ p ∈ ms, WF U p.1 p.2) (hseg : c1.flatten ++ rest = (ms.map (·.1)).flatten)
    (hsame : c2.flatten = c1.flatten) :
    (c1.foldl (ctlFeed U 8) init).delivered = (c2.foldl (ctlFeed U 8) init).delivered ∧
    (c1.foldl (ctlFeed U 8) init).buf = (c2.foldl (ctlFeed U 8) init).buf ∧
    (c1.foldl (ctlFeed U 8) init).st = (c2.foldl (ctlFeed U 8) init).st := by
  obtain ⟨d1, r1, t1, e1, hd1, hb1, hst1, hf1, hc1⟩ := ctl_prefix U ms c1 rest hwf hseg
  obtain ⟨d2, r2, t2, e2, hd2, hb2, hst2, hf2, hc2⟩ := ctl_prefix U ms c2 rest hwf (by rw [hsame]; exact hseg)
  have hne : ∀ p ∈ d1 ++ r1, p.1 ≠ [] := by
    intro p hp h
    have := (hwf p (by rw [e1]; exact hp)).len8
    rw [h] at this; simp at this
  obtain ⟨hd, ht⟩ := decomp_unique d1 d2 r1 r2 t1 t2 hne (by rw [← e1, ← e2])
    (by rw [← hf1, ← hf2, hsame]) hc1 hc2
  exact ⟨by rw [hd1, hd2, hd], by rw [hb1, hb2, ht], by rw [hst1, hst2]⟩

/-- **sw_segmentation_independent**: the same on the switch side (`IOWorker._push_receive_data` + `OFConnection.read`). -/
theorem sw_segmentation_independent (U : Unpack Msg) (ms : List (Bytes × Msg)) (c1 c2 : List Bytes) (rest : Bytes)
    (hwf : ∀ p ∈ ms, SWF U p.1 p.2) (hseg : c1.flatten ++ rest = (ms.map (·.1)).flatten)
    (hsame : c2.flatten = c1.flatten) :
    (c1.foldl (swFeed U) init).delivered = (c2.foldl (swFeed U) init).delivered ∧
    (c1.foldl (swFeed U) init).buf = (c2.foldl (swFeed U) init).buf ∧
    (c1.foldl (swFeed U) init).st = (c2.foldl (swFeed U) init).st := by
  obtain ⟨d1, r1, t1, e1, hd1, hb1, hst1, hf1, hc1⟩ := sw_prefix U ms c1 rest hwf hseg
  obtain ⟨d2, r2, t2, e2, hd2, hb2, hst2, hf2, hc2⟩ := sw_prefix U ms c2 rest hwf (by rw [hsame]; exact hseg)
  have hne : ∀ p ∈ d1 ++ r1, p.1 ≠ [] := by
    intro p hp h
    have := (hwf p (by rw [e1]; exact hp)).len8
    rw [h] at this; simp at this
  obtain ⟨hd, ht⟩ := decomp_unique d1 d2 r1 r2 t1 t2 hne (by rw [← e1, ← e2])
    (by rw [← hf1, ← hf2, hsame]) hc1 hc2
  exact ⟨by rw [hd1, hd2, hd], by rw [hb1, hb2, ht], by rw [hst1, hst2]⟩

/-- non-vacuity: a cut inside the second header vs. one read of the same 11 bytes -/
example : ([[1, 0, 0], [8, 0, 0, 0, 7, 1, 2, 0]].foldl (ctlFeed sliceU 8) init).delivered = [hello] ∧
    ([[1, 0, 0], [8, 0, 0, 0, 7, 1, 2, 0]].foldl (ctlFeed sliceU 8) init).buf = [1, 2, 0] ∧
    ([[1, 0, 0, 8, 0, 0, 0, 7, 1, 2, 0]].foldl (ctlFeed sliceU 8) init).buf = [1, 2, 0] := by decide

/-! ## Handlers that raise, and the end of the stream

`ctlFeedH U H 8` / `swFeedH U H` are the two read paths with the outcome `H m` of the handler of every delivered
message as an input (returned / raised a Python exception), `connEnd` is the read that finds the end of the stream
(`recv` returned `b''` or raised).  "Delivers exactly that sequence, once each" holds for EVERY `H`, i.e. also for the
messages that follow one whose handler raised; and when the stream ends, every complete message among the bytes the
reads have handed out has been delivered. -/

/-- **ctl_handler_outcome**: whatever the handlers do (return or raise), the controller-side read path is the `ctlFeed`
of `ctl_framing` / `ctl_prefix`. -/
theorem ctl_handler_outcome (U : Unpack Msg) (H : Msg → HOut) : ctlFeedH U H 8 = ctlFeed U 8 := ctlFeedH_eq U H 8

/-- **sw_handler_outcome**: the same on the switch side (`except Exception: _error_handler(ERR_EXCEPTION)`; the bytes of
the message were consumed before the handler ran and are not consumed again). -/
theorem sw_handler_outcome (U : Unpack Msg) (H : Msg → HOut) : swFeedH U H = swFeed U := swFeedH_eq U H

/-- Controller side, whole stream, handlers of any of the messages raising. -/
theorem ctl_framing_handlers (U : Unpack Msg) (H : Msg → HOut) (ms : List (Bytes × Msg)) (chunks : List Bytes)
    (hwf : ∀ p ∈ ms, WF U p.1 p.2) (hseg : chunks.flatten = (ms.map (·.1)).flatten) :
    let r := chunks.foldl (ctlFeedH U H 8) init
    r.delivered = ms.map (·.2) ∧ r.buf = [] ∧ r.st = .alive := by
  rw [ctl_handler_outcome]; exact ctl_framing U ms chunks hwf hseg

/-- Switch side, whole stream, handlers of any of the messages raising. -/
theorem sw_framing_handlers (U : Unpack Msg) (H : Msg → HOut) (ms : List (Bytes × Msg)) (chunks : List Bytes)
    (hwf : ∀ p ∈ ms, SWF U p.1 p.2) (hseg : chunks.flatten = (ms.map (·.1)).flatten) :
    let r := chunks.foldl (swFeedH U H) init
    r.delivered = ms.map (·.2) ∧ r.buf = [] ∧ r.st = .alive := by
  rw [sw_handler_outcome]; exact sw_framing U ms chunks hwf hseg

/-- **ctl_eof**: the peer ends the stream after the bytes `chunks.flatten` (any prefix of a well-formed stream, cut into
reads in any way, handlers of any of the messages raising).  When the connection is closed, exactly the complete
messages among those bytes have been delivered, in order, once each; what is left is a strict prefix of the next
message. -/
theorem ctl_eof (U : Unpack Msg) (H : Msg → HOut) (ms : List (Bytes × Msg)) (chunks : List Bytes) (rest : Bytes)
    (hwf : ∀ p ∈ ms, WF U p.1 p.2) (hseg : chunks.flatten ++ rest = (ms.map (·.1)).flatten) :
    let r := connEnd (chunks.foldl (ctlFeedH U H 8) init)
    ∃ done rem tl, ms = done ++ rem ∧ r.delivered = done.map (·.2) ∧ r.st = .closed ∧
      chunks.flatten = (done.map (·.1)).flatten ++ tl ∧
      (tl = [] ∨ ∃ e m rem' y, rem = (e, m) :: rem' ∧ e = tl ++ y ∧ y ≠ []) := by
  rw [ctl_handler_outcome]
  obtain ⟨done, rem, tl, h1, h2, _, h4, h5, h6⟩ := ctl_prefix U ms chunks rest hwf hseg
  exact ⟨done, rem, tl, h1, by rw [connEnd_delivered]; exact h2, connEnd_closed _ h4, h5, h6⟩

/-- **sw_eof**: the same on the switch side (`IOWorker._do_recv`: an empty `recv` or a socket error closes the worker). -/
theorem sw_eof (U : Unpack Msg) (H : Msg → HOut) (ms : List (Bytes × Msg)) (chunks : List Bytes) (rest : Bytes)
    (hwf : ∀ p ∈ ms, SWF U p.1 p.2) (hseg : chunks.flatten ++ rest = (ms.map (·.1)).flatten) :
    let r := connEnd (chunks.foldl (swFeedH U H) init)
    ∃ done rem tl, ms = done ++ rem ∧ r.delivered = done.map (·.2) ∧ r.st = .closed ∧
      chunks.flatten = (done.map (·.1)).flatten ++ tl ∧
      (tl = [] ∨ ∃ e m rem' y, rem = (e, m) :: rem' ∧ e = tl ++ y ∧ y ≠ []) := by
  rw [sw_handler_outcome]
  obtain ⟨done, rem, tl, h1, h2, _, h4, h5, h6⟩ := sw_prefix U ms chunks rest hwf hseg
  exact ⟨done, rem, tl, h1, by rw [connEnd_delivered]; exact h2, connEnd_closed _ h4, h5, h6⟩

/-- non-vacuity: the handler of the HELLO raises, the stream is cut inside both headers, and the peer hangs up three
    bytes into a third message: both complete messages were delivered on either side, the connection is closed. -/
example : (connEnd ([[1, 0, 0], [8, 0, 0, 0, 7, 1, 2], [0, 12, 0, 0, 0, 9, 0xde, 0xad, 0xbe, 0xef, 1, 0, 0]].foldl
            (ctlFeedH sliceU (raisesOn [hello]) 8) init)).delivered = [hello, echo] := by decide
example : (connEnd ([[1, 0, 0], [8, 0, 0, 0, 7, 1, 2], [0, 12, 0, 0, 0, 9, 0xde, 0xad, 0xbe, 0xef, 1, 0, 0]].foldl
            (swFeedH sliceU (raisesOn [hello])) init)).st = .closed := by decide
example : raisesOn [hello] hello = .raised ∧ raisesOn [hello] echo = .returned := by decide

/-! ## A configuration that changes the decode path

With `openflow.nicira` loaded the OFPT_VENDOR entry of the controller's table of unpackers is `_unpack_nx_vendor`
(`replaceEntry U 4 (nxVendor U N)`): it reads the vendor id, and only for a Nicira message the subtype behind it.  The
framing statement is the same in that configuration, for every message that is well-formed there (`NxWF`): in
particular for another vendor's message of exactly 12 bytes with nothing behind it in the buffer. -/

/-- **ctl_framing_nicira**: controller side, whole stream, `openflow.nicira` loaded. -/
theorem ctl_framing_nicira (U : Unpack Msg) (N : Nat → Option (Unpack Msg)) (ms : List (Bytes × Msg)) (chunks : List Bytes)
    (hwf : ∀ p ∈ ms, NxWF U N p.1 p.2) (hseg : chunks.flatten = (ms.map (·.1)).flatten) :
    let r := chunks.foldl (ctlFeed (replaceEntry U 4 (nxVendor U N)) 8) init
    r.delivered = ms.map (·.2) ∧ r.buf = [] ∧ r.st = .alive :=
  ctl_framing _ ms chunks (fun p hp => (hwf p hp).wf) hseg

/-- **ctl_prefix_nicira**: controller side, any prefix of the stream, `openflow.nicira` loaded. -/
theorem ctl_prefix_nicira (U : Unpack Msg) (N : Nat → Option (Unpack Msg)) (ms : List (Bytes × Msg)) (chunks : List Bytes)
    (rest : Bytes) (hwf : ∀ p ∈ ms, NxWF U N p.1 p.2) (hseg : chunks.flatten ++ rest = (ms.map (·.1)).flatten) :
    let r := chunks.foldl (ctlFeed (replaceEntry U 4 (nxVendor U N)) 8) init
    ∃ done rem tl, ms = done ++ rem ∧ r.delivered = done.map (·.2) ∧ r.buf = tl ∧ r.st = .alive ∧
      chunks.flatten = (done.map (·.1)).flatten ++ tl ∧
      (tl = [] ∨ ∃ e m rem' y, rem = (e, m) :: rem' ∧ e = tl ++ y ∧ y ≠ []) :=
  ctl_prefix _ ms chunks rest (fun p hp => (hwf p hp).wf) hseg

/-- **ctl_segmentation_independent_nicira**: segmentation independence with `openflow.nicira` loaded (the OFPT_VENDOR
table entry replaced): two segmentations of the same prefix of a well-formed stream leave the same state. -/
theorem ctl_segmentation_independent_nicira (U : Unpack Msg) (N : Nat → Option (Unpack Msg)) (ms : List (Bytes × Msg))
    (c1 c2 : List Bytes) (rest : Bytes) (hwf : ∀ p ∈ ms, NxWF U N p.1 p.2)
    (hseg : c1.flatten ++ rest = (ms.map (·.1)).flatten) (hsame : c2.flatten = c1.flatten) :
    (c1.foldl (ctlFeed (replaceEntry U 4 (nxVendor U N)) 8) init).delivered
      = (c2.foldl (ctlFeed (replaceEntry U 4 (nxVendor U N)) 8) init).delivered ∧
    (c1.foldl (ctlFeed (replaceEntry U 4 (nxVendor U N)) 8) init).buf
      = (c2.foldl (ctlFeed (replaceEntry U 4 (nxVendor U N)) 8) init).buf ∧
    (c1.foldl (ctlFeed (replaceEntry U 4 (nxVendor U N)) 8) init).st
      = (c2.foldl (ctlFeed (replaceEntry U 4 (nxVendor U N)) 8) init).st :=
  ctl_segmentation_independent _ ms c1 c2 rest (fun p hp => (hwf p hp).wf) hseg hsame

/-- non-vacuity: a bare 12-byte message of another vendor, a bare 16-byte Nicira header and a HELLO are `NxWF` for the
    slice decoder; one message per read (nothing behind the 12-byte message when it is decoded) delivers all three. -/
def vendor12 : Bytes := [1, 4, 0, 12, 0, 0, 0, 6, 0, 0x5c, 0x16, 0xc7]
def nicira16 : Bytes := [1, 4, 0, 16, 0, 0, 0, 7, 0, 0, 0x23, 0x20, 0, 0, 0, 0x7f]
example : NxWF sliceU (fun _ => none) vendor12 vendor12 :=
  .inr (.inl ⟨by decide, by decide, by decide, sliceU_wf _ ⟨by decide, by decide, by decide, by decide⟩⟩)
example : NxWF sliceU (fun _ => none) nicira16 nicira16 :=
  .inr (.inr ⟨by decide, by decide, by decide, sliceU_wf _ ⟨by decide, by decide, by decide, by decide⟩⟩)
example : NxWF sliceU (fun _ => none) hello hello := .inl ⟨by decide, sliceU_wf _ ⟨by decide, by decide, by decide, by decide⟩⟩
example : ([vendor12, nicira16, hello].foldl (ctlFeed (replaceEntry sliceU 4 (nxVendor sliceU (fun _ => none))) 8) init).delivered
    = [vendor12, nicira16, hello] := by decide

/-- **nx_eager_lookahead_breaks**: why the entry must not read vendor id and subtype in one access (`nxVendorEager`): the
    same two well-formed messages are delivered when they arrive in one read, and kill the connection (an exception
    leaves `read()`) when the read ends behind the 12-byte message — framing would depend on the segmentation. -/
theorem nx_eager_lookahead_breaks :
    ([vendor12 ++ hello].foldl (ctlFeed (replaceEntry sliceU 4 (nxVendorEager sliceU (fun _ => none))) 8) init).delivered
      = [vendor12, hello] ∧
    ([vendor12, hello].foldl (ctlFeed (replaceEntry sliceU 4 (nxVendorEager sliceU (fun _ => none))) 8) init).st = .dead ∧
    ([vendor12, hello].foldl (ctlFeed (replaceEntry sliceU 4 (nxVendor sliceU (fun _ => none))) 8) init).delivered
      = [vendor12, hello] := by decide

end Pox.C02
