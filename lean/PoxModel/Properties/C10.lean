import PoxModel.Proofs.Contain
import PoxModel.Proofs.SwTrace
import PoxModel.Proofs.CtlTrace
import PoxModel.Proofs.Round
import PoxModel.Proofs.LiveNet
/-! # C10 — malformed OpenFlow input is contained to the offending connection

`U` (the message decoders) is COMPLETELY unconstrained in every theorem of this file: it may return any offset, raise,
or be missing, for any bytes.  `ctlFeed U 8` / `swFeed U` are the two read paths as repaired (D4, D5). -/
namespace Pox.C10
open Pox.Framing
variable {Msg : Type}

/-- **ctl_terminates**: processing any received bytes terminates — the loop of `Connection.read` is finished within
`len/8 + 1` iterations (every iteration consumes at least 8 bytes), so the fuel `ctlFeed` supplies is never exhausted:
any larger fuel gives the same result. -/
theorem ctl_terminates (U : Unpack Msg) (buf : Bytes) (acc : List Msg) (fuel : Nat) (h : buf.length + 1 ≤ fuel) :
    ctlLoop U 8 fuel buf 0 acc = ctlLoop U 8 (buf.length + 1) buf 0 acc :=
  ctl_fuel_indep U fuel (buf.length + 1) buf 0 acc (Nat.le_trans (ctlBound_le buf) h) (ctlBound_le buf)

/-- **sw_terminates** -/
theorem sw_terminates (U : Unpack Msg) (buf : Bytes) (acc : List Msg) (fuel : Nat) (h : buf.length + 1 ≤ fuel) :
    swLoop U fuel buf acc = swLoop U (buf.length + 1) buf acc :=
  sw_fuel_indep U fuel (buf.length + 1) buf acc (Nat.le_trans (swBound_le buf) h) (swBound_le buf)

/-- the guard that repair D4 added is necessary: without it (`minLen = 0`) there are a decoder and 8 bytes on which the
loop makes one more "delivery" for every unit of fuel, i.e. never terminates -/
theorem ctl_unguarded_spins (fuel : Nat) : (ctlLoop trustingU 0 fuel zeroHello 0 []).2.1.length = fuel := by
  simpa using ctl_spins_aux fuel []

/-- **sw_contained**: whatever the decoders do, no exception escapes the switch-side read path (so the I/O loop that
serves every connection of the switch process keeps running): over any chunk sequence the status is never `dead`. -/
theorem sw_contained (U : Unpack Msg) (chunks : List Bytes) : (chunks.foldl (swFeed U) init).st ≠ .dead := by
  have : ∀ (s : CS Msg), s.st ≠ .dead → (chunks.foldl (swFeed U) s).st ≠ .dead := by
    induction chunks with
    | nil => intro s h; exact h
    | cons c cs ih => intro s h; exact ih _ (swFeed_never_dead U s c h)
  exact this init (by simp [init])

/-- **contained** (both sides): feeding bytes to connection `i` — whatever they are and whatever happens to `i` — leaves
every sibling connection's buffer, delivered messages and status exactly as they were. -/
theorem siblings_untouched (feed : CS Msg → Bytes → CS Msg) (net : List (CS Msg)) (i j : Nat) (c : Bytes) (h : j ≠ i) :
    (feedAt feed net i c)[j]? = net[j]? :=
  feedAt_others feed net i j c h

/-- **no_overread** (controller): a delivered message was decoded from a window that starts at a message boundary `o`,
has exactly the declared length `n ≥ 8`, lies inside the received bytes, and the decoder consumed exactly `n`. -/
theorem ctl_no_overread (U : Unpack Msg) (s : CS Msg) (c : Bytes) (m : Msg) (hs : s.st = .alive)
    (hm : m ∈ (ctlFeed U 8 s c).delivered) :
    m ∈ s.delivered ∨ ∃ o n, o + n ≤ (s.buf ++ c).length ∧ n = declLen (s.buf ++ c) o ∧ 8 ≤ n ∧
      U (byteAt (s.buf ++ c) (o + 1)) (s.buf ++ c) o = .ok (o + n, m) := by
  unfold ctlFeed at hm
  rw [hs] at hm
  simp only [] at hm
  have := ctl_window U ((s.buf ++ c).length + 1) (s.buf ++ c) 0 s.delivered m
  generalize ctlLoop U 8 ((s.buf ++ c).length + 1) (s.buf ++ c) 0 s.delivered = r at this hm
  obtain ⟨o, d, st⟩ := r
  rcases this hm with h | ⟨o, n, -, h2, h3, h4, h5⟩
  · exact .inl h
  · exact .inr ⟨o, n, h2, h3, h4, h5⟩

/-- **no_overread** (switch) -/
theorem sw_no_overread (U : Unpack Msg) (s : CS Msg) (c : Bytes) (m : Msg) (hs : s.st = .alive)
    (hm : m ∈ (swFeed U s c).delivered) :
    m ∈ s.delivered ∨ ∃ k n, k + n ≤ (s.buf ++ c).length ∧ n = declLen ((s.buf ++ c).drop k) 0 ∧ 8 ≤ n ∧
      U (byteAt ((s.buf ++ c).drop k) 1) ((s.buf ++ c).drop k) 0 = .ok (n, m) := by
  unfold swFeed at hm
  rw [hs] at hm
  simp only [] at hm
  have := sw_window U ((s.buf ++ c).length + 1) (s.buf ++ c) s.delivered m
  generalize swLoop U ((s.buf ++ c).length + 1) (s.buf ++ c) s.delivered = r at this hm
  obtain ⟨b, d, st⟩ := r
  exact this hm

/-! non-vacuity: a stream with a bad-length message, an unknown type and a raising decoder between valid messages -/
def demoU : Unpack Nat := fun ty buf off =>
  if ty = 9 then .raise else if ty = 7 then .none else if ty = 5 then .ok (off + 4, 0)
  else .ok (off + declLen buf off, ty)
def demoStream : Bytes :=
  [1,2,0,8,0,0,0,1,  1,9,0,8,0,0,0,2,  1,7,0,8,0,0,0,3,  1,5,0,8,0,0,0,4,  1,3,0,8,0,0,0,5]
example : (swFeed demoU init demoStream).delivered = [2, 3] ∧ (swFeed demoU init demoStream).st = .alive := by decide
example : (ctlFeed demoU 8 init demoStream).delivered = [2] ∧ (ctlFeed demoU 8 init demoStream).st = .dead := by decide


/-! ## "either the bytes are answered with an error and skipped, or that one connection is closed"

`swFeedT` is `swFeed` keeping the trace of what happened to every window (`sw_trace_is_feed`).  `U` is still completely
unconstrained. -/

/-- the trace-keeping model is the model all other theorems are about, plus bookkeeping -/
theorem sw_trace_is_feed (U : Unpack Msg) (chunks : List Bytes) :
    (chunks.foldl (swFeedT U) initT).buf = (chunks.foldl (swFeed U) init).buf ∧
    delivs (chunks.foldl (swFeedT U) initT).trace = (chunks.foldl (swFeed U) init).delivered ∧
    (chunks.foldl (swFeedT U) initT).st = (chunks.foldl (swFeed U) init).st :=
  swFeedT_proj U chunks

/-- **sw_answered_or_closed**: for every byte string, however it is cut into reads and whatever the decoders do —
(1) every received byte is accounted for: the stream is the concatenation of the consumed windows in order, then what
    is still buffered, then (only after the connection was closed) the bytes that were ignored;
(2) every consumed window is a whole message (version 1, declared length ≥ 8 and equal to its size); it was either
    delivered, or skipped and ANSWERED: exactly one OFPET_BAD_REQUEST error with code BAD_TYPE (no decoder) or BAD_LEN
    (decoder raised / consumed another length), the window's own xid, and its first 64 bytes as data;
(3) no exception escapes; while the connection is up nothing was closed; and when it is closed that is the last thing
    that happened, exactly once. -/
theorem sw_answered_or_closed (U : Unpack Msg) (chunks : List Bytes) :
    let s := chunks.foldl (swFeedT U) initT
    (∃ rest, chunks.flatten = (s.trace.map SwEv.win).flatten ++ s.buf ++ rest ∧ (s.st = .alive → rest = [])) ∧
    (∀ e ∈ s.trace, (∀ w m, e = .deliver w m → WellFramed w) ∧
        (∀ w c, e = .skip w c → WellFramed w ∧ (c = 1 ∨ c = 6) ∧ e.reply = some (1, c, xidOf w, w.take 64))) ∧
    s.st ≠ .dead ∧
    (s.st = .alive → ∀ e ∈ s.trace, e ≠ .close ∧ ∀ x, e ≠ .helloFailed x) ∧
    (s.st = .closed → ∃ pre last, s.trace = pre ++ [last] ∧ (last = .close ∨ ∃ x, last = .helloFailed x) ∧
        ∀ e ∈ pre, e ≠ .close ∧ ∀ x, e ≠ .helloFailed x) := by
  intro s
  have h := accounted_run U chunks
  refine ⟨h.tiled, ?_, h.notdead, h.open_, h.shut⟩
  intro e he
  obtain ⟨h1, h2⟩ := h.framed e he
  refine ⟨h1, ?_⟩
  intro w c hw
  obtain ⟨a, b⟩ := h2 w c hw
  exact ⟨a, b, by rw [hw]; rfl⟩

/-- an error reply is sent for nothing else: only skipped windows and the HELLO_FAILED of a wrong-version peer that
had not yet delivered anything produce one -/
theorem sw_replies_only_for_skips (e : SwEv Msg) (r : Nat × Nat × Nat × Bytes) (h : e.reply = some r) :
    (∃ w c, e = .skip w c) ∨ (∃ x, e = .helloFailed x) := by
  cases e with
  | deliver w m => simp [SwEv.reply] at h
  | skip w c => exact .inl ⟨w, c, rfl⟩
  | helloFailed x => exact .inr ⟨x, rfl⟩
  | close => simp [SwEv.reply] at h

/-! non-vacuity: the stream of `demoStream` gives deliver, skip(BAD_LEN), skip(BAD_TYPE), skip(BAD_LEN), deliver; a
wrong-version message on a fresh connection is answered with HELLO_FAILED and closes -/
example : ((swFeedT demoU initT demoStream).trace.map SwEv.reply) =
    [none, some (1, 6, 2, [1,9,0,8,0,0,0,2]), some (1, 1, 3, [1,7,0,8,0,0,0,3]), some (1, 6, 4, [1,5,0,8,0,0,0,4]), none] := by decide
example : (swFeedT demoU initT [4,2,0,8,0,0,0,7]).st = .closed ∧
    ((swFeedT demoU initT [4,2,0,8,0,0,0,7]).trace.map (fun e => (SwEv.reply e).map (fun r => (r.1, r.2.1, r.2.2.1)))) = [some (0, 0, 7)] := by decide
example : ((swFeedT demoU initT ([1,2,0,8,0,0,0,1] ++ [4,2,0,8,0,0,0,7])).trace.map (fun e => (SwEv.reply e).isSome)) = [false, false] := by decide

/-! ## controller side: every byte accounted for; a failing connection is closed by the task, the loop goes on -/

/-- the window-keeping controller model is the model all other theorems are about, plus bookkeeping -/
theorem ctl_trace_is_feed (U : Unpack Msg) (chunks : List Bytes) :
    (chunks.foldl (ctlFeedT U 8) initCT).buf = (chunks.foldl (ctlFeed U 8) init).buf ∧
    (chunks.foldl (ctlFeedT U 8) initCT).trace.map (·.2) = (chunks.foldl (ctlFeed U 8) init).delivered ∧
    (chunks.foldl (ctlFeedT U 8) initCT).st = (chunks.foldl (ctlFeed U 8) init).st :=
  ctlFeedT_proj U chunks

/-- **ctl_accounted**: for every byte string, however it is cut into reads and whatever the decoders do, the stream is
the concatenation of the dispatched windows in order (each a whole message: declared length = size ≥ 8, so dispatching
starts at message boundaries only and no window overlaps another), then what is still buffered, then — only once the
connection is no longer alive — the bytes that were ignored.  The controller never skips: what it cannot dispatch ends the
connection (`ctl_task_contained`). -/
theorem ctl_accounted (U : Unpack Msg) (chunks : List Bytes) :
    let s := chunks.foldl (ctlFeedT U 8) initCT
    (∃ rest, chunks.flatten = (s.trace.map (·.1)).flatten ++ s.buf ++ rest ∧ (s.st = .alive → rest = [])) ∧
    (∀ e ∈ s.trace, CtlFramed e.1) := by
  intro s
  have h := ctlAccounted_run U chunks
  exact ⟨h.tiled, h.framed⟩

/-- **ctl_task_contained**: one round of the controller's serving task for connection `i` — whatever the bytes and the
decoders do, afterwards no connection is in the "exception escaped" state (the task's `except:` closed it and dropped
it), and every other connection is exactly as before -/
theorem ctl_task_contained (U : Unpack Msg) (net : List (CS Msg)) (i : Nat) (c : Bytes)
    (h : ∀ x ∈ net, x.st ≠ .dead) :
    (∀ x ∈ ctlServe U net i c, x.st ≠ .dead) ∧ ∀ j, j ≠ i → (ctlServe U net i c)[j]? = net[j]? := by
  refine ⟨?_, fun j hj => feedAt_others _ net i j c hj⟩
  intro x hx
  unfold ctlServe feedAt at hx
  cases hn : net[i]? with
  | none => rw [hn] at hx; exact h x hx
  | some y =>
    rw [hn] at hx
    simp only [] at hx
    rcases List.mem_or_eq_of_mem_set hx with hm | he
    · exact h x hm
    · subst he
      by_cases hd : (ctlFeed U 8 y c).st = .dead
      · simp [hd]
      · simp [hd]

/-- a decoder is window-local when decoding the window alone gives the same message it gave inside the stream — what
C01 proves of the real decoders on well-formed messages, and what the harness tests of them on every delivered window
(re-decoding it followed by other bytes) -/
def WindowLocal (U : Unpack Msg) : Prop :=
  ∀ ty buf n m, U ty buf 0 = .ok (n, m) → n ≤ buf.length → U ty (buf.take n) 0 = .ok (n, m)

/-- **sw_deliver_window_only**: with window-local decoders, every message the switch delivers is what the decoder gives
on a well-framed window taken alone — no byte of a neighbouring message takes part in it -/
theorem sw_deliver_window_only (U : Unpack Msg) (hU : WindowLocal U) (s : CS Msg) (c : Bytes) (m : Msg) (hs : s.st = .alive)
    (hm : m ∈ (swFeed U s c).delivered) :
    m ∈ s.delivered ∨ ∃ w, 8 ≤ w.length ∧ w.length = declLen w 0 ∧ U (byteAt w 1) w 0 = .ok (w.length, m) := by
  rcases sw_no_overread U s c m hs hm with h | ⟨k, n, h1, h2, h3, h4⟩
  · exact .inl h
  · generalize s.buf ++ c = B at h1 h2 h4
    have hdl : (B.drop k).length = B.length - k := List.length_drop
    have hl : ((B.drop k).take n).length = n := by rw [List.length_take, hdl]; omega
    have hfr : CtlFramed (((B.drop k).drop 0).take n) :=
      ctlFramed_window (B.drop k) 0 n (by rw [h2]) h3 (by rw [hdl]; omega)
    rw [List.drop_zero] at hfr
    have hb1 : byteAt ((B.drop k).take n) 1 = byteAt (B.drop k) 1 := by
      unfold byteAt
      simp only [List.getD_eq_getElem?_getD]
      rw [List.getElem?_take_of_lt (by omega)]
    refine .inr ⟨(B.drop k).take n, hfr.1, hfr.2, ?_⟩
    rw [hl, hb1]
    exact hU _ _ n m h4 (by rw [hdl]; omega)

/-! non-vacuity: a decoder that looks at nothing but its own 8 bytes is window-local; `demoStream` through the
window-keeping controller loop tiles into one dispatched window before the raising decoder ends the connection -/
example : WindowLocal (fun _ _ off => (.ok (off + 8, ()) : Res (Nat × Unit))) := by intro ty buf n m h _; exact h
example : ((ctlFeedT demoU 8 initCT demoStream).trace.map (·.1)) = [[1,2,0,8,0,0,0,1]] ∧
    (ctlFeedT demoU 8 initCT demoStream).st = .dead := by decide

/-- **ctl_disconnect_stops** (repair C09-2 seen from the read loop): whatever the handlers do, within one `read()`
nothing is dispatched after a message whose handler disconnected the connection — every newly delivered message except
possibly the last has a handler that left the connection up. -/
theorem ctl_disconnect_stops (U : Unpack Msg) (D : Msg → Bool) (fuel : Nat) (buf : Bytes) (off : Nat) (acc : List Msg) :
    ∃ new, (ctlLoopD U D 8 fuel false buf off acc).2.1 = acc ++ new ∧ ∀ m ∈ new.dropLast, D m = false :=
  ctlLoopD_last U D 8 fuel buf off acc

/-- …and when no handler disconnects, the loop with the `disconnected` test is exactly the loop all other theorems of
C02/C10 are about -/
theorem ctl_no_disconnect_same (U : Unpack Msg) (fuel : Nat) (buf : Bytes) (off : Nat) (acc : List Msg) :
    ctlLoopD U (fun _ => false) 8 fuel false buf off acc = ctlLoop U 8 fuel buf off acc :=
  ctlLoopD_never U 8 fuel buf off acc

example : (ctlFeedD demoU (fun m => m == 2) 8 init
    [1,2,0,8,0,0,0,1,  1,3,0,8,0,0,0,5,  1,4,0,8,0,0,0,6]).delivered = [2] := by decide

/-- **ctl_disconnect_persists**: the `disconnected` mark outlives the read in which a handler set it — a later read
that finds a whole header in the buffer throws the connection away without dispatching anything, whatever arrived. -/
theorem ctl_disconnect_persists (U : Unpack Msg) (D : Msg → Bool) (s : CS Msg) (c : Bytes)
    (hs : s.st = .alive) (hd : s.delivered.any D = true) (hlen : 8 ≤ (s.buf ++ c).length) :
    (ctlFeedD U D 8 s c).delivered = s.delivered ∧ (ctlFeedD U D 8 s c).st = .closed := by
  unfold ctlFeedD
  rw [hs]
  simp only [hd]
  rw [ctlLoopD]
  have h8 : ¬ (s.buf.length + c.length < 8) := by simp at hlen; omega
  simp [h8]
example : ([[1,2,0,8,0,0,0,1, 1], [3,0,8,0,0,0,5, 1,4,0,8,0,0,0,6]].foldl (ctlFeedD demoU (fun m => m == 2) 8) init).delivered = [2] ∧
    ([[1,2,0,8,0,0,0,1, 1], [3,0,8,0,0,0,5, 1,4,0,8,0,0,0,6]].foldl (ctlFeedD demoU (fun m => m == 2) 8) init).st = .closed := by decide

/-! ## one select round serves several connections

`OpenFlow_01_Task.run` and `RecocoIOLoop.run` get the list of ALL readable connections from one `select` and serve them one
after the other.  `serveRound feed net items` is that round (`items` = the readable connections with the bytes their sockets
hold, in service order; a connection is readable at most once per round: `Nodup`).  One thing the real controller loop does
is NOT a step of this model: when a read raises, `run`'s `except:` closes that connection and ABANDONS the rest of the round;
the connections not yet served keep their unread bytes, select (level-triggered) reports them again and the following
round(s) serve them — `serveRound` is the round together with those completions (assumption, exercised by the harness, whose
scripted select re-reports unread sockets exactly like that).  The harness runs such rounds against
the real loops in every service order, and asks the single-connection model about each connection on its own: the next
theorems are why that is enough. -/

/-- **round_order_irrelevant**: the states of all connections after a round do not depend on the order in which select
listed (and the loop served) the readable connections -/
theorem round_order_irrelevant (feed : CS Msg → Bytes → CS Msg) (net : List (CS Msg)) (l₁ l₂ : List (Nat × Bytes))
    (hn : (l₁.map (·.1)).Nodup) (hp : l₁.Perm l₂) : serveRound feed net l₁ = serveRound feed net l₂ :=
  serveRound_perm feed net l₁ l₂ hn hp

/-- **round_independent**: after a round, a connection that was readable is exactly as if it ALONE had been served with its
own bytes, and a connection that was not readable is exactly as before — whatever the other connections' bytes were and
whatever happened to them (malformed input, give-up, exception in a decoder) -/
theorem round_independent (feed : CS Msg → Bytes → CS Msg) (net : List (CS Msg)) (items : List (Nat × Bytes))
    (hn : (items.map (·.1)).Nodup) :
    (∀ i c, (i, c) ∈ items → (serveRound feed net items)[i]? = (feedAt feed net i c)[i]?) ∧
    (∀ j, (∀ e ∈ items, e.1 ≠ j) → (serveRound feed net items)[j]? = net[j]?) := by
  refine ⟨fun i c hm => ?_, fun j hj => serveRound_others feed items net j hj⟩
  rw [serveRound_at feed items net i c hn hm, feedAt_self]

/-- **ctl_round_contained**: a round of the controller's serving task, whatever the readable connections received and in
whatever order they are served, leaves no connection in the "exception escaped" state -/
theorem ctl_round_contained (U : Unpack Msg) (items : List (Nat × Bytes)) :
    ∀ (net : List (CS Msg)), (∀ x ∈ net, x.st ≠ .dead) →
      ∀ x ∈ items.foldl (fun n e => ctlServe U n e.1 e.2) net, x.st ≠ .dead := by
  induction items with
  | nil => intro net h; exact h
  | cons e rest ih =>
    intro net h
    exact ih _ (ctl_task_contained U net e.1 e.2 h).1

/-- the fold of `ctlServe` over a round is `serveRound` of the per-connection step `ctlStep` (definitional: `ctlServe` is
`feedAt ctlStep`) -/
theorem ctl_round_is_serveRound (U : Unpack Msg) (net : List (CS Msg)) (items : List (Nat × Bytes)) :
    items.foldl (fun n e => ctlServe U n e.1 e.2) net = serveRound (ctlStep U) net items := rfl

/-- **ctl_round_completes** — the round AS THE CODE RUNS IT.  `ctlRound` serves the readable connections in order and, as
soon as one read raises, closes that connection and returns the rest UNSERVED (the `except:` of `run` is outside the
`for con in rlist` loop); `ctlRounds fuel` repeats passes on what is still unread (level-triggered select).  Every pass
serves at least one connection, so after at most as many passes as there were readable connections nothing is left unread and
all connections are in exactly the states `serveRound` gives — to which `round_order_irrelevant`, `round_independent` and
`ctl_round_contained` apply.  What stays assumed: select reports an unread socket again, and what it then reads is what it
would have read (more bytes may have arrived meanwhile: that reads may be cut anywhere is C02's theorem). -/
theorem ctl_round_completes (U : Unpack Msg) (net : List (CS Msg)) (items : List (Nat × Bytes)) (fuel : Nat)
    (h : items.length ≤ fuel) :
    ctlRounds U fuel net items = (serveRound (ctlStep U) net items, []) ∧
    (ctlRound U net items).2.length ≤ items.length - 1 ∧
    serveRound (ctlStep U) (ctlRound U net items).1 (ctlRound U net items).2 = serveRound (ctlStep U) net items :=
  ⟨ctlRounds_completes U fuel net items h, ctlRound_shorter U items net, ctlRound_completes U items net⟩

/-! Scope: the listening socket is not a connection of this model.  An exception while ACCEPTING a connection (other than
ECONNRESET / EMFILE) ends `run` for every connection (of_01.py, `do_break`); no bytes on an established connection can cause
it, so it is outside what this property quantifies over — "the loop keeps running" is established here for faults arriving as
bytes, end of stream or socket errors on established connections only.

`round_order_irrelevant` / `round_independent` are facts about how the model COMPOSES connections (each has its own state,
`feedAt` touches index `i` only); that the real loop has no other state shared between connections of one round is what the
harness's rounds (every service order, companions, sibling loss) test. -/

/-! non-vacuity: three connections; 0 gets a message with length field 4 (gives up), 2 gets a valid one; both orders -/
example : ((serveRound (ctlFeed demoU 8) [init, init, init] [(0, [1,2,0,4,0,0,0,1]), (2, [1,2,0,8,0,0,0,1])]).map (·.st))
            = [.closed, .alive, .alive] ∧
          (serveRound (ctlFeed demoU 8) [init, init, init] [(0, [1,2,0,4,0,0,0,1]), (2, [1,2,0,8,0,0,0,1])]).map
              (fun x => (x.st, x.delivered, x.buf))
            = (serveRound (ctlFeed demoU 8) [init, init, init] [(2, [1,2,0,8,0,0,0,1]), (0, [1,2,0,4,0,0,0,1])]).map
              (fun x => (x.st, x.delivered, x.buf)) ∧
          ((serveRound (ctlFeed demoU 8) [init, init, init] [(0, [1,2,0,4,0,0,0,1]), (2, [1,2,0,8,0,0,0,1])]).map (·.delivered))
            = [[], [], [2]] := by decide
/-! … and a read that RAISES (decoder of type 9) on connection 0, listed first: the first pass closes 0 and leaves 2 unserved,
the second pass serves 2; the outcome is `serveRound`'s -/
example : let items : List (Nat × Bytes) := [(0, [1,9,0,8,0,0,0,2]), (2, [1,2,0,8,0,0,0,1])]
          ((ctlRound demoU [init, init, init] items).1.map (·.st) = [.closed, .alive, .alive]) ∧
          ((ctlRound demoU [init, init, init] items).2 = [(2, [1,2,0,8,0,0,0,1])]) ∧
          ((ctlRounds demoU 2 [init, init, init] items).1.map (fun x => (x.st, x.delivered)) = [(.closed, []), (.alive, []), (.alive, [2])]) ∧
          ((ctlRounds demoU 2 [init, init, init] items).2 = []) := by decide

/-! ## histories with the real handlers: what a connection keeps BETWEEN messages stays with that connection

`Model/LiveNet.lean`: a history hands each input to one connection object; `liveStep` is a connection with its own table of
unfinished statistics replies, its handshake phase and its closed flag.  The first two theorems hold for EVERY
per-connection step function (they are about where the state lives, not about what it is): they are what the live
families of the harness test on the real `Connection` objects — an offender that leaves unfinished multipart replies
(colliding xids and types), half a message, a pending handshake behind and is then dropped. -/
section Live
open Pox.LiveNet Pox.StatsAgg Pox.Spec17
variable {S I E : Type}

/-- **history_isolated**: in any history over any number of connections, what connection `j` is delivered — and the state it
ends in — is what it is delivered when it runs alone on its own inputs. -/
theorem history_isolated (step : S → I → S × List E) (net : List S) (h : List (Nat × I)) (j : Nat) (s : S) (hs : net[j]? = some s) :
    traceOf j (runNet step net h).2 = (runOne step s (inputsOf j h)).2 ∧
    (runNet step net h).1[j]? = some (runOne step s (inputsOf j h)).1 :=
  run_proj step h net j s hs

/-- **offender_never_existed**: every other connection is delivered exactly the events, and ends in exactly the state, of the
history from which all of the offender's steps (whatever they are: partial replies, garbage, end of stream) are removed. -/
theorem offender_never_existed (step : S → I → S × List E) (net : List S) (h : List (Nat × I)) (o j : Nat) (hjo : j ≠ o)
    (hj : j < net.length) :
    traceOf j (runNet step net h).2 = traceOf j (runNet step net (without o h)).2 ∧
    (runNet step net h).1[j]? = (runNet step net (without o h)).1[j]? := by
  have hs : net[j]? = some net[j] := List.getElem?_eq_getElem hj
  have a := run_proj step h net j net[j] hs
  have b := run_proj step (without o h) net j net[j] hs
  rw [inputsOf_without j o hjo] at b
  exact ⟨by rw [a.1, b.1], by rw [a.2, b.2]⟩

/-- **closed_is_silent**: nothing is delivered on a connection after it has been dropped, whatever it is sent. -/
theorem closed_is_silent (c : LConn) (hc : c.closed = true) (xs : List LIn) : runOne liveStep c xs = (c, []) := by
  induction xs with
  | nil => rfl
  | cons x xs ih => simp [runOne, liveStep, hc, ih]

/-- **live_event_is_own**: an aggregated statistics event delivered on connection `j` in a live history is the one the
assembly of `j`'s OWN replies yields (instance of `history_isolated` for `liveStep`). -/
theorem live_event_is_own (n : Nat) (h : List (Nat × LIn)) (j : Nat) (hj : j < n) :
    traceOf j (runNet liveStep (List.replicate n LConn.init) h).2 = (runOne liveStep LConn.init (inputsOf j h)).2 := by
  have hs : (List.replicate n LConn.init)[j]? = some LConn.init := by simp [hj]
  exact (run_proj liveStep h _ j LConn.init hs).1

/-- the hypotheses are satisfiable and the statement is not empty: connection 0 comes up, leaves two parts of reply (7, FLOW)
unfinished and is dropped; connection 1 (up) then receives the last part of ITS reply (7, FLOW): its event carries exactly
its own entries, and the offender is delivered nothing after the drop. -/
def demoHist : List (Nat × LIn) :=
  [(0, .up), (1, .up), (1, .stats ⟨7, 1, true, [10]⟩), (0, .stats ⟨7, 1, true, [20, 21]⟩), (0, .stats ⟨7, 1, true, [22]⟩),
   (0, .close), (0, .stats ⟨7, 1, false, [23]⟩), (1, .stats ⟨7, 1, false, [11]⟩)]

example : traceOf 1 (runNet liveStep [LConn.init, LConn.init] demoHist).2 =
    [.raw 7 1 true, .raw 7 1 false, .out (.event ⟨1, [10, 11], [7, 7]⟩)] := by decide
example : traceOf 0 (runNet liveStep [LConn.init, LConn.init] demoHist).2 = [.raw 7 1 true, .raw 7 1 true] := by decide
example : without 0 demoHist = [(1, .up), (1, .stats ⟨7, 1, true, [10]⟩), (1, .stats ⟨7, 1, false, [11]⟩)] := by decide
end Live

end Pox.C10
