import PoxModel.Proofs.Contain
/-! # C10 — malformed OpenFlow input is contained to the offending connection

`U` (the message decoders) is COMPLETELY unconstrained in every theorem of this file: it may return any offset, raise,
or be missing, for any bytes.  `ctlFeed U 8` / `swFeed U` are the two read paths as repaired (D4, D5). -/
namespace Pox.C10
open Pox.Framing
variable {Msg : Type}

/-- **ctl_terminates**: processing any received bytes terminates — the loop of `Connection.read` is finished within
`len/8 + 1` iterations (every iteration consumes at least 8 bytes), so the fuel `ctlFeed` supplies is never exhausted:
any larger fuel gives the same result. -/
theorem ctl_terminates (U : Unpack Msg) (buf : Bytes) (acc : List Msg) (fuel : Nat) (h : buf.length + 1 ≤ fuel) :
    ctlLoop U 8 fuel buf 0 acc = ctlLoop U 8 (buf.length + 1) buf 0 acc :=
  ctl_fuel_indep U fuel (buf.length + 1) buf 0 acc (Nat.le_trans (ctlBound_le buf) h) (ctlBound_le buf)

/-- **sw_terminates** -/
theorem sw_terminates (U : Unpack Msg) (buf : Bytes) (acc : List Msg) (fuel : Nat) (h : buf.length + 1 ≤ fuel) :
    swLoop U fuel buf acc = swLoop U (buf.length + 1) buf acc :=
  sw_fuel_indep U fuel (buf.length + 1) buf acc (Nat.le_trans (swBound_le buf) h) (swBound_le buf)

/-- the guard that repair D4 added is necessary: without it (`minLen = 0`) there are a decoder and 8 bytes on which the
loop makes one more "delivery" for every unit of fuel, i.e. never terminates -/
theorem ctl_unguarded_spins (fuel : Nat) : (ctlLoop trustingU 0 fuel zeroHello 0 []).2.1.length = fuel := by
  simpa using ctl_spins_aux fuel []

/-- **sw_contained**: whatever the decoders do, no exception escapes the switch-side read path (so the I/O loop that
serves every connection of the switch process keeps running): over any chunk sequence the status is never `dead`. -/
theorem sw_contained (U : Unpack Msg) (chunks : List Bytes) : (chunks.foldl (swFeed U) init).st ≠ .dead := by
  have : ∀ (s : CS Msg), s.st ≠ .dead → (chunks.foldl (swFeed U) s).st ≠ .dead := by
    induction chunks with
    | nil => intro s h; exact h
    | cons c cs ih => intro s h; exact ih _ (swFeed_never_dead U s c h)
  exact this init (by simp [init])

/-- **contained** (both sides): feeding bytes to connection `i` — whatever they are and whatever happens to `i` — leaves
every sibling connection's buffer, delivered messages and status exactly as they were. -/
theorem siblings_untouched (feed : CS Msg → Bytes → CS Msg) (net : List (CS Msg)) (i j : Nat) (c : Bytes) (h : j ≠ i) :
    (feedAt feed net i c)[j]? = net[j]? :=
  feedAt_others feed net i j c h

/-- **no_overread** (controller): a delivered message was decoded from a window that starts at a message boundary `o`,
has exactly the declared length `n ≥ 8`, lies inside the received bytes, and the decoder consumed exactly `n`. -/
theorem ctl_no_overread (U : Unpack Msg) (s : CS Msg) (c : Bytes) (m : Msg) (hs : s.st = .alive)
    (hm : m ∈ (ctlFeed U 8 s c).delivered) :
    m ∈ s.delivered ∨ ∃ o n, o + n ≤ (s.buf ++ c).length ∧ n = declLen (s.buf ++ c) o ∧ 8 ≤ n ∧
      U (byteAt (s.buf ++ c) (o + 1)) (s.buf ++ c) o = .ok (o + n, m) := by
  unfold ctlFeed at hm
  rw [hs] at hm
  simp only [] at hm
  have := ctl_window U ((s.buf ++ c).length + 1) (s.buf ++ c) 0 s.delivered m
  generalize ctlLoop U 8 ((s.buf ++ c).length + 1) (s.buf ++ c) 0 s.delivered = r at this hm
  obtain ⟨o, d, st⟩ := r
  rcases this hm with h | ⟨o, n, -, h2, h3, h4, h5⟩
  · exact .inl h
  · exact .inr ⟨o, n, h2, h3, h4, h5⟩

/-- **no_overread** (switch) -/
theorem sw_no_overread (U : Unpack Msg) (s : CS Msg) (c : Bytes) (m : Msg) (hs : s.st = .alive)
    (hm : m ∈ (swFeed U s c).delivered) :
    m ∈ s.delivered ∨ ∃ k n, k + n ≤ (s.buf ++ c).length ∧ n = declLen ((s.buf ++ c).drop k) 0 ∧ 8 ≤ n ∧
      U (byteAt ((s.buf ++ c).drop k) 1) ((s.buf ++ c).drop k) 0 = .ok (n, m) := by
  unfold swFeed at hm
  rw [hs] at hm
  simp only [] at hm
  have := sw_window U ((s.buf ++ c).length + 1) (s.buf ++ c) s.delivered m
  generalize swLoop U ((s.buf ++ c).length + 1) (s.buf ++ c) s.delivered = r at this hm
  obtain ⟨b, d, st⟩ := r
  exact this hm

/-! non-vacuity: a stream with a bad-length message, an unknown type and a raising decoder between valid messages -/
def demoU : Unpack Nat := fun ty buf off =>
  if ty = 9 then .raise else if ty = 7 then .none else if ty = 5 then .ok (off + 4, 0)
  else .ok (off + declLen buf off, ty)
def demoStream : Bytes :=
  [1,2,0,8,0,0,0,1,  1,9,0,8,0,0,0,2,  1,7,0,8,0,0,0,3,  1,5,0,8,0,0,0,4,  1,3,0,8,0,0,0,5]
example : (swFeed demoU init demoStream).delivered = [2, 3] ∧ (swFeed demoU init demoStream).st = .alive := by decide
example : (ctlFeed demoU 8 init demoStream).delivered = [2] ∧ (ctlFeed demoU 8 init demoStream).st = .dead := by decide


/-- **ctl_disconnect_stops** (repair C09-2 seen from the read loop): whatever the handlers do, within one `read()`
nothing is dispatched after a message whose handler disconnected the connection — every newly delivered message except
possibly the last has a handler that left the connection up. -/
theorem ctl_disconnect_stops (U : Unpack Msg) (D : Msg → Bool) (fuel : Nat) (buf : Bytes) (off : Nat) (acc : List Msg) :
    ∃ new, (ctlLoopD U D 8 fuel false buf off acc).2.1 = acc ++ new ∧ ∀ m ∈ new.dropLast, D m = false :=
  ctlLoopD_last U D 8 fuel buf off acc

/-- …and when no handler disconnects, the loop with the `disconnected` test is exactly the loop all other theorems of
C02/C10 are about -/
theorem ctl_no_disconnect_same (U : Unpack Msg) (fuel : Nat) (buf : Bytes) (off : Nat) (acc : List Msg) :
    ctlLoopD U (fun _ => false) 8 fuel false buf off acc = ctlLoop U 8 fuel buf off acc :=
  ctlLoopD_never U 8 fuel buf off acc

example : (ctlFeedD demoU (fun m => m == 2) 8 init
    [1,2,0,8,0,0,0,1,  1,3,0,8,0,0,0,5,  1,4,0,8,0,0,0,6]).delivered = [2] := by decide

end Pox.C10
