import PoxModel.Proofs.Contain
import PoxModel.Proofs.SwTrace
/-! # C10 — malformed OpenFlow input is contained to the offending connection

`U` (the message decoders) is COMPLETELY unconstrained in every theorem of this file: it may return any offset, raise,
or be missing, for any bytes.  `ctlFeed U 8` / `swFeed U` are the two read paths as repaired (D4, D5). -/
namespace Pox.C10
open Pox.Framing
variable {Msg : Type}

/-- **ctl_terminates**: processing any received bytes terminates — the loop of `Connection.read` is finished within
`len/8 + 1` iterations (every iteration consumes at least 8 bytes), so the fuel `ctlFeed` supplies is never exhausted:
any larger fuel gives the same result. -/
theorem ctl_terminates (U : Unpack Msg) (buf : Bytes) (acc : List Msg) (fuel : Nat) (h : buf.length + 1 ≤ fuel) :
    ctlLoop U 8 fuel buf 0 acc = ctlLoop U 8 (buf.length + 1) buf 0 acc :=
  ctl_fuel_indep U fuel (buf.length + 1) buf 0 acc (Nat.le_trans (ctlBound_le buf) h) (ctlBound_le buf)

/-- **sw_terminates** -/
theorem sw_terminates (U : Unpack Msg) (buf : Bytes) (acc : List Msg) (fuel : Nat) (h : buf.length + 1 ≤ fuel) :
    swLoop U fuel buf acc = swLoop U (buf.length + 1) buf acc :=
  sw_fuel_indep U fuel (buf.length + 1) buf acc (Nat.le_trans (swBound_le buf) h) (swBound_le buf)

/-- the guard that repair D4 added is necessary: without it (`minLen = 0`) there are a decoder and 8 bytes on which the
loop makes one more "delivery" for every unit of fuel, i.e. never terminates -/
theorem ctl_unguarded_spins (fuel : Nat) : (ctlLoop trustingU 0 fuel zeroHello 0 []).2.1.length = fuel := by
  simpa using ctl_spins_aux fuel []

/-- **sw_contained**: whatever the decoders do, no exception escapes the switch-side read path (so the I/O loop that
serves every connection of the switch process keeps running): over any chunk sequence the status is never `dead`. -/
theorem sw_contained (U : Unpack Msg) (chunks : List Bytes) : (chunks.foldl (swFeed U) init).st ≠ .dead := by
  have : ∀ (s : CS Msg), s.st ≠ .dead → (chunks.foldl (swFeed U) s).st ≠ .dead := by
    induction chunks with
    | nil => intro s h; exact h
    | cons c cs ih => intro s h; exact ih _ (swFeed_never_dead U s c h)
  exact this init (by simp [init])

/-- **contained** (both sides): feeding bytes to connection `i` — whatever they are and whatever happens to `i` — leaves
every sibling connection's buffer, delivered messages and status exactly as they were. -/
theorem siblings_untouched (feed : CS Msg → Bytes → CS Msg) (net : List (CS Msg)) (i j : Nat) (c : Bytes) (h : j ≠ i) :
    (feedAt feed net i c)[j]? = net[j]? :=
  feedAt_others feed net i j c h

/-- **no_overread** (controller): a delivered message was decoded from a window that starts at a message boundary `o`,
has exactly the declared length `n ≥ 8`, lies inside the received bytes, and the decoder consumed exactly `n`. -/
theorem ctl_no_overread (U : Unpack Msg) (s : CS Msg) (c : Bytes) (m : Msg) (hs : s.st = .alive)
    (hm : m ∈ (ctlFeed U 8 s c).delivered) :
    m ∈ s.delivered ∨ ∃ o n, o + n ≤ (s.buf ++ c).length ∧ n = declLen (s.buf ++ c) o ∧ 8 ≤ n ∧
      U (byteAt (s.buf ++ c) (o + 1)) (s.buf ++ c) o = .ok (o + n, m) := by
  unfold ctlFeed at hm
  rw [hs] at hm
  simp only [] at hm
  have := ctl_window U ((s.buf ++ c).length + 1) (s.buf ++ c) 0 s.delivered m
  generalize ctlLoop U 8 ((s.buf ++ c).length + 1) (s.buf ++ c) 0 s.delivered = r at this hm
  obtain ⟨o, d, st⟩ := r
  rcases this hm with h | ⟨o, n, -, h2, h3, h4, h5⟩
  · exact .inl h
  · exact .inr ⟨o, n, h2, h3, h4, h5⟩

/-- **no_overread** (switch) -/
theorem sw_no_overread (U : Unpack Msg) (s : CS Msg) (c : Bytes) (m : Msg) (hs : s.st = .alive)
    (hm : m ∈ (swFeed U s c).delivered) :
    m ∈ s.delivered ∨ ∃ k n, k + n ≤ (s.buf ++ c).length ∧ n = declLen ((s.buf ++ c).drop k) 0 ∧ 8 ≤ n ∧
      U (byteAt ((s.buf ++ c).drop k) 1) ((s.buf ++ c).drop k) 0 = .ok (n, m) := by
  unfold swFeed at hm
  rw [hs] at hm
  simp only [] at hm
  have := sw_window U ((s.buf ++ c).length + 1) (s.buf ++ c) s.delivered m
  generalize swLoop U ((s.buf ++ c).length + 1) (s.buf ++ c) s.delivered = r at this hm
  obtain ⟨b, d, st⟩ := r
  exact this hm

/-! non-vacuity: a stream with a bad-length message, an unknown type and a raising decoder between valid messages -/
def demoU : Unpack Nat := fun ty buf off =>
  if ty = 9 then .raise else if ty = 7 then .none else if ty = 5 then .ok (off + 4, 0)
  else .ok (off + declLen buf off, ty)
def demoStream : Bytes :=
  [1,2,0,8,0,0,0,1,  1,9,0,8,0,0,0,2,  1,7,0,8,0,0,0,3,  1,5,0,8,0,0,0,4,  1,3,0,8,0,0,0,5]
example : (swFeed demoU init demoStream).delivered = [2, 3] ∧ (swFeed demoU init demoStream).st = .alive := by decide
example : (ctlFeed demoU 8 init demoStream).delivered = [2] ∧ (ctlFeed demoU 8 init demoStream).st = .dead := by decide


/-! ## "either the bytes are answered with an error and skipped, or that one connection is closed"

`swFeedT` is `swFeed` keeping the trace of what happened to every window (`sw_trace_is_feed`).  `U` is still completely
unconstrained. -/

/-- the trace-keeping model is the model all other theorems are about, plus bookkeeping -/
theorem sw_trace_is_feed (U : Unpack Msg) (chunks : List Bytes) :
    (chunks.foldl (swFeedT U) initT).buf = (chunks.foldl (swFeed U) init).buf ∧
    delivs (chunks.foldl (swFeedT U) initT).trace = (chunks.foldl (swFeed U) init).delivered ∧
    (chunks.foldl (swFeedT U) initT).st = (chunks.foldl (swFeed U) init).st :=
  swFeedT_proj U chunks

/-- **sw_answered_or_closed**: for every byte string, however it is cut into reads and whatever the decoders do —
(1) every received byte is accounted for: the stream is the concatenation of the consumed windows in order, then what
    is still buffered, then (only after the connection was closed) the bytes that were ignored;
(2) every consumed window is a whole message (version 1, declared length ≥ 8 and equal to its size); it was either
    delivered, or skipped and ANSWERED: exactly one OFPET_BAD_REQUEST error with code BAD_TYPE (no decoder) or BAD_LEN
    (decoder raised / consumed another length), the window's own xid, and its first 64 bytes as data;
(3) no exception escapes; while the connection is up nothing was closed; and when it is closed that is the last thing
    that happened, exactly once. -/
theorem sw_answered_or_closed (U : Unpack Msg) (chunks : List Bytes) :
    let s := chunks.foldl (swFeedT U) initT
    (∃ rest, chunks.flatten = (s.trace.map SwEv.win).flatten ++ s.buf ++ rest ∧ (s.st = .alive → rest = [])) ∧
    (∀ e ∈ s.trace, (∀ w m, e = .deliver w m → WellFramed w) ∧
        (∀ w c, e = .skip w c → WellFramed w ∧ (c = 1 ∨ c = 6) ∧ e.reply = some (1, c, xidOf w, w.take 64))) ∧
    s.st ≠ .dead ∧
    (s.st = .alive → ∀ e ∈ s.trace, e ≠ .close ∧ ∀ x, e ≠ .helloFailed x) ∧
    (s.st = .closed → ∃ pre last, s.trace = pre ++ [last] ∧ (last = .close ∨ ∃ x, last = .helloFailed x) ∧
        ∀ e ∈ pre, e ≠ .close ∧ ∀ x, e ≠ .helloFailed x) := by
  intro s
  have h := accounted_run U chunks
  refine ⟨h.tiled, ?_, h.notdead, h.open_, h.shut⟩
  intro e he
  obtain ⟨h1, h2⟩ := h.framed e he
  refine ⟨h1, ?_⟩
  intro w c hw
  obtain ⟨a, b⟩ := h2 w c hw
  exact ⟨a, b, by rw [hw]; rfl⟩

/-- an error reply is sent for nothing else: only skipped windows and the HELLO_FAILED of a wrong-version peer that
had not yet delivered anything produce one -/
theorem sw_replies_only_for_skips (e : SwEv Msg) (r : Nat × Nat × Nat × Bytes) (h : e.reply = some r) :
    (∃ w c, e = .skip w c) ∨ (∃ x, e = .helloFailed x) := by
  cases e with
  | deliver w m => simp [SwEv.reply] at h
  | skip w c => exact .inl ⟨w, c, rfl⟩
  | helloFailed x => exact .inr ⟨x, rfl⟩
  | close => simp [SwEv.reply] at h

/-! non-vacuity: the stream of `demoStream` gives deliver, skip(BAD_LEN), skip(BAD_TYPE), skip(BAD_LEN), deliver; a
wrong-version message on a fresh connection is answered with HELLO_FAILED and closes -/
example : ((swFeedT demoU initT demoStream).trace.map SwEv.reply) =
    [none, some (1, 6, 2, [1,9,0,8,0,0,0,2]), some (1, 1, 3, [1,7,0,8,0,0,0,3]), some (1, 6, 4, [1,5,0,8,0,0,0,4]), none] := by decide
example : (swFeedT demoU initT [4,2,0,8,0,0,0,7]).st = .closed ∧
    ((swFeedT demoU initT [4,2,0,8,0,0,0,7]).trace.map (fun e => (SwEv.reply e).map (fun r => (r.1, r.2.1, r.2.2.1)))) = [some (0, 0, 7)] := by decide
example : ((swFeedT demoU initT ([1,2,0,8,0,0,0,1] ++ [4,2,0,8,0,0,0,7])).trace.map (fun e => (SwEv.reply e).isSome)) = [false, false] := by decide

/-- **ctl_disconnect_stops** (repair C09-2 seen from the read loop): whatever the handlers do, within one `read()`
nothing is dispatched after a message whose handler disconnected the connection — every newly delivered message except
possibly the last has a handler that left the connection up. -/
theorem ctl_disconnect_stops (U : Unpack Msg) (D : Msg → Bool) (fuel : Nat) (buf : Bytes) (off : Nat) (acc : List Msg) :
    ∃ new, (ctlLoopD U D 8 fuel false buf off acc).2.1 = acc ++ new ∧ ∀ m ∈ new.dropLast, D m = false :=
  ctlLoopD_last U D 8 fuel buf off acc

/-- …and when no handler disconnects, the loop with the `disconnected` test is exactly the loop all other theorems of
C02/C10 are about -/
theorem ctl_no_disconnect_same (U : Unpack Msg) (fuel : Nat) (buf : Bytes) (off : Nat) (acc : List Msg) :
    ctlLoopD U (fun _ => false) 8 fuel false buf off acc = ctlLoop U 8 fuel buf off acc :=
  ctlLoopD_never U 8 fuel buf off acc

example : (ctlFeedD demoU (fun m => m == 2) 8 init
    [1,2,0,8,0,0,0,1,  1,3,0,8,0,0,0,5,  1,4,0,8,0,0,0,6]).delivered = [2] := by decide

/-- **ctl_disconnect_persists**: the `disconnected` mark outlives the read in which a handler set it — a later read
that finds a whole header in the buffer throws the connection away without dispatching anything, whatever arrived. -/
theorem ctl_disconnect_persists (U : Unpack Msg) (D : Msg → Bool) (s : CS Msg) (c : Bytes)
    (hs : s.st = .alive) (hd : s.delivered.any D = true) (hlen : 8 ≤ (s.buf ++ c).length) :
    (ctlFeedD U D 8 s c).delivered = s.delivered ∧ (ctlFeedD U D 8 s c).st = .closed := by
  unfold ctlFeedD
  rw [hs]
  simp only [hd]
  rw [ctlLoopD]
  have h8 : ¬ (s.buf.length + c.length < 8) := by simp at hlen; omega
  simp [h8]
example : ([[1,2,0,8,0,0,0,1, 1], [3,0,8,0,0,0,5, 1,4,0,8,0,0,0,6]].foldl (ctlFeedD demoU (fun m => m == 2) 8) init).delivered = [2] ∧
    ([[1,2,0,8,0,0,0,1, 1], [3,0,8,0,0,0,5, 1,4,0,8,0,0,0,6]].foldl (ctlFeedD demoU (fun m => m == 2) 8) init).st = .closed := by decide

end Pox.C10
