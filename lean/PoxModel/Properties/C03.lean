import PoxModel.Proofs.Match
import PoxModel.Proofs.FlowTable
import PoxModel.Proofs.FlowTableQ
import PoxModel.Proofs.MatchSubsume
import PoxModel.Proofs.MatchSelf
import PoxModel.Proofs.MatchV
import PoxModel.Proofs.Frame
/-! # C03 — flow match and lookup semantics agree with OpenFlow 1.0

Property theorems only.  Model: `Model/Match.lean` (`ofp_match`), `Model/FlowTable.lean` (`FlowTable` and its operations, for any sort
key), `Model/FlowTableQ.lean` (its read-only calls), `Model/MatchV.lean` (the code variants); standard: `Spec/OF10Match.lean`; lemmas: `Proofs/MatchBits`, `Match`, `FlowTable`,
`Subsume`, `MatchSubsume`, `MatchSelf`, `MatchV`.

**Which variant is the code.**  `v : Variant` records which of the repairs D37 / D38 / D26 / D36 / C03-K7 a tree has.  `/repo` HEAD has all
five: it is `Variant.current` (the harness establishes that on every run by probing the real code on one witness input per repair,
prints the result in the evidence and validates it on every case).  `Variant.full` (without C03-K7), `Variant.repaired` (without D36
either) and `Variant.head` (none — the un-suffixed functions `ofWire`, `extract`, `fromPacket`, `Entry.effectivePriority`, `regular`,
`FlowOk` of `Model/Match.lean`) are superseded trees; theorems about them are kept as regression statements (a revert of a repair
makes the harness pick that variant, and the `_defect` theorems say which inputs then fail).

**The property, clause by clause, for the code as it stands** (section "the code as it stands: `Variant.current`"):

| clause of C03 | theorem |
|---|---|
| a frame matches iff every non-wildcarded field whose prerequisites are met equals the header field, IP under the prefix mask | `matches_iff_current` |
| fields extracted as the specification prescribes (VLAN, ARP, ICMP, fragments) | `extract_ok_current`, `extract_rarp_current` |
| lookup returns the matching entry of highest priority; miss only when none matches — after every history of table operations | `history_lookup_wire_current`, `lookup_spec_wire_current`, `miss_iff_wire_current`, `history_lookup_sequence_wire` |
| … also when statistics requests and other read-only calls are interleaved with the table operations | `history_lookup_wire_queries_current`, `history_queries_erase`, `query_between`, `history_sorted_queries`, `query_reports` |
| exact-match entries outrank every wildcarded one | `exact_outranks_current`, `exact_iff_current` |
| (mechanism) table sorted after every history, insertion position | `table_sorted_current`, `add_position`, `removal_sublist` |
| (used by C04) non-strict selection is subsumption | `subsumes_iff_current`, `subsumes_iff_forall` |
| a flow built from a packet matches it and is exact | `flow_from_packet_current`, `flow_from_packet_exact_current` |

What these theorems assume: complete frames (`regularG false`; `irregular_l4_witness`, `irregular_l3_witness` show what the code does
otherwise — the standard is silent there) and 16-bit priorities.  Nothing about ECN bits, ARP opcodes, wildcarded prerequisite fields.

**From bytes.**  All of the above is stated on frame descriptions `PHdr`.  `Spec/OF10Frame.lean` (`Spec.Frame.parse`) says which
description a byte sequence is per 802.3 / 802.2 / 802.1Q / RFC 791 / 793 (one tag type, 0x8100; fragment = MF or offset ≠ 0; TCP ports
whatever the options are).  `frame_complete_regular`: the description of a complete frame satisfies `regularG false`.  The `_bytes_`
theorems are the clauses instantiated at `p = ` that description — **and no more than that**: in Lean `fr` enters only through
`Spec.Frame.parse fr = some (p, true)`.  That the *code's own* path from bytes to packet objects arrives at a description for which the
model computes what the code computes is not a theorem; it is the harness's tie: the code gets the bytes, the model gets
`Spec.Frame.parse`'s description of the same bytes (the driver parses them itself), and every extracted field, match result and lookup
is compared on every case.

**Two readings of "exact match (has no wildcards)".**  `Spec.exact` is the literal one (all 22 wildcard bits zero); `Spec.exactSig`
the prerequisite-rule one (no wildcard on a field the match could compare; wildcard bits of ignored fields do not count — what the
reference switch does and what the code implements since repair D26).  `IsBestSig` / `rankSig` use the latter and are what the
`…_repaired` lookup theorems claim; `lookup_spec_wire_literal_repaired` is the literal-reading statement, valid for flows that set
no wildcard bit on an ignored field (on those flows the two readings coincide). -/
namespace Pox.C03
open Pox.OF Pox.OF.OfMatch

variable {α : Type}

/-! ## every history of table operations

Stated for every variant `v` (and both forms of the strict test of `is_matched_by`, `bothWays`); the instances for the code as it
stands follow below. -/

open TableOps in
/-- **Invariant, by induction over the operation list.**  After every sequence of `add_entry` (any priority, any match),
    `remove_entry`, `remove_matching_entries` (strict or not, any out_port filter) and `remove_expired_entries` (whatever decides
    expiry), in any order and including calls that raise, the table is sorted by descending effective priority. -/
theorem history_sorted (v : Variant) (bothWays : Bool) (ops : List (Op α)) : SortedBy v.effectivePriority (run v.effectivePriority v.mww bothWays ops) :=
  run_sorted _ _ _ ops

/-- `add_entry` never raises, whatever the sort key and the table: the binary search indexes inside the table -/
theorem add_entry_total_by (key : Entry α → Nat) (e : Entry α) (tbl : Table α) :
    addEntryBy? key e tbl = some (addEntryBy key e tbl) := addEntryBy?_eq_some key e tbl

open TableOps in
/-- one step of the induction: each operation preserves sortedness from *any* sorted table -/
theorem step_preserves_sorted (v : Variant) (bothWays : Bool) (tbl : Table α) (op : Op α) (hs : SortedBy v.effectivePriority tbl) :
    SortedBy v.effectivePriority (step v.effectivePriority v.mww bothWays tbl op).1 := step_sorted _ _ _ tbl op hs

open TableOps in
/-- where `add_entry` puts the entry: behind everything of higher effective priority, in front of everything of equal or lower —
    in particular in front of the older entries of the same priority -/
theorem add_position (v : Variant) (bothWays : Bool) (tbl : Table α) (e : Entry α) (hs : SortedBy v.effectivePriority tbl) :
    ∃ l r, tbl = l ++ r ∧ (step v.effectivePriority v.mww bothWays tbl (.add e)).1 = l ++ e :: r ∧
      (∀ x ∈ l, v.effectivePriority x > v.effectivePriority e) ∧ (∀ x ∈ r, v.effectivePriority x ≤ v.effectivePriority e) := by
  rw [step_add]; exact addEntryBy_position _ e tbl hs

open TableOps in
/-- the removing operations delete entries and change nothing else: what is left is a sub-list (same relative order), and the
    only call that raises is `remove_entry` of an object that is not in the table -/
theorem removal_sublist (v : Variant) (bothWays : Bool) (tbl : Table α) (op : Op α) (h : ∀ e, op ≠ .add e) :
    (step v.effectivePriority v.mww bothWays tbl op).1.Sublist tbl ∧
    ((step v.effectivePriority v.mww bothWays tbl op).2 = true ↔ ∃ i, op = .removeAt i ∧ tbl.length ≤ i) :=
  ⟨step_sublist _ _ _ tbl op h, step_raises_iff _ _ _ tbl op⟩

open TableOps in
/-- exact-match entries stand in front of every wildcarded one after every history (16-bit priorities) -/
theorem history_exact_first (v : Variant) (bothWays : Bool) (ops : List (Op α)) (hp : ∀ e ∈ added ops, e.priority ≤ 0xffff) (i j : Nat)
    (hi : i < (run v.effectivePriority v.mww bothWays ops).length) (hj : j < (run v.effectivePriority v.mww bothWays ops).length)
    (he : v.isWildcarded (run v.effectivePriority v.mww bothWays ops)[i].mtch = false)
    (hw : v.isWildcarded (run v.effectivePriority v.mww bothWays ops)[j].mtch = true) : i < j := by
  apply Classical.byContradiction
  intro hn
  have hne : i ≠ j := by
    rintro rfl
    rw [he] at hw; cases hw
  have hlt : j < i := by omega
  have hs := List.pairwise_iff_getElem.mp (history_sorted v bothWays ops) j i hj hi hlt
  have hpj : (run v.effectivePriority v.mww bothWays ops)[j].priority ≤ 0xffff := hp _ (mem_run _ _ _ ops _ (List.getElem_mem hj))
  simp only [Variant.effectivePriority, hw, he, if_true, EXACT_PRIORITY] at hs
  simp at hs
  omega

open TableOps in
/-- after every history, `entry_for_packet` returns an accepted entry that no accepted entry of the table outranks, and misses
    exactly when the table holds no accepted entry -/
theorem history_lookup (v : Variant) (bothWays : Bool) (ops : List (Op α)) (p : PHdr) (port : Nat) :
    (∀ e, v.entryForPacket (run v.effectivePriority v.mww bothWays ops) p port = some e →
      e ∈ run v.effectivePriority v.mww bothWays ops ∧ v.accepts (v.pktMatch p port) e = true ∧
      ∀ e' ∈ run v.effectivePriority v.mww bothWays ops, v.accepts (v.pktMatch p port) e' = true → v.effectivePriority e' ≤ v.effectivePriority e) ∧
    (v.entryForPacket (run v.effectivePriority v.mww bothWays ops) p port = none ↔
      ∀ e ∈ run v.effectivePriority v.mww bothWays ops, v.accepts (v.pktMatch p port) e = false) := by
  obtain ⟨h1, h2⟩ := first_match_max v.effectivePriority (v.accepts (v.pktMatch p port)) (run v.effectivePriority v.mww bothWays ops)
    (history_sorted v bothWays ops)
  exact ⟨fun e he => by obtain ⟨a, b, c⟩ := h1 e he; exact ⟨b, a, c⟩, h2⟩

open TableOps in
/-- **Lookup against the standard after every history.**  Whatever sequence of flow-mod-created entries (transmitted flows
    satisfying `v.FlowOk`) has been added and whatever has been removed, matched away or expired in between, for every complete frame
    `entry_for_packet` answers with a flow *currently in the table* that matches per the standard and that no matching flow
    currently in the table outranks (exact-match flows above every priority) — and with a miss exactly when none matches.
    `v.FlowOk` and `v.regular` shrink with the repairs: for `Variant.repaired` what is left is "16-bit priority, ToS without ECN
    bits" on the flows and "complete frame, ToS without ECN bits" on the frame (`history_lookup_wire_repaired`). -/
theorem history_lookup_wire (v : Variant) (bothWays : Bool) (ops : List (Op Spec.Flow)) (hadd : ∀ e ∈ added ops, e = v.toEntry e.data ∧ v.FlowOk e.data)
    (p : PHdr) (port : Nat) (hr : v.regular p = true) (hpt : v.tosDscp = false → pktTos p % 4 = 0) :
    Spec.IsBestSig ((run v.effectivePriority v.mww bothWays ops).map (·.data)) (Spec.headers p port)
      ((v.entryForPacket (run v.effectivePriority v.mww bothWays ops) p port).map (·.data)) :=
  v.lookup_isBest (run v.effectivePriority v.mww bothWays ops) (history_sorted v bothWays ops) (fun e he => hadd e (mem_run _ _ _ ops e he)) p port hr hpt

open TableOps in
/-- the same with all three repairs: no hypothesis about wildcarded prerequisite fields, about exact flows, or about ARP opcodes -/
theorem history_lookup_wire_repaired (bothWays : Bool) (ops : List (Op Spec.Flow))
    (hadd : ∀ e ∈ added ops, e = Variant.repaired.toEntry e.data ∧ e.data.priority ≤ 0xffff ∧ e.data.mtch.nwTos % 4 = 0)
    (p : PHdr) (port : Nat) (hr : regularG false p = true) (hpt : pktTos p % 4 = 0) :
    Spec.IsBestSig ((run Variant.repaired.effectivePriority Variant.repaired.mww bothWays ops).map (·.data)) (Spec.headers p port)
      ((Variant.repaired.entryForPacket (run Variant.repaired.effectivePriority Variant.repaired.mww bothWays ops) p port).map (·.data)) :=
  history_lookup_wire Variant.repaired bothWays ops
    (fun e he => ⟨(hadd e he).1, Variant.FlowOk.mk (hadd e he).2.1 (fun h => absurd h (by decide)) (fun _ => (hadd e he).2.2)
                                  (fun h => absurd h (by decide))⟩) p port hr (fun _ => hpt)

/-! ## sequences of lookups -/

open TableOps in
/-- every answer in a sequence of lookups after any history is the standard's answer for that frame -/
theorem history_lookup_sequence_wire (v : Variant) (bothWays : Bool) (ops : List (Op Spec.Flow))
    (hadd : ∀ e ∈ added ops, e = v.toEntry e.data ∧ v.FlowOk e.data) (frames : List (PHdr × Nat))
    (hf : ∀ x ∈ frames, v.regular x.1 = true ∧ (v.tosDscp = false → pktTos x.1 % 4 = 0)) (i : Nat) (hi : i < frames.length) :
    ∃ r, (v.lookupSeq (run v.effectivePriority v.mww bothWays ops) frames)[i]? = some r ∧
      Spec.IsBestSig ((run v.effectivePriority v.mww bothWays ops).map (·.data)) (Spec.headers frames[i].1 frames[i].2) (r.map (·.data)) := by
  refine ⟨v.entryForPacket (run v.effectivePriority v.mww bothWays ops) frames[i].1 frames[i].2, by simp [Variant.lookupSeq, hi], ?_⟩
  obtain ⟨h1, h2⟩ := hf frames[i] (List.getElem_mem hi)
  exact history_lookup_wire v bothWays ops hadd frames[i].1 frames[i].2 h1 h2

/-! ## histories in which calls that only read are interleaved

Flow / aggregate / table statistics (through the switch or directly `flow_stats`, `aggregate_stats`, `matching_entries`), `len`,
iteration over `entries`, printing, `check_for_overlapping_entry`, and the switch's requests that do not concern the table:
`TableOps.Query` (`Model/FlowTableQ.lean`).  In the model such a call returns the table it was given (`stepC`); the harness puts
them between any two steps of its histories and compares table and lookups after each with the model — so "reading changes
nothing" is part of the tie, and everything proved about histories of mutating calls holds for the mixed ones. -/

open TableOps in
/-- the reading calls can be struck out of a history: the table is the one the mutating calls alone produce -/
theorem history_queries_erase (v : Variant) (bothWays : Bool) (calls : List (Call α)) :
    runC v.effectivePriority v.mww bothWays calls = run v.effectivePriority v.mww bothWays (mutations calls) :=
  runC_eq _ _ _ calls

open TableOps in
/-- a reading call between any two steps of a history changes nothing that follows -/
theorem query_between (v : Variant) (bothWays : Bool) (pre post : List (Call α)) (q : Query α) :
    runC v.effectivePriority v.mww bothWays (pre ++ .query q :: post) = runC v.effectivePriority v.mww bothWays (pre ++ post) := by
  rw [history_queries_erase, history_queries_erase, mutations_append, mutations_append]; rfl

open TableOps in
/-- what a reading call reports on are entries of the table, in table order; for the statistics requests exactly the entries the
    non-strict test selects -/
theorem query_reports (v : Variant) (bothWays : Bool) (tbl : Table α) (q : Query α) :
    (answer v.mww bothWays tbl q).Sublist tbl ∧
    ∀ m portOk, q = .select m portOk → ∀ e, e ∈ answer v.mww bothWays tbl q ↔ e ∈ tbl ∧ portOk e.data = true ∧ v.mww true m e.mtch = true := by
  refine ⟨answer_sublist _ _ tbl q, ?_⟩
  rintro m portOk rfl e
  exact mem_answer_select _ _ tbl m portOk e

open TableOps in
/-- the table is sorted after every history of mutating and reading calls -/
theorem history_sorted_queries (v : Variant) (bothWays : Bool) (calls : List (Call α)) :
    SortedBy v.effectivePriority (runC v.effectivePriority v.mww bothWays calls) := by
  rw [history_queries_erase]; exact history_sorted v bothWays (mutations calls)

open TableOps in
/-- **Lookup against the standard after every history of mutating and reading calls** -/
theorem history_lookup_wire_queries (v : Variant) (bothWays : Bool) (calls : List (Call Spec.Flow))
    (hadd : ∀ e ∈ added (mutations calls), e = v.toEntry e.data ∧ v.FlowOk e.data)
    (p : PHdr) (port : Nat) (hr : v.regular p = true) (hpt : v.tosDscp = false → pktTos p % 4 = 0) :
    Spec.IsBestSig ((runC v.effectivePriority v.mww bothWays calls).map (·.data)) (Spec.headers p port)
      ((v.entryForPacket (runC v.effectivePriority v.mww bothWays calls) p port).map (·.data)) := by
  rw [history_queries_erase]; exact history_lookup_wire v bothWays (mutations calls) hadd p port hr hpt

/-! ## the variants: what each repair buys -/

/-- `matches_iff` for every variant: `PrereqExact` is needed only without repair D38, the 8-bit ARP opcode (inside `v.regular`) only
    without repair D37 -/
theorem matches_iff_v (v : Variant) (r : OfMatch) (p : PHdr) (port : Nat) (hp : v.prereqExact = false → PrereqExact r)
    (ht : r.nwTos % 4 = 0) (hr : v.regular p = true) (hpt : pktTos p % 4 = 0) :
    (v.ofWire r).matchesWith false (v.fromPacket p port) = Spec.matchHdr r (Spec.headers p port) :=
  v.wire_accepts_packet r p port hp ht hr hpt

/-- extraction is the standard's, in every variant (with repair D37: for every ARP opcode) -/
theorem extract_ok_v (v : Variant) (p : PHdr) (port : Nat) (hr : v.regular p = true) :
    ExtractOk p (v.extract true p (some port)) (Spec.headers p port) := v.extract_ok p port hr

/-- exactness of a received flow: with repair D26 the code's test *is* the standard's (prerequisite-rule reading), for every
    transmitted match; without it the two agree on flows that, when exact, carry no wildcard bit and are IPv4 TCP/UDP/ICMP -/
theorem exact_iff_v (v : Variant) (r : OfMatch)
    (hx : v.exactSig = false → Spec.exactSig r = true → Spec.exact r = true ∧ r.dlType = 0x0800 ∧ isL4Proto r.nwProto = true) :
    v.isWildcarded (v.ofWire r) = !Spec.exactSig r := v.exact_agree r hx

/-- subsumption in every variant -/
theorem subsumes_iff_v (v : Variant) (a b : OfMatch) (ha : v.prereqExact = false → PrereqExact a)
    (hb : v.prereqExact = false → PrereqExact b) (ta : a.nwTos % 4 = 0) (tb : b.nwTos % 4 = 0) (hbw : b.wildcards < 2 ^ 22) :
    (v.ofWire a).matchesWith true (v.ofWire b) = true ↔
      ∀ h : Spec.Headers, Spec.matchHdr b h = true → Spec.matchHdr a h = true := by
  rw [v.code_subsumes a b ha hb ta tb hbw]
  exact Spec.subsumes_forall a b

/-- a flow built from a packet matches it, in every variant -/
theorem flow_from_packet_matches_v (v : Variant) (sf : Bool) (p : PHdr) (ip : Option Nat) :
    (v.ofWire (packFlowMod (fromHeaders (v.extract sf p ip)))).matchesWith false (fromHeaders (v.extract sf p ip)) = true :=
  v.selfflow_accepts sf p ip

/-- `spec_frags` only matters for IP fragments -/
theorem spec_frags_irrelevant (g : Bool) (p : PHdr) (ip : Option Nat)
    (h : ∀ s d pr tos l4, p.l3 ≠ .ipv4 s d pr tos true l4) : fromPacketG g false p ip = fromPacketG g true p ip := by
  obtain ⟨src, dst, typ, llc, vlan, l3⟩ := p
  unfold fromPacketG
  congr 1
  cases l3 with
  | ipv4 s d pr tos frag l4 =>
    cases frag
    · cases llc with
      | none => simp [extractG]
      | some l => by_cases hs : l.snapOui = some 0 <;> simp [extractG, hs]
    · exact absurd rfl (h s d pr tos l4)
  | arp op s d =>
    cases llc with
    | none => simp [extractG]
    | some l => by_cases hs : l.snapOui = some 0 <;> simp [extractG, hs]
  | other =>
    cases llc with
    | none => simp [extractG]
    | some l => by_cases hs : l.snapOui = some 0 <;> simp [extractG, hs]


/-! ## the code as it stands: `Variant.current` (`/repo` HEAD — repairs D37, D38, D26, D36 and C03-K7)

The instances of the theorems above and of the `_v` theorems below (`Proofs/MatchV.lean`) at the variant the code is — the harness
establishes which variant that is on every run by probing the real code on one witness input per repair, prints it in the evidence
(`code_variant`) and validates it on every case.  No hypothesis about wildcarded prerequisite fields, about ARP opcodes, about ECN
bits or about which flows may be exact is left: the clauses hold for every transmitted match, every flow with a 16-bit priority and every
complete frame (`regularG false`). -/

/-- **Matching**: for every match received in a flow-mod and every complete frame, the code's lookup test is the standard's matching on
    the extracted 12-tuple -/
theorem matches_iff_current (r : OfMatch) (p : PHdr) (port : Nat) (hr : regularG false p = true) :
    Variant.current.mww false (Variant.current.ofWire r) (Variant.current.pktMatch p port) = Spec.matchHdr r (Spec.headers p port) :=
  Variant.current.accepts_packet r p port (fun h => absurd h (by decide)) (fun h => absurd h (by decide)) hr

/-- **Extraction**: every field `from_packet` assigns equals the standard's header field (nw_tos is the DSCP value), every field it
    leaves unassigned is zero in the standard's 12-tuple -/
theorem extract_ok_current (p : PHdr) (port : Nat) (hr : regularG false p = true) :
    ExtractOk (Variant.maskP p) (Variant.current.pktHeaders true p (some port)) (Spec.headers p port) ∧
    ∀ t, (Variant.current.pktHeaders true p (some port)).nwTos = some t → t % 4 = 0 := by
  have hg : Variant.current.guardP p = p := Variant.guardP_regular _ _ p hr
  have he : Variant.current.pktHeaders true p (some port) = Variant.current.extract true (Variant.maskP p) (some port) := by
    rw [Variant.pktHeaders_eq _ rfl, hg]; exact (Variant.extractG_maskP _ _ _ _).symm
  constructor
  · rw [he, ← Variant.headers_maskP p port]
    exact Variant.current.extract_ok (Variant.maskP p) port (by unfold Variant.regular; rw [Variant.regularG_maskP]; exact hr)
  · intro t ht
    rw [Variant.pktHeaders_eq _ rfl] at ht
    simp only [Variant.maskO, Option.map_eq_some_iff] at ht
    obtain ⟨a, _, rfl⟩ := ht
    exact Variant.dscpOf_mod a

/-- **Exactness**: a received flow is exact-match for the switch exactly when it is exact under the prerequisite rule -/
theorem exact_iff_current (r : OfMatch) : Variant.current.isWildcarded (Variant.current.ofWire r) = !Spec.exactSig r :=
  Variant.current.exact_agree r (fun h => absurd h (by decide))

open TableOps in
/-- the table is sorted by effective priority after every history -/
theorem table_sorted_current (ops : List (Op α)) :
    SortedBy Variant.current.effectivePriority (run Variant.current.effectivePriority Variant.current.mww true ops) :=
  history_sorted Variant.current true ops

open TableOps in
/-- exact-match entries stand before every wildcarded one after every history (16-bit priorities) -/
theorem exact_outranks_current (ops : List (Op α)) (hp : ∀ e ∈ added ops, e.priority ≤ 0xffff) (i j : Nat)
    (hi : i < (run Variant.current.effectivePriority Variant.current.mww true ops).length) (hj : j < (run Variant.current.effectivePriority Variant.current.mww true ops).length)
    (he : Variant.current.isWildcarded (run Variant.current.effectivePriority Variant.current.mww true ops)[i].mtch = false)
    (hw : Variant.current.isWildcarded (run Variant.current.effectivePriority Variant.current.mww true ops)[j].mtch = true) : i < j :=
  history_exact_first Variant.current true ops hp i j hi hj he hw

/-- what a transmitted flow must satisfy: a 16-bit priority -/
theorem flowOk_current (f : Spec.Flow) (hp : f.priority ≤ 0xffff) : Variant.current.FlowOk f :=
  ⟨hp, fun h => absurd h (by decide), fun h => absurd h (by decide), fun h => absurd h (by decide)⟩

/-- **Lookup**, table built from a list of flow-mods: the answer is a flow that matches per the standard and that no matching flow
    outranks (exact flows — prerequisite-rule reading — above every priority); a miss exactly when none matches -/
theorem lookup_spec_wire_current (fs : List Spec.Flow) (hfs : ∀ f ∈ fs, f.priority ≤ 0xffff)
    (p : PHdr) (port : Nat) (hr : regularG false p = true) :
    Spec.IsBestSig fs (Spec.headers p port) ((Variant.current.entryForPacket (Variant.current.install fs) p port).map (·.data)) :=
  Variant.current.install_isBest fs (fun f hf => flowOk_current f (hfs f hf)) p port hr (fun h => absurd h (by decide))

/-- the same under the **literal** reading of "exact match" (`Spec.exact`), for flows that set no wildcard bit on an ignored field -/
theorem lookup_spec_wire_literal_current (fs : List Spec.Flow) (hfs : ∀ f ∈ fs, f.priority ≤ 0xffff)
    (hx : ∀ f ∈ fs, Spec.exactSig f.mtch = Spec.exact f.mtch) (p : PHdr) (port : Nat) (hr : regularG false p = true) :
    Spec.IsBest fs (Spec.headers p port) ((Variant.current.entryForPacket (Variant.current.install fs) p port).map (·.data)) :=
  isBest_of_isBestSig fs _ _ hx (lookup_spec_wire_current fs hfs p port hr)

/-- a miss ⇔ no installed flow matches the frame per the standard -/
theorem miss_iff_wire_current (fs : List Spec.Flow) (hfs : ∀ f ∈ fs, f.priority ≤ 0xffff)
    (p : PHdr) (port : Nat) (hr : regularG false p = true) :
    Variant.current.entryForPacket (Variant.current.install fs) p port = none ↔
      ∀ f ∈ fs, Spec.matchHdr f.mtch (Spec.headers p port) = false := by
  have h := lookup_spec_wire_current fs hfs p port hr
  constructor
  · intro hn; rw [hn] at h; exact h
  · intro hall
    cases hq : Variant.current.entryForPacket (Variant.current.install fs) p port with
    | none => rfl
    | some e =>
      rw [hq] at h
      have := hall _ h.1
      rw [h.2.1] at this; cases this

open TableOps in
/-- **Lookup after every history** of table operations -/
theorem history_lookup_wire_current (bothWays : Bool) (ops : List (Op Spec.Flow))
    (hadd : ∀ e ∈ added ops, e = Variant.current.toEntry e.data ∧ e.data.priority ≤ 0xffff)
    (p : PHdr) (port : Nat) (hr : regularG false p = true) :
    Spec.IsBestSig ((run Variant.current.effectivePriority Variant.current.mww bothWays ops).map (·.data)) (Spec.headers p port)
      ((Variant.current.entryForPacket (run Variant.current.effectivePriority Variant.current.mww bothWays ops) p port).map (·.data)) :=
  history_lookup_wire Variant.current bothWays ops (fun e he => ⟨(hadd e he).1, flowOk_current _ (hadd e he).2⟩) p port hr
    (fun h => absurd h (by decide))

open TableOps in
/-- **Lookup after every history in which statistics requests and other reading calls are interleaved** with the table operations -/
theorem history_lookup_wire_queries_current (bothWays : Bool) (calls : List (Call Spec.Flow))
    (hadd : ∀ e ∈ added (mutations calls), e = Variant.current.toEntry e.data ∧ e.data.priority ≤ 0xffff)
    (p : PHdr) (port : Nat) (hr : regularG false p = true) :
    Spec.IsBestSig ((runC Variant.current.effectivePriority Variant.current.mww bothWays calls).map (·.data)) (Spec.headers p port)
      ((Variant.current.entryForPacket (runC Variant.current.effectivePriority Variant.current.mww bothWays calls) p port).map (·.data)) :=
  history_lookup_wire_queries Variant.current bothWays calls (fun e he => ⟨(hadd e he).1, flowOk_current _ (hadd e he).2⟩) p port hr
    (fun h => absurd h (by decide))

/-- **Subsumption**: `a.matches_with_wildcards(b)` on two received flows is the standard's subsumption -/
theorem subsumes_iff_current (a b : OfMatch) (hbw : b.wildcards < 2 ^ 22) :
    Variant.current.mww true (Variant.current.ofWire a) (Variant.current.ofWire b) = true ↔
      ∀ h : Spec.Headers, Spec.matchHdr b h = true → Spec.matchHdr a h = true := by
  rw [Variant.current.subsumes_code a b (fun h => absurd h (by decide)) (fun h => absurd h (by decide)) (fun h => absurd h (by decide)) hbw]
  exact Spec.subsumes_forall a b

/-- a flow built by `from_packet` / `pack(flow_mod=True)` from any frame description — regular or not — matches that frame on the switch -/
theorem flow_from_packet_current (sf : Bool) (p : PHdr) (ip : Option Nat) :
    Variant.current.mww false (Variant.current.ofWire (packFlowMod (fromHeaders (Variant.current.pktHeaders sf p ip))))
      (fromHeaders (Variant.current.pktHeaders sf p ip)) = true := Variant.current.selfflow_mww sf p ip

/-- … and, built from a complete frame arriving on a port, it is exact-match for the switch -/
theorem flow_from_packet_exact_current (p : PHdr) (port : Nat) (hr : regularG false p = true) :
    Variant.current.isWildcarded (Variant.current.ofWire (packFlowMod (Variant.current.pktMatch p port))) = false :=
  Variant.current.selfflow_exact_pkt rfl p port hr

/-! ## a superseded tree: `Variant.repaired` (repairs D37, D38, D26; D36 and C03-K7 still open)

Not `/repo` HEAD any more (D36 landed as fe3a4cf, C03-K7 as 69b444a); kept because a revert of those commits makes the harness select
this variant again, and these are then the statements that hold: the ToS hypotheses (`% 4 = 0`) are what D36 removed. -/

/-- **Matching.**  For every match received in a flow-mod and every complete frame, the code's lookup test is the standard's
    matching on the extracted 12-tuple (ToS values without ECN bits: D36). -/
theorem matches_iff_repaired (r : OfMatch) (p : PHdr) (port : Nat) (ht : r.nwTos % 4 = 0)
    (hr : regularG false p = true) (hpt : pktTos p % 4 = 0) :
    (Variant.repaired.ofWire r).matchesWith false (Variant.repaired.fromPacket p port) = Spec.matchHdr r (Spec.headers p port) :=
  Variant.repaired.wire_accepts_packet r p port (fun h => absurd h (by decide)) ht hr hpt

/-- **Extraction** is the standard's (Figure 4 / Table 3) for every complete frame, whatever the ARP opcode. -/
theorem extract_ok_repaired (p : PHdr) (port : Nat) (hr : regularG false p = true) :
    ExtractOk p (Variant.repaired.extract true p (some port)) (Spec.headers p port) := Variant.repaired.extract_ok p port hr

/-- **Exactness.**  A received flow is exact-match for the switch exactly when it is exact under the prerequisite rule —
    for every transmitted match. -/
theorem exact_iff_repaired (r : OfMatch) : Variant.repaired.isWildcarded (Variant.repaired.ofWire r) = !Spec.exactSig r :=
  Variant.repaired.exact_agree r (fun h => absurd h (by decide))

open TableOps in
/-- the table is sorted by the code's effective priority after every history of table operations -/
theorem table_sorted_repaired (ops : List (Op α)) :
    SortedBy Variant.repaired.effectivePriority (run Variant.repaired.effectivePriority Variant.repaired.mww true ops) :=
  history_sorted Variant.repaired true ops

open TableOps in
/-- exact-match entries stand before every wildcarded one after every history (16-bit priorities) -/
theorem exact_outranks_repaired (ops : List (Op α)) (hp : ∀ e ∈ added ops, e.priority ≤ 0xffff) (i j : Nat)
    (hi : i < (run Variant.repaired.effectivePriority Variant.repaired.mww true ops).length) (hj : j < (run Variant.repaired.effectivePriority Variant.repaired.mww true ops).length)
    (he : Variant.repaired.isWildcarded (run Variant.repaired.effectivePriority Variant.repaired.mww true ops)[i].mtch = false)
    (hw : Variant.repaired.isWildcarded (run Variant.repaired.effectivePriority Variant.repaired.mww true ops)[j].mtch = true) : i < j :=
  history_exact_first Variant.repaired true ops hp i j hi hj he hw

/-- what a transmitted flow must satisfy for the theorems below: 16-bit priority, ToS without ECN bits — nothing else -/
theorem flowOk_repaired (f : Spec.Flow) (hp : f.priority ≤ 0xffff) (ht : f.mtch.nwTos % 4 = 0) : Variant.repaired.FlowOk f :=
  ⟨hp, fun h => absurd h (by decide), fun _ => ht, fun h => absurd h (by decide)⟩

/-- **Lookup**, table built from a list of flow-mods: the answer is a flow that matches per the standard and that no matching
    flow outranks (exact flows — prerequisite-rule reading — above every priority); a miss exactly when none matches. -/
theorem lookup_spec_wire_repaired (fs : List Spec.Flow) (hfs : ∀ f ∈ fs, f.priority ≤ 0xffff ∧ f.mtch.nwTos % 4 = 0)
    (p : PHdr) (port : Nat) (hr : regularG false p = true) (hpt : pktTos p % 4 = 0) :
    Spec.IsBestSig fs (Spec.headers p port)
      ((Variant.repaired.entryForPacket (Variant.repaired.install fs) p port).map (·.data)) :=
  Variant.repaired.install_isBest fs (fun f hf => flowOk_repaired f (hfs f hf).1 (hfs f hf).2) p port hr (fun _ => hpt)

/-- the same under the **literal** reading of "exact match" (`Spec.exact`: all 22 wildcard bits zero), for flows that set no wildcard
    bit on a field the prerequisite rule ignores (then the two readings agree) -/
theorem lookup_spec_wire_literal_repaired (fs : List Spec.Flow) (hfs : ∀ f ∈ fs, f.priority ≤ 0xffff ∧ f.mtch.nwTos % 4 = 0)
    (hx : ∀ f ∈ fs, Spec.exactSig f.mtch = Spec.exact f.mtch)
    (p : PHdr) (port : Nat) (hr : regularG false p = true) (hpt : pktTos p % 4 = 0) :
    Spec.IsBest fs (Spec.headers p port)
      ((Variant.repaired.entryForPacket (Variant.repaired.install fs) p port).map (·.data)) :=
  isBest_of_isBestSig fs _ _ hx (lookup_spec_wire_repaired fs hfs p port hr hpt)

/-- a miss ⇔ no installed flow matches the frame per the standard -/
theorem miss_iff_wire_repaired (fs : List Spec.Flow) (hfs : ∀ f ∈ fs, f.priority ≤ 0xffff ∧ f.mtch.nwTos % 4 = 0)
    (p : PHdr) (port : Nat) (hr : regularG false p = true) (hpt : pktTos p % 4 = 0) :
    Variant.repaired.entryForPacket (Variant.repaired.install fs) p port = none ↔
      ∀ f ∈ fs, Spec.matchHdr f.mtch (Spec.headers p port) = false := by
  have h := lookup_spec_wire_repaired fs hfs p port hr hpt
  constructor
  · intro hn; rw [hn] at h; exact h
  · intro hall
    cases hq : Variant.repaired.entryForPacket (Variant.repaired.install fs) p port with
    | none => rfl
    | some e =>
      rw [hq] at h
      have := hall _ h.1
      rw [h.2.1] at this; cases this

/-- `a.matches_with_wildcards(b)` on two received flows is the standard's subsumption -/
theorem subsumes_iff_repaired (a b : OfMatch) (ta : a.nwTos % 4 = 0) (tb : b.nwTos % 4 = 0) (hbw : b.wildcards < 2 ^ 22) :
    (Variant.repaired.ofWire a).matchesWith true (Variant.repaired.ofWire b) = true ↔
      ∀ h : Spec.Headers, Spec.matchHdr b h = true → Spec.matchHdr a h = true := by
  rw [Variant.repaired.code_subsumes a b (fun h => absurd h (by decide)) (fun h => absurd h (by decide)) ta tb hbw]
  exact Spec.subsumes_forall a b

/-- a flow built by `from_packet` / `pack(flow_mod=True)` from any frame matches that frame on the switch -/
theorem flow_from_packet_matches_repaired (sf : Bool) (p : PHdr) (ip : Option Nat) :
    (Variant.repaired.ofWire (packFlowMod (fromHeaders (Variant.repaired.extract sf p ip)))).matchesWith false
      (fromHeaders (Variant.repaired.extract sf p ip)) = true := Variant.repaired.selfflow_accepts sf p ip

/-- … and, built from a complete frame arriving on a port — any such frame, ARP and non-IP included —, it is exact-match for the
    switch: it gets the priority above all 16-bit priorities -/
theorem flow_from_packet_exact_repaired (p : PHdr) (port priority : Nat) (hr : regularG false p = true) :
    Variant.repaired.isWildcarded (Variant.repaired.ofWire (packFlowMod (Variant.repaired.fromPacket p port))) = false ∧
    Variant.repaired.effectivePriority
      ({ priority := priority, mtch := Variant.repaired.ofWire (packFlowMod (Variant.repaired.fromPacket p port)), data := () } : Entry Unit)
      = EXACT_PRIORITY := by
  have h := Variant.repaired.selfflow_exact rfl p port hr
  exact ⟨h, by simp [Variant.effectivePriority, h]⟩

/-! ## a superseded tree: `Variant.full` (repairs D37, D38, D26, D36; C03-K7 still open)

`/repo` between fe3a4cf and 69b444a.  On complete frames it behaves as `Variant.current` does (`current_eq_full_regular`: the guard of
C03-K7 changes nothing there); it differs on the packet library's description of a RARP frame (`extract_rarp_defect`). -/

/-- **Matching**, no hypothesis on the match at all -/
theorem matches_iff_full (r : OfMatch) (p : PHdr) (port : Nat) (hr : regularG false p = true) :
    Variant.full.mww false (Variant.full.ofWire r) (Variant.full.pktMatch p port) = Spec.matchHdr r (Spec.headers p port) :=
  Variant.full.accepts_packet r p port (fun h => absurd h (by decide)) (fun h => absurd h (by decide)) hr

/-- **Extraction**: every field `from_packet` assigns *equals* the standard's header field — nw_tos too, now that it is the DSCP value -/
theorem extract_ok_full (p : PHdr) (port : Nat) (hr : regularG false p = true) :
    ExtractOk (Variant.maskP p) (Variant.full.pktHeaders true p (some port)) (Spec.headers p port) ∧
    ∀ t, (Variant.full.pktHeaders true p (some port)).nwTos = some t → t % 4 = 0 := by
  have he : Variant.full.pktHeaders true p (some port) = Variant.full.extract true (Variant.maskP p) (some port) := by
    rw [Variant.pktHeaders_eq _ rfl]; exact (Variant.extractG_maskP _ _ _ _).symm
  constructor
  · rw [he, ← Variant.headers_maskP p port]
    exact Variant.full.extract_ok (Variant.maskP p) port (by unfold Variant.regular; rw [Variant.regularG_maskP]; exact hr)
  · intro t ht
    rw [Variant.pktHeaders_eq _ rfl] at ht
    simp only [Variant.maskO, Option.map_eq_some_iff] at ht
    obtain ⟨a, _, rfl⟩ := ht
    exact Variant.dscpOf_mod a

/-- what a transmitted flow must satisfy: a 16-bit priority -/
theorem flowOk_full (f : Spec.Flow) (hp : f.priority ≤ 0xffff) : Variant.full.FlowOk f :=
  ⟨hp, fun h => absurd h (by decide), fun h => absurd h (by decide), fun h => absurd h (by decide)⟩

/-- **Lookup**, table built from a list of flow-mods -/
theorem lookup_spec_wire_full (fs : List Spec.Flow) (hfs : ∀ f ∈ fs, f.priority ≤ 0xffff)
    (p : PHdr) (port : Nat) (hr : regularG false p = true) :
    Spec.IsBestSig fs (Spec.headers p port) ((Variant.full.entryForPacket (Variant.full.install fs) p port).map (·.data)) :=
  Variant.full.install_isBest fs (fun f hf => flowOk_full f (hfs f hf)) p port hr (fun h => absurd h (by decide))

open TableOps in
/-- **Lookup after every history** of table operations -/
theorem history_lookup_wire_full (bothWays : Bool) (ops : List (Op Spec.Flow))
    (hadd : ∀ e ∈ added ops, e = Variant.full.toEntry e.data ∧ e.data.priority ≤ 0xffff)
    (p : PHdr) (port : Nat) (hr : regularG false p = true) :
    Spec.IsBestSig ((run Variant.full.effectivePriority Variant.full.mww bothWays ops).map (·.data)) (Spec.headers p port)
      ((Variant.full.entryForPacket (run Variant.full.effectivePriority Variant.full.mww bothWays ops) p port).map (·.data)) :=
  history_lookup_wire Variant.full bothWays ops (fun e he => ⟨(hadd e he).1, flowOk_full _ (hadd e he).2⟩) p port hr
    (fun h => absurd h (by decide))

/-- **Subsumption** -/
theorem subsumes_iff_full (a b : OfMatch) (hbw : b.wildcards < 2 ^ 22) :
    Variant.full.mww true (Variant.full.ofWire a) (Variant.full.ofWire b) = true ↔
      ∀ h : Spec.Headers, Spec.matchHdr b h = true → Spec.matchHdr a h = true := by
  rw [Variant.full.subsumes_code a b (fun h => absurd h (by decide)) (fun h => absurd h (by decide)) (fun h => absurd h (by decide)) hbw]
  exact Spec.subsumes_forall a b

/-- a flow built from a packet matches it and — for a complete frame arriving on a port — is exact -/
theorem flow_from_packet_full (sf : Bool) (p : PHdr) (ip : Option Nat) :
    Variant.full.mww false (Variant.full.ofWire (packFlowMod (fromHeaders (Variant.full.pktHeaders sf p ip))))
      (fromHeaders (Variant.full.pktHeaders sf p ip)) = true := Variant.full.selfflow_mww sf p ip

theorem flow_from_packet_exact_full (p : PHdr) (port : Nat) (hr : regularG false p = true) :
    Variant.full.isWildcarded (Variant.full.ofWire (packFlowMod (Variant.full.pktMatch p port))) = false :=
  Variant.full.selfflow_exact_pkt rfl p port hr

/-! ## from the bytes of a frame

`Spec.Frame.parse` is the standard-side reading of a byte sequence (Ethernet II / 802.2 SNAP, the one 802.1Q tag type 0x8100, IPv4 with
its flag bits and IHL, ARP, TCP — ports whatever the option area holds — / UDP / ICMP).  A complete frame's description is regular
(`frame_complete_regular`), so the clauses above can be instantiated at it.

**What the `_bytes_` theorems say and what they do not.**  They are the extraction / matching / lookup clauses at `p :=` the description
`Spec.Frame.parse` gives for `fr`; `fr` occurs in them only through the hypothesis `Spec.Frame.parse fr = some (p, true)`, which
discharges `regularG false p`.  They do *not* say that the code, given the bytes `fr`, behaves like the model given `p`: the code's own
path from bytes to packet objects (`pox.lib.packet`) is not modelled here.  That link is made by the harness on every case — the real
code receives the bytes, the driver parses the same bytes with `Spec.Frame.parse` and gives the model that description, and extracted
fields, match results and lookups of the two are compared (and both are held to `Spec.headers` of that description). -/

/-- complete frames meet the side condition of the extraction / lookup theorems -/
theorem frame_complete_regular (fr : List Nat) (p : PHdr) (h : Spec.Frame.parse fr = some (p, true)) : regularG false p = true :=
  Spec.Frame.parse_regular fr p h

/-- on complete frames the guard of C03-K7 changes nothing: `Variant.current` extracts what `Variant.full` extracts -/
theorem current_eq_full_regular (sf : Bool) (p : PHdr) (ip : Option Nat) (hr : regularG false p = true) :
    Variant.current.pktHeaders sf p ip = Variant.full.pktHeaders sf p ip := by
  rw [Variant.pktHeaders_eq _ rfl, Variant.pktHeaders_eq _ rfl, Variant.guardP_regular _ _ p hr, Variant.guardP_off _ rfl]
  rfl

/-- **Extraction** at the description of a complete frame — `/repo` HEAD (`extract_ok_current` at `p`; see the section note) -/
theorem extract_ok_bytes_current (fr : List Nat) (p : PHdr) (port : Nat) (h : Spec.Frame.parse fr = some (p, true)) :
    ExtractOk (Variant.maskP p) (Variant.current.pktHeaders true p (some port)) (Spec.headers p port) ∧
    ∀ t, (Variant.current.pktHeaders true p (some port)).nwTos = some t → t % 4 = 0 :=
  extract_ok_current p port (frame_complete_regular fr p h)

/-- **Matching** at the description of a complete frame — `/repo` HEAD -/
theorem matches_iff_bytes_current (r : OfMatch) (fr : List Nat) (p : PHdr) (port : Nat) (h : Spec.Frame.parse fr = some (p, true)) :
    Variant.current.mww false (Variant.current.ofWire r) (Variant.current.pktMatch p port) = Spec.matchHdr r (Spec.headers p port) :=
  matches_iff_current r p port (frame_complete_regular fr p h)

/-- **Lookup** at the description of a complete frame — `/repo` HEAD -/
theorem lookup_spec_bytes_current (fs : List Spec.Flow) (hfs : ∀ f ∈ fs, f.priority ≤ 0xffff)
    (fr : List Nat) (p : PHdr) (port : Nat) (h : Spec.Frame.parse fr = some (p, true)) :
    Spec.IsBestSig fs (Spec.headers p port) ((Variant.current.entryForPacket (Variant.current.install fs) p port).map (·.data)) :=
  lookup_spec_wire_current fs hfs p port (frame_complete_regular fr p h)

/-- extraction at the description of a complete frame — superseded tree `Variant.full` -/
theorem extract_ok_bytes_full (fr : List Nat) (p : PHdr) (port : Nat) (h : Spec.Frame.parse fr = some (p, true)) :
    ExtractOk (Variant.maskP p) (Variant.full.pktHeaders true p (some port)) (Spec.headers p port) ∧
    ∀ t, (Variant.full.pktHeaders true p (some port)).nwTos = some t → t % 4 = 0 :=
  extract_ok_full p port (frame_complete_regular fr p h)

/-- matching at the description of a complete frame — superseded tree `Variant.full` -/
theorem matches_iff_bytes_full (r : OfMatch) (fr : List Nat) (p : PHdr) (port : Nat) (h : Spec.Frame.parse fr = some (p, true)) :
    Variant.full.mww false (Variant.full.ofWire r) (Variant.full.pktMatch p port) = Spec.matchHdr r (Spec.headers p port) :=
  matches_iff_full r p port (frame_complete_regular fr p h)

/-- lookup at the description of a complete frame — superseded tree `Variant.full` -/
theorem lookup_spec_bytes_full (fs : List Spec.Flow) (hfs : ∀ f ∈ fs, f.priority ≤ 0xffff)
    (fr : List Nat) (p : PHdr) (port : Nat) (h : Spec.Frame.parse fr = some (p, true)) :
    Spec.IsBestSig fs (Spec.headers p port) ((Variant.full.entryForPacket (Variant.full.install fs) p port).map (·.data)) :=
  lookup_spec_wire_full fs hfs p port (frame_complete_regular fr p h)

/-- extraction at the description of a complete frame — superseded tree `Variant.repaired` (ToS still the full byte) -/
theorem extract_ok_bytes_repaired (fr : List Nat) (p : PHdr) (port : Nat) (h : Spec.Frame.parse fr = some (p, true)) :
    ExtractOk p (Variant.repaired.extract true p (some port)) (Spec.headers p port) :=
  extract_ok_repaired p port (frame_complete_regular fr p h)

/-- lookup at the description of a complete frame — superseded tree `Variant.repaired` -/
theorem lookup_spec_bytes_repaired (fs : List Spec.Flow) (hfs : ∀ f ∈ fs, f.priority ≤ 0xffff ∧ f.mtch.nwTos % 4 = 0)
    (fr : List Nat) (p : PHdr) (port : Nat) (h : Spec.Frame.parse fr = some (p, true)) (hpt : pktTos p % 4 = 0) :
    Spec.IsBestSig fs (Spec.headers p port)
      ((Variant.repaired.entryForPacket (Variant.repaired.install fs) p port).map (·.data)) :=
  lookup_spec_wire_repaired fs hfs p port (frame_complete_regular fr p h) hpt

/-- Ethernet header (dst 02:…:02, src 02:…:01) with type `t`, then `rest` -/
def ethBytes (t : Nat) (rest : List Nat) : List Nat := [2, 0, 0, 0, 0, 2, 2, 0, 0, 0, 0, 1, t / 256, t % 256] ++ rest
/-- IPv4 header (IHL 5, total length 28) with flag/offset word `fw`, protocol UDP, 10.1.1.1 → 10.2.2.2, then a UDP header 1000 → 80 -/
def ipUdpBytes (fw : Nat) : List Nat :=
  [0x45, 0, 0, 28, 0, 0, fw / 256, fw % 256, 64, 17, 0, 0, 10, 1, 1, 1, 10, 2, 2, 2, 0x03, 0xe8, 0, 80, 0, 8, 0, 0]

/-- what the bytes say, on the inputs a library is most easily wrong about: only 0x8100 is a tag (a 0x9100 / 0x88a8 frame is untagged,
    its dl_type that value); only MF / a non-zero offset make a fragment (reserved bit 0x8000 and DF 0x4000 do not) -/
example : (Spec.Frame.parse (ethBytes 0x8100 ([0x60, 5, 8, 0] ++ ipUdpBytes 0))).map (fun r => (r.1.vlan, (Spec.headers r.1 1).dlType, (Spec.headers r.1 1).tpDst, r.2))
    = some (some { id := 5, pcp := 3, ethType := 0x0800 }, 0x0800, 80, true) := by decide
example : (Spec.Frame.parse (ethBytes 0x9100 ([0x60, 5, 8, 0] ++ ipUdpBytes 0))).map (fun r => (r.1.vlan, (Spec.headers r.1 1).dlVlan, (Spec.headers r.1 1).dlType, (Spec.headers r.1 1).nwSrc, r.2))
    = some (none, 0xffff, 0x9100, 0, true) := by decide
example : (Spec.Frame.parse (ethBytes 0x88a8 ([0x60, 5, 8, 0] ++ ipUdpBytes 0))).map (fun r => (r.1.vlan, (Spec.headers r.1 1).dlType, r.2))
    = some (none, 0x88a8, true) := by decide
example : (Spec.Frame.parse (ethBytes 0x0800 (ipUdpBytes 0x8000))).map (fun r => ((Spec.headers r.1 1).tpSrc, (Spec.headers r.1 1).tpDst, r.2)) = some (1000, 80, true) := by decide
example : (Spec.Frame.parse (ethBytes 0x0800 (ipUdpBytes 0xc000))).map (fun r => ((Spec.headers r.1 1).tpSrc, (Spec.headers r.1 1).tpDst, r.2)) = some (1000, 80, true) := by decide
example : (Spec.Frame.parse (ethBytes 0x0800 (ipUdpBytes 0x2000))).map (fun r => ((Spec.headers r.1 1).tpSrc, (Spec.headers r.1 1).tpDst, r.2)) = some (0, 0, true) := by decide
example : (Spec.Frame.parse (ethBytes 0x0800 (ipUdpBytes 0x8001))).map (fun r => ((Spec.headers r.1 1).tpSrc, (Spec.headers r.1 1).nwProto, r.2)) = some (0, 17, true) := by decide
example : (Spec.Frame.parse (ethBytes 0x0800 ((ipUdpBytes 0).take 24))).map (·.2) = some false := by decide

/-- IPv4 (IHL 5, DF) + TCP 4000 → 80 with data offset 6: the four octets `opts` are the option area -/
def ipTcpBytes (opts : List Nat) : List Nat :=
  [0x45, 0, 0, 44, 0, 0, 0x40, 0, 64, 6, 0, 0, 10, 1, 1, 1, 10, 2, 2, 2,
   0x0f, 0xa0, 0, 80, 0, 0, 0, 1, 0, 0, 0, 0, 0x60, 0x02, 0, 1, 0, 0, 0, 0] ++ opts
/-- the TCP ports are the header's first four octets whatever the option area holds: an MSS option, an option of length 0, one that
    runs past the header, an unknown kind — complete frames all, tp_src 4000, tp_dst 80 -/
example : ∀ opts ∈ [[2, 4, 5, 0xb4], [2, 0, 5, 0xb4], [2, 40, 5, 0xb4], [0xfd, 4, 1, 2], [1, 1, 1, 2]],
    (Spec.Frame.parse (ethBytes 0x0800 (ipTcpBytes opts))).map (fun r => ((Spec.headers r.1 1).tpSrc, (Spec.headers r.1 1).tpDst, r.2)) = some (4000, 80, true) := by decide

/-! ## subsumption (used by the non-strict MODIFY / DELETE of C04) -/

/-- The standard's field-wise subsumption test is subsumption: `a` matches every 12-tuple `b` matches.  (About the Spec alone;
    `h` ranges over all 12-tuples, as in the standard, not only over those a frame can produce.) -/
theorem subsumes_iff_forall (a b : OfMatch) :
    Spec.subsumes a b = true ↔ ∀ h : Spec.Headers, Spec.matchHdr b h = true → Spec.matchHdr a h = true :=
  Spec.subsumes_forall a b


/-! ## witnesses: hypotheses are satisfiable, and what happens outside them -/

/-- 10.1.1.1:1000 → 10.2.2.2:80 TCP, untagged, from 00:…:01 to 00:…:02 -/
def tcpFrame : PHdr :=
  { src := 1, dst := 2, typ := 0x0800, llc := none, vlan := none,
    l3 := .ipv4 0x0a010101 0x0a020202 6 0 false (.ports 1000 80) }
/-- the same with ECT(0) in the ToS byte -/
def tcpFrameEcn : PHdr := { tcpFrame with l3 := .ipv4 0x0a010101 0x0a020202 6 2 false (.ports 1000 80) }
/-- ARP request 10.0.0.1 → 10.0.0.2 -/
def arpFrame (opcode : Nat) : PHdr :=
  { src := 1, dst := 2, typ := 0x0806, llc := none, vlan := none, l3 := .arp opcode 0x0a000001 0x0a000002 }
/-- 802.3 + LLC/SNAP (OUI 0) + IPv4 -/
def snapFrame : PHdr := { tcpFrame with typ := 50, llc := some { snapOui := some 0, ethType := 0x0800 } }

/-- wildcard word with every flag set except those listed, and the two prefix counters -/
def wc (clear : List Fld) (src dst : Nat) : Nat :=
  (Fld.all.filter (fun f => !clear.contains f)).foldl (fun w f => w ||| f.mask) 0 ||| src <<< 8 ||| dst <<< 14

def zeroMatch : OfMatch :=
  { wildcards := 0, inPort := 0, dlSrc := 0, dlDst := 0, dlVlan := 0, dlVlanPcp := 0, dlType := 0, nwTos := 0, nwProto := 0,
    nwSrc := 0, nwDst := 0, tpSrc := 0, tpDst := 0 }

/-- `dl_type = 0x0800, nw_src = 10.9.9.9/8` (host bits under the mask: the input class of D29) -/
def srcPrefix8 : OfMatch := { zeroMatch with wildcards := wc [.dlType] 24 32, dlType := 0x0800, nwSrc := 0x0a090909 }
/-- the exact-match flow of `tcpFrame` arriving on port 1 -/
def tcpExact : OfMatch :=
  { wildcards := 0, inPort := 1, dlSrc := 1, dlDst := 2, dlVlan := 0xffff, dlVlanPcp := 0, dlType := 0x0800, nwTos := 0,
    nwProto := 6, nwSrc := 0x0a010101, nwDst := 0x0a020202, tpSrc := 1000, tpDst := 80 }
/-- the exact-match flow of `arpFrame 1` arriving on port 1 -/
def arpExact : OfMatch :=
  { wildcards := 0, inPort := 1, dlSrc := 1, dlDst := 2, dlVlan := 0xffff, dlVlanPcp := 0, dlType := 0x0806, nwTos := 0,
    nwProto := 1, nwSrc := 0x0a000001, nwDst := 0x0a000002, tpSrc := 0, tpDst := 0 }
def inPort1 : OfMatch := { zeroMatch with wildcards := wc [.inPort] 32 32, inPort := 1 }

-- the hypotheses of `matches_iff` / `extract_ok` hold for non-trivial inputs, with both outcomes
example : PrereqExact srcPrefix8 ∧ srcPrefix8.nwTos % 4 = 0 ∧ regular tcpFrame = true ∧ pktTos tcpFrame % 4 = 0 :=
  ⟨⟨by decide, by decide⟩, by decide, by decide, by decide⟩
example : (ofWire srcPrefix8).matchesWith false (fromPacket tcpFrame 1) = true := by decide
example : (ofWire { srcPrefix8 with nwSrc := 0x0b090909 }).matchesWith false (fromPacket tcpFrame 1) = false := by decide
example : regular snapFrame = true ∧ (Spec.headers snapFrame 1).dlType = 0x0800 ∧ (fromPacket snapFrame 1).dlType = 0x0800 := by decide
example : regular (arpFrame 2) = true ∧ (extract (arpFrame 2) (some 1)).nwProto = some 2 := by decide

-- tables: a history with exact and wildcarded entries at clustered priorities
def demoFlows : List Spec.Flow :=
  [⟨100, inPort1⟩, ⟨0xffff, srcPrefix8⟩, ⟨1, tcpExact⟩, ⟨100, { srcPrefix8 with wildcards := wc [.dlType] 32 32 }⟩]
example : ∀ f ∈ demoFlows, FlowOk f := by
  intro f hf
  simp only [demoFlows, List.mem_cons, List.not_mem_nil, or_false] at hf
  rcases hf with rfl | rfl | rfl | rfl <;>
    exact ⟨by decide, ⟨by decide, by decide⟩, by decide, by decide⟩
example : ((install demoFlows).map (·.priority)) = [1, 0xffff, 100, 100] := by decide
example : ((entryForPacket (install demoFlows) tcpFrame 1).map (·.data.priority)) = some 1 := by decide
example : entryForPacket (install demoFlows) (arpFrame 1) 2 = none := by decide
-- `exact_outranks`: the installed table has an exact entry (position 0) and wildcarded ones behind it, all priorities 16-bit
example : (install demoFlows).map (·.mtch.isExact) = [true, false, false, false] ∧ ∀ f ∈ demoFlows, f.priority ≤ 0xffff := by decide

-- histories: adds at clustered priorities, a removal by position, a raising removal, a non-strict and a strict
-- remove-matching, an expiry; the entries satisfy the hypotheses of `history_lookup_wire`; lookups hit and miss
def demoOps : List (TableOps.Op Spec.Flow) :=
  [.add (toEntry ⟨100, inPort1⟩), .add (toEntry ⟨100, srcPrefix8⟩), .add (toEntry ⟨1, tcpExact⟩), .removeAt 7,
   .add (toEntry ⟨0xffff, { srcPrefix8 with wildcards := wc [.dlType] 32 32 }⟩), .removeAt 1,
   .removeMatching (ofWire { srcPrefix8 with wildcards := wc [.dlType] 32 32 }) 5 true (fun _ => true),
   .expire (fun e => e.priority == 100 && e.mtch.isWildcarded && e.data.mtch.inPort == 1)]
example : ∀ e ∈ TableOps.added demoOps, e = Variant.head.toEntry e.data ∧ Variant.head.FlowOk e.data := by
  intro e he
  simp only [demoOps, TableOps.added, List.mem_cons, List.not_mem_nil, or_false] at he
  rcases he with rfl | rfl | rfl | rfl <;>
    exact ⟨rfl, ⟨by decide, fun _ => ⟨by decide, by decide⟩, fun _ => by decide, fun _ => by decide⟩⟩
example : (TableOps.run Entry.effectivePriority OfMatch.matchesWith false demoOps).map (·.priority) = [1, 100] := by decide
example : (TableOps.run Entry.effectivePriority OfMatch.matchesWith false (demoOps.take 5)).map (·.priority) = [1, 0xffff, 100, 100] := by decide
example : (TableOps.step Entry.effectivePriority OfMatch.matchesWith false (TableOps.run Entry.effectivePriority OfMatch.matchesWith false (demoOps.take 3)) (.removeAt 7)).2 = true := by decide
example : ((entryForPacket (TableOps.run Entry.effectivePriority OfMatch.matchesWith false demoOps) tcpFrame 1).map (·.data.priority)) = some 1 := by decide
example : ((entryForPacket (TableOps.run Entry.effectivePriority OfMatch.matchesWith false demoOps) tcpFrame 2).map (·.data.priority)) = some 100 := by decide
example : entryForPacket (TableOps.run Entry.effectivePriority OfMatch.matchesWith false demoOps) (arpFrame 1) 1 = none := by decide
-- equal priorities: the newer entry goes in front of the older one
example : (TableOps.run Entry.effectivePriority OfMatch.matchesWith false (demoOps.take 2)).map (·.data.mtch.inPort) = [0, 1] := by decide

-- flows built from packets: exact for TCP (also through VLAN / SNAP), matching for every shape
example : regular tcpFrame = true ∧ isL4Packet tcpFrame = true ∧ packFlowMod (fromPacket tcpFrame 1) = tcpExact := by decide
example : (ofWire (packFlowMod (fromPacket snapFrame 3))).isExact = true := by decide
example : (ofWire (packFlowMod (fromPacketG true false (arpFrame 2) none))).matchesWith false (fromPacket (arpFrame 2) 9) = true := by decide

-- the repaired variant on the witnesses of the open findings: D26 (the exact ARP flow wins), D38 (the value of a wildcarded dl_type
-- no longer matters), D37 (opcode 257 is extracted as nw_proto 1); its hypotheses are satisfiable
example : ((Variant.repaired.entryForPacket (TableOps.run Variant.repaired.effectivePriority Variant.repaired.mww true
    [.add (Variant.repaired.toEntry ⟨1, arpExact⟩), .add (Variant.repaired.toEntry ⟨100, inPort1⟩)]) (arpFrame 1) 1).map (·.data.priority)) = some 1 := by
  decide
example : (Variant.repaired.ofWire { zeroMatch with wildcards := wc [.nwProto] 32 32, dlType := 0x0800, nwProto := 7 }).matchesWith false
    (Variant.repaired.fromPacket tcpFrame 1) = true := by decide
example : (Variant.repaired.extract true (arpFrame 257) (some 1)).nwProto = some 1 ∧ Variant.repaired.regular (arpFrame 257) = true := by decide
example : Variant.repaired.isWildcarded (Variant.repaired.ofWire arpExact) = false ∧ Spec.exactSig arpExact = true ∧
    Variant.head.isWildcarded (Variant.head.ofWire arpExact) = true := by decide

-- sequences: two frames that differ only in ToS, both orders, on a table that discriminates on ToS
def tosEntry : OfMatch := { zeroMatch with wildcards := wc [.dlType, .nwTos] 32 32, dlType := 0x0800, nwTos := 0xb8 }
def tcpFrameEf : PHdr := { tcpFrame with l3 := .ipv4 0x0a010101 0x0a020202 6 0xb8 false (.ports 1000 80) }
example : (Variant.repaired.lookupSeq (TableOps.run Variant.repaired.effectivePriority Variant.repaired.mww true
      [.add (Variant.repaired.toEntry ⟨200, tosEntry⟩), .add (Variant.repaired.toEntry ⟨10, inPort1⟩)])
    [(tcpFrame, 1), (tcpFrameEf, 1), (tcpFrame, 1)]).map (fun r => r.map (·.data.priority)) = [some 10, some 200, some 10] := by decide

-- histories with reading calls in between: a match-all statistics request, a filtered one, `len`, a request that does not concern
-- the table — the table and the lookups are those of the mutating calls alone (the exact entry @1 still outranks the wildcarded @65535)
def allWild : OfMatch := { zeroMatch with wildcards := wc [] 32 32 }
def demoCalls : List (TableOps.Call Spec.Flow) :=
  [.op (.add (Variant.current.toEntry ⟨100, inPort1⟩)), .query .all, .op (.add (Variant.current.toEntry ⟨1, tcpExact⟩)),
   .query (.select (Variant.current.ofWire allWild) (fun _ => true)),
   .op (.add (Variant.current.toEntry ⟨0xffff, { srcPrefix8 with wildcards := wc [.dlType] 32 32 }⟩)),
   .query (.select (Variant.current.ofWire inPort1) (fun f => f.priority == 100)), .query .other, .op (.removeAt 9), .query .all]
example : ∀ e ∈ TableOps.added (TableOps.mutations demoCalls), e = Variant.current.toEntry e.data ∧ e.data.priority ≤ 0xffff := by
  intro e he
  simp only [demoCalls, TableOps.mutations, TableOps.added, List.mem_cons, List.not_mem_nil, or_false] at he
  rcases he with rfl | rfl | rfl <;> exact ⟨rfl, by decide⟩
example : (TableOps.runC Variant.current.effectivePriority Variant.current.mww true demoCalls).map (·.priority) = [1, 0xffff, 100] := by decide
example : ((TableOps.answer Variant.current.mww true (TableOps.runC Variant.current.effectivePriority Variant.current.mww true demoCalls)
    (.select (Variant.current.ofWire allWild) (fun _ => true))).map (·.priority)) = [1, 0xffff, 100] ∧
  ((TableOps.answer Variant.current.mww true (TableOps.runC Variant.current.effectivePriority Variant.current.mww true demoCalls)
    (.select (Variant.current.ofWire inPort1) (fun _ => true))).map (·.priority)) = [1, 100] := by decide
example : ((Variant.current.entryForPacket (TableOps.runC Variant.current.effectivePriority Variant.current.mww true demoCalls) tcpFrame 1).map (·.data.priority)) = some 1 ∧
    ((Variant.current.entryForPacket (TableOps.runC Variant.current.effectivePriority Variant.current.mww true demoCalls) tcpFrame 2).map (·.data.priority)) = some 0xffff ∧
    Variant.current.entryForPacket (TableOps.runC Variant.current.effectivePriority Variant.current.mww true demoCalls) (arpFrame 1) 2 = none := by decide

-- `lookup_spec_wire_repaired` / `…_literal_repaired`: the demo flows satisfy the hypotheses (none of them wildcards an ignored field)
example : (∀ f ∈ demoFlows, f.priority ≤ 0xffff ∧ f.mtch.nwTos % 4 = 0) ∧ (∀ f ∈ demoFlows, Spec.exactSig f.mtch = Spec.exact f.mtch) := by
  decide
example : ((Variant.repaired.entryForPacket (Variant.repaired.install demoFlows) tcpFrame 1).map (·.data.priority)) = some 1 ∧
    Variant.repaired.entryForPacket (Variant.repaired.install demoFlows) (arpFrame 1) 2 = none := by decide
-- `flow_from_packet_exact_repaired`: also the flow of an ARP request is exact now
example : regularG false (arpFrame 1) = true ∧
    Variant.repaired.isWildcarded (Variant.repaired.ofWire (packFlowMod (Variant.repaired.fromPacket (arpFrame 1) 1))) = false := by decide

-- all four repairs on the ToS witness: nw_tos = 0 matches the packet that carries ECT(0); extraction gives the DSCP value
example : Variant.full.mww false (Variant.full.ofWire { zeroMatch with wildcards := wc [.dlType, .nwTos] 32 32, dlType := 0x0800 })
    (Variant.full.pktMatch tcpFrameEcn 1) = true ∧ (Variant.full.pktHeaders true tcpFrameEcn (some 1)).nwTos = some 0 ∧
    regularG false tcpFrameEcn = true := by decide

-- subsumption: both outcomes
example : (ofWire srcPrefix8).matchesWith true (ofWire tcpExact) = true := by decide
example : (ofWire tcpExact).matchesWith true (ofWire srcPrefix8) = false := by decide
example : PrereqExact tcpExact ∧ PrereqExact srcPrefix8 ∧ tcpExact.nwTos % 4 = 0 ∧ srcPrefix8.nwTos % 4 = 0 ∧
    tcpExact.wildcards < 2 ^ 22 ∧ srcPrefix8.wildcards < 2 ^ 22 :=
  ⟨⟨by decide, by decide⟩, ⟨by decide, by decide⟩, by decide, by decide, by decide, by decide⟩

/-! ### what "complete frame" excludes -/

/-- an IPv4 TCP packet whose TCP header did not parse (truncated segment): the parser hands over no transport object -/
def truncTcpFrame : PHdr := { tcpFrame with l3 := .ipv4 0x0a010101 0x0a020202 6 0 false .none }
/-- EtherType 0x0800 without an IPv4 object behind it (the parser never produces this: it always instantiates `ipv4` / `arp`) -/
def noL3Frame : PHdr := { tcpFrame with l3 := .other }

/-- Outside `regularG`: a truncated transport header.  The code leaves tp_src / tp_dst unassigned — they then equal nothing — where
    the zero-filled 12-tuple of Figure 4 has 0; a flow `nw_proto = 6, tp_src = 0` tells the two apart.  The standard does not say what
    the fields of a truncated header are (the reference switch zeroes nw_proto as well), so this is recorded, not counted as a
    violation; the harness compares such frames model-against-code only. -/
theorem irregular_l4_witness :
    let r : OfMatch := { zeroMatch with wildcards := wc [.dlType, .nwProto, .tpSrc] 32 32, dlType := 0x0800, nwProto := 6 }
    regularG false truncTcpFrame = false ∧ (Variant.repaired.extract true truncTcpFrame (some 1)).tpSrc = none ∧
    (Spec.headers truncTcpFrame 1).tpSrc = 0 ∧
    (Variant.repaired.ofWire r).matchesWith false (Variant.repaired.fromPacket truncTcpFrame 1) = false ∧
    Spec.matchHdr r (Spec.headers truncTcpFrame 1) = true := by decide

/-- Outside `regularG`: EtherType IPv4 with no IPv4 object.  nw_src stays unassigned where the 12-tuple has 0: the flow
    `dl_type = 0x0800, nw_src = 0.0.0.0/8` matches per the 12-tuple and not in the code.  (Not reachable from the parser.) -/
theorem irregular_l3_witness :
    let r : OfMatch := { zeroMatch with wildcards := wc [.dlType] 24 32, dlType := 0x0800 }
    regularG false noL3Frame = false ∧ (Variant.repaired.extract true noL3Frame (some 1)).nwSrc = none ∧
    (Variant.repaired.ofWire r).matchesWith false (Variant.repaired.fromPacket noL3Frame 1) = false ∧
    Spec.matchHdr r (Spec.headers noL3Frame 1) = true := by decide

/-- RARP frame (EtherType 0x8035) as the packet library describes it: it parses the body with its `arp` class -/
def rarpFrame : PHdr :=
  { src := 0x020000000001, dst := 0x020000000002, typ := 0x8035, llc := none, vlan := none, l3 := .arp 3 0x0a000001 0x0a000002 }
/-- the bytes of that frame: Ethernet type 0x8035, then hardware type 1, protocol 0x0800, lengths 6 / 4, opcode 3, 02:…:01 10.0.0.1 → 10.0.0.2 -/
def rarpBytes : List Nat :=
  ethBytes 0x8035 [0, 1, 8, 0, 6, 4, 0, 3, 2, 0, 0, 0, 0, 1, 10, 0, 0, 1, 0, 0, 0, 0, 0, 0, 10, 0, 0, 2]

/-- **ARP fields only from ARP frames** (`/repo` HEAD, repair C03-K7).  Whatever the packet library hands over — also an `arp` object
    behind another dl_type, which is how it describes RARP frames —, `from_packet` assigns nw_proto / nw_src / nw_dst from an `arp`
    object only when the dl_type it has assigned is 0x0806 (Figure 4 / Table 3). -/
theorem arp_fields_only_for_arp_current (sf : Bool) (src dst typ : Nat) (llc : Option Llc) (vlan : Option Vlan) (op s d : Nat) (ip : Option Nat)
    (h : (Variant.current.pktHeaders sf ⟨src, dst, typ, llc, vlan, .arp op s d⟩ ip).dlType ≠ some 0x0806) :
    (Variant.current.pktHeaders sf ⟨src, dst, typ, llc, vlan, .arp op s d⟩ ip).nwProto = none ∧
    (Variant.current.pktHeaders sf ⟨src, dst, typ, llc, vlan, .arp op s d⟩ ip).nwSrc = none ∧
    (Variant.current.pktHeaders sf ⟨src, dst, typ, llc, vlan, .arp op s d⟩ ip).nwDst = none := by
  revert h
  cases vlan <;> cases llc with
  | none => simp [Variant.pktHeaders, Variant.current, Variant.full, Variant.repaired, Variant.extract, Variant.arpReached, Variant.clearArp, extractG] <;> (repeat' split) <;> simp_all
  | some l =>
    by_cases hs : l.snapOui = some 0
    · simp [Variant.pktHeaders, Variant.current, Variant.full, Variant.repaired, Variant.extract, Variant.arpReached, Variant.clearArp, extractG, hs] <;> (repeat' split) <;> simp_all
    · simp [Variant.pktHeaders, Variant.current, Variant.full, Variant.repaired, Variant.extract, Variant.arpReached, extractG, hs]

/-- the RARP frame at `/repo` HEAD: from the library's description (`rarpFrame`) as from the description read off the bytes
    (`Spec.Frame.parse rarpBytes`: nothing behind the Ethernet header, complete), none of nw_proto / nw_src / nw_dst is assigned —
    the standard's 12-tuple has zeros there, dl_type 0x8035 -/
theorem extract_rarp_current :
    (Variant.current.pktHeaders true rarpFrame (some 1)).nwProto = none ∧ (Variant.current.pktHeaders true rarpFrame (some 1)).nwSrc = none ∧
    (Variant.current.pktHeaders true rarpFrame (some 1)).nwDst = none ∧ (Variant.current.pktHeaders true rarpFrame (some 1)).dlType = some 0x8035 ∧
    (Spec.headers rarpFrame 1).dlType = 0x8035 ∧ (Spec.headers rarpFrame 1).nwProto = 0 ∧ (Spec.headers rarpFrame 1).nwSrc = 0 ∧
    Spec.Frame.parse rarpBytes = some ({ rarpFrame with l3 := .other }, true) ∧
    Variant.current.pktHeaders true { rarpFrame with l3 := .other } (some 1) = Variant.current.pktHeaders true rarpFrame (some 1) := by
  decide

/-- IPv4 TCP segment 4000 → 80 whose option area starts with an option of length 0, as the packet library describes it at `/repo` HEAD:
    `tcp.parse` gives up on the option and drops the whole header, `ipv4.parse` keeps plain bytes — no transport object -/
def badOptTcpFrame : PHdr :=
  { src := 0x020000000001, dst := 0x020000000002, typ := 0x0800, llc := none, vlan := none,
    l3 := .ipv4 0x0a010101 0x0a020202 6 0 false .none }

/-- (open; candidate repair `fixes/C03_tcp_ports_despite_bad_options.diff`)  **A malformed TCP option hides the ports.**  Read off its
    bytes the frame is a complete TCP segment, tp_src 4000, tp_dst 80 (the standard takes the ports from the header of every unfragmented
    TCP segment and does not parse options).  The packet library rejects the option (length 0; likewise length 1, a length running past
    the header, a known kind with the wrong length) and hands `from_packet` no `tcp` object: tp_src / tp_dst stay unassigned, and the
    flow `nw_proto = 6, tp_dst = 80` — which matches per the standard — does not match in the code.  A sender can thus steer its
    segments past every flow that names a port.  (The description `badOptTcpFrame` is outside `regularG`; the one read off the bytes is
    inside, and for it the model assigns the ports: the harness gives the model the library's description for this input class for
    as long as the probe finds the finding open, so that model and code agree and the oracle — which gets the bytes' — reports it.) -/
theorem extract_tcp_options_defect :
    let r : OfMatch := { zeroMatch with wildcards := wc [.dlType, .nwProto, .tpDst] 32 32, dlType := 0x0800, nwProto := 6, tpDst := 80 }
    regularG false badOptTcpFrame = false ∧
    (Variant.current.pktHeaders true badOptTcpFrame (some 1)).tpDst = none ∧
    Variant.current.mww false (Variant.current.ofWire r) (Variant.current.pktMatch badOptTcpFrame 1) = false ∧
    (Spec.Frame.parse (ethBytes 0x0800 (ipTcpBytes [2, 0, 5, 0xb4]))).map (fun q => (q.1.l3, q.2))
      = some (L3.ipv4 0x0a010101 0x0a020202 6 0 false (.ports 4000 80), true) ∧
    (∀ p, Spec.Frame.parse (ethBytes 0x0800 (ipTcpBytes [2, 0, 5, 0xb4])) = some (p, true) →
      Spec.matchHdr r (Spec.headers p 1) = true ∧ (Variant.current.pktHeaders true p (some 1)).tpDst = some 80 ∧
      Variant.current.mww false (Variant.current.ofWire r) (Variant.current.pktMatch p 1) = true) := by
  refine ⟨by decide, by decide, by decide, by decide, ?_⟩
  intro p hp
  have h : Spec.Frame.parse (ethBytes 0x0800 (ipTcpBytes [2, 0, 5, 0xb4])) =
      some ({ src := 0x020000000001, dst := 0x020000000002, typ := 0x0800, llc := none, vlan := none,
              l3 := .ipv4 0x0a010101 0x0a020202 6 0 false (.ports 4000 80) }, true) := by decide
  rw [h] at hp
  simp only [Option.some.injEq, Prod.mk.injEq, and_true] at hp
  subst hp
  decide

/-! ## definitional -/

/-- *Definitional* — it restates the model, which keeps no state between lookups, and is not counted among the property theorems; the
    content is the differential run of lookup sequences against the real `FlowTable`.
    **Lookup is a function of (table, frame).**  In a sequence of lookups on one table — no table operation in between — every
    answer is the answer that frame gets on its own, whatever was looked up before or after it.  (Trivial in the model, which keeps
    no state between lookups; the correspondence drives the real `FlowTable` with such sequences — frames differing in exactly one of
    the twelve fields, both orders — so that any state the code keeps between lookups has to be invisible.) -/
theorem lookup_stateless (v : Variant) (tbl : Table α) (pre post : List (PHdr × Nat)) (x : PHdr × Nat) :
    (v.lookupSeq tbl (pre ++ x :: post))[pre.length]? = some (v.entryForPacket tbl x.1 x.2) := by
  simp [Variant.lookupSeq]


/-! # the reverted tree: `Variant.head` (regression witnesses)

Everything below is about the tree *before* the repairs D37 / D38 / D26 were committed — the un-suffixed functions of
`Model/Match.lean`.  It does not describe `/repo` HEAD.  It is kept because a revert of one of those commits makes the harness select
that variant again; the theorems then say under which hypotheses the property still holds, and the `_defect` witnesses which inputs
fail (the harness replays them: its finding keys `match:rawprereq`, `extract:arp-opcode-above-255`, `lookup:exact-non-l4-outranked`
are no longer listed as known, so they alarm). -/

/-- (fixed by D36 — `fixes/C04_D36_tos_dscp.diff`; it describes `/repo` for as long as that patch has not landed: the harness then
    selects `Variant.repaired` and lists the finding as known)  The code compares all 8 bits of the ToS byte, the standard only the 6 DSCP bits: a flow with `nw_tos = 0` does not
    match a packet that carries ECT(0).  Every other hypothesis of `matches_iff_repaired` holds. -/
theorem matches_tos_defect :
    let r : OfMatch := { zeroMatch with wildcards := wc [.dlType, .nwTos] 32 32, dlType := 0x0800 }
    r.nwTos % 4 = 0 ∧ regularG false tcpFrameEcn = true ∧
    (Variant.repaired.ofWire r).matchesWith false (Variant.repaired.fromPacket tcpFrameEcn 1) = false ∧
    Spec.matchHdr r (Spec.headers tcpFrameEcn 1) = true :=
  ⟨by decide, by decide, by decide, by decide⟩

/-- (fixed by C03-K7 — `fixes/C03_rarp_not_arp.diff`, commit 69b444a; it describes `Variant.full`, the tree before that commit)
    The packet library parses RARP frames (0x8035) with its ARP class, and without the dl_type guard `from_packet` takes nw_proto /
    nw_src / nw_dst from any `arp` object, where Figure 4 / Table 3 fill them for dl_type 0x0806 only.  (`extract_rarp_current`: the same
    frame at HEAD.) -/
theorem extract_rarp_defect :
    regularG false rarpFrame = false ∧
    (Variant.full.pktHeaders true rarpFrame (some 1)).nwProto = some 3 ∧ (Variant.full.pktHeaders true rarpFrame (some 1)).nwSrc = some 0x0a000001 ∧
    (Variant.full.pktHeaders true rarpFrame (some 1)).nwDst = some 0x0a000002 ∧
    (Spec.headers rarpFrame 1).dlType = 0x8035 ∧ (Spec.headers rarpFrame 1).nwProto = 0 ∧ (Spec.headers rarpFrame 1).nwSrc = 0 ∧
    (Spec.headers rarpFrame 1).nwDst = 0 := by decide

/-! ## table order -/

/-- After every sequence of `add_entry` calls the table is sorted by descending effective priority.  (`es` ranges over all
    histories; every prefix of a history is a history, so this holds after each step.) -/
theorem table_sorted (es : List (Entry α)) : Sorted (build es) := build_sorted es

/-- `add_entry` never raises: the binary search indexes inside the table (for any table, sorted or not). -/
theorem add_entry_total (e : Entry α) (tbl : Table α) : addEntry? e tbl = some (addEntry e tbl) := addEntry?_eq_some e tbl

/-- Exact-match entries outrank every wildcarded one: with 16-bit priorities, every exact entry of the table stands in
    front of every wildcarded entry. -/
theorem exact_outranks (es : List (Entry α)) (hp : ∀ e ∈ es, e.priority ≤ 0xffff) (i j : Nat)
    (hi : i < (build es).length) (hj : j < (build es).length)
    (he : (build es)[i].mtch.isExact = true) (hw : (build es)[j].mtch.isWildcarded = true) : i < j := by
  apply Classical.byContradiction
  intro hn
  have hne : i ≠ j := by
    rintro rfl
    simp [isExact, hw] at he
  have hlt : j < i := by omega
  have hs := List.pairwise_iff_getElem.mp (table_sorted es) j i hj hi hlt
  have hpj : (build es)[j].priority ≤ 0xffff := hp _ ((mem_build es _).mp (List.getElem_mem hj))
  have hei : (build es)[i].mtch.isWildcarded = false := by simpa [isExact] using he
  simp only [Entry.effectivePriority, hw, hei, if_true, EXACT_PRIORITY] at hs
  simp at hs
  omega

/-! ## lookup -/

/-- `entry_for_packet` on a table built by `add_entry` returns an accepted entry of the highest effective priority among
    all accepted entries. -/
theorem lookup_spec (es : List (Entry α)) (p : PHdr) (port : Nat) (e : Entry α)
    (h : entryForPacket (build es) p port = some e) :
    e ∈ es ∧ e.accepts (fromPacket p port) = true ∧
    ∀ e' ∈ es, e'.accepts (fromPacket p port) = true → e'.effectivePriority ≤ e.effectivePriority := by
  obtain ⟨h1, h2, h3⟩ := (first_match_max Entry.effectivePriority (Entry.accepts (fromPacket p port)) (build es)
    (table_sorted es)).1 e h
  exact ⟨(mem_build es e).mp h2, h1, fun e' he' hm => h3 e' ((mem_build es e').mpr he') hm⟩

/-- a miss is reported exactly when no entry accepts the packet -/
theorem miss_iff (es : List (Entry α)) (p : PHdr) (port : Nat) :
    entryForPacket (build es) p port = none ↔ ∀ e ∈ es, e.accepts (fromPacket p port) = false := by
  rw [entryForPacket, (first_match_max Entry.effectivePriority (Entry.accepts (fromPacket p port)) (build es)
    (table_sorted es)).2]
  constructor
  · intro h e he; exact h e ((mem_build es e).mpr he)
  · intro h e he; exact h e ((mem_build es e).mp he)

/-! ## matching against the standard -/

/-- Field extraction is the standard's (Figure 4 / Table 3): every field `from_packet` assigns equals the standard's header
    field (ToS up to the two ECN bits the standard does not look at), every field it leaves unassigned is zero in the
    standard's 12-tuple, and the fields of protocols present in the frame are all assigned. -/
theorem extract_ok (p : PHdr) (port : Nat) (hr : regular p = true) :
    ExtractOk p (extract p (some port)) (Spec.headers p port) := extract_ok_aux p port hr

/-- For a match as received in a flow-mod (`unpack(flow_mod=True)` of the transmitted record `r`) and a frame, the code's lookup
    test equals the standard's matching on the extracted 12-tuple: non-wildcarded fields whose prerequisites are specified must
    equal the header fields, IP addresses compared under the prefix mask.  Hypotheses: the prerequisites are not read from
    wildcarded fields (`PrereqExact`), ToS values without ECN bits, a complete frame with ARP opcode ≤ 255 (`regular`). -/
theorem matches_iff (r : OfMatch) (p : PHdr) (port : Nat) (hp : PrereqExact r) (ht : r.nwTos % 4 = 0)
    (hr : regular p = true) (hpt : pktTos p % 4 = 0) :
    (ofWire r).matchesWith false (fromPacket p port) = Spec.matchHdr r (Spec.headers p port) :=
  wire_accepts_packet r p port hp ht hr hpt

/-! ## lookup against the standard -/

/-- Table lookup against the standard: after any sequence of flow-mods, for every complete frame, `entry_for_packet` answers
    with a flow that matches per the standard and that no matching flow outranks (exact-match flows above every priority),
    and reports a miss exactly when no flow matches. -/
theorem lookup_spec_wire (fs : List Spec.Flow) (p : PHdr) (port : Nat) (hfs : ∀ f ∈ fs, FlowOk f)
    (hr : regular p = true) (hpt : pktTos p % 4 = 0) :
    Spec.IsBest fs (Spec.headers p port) ((entryForPacket (install fs) p port).map (·.data)) := by
  have hmem : ∀ e ∈ install fs, e = toEntry e.data ∧ FlowOk e.data := by
    intro e he
    obtain ⟨f, hf, rfl⟩ := List.mem_map.mp ((mem_build _ e).mp he)
    exact ⟨rfl, hfs f hf⟩
  have h := lookup_isBest (install fs) (table_sorted _) hmem p port hr hpt
  -- the flows the table holds are exactly `fs` (as a set)
  have hset : ∀ g, g ∈ (install fs).map (·.data) ↔ g ∈ fs := by
    intro g
    constructor
    · intro hg
      obtain ⟨e, he, rfl⟩ := List.mem_map.mp hg
      obtain ⟨f, hf, rfl⟩ := List.mem_map.mp ((mem_build _ e).mp he)
      exact hf
    · intro hg
      exact List.mem_map.mpr ⟨toEntry g, (mem_build _ _).mpr (List.mem_map.mpr ⟨g, hg, rfl⟩), rfl⟩
  cases hq : (entryForPacket (install fs) p port).map (·.data) with
  | none =>
    rw [hq] at h
    intro g hg; exact h g ((hset g).mpr hg)
  | some f =>
    rw [hq] at h
    exact ⟨(hset f).mp h.1, h.2.1, fun g hg hm => h.2.2 g ((hset g).mpr hg) hm⟩

/-- a miss ⇔ no installed flow matches the frame per the standard -/
theorem miss_iff_wire (fs : List Spec.Flow) (p : PHdr) (port : Nat) (hfs : ∀ f ∈ fs, FlowOk f)
    (hr : regular p = true) (hpt : pktTos p % 4 = 0) :
    entryForPacket (install fs) p port = none ↔ ∀ f ∈ fs, Spec.matchHdr f.mtch (Spec.headers p port) = false := by
  rw [install, miss_iff]
  constructor
  · intro h f hf
    rw [← matches_iff f.mtch p port (hfs f hf).prereq (hfs f hf).tos hr hpt]
    exact h _ (List.mem_map.mpr ⟨f, hf, rfl⟩)
  · intro h e he
    obtain ⟨f, hf, rfl⟩ := List.mem_map.mp he
    have := h f hf
    rw [← matches_iff f.mtch p port (hfs f hf).prereq (hfs f hf).tos hr hpt] at this
    exact this

/-! ## a flow built from a packet -/

/-- **Extract-then-match.**  The match `from_packet(packet, in_port, spec_frags)` builds — for any frame shape (LLC/SNAP, 802.1Q
    with PCP, ARP with any opcode, ICMP, fragments, truncated headers), any `in_port` (also `None`), either `spec_frags` — sent as
    `pack(flow_mod=True)` and received with `unpack(flow_mod=True)`, accepts that packet's own match in the switch's lookup test. -/
theorem flow_from_packet_matches (arpGuard specFrags : Bool) (p : PHdr) (inPort : Option Nat) :
    (ofWire (packFlowMod (fromPacketG arpGuard specFrags p inPort))).matchesWith false (fromPacketG arpGuard specFrags p inPort) = true :=
  selfflow_accepts _

/-- the switch's own extraction (`spec_frags=True`, port given): a flow installed for a packet is hit by that packet -/
theorem flow_from_packet_hit (p : PHdr) (port : Nat) :
    Entry.accepts (fromPacket p port) ({ priority := 0, mtch := ofWire (packFlowMod (fromPacket p port)), data := () } : Entry Unit) = true :=
  selfflow_accepts _

/-- **When the flow built from a packet is exact-match for the switch**: exactly when `from_packet` assigned all twelve fields of
    an IPv4 match with protocol 1, 6 or 17 … -/
theorem flow_from_packet_exact_iff (g sf : Bool) (p : PHdr) (ip : Option Nat) :
    (ofWire (packFlowMod (fromPacketG g sf p ip))).isExact = true ↔
      allAssigned (extractG g sf p ip) ∧ (extractG g sf p ip).dlType = some 0x0800 ∧
      ∃ pr, (extractG g sf p ip).nwProto = some pr ∧ isL4Proto pr = true := by
  rw [← selfflow_exact_iff]; simp [isExact, fromPacketG]

/-- … which is the case for every complete IPv4 TCP / UDP / ICMP packet (fragments included) arriving on a port: the exact-match
    flow built from such a packet is never treated as wildcarded and gets the priority above all 16-bit priorities. -/
theorem flow_from_packet_exact (p : PHdr) (port priority : Nat) (hr : regular p = true) (hl : isL4Packet p = true) :
    (ofWire (packFlowMod (fromPacket p port))).isExact = true ∧
    ({ priority := priority, mtch := ofWire (packFlowMod (fromPacket p port)), data := () } : Entry Unit).effectivePriority = EXACT_PRIORITY := by
  have h : (ofWire (packFlowMod (fromPacket p port))).isWildcarded = false :=
    (selfflow_exact_iff _).mpr (l4packet_allAssigned p port hr hl)
  exact ⟨by simp [isExact, h], by simp [Entry.effectivePriority, h]⟩

/-- `a.matches_with_wildcards(b)` (`consider_other_wildcards=True`) on two matches received in flow-mods holds exactly when
    `a` subsumes `b` in the standard's sense.  Hypotheses as in `matches_iff`, plus: `b` sets none of the undefined bits 22..31
    of the wildcard word (the code compares them, the standard ignores them). -/
theorem subsumes_iff (a b : OfMatch) (ha : PrereqExact a) (hb : PrereqExact b) (ta : a.nwTos % 4 = 0) (tb : b.nwTos % 4 = 0)
    (hbw : b.wildcards < 2 ^ 22) :
    (ofWire a).matchesWith true (ofWire b) = true ↔
      ∀ h : Spec.Headers, Spec.matchHdr b h = true → Spec.matchHdr a h = true := by
  rw [code_subsumes a b ha hb ta tb hbw]
  exact subsumes_iff_forall a b

/-- (fixed by D38)  Prerequisites read from wildcarded fields: with DL_TYPE wildcarded, the value left in the dl_type field decides whether
    nw_proto is compared — 0x0800 there and the flow stops matching a TCP packet, 0 there and it matches. -/
theorem matches_prereq_defect :
    let r : OfMatch := { zeroMatch with wildcards := wc [.nwProto] 32 32, dlType := 0x0800, nwProto := 7 }
    r.nwTos % 4 = 0 ∧ regular tcpFrame = true ∧ pktTos tcpFrame % 4 = 0 ∧
    (ofWire r).matchesWith false (fromPacket tcpFrame 1) = false ∧
    (ofWire { r with dlType := 0 }).matchesWith false (fromPacket tcpFrame 1) = true ∧
    Spec.matchHdr r (Spec.headers tcpFrame 1) = true :=
  ⟨by decide, by decide, by decide, by decide, by decide, by decide⟩

/-- (fixed by D37)  ARP opcode above 255: the standard uses the low 8 bits of the opcode and the ARP addresses; `from_packet` assigns
    none of nw_proto / nw_src / nw_dst. -/
theorem extract_arp_defect :
    (extract (arpFrame 257) (some 1)).nwProto = none ∧ (extract (arpFrame 257) (some 1)).nwSrc = none ∧
    (Spec.headers (arpFrame 257) 1).nwProto = 1 ∧ (Spec.headers (arpFrame 257) 1).nwSrc = 0x0a000001 := by decide

/-- (fixed by D26)  D26 seen from the packet side: the flow built from a complete ARP request by `from_packet` / `pack` has no wildcard bit on the
    wire, yet the switch treats it as wildcarded (it keeps its own priority instead of the exact-match priority). -/
theorem flow_from_packet_exact_defect :
    regular (arpFrame 1) = true ∧ (packFlowMod (fromPacket (arpFrame 1) 1)).wildcards = 0 ∧
    (ofWire (packFlowMod (fromPacket (arpFrame 1) 1))).isWildcarded = true := by decide

/-- (fixed by D26)  a flow sent without any wildcard bit that is not an IPv4 TCP/UDP/ICMP flow (here: the exact flow of an ARP request)
    is un-wired to a wildcarded match, keeps its own priority and loses against a wildcarded flow of higher priority, although
    the standard ranks exact-match flows above all others.  All other hypotheses of `lookup_spec_wire` hold. -/
theorem exact_outranks_defect :
    let fs : List Spec.Flow := [⟨1, arpExact⟩, ⟨100, inPort1⟩]
    (∀ f ∈ fs, f.priority ≤ 0xffff ∧ PrereqExact f.mtch ∧ f.mtch.nwTos % 4 = 0) ∧ regular (arpFrame 1) = true ∧
    (entryForPacket (install fs) (arpFrame 1) 1).map (·.data) = some ⟨100, inPort1⟩ ∧
    Spec.matchHdr arpExact (Spec.headers (arpFrame 1) 1) = true ∧ Spec.rank ⟨1, arpExact⟩ > Spec.rank ⟨100, inPort1⟩ ∧
    ¬ Spec.IsBest fs (Spec.headers (arpFrame 1) 1) ((entryForPacket (install fs) (arpFrame 1) 1).map (·.data)) := by
  refine ⟨?_, by decide, by decide, by decide, by decide, ?_⟩
  · intro f hf
    simp only [List.mem_cons, List.not_mem_nil, or_false] at hf
    rcases hf with rfl | rfl <;> exact ⟨by decide, ⟨by decide, by decide⟩, by decide⟩
  · have h1 : (entryForPacket (install [⟨1, arpExact⟩, ⟨100, inPort1⟩]) (arpFrame 1) 1).map (·.data) = some ⟨100, inPort1⟩ := by
      decide
    rw [h1]
    simp only [Spec.IsBest]
    intro h
    have := h.2.2 ⟨1, arpExact⟩ (by simp) (by decide)
    revert this
    decide


end Pox.C03
