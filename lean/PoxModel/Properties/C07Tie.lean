import PoxModel.Model.HandoffSites
import PoxModel.Generated.Sites
/-! # C07 — static tie of the hand-off model to the working tree

`Generated/Sites.lean` is regenerated from the working tree on every run (harness/translate/sites.py).  `ops_agree`: per entry
point of the hand-off protocol, the set of operations on shared state (`op@role`, over the transitive closure of the calls
inside recoco.py / core.py / util.py) is the one the model was written against (`HandoffSites.ops`).

This is the ONLY C07 module that depends on the working tree.  When it does not build (an operation on shared state appeared,
disappeared or moved to another object — or a refactoring the summary does not see through), the harness reports the static tie
as NOT ESTABLISHED in the evidence and widens the dynamic validation (every executed operation on a shared object, in every
forced-schedule run, must be the model's next action of that thread); the verdict then rests on that validation. -/
namespace Pox.C07

theorem ops_agree : Pox.Generated.Sites.ops = Pox.HandoffSites.ops := by decide

end Pox.C07
