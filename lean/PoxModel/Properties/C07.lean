import PoxModel.Proofs.HandoffClt
import PoxModel.Proofs.CoopLock
import PoxModel.Model.HandoffSites
/-! # C07 — hand-off between threads and the scheduler is race-free; locks exclude

All statements are about `Model/Handoff.lean` (an interleaving transition system with one atomic action per Python
statement that touches shared state) and `Model/CoopLock.lean`.  `Reachable threaded users progs s` = `s` can be
reached from the initial state by ANY interleaving of atomic actions of the scheduler thread, the hub thread and any
number of foreign threads (`progs` = their programs, arbitrary), including polling time-outs at any moment they are
possible.  That each action is atomic is the GIL assumption; that real executions are executions of this system is
what the trace validation of harness/c07.py tests. -/
namespace Pox.C07
open Pox.Handoff

/-! ## tie to the source

The static tie `ops_agree` (the working tree's per-entry-point sets of operations on shared state = the model's table) lives in
`Properties/C07Tie.lean`, the only C07 module that depends on the working tree (through `Generated/Sites.lean`): the theorems
below are about the model alone. -/

/-- every action the model's table anchors in a function is an element of that function's set of operations -/
theorem ops_cover : Pox.HandoffSites.opsCover = true := by decide

/-- conversely: every element of every entry point's set is a model action (`siteOp`) or in the commented list
`HandoffSites.ignored`; every ignored / modelled element occurs in some set (no stale entries) -/
theorem ops_accounted : Pox.HandoffSites.opsAccounted = true := by decide

/-- every action of the model is anchored at exactly one statement (or is one of the two harness-defined actions) -/
theorem sites_anchored :
    (∀ s ∈ Pox.HandoffSites.allSites, s ∈ Pox.HandoffSites.anchored ∨ s ∈ Pox.HandoffSites.harnessSites) ∧
    Pox.HandoffSites.anchored.Nodup ∧ (∀ s : Site, s ∈ Pox.HandoffSites.allSites) :=
  ⟨by decide, by decide, by intro s; cases s <;> decide⟩

/-- run a list of thread ids from the initial state; every entry must be enabled -/
def runStrict (s : State) : List Tid → Option State
  | [] => some s
  | t :: ts => (step s t).bind fun s' => runStrict s' ts

theorem runStrict_reachable {threaded users progs} (l : List Tid) : ∀ (s s' : State),
    Reachable threaded users progs s → runStrict s l = some s' → Reachable threaded users progs s' := by
  induction l with
  | nil => intro s s' hr h; cases h; exact hr
  | cons t ts ih =>
    intro s s' hr h
    simp only [runStrict] at h
    cases hs : step s t with
    | none => simp [hs] at h
    | some s1 => simp [hs] at h; exact ih s1 s' (.step t hr hs) h

/-! ## call-later -/

/-- **calllater_once.**  In every reachable state: the calls handed over so far (`submitted`, in hand-over order) are
exactly the executed ones, followed by the one being executed right now (if any), followed by the ones still in the
deque — so each is in exactly one of {executed, pending}, none is lost or duplicated (`submitted` has no duplicates),
every executed call was executed by the scheduler thread (tid 0), and — because the equation is between *lists* — the
execution order is the hand-over order, in particular per submitting thread.  Submitters are the foreign threads
(`by_ = i + 2`) and cooperative code running on the scheduler thread itself (`by_ = 0`, `Scheduler.callLater` called from
inside a task's slice); the last two conjuncts say each submitter's calls are numbered 0, 1, 2, … in hand-over order. -/
theorem calllater_once {threaded users progs} {s : State} (hr : Reachable threaded users progs s) :
    s.submitted = s.executed.map (·.1) ++ inflight s ++ s.calls ∧
    s.submitted.Nodup ∧
    (∀ p ∈ s.executed, p.2 = 0) ∧
    (∀ i f, s.fs[i]? = some f → (s.submitted.filter (·.by_ = i + 2)).map (·.seq) = List.range f.nsub) ∧
    (s.submitted.filter (·.by_ = 0)).map (·.seq) = List.range s.snsub :=
  let h := reach_A hr
  ⟨h.stream, h.nodup, h.onS, h.order, h.order0⟩

/-- per submitting thread: what has been executed is a prefix of what that thread submitted, in its order -/
theorem calllater_order {threaded users progs} {s : State} (hr : Reachable threaded users progs s) (t : Tid) :
    ∃ rest, (s.executed.map (·.1)).filter (·.by_ = t) ++ rest = s.submitted.filter (·.by_ = t) := by
  have h := (reach_A hr).stream
  exact ⟨(inflight s ++ s.calls).filter (·.by_ = t), by rw [h]; simp [List.filter_append, inflight]⟩

/-! ## synchronized section -/

/-- some cooperative code (a task slice, a call-later callback, the bookkeeping of a `yield`) is executing on the
scheduler thread — anything except idling, the run loop itself, and a SyncTask's two lock operations -/
def coopRunning (s : State) : Bool :=
  match s.s with
  | .userBody _ | .cycAppend _ | .stContains _ | .stFs _ _ | .rsPut _ | .rsPing _ | .cltPong _ | .cltPop _
  | .cltCall _ _ | .usContains _ _ | .usFs _ _ _ | .ucLock _ | .ucIsNone _ | .ucCreate _ | .ucContains _ _ | .ucFs _ _ _
  | .ucUnlock _ | .ucAppend _ | .ucPing _ => true
  | _ => false

/-- foreign thread `i` is inside `with scheduler.synchronized():` -/
def inSection (s : State) (i : Nat) : Prop := ∃ f, s.fs[i]? = some f ∧ inSecB f.pc f.depth = true

/-- **sync_excludes.**  While a foreign thread is inside the synchronized section the scheduler thread is parked in
that thread's own SyncTask at `self.outlock.acquire()` (and that lock is held): no cooperative task is running. -/
theorem sync_excludes {threaded users progs} {s : State} (hr : Reachable threaded users progs s) (i : Nat)
    (hin : inSection s i) : coopRunning s = false ∧ ∃ f, s.fs[i]? = some f ∧ s.s = .syAcqOut f.syncer ∧
      viewT s.tasks f.syncer = some (i + 2, true, true) := by
  obtain ⟨f, hf, hs⟩ := hin
  obtain ⟨hv, hp⟩ := (reach_Sy hr).sec i f hf hs
  exact ⟨by simp [coopRunning, hp], f, hf, hp, hv⟩

/-- two foreign threads are never inside the section at the same time -/
theorem sync_mutual {threaded users progs} {s : State} (hr : Reachable threaded users progs s) (i j : Nat)
    (hi : inSection s i) (hj : inSection s j) : i = j := by
  obtain ⟨f, hf, hs⟩ := hi
  obtain ⟨g, hg, hs'⟩ := hj
  obtain ⟨hv, hp⟩ := (reach_Sy hr).sec i f hf hs
  obtain ⟨hv', hp'⟩ := (reach_Sy hr).sec j g hg hs'
  rw [hp] at hp'
  injection hp' with hk
  rw [hk, hv'] at hv
  have h1 : j + 2 = i + 2 := (Prod.mk.inj (Option.some.inj hv)).1
  omega

/-! ## schedule() from foreign threads -/

/-- **schedule_atmost1_partial.**  (Partial: tasks parked in the select hub are outside the model, and for those the
code violates the clause with the threaded hub — `schedule_hub_race_defect`, finding C07-1.)  A task that is woken through `Scheduler.schedule()` — by any number of foreign threads (via
ScheduleTasks) and by other cooperative tasks from inside their slices (the direct branch), at any moments — never
occurs twice in the ready queue; and while the scheduler thread is executing it, or is about to put it (back) into the
queue, it is not in the queue at all.  Hypothesis `usersOk`: no task's program schedules the task itself (the
documented exception of `schedule()`, see `schedule_self_twice`).  (`u < users.length`: the tasks that exist before
the run and are only ever woken through `schedule()`; tasks parked in the select hub are outside this statement.) -/
theorem schedule_atmost1_partial {threaded users progs} {s : State} (hok : usersOk users)
    (hr : Reachable threaded users progs s) (u : TaskId) (hu : u < users.length) :
    s.ready.count u ≤ 1 ∧ (holds s.s s.tasks u → u ∉ s.ready) := by
  have hn := reach_nUsers hr
  exact ⟨(reach_U hok hr).cnt u (by rw [hn]; exact hu), (reach_U hok hr).hold u (by rw [hn]; exact hu)⟩

/-- the hypothesis is needed, exactly as the docstring of `schedule()` says: a task that schedules *itself* and then
yields 0 is in the ready queue twice (`if task in self._ready` cannot see the running task). -/
theorem schedule_self_twice :
    (runStrict (Handoff.init false [[.sched 0, .yield0]] [[.schedule 0]])
      [2, 2, 2, 2, 2, 0, 0, 0, 0, 0, 0, 0, 0, 0, 0, 0, 0, 0, 0]).map (·.ready) = some [0, 0] := by decide

/-- **Defect of the code outside this model's reachable states (reproduced on the real classes, see
`harness/c07.py`, case kind "hubrace").**  `schedule()` promises that it "will not schedule a task to run multiple times",
and `ScheduleTask` exists so that "the Task is only ever *really* scheduled from the scheduler thread".  With the threaded
select hub that is not so: the hub thread's `_return` calls `fast_schedule` itself.  `hubRaceState`: user task 0 is parked
in the threaded hub (user tasks that wait in the hub are not part of `Reachable` here), its descriptor has just become
ready — the hub thread is at `_return(0)` → `fast_schedule(0)` — and a ScheduleTask for it (task 1, from some thread's
`schedule(0)`) is queued.  Interleaving: scheduler thread `run_len, cyc_pop, st_contains` (not in `ready`), hub thread
`fs_assert` (passes), scheduler thread `fs_assert` (passes), hub thread `fs_append`, scheduler thread `fs_appendleft`:
the task is in the ready queue twice. -/
def hubRaceState : State :=
  { threaded := true, nUsers := 1, tasks := [.user [], .st 0 false], ready := [1], s := .runLen,
    h := .hub (.ret 0 .assert), fs := [] }

theorem schedule_hub_race_defect :
    (runStrict hubRaceState [0, 0, 0, 1, 0, 1, 0]).map (·.ready) = some [0, 0] := by decide

/-- **no wake is lost.**  Whenever a ScheduleTask's slice ends (the scheduler thread returns to its loop from
`ScheduleTask.run`), the task it was created for is in the ready queue — either it was there already, or it has just
been put at the head.  (The ScheduleTask itself cannot be lost: the foreign thread's `schedule()` returns only after
the `_ready.append(st)`, and only the scheduler thread ever removes from `_ready`.) -/
theorem schedule_wake_kept {threaded users progs} {s s' : State} (hok : usersOk users)
    (hr : Reachable threaded users progs s)
    (hs : step s 0 = some s') (st tg : TaskId) (r : Bool)
    (hpc : s.s = .stContains st ∨ ∃ p, s.s = .stFs st p) (hdone : s'.s = .runLen)
    (hl : s.tasks[st]? = some (.st tg r)) : tg ∈ s'.ready :=
  st_done_in_ready (reach_U hok hr) hs st tg r hpc hdone hl

/-- **schedule_st_never_lost.**  A ScheduleTask that has not run is in exactly one place: once in `ready`, or its creating
thread is about to append it (and then it is not in `ready`: the assertion of `fast_schedule` holds), or the scheduler
thread is executing it; one that has run is nowhere.  So the ScheduleTask created by `schedule()` is never lost and never
queued twice.  (`namesOk`: the programs only name tasks that exist before the run.) -/
theorem schedule_st_never_lost {threaded users progs} {s : State} (hok : namesOk users progs)
    (hr : Reachable threaded users progs s) (st : Nat) (tg : TaskId) :
    (s.tasks[st]? = some (.st tg false) → s.ready.count st + pend s.fs st + sRunsST s.s st = 1) ∧
    (s.tasks[st]? = some (.st tg true) → s.ready.count st + pend s.fs st + sRunsST s.s st = 0) :=
  ⟨fun h => (reach_all hok hr).st.live st tg h, fun h => (reach_all hok hr).st.dead st tg h⟩

/-- the direct branch: when `schedule(v)` called by a cooperative task returns, `v` is in the ready queue -/
theorem schedule_direct_kept {threaded users progs} {s s' : State} (hr : Reachable threaded users progs s)
    (hs : step s 0 = some s') (t v : TaskId) (hpc : s.s = .usContains t v ∨ s.s = .usFs t v .signal)
    (hdone : ∀ p, s'.s ≠ .usFs t v p) : v ∈ s'.ready :=
  direct_done_in_ready (reach_DirSig hr) hs t v hpc hdone

/-- **wake_never_lost** (over histories).  From any reachable state in which user task `v` is in the ready queue —
which is where `schedule_wake_kept` / `schedule_direct_kept` leave it — and for every continuation of every interleaving
(`Steps`: any number of atomic actions and time-outs of any threads): `v` is still in the ready queue, or the scheduler
thread has just popped it and is starting its slice, or the number of its logged slices has grown.  It is never dropped. -/
theorem wake_never_lost {threaded users progs} {s s' : State} (hok : namesOk users progs)
    (hr : Reachable threaded users progs s) {v : TaskId} (hv : v < users.length) (hin : v ∈ s.ready) (hst : Steps s s') :
    v ∈ s'.ready ∨ s'.s = .userBody v ∨ s.slices.count v < s'.slices.count v :=
  (woken_forever hok hr (by rw [reach_nUsers hr]; exact hv) hin hst).1.2

/-! ## nobody dies of an assertion; the CallLaterTask is always somewhere -/

/-- **no_crash.**  In every reachable state no thread has died of an assertion or a lock error: not the scheduler thread
(`assert task not in tasks` / `assert task not in self._ready` inside an inline `_select`), not the hub thread (the same
two assertions), no foreign thread (`assert task not in self._ready` for its fresh ScheduleTask, `outlock.release()` of an
unlocked lock).  This removes the `crashed` escape of `incoming_noticed`. -/
theorem no_crash {threaded users progs} {s : State} (hok : namesOk users progs) (hr : Reachable threaded users progs s) :
    s.s ≠ .crashed ∧ s.h ≠ .crashed ∧ ∀ (i : Nat) (f : FThread), s.fs[i]? = some f → f.pc ≠ .crashed :=
  reach_nocrash hok hr

/-- **clt_alive.**  Once created, the CallLaterTask is in exactly one place (`tok = 1`, counting multiplicities): in
`ready`, in the hub's `_incoming` queue, in the hub's task table, being executed by the scheduler thread, being put back
by the hub runner, or — before its first run — with exactly one pending starter (a ScheduleTask that has not run, a
foreign thread about to create that ScheduleTask, or the scheduler thread starting it directly).  In particular it is
always somewhere, so a byte in its pinger pipe is always going to be noticed by somebody. -/
theorem clt_alive {threaded users progs} {s : State} (hok : namesOk users progs) (hr : Reachable threaded users progs s)
    (c : TaskId) (hc : s.cltTask = some c) :
    tok s c = 1 + sigAdj s.s s.tasks c ∧
    (c ∈ s.ready ∨ c ∈ s.incoming ∨ c ∈ s.hubTasks ∨ sTokC s.s c = 1 ∨ hTokC s.h c = 1 ∨
      (∃ st : Nat, s.tasks[st]? = some (Kind.st c false)) ∨
      (∃ (i : Nat) (f : FThread), s.fs[i]? = some f ∧ f.pc = .spawn .cl c)) :=
  ⟨(reach_all hok hr).l.one c hc, clt_somewhere (reach_all hok hr) hc⟩

/-- `incoming_noticed` without the escape: the hub's own queue is followed by a ping or a draining runner, full stop -/
theorem incoming_noticed_strict {threaded users progs} {s : State} (hok : namesOk users progs)
    (hr : Reachable threaded users progs s) (hi : s.incoming ≠ []) :
    s.hubPipe > 0 ∨ (∃ c, s.s = .rsPing c) ∨ drainS s.s = true ∨ drainH s.h = true := by
  obtain ⟨h1, h2, _⟩ := reach_nocrash hok hr
  rcases reach_I hr hi with h | h | h | h | h
  · exact Or.inl h
  · right; left
    cases hp : s.s <;> simp only [hp, sPingOrDead] at h <;> first | (cases h; done) | exact ⟨_, rfl⟩ | exact absurd hp h1
  · exact Or.inr (Or.inr (Or.inl h))
  · exact Or.inr (Or.inr (Or.inr h))
  · exact absurd h h2

/-! ## wake-ups do not depend on the polling time-out -/

/-- **wake_noticed.**  (threaded hub) if the scheduler thread is parked in `Event.wait` while the ready queue is not
empty, the event is set or some thread's very next action is the `Event.set()` of `break_idle`; (inline hub) if it is
parked in `select` while the ready queue is not empty, the hub's pinger pipe is not empty or some thread's next action
is the ping; (call-later) if the deque of calls is not empty, the CallLaterTask's pipe is not empty, or some thread's
next action is `self._pinger.ping()` (a foreign thread's, or the scheduler thread's own when cooperative code hands
over), or the CallLaterTask is inside its drain loop (it pops again before it waits).
So the `CYCLE_MAXIMUM` polling time-out is never what makes pending work noticed. -/
theorem wake_noticed {threaded users progs} {s : State} (hr : Reachable threaded users progs s) :
    (s.s = .idleWait → s.ready ≠ [] → s.event = true ∨ sigP s.h s.fs) ∧
    (s.s = .hub .select → s.ready ≠ [] → s.hubPipe > 0 ∨ sigP s.h s.fs) ∧
    (s.calls ≠ [] → s.cltPipe > 0 ∨ pingP s.fs ∨ draining s.s = true) :=
  let h := reach_N hr
  ⟨h.evt, h.pip, h.cal⟩

/-- **incoming_noticed.**  The select hub's own hand-over queue (`registerSelect`: `_incoming.put` then ping): if it is
not empty, the hub's pinger pipe is not empty, or the scheduler thread's next action is that ping, or the hub runner
(hub thread / scheduler thread in inline mode) is inside the loop that empties the queue — unless the runner died of
the assertion `assert task not in tasks` (that this cannot happen is checked on the real runs, not proved). -/
theorem incoming_noticed {threaded users progs} {s : State} (hr : Reachable threaded users progs s) :
    s.incoming ≠ [] → s.hubPipe > 0 ∨ sPingOrDead s.s = true ∨ drainS s.s = true ∨ drainH s.h = true ∨ s.h = .crashed :=
  reach_I hr

/-- the hub mode is respected: with a threaded hub the scheduler thread never runs `_select`; with an inline hub
there is no hub thread and the scheduler thread never waits on the event -/
theorem hub_mode {threaded users progs} {s : State} (hr : Reachable threaded users progs s) :
    (s.threaded = true → ∀ p, s.s ≠ .hub p) ∧ (s.threaded = false → s.h = .off ∧ s.s ≠ .idleWait ∧ s.s ≠ .idleClear) :=
  ⟨(reach_W hr).thr, (reach_W hr).inl⟩

/-! ## the cooperative Lock -/

open Pox.CoopLock in
/-- **lock_excl.**  For every sequence of acquire/release operations by any number of tasks in which nobody releases a
lock he was not handed (`disciplined`; the code, like `threading.Lock`, does not check this): (1) the tasks that were
told they own the lock are exactly the task the lock refers to — at most one; (3) nobody waits while the lock is
free. -/
theorem lock_excl (flag : Bool) (ops : List Pox.CoopLock.Op) (hd : ∀ o ∈ ops, o.disciplined = true) :
    let s := srun { lock := { locked := if flag then some .flag else none } } ops
    s.believers = holderList s.lock.locked ∧ s.believers.length ≤ 1 ∧
    (s.lock.locked = none → s.lock.waiting = []) := by
  intro s
  have h := srun_inv ops _ (init_inv flag) hd
  refine ⟨h.excl, ?_, h.noIdle⟩
  rw [h.excl]
  rcases s.lock.locked with _ | (_ | t) <;> simp [holderList]

open Pox.CoopLock in
/-- **lock_excl_multi.**  The same for any number of locks and any number of tasks: for every sequence of operations
`(lock index, operation)` — a task parked on one lock issues nothing on any lock — and every lock `j`: the tasks that
were handed lock `j` are exactly the task it refers to (at most one), and nobody waits on it while it is free. -/
theorem lock_excl_multi (flags : List Bool) (ops : List (Nat × Pox.CoopLock.Op))
    (hd : ∀ p ∈ ops, p.2.disciplined = true) (j : Nat) (l : Lock)
    (hl : (mrun (minit flags) ops).locks[j]? = some l) :
    let s := mrun (minit flags) ops
    let holders := (s.believers.filter (·.2 = j)).map (·.1)
    holders = holderList l.locked ∧ holders.length ≤ 1 ∧ (l.locked = none → l.waiting = []) := by
  intro s holders
  have h := mrun_inv ops _ (minit_inv flags) hd j { lock := l, believers := holders } (by simp [MSys.proj, s, hl, holders])
  have he : holders = holderList l.locked := h.excl
  refine ⟨he, ?_, h.noIdle⟩
  rw [he]
  rcases l.locked with _ | (_ | t) <;> simp [holderList]

open Pox.CoopLock in
/-- two locks, three tasks: task 1 holds lock 0 and waits for lock 1 held by task 2; task 3 waits for lock 0; task 2
releases lock 1 (handed to 1), task 1 releases lock 0 (handed to 3) -/
example : (mrun (minit [false, false])
    [(0, .acq 1 true), (1, .acq 2 true), (1, .acq 1 true), (0, .acq 3 true), (0, .acq 1 false), (1, .rel 2 1), (0, .rel 1 3)]).believers
    = [(1, 1), (3, 0)] := by decide

open Pox.CoopLock in
/-- (2) a release hands the lock to exactly one waiter if there is any (the one `set.pop()` returned), which becomes
the holder and leaves the waiter set; with no waiter the lock becomes free and nobody is woken -/
theorem lock_handoff (l l' : Lock) (choice : Pox.CoopLock.Task) (w : Option Pox.CoopLock.Task)
    (h : release l choice = .ok (l', w)) :
    (l.waiting = [] → w = none ∧ l'.locked = none ∧ l'.waiting = []) ∧
    (l.waiting ≠ [] → w = some choice ∧ choice ∈ l.waiting ∧ l'.locked = some (.task choice) ∧
      l'.waiting = l.waiting.erase choice) := by
  simp only [release] at h
  cases hl : l.locked with
  | none => simp [hl] at h
  | some hd =>
    cases hw : l.waiting with
    | nil => simp [hl, hw] at h; obtain ⟨rfl, rfl⟩ := h; simp [hw]
    | cons a as =>
      by_cases hc : choice ∈ a :: as
      · simp only [hl, hw, hc, if_true] at h; cases h; simp [hc]
      · simp [hl, hw, hc] at h

open Pox.CoopLock in
/-- **try-lock.**  A non-blocking `acquire(False)` on a taken lock gives `False` back, the task keeps running, and the
lock — in particular its waiter set — is exactly as before: a task whose try-lock failed is not a waiter, so (by
`lock_handoff`, which hands over only to members of the waiter set) it can never be handed the lock.  On a free lock it
takes the lock like a blocking acquire.  (`lock_excl` / `lock_excl_multi` quantify over all operation sequences, try-locks
included.) -/
theorem lock_trylock (l : Lock) (t : Pox.CoopLock.Task) :
    (l.locked ≠ none → acquire l t false = (l, .resumed false)) ∧
    (l.locked = none → acquire l t false = ({ l with locked := some (.task t) }, .resumed true)) := by
  constructor
  · intro h; cases hl : l.locked with
    | none => exact absurd hl h
    | some hd => simp [acquire, hl]
  · intro h; simp [acquire, h]

open Pox.CoopLock in
/-- in the multi-task system: a failed try-lock changes nothing at all, a blocking acquire of a taken lock adds exactly the
caller to the waiters -/
theorem lock_waiters_exact (s s' : Sys) (t : Pox.CoopLock.Task) (b : Bool) (hheld : s.lock.locked ≠ none)
    (hs : sstep s (.acq t b) = some s') :
    s'.believers = s.believers ∧ s'.lock.locked = s.lock.locked ∧
    s'.lock.waiting = (if b then s.lock.waiting ++ [t] else s.lock.waiting) := by
  simp only [sstep] at hs
  split at hs
  · cases hs
  · rename_i hnw
    cases hl : s.lock.locked with
    | none => exact absurd hl hheld
    | some hd =>
      cases b <;> simp [acquire, hl, hnw] at hs <;> subst hs <;> simp [hl]

open Pox.CoopLock in
/-- holder, a failed try-lock, a blocking waiter; the release hands the lock to the waiter, not to the try-locker -/
example : (srun {} [.acq 1 true, .acq 2 false, .acq 3 true, .rel 1 3]) =
    { lock := { locked := some (.task 3), waiting := [] }, believers := [3] } := by decide

open Pox.CoopLock in
/-- the discipline is needed: `_do_release` does not check who releases, so a task that was never handed the lock can
free it under its owner, and two tasks then believe they hold it (same contract as `threading.Lock`; not a defect of
the code, but the exact hypothesis under which `lock_excl` holds) -/
theorem lock_excl_needs_discipline :
    ([Pox.CoopLock.Op.acq 1 true, .relAny 2 0, .acq 3 true].foldl
      (fun (s : Option Pox.CoopLock.Sys) o => s.bind fun s => sstep s o) (some {})).map (·.believers) = some [1, 3] := by
  decide

/-! ## non-vacuity: concrete reachable states in which the hypotheses hold -/

/-- inline hub, one foreign thread doing `with synchronized(): callLater(f)`: a reachable state with the thread inside
the section, one call pending -/
def witnessSync : List Tid :=
  [2, 2, 2, 2, 2, 2,            -- begin syncEnter, se_create, sch_spawn, fs_assert, fs_append, cy_ping
   0, 0, 0, 0, 0, 0,            -- scheduler: run_len, cyc_pop (ScheduleTask), st_contains, fs_assert, fs_appendleft, cy_ping
   0, 0, 0,                     -- run_len, cyc_pop (SyncTask: yield 0), cyc_append
   0, 0, 0,                     -- run_len, cyc_pop (SyncTask again), sy_relIn
   2]                           -- se_acqIn: inside
example : (runStrict (Handoff.init false [] [[.syncEnter, .callLater, .syncExit]]) witnessSync).map
    (fun s => (s.fs.map fun f => inSecB f.pc f.depth, s.s, coopRunning s)) = some ([true], .syAcqOut 0, false) := by
  decide

/-- threaded hub, two foreign threads submitting one call each: both get executed, by the scheduler thread, in
hand-over order -/
def witnessCalls : List Tid :=
  [2,2,2,2,2,2,2,2,2,2, 3,3,3,3,3, 2,3, 0,0,0,0,0,0, 0,0,0,0, 1,1,1,1, 1,1,1,1, 0,0,0,0,0,0,0,0,0,0,0]
example : (runStrict (Handoff.init true [] [[.callLater], [.callLater]]) witnessCalls).map
    (fun s => (s.executed, s.submitted, s.calls)) = some ([(⟨2, 0⟩, 0), (⟨3, 0⟩, 0)], [⟨2, 0⟩, ⟨3, 0⟩], []) := by
  decide

/-- inline hub, two foreign threads waking the same user task: a reachable state with the scheduler parked in
`select`, the ready queue non-empty (the first ScheduleTask), and the wake-up signal still pending -/
def witnessWake : List Tid := [0, 2, 2, 2, 2]      -- run_len (idle), begin, sch_spawn, fs_assert, fs_append
example : (runStrict (Handoff.init false [[]] [[.schedule 0], [.schedule 0]]) witnessWake).map
    (fun s => (s.s, s.ready, s.hubPipe, (s.fs.map fun f => isSigB f.pc))) =
    some (.hub .select, [1], 0, [true, false]) := by decide

/-- …both `schedule(0)` calls completed, the first ScheduleTask has run: the task is queued once, at the head, and the
second ScheduleTask is still behind it -/
def witnessTwice : List Tid :=
  [2, 2, 2, 2, 2, 3, 3, 3, 3, 3, 0, 0, 0, 0, 0, 0]
example : (runStrict (Handoff.init false [[]] [[.schedule 0], [.schedule 0]]) witnessTwice).map
    (fun s => (s.ready, s.s)) = some ([0, 2], .runLen) := by decide

/-- a cooperative task waking another one from inside its slice (direct branch of `schedule`), while a foreign thread
wakes the first: reachable, `usersOk` holds, and the second task ends up queued once -/
example : usersOk [[.sched 1, .yieldF], []] := by
  intro t prog h
  match t, h with
  | 0, h => cases h; decide
  | 1, h => cases h; decide
  | t + 2, h => cases h
example : (runStrict (Handoff.init true [[.sched 1, .yieldF], []] [[.schedule 0]])
    [2, 2, 2, 2, 2, 0, 0, 0, 0, 0, 0, 0, 0, 0, 0, 0, 0, 0]).map (fun s => (s.ready, s.slices)) = some ([1], [0]) := by decide

/-- hand-over from cooperative code and from a thread, interleaved: both executed, on the scheduler thread, in
hand-over order; the CallLaterTask was created on the scheduler thread (direct branch of `schedule`) -/
def witnessCoopCall : List Tid :=
  [2, 2, 2, 2, 2, 0, 0, 0, 0, 0, 0, 0, 0, 0, 0, 0, 0, 0, 0, 0, 0, 0, 0, 0, 0, 3, 3, 3, 3, 3, 3, 0, 0, 0, 0, 0, 0, 0, 0]
example : ((runStrict (Handoff.init false [[.callLater, .yieldF]] [[.schedule 0], [.callLater]]) witnessCoopCall).map
    (fun s => (s.submitted, s.snsub))) = some ([⟨0, 0⟩, ⟨3, 0⟩], 1) := by decide

example : namesOk [[.sched 1, .yieldF], []] [[.schedule 0], [.callLater]] := by
  refine ⟨?_, ?_⟩
  · intro p hp t ht; simp at hp; rcases hp with rfl | rfl <;> simp at ht; subst ht; decide
  · intro p hp v hv; simp at hp; rcases hp with rfl | rfl <;> simp at hv; subst hv; decide

end Pox.C07
