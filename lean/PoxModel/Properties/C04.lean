import PoxModel.Proofs.FlowModRefine
import PoxModel.Proofs.UndefBits
/-! # C04 — the flow table evolves as the OpenFlow 1.0 FLOW_MOD / timeout state machine

Property theorems only.  Model: `Model/FlowMod.lean` (`step`, `run` — `_rx_flow_mod` with its five handlers, the unknown-command
refusal and the release of a named buffer; `rx_packet`'s table part with the buffering of a miss; the expiry sweep; the
flow-removed emission; flow / aggregate statistics).  The model mirrors the code in variants selected by a constant `Cfg` in the
state: the three repairs C04-1/2/3 (committed in `/repo`: 09c84e3, d2e474d, 0b8e7c4) and C03's variant of `ofp_match` (`Cfg.mv`: D37,
D38 committed, D26 `fixes/C03_D26_exact_ignores_prereqless.diff`).  `Cfg.repaired` has them all, `Cfg.head` none (a tree that reverts
them); the table's sort key is the variant's `effective_priority` (`Cfg.key`).
Standard: `Spec/OF10Table.lean` (§4.6 / §4.7 / §5.3.3) on top of `Spec/OF10Match.lean` (§3.4).  Helper lemmas:
`Proofs/FlowMod.lean`, `Proofs/FlowModRefine.lean`, `Proofs/StrictMatch.lean`, `Proofs/MatchCanon.lean`, `Proofs/Overlap.lean` and
C03's `Proofs/FlowTable`, `Proofs/Subsume`, `Proofs/MatchSubsume`.

All theorems quantify over every state / every history (no bound on table size, history length, priorities or times) and over
both code variants.  `table_sorted*`, `no_duplicates`, `removed_once`, `departures_leave`, `expiry_window`, `clock_inv` are about the
model alone and need no hypothesis.  The refinement to the standard — table, counters, clocks, every message including the
flow-removed stream — is `history_refines_partial`: it holds for every history whose transmitted matches are *regular* (`WireOk`).
The unrestricted statement `history_refines_full` is kept next to it; it is false for every variant, and the `…_defect`
theorems say exactly why: for the fully repaired variant only because of the open C03 finding D36 (ECN bits of the ToS byte — see
`regular_repaired`), for a tree that reverts a repair because of that repair's finding.  The harness replays every witness on the
real switch.

Trusted readings of the standard that `Spec/OF10Table.lean` shares with the code (they are choices, not consequences): CHECK_OVERLAP
compares *rank* (exact flows above all priorities) where §4.6 says "same priority"; an identical flow with CHECK_OVERLAP is refused
before it could be replaced; timeouts are strict (`>`), observed at sweeps; idle wins over hard when both have passed; among matching
flows of equal rank the newest is hit; a named buffer is released for every defined command. -/
namespace Pox.C04
open Pox.OF Pox.OF.OfMatch Pox.FlowMod Pox.Spec

/-! ## the table stays sorted -/

/-- Descending effective priority is an invariant of every operation: after every history of flow-mods (all commands, any flags,
    any buffer id), packet arrivals, clock advances, sweeps and statistics requests, started from any sorted table, the table is
    sorted. -/
theorem table_sorted (s : State) (ops : List Op) (hs : SortedC s.cfg s.table) : SortedC s.cfg (run s ops).1.table :=
  run_sorted s ops hs

theorem table_sorted_init (cfg : Cfg) (now mx mb : Nat) (ops : List Op) : SortedC cfg (run (init cfg now mx mb) ops).1.table :=
  run_sorted (init cfg now mx mb) ops List.Pairwise.nil

/-- … after every prefix of every history -/
theorem table_sorted_prefix (cfg : Cfg) (now mx mb : Nat) (ops : List Op) (k : Nat) :
    SortedC cfg (run (init cfg now mx mb) (ops.take k)).1.table :=
  table_sorted_init cfg now mx mb (ops.take k)

/-- "An identical match and priority replaces": in every state reachable from the empty table — whatever the history, with no
    hypothesis on the messages, in both code variants — no two entries are the same flow for the strict test (`==` at HEAD,
    mutual encompassing after repair C04-1) with equal priority.  ADD removes such an entry before inserting; MODIFY only acts
    as ADD when no entry was selected, and such an entry would have been. -/
theorem no_duplicates (cfg : Cfg) (now mx mb : Nat) (ops : List Op) : Uniq cfg (run (init cfg now mx mb) ops).1.table := by
  have := run_uniq (init cfg now mx mb) ops List.Pairwise.nil
  rw [run_cfg] at this
  exact this

/-! ## flow-removed: exactly once, for exactly the removals the entry asked to hear about -/

/-- **removed_once.**  For every state and every operation:

1. the flow-removed messages the step writes are, in order, one per *departure* (`departures`: entries an expiry sweep removes —
   idle-expired ones with reason IDLE_TIMEOUT, then hard-expired ones among the others with HARD_TIMEOUT — and entries DELETE /
   DELETE_STRICT select, with reason DELETE) whose entry carries `OFPFF_SEND_FLOW_REM` (and not `OFPFF_EMERG`), each carrying the
   entry's match, cookie, priority, that reason, the entry's age at the time of the step, its idle timeout and its packet and byte
   counters (`removedMsg`);
2. each departure is an entry of the table before the step, and its reason is the right one: IDLE_TIMEOUT only if the idle
   deadline has passed, HARD_TIMEOUT only if the hard deadline has passed and the idle one has not;
3. ADD (including the silent replacement of the entry with identical match and priority), MODIFY, MODIFY_STRICT (including
   modify-acting-as-add), an unknown command, the release of a named buffer, packet arrivals, clock advances and statistics
   requests produce no flow-removed message at all.

Together with `departures_leave` (the departures are exactly what leaves the table) this is "exactly one message per notifiable
removal, none otherwise". -/
theorem removed_once (s : State) (op : Op) :
    removals (step s op).2 =
      ((departures s op).filter (fun d => wantsRemoved d.1)).map (fun d => removedMsg s.now d.2 d.1) ∧
    (∀ d ∈ departures s op, d.1 ∈ s.table ∧
      (d.2 = OFPRR_IDLE_TIMEOUT → op = .sweep ∧ idleOut s.now d.1 = true) ∧
      (d.2 = OFPRR_HARD_TIMEOUT → op = .sweep ∧ idleOut s.now d.1 = false ∧ hardOut s.now d.1 = true) ∧
      (d.2 = OFPRR_DELETE → ∃ fm, op = .flowMod fm ∧ (fm.cmd = .delete ∨ fm.cmd = .deleteStrict))) ∧
    ((∀ fm, op = .flowMod fm → fm.cmd ≠ .delete ∧ fm.cmd ≠ .deleteStrict) → op ≠ .sweep → removals (step s op).2 = []) := by
  have n01 : OFPRR_IDLE_TIMEOUT ≠ OFPRR_HARD_TIMEOUT := by decide
  have n02 : OFPRR_IDLE_TIMEOUT ≠ OFPRR_DELETE := by decide
  have n12 : OFPRR_HARD_TIMEOUT ≠ OFPRR_DELETE := by decide
  refine ⟨step_removals s op, ?_, ?_⟩
  · intro d hd
    cases op with
    | sweep =>
      simp only [departures, List.mem_append, List.mem_map, List.mem_filter, Bool.and_eq_true, Bool.not_eq_true'] at hd
      rcases hd with ⟨e, ⟨he, hi⟩, rfl⟩ | ⟨e, ⟨he, hi, hh⟩, rfl⟩
      · exact ⟨he, fun _ => ⟨rfl, hi⟩, fun h => absurd h n01, fun h => absurd h n02⟩
      · exact ⟨he, fun h => absurd h n01.symm, fun _ => ⟨rfl, hi, hh⟩, fun h => absurd h n12⟩
    | flowMod fm =>
      cases hc : fm.cmd <;> simp only [departures, hc, List.not_mem_nil, List.mem_map, List.mem_filter] at hd
      · obtain ⟨e, ⟨he, _⟩, rfl⟩ := hd
        exact ⟨he, fun h => absurd h n02.symm, fun h => absurd h n12.symm, fun _ => ⟨fm, rfl, .inl hc⟩⟩
      · obtain ⟨e, ⟨he, _⟩, rfl⟩ := hd
        exact ⟨he, fun h => absurd h n02.symm, fun h => absurd h n12.symm, fun _ => ⟨fm, rfl, .inr hc⟩⟩
    | packet p port len => simp [departures] at hd
    | advance dt => simp [departures] at hd
    | flowStats m o => simp [departures] at hd
    | aggStats m o => simp [departures] at hd
  · intro hfm hsw
    rw [step_removals]
    cases op with
    | sweep => exact absurd rfl hsw
    | flowMod fm =>
      obtain ⟨h1, h2⟩ := hfm fm rfl
      cases hc : fm.cmd <;> simp_all [departures]
    | packet p port len => rfl
    | advance dt => rfl
    | flowStats m o => rfl
    | aggStats m o => rfl

/-- the departures are exactly what leaves the table in a sweep or a DELETE[_STRICT]: old table = new table + departed entries,
    as multisets (so every entry of the old table is accounted for exactly once: kept, or departed with one reason) -/
theorem departures_leave (s : State) (op : Op)
    (h : op = .sweep ∨ ∃ fm, op = .flowMod fm ∧ (fm.cmd = .delete ∨ fm.cmd = .deleteStrict)) :
    s.table.Perm ((step s op).1.table ++ (departures s op).map (·.1)) := by
  rcases h with rfl | ⟨fm, rfl, hc⟩
  · exact sweep_perm s
  · exact delete_perm s fm hc

/-! ## expiry -/

/-- **expiry_window.**
1. A sweep at time `now` removes an entry exactly when one of its deadlines lies *strictly* before `now`
   (`idle_timeout > 0 ∧ last_touched + idle_timeout < now`, or `hard_timeout > 0 ∧ created + hard_timeout < now`, seconds scaled to
   milliseconds): not earlier, and not later than the first sweep after the deadline — after any sweep no entry past a deadline is
   left, so no sweep between the deadline and `now` can have spared it.
2. No other operation removes an entry because of time (`step_keeps`: only a sweep, DELETE and the replacement by ADD take
   entries out).
3. Every entry of the table after a step is an entry of the table before with unchanged `created`, `last_touched`, counters and
   timeouts (`Kept`) — or the one entry a packet hit, whose `last_touched` becomes `now` and counters grow while `created` stays —
   or the entry a flow-mod just created.  So only traffic refreshes the idle clock and nothing refreshes the hard clock; MODIFY
   and the release of a buffered packet through a flow-mod leave both (and the counters) alone. -/
theorem expiry_window (s : State) :
    (∀ e, e ∈ (step s .sweep).1.table ↔
      e ∈ s.table ∧ ¬ (e.data.idle > 0 ∧ e.data.touched + e.data.idle * 1000 < s.now) ∧
        ¬ (e.data.hard > 0 ∧ e.data.created + e.data.hard * 1000 < s.now)) ∧
    (∀ op e', e' ∈ (step s op).1.table →
      Kept s e' ∨
      (∃ p inPort len, op = .packet p inPort len ∧
        ∃ e ∈ s.table, accepts s.cfg (pktMatch s.cfg p inPort) e = true ∧ e' = touch len s.now e) ∨
      (∃ fm, op = .flowMod fm ∧ e' = mkEntry s.cfg s.now fm ∧ fm.flags.testBit FF_EMERG = false)) := by
  refine ⟨?_, fun op e' h => step_clocks s op e' h⟩
  intro e
  simp only [FlowMod.step, FlowMod.sweep, List.mem_filter, Bool.and_eq_true, Bool.not_eq_true', ← idleOut_iff, ← hardOut_iff,
    Bool.not_eq_true]

/-- **Nothing else leaves the table** (no hypothesis, every state, every operation): every entry that the step may not take out —
    a sweep may take the expired ones, DELETE[_STRICT] the selected ones, ADD the ones equal to the new flow for the strict test
    (`mayLeave`) — is in the table after the step, in the same relative order, with the same match, priority, cookie, flags,
    timeouts and `created`.  So MODIFY[_STRICT], an ADD that is refused or acts for MODIFY, an unknown command, the release of a
    buffer, packet arrivals, clock advances and statistics requests keep every entry. -/
theorem step_keeps (s : State) (op : Op) :
    ((s.table.filter (fun e => !mayLeave s op e)).map ident).Sublist ((step s op).1.table.map ident) :=
  FlowMod.step_keeps s op

/-- `created ≤ last_touched ≤ now` in every reachable state: durations and idle times are never negative -/
theorem clock_inv (cfg : Cfg) (now mx mb : Nat) (ops : List Op) : ClockOk (run (init cfg now mx mb) ops).1 := by
  suffices h : ∀ (s : State), ClockOk s → ClockOk (run s ops).1 from h _ (fun _ h => by simp [init] at h)
  induction ops with
  | nil => exact fun s h => h
  | cons op ops ih => exact fun s h => ih _ (step_clockOk s op h)

/-! ## refinement to the standard -/

/-- the standard's table at the start of a history -/
def specInit (now mx mb : Nat) : STable := { flows := [], now := now, capacity := mx, buffers := { slots := [], max := mb } }

/-- **The full statement**: for EVERY history of flow-mods (any command, flags, out-port filter, buffer id), packet arrivals, clock
    advances, sweeps and statistics requests, the model's table — flows, actions, clocks, counters, order, stored buffers — equals
    the standard's table, and everything the switch writes (errors, packet-ins, released buffers, statistics, and the flow-removed
    stream with reasons, durations and counters) equals what the standard prescribes. -/
def history_refines_full (cfg : Cfg) : Prop :=
  ∀ (now mx mb : Nat) (ops : List Op),
    abs (run (init cfg now mx mb) ops).1 = (Spec.run (specInit now mx mb) ops).1 ∧
    (run (init cfg now mx mb) ops).2.map (fun os => os.map absOut) = (Spec.run (specInit now mx mb) ops).2

/-- **flowmod_refines_partial** (one step, every operation).  In a state satisfying the invariant (sorted; every entry stems from a
    regular transmitted match; at most `max_entries` entries), for an event satisfying its hypotheses *in that state* (`OpOk s`:
    regular match, 16-bit priority and followed actions in a flow-mod; complete frame — whose ECN bits matter only without repair D36
    and only if some installed flow compares the ToS byte; regular match in a statistics request), the model's step is the standard's
    step: same table (flows, actions, clocks, counters, order, buffers) and same messages — and the match every flow-removed /
    flow-stats message actually carries (`match.pack()`) denotes the packets of the flow it is about (`FaithfulOut`).  Covers ADD
    with replacement and counter reset, CHECK_OVERLAP (including address prefixes), table-full, emergency refusals, MODIFY /
    MODIFY_STRICT including modify-acts-as-add, DELETE / DELETE_STRICT with the `out_port` filter and flow-removed, unknown
    commands, the buffer named by a flow-mod (released through the flow-mod's actions; BUFFER_UNKNOWN / BUFFER_EMPTY), packet
    accounting, buffering of a miss, outputs to the controller (on a hit and on a release), sweeps, flow and aggregate statistics. -/
theorem flowmod_refines_partial (s : State) (op : Op) (hi : Inv s) (ho : OpOk s op) :
    abs (step s op).1 = (Spec.step (abs s) op).1 ∧ (step s op).2.map absOut = (Spec.step (abs s) op).2 ∧
    (∀ o ∈ (step s op).2, FaithfulOut o) ∧ Inv (step s op).1 :=
  ⟨(step_refines s op hi ho).1, (step_refines s op hi ho).2, step_outs_faithful s op hi, step_inv s op hi ho⟩

/-- **history_refines_partial.**  `history_refines_full` restricted to the histories all of whose events are regular in the state
    they are applied to (`HistOk`): from the empty table, the model's table equals the standard's after the history (hence after
    every prefix), everything written step by step equals what the standard prescribes, every match written denotes its flow, and
    the invariant holds.  Every code variant. -/
theorem history_refines_partial (cfg : Cfg) (now mx mb : Nat) (ops : List Op) (h : HistOk (init cfg now mx mb) ops) :
    abs (run (init cfg now mx mb) ops).1 = (Spec.run (specInit now mx mb) ops).1 ∧
    (run (init cfg now mx mb) ops).2.map (fun os => os.map absOut) = (Spec.run (specInit now mx mb) ops).2 ∧
    (∀ os ∈ (run (init cfg now mx mb) ops).2, ∀ o ∈ os, FaithfulOut o) ∧
    Inv (run (init cfg now mx mb) ops).1 :=
  let r := run_refines (init cfg now mx mb) ops (init_inv cfg now mx mb) h
  ⟨r.1, r.2.1, run_outs_faithful (init cfg now mx mb) ops (init_inv cfg now mx mb) h, r.2.2⟩

/-- what "regular" still means once every repair (C04-1/2/3, D37, D38, D26, D36) is in — no property of the code any more, only the
    reach of the model: a priority that fits its 16-bit field, actions the model follows (`actsOk`: no `output:TABLE`; outputs only
    around an `output:CONTROLLER`), complete frames -/
def RegularOp : Op → Prop
  | .flowMod fm => fm.priority ≤ 0xffff ∧ actsOk fm.actions = true
  | .packet p _ _ => Variant.repaired.regular p = true
  | _ => True

instance : (op : Op) → Decidable (RegularOp op)
  | .flowMod fm => inferInstanceAs (Decidable (fm.priority ≤ 0xffff ∧ actsOk fm.actions = true))
  | .packet p _ _ => inferInstanceAs (Decidable (Variant.repaired.regular p = true))
  | .flowStats _ _ => isTrue trivial
  | .aggStats _ _ => isTrue trivial
  | .advance _ => isTrue trivial
  | .sweep => isTrue trivial

theorem regular_repaired (s : State) (hc : s.cfg = Cfg.repaired) (op : Op) (h : RegularOp op) : OpOk s op := by
  have t1 : Cfg.repaired.maskUndefined ≠ false := by decide
  have t2 : Cfg.repaired.strictMutual ≠ false := by decide
  have t3 : Cfg.repaired.statsUnwire ≠ false := by decide
  have t4 : Cfg.repaired.mv.prereqExact ≠ false := by decide
  have t5 : Cfg.repaired.mv.exactSig ≠ false := by decide
  have t6 : ¬ (Cfg.repaired.tosDscp = false ∨ Cfg.repaired.strictMutual = false) := by decide
  have t7 : Cfg.repaired.tosDscp ≠ false := by decide
  cases op with
  | flowMod fm =>
    show MsgOk s.cfg fm
    rw [hc]
    exact { mok := { prereq := fun h => absurd h t4, tos := fun h => absurd h t6, exactL4 := fun h => absurd h t5,
                     width := fun h => absurd h t1, hostSrc := fun h => absurd h t2, hostDst := fun h => absurd h t2 },
            prio := h.1, acts := h.2 }
  | packet p port len =>
    show s.cfg.mv.regular p = true ∧ _
    rw [hc]
    exact ⟨h, .inl rfl⟩
  | flowStats m o =>
    show StatsOk s.cfg m
    rw [hc]; exact { prereq := fun h => absurd h t4, tos := fun h => absurd h t7, canon := fun h => absurd h t3 }
  | aggStats m o =>
    show StatsOk s.cfg m
    rw [hc]; exact { prereq := fun h => absurd h t4, tos := fun h => absurd h t7, canon := fun h => absurd h t3 }
  | advance dt => trivial
  | sweep => trivial

theorem histOk_repaired (s : State) (hc : s.cfg = Cfg.repaired) (ops : List Op) (h : ∀ op ∈ ops, RegularOp op) : HistOk s ops := by
  induction ops generalizing s with
  | nil => trivial
  | cons op ops ih =>
    exact ⟨regular_repaired s hc op (h op (by simp)), ih _ (by rw [step_cfg]; exact hc) (fun o ho => h o (by simp [ho]))⟩

/-- **With every repair the refinement holds for every history** the model reaches — no hypothesis on matches, ToS values,
    wildcard encodings or statistics requests is left; what remains restricts the model (16-bit priorities, followed actions,
    complete frames), not the code. -/
theorem history_refines_repaired (now mx mb : Nat) (ops : List Op) (h : ∀ op ∈ ops, RegularOp op) :
    abs (run (init Cfg.repaired now mx mb) ops).1 = (Spec.run (specInit now mx mb) ops).1 ∧
    (run (init Cfg.repaired now mx mb) ops).2.map (fun os => os.map absOut) = (Spec.run (specInit now mx mb) ops).2 ∧
    (∀ os ∈ (run (init Cfg.repaired now mx mb) ops).2, ∀ o ∈ os, FaithfulOut o) :=
  let r := history_refines_partial Cfg.repaired now mx mb ops (histOk_repaired _ rfl ops h)
  ⟨r.1, r.2.1, r.2.2.1⟩

def SOut.isRemoved : SOut → Bool
  | .flowRemoved _ => true
  | _ => false

/-- the notification stream: over a whole regular history the flow-removed messages the switch writes are, in order, exactly
    those of the standard — match, cookie, priority, reason, duration, idle timeout, packet and byte counts -/
theorem removed_stream_refines (cfg : Cfg) (now mx mb : Nat) (ops : List Op) (h : HistOk (init cfg now mx mb) ops) :
    (((run (init cfg now mx mb) ops).2.flatten).map absOut).filter SOut.isRemoved =
      ((Spec.run (specInit now mx mb) ops).2.flatten).filter SOut.isRemoved := by
  rw [← (history_refines_partial cfg now mx mb ops h).2.1, List.map_flatten]

/-- what the code's match tests mean in the standard's terms, for regular transmitted matches and both code variants: the
    non-strict test is subsumption of every 12-tuple, the strict test is "same set of 12-tuples" -/
theorem selection_meaning (cfg : Cfg) (a b : OfMatch) (ha : WireOk cfg a) (hb : WireOk cfg b) :
    (matchW cfg true (rxMatch cfg a) (rxMatch cfg b) = true ↔ ∀ h : Headers, matchHdr b h = true → matchHdr a h = true) ∧
    (strictMatch cfg (rxMatch cfg a) (rxMatch cfg b) = true ↔ ∀ h : Headers, matchHdr a h = matchHdr b h) := by
  rw [rx_subsumes cfg a b ha hb, rx_strict cfg a b ha hb]
  exact ⟨subsumes_forall a b, identical_iff a b⟩

/-- the standard's overlap relation used by `Spec.add` is "a single packet may match both" -/
theorem overlap_meaning (a b : OfMatch) : overlaps a b = true ↔ ∃ h : Headers, matchHdr a h = true ∧ matchHdr b h = true :=
  overlaps_iff_exists a b

/-- **D23 (fixed in `/repo`, c244d60).**  `check_for_overlapping_entry` answers exactly as the standard prescribes: for a regular
    flow-mod it reports an overlap iff some installed flow of the new flow's rank (exact flows above all priorities) can be
    matched by a packet that also matches the new flow — including flows that overlap only partially (`partial_overlap_witness`,
    `cidr_overlap_witness`). -/
theorem overlap_check_exact (s : State) (fm : FlowModMsg) (hi : Inv s) (hm : MsgOk s.cfg fm) (he : fm.flags.testBit FF_EMERG = false) :
    overlapScan s.cfg (s.cfg.key (mkEntry s.cfg s.now fm)) (rxMatch s.cfg fm.mtch) s.table = true ↔
      ∃ e ∈ s.table, (absEntry e).rank = (newFlow s.now fm).rank ∧
        ∃ h : Headers, matchHdr e.data.wire h = true ∧ matchHdr fm.mtch h = true := by
  rw [overlap_abs s fm hi hm he]
  simp only [abs, List.any_map, List.any_eq_true, Function.comp, Bool.and_eq_true, beq_iff_eq, overlaps_iff_exists]
  rfl

/-! ## witnesses: the hypotheses are satisfiable by non-trivial histories, and what happens outside them -/

/-- wildcard word with every flag set except those listed, and the two prefix counters -/
def wc (clear : List Fld) (src dst : Nat) : Nat :=
  (Fld.all.filter (fun f => !clear.contains f)).foldl (fun w f => w ||| f.mask) 0 ||| src <<< 8 ||| dst <<< 14

def zeroMatch : OfMatch :=
  { wildcards := 0, inPort := 0, dlSrc := 0, dlDst := 0, dlVlan := 0, dlVlanPcp := 0, dlType := 0, nwTos := 0, nwProto := 0,
    nwSrc := 0, nwDst := 0, tpSrc := 0, tpDst := 0 }

def mAll : OfMatch := { zeroMatch with wildcards := wc [] 32 32 }
def mInPort1 : OfMatch := { zeroMatch with wildcards := wc [.inPort] 32 32, inPort := 1 }
def mIp : OfMatch := { zeroMatch with wildcards := wc [.dlType] 32 32, dlType := 0x0800 }
/-- the same flow as `mIp`, encoded with the (ignored) tp_src bit clear -/
def mIpB : OfMatch := { zeroMatch with wildcards := wc [.dlType, .tpSrc] 32 32, dlType := 0x0800 }
def mNet8 : OfMatch := { zeroMatch with wildcards := wc [.dlType] 24 32, dlType := 0x0800, nwSrc := 0x0a000000 }
/-- `nw_dst = 10.2.0.0/16`: overlaps `mNet8` (a packet 10.x → 10.2.y), neither contains the other -/
def mDst16 : OfMatch := { zeroMatch with wildcards := wc [.dlType] 32 16, dlType := 0x0800, nwDst := 0x0a020000 }
/-- `nw_src = 11.0.0.0/8`: disjoint from `mNet8` -/
def mNet8o : OfMatch := { zeroMatch with wildcards := wc [.dlType] 24 32, dlType := 0x0800, nwSrc := 0x0b000000 }
def mTcp80 : OfMatch := { zeroMatch with wildcards := wc [.dlType, .nwProto, .tpDst] 32 32, dlType := 0x0800, nwProto := 6, tpDst := 80 }
def mArp : OfMatch := { zeroMatch with wildcards := wc [.dlType] 32 32, dlType := 0x0806 }

/-- 10.1.1.1:1000 → 10.2.2.2:80 TCP, untagged -/
def tcpFrame : PHdr :=
  { src := 1, dst := 2, typ := 0x0800, llc := none, vlan := none, l3 := .ipv4 0x0a010101 0x0a020202 6 0 false (.ports 1000 80) }
/-- an ARP request -/
def arpFrame : PHdr :=
  { src := 1, dst := 2, typ := 0x0806, llc := none, vlan := none, l3 := .arp 1 0x0a000001 0x0a000002 }

def fmsg (cmd : Cmd) (m : OfMatch) (prio flags cookie : Nat) (idle hard : Nat := 0) (outPort : Nat := OFPP_NONE)
    (acts : List Action := [.output 2 0]) (buf : Option Nat := none) : Op :=
  .flowMod { cmd := cmd, mtch := m, cookie := cookie, idle := idle, hard := hard, priority := prio, outPort := outPort, flags := flags,
             actions := acts, bufferId := buf }

/-- a history that uses every command, both flags, the `out_port` filter, buffers, traffic, the clock and sweeps -/
def demo : List Op :=
  [ .packet arpFrame 3 60,                                         -- miss: stored as buffer 1, packet-in
    fmsg .add mIp 100 1 1 (idle := 1) (hard := 5),                 -- SEND_FLOW_REM, idle 1 s
    fmsg .add mNet8 100 3 2 (acts := [.output 3 0]),               -- CHECK_OVERLAP|SEND_FLOW_REM: refused, overlaps (is inside) mIp
    fmsg .add mNet8 200 3 3 (acts := [.output 3 0]),               -- other priority: accepted
    fmsg .add mArp 100 2 4 (buf := some 1),                        -- CHECK_OVERLAP: disjoint from mIp, accepted; releases buffer 1
    .packet tcpFrame 1 74,                                         -- hits mNet8 (priority 200)
    fmsg .modify mIp 7 0 5 (acts := []) (buf := some 1),           -- non-strict: rewrites mIp and mNet8; buffer 1 already used
    fmsg .modifyStrict mTcp80 7 1 6 (hard := 1),                   -- nothing identical: acts as ADD
    fmsg .add mIpB 100 0 7,                                        -- identical to mIp (other encoding): replaces it silently
    .advance 1125, .sweep,                                         -- mTcp80 hard-expires (flow-removed, reason 1)
    fmsg .delete mAll 0 0 8 (outPort := 3) (buf := some 9),        -- out_port filter: nothing outputs to 3 any more; no buffer 9
    fmsg (.unknown 7) mAll 0 0 9 (buf := some 1),                  -- BAD_COMMAND, nothing else
    fmsg .deleteStrict mNet8 200 0 10,                             -- flow-removed, reason 2, with the packet counted
    fmsg .add mTcp80 300 0 11 (acts := [.output 2 0, .output OFPP_CONTROLLER 64]),   -- a flow that also sends to the controller
    .packet tcpFrame 1 74,                                         -- hits it: stored as buffer 1 again, packet-in reason ACTION
    .aggStats mAll OFPP_NONE ]

-- the hypotheses of `history_refines_partial` hold for `demo`, in both variants …
example : HistOk (init Cfg.head 1000000 100 4) demo ∧ HistOk (init Cfg.repaired 1000000 100 4) demo ∧ ∀ op ∈ demo, RegularOp op := by
  decide
-- … the history is not trivial: packet-in with buffer id, overlap refusal, release of the buffer, BUFFER_EMPTY / BUFFER_UNKNOWN,
-- hard-timeout and delete notifications, BAD_COMMAND, the aggregate of what is left — the same in both variants
example : ∀ cfg ∈ [Cfg.head, Cfg.repaired], (run (init cfg 1000000 100 4) demo).2.map (fun os => os.map absOut) =
    [[.packetIn 3 (some 1) 0], [], [.error 3 1], [], [.release 1 ⟨arpFrame, 60, 3⟩ [.output 2 0]], [], [.error 1 7], [], [], [],
     [.flowRemoved ⟨mTcp80, 6, 7, 1, 1, 125000000, 0, 0, 0⟩], [.error 1 8], [.error 3 4],
     [.flowRemoved ⟨mNet8, 3, 200, 2, 1, 125000000, 0, 1, 74⟩], [], [.packetIn 1 (some 1) 1], [.aggStats 1 74 3]] := by decide
example : (run (init Cfg.head 1000000 100 4) demo).1.table.map (fun e => (e.data.cookie, e.priority, e.data.actions)) =
    [(11, 300, [.output 2 0, .output OFPP_CONTROLLER 64]), (7, 100, [.output 2 0]), (4, 100, [.output 2 0])] := by decide
-- `removed_once` / `expiry_window`: a state with departures and entries that stay
example : (departures (run (init Cfg.head 1000000 100 4) (demo.take 10)).1 .sweep).map (fun d => (d.1.data.cookie, d.2)) = [(6, 1)] ∧
    (run (init Cfg.head 1000000 100 4) (demo.take 10)).1.table.length = 4 := by decide
-- `no_duplicates`: the replacement in `demo` (cookie 7 took the place of cookie 1, same flow in another encoding)
example : ∀ cfg ∈ [Cfg.head, Cfg.repaired],
    sameKey cfg (mkEntry cfg 0 ⟨.add, mIp, 1, 0, 0, 100, OFPP_NONE, 0, [], none⟩)
      (mkEntry cfg 5 ⟨.add, mIpB, 7, 0, 0, 100, OFPP_NONE, 0, [], none⟩) = true := by decide
-- `selection_meaning` / `WireOk`: regular matches, both outcomes
example : WireOk Cfg.head mNet8 ∧ WireOk Cfg.head mIp ∧ WireOk Cfg.head mIpB ∧ WireOk Cfg.repaired mTcp80 := by decide
example : matchesWith true (ofWire mIp) (ofWire mNet8) = true ∧ matchesWith true (ofWire mNet8) (ofWire mIp) = false ∧
    eqMatch (ofWire mIp) (ofWire mIpB) = true ∧ eqMatch (ofWire mIp) (ofWire mNet8) = false := by decide

/-! ### CHECK_OVERLAP on partially overlapping flows (D23, fixed) -/

/-- `in_port=1` and `dl_type=0x0800`, same priority, both with `OFPFF_CHECK_OVERLAP`: an IPv4 frame arriving on port 1 matches
    both although neither description subsumes the other — the mutual-subsumption test of the code before the fix accepted the
    second ADD.  Standard and model refuse it with `OFPFMFC_OVERLAP`. -/
theorem partial_overlap_witness :
    let ops := [fmsg .add mInPort1 100 2 1, fmsg .add mIp 100 2 2]
    HistOk (init Cfg.head 0 100 4) ops ∧
    matchHdr mInPort1 (headers tcpFrame 1) = true ∧ matchHdr mIp (headers tcpFrame 1) = true ∧
    subsumes mInPort1 mIp = false ∧ subsumes mIp mInPort1 = false ∧
    (run (init Cfg.head 0 100 4) ops).1.table.map (·.data.cookie) = [1] ∧
    (run (init Cfg.head 0 100 4) ops).2 = [[], [.error OFPET_FLOW_MOD_FAILED OFPFMFC_OVERLAP]] ∧
    (Spec.run (specInit 0 100 4) ops).2 = [[], [.error OFPET_FLOW_MOD_FAILED OFPFMFC_OVERLAP]] := by decide

/-- address prefixes: `nw_src=10/8` and `nw_dst=10.2/16` overlap without containment (refused); `nw_src=10/8` and `nw_src=11/8` are
    disjoint (accepted) -/
theorem cidr_overlap_witness :
    let ops := [fmsg .add mNet8 100 2 1, fmsg .add mDst16 100 2 2, fmsg .add mNet8o 100 2 3]
    HistOk (init Cfg.head 0 100 4) ops ∧ overlaps mNet8 mDst16 = true ∧ subsumes mNet8 mDst16 = false ∧ subsumes mDst16 mNet8 = false ∧
    overlaps mNet8 mNet8o = false ∧
    (run (init Cfg.head 0 100 4) ops).1.table.map (·.data.cookie) = [3, 1] ∧
    (run (init Cfg.head 0 100 4) ops).2 = [[], [.error OFPET_FLOW_MOD_FAILED OFPFMFC_OVERLAP], []] := by decide

/-! ### what the hypotheses exclude (open findings; the harness replays the same inputs on the real switch) -/

/-- 10.9.9.9/8 and 10.1.1.1/8: the same flow (only the 8 prefix bits are compared), written with different host bits -/
def mNet8a : OfMatch := { mNet8 with nwSrc := 0x0a090909 }
def mNet8b : OfMatch := { mNet8 with nwSrc := 0x0a010101 }

/-- **C04-1** — at HEAD `ofp_match.__eq__` compares the address fields unmasked.  Two ADDs of the same flow (`nw_src=10.x.x.x/8`,
    same priority) whose address fields differ below the prefix length do not replace each other: the table ends with two
    entries where the standard has one (and DELETE_STRICT / MODIFY_STRICT miss the flow in the same way).  The matches denote the
    same set of packets (`identical`); of `WireOk Cfg.head` only the no-host-bits clause fails.  With the repair
    (`fixes/C04-1_strict_match_same_packets.diff`: strict = each match encompasses the other) the input is regular and the
    second ADD replaces the first. -/
theorem strict_hostbits_defect :
    let ops := [fmsg .add mNet8a 100 0 1, fmsg .add mNet8b 100 0 2]
    identical mNet8a mNet8b = true ∧ PrereqExact mNet8a ∧ mNet8a.wildcards < 2 ^ 22 ∧ ¬ WireOk Cfg.head mNet8a ∧
    (run (init Cfg.head 0 100 4) ops).1.table.map (·.data.cookie) = [2, 1] ∧
    (Spec.run (specInit 0 100 4) ops).1.flows.map (·.cookie) = [2] ∧
    HistOk (init Cfg.repaired 0 100 4) ops ∧ (run (init Cfg.repaired 0 100 4) ops).1.table.map (·.data.cookie) = [2] := by decide

/-- "all wildcards" written as `0xffffffff` (bits 22..31 are undefined in OpenFlow 1.0) -/
def mAllHi : OfMatch := { zeroMatch with wildcards := 0xffffffff }

/-- **C04-2** — at HEAD the undefined bits 22..31 of the wildcard word are kept and compared.  A match-all flow installed with
    `wildcards = 0xffffffff` survives `DELETE` with the match-all `OFPFW_ALL` (0x3fffff): the code requires the entry's wildcard
    flags to be a subset of the request's.  In the standard both words denote every packet, and the delete empties the table.
    With the repair (`fixes/C04-2_flow_mod_undefined_wildcard_bits.diff`: `_rx_flow_mod` drops the undefined bits) it does. -/
theorem undefined_bits_defect :
    let ops := [fmsg .add mAllHi 100 0 1, fmsg .delete mAll 0 0 2]
    subsumes mAll mAllHi = true ∧ PrereqExact mAllHi ∧ ¬ WireOk Cfg.head mAllHi ∧
    (run (init Cfg.head 0 100 4) ops).1.table.map (·.data.cookie) = [1] ∧
    (Spec.run (specInit 0 100 4) ops).1.flows = [] ∧
    HistOk (init Cfg.repaired 0 100 4) ops ∧ (run (init Cfg.repaired 0 100 4) ops).1.table = [] := by decide

/-- **Bits 22..31 of the wildcard word are absent** (repair C04-2, for every later use of the match, not only for what is stored):
    two transmitted records that differ in the undefined bits only give the flow-mod handlers the same match object — so the entry
    an ADD stores is the same, and every installed entry is selected or not selected alike by the strict test (ADD's replacement,
    MODIFY_STRICT, DELETE_STRICT), by the non-strict test (MODIFY, DELETE) and under every out_port filter, whichever of the two
    spellings installed the entry and whichever names it later. -/
theorem undefined_bits_absent (cfg : Cfg) (h : cfg.maskUndefined = true) (r r' : OfMatch) (hr : maskUndef r = maskUndef r') :
    rxMatch cfg r = rxMatch cfg r' ∧
    (∀ (now : Nat) (fm : FlowModMsg), (mkEntry cfg now { fm with mtch := r }).mtch = (mkEntry cfg now { fm with mtch := r' }).mtch) ∧
    (∀ (e : FEntry) (prio : Nat) (strict : Bool) (outPort : Option Nat),
      isMatchedBy cfg e (rxMatch cfg r) prio strict outPort = isMatchedBy cfg e (rxMatch cfg r') prio strict outPort) ∧
    (∀ (now : Nat) (fm : FlowModMsg) (m : OfMatch) (prio : Nat) (strict : Bool) (outPort : Option Nat),
      isMatchedBy cfg (mkEntry cfg now { fm with mtch := r }) m prio strict outPort =
      isMatchedBy cfg (mkEntry cfg now { fm with mtch := r' }) m prio strict outPort) := by
  have e : rxMatch cfg r = rxMatch cfg r' := by
    rw [← rxMatch_maskUndef cfg h r, ← rxMatch_maskUndef cfg h r', hr]
  refine ⟨e, fun _ _ => e, fun _ _ _ _ => by rw [e], fun now fm m prio strict outPort => ?_⟩
  unfold isMatchedBy mkEntry
  simp only [e]

/-- a record with some of the undefined bits set on top -/
def withHi (m : OfMatch) (hi : Nat) : OfMatch := { m with wildcards := m.wildcards + hi * 2 ^ 22 }

/-- the hypothesis is met by records that differ (all ten bits on match-all, bit 31 alone on a prefix match); with the repair the
    strict test takes the two spellings for one flow, a tree without it does not -/
example : maskUndef (withHi mAll 0x3ff) = maskUndef mAll ∧ withHi mAll 0x3ff ≠ mAll ∧
    maskUndef (withHi mNet8 0x200) = maskUndef mNet8 ∧
    strictMatch Cfg.repaired (rxMatch Cfg.repaired mNet8) (rxMatch Cfg.repaired (withHi mNet8 0x200)) = true ∧
    strictMatch Cfg.head (rxMatch Cfg.head mNet8) (rxMatch Cfg.head (withHi mNet8 0x200)) = false := by decide

/-- an ARP description whose (ignored) tp_src bit is clear, as a controller that only sets the bits it cares about sends it -/
def mArpQ : OfMatch := { zeroMatch with wildcards := wc [.dlType, .tpSrc] 32 32, dlType := 0x0806 }

/-- **C04-3** — at HEAD statistics requests use their match as decoded by `unpack(flow_mod=False)`, so a field the standard ignores
    (tp_src of an ARP description) but that is not wildcarded makes the request select nothing: aggregate statistics for "all ARP
    flows" report 0 flows with one ARP flow installed.  The standard counts the flow; of `StatsOk Cfg.head` the clause
    `ofWirePlain m = ofWire m` fails.  With the repair (`fixes/C04-3_stats_request_match_unwired.diff`) the flow is counted. -/
theorem stats_unwired_defect :
    let ops := [fmsg .add mArp 100 0 1, .aggStats mArpQ OFPP_NONE]
    subsumes mArpQ mArp = true ∧ ofWirePlain mArpQ ≠ ofWire mArpQ ∧ ¬ StatsOk Cfg.head mArpQ ∧
    (run (init Cfg.head 0 100 4) ops).2 = [[], [.aggStats 0 0 0]] ∧
    (Spec.run (specInit 0 100 4) ops).2 = [[], [.aggStats 0 0 1]] ∧
    HistOk (init Cfg.repaired 0 100 4) ops ∧ (run (init Cfg.repaired 0 100 4) ops).2 = [[], [.aggStats 0 0 1]] := by decide

/-- the unrestricted statement fails at HEAD (C04-1's input) … -/
theorem history_refines_full_defect_head : ¬ history_refines_full Cfg.head := by
  intro h
  have := congrArg (fun t : STable => t.flows.map (·.cookie)) (h 0 100 4 [fmsg .add mNet8a 100 0 1, fmsg .add mNet8b 100 0 2]).1
  revert this
  decide

/-- the exact-match description of an ARP request (no wildcard bit): the class of D26 -/
def mArpExact : OfMatch :=
  { wildcards := 0, inPort := 1, dlSrc := 1, dlDst := 2, dlVlan := 0xffff, dlVlanPcp := 0, dlType := 0x0806, nwTos := 0, nwProto := 1,
    nwSrc := 0x0a000001, nwDst := 0x0a000002, tpSrc := 0, tpDst := 0 }

/-- every repair but D26 -/
def cfgNoD26 : Cfg := { Cfg.repaired with mv := { Variant.repaired with exactSig := false } }

/-- **D26** (C03's finding, seen through the table) — without the repair, an exact-match flow that is not IPv4 TCP/UDP/ICMP gets
    its own priority as sort key instead of the exact-match rank: installed with priority 1 it ends up *behind* a wildcarded flow
    of priority 100, where the standard (and the repaired variant, whose key is `Cfg.key Cfg.repaired`) has it in front. -/
theorem exact_rank_defect :
    let ops := [fmsg .add mArpExact 1 0 1, fmsg .add mInPort1 100 0 2]
    Spec.exactSig mArpExact = true ∧ ¬ WireOk cfgNoD26 mArpExact ∧
    (run (init cfgNoD26 0 100 4) ops).1.table.map (·.data.cookie) = [2, 1] ∧
    (Spec.run (specInit 0 100 4) ops).1.flows.map (·.cookie) = [1, 2] ∧
    HistOk (init Cfg.repaired 0 100 4) ops ∧ (run (init Cfg.repaired 0 100 4) ops).1.table.map (·.data.cookie) = [1, 2] := by decide

/-- `dl_type=0x0800, nw_tos` with and without the ECT(0) bit: the same flow for the standard (only the 6 DSCP bits count) -/
def mTos (t : Nat) : OfMatch := { zeroMatch with wildcards := wc [.dlType, .nwTos] 32 32, dlType := 0x0800, nwTos := t }

/-- the TCP frame with ECT(0) set in its ToS byte -/
def tcpFrameEcn : PHdr := { tcpFrame with l3 := .ipv4 0x0a010101 0x0a020202 6 2 false (.ports 1000 80) }

/-- every repair but D36 -/
def cfgNoD36 : Cfg := { Cfg.repaired with tosDscp := false }

/-- **D36** (C03's finding, seen through the table; repair `fixes/C04_D36_tos_dscp.diff`) — without the repair the code compares
    all 8 bits of the ToS byte: a flow `nw_tos = 0` misses an ECN-marked packet of DSCP 0 (packet-in instead of a hit), and two
    ADDs of the same flow written with different ECN bits do not replace each other.  With the repair both follow the standard,
    and an ECN-marked packet is harmless whatever the table holds — while without it it is harmless only as long as no installed
    flow compares the ToS byte (`OpOk`'s state-dependent clause: the history below is regular until the flow is installed). -/
theorem tos_ecn_defect :
    let ops := [.packet tcpFrameEcn 1 74, fmsg .add (mTos 0) 100 0 1, .packet tcpFrameEcn 1 74, fmsg .add (mTos 2) 100 0 2]
    HistOk (init cfgNoD36 0 100 4) (ops.take 2) ∧ ¬ HistOk (init cfgNoD36 0 100 4) (ops.take 3) ∧
    ((run (init cfgNoD36 0 100 4) ops).2.map (fun os => os.map absOut)).getD 2 [] = [.packetIn 1 (some 2) 0] ∧
    (run (init cfgNoD36 0 100 4) ops).1.table.map (·.data.cookie) = [2, 1] ∧
    (Spec.run (specInit 0 100 4) ops).2.getD 2 [] = [] ∧ (Spec.run (specInit 0 100 4) ops).1.flows.map (·.cookie) = [2] ∧
    HistOk (init Cfg.repaired 0 100 4) ops ∧
    ((run (init Cfg.repaired 0 100 4) ops).2.map (fun os => os.map absOut)).getD 2 [] = [] ∧
    (run (init Cfg.repaired 0 100 4) ops).1.table.map (·.data.cookie) = [2] := by decide

end Pox.C04
