import PoxModel.Spec.OF10Table
namespace Pox.C04
end Pox.C04
