import PoxModel.Proofs.FlowModRefine
/-! # C04 — the flow table evolves as the OpenFlow 1.0 FLOW_MOD / timeout state machine

Property theorems only.  Model: `Model/FlowMod.lean` (`step`, `run` — the flow-mod handlers, `rx_packet`'s table part, the expiry
sweep and the flow-removed emission of the software switch, as the code stands at `/repo` HEAD *with the proposed repair D23
applied*: `check_for_overlapping_entry` tests the standard's overlap, `/verif/fixes/D23_check_overlap_true_overlap.diff`); standard: `Spec/OF10Table.lean`
(§4.6 / §4.7) on top of `Spec/OF10Match.lean` (§3.4); helper lemmas: `Proofs/FlowMod.lean`, `Proofs/FlowModRefine.lean`,
`Proofs/StrictMatch.lean`, `Proofs/Overlap.lean` and C03's `Proofs/FlowTable`, `Proofs/Subsume`, `Proofs/MatchSubsume`.

All theorems quantify over every state / every history (no bound on table size, history length, priorities or times).
`table_sorted`, `removed_once`, `expiry_window`, `clock_inv` are about the model alone and hold without hypotheses.  The refinement
theorems (`flowmod_refines`, `history_refines`) compare with the standard and need hypotheses on the transmitted matches
(`MatchOk`).  Each hypothesis that the real code needs is witnessed by a `…_defect` theorem at the end (the harness replays the
same inputs on the real switch).  D23 (CHECK_OVERLAP tested mutual subsumption) is repaired rather than excluded:
`overlap_check_exact` is the statement that failed before the repair, `partial_overlap_witness` the input that showed it. -/
namespace Pox.C04
open Pox.OF Pox.OF.OfMatch Pox.FlowMod Pox.Spec

/-! ## the table stays sorted -/

/-- Descending effective priority is an invariant of every operation: after every prefix of every history of flow-mods
    (all five commands, any flags), packet arrivals, clock advances, sweeps and statistics requests, started from the empty
    table (or any sorted one), the table is sorted.  (`(run s ops).1` is the state after `ops`; every prefix of a history is a
    history.) -/
theorem table_sorted (s : State) (ops : List Op) (hs : Sorted s.table) : Sorted (run s ops).1.table := run_sorted s ops hs

theorem table_sorted_init (now mx : Nat) (ops : List Op) : Sorted (run (init now mx) ops).1.table :=
  run_sorted _ ops List.Pairwise.nil

/-- "An identical match and priority replaces": in every state reachable from the empty table — whatever the history, with no
    hypothesis on the messages — no two entries have equal match (`ofp_match.__eq__`) and equal priority.  ADD removes the equal
    entry before inserting; MODIFY only acts as ADD when no entry was selected, and an equal entry would have been. -/
theorem no_duplicates (now mx : Nat) (ops : List Op) : Uniq (run (init now mx) ops).1.table :=
  run_uniq _ ops List.Pairwise.nil

/-! ## flow-removed: exactly once, for exactly the removals the entry asked to hear about -/

/-- **removed_once.**  For every state and every operation:

1. the flow-removed messages the step writes are, in order, one per *departure* (`departures`: entries an expiry sweep removes —
   idle-expired ones with reason IDLE_TIMEOUT, then hard-expired ones among the others with HARD_TIMEOUT — and entries DELETE /
   DELETE_STRICT select, with reason DELETE) whose entry carries `OFPFF_SEND_FLOW_REM` (and not `OFPFF_EMERG`), each carrying the
   entry's match, cookie, priority, that reason, the entry's age at the time of the step, its idle timeout and its packet and byte
   counters (`removedMsg`);
2. each departure is an entry of the table before the step, and its reason is the right one: IDLE_TIMEOUT only if the idle
   deadline has passed, HARD_TIMEOUT only if the hard deadline has passed and the idle one has not;
3. ADD (including the silent replacement of the entry with identical match and priority), MODIFY, MODIFY_STRICT (including
   modify-acting-as-add), packet arrivals, clock advances and statistics requests produce no flow-removed message at all.

Together with `departures_leave` (the departures are exactly what leaves the table) this is "exactly one message per notifiable
removal, none otherwise".  This is what the code does; it is also what the standard prescribes (§4.6: a replaced flow is removed
without notification; §4.7 / §5.4.2), see `history_refines`. -/
theorem removed_once (s : State) (op : Op) :
    removals (step s op).2 =
      ((departures s op).filter (fun d => wantsRemoved d.1)).map (fun d => removedMsg s.now d.2 d.1) ∧
    (∀ d ∈ departures s op, d.1 ∈ s.table ∧
      (d.2 = OFPRR_IDLE_TIMEOUT → op = .sweep ∧ idleOut s.now d.1 = true) ∧
      (d.2 = OFPRR_HARD_TIMEOUT → op = .sweep ∧ idleOut s.now d.1 = false ∧ hardOut s.now d.1 = true) ∧
      (d.2 = OFPRR_DELETE → ∃ fm, op = .flowMod fm ∧ (fm.cmd = .delete ∨ fm.cmd = .deleteStrict))) ∧
    ((∀ fm, op = .flowMod fm → fm.cmd = .add ∨ fm.cmd = .modify ∨ fm.cmd = .modifyStrict) → op ≠ .sweep →
      removals (step s op).2 = []) := by
  have n01 : OFPRR_IDLE_TIMEOUT ≠ OFPRR_HARD_TIMEOUT := by decide
  have n02 : OFPRR_IDLE_TIMEOUT ≠ OFPRR_DELETE := by decide
  have n12 : OFPRR_HARD_TIMEOUT ≠ OFPRR_DELETE := by decide
  refine ⟨step_removals s op, ?_, ?_⟩
  · intro d hd
    cases op with
    | sweep =>
      simp only [departures, List.mem_append, List.mem_map, List.mem_filter, Bool.and_eq_true, Bool.not_eq_true'] at hd
      rcases hd with ⟨e, ⟨he, hi⟩, rfl⟩ | ⟨e, ⟨he, hi, hh⟩, rfl⟩
      · exact ⟨he, fun _ => ⟨rfl, hi⟩, fun h => absurd h n01, fun h => absurd h n02⟩
      · exact ⟨he, fun h => absurd h n01.symm, fun _ => ⟨rfl, hi, hh⟩, fun h => absurd h n12⟩
    | flowMod fm =>
      cases hc : fm.cmd <;> simp only [departures, hc, List.not_mem_nil, List.mem_map, List.mem_filter] at hd
      · obtain ⟨e, ⟨he, _⟩, rfl⟩ := hd
        exact ⟨he, fun h => absurd h n02.symm, fun h => absurd h n12.symm, fun _ => ⟨fm, rfl, .inl hc⟩⟩
      · obtain ⟨e, ⟨he, _⟩, rfl⟩ := hd
        exact ⟨he, fun h => absurd h n02.symm, fun h => absurd h n12.symm, fun _ => ⟨fm, rfl, .inr hc⟩⟩
    | packet p port len => simp [departures] at hd
    | advance dt => simp [departures] at hd
    | flowStats m o => simp [departures] at hd
    | aggStats m o => simp [departures] at hd
  · intro hfm hsw
    rw [step_removals]
    cases op with
    | sweep => exact absurd rfl hsw
    | flowMod fm =>
      rcases hfm fm rfl with h | h | h <;> simp [departures, h]
    | packet p port len => rfl
    | advance dt => rfl
    | flowStats m o => rfl
    | aggStats m o => rfl

/-- the departures are exactly what leaves the table in a sweep or a DELETE[_STRICT]: old table = new table + departed entries,
    as multisets (so every entry of the old table is accounted for exactly once: kept, or departed with one reason) -/
theorem departures_leave (s : State) (op : Op)
    (h : op = .sweep ∨ ∃ fm, op = .flowMod fm ∧ (fm.cmd = .delete ∨ fm.cmd = .deleteStrict)) :
    s.table.Perm ((step s op).1.table ++ (departures s op).map (·.1)) := by
  rcases h with rfl | ⟨fm, rfl, hc⟩
  · exact sweep_perm s
  · exact delete_perm s fm hc

/-! ## expiry -/

/-- **expiry_window.**
1. A sweep at time `now` removes an entry exactly when one of its deadlines lies *strictly* before `now`
   (`idle_timeout > 0 ∧ last_touched + idle_timeout < now`, or `hard_timeout > 0 ∧ created + hard_timeout < now`, seconds scaled to
   milliseconds): not earlier, and not later than the first sweep after the deadline — after any sweep no entry past a deadline is
   left, so no sweep between the deadline and `now` can have spared it.
2. No other operation removes an entry because of time (`removed_once`: only DELETE and the replacement by ADD take entries out).
3. Every entry of the table after a step is an entry of the table before with unchanged `created`, `last_touched`, counters and
   timeouts (`Kept`) — or the one entry a packet hit, whose `last_touched` becomes `now` and counters grow while `created` stays —
   or the entry a flow-mod just created.  So only traffic refreshes the idle clock and nothing refreshes the hard clock; MODIFY
   leaves both alone. -/
theorem expiry_window (s : State) :
    (∀ e, e ∈ (step s .sweep).1.table ↔
      e ∈ s.table ∧ ¬ (e.data.idle > 0 ∧ e.data.touched + e.data.idle * 1000 < s.now) ∧
        ¬ (e.data.hard > 0 ∧ e.data.created + e.data.hard * 1000 < s.now)) ∧
    (∀ op e', e' ∈ (step s op).1.table →
      Kept s e' ∨
      (∃ p inPort len, op = .packet p inPort len ∧ ∃ e ∈ s.table, e.accepts (fromPacket p inPort) = true ∧ e' = touch len s.now e) ∨
      (∃ fm, op = .flowMod fm ∧ e' = mkEntry s.now fm ∧ fm.flags.testBit FF_EMERG = false)) := by
  refine ⟨?_, fun op e' h => step_clocks s op e' h⟩
  intro e
  simp only [FlowMod.step, FlowMod.sweep, List.mem_filter, Bool.and_eq_true, Bool.not_eq_true', ← idleOut_iff, ← hardOut_iff,
    Bool.not_eq_true]

/-- `created ≤ last_touched ≤ now` in every reachable state: durations and idle times are never negative -/
theorem clock_inv (now mx : Nat) (ops : List Op) : ClockOk (run (init now mx) ops).1 := by
  suffices h : ∀ (s : State), ClockOk s → ClockOk (run s ops).1 from h _ (fun _ h => by simp [init] at h)
  induction ops with
  | nil => exact fun s h => h
  | cons op ops ih => exact fun s h => ih _ (step_clockOk s op h)

/-! ## refinement to the standard -/

/-- **flowmod_refines** (one step, every operation).  In a state satisfying the invariant (sorted; every entry stems from a regular
    transmitted match; at most `max_entries` entries), for an event satisfying its hypotheses (`OpOk`: regular match and 16-bit
    priority in a flow-mod, complete frame without ECN bits, canonical match in a statistics request), the model's step is the
    standard's step: same table (flows, actions, clocks, counters, order) and same messages.  Covers ADD with replacement and
    counter reset, CHECK_OVERLAP, table-full, emergency refusals, MODIFY / MODIFY_STRICT including modify-acts-as-add, DELETE /
    DELETE_STRICT with the `out_port` filter and flow-removed, packet accounting, sweeps, flow and aggregate statistics. -/
theorem flowmod_refines (s : State) (op : Op) (hi : Inv s) (ho : OpOk op) :
    abs (step s op).1 = (Spec.step (abs s) op).1 ∧ (step s op).2.map absOut = (Spec.step (abs s) op).2 ∧ Inv (step s op).1 :=
  ⟨(step_refines s op hi ho).1, (step_refines s op hi ho).2, step_inv s op hi ho⟩

/-- **history_refines.**  From the empty table, for every history whose events satisfy their hypotheses in the states they are
    applied to, the model's table equals the standard's table after the history (hence after every prefix), everything written
    step by step equals what the standard prescribes, and the invariant holds. -/
theorem history_refines (now mx : Nat) (ops : List Op) (h : HistOk (init now mx) ops) :
    abs (run (init now mx) ops).1 = (Spec.run { flows := [], now := now, capacity := mx } ops).1 ∧
    (run (init now mx) ops).2.map (fun os => os.map absOut) = (Spec.run { flows := [], now := now, capacity := mx } ops).2 ∧
    Inv (run (init now mx) ops).1 :=
  run_refines (init now mx) ops (init_inv now mx) h

/-- what the code's three match tests mean in the standard's terms, for regular transmitted matches: the non-strict test is
    subsumption of every 12-tuple, the strict test is "same set of 12-tuples" -/
theorem selection_meaning (a b : OfMatch) (ha : MatchOk a) (hb : MatchOk b) :
    (matchesWith true (ofWire a) (ofWire b) = true ↔ ∀ h : Headers, matchHdr b h = true → matchHdr a h = true) ∧
    (eqMatch (ofWire a) (ofWire b) = true ↔ ∀ h : Headers, matchHdr a h = matchHdr b h) := by
  rw [subsumes_code a b ha hb, strict_iff a b ha hb]
  exact ⟨subsumes_forall a b, identical_iff a b⟩

/-- the standard's overlap relation used by `Spec.add` is "a single packet may match both" -/
theorem overlap_meaning (a b : OfMatch) : overlaps a b = true ↔ ∃ h : Headers, matchHdr a h = true ∧ matchHdr b h = true :=
  overlaps_iff_exists a b

/-- **D23, repaired.**  `check_for_overlapping_entry` answers exactly as the standard prescribes: for a regular flow-mod it
    reports an overlap iff some installed flow of the new flow's rank (exact flows above all priorities) can be matched by a
    packet that also matches the new flow.  (Before the repair the code tested whether one match encompasses the other and
    this statement was false: `partial_overlap_witness`.) -/
theorem overlap_check_exact (s : State) (fm : FlowModMsg) (hi : Inv s) (hm : MsgOk fm) (he : fm.flags.testBit FF_EMERG = false) :
    overlapScan (mkEntry s.now fm).effectivePriority (ofWire fm.mtch) s.table = true ↔
      ∃ e ∈ s.table, (absEntry e).rank = (newFlow s.now fm).rank ∧
        ∃ h : Headers, matchHdr e.data.wire h = true ∧ matchHdr fm.mtch h = true := by
  rw [overlap_abs s fm hi hm he]
  simp only [abs, List.any_map, List.any_eq_true, Function.comp, Bool.and_eq_true, beq_iff_eq, overlaps_iff_exists]
  rfl

/-! ## witnesses: the hypotheses are satisfiable by non-trivial histories, and what happens outside them -/

/-- wildcard word with every flag set except those listed, and the two prefix counters -/
def wc (clear : List Fld) (src dst : Nat) : Nat :=
  (Fld.all.filter (fun f => !clear.contains f)).foldl (fun w f => w ||| f.mask) 0 ||| src <<< 8 ||| dst <<< 14

def zeroMatch : OfMatch :=
  { wildcards := 0, inPort := 0, dlSrc := 0, dlDst := 0, dlVlan := 0, dlVlanPcp := 0, dlType := 0, nwTos := 0, nwProto := 0,
    nwSrc := 0, nwDst := 0, tpSrc := 0, tpDst := 0 }

def mAll : OfMatch := { zeroMatch with wildcards := wc [] 32 32 }
def mInPort1 : OfMatch := { zeroMatch with wildcards := wc [.inPort] 32 32, inPort := 1 }
def mIp : OfMatch := { zeroMatch with wildcards := wc [.dlType] 32 32, dlType := 0x0800 }
/-- the same flow as `mIp`, encoded with the (ignored) tp_src bit clear -/
def mIpB : OfMatch := { zeroMatch with wildcards := wc [.dlType, .tpSrc] 32 32, dlType := 0x0800 }
def mNet8 : OfMatch := { zeroMatch with wildcards := wc [.dlType] 24 32, dlType := 0x0800, nwSrc := 0x0a000000 }
def mTcp80 : OfMatch := { zeroMatch with wildcards := wc [.dlType, .nwProto, .tpDst] 32 32, dlType := 0x0800, nwProto := 6, tpDst := 80 }
def mArp : OfMatch := { zeroMatch with wildcards := wc [.dlType] 32 32, dlType := 0x0806 }

/-- 10.1.1.1:1000 → 10.2.2.2:80 TCP, untagged -/
def tcpFrame : PHdr :=
  { src := 1, dst := 2, typ := 0x0800, llc := none, vlan := none, l3 := .ipv4 0x0a010101 0x0a020202 6 0 false (.ports 1000 80) }

def fmsg (cmd : Cmd) (m : OfMatch) (prio flags cookie : Nat) (idle hard : Nat := 0) (outPort : Nat := OFPP_NONE)
    (acts : List Action := [.output 2 0]) : Op :=
  .flowMod { cmd := cmd, mtch := m, cookie := cookie, idle := idle, hard := hard, priority := prio, outPort := outPort, flags := flags,
             actions := acts }

/-- a history that uses every command, both flags, the `out_port` filter, traffic, the clock and sweeps -/
def demo : List Op :=
  [ fmsg .add mIp 100 1 1 (idle := 1) (hard := 5),                 -- SEND_FLOW_REM, idle 1 s
    fmsg .add mNet8 100 3 2 (acts := [.output 3 0]),               -- CHECK_OVERLAP|SEND_FLOW_REM: refused, overlaps (is inside) mIp
    fmsg .add mNet8 200 3 3 (acts := [.output 3 0]),               -- other priority: accepted
    fmsg .add mArp 100 2 4,                                        -- CHECK_OVERLAP: disjoint from mIp, accepted
    .packet tcpFrame 1 74,                                         -- hits mNet8 (priority 200)
    fmsg .modify mIp 7 0 5 (acts := []),                           -- non-strict: rewrites mIp and mNet8
    fmsg .modifyStrict mTcp80 7 1 6 (hard := 1),                   -- nothing identical: acts as ADD
    fmsg .add mIpB 100 0 7,                                        -- identical to mIp (other encoding): replaces it silently
    .advance 1125, .sweep,                                         -- mTcp80 hard-expires (flow-removed, reason 1)
    fmsg .delete mAll 0 0 8 (outPort := 3),                        -- out_port filter: nothing outputs to 3 any more
    fmsg .deleteStrict mNet8 200 0 9,                              -- flow-removed, reason 2, with the packet counted
    .aggStats mAll OFPP_NONE ]

-- the hypotheses of `history_refines` hold for `demo` …
example : HistOk (init 1000000 100) demo := by decide
-- … the history is not trivial: an overlap refusal, a hard-timeout and a delete notification, the aggregate of what is left
example : (run (init 1000000 100) demo).2.map (fun os => os.map absOut) =
    [[], [.error 3 1], [], [], [], [], [], [], [], [.flowRemoved ⟨mTcp80, 6, 7, 1, 1, 125000000, 0, 0, 0⟩], [],
     [.flowRemoved ⟨mNet8, 3, 200, 2, 1, 125000000, 0, 1, 74⟩], [.aggStats 0 0 2]] := by decide
example : (run (init 1000000 100) demo).1.table.map (fun e => (e.data.cookie, e.priority, e.data.actions)) =
    [(7, 100, [.output 2 0]), (4, 100, [.output 2 0])] := by decide
-- `removed_once` / `expiry_window`: a state with departures of both kinds and an entry that stays
example : (departures (run (init 1000000 100) (demo.take 9)).1 .sweep).map (fun d => (d.1.data.cookie, d.2)) = [(6, 1)] ∧
    (run (init 1000000 100) (demo.take 9)).1.table.length = 4 := by decide
-- `no_duplicates`: the replacement in `demo` (cookie 7 took the place of cookie 1, same flow in another encoding)
example : sameKey (mkEntry 0 ⟨.add, mIp, 1, 0, 0, 100, OFPP_NONE, 0, []⟩) (mkEntry 5 ⟨.add, mIpB, 7, 0, 0, 100, OFPP_NONE, 0, []⟩) = true := by
  decide
-- `selection_meaning` / `MatchOk`: regular matches, both outcomes
example : MatchOk mNet8 ∧ MatchOk mIp ∧ MatchOk mIpB ∧ MatchOk mTcp80 := by decide
example : matchesWith true (ofWire mIp) (ofWire mNet8) = true ∧ matchesWith true (ofWire mNet8) (ofWire mIp) = false ∧
    eqMatch (ofWire mIp) (ofWire mIpB) = true ∧ eqMatch (ofWire mIp) (ofWire mNet8) = false := by decide

/-! ### what the hypotheses exclude (open findings; the harness replays the same inputs on the real switch) -/

/-- **D23** (repaired; kept as the regression input the harness replays).  `in_port=1` and `dl_type=0x0800`, same priority, both
    with `OFPFF_CHECK_OVERLAP`: an IPv4 frame arriving on port 1 matches both although neither description subsumes the other —
    the mutual-subsumption test of the unrepaired code accepted the second ADD.  Standard and (repaired) model refuse it with
    `OFPFMFC_OVERLAP`. -/
theorem partial_overlap_witness :
    let ops := [fmsg .add mInPort1 100 2 1, fmsg .add mIp 100 2 2]
    HistOk (init 0 100) ops ∧
    matchHdr mInPort1 (headers tcpFrame 1) = true ∧ matchHdr mIp (headers tcpFrame 1) = true ∧
    subsumes mInPort1 mIp = false ∧ subsumes mIp mInPort1 = false ∧
    (run (init 0 100) ops).1.table.map (·.data.cookie) = [1] ∧
    (run (init 0 100) ops).2 = [[], [.error OFPET_FLOW_MOD_FAILED OFPFMFC_OVERLAP]] ∧
    (Spec.run { flows := [], now := 0, capacity := 100 } ops).2 = [[], [.error OFPET_FLOW_MOD_FAILED OFPFMFC_OVERLAP]] := by decide

/-- 10.9.9.9/8 and 10.1.1.1/8: the same flow (only the 8 prefix bits are compared), written with different host bits -/
def mNet8a : OfMatch := { mNet8 with nwSrc := 0x0a090909 }
def mNet8b : OfMatch := { mNet8 with nwSrc := 0x0a010101 }

/-- **C04-1** — `ofp_match.__eq__` compares the address fields unmasked.  Two ADDs of the same flow (`nw_src=10.x.x.x/8`,
    same priority) whose address fields differ below the prefix length do not replace each other: the table ends with two
    entries where the standard has one (and DELETE_STRICT / MODIFY_STRICT miss the flow in the same way).  The matches denote the
    same set of packets (`identical`); of `MatchOk` only the no-host-bits clause fails. -/
theorem strict_hostbits_defect :
    let ops := [fmsg .add mNet8a 100 0 1, fmsg .add mNet8b 100 0 2]
    identical mNet8a mNet8b = true ∧ PrereqExact mNet8a ∧ mNet8a.wildcards < 2 ^ 22 ∧ ¬ MatchOk mNet8a ∧
    (run (init 0 100) ops).1.table.map (·.data.cookie) = [2, 1] ∧
    (Spec.run { flows := [], now := 0, capacity := 100 } ops).1.flows.map (·.cookie) = [2] := by decide

/-- "all wildcards" written as `0xffffffff` (bits 22..31 are undefined in OpenFlow 1.0) -/
def mAllHi : OfMatch := { zeroMatch with wildcards := 0xffffffff }

/-- **C04-2** — the undefined bits 22..31 of the wildcard word are kept and compared.  A match-all flow installed with
    `wildcards = 0xffffffff` survives `DELETE` with the match-all `OFPFW_ALL` (0x3fffff): the code requires the entry's wildcard
    flags to be a subset of the request's.  In the standard both words denote every packet, and the delete empties the table. -/
theorem undefined_bits_defect :
    let ops := [fmsg .add mAllHi 100 0 1, fmsg .delete mAll 0 0 2]
    subsumes mAll mAllHi = true ∧ PrereqExact mAllHi ∧ ¬ MatchOk mAllHi ∧
    (run (init 0 100) ops).1.table.map (·.data.cookie) = [1] ∧
    (Spec.run { flows := [], now := 0, capacity := 100 } ops).1.flows = [] := by decide

/-- an ARP description whose (ignored) tp_src bit is clear, as a controller that only sets the bits it cares about sends it -/
def mArpQ : OfMatch := { zeroMatch with wildcards := wc [.dlType, .tpSrc] 32 32, dlType := 0x0806 }

/-- **C04-3** — statistics requests decode their match without the flow-mod normalisation (`unpack(flow_mod=False)`), so a field
    the standard ignores (tp_src of an ARP description) but that is not wildcarded makes the request select nothing: aggregate
    statistics for "all ARP flows" report 0 flows with one ARP flow installed.  The description is regular (`MatchOk`) and the
    standard counts the flow; the hypothesis `ofWirePlain m = ofWire m` of `OpOk` is what fails. -/
theorem stats_unwired_defect :
    let ops := [fmsg .add mArp 100 0 1, .aggStats mArpQ OFPP_NONE]
    MatchOk mArpQ ∧ subsumes mArpQ mArp = true ∧ ofWirePlain mArpQ ≠ ofWire mArpQ ∧
    (run (init 0 100) ops).2 = [[], [.aggStats 0 0 0]] ∧
    (Spec.run { flows := [], now := 0, capacity := 100 } ops).2 = [[], [.aggStats 0 0 1]] := by decide

end Pox.C04
