import PoxModel.Properties.C01
import PoxModel.Properties.C02
import PoxModel.Proofs.FramingCodec
/-! # C01 ∘ C02 — the decoders the source defines satisfy the decoder hypothesis of the framing theorems

`Properties/C02.lean` proves framing for EVERY decoder `U` that consumes exactly a well-formed message (`WF`).
`Properties/C01.lean` proves the round trip of the layouts regenerated from the source.  Here the two meet: the decoder
table defined by the generated layouts (`codecU`) is such a `U` for every message the layouts can encode, so a stream
of encoded messages of any of the translated message classes, cut in any way, is decoded back to exactly the records
that were encoded — on both read paths.  (Classes outside the translator's vocabulary, e.g. `ofp_packet_out`, are not
covered by this corollary; `C02.ctl_framing` still covers them for the abstract `U`.) -/
namespace Pox.C01F
open Pox Pox.Layout Pox.Framing Pox.FramingCodec Pox.CodecOF Pox.Generated

/-- the layout starts with the OpenFlow header: version(1) type(1) length(2) … -/
def hdrShape : List Field → Bool
  | .uint _ 1 :: .uint _ 1 :: .lenSelf 2 :: .uint _ 4 :: _ => true
  | _ => false

/-- per registered message type: if the translator handles its class, the class has the header shape, carries the
    registered name and the code fits the type byte -/
def msgOk (p : Nat × String) : Bool :=
  match cls p.2 with
  | some c => hdrShape c.unpackL.fixed && (c.name == p.2) && decide (p.1 < 256)
  | none => true

theorem messages_ok : messages.all msgOk = true := by decide

theorem shape_elim (L : List Field) (h : hdrShape L = true) :
    ∃ nm1 nm2 nm3 F, L = .uint nm1 1 :: .uint nm2 1 :: .lenSelf 2 :: .uint nm3 4 :: F := by
  match L, h with
  | .uint nm1 1 :: .uint nm2 1 :: .lenSelf 2 :: .uint nm3 4 :: F, _ => exact ⟨nm1, nm2, nm3, F, rfl⟩

/-- **codec_message_wf**: a record of a translated message class `c` (registered under type code `t`), carrying
version 1 and type `t` and fitting its layout, encodes to bytes that are well-formed for the framing theorems with
respect to the generated decoder table. -/
theorem codec_message_wf (c : ClassInfo) (hc : c ∈ classes) (hcls : cls c.name = some c)
    (t : Nat) (hreg : messages.lookup t = some c.name)
    (n : Nat) (r : Rec (Elem n)) (vs : List Val) (hvals : r.vals = .num 1 :: .num t :: vs)
    (hf : Fits (codecAt env n) (okAt env n) c.packL r) :
    ∃ bs, encode (codecAt env n) c.packL r = some bs ∧ WF (codecU n) bs (c.name, r) := by
  have hmem : (t, c.name) ∈ messages := by
    obtain ⟨l1, l2, h, _⟩ := List.lookup_eq_some_iff.mp hreg
    rw [h]; simp
  have hok := List.all_eq_true.mp messages_ok (t, c.name) hmem
  simp only [msgOk, hcls, Bool.and_eq_true, decide_eq_true_eq] at hok
  obtain ⟨⟨hshape', _⟩, ht⟩ := hok
  obtain ⟨nm1, nm2, nm3, F, hF⟩ := shape_elim _ hshape'
  have hpu := C01.pack_eq_unpack c hc
  have hlenT : hasLen c.packL.fixed = true := by rw [hpu, hF]; rfl
  -- one application of the C01 round trip per trailing byte string; the encoding itself does not depend on it
  obtain ⟨bs, tb, henc, htail, _, _, _, _⟩ := C01.roundtrip c hc n r none [] hf (.inl hlenT)
  refine ⟨bs, henc, ?_⟩
  have hdec : ∀ tl, decode (codecAt env n) c.unpackL none (bs ++ tl) = some (r, tl) := by
    intro tl
    obtain ⟨bs', _, henc', _, hd, _, _, _⟩ := C01.roundtrip c hc n r none tl hf (.inl hlenT)
    rw [henc] at henc'; cases henc'; exact hd
  obtain ⟨t', ht', hlen⟩ := encode_length _ _ _ _ henc
  have h8 : 8 ≤ bs.length := by
    rw [hlen, hpu, hF]; simp [fixedSize]; omega
  have h64 : bs.length < 65536 := by
    have := hf.2.2 t' ht'
    rw [hpu, hF] at this
    simp only [lenFits, Bool.and_eq_true, decide_eq_true_eq] at this
    rw [hlen]; rw [hpu, hF]; exact this.1
  have hhl : hdrLen c.unpackL bs = some bs.length := by
    have := lenfield_exact (codecAt env n) c.packL r bs [] hf.1 hlenT henc
    simpa [hpu] using this
  exact wf_of_roundtrip n c t r bs vs (.uint nm3 4 :: F) nm1 nm2 hreg hcls hF hvals ht h8 h64 hdec hhl

/-- **codec_stream_framing**: any list of such records, encoded and concatenated, then cut into arbitrary chunks, is
delivered by both read loops as exactly those (class, record) pairs, in order, once each, with nothing left over. -/
theorem codec_stream_framing (n : Nat) (ms : List (Bytes × (String × Rec (Elem n)))) (chunks : List Bytes)
    (hms : ∀ p ∈ ms, ∃ c t vs, c ∈ classes ∧ cls c.name = some c ∧ messages.lookup t = some c.name ∧ p.2.1 = c.name ∧
        p.2.2.vals = .num 1 :: .num t :: vs ∧ Fits (codecAt env n) (okAt env n) c.packL p.2.2 ∧
        encode (codecAt env n) c.packL p.2.2 = some p.1)
    (hseg : chunks.flatten = (ms.map (·.1)).flatten) :
    (chunks.foldl (ctlFeed (codecU n) 8) init).delivered = ms.map (·.2) ∧
    (chunks.foldl (ctlFeed (codecU n) 8) init).buf = [] ∧
    (chunks.foldl (swFeed (codecU n)) init).delivered = ms.map (·.2) ∧
    (chunks.foldl (swFeed (codecU n)) init).buf = [] := by
  have hwf : ∀ p ∈ ms, WF (codecU n) p.1 p.2 := by
    intro p hp
    obtain ⟨c, t, vs, hc, hcls, hreg, hname, hvals, hf, henc⟩ := hms p hp
    obtain ⟨bs, henc', hw⟩ := codec_message_wf c hc hcls t hreg n p.2.2 vs hvals hf
    rw [henc] at henc'; cases henc'
    have : p.2 = (c.name, p.2.2) := by rw [← hname]
    rw [this]; exact hw
  have c1 := C02.ctl_framing (codecU n) ms chunks hwf hseg
  have s1 := C02.sw_framing (codecU n) ms chunks (fun p hp => (hwf p hp).toSWF) hseg
  exact ⟨c1.1, c1.2.1, s1.1, s1.2.1⟩

/-! non-vacuity: the port-mod example record of `C01` is such a message (type 15) -/
example : messages.lookup 15 = some "ofp_port_mod" ∧ (cls "ofp_port_mod").isSome = true := by decide

end Pox.C01F
