import PoxModel.Properties.C01
import PoxModel.Properties.C02
import PoxModel.Proofs.FramingCodec
import PoxModel.Model.CodecNX
/-! # C01 ∘ C02 — the decoders the source defines satisfy the decoder hypothesis of the framing theorems

`Properties/C02.lean` proves framing for EVERY decoder `U` that consumes exactly a well-formed message (`WF`).
`Properties/C01.lean` proves the round trip of the layouts regenerated from the source.  Here the two meet: the decoder
table defined by the generated layouts (`codecU`) is such a `U` for every message the layouts can encode, so a stream
of encoded messages of any of the translated message classes, cut in any way, is decoded back to exactly the records
that were encoded — on both read paths.  (Classes outside the translator's vocabulary, e.g. `ofp_packet_out`, are not
covered by this corollary; `C02.ctl_framing` still covers them for the abstract `U`.) -/
namespace Pox.C01F
open Pox Pox.Layout Pox.Framing Pox.FramingCodec Pox.CodecOF Pox.Generated

/-- the layout starts with the OpenFlow header: version(1) type(1) length(2) … -/
def hdrShape : List Field → Bool
  | .uint _ 1 :: .uint _ 1 :: .lenSelf 2 :: .uint _ 4 :: _ => true
  | _ => false

/-- per registered message type: if the translator handles its class, the class has the header shape, carries the
    registered name and the code fits the type byte -/
def msgOk (p : Nat × String) : Bool :=
  match cls p.2 with
  | some c => hdrShape c.unpackL.fixed && (c.name == p.2) && decide (p.1 < 256)
  | none => true

theorem messages_ok : messages.all msgOk = true := by decide

theorem shape_elim (L : List Field) (h : hdrShape L = true) :
    ∃ nm1 nm2 nm3 F, L = .uint nm1 1 :: .uint nm2 1 :: .lenSelf 2 :: .uint nm3 4 :: F := by
  match L, h with
  | .uint nm1 1 :: .uint nm2 1 :: .lenSelf 2 :: .uint nm3 4 :: F, _ => exact ⟨nm1, nm2, nm3, F, rfl⟩

/-- **codec_message_wf**: a record of a translated message class `c` (registered under type code `t`), carrying
version 1 and type `t` and fitting its layout, encodes to bytes that are well-formed for the framing theorems with
respect to the generated decoder table. -/
theorem codec_message_wf (c : ClassInfo) (hc : c ∈ classes) (hcls : cls c.name = some c)
    (t : Nat) (hreg : messages.lookup t = some c.name)
    (n : Nat) (r : Rec (Elem n)) (vs : List Val) (hvals : r.vals = .num 1 :: .num t :: vs)
    (hf : Fits (codecAt env n) (okAt env n) c.packL r) :
    ∃ bs, encode (codecAt env n) c.packL r = some bs ∧ WF (codecU n) bs (c.name, r) := by
  have hmem : (t, c.name) ∈ messages := by
    obtain ⟨l1, l2, h, _⟩ := List.lookup_eq_some_iff.mp hreg
    rw [h]; simp
  have hok := List.all_eq_true.mp messages_ok (t, c.name) hmem
  simp only [msgOk, hcls, Bool.and_eq_true, decide_eq_true_eq] at hok
  obtain ⟨⟨hshape', _⟩, ht⟩ := hok
  obtain ⟨nm1, nm2, nm3, F, hF⟩ := shape_elim _ hshape'
  have hpu := C01.pack_eq_unpack c hc
  have hlenT : hasLen c.packL.fixed = true := by rw [hpu, hF]; rfl
  -- one application of the C01 round trip per trailing byte string; the encoding itself does not depend on it
  obtain ⟨bs, tb, henc, htail, _, _, _, _⟩ := C01.roundtrip c hc n r none [] hf (.inl hlenT)
  refine ⟨bs, henc, ?_⟩
  have hdec : ∀ tl, decode (codecAt env n) c.unpackL none (bs ++ tl) = some (r, tl) := by
    intro tl
    obtain ⟨bs', _, henc', _, hd, _, _, _⟩ := C01.roundtrip c hc n r none tl hf (.inl hlenT)
    rw [henc] at henc'; cases henc'; exact hd
  obtain ⟨t', ht', hlen⟩ := encode_length _ _ _ _ henc
  have h8 : 8 ≤ bs.length := by
    rw [hlen, hpu, hF]; simp [fixedSize]; omega
  have h64 : bs.length < 65536 := by
    have := hf.2.2 t' ht'
    rw [hpu, hF] at this
    simp only [lenFits, Bool.and_eq_true, decide_eq_true_eq] at this
    rw [hlen]; rw [hpu, hF]; exact this.1
  have hhl : hdrLen c.unpackL bs = some bs.length := by
    have := lenfield_exact (codecAt env n) c.packL r bs [] hf.1 hlenT henc
    simpa [hpu] using this
  exact wf_of_roundtrip n c t r bs vs (.uint nm3 4 :: F) nm1 nm2 hreg hcls hF hvals ht h8 h64 hdec hhl

/-- **codec_stream_framing**: any list of such records, encoded and concatenated, then cut into arbitrary chunks, is
delivered by both read loops as exactly those (class, record) pairs, in order, once each, with nothing left over. -/
theorem codec_stream_framing (n : Nat) (ms : List (Bytes × (String × Rec (Elem n)))) (chunks : List Bytes)
    (hms : ∀ p ∈ ms, ∃ c t vs, c ∈ classes ∧ cls c.name = some c ∧ messages.lookup t = some c.name ∧ p.2.1 = c.name ∧
        p.2.2.vals = .num 1 :: .num t :: vs ∧ Fits (codecAt env n) (okAt env n) c.packL p.2.2 ∧
        encode (codecAt env n) c.packL p.2.2 = some p.1)
    (hseg : chunks.flatten = (ms.map (·.1)).flatten) :
    (chunks.foldl (ctlFeed (codecU n) 8) init).delivered = ms.map (·.2) ∧
    (chunks.foldl (ctlFeed (codecU n) 8) init).buf = [] ∧
    (chunks.foldl (swFeed (codecU n)) init).delivered = ms.map (·.2) ∧
    (chunks.foldl (swFeed (codecU n)) init).buf = [] := by
  have hwf : ∀ p ∈ ms, WF (codecU n) p.1 p.2 := by
    intro p hp
    obtain ⟨c, t, vs, hc, hcls, hreg, hname, hvals, hf, henc⟩ := hms p hp
    obtain ⟨bs, henc', hw⟩ := codec_message_wf c hc hcls t hreg n p.2.2 vs hvals hf
    rw [henc] at henc'; cases henc'
    have : p.2 = (c.name, p.2.2) := by rw [← hname]
    rw [this]; exact hw
  have c1 := C02.ctl_framing (codecU n) ms chunks hwf hseg
  have s1 := C02.sw_framing (codecU n) ms chunks (fun p hp => (hwf p hp).toSWF) hseg
  exact ⟨c1.1, c1.2.1, s1.1, s1.2.1⟩

/-! non-vacuity (the port-mod example record of `C01` is such a message, type 15) is a statement about a particular generated
class: it lives in `Properties/C01Pins.lean` (`codec_message_nonvacuous`), which the harness builds separately. -/

/-! ## `WF` for the hand-modelled messages: packet-out, statistics (body dispatch), `nxt_packet_in`, `nx_flow_mod`

Same pattern as `codec_message_wf`, for the messages whose decoder is not a generated layout.  Each statement is about
*every* decoder table `U` whose entry for the message's type code runs the hand model's decoder on the buffer from the
offset (`viaDecoder`): `unpackers[13]` = `ofp_packet_out.unpack_new`, `unpackers[16/17]` = the stats classes,
`unpackers[4]` = `_unpack_nx_vendor` on a Nicira packet-in; for `nx_flow_mod` the real controller has no entry of its own
(a vendor message it does not expect), so that instance speaks about a receiver that installs one. -/

theorem declLen_lt (b : Bytes) (off : Nat) : declLen b off < 65536 := by
  unfold declLen byteAt
  have h1 := (b.getD (off + 2) 0).toNat_lt
  have h2 := (b.getD (off + 3) 0).toNat_lt
  omega

/-- from one layer of `Layout` with the header shape to `WF` for a decoder `D` built on top of it -/
theorem wf_of_layer {M E : Type} (U : Unpack M) (t : Nat) (D : Bytes → Option (M × Bytes))
    (hU : ∀ buf off, U t buf off = viaDecoder D buf off) (C : Codec E) (L : Layout) (nm1 nm2 : String) (F : List Field)
    (hshape : L.fixed = .uint nm1 1 :: .uint nm2 1 :: .lenSelf 2 :: F) (h8f : 8 ≤ fixedSize L.fixed)
    (bs tl0 : Bytes) (r r' : Rec E) (vs : List Val) (hvals : r'.vals = .num 1 :: .num t :: vs)
    (henc : encode C L r = some bs) (hdecL : decode C L none bs = some (r', tl0)) (hlenf : hdrLen L bs = some bs.length)
    (m : M) (hdec : ∀ tl, D (bs ++ tl) = some (m, tl)) : WF U bs m := by
  obtain ⟨tb, _, hl⟩ := encode_length C L r bs henc
  have h8 : 8 ≤ bs.length := by omega
  obtain ⟨hv, hty, hdl⟩ := hdr_of_decode C L nm1 nm2 F hshape bs tl0 r' t vs hvals (by omega) hdecL hlenf
  have hlt : bs.length < 65536 := by rw [← hdl]; exact declLen_lt bs 0
  exact wf_via U t D hU bs m ⟨h8, hlt, hv, hdl⟩ hty hdec

theorem hdrLen_congr (L L' : Layout) (h : L.fixed = L'.fixed) (bs : Bytes) : hdrLen L bs = hdrLen L' bs := by
  unfold hdrLen; rw [h]

/-- **packet_out_wf** -/
theorem packet_out_wf {M : Type} (U : Unpack M) (inj : PacketOut (Elem n) → M)
    (hU : ∀ buf off, U 13 buf off = viaDecoder (fun b => (decPacketOut (codecAt env n) b).map fun q => (inj q.1, q.2)) buf off)
    (p : PacketOut (Elem n)) (hv : p.version = 1) (ht : p.header_type = 13) (hx : p.xid < 2 ^ 32) (hb : p.buffer_id < 2 ^ 32)
    (hi : p.in_port < 65536) (hacts : ∀ e ∈ p.actions, okAt env n "actions" e)
    (hlen : ∀ acts, encList ((codecAt env n).enc "actions") p.actions = some acts → 16 + acts.length + p.data.length < 65536) :
    ∃ bs, encPacketOut (codecAt env n) p = some bs ∧ WF U bs (inj p) := by
  obtain ⟨bs, he, hd0, hh0⟩ := C01.packet_out_roundtrip n p [] (by omega) (by omega) hx hb hi hacts hlen
  simp only [List.append_nil] at hd0 hh0
  refine ⟨bs, he, ?_⟩
  -- the `Layout` layer underneath
  have hencL : ∃ r, encode (codecAt env n) packetOutL r = some bs := by
    unfold encPacketOut at he
    split at he
    · cases he
    · exact ⟨_, he⟩
  obtain ⟨r, hencL⟩ := hencL
  have hdecL : ∃ vs tv, decode (codecAt env n) packetOutL none bs =
      some (⟨.num p.version :: .num p.header_type :: vs, tv⟩, []) := by
    unfold decPacketOut at hd0
    split at hd0
    · rename_i version header_type xid buffer_id in_port alen rr tl heq
      split at hd0
      · cases hd0
      · split at hd0
        · cases hd0
        · simp only [Option.some.injEq, Prod.mk.injEq] at hd0
          obtain ⟨hp, htl⟩ := hd0
          subst htl
          subst hp
          exact ⟨[.num xid, .num buffer_id, .num in_port, .num alen], .rest rr, heq⟩
    · cases hd0
  obtain ⟨vs, tv, hdecL⟩ := hdecL
  refine wf_of_layer U 13 _ hU (codecAt env n) packetOutL "version" "header_type" _ rfl (by decide) bs [] r _ vs
    (by simp [hv, ht]) hencL hdecL hh0 (inj p) ?_
  intro tl
  obtain ⟨bs', he', hd', _⟩ := C01.packet_out_roundtrip n p tl (by omega) (by omega) hx hb hi hacts hlen
  rw [he] at he'; cases he'
  simp [hd']

theorem statsLayout_fixed (reply : Bool) (t : Nat) : (statsLayout reply t).fixed = statsFixed := by
  unfold statsLayout; split <;> rfl

/-- **stats_reply_list_wf**: a statistics reply of a type registered as an array of entries -/
theorem stats_reply_list_wf {M : Type} (U : Unpack M) (inj : Rec (Elem n) → M)
    (hU : ∀ buf off, U 17 buf off = viaDecoder (fun b => (decStats (codecAt env n) true b).map fun q => (inj q.1, q.2)) buf off)
    (t : Nat) (c : String) (r : Rec (Elem n)) (vs : List Val)
    (hreg : statsReplies.lookup t = some (c, true)) (ht : statsType r.vals = some t) (hvals : r.vals = .num 1 :: .num 17 :: vs)
    (hf : Fits (codecAt env n) (okAt env n) ⟨statsFixed, .list "body" c⟩ r) :
    ∃ bs, encStats (codecAt env n) true r = some bs ∧ WF U bs (inj r) := by
  obtain ⟨bs, he, hd0, hh0⟩ := C01.stats_reply_list_roundtrip n t c r [] hreg ht hf
  simp only [List.append_nil] at hd0 hh0
  refine ⟨bs, he, ?_⟩
  have hencL : encode (codecAt env n) (statsLayout true t) r = some bs := by
    unfold encStats at he; rw [ht] at he; exact he
  have hdecL : decode (codecAt env n) (statsLayout true t) none bs = some (r, []) := by
    unfold decStats at hd0
    split at hd0
    · rename_i r0 tl0 heq
      split at hd0
      · rename_i t' ht'
        have hvv : r0.vals = r.vals := by
          -- both decodes read the same fixed part
          obtain ⟨l1, x1, h1⟩ := decode_vals _ _ _ _ _ _ heq
          obtain ⟨l2, x2, h2⟩ := decode_vals _ _ _ _ _ _ hd0
          rw [statsLayout_fixed] at h2
          rw [show (⟨statsFixed, Tail.rest "body"⟩ : Layout).fixed = statsFixed from rfl, h2] at h1
          simp only [Option.some.injEq, Prod.mk.injEq] at h1
          exact h1.1.symm
        rw [hvv, ht] at ht'
        cases ht'
        exact hd0
      · cases hd0
    · cases hd0
  have hhL : hdrLen (statsLayout true t) bs = some bs.length := by
    rw [hdrLen_congr (statsLayout true t) ⟨statsFixed, .rest "body"⟩ (statsLayout_fixed true t)]; exact hh0
  refine wf_of_layer U 17 _ hU (codecAt env n) (statsLayout true t) "version" "header_type" _
    (by rw [statsLayout_fixed]; rfl) (by rw [statsLayout_fixed]; decide) bs [] r r vs hvals hencL hdecL hhL (inj r) ?_
  intro tl
  obtain ⟨bs', he', hd', _⟩ := C01.stats_reply_list_roundtrip n t c r tl hreg ht hf
  rw [he] at he'; cases he'
  simp [hd']

open Pox.CodecNX Pox.CodecNXM in
/-- **nxt_packet_in_wf**: `_unpack_nx_vendor` → `nxt_packet_in.unpack` -/
theorem nxt_packet_in_wf {M : Type} (U : Unpack M) (inj : NxPacketIn → M)
    (hU : ∀ buf off, U 4 buf off = viaDecoder (fun b => (decNxPacketIn b).map fun q => (inj q.1, q.2)) buf off)
    (p : NxPacketIn) (hv : p.version = 1) (hht : p.header_type = 4) (hx : p.xid < 2 ^ 32) (hvn : p.vendor < 2 ^ 32)
    (hst : p.subtype < 2 ^ 32) (hb : p.buffer_id < 2 ^ 32) (htl : p.total_len < 65536) (hr : p.reason < 256)
    (htb : p.table_id < 256) (hck : p.cookie < 2 ^ 64)
    (hm : ∀ e ∈ p.match_, Canonical e.value.length e ∧ e.value.length < 64 ∧ e.type < 2 ^ 23 ∧
      (known e.type = some e.value.length ∨ known e.type = none))
    (hlen : ∀ mb, packMatch p.match_ = some mb → 40 + mb.length + pad8 mb.length + 2 + p.data.length < 65536) :
    ∃ bs, encNxPacketIn p = some bs ∧ WF U bs (inj p) := by
  obtain ⟨bs, he, hd0, hh0⟩ := C01.nxt_packet_in_roundtrip p [] (by omega) (by omega) hx hvn hst hb htl hr htb hck hm hlen
  simp only [List.append_nil] at hd0 hh0
  refine ⟨bs, he, ?_⟩
  have hencL : ∃ r, encode Codec.empty nxpiL r = some bs := by
    unfold encNxPacketIn at he
    split at he
    · exact ⟨_, he⟩
    · cases he
  obtain ⟨r, hencL⟩ := hencL
  have hdecL : ∃ vs tv, decode Codec.empty nxpiL none bs = some (⟨.num p.version :: .num p.header_type :: vs, tv⟩, []) := by
    unfold decNxPacketIn at hd0
    split at hd0
    · rename_i version header_type xid vendor subtype buffer_id total_len reason table_id cookie mlen rr tl heq
      split at hd0
      · cases hd0
      · split at hd0
        · cases hd0
        · simp only [Option.some.injEq, Prod.mk.injEq] at hd0
          obtain ⟨hp, htl'⟩ := hd0
          subst htl'
          subst hp
          exact ⟨_, _, heq⟩
    · cases hd0
  obtain ⟨vs, tv, hdecL⟩ := hdecL
  refine wf_of_layer U 4 _ hU Codec.empty nxpiL "version" "header_type" _ rfl (by decide) bs [] r _ vs
    (by simp [hv, hht]) hencL hdecL hh0 (inj p) ?_
  intro tl
  obtain ⟨bs', he', hd', _⟩ := C01.nxt_packet_in_roundtrip p tl (by omega) (by omega) hx hvn hst hb htl hr htb hck hm hlen
  rw [he] at he'; cases he'
  simp [hd']

open Pox.CodecNX Pox.CodecNXM in
/-- **nx_flow_mod_wf**: for a receiver whose vendor entry decodes NXT_FLOW_MOD with `nx_flow_mod.unpack` -/
theorem nx_flow_mod_wf {M : Type} (U : Unpack M) (inj : NxFlowMod (Elem n) → M)
    (hU : ∀ buf off, U 4 buf off = viaDecoder (fun b => (decNxFlowMod (codecAt env n) b).map fun q => (inj q.1, q.2)) buf off)
    (m : NxFlowMod (Elem n)) (hv : m.version = 1) (hht : m.header_type = 4) (hx : m.xid < 2 ^ 32) (hvn : m.vendor < 2 ^ 32)
    (hst : m.subtype < 2 ^ 32) (hck : m.cookie < 2 ^ 64) (hc : m.command < 256) (htb : m.table_id < 256)
    (hi : m.idle_timeout < 65536) (hh : m.hard_timeout < 65536) (hp : m.priority < 65536) (hb : m.buffer_id < 2 ^ 32)
    (ho : m.out_port < 65536) (hfl : m.flags < 65536)
    (hm : ∀ e ∈ m.match_, Canonical e.value.length e ∧ e.value.length < 64 ∧ e.type < 2 ^ 23 ∧
      (known e.type = some e.value.length ∨ known e.type = none))
    (hacts : ∀ e ∈ m.actions, okAt env n "actions" e)
    (hlen : ∀ mb acts, packMatch m.match_ = some mb → encList ((codecAt env n).enc "actions") m.actions = some acts →
      48 + mb.length + pad8 mb.length + acts.length < 65536) :
    ∃ bs, encNxFlowMod (codecAt env n) m = some bs ∧ WF U bs (inj m) := by
  obtain ⟨bs, he, hd0, hh0⟩ := C01.nx_flow_mod_roundtrip n m [] (by omega) (by omega) hx hvn hst hck hc htb hi hh hp hb ho hfl hm hacts hlen
  simp only [List.append_nil] at hd0 hh0
  refine ⟨bs, he, ?_⟩
  have hencL : ∃ r, encode (codecAt env n) nxfmL r = some bs := by
    unfold encNxFlowMod at he
    split at he
    · simp only [hc, ↓reduceIte] at he
      exact ⟨_, he⟩
    · cases he
  obtain ⟨r, hencL⟩ := hencL
  have hdecL : ∃ vs tv, decode (codecAt env n) nxfmL none bs = some (⟨.num m.version :: .num m.header_type :: vs, tv⟩, []) := by
    unfold decNxFlowMod at hd0
    split at hd0
    · rename_i version header_type xid vendor subtype cookie cmd idle hard priority buffer_id out_port flags mlen rr tl heq
      split at hd0
      · cases hd0
      · split at hd0
        · cases hd0
        · dsimp only at hd0
          split at hd0
          · cases hd0
          · simp only [Option.some.injEq, Prod.mk.injEq] at hd0
            obtain ⟨hp', htl'⟩ := hd0
            subst htl'
            subst hp'
            exact ⟨_, _, heq⟩
    · cases hd0
  obtain ⟨vs, tv, hdecL⟩ := hdecL
  refine wf_of_layer U 4 _ hU (codecAt env n) nxfmL "version" "header_type" _ rfl (by decide) bs [] r _ vs
    (by simp [hv, hht]) hencL hdecL hh0 (inj m) ?_
  intro tl
  obtain ⟨bs', he', hd', _⟩ := C01.nx_flow_mod_roundtrip n m tl (by omega) (by omega) hx hvn hst hck hc htb hi hh hp hb ho hfl hm hacts hlen
  rw [he] at he'; cases he'
  simp [hd']

end Pox.C01F
