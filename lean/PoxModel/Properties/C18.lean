import PoxModel.Proofs.BufPool
import PoxModel.Proofs.BufPoolCount
/-! # C18 — packet buffers are unique, released exactly once, and bounded

`step`/`run` (Model/BufPool.lean) are the buffer paths of the software switch; `handed` is the ghost list of
(buffer id, frame) pairs given to the controller in packet-ins and not used since.  All theorems are over every
reachable state / every operation history (no bound on length, pool size or frame size). -/
namespace Pox.C18
open Pox.BufPool

/-- the invariant tying the controller's view (`handed`) to the slot list -/
def Inv (s : St) : Prop :=
  s.pool.slots.length ≤ s.pool.max ∧
  (∀ id f, (id, f) ∈ s.handed ↔ live s.pool id = some f) ∧
  (s.handed.map (·.1)).Nodup

theorem init_inv (max miss : Nat) : Inv (init max miss) := by
  refine ⟨by simp [init], ?_, by simp [init]⟩
  intro id f
  simp [init, live, List.getD_eq_getElem?_getD]

theorem arrive_inv (s : St) (fr : Bytes) (port : Nat) (dl : Option Nat) (h : Inv s) : Inv (arriveStep s fr port dl).1 := by
  obtain ⟨hb, hl, hn⟩ := h
  unfold arriveStep
  cases ha : alloc s.pool (fr, port) with
  | mk p' bid =>
    have hb' : p'.slots.length ≤ p'.max := by
      have := alloc_bounded s.pool (fr, port) hb; rw [ha] at this; exact this
    cases bid with
    | none =>
      have := (alloc_none s.pool (fr, port) (by rw [ha])).1
      rw [ha] at this; simp only at this; subst this
      exact ⟨hb, hl, hn⟩
    | some i =>
      obtain ⟨f1, f2, f3⟩ := alloc_fresh s.pool (fr, port) i (by rw [ha])
      rw [ha] at f2 f3; simp only at f2 f3
      refine ⟨hb', ?_, ?_⟩
      · intro id f
        simp only [List.mem_append, List.mem_singleton, Prod.mk.injEq]
        by_cases hid : id = i
        · subst hid
          rw [f2]
          constructor
          · rintro (hm | ⟨_, rfl⟩)
            · have := (hl id f).mp hm; rw [f1] at this; cases this
            · rfl
          · intro he; cases he; exact .inr ⟨rfl, rfl⟩
        · rw [f3 id hid, ← hl id f]
          constructor
          · rintro (hm | ⟨h1, _⟩)
            · exact hm
            · exact absurd h1 hid
          · exact fun hm => .inl hm
      · simp only [List.map_append, List.map_cons, List.map_nil]
        refine List.nodup_append.mpr ⟨hn, by simp, ?_⟩
        intro a ha' b hb''
        simp only [List.mem_singleton] at hb''
        subst hb''
        intro hab; subst hab
        obtain ⟨e, he, rfl⟩ := List.mem_map.mp ha'
        have := (hl e.1 e.2).mp he
        rw [f1] at this; cases this
theorem use_inv (s : St) (id : Nat) (h : Inv s) : Inv (useStep s id).1 := by
  obtain ⟨hb, hl, hn⟩ := h
  unfold useStep
  obtain ⟨u1, u2, u3⟩ := use_spec s.pool id
  cases hu : use s.pool id with
  | mk p' r =>
    rw [hu] at u1 u2 u3; simp only at u1 u2 u3
    have hb' : p'.slots.length ≤ p'.max := by
      have := use_bounded s.pool id hb; rw [hu] at this; exact this
    cases r with
    | none =>
      have := u2 u1.symm; subst this
      exact ⟨hb, hl, hn⟩
    | some f =>
      obtain ⟨v1, v2⟩ := u3 f u1.symm
      refine ⟨hb', ?_, ?_⟩
      · intro j g
        simp only [List.mem_filter, decide_eq_true_eq, ne_eq]
        by_cases hj : j = id
        · subst hj; rw [v1]; simp
        · rw [v2 j hj, ← hl j g]; simp [hj]
      · exact (List.filter_sublist.map _).nodup hn

theorem step_inv (s : St) (op : Op) (h : Inv s) : Inv (step s op).1 := by
  cases op with
  | setMiss n => exact h
  | other => exact h
  | arrive fr port dl => exact arrive_inv s fr port dl h
  | use id => exact use_inv s id h
  | drop id => exact use_inv s id h
  | useCtl id dl =>
    show Inv (useCtlStep s id dl).1
    unfold useCtlStep
    cases hlv : live s.pool id with
    | none => exact h
    | some f => exact use_inv _ id (arrive_inv s f.1 f.2 (some dl) h)

/-- every reachable state satisfies the invariant -/
theorem reachable_inv (s : St) (ops : List Op) (h : Inv s) : Inv (run s ops).1 := by
  induction ops generalizing s with
  | nil => exact h
  | cons op ops ih =>
    simp only [run]
    exact ih _ (step_inv s op h)

/-- **bounded**: in every state reachable from an empty pool the number of stored packets never exceeds the
advertised buffer count. -/
theorem bounded (max miss : Nat) (ops : List Op) :
    stored (run (init max miss) ops).1.pool ≤ max := by
  have hi := reachable_inv _ ops (init_inv max miss)
  have hm : ∀ (s : St) (ops : List Op), (run s ops).1.pool.max = s.pool.max := by
    intro s ops
    induction ops generalizing s with
    | nil => rfl
    | cons op ops ih =>
      simp only [run]
      rw [ih]
      cases op with
      | setMiss n => rfl
      | other => rfl
      | arrive fr port dl =>
        simp only [step, arriveStep]
        cases ha : alloc s.pool (fr, port) with
        | mk p' bid => have := alloc_max s.pool (fr, port); rw [ha] at this; exact this
      | use id =>
        simp only [step, useStep]
        cases hu : use s.pool id with
        | mk p' r =>
          have := use_max s.pool id; rw [hu] at this
          cases r <;> exact this
      | drop id =>
        simp only [step, useStep]
        cases hu : use s.pool id with
        | mk p' r =>
          have := use_max s.pool id; rw [hu] at this
          cases r <;> exact this
      | useCtl id dl =>
        simp only [step, useCtlStep]
        cases hlv : live s.pool id with
        | none => rfl
        | some f =>
          simp only [useStep, arriveStep]
          cases ha : alloc s.pool (f.1, f.2) with
          | mk p1 bid =>
            have h1 := alloc_max s.pool (f.1, f.2); rw [ha] at h1
            simp only []
            cases hu : use p1 id with
            | mk p2 r =>
              have h2 := use_max p1 id; rw [hu] at h2
              cases r <;> simp only [] <;> rw [h2, h1]
  have := hm (init max miss) ops
  have h2 := stored_le (run (init max miss) ops).1.pool
  have h3 := hi.1
  have hmax : (run (init max miss) ops).1.pool.max = max := by rw [this]; rfl
  omega

/-- **unique_live**: an id given to the controller was not outstanding, and identifies exactly that frame afterwards. -/
theorem unique_live (s : St) (h : Inv s) (fr : Bytes) (port : Nat) (dl : Option Nat) (i : Nat) (data : Bytes) (t p : Nat)
    (ho : (step s (.arrive fr port dl)).2 = .packetIn (some i) data t p) :
    i ∉ s.handed.map (·.1) ∧ (i, (fr, port)) ∈ (step s (.arrive fr port dl)).1.handed := by
  simp only [step] at ho ⊢
  unfold arriveStep at ho ⊢
  cases ha : alloc s.pool (fr, port) with
  | mk p' bid =>
    rw [ha] at ho; simp only at ho ⊢
    cases bid with
    | none => simp at ho
    | some j =>
      simp only [Out.packetIn.injEq, Option.some.injEq] at ho
      obtain ⟨rfl, -, -, -⟩ := ho
      obtain ⟨f1, -, -⟩ := alloc_fresh s.pool (fr, port) j (by rw [ha])
      refine ⟨?_, by simp⟩
      intro hm
      obtain ⟨e, he, he1⟩ := List.mem_map.mp hm
      have := (h.2.1 e.1 e.2).mp he
      rw [he1, f1] at this; cases this

/-- **use_once**: using an outstanding id emits exactly the frame it was handed out for (with its ingress port) and
the id is no longer outstanding; using any other id (never handed out, already used, zero, out of range) emits nothing
and changes nothing. -/
theorem use_once (s : St) (h : Inv s) (id : Nat) :
    (∀ f, (id, f) ∈ s.handed →
        (step s (.use id)).2 = .emit f.1 f.2 ∧ id ∉ (step s (.use id)).1.handed.map (·.1)) ∧
    (id ∉ s.handed.map (·.1) → step s (.use id) = (s, .nothing)) := by
  obtain ⟨u1, u2, u3⟩ := use_spec s.pool id
  constructor
  · intro f hf
    have hl := (h.2.1 id f).mp hf
    simp only [step]
    unfold useStep
    cases hu : use s.pool id with
    | mk p' r =>
      rw [hu] at u1; simp only at u1
      rw [hl] at u1; subst u1
      simp only [true_and]
      intro hm
      obtain ⟨e, he, he1⟩ := List.mem_map.mp hm
      simp only [List.mem_filter, decide_eq_true_eq, ne_eq] at he
      exact he.2 he1
  · intro hnot
    have hl : live s.pool id = none := by
      cases hlv : live s.pool id with
      | none => rfl
      | some f =>
        exfalso; apply hnot
        exact List.mem_map.mpr ⟨(id, f), (h.2.1 id f).mpr hlv, rfl⟩
    simp only [step]
    unfold useStep
    cases hu : use s.pool id with
    | mk p' r =>
      rw [hu] at u1 u2; simp only at u1 u2
      rw [hl] at u1; subst u1
      have := u2 hl; subst this
      rfl

/-- **packet_in_form**: the packet-in always reports the true total length; with no free buffer it carries the whole
frame and no buffer id (and then the pool really is full); otherwise it carries exactly the first
`miss_send_len`/`max_len` bytes (at most that many). -/
theorem packet_in_form (s : St) (h : Inv s) (fr : Bytes) (port : Nat) (dl : Option Nat) :
    ∃ bid data, (step s (.arrive fr port dl)).2 = .packetIn bid data fr.length port ∧
      (bid = none → data = fr ∧ stored s.pool = s.pool.max) ∧
      (bid ≠ none → data = fr.take (match dl with | some n => n | none => s.missLen)) := by
  simp only [step]
  unfold arriveStep
  cases ha : alloc s.pool (fr, port) with
  | mk p' bid =>
    simp only
    cases bid with
    | none =>
      refine ⟨none, fr, rfl, fun _ => ⟨rfl, ?_⟩, fun hh => absurd rfl hh⟩
      obtain ⟨-, hge, hall⟩ := alloc_none s.pool (fr, port) (by rw [ha])
      have hfull : stored s.pool = s.pool.slots.length := by
        unfold stored
        rw [List.filter_eq_self.mpr]
        intro a ha'
        obtain ⟨i, hi, hget⟩ := List.getElem_of_mem ha'
        have := hall i hi
        rw [List.getD_eq_getElem?_getD, List.getElem?_eq_getElem hi, hget] at this
        simpa using this
      have := h.1
      omega
    | some i =>
      refine ⟨some i, _, rfl, ?_, fun _ => ?_⟩
      · intro hh; cases hh
      · cases dl <;>
        · simp only []
          split
          · rfl
          · rename_i hle
            exact (List.take_of_length_le (by omega)).symm


/-- **unbuffered_iff_full**: the packet-in goes out without a buffer id exactly when the advertised number of packets
is already stored (so "no buffer id" is never chosen while a buffer is free, and never avoided when none is) -/
theorem unbuffered_iff_full (s : St) (h : Inv s) (fr : Bytes) (port : Nat) (dl : Option Nat) :
    (∃ data total p, (step s (.arrive fr port dl)).2 = .packetIn none data total p) ↔ stored s.pool = s.pool.max := by
  rw [← alloc_none_iff s.pool (fr, port) h.1]
  simp only [step]
  unfold arriveStep
  cases ha : alloc s.pool (fr, port) with
  | mk p' bid =>
    cases bid with
    | none => simp
    | some i => simp

/-- **use_to_controller**: releasing an outstanding buffer through an action list that sends the packet to the
controller again announces that very frame (its true length, its stored ingress port) in a packet-in whose buffer id —
if it has one — is a DIFFERENT id that now identifies the frame; the old id is no longer outstanding.  Naming an id
that is not outstanding does nothing. -/
theorem use_to_controller (s : St) (h : Inv s) (id dl : Nat) :
    (∀ f, (id, f) ∈ s.handed →
      ∃ bid data, (step s (.useCtl id dl)).2 = .packetIn bid data f.1.length f.2 ∧ bid ≠ some id ∧
        id ∉ (step s (.useCtl id dl)).1.handed.map (·.1) ∧
        (∀ b, bid = some b → (b, f) ∈ (step s (.useCtl id dl)).1.handed)) ∧
    (id ∉ s.handed.map (·.1) → step s (.useCtl id dl) = (s, .nothing)) := by
  constructor
  · intro f hf
    have hlv := (h.2.1 id f).mp hf
    have hi1 := arrive_inv s f.1 f.2 (some dl) h
    obtain ⟨bid, data, ho, _, _⟩ := packet_in_form s h f.1 f.2 (some dl)
    have hstep : step s (.useCtl id dl) = ((useStep (arriveStep s f.1 f.2 (some dl)).1 id).1, (arriveStep s f.1 f.2 (some dl)).2) := by
      show useCtlStep s id dl = _
      unfold useCtlStep; rw [hlv]
    have ho' : (arriveStep s f.1 f.2 (some dl)).2 = .packetIn bid data f.1.length f.2 := ho
    -- the old id stays outstanding across the re-buffering, so `useStep` releases it
    have hkeep : (id, f) ∈ (arriveStep s f.1 f.2 (some dl)).1.handed := by
      unfold arriveStep
      cases ha : alloc s.pool (f.1, f.2) with
      | mk p' b => cases b <;> simp [hf]
    obtain ⟨hu1, _⟩ := use_once _ hi1 id
    obtain ⟨_, hgone⟩ := hu1 f hkeep
    refine ⟨bid, data, by rw [hstep]; exact ho', ?_, by rw [hstep]; exact hgone, ?_⟩
    · -- the new id differs: it was not outstanding before
      intro hb
      have := (unique_live s h f.1 f.2 (some dl) id data f.1.length f.2 (by rw [← hb]; exact ho)).1
      exact this (List.mem_map.mpr ⟨(id, f), hf, rfl⟩)
    · intro b hb
      have hnew := (unique_live s h f.1 f.2 (some dl) b data f.1.length f.2 (by rw [← hb]; exact ho)).2
      have hne : b ≠ id := by
        intro e
        have := (unique_live s h f.1 f.2 (some dl) b data f.1.length f.2 (by rw [← hb]; exact ho)).1
        exact this (List.mem_map.mpr ⟨(id, f), hf, e.symm ▸ rfl⟩)
      rw [hstep]
      show (b, f) ∈ (useStep (arriveStep s f.1 f.2 (some dl)).1 id).1.handed
      have hmem : (b, f) ∈ (arriveStep s f.1 f.2 (some dl)).1.handed := hnew
      unfold useStep
      cases hu : use (arriveStep s f.1 f.2 (some dl)).1.pool id with
      | mk p' r =>
        cases r with
        | none => exact hmem
        | some g => simp only [List.mem_filter, decide_eq_true_eq, ne_eq]; exact ⟨hmem, hne⟩
  · intro hnot
    have hl : live s.pool id = none := by
      cases hlv : live s.pool id with
      | none => rfl
      | some f => exact absurd (List.mem_map.mpr ⟨(id, f), (h.2.1 id f).mpr hlv, rfl⟩) hnot
    show useCtlStep s id dl = _
    unfold useCtlStep; rw [hl]

/-! ## Refinement: every history behaves like an abstract map from outstanding buffer ids to frames

`Spec` is the whole specification state — which ids are outstanding, and for which frame; `SpecStep` says what one
operation may do to it and what it must answer (any unused non-zero id may be chosen for a new buffer).  `refines` shows
that every history of the pool model is a history of the specification, with `abs` (forget the slot list) as the
abstraction map. -/

structure Spec where
  held : List (Nat × Frame)
  max : Nat
  missLen : Nat

def Spec.ids (a : Spec) : List Nat := a.held.map (·.1)

def lenOf (dl : Option Nat) (missLen : Nat) : Nat := match dl with | some n => n | none => missLen

inductive SpecStep : Spec → Op → Out → Spec → Prop
  /-- a buffer is free: the packet is stored under an id that is not outstanding (and not 0); the packet-in carries that
      id, at most `miss_send_len` / `max_len` bytes of the frame, and the true total length -/
  | buffered (a : Spec) (fr : Bytes) (port : Nat) (dl : Option Nat) (i : Nat) :
      a.held.length < a.max → i ≠ 0 → i ∉ a.ids →
      SpecStep a (.arrive fr port dl) (.packetIn (some i) (fr.take (lenOf dl a.missLen)) fr.length port)
        { a with held := a.held ++ [(i, (fr, port))] }
  /-- `max` packets are outstanding: the packet-in carries the whole frame and no id; nothing is stored -/
  | full (a : Spec) (fr : Bytes) (port : Nat) (dl : Option Nat) : a.max ≤ a.held.length →
      SpecStep a (.arrive fr port dl) (.packetIn none fr fr.length port) a
  /-- an outstanding id: its frame is emitted (with its ingress port) and the id is no longer outstanding -/
  | release (a : Spec) (id : Nat) (fr : Bytes) (port : Nat) : (id, (fr, port)) ∈ a.held →
      SpecStep a (.use id) (.emit fr port) { a with held := a.held.filter (fun e => e.1 ≠ id) }
  /-- any other id: nothing is emitted, nothing changes -/
  | stale (a : Spec) (id : Nat) : id ∉ a.ids → SpecStep a (.use id) .nothing a
  /-- an outstanding id released towards the controller: that frame arrives again (while the old id is still
      outstanding), then the old id is dropped -/
  | releaseCtl (a : Spec) (id dl : Nat) (fr : Bytes) (port : Nat) (o : Out) (a1 : Spec) : (id, (fr, port)) ∈ a.held →
      SpecStep a (.arrive fr port (some dl)) o a1 →
      SpecStep a (.useCtl id dl) o { a1 with held := a1.held.filter (fun e => e.1 ≠ id) }
  | staleCtl (a : Spec) (id dl : Nat) : id ∉ a.ids → SpecStep a (.useCtl id dl) .nothing a
  /-- an outstanding id used with an empty action list: the packet is dropped — nothing emitted, the id released -/
  | discard (a : Spec) (id : Nat) (fr : Bytes) (port : Nat) : (id, (fr, port)) ∈ a.held →
      SpecStep a (.drop id) .nothing { a with held := a.held.filter (fun e => e.1 ≠ id) }
  | staleDrop (a : Spec) (id : Nat) : id ∉ a.ids → SpecStep a (.drop id) .nothing a
  | setMiss (a : Spec) (n : Nat) : SpecStep a (.setMiss n) .nothing { a with missLen := n }
  /-- a message that names no buffer changes nothing, whatever it does to the flow table -/
  | other (a : Spec) : SpecStep a .other .nothing a

inductive SpecRun : Spec → List Op → List Out → Spec → Prop
  | nil (a : Spec) : SpecRun a [] [] a
  | cons (a a1 a2 : Spec) (op : Op) (o : Out) (ops : List Op) (os : List Out) :
      SpecStep a op o a1 → SpecRun a1 ops os a2 → SpecRun a (op :: ops) (o :: os) a2

/-- abstraction map: forget the slot list -/
def abs (s : St) : Spec := { held := s.handed, max := s.pool.max, missLen := s.missLen }

/-- the invariant, strengthened by: as many ids are outstanding as packets are stored -/
def InvL (s : St) : Prop := Inv s ∧ s.handed.length = stored s.pool

theorem init_invL (max miss : Nat) : InvL (init max miss) := ⟨init_inv max miss, by simp [init, stored]⟩

theorem not_mem_ids_of_dead (s : St) (h : Inv s) (id : Nat) (hl : live s.pool id = none) : id ∉ (abs s).ids := by
  intro hm
  obtain ⟨e, he, he1⟩ := List.mem_map.mp hm
  have := (h.2.1 e.1 e.2).mp he
  have he1' : e.1 = id := he1
  rw [he1', hl] at this; cases this

theorem arrive_refines (s : St) (h : InvL s) (fr : Bytes) (port : Nat) (dl : Option Nat) :
    SpecStep (abs s) (.arrive fr port dl) (arriveStep s fr port dl).2 (abs (arriveStep s fr port dl).1) ∧
    InvL (arriveStep s fr port dl).1 := by
  obtain ⟨hi, hlen⟩ := h
  have hinv' := arrive_inv s fr port dl hi
  unfold arriveStep at hinv' ⊢
  cases ha : alloc s.pool (fr, port) with
  | mk p' bid =>
    rw [ha] at hinv'
    have hmax : p'.max = s.pool.max := by have := alloc_max s.pool (fr, port); rw [ha] at this; exact this
    cases bid with
    | none =>
      obtain ⟨hsame, hge, hall⟩ := alloc_none s.pool (fr, port) (by rw [ha])
      rw [ha] at hsame; simp only at hsame; subst hsame
      have hfull : stored s.pool = s.pool.slots.length := by
        unfold stored
        rw [List.filter_eq_self.mpr]
        intro a ha'
        obtain ⟨i, hi', hget⟩ := List.getElem_of_mem ha'
        have := hall i hi'
        rw [List.getD_eq_getElem?_getD, List.getElem?_eq_getElem hi', hget] at this
        simpa using this
      refine ⟨?_, hinv', hlen⟩
      have : (abs s).max ≤ (abs s).held.length := by simp only [abs]; omega
      exact SpecStep.full (abs s) fr port dl this
    | some i =>
      obtain ⟨f1, f2, -⟩ := alloc_fresh s.pool (fr, port) i (by rw [ha])
      have hst := alloc_stored s.pool (fr, port) i (by rw [ha])
      rw [ha] at hst f2; simp only at hst f2
      have hb' : p'.slots.length ≤ p'.max := by
        have := alloc_bounded s.pool (fr, port) hi.1; rw [ha] at this; exact this
      have hle := stored_le p'
      have hlt : (abs s).held.length < (abs s).max := by simp only [abs]; omega
      have hi0 : i ≠ 0 := by
        intro h0; subst h0; simp [live] at f2
      have hfresh : i ∉ (abs s).ids := not_mem_ids_of_dead s hi i f1
      refine ⟨?_, hinv', ?_⟩
      · cases dl with
        | none =>
          have hd : (if fr.length > s.missLen then fr.take s.missLen else fr) = fr.take s.missLen := by
            split
            · rfl
            · exact (List.take_of_length_le (by omega)).symm
          have := SpecStep.buffered (abs s) fr port none i hlt hi0 hfresh
          simp only [abs, lenOf] at this ⊢
          rw [hmax, hd]; exact this
        | some n =>
          have hd : (if fr.length > n then fr.take n else fr) = fr.take n := by
            split
            · rfl
            · exact (List.take_of_length_le (by omega)).symm
          have := SpecStep.buffered (abs s) fr port (some n) i hlt hi0 hfresh
          simp only [abs, lenOf] at this ⊢
          rw [hmax, hd]; exact this
      · simp only [List.length_append, List.length_singleton]; omega

theorem use_refines (s : St) (h : InvL s) (id : Nat) :
    SpecStep (abs s) (.use id) (useStep s id).2 (abs (useStep s id).1) ∧ InvL (useStep s id).1 := by
  obtain ⟨hi, hlen⟩ := h
  have hinv' := use_inv s id hi
  obtain ⟨u1, u2, -⟩ := use_spec s.pool id
  unfold useStep at hinv' ⊢
  cases hu : use s.pool id with
  | mk p' r =>
    rw [hu] at hinv' u1 u2; simp only at u1 u2
    have hmax : p'.max = s.pool.max := by have := use_max s.pool id; rw [hu] at this; exact this
    cases r with
    | none =>
      have hsame := u2 u1.symm; subst hsame
      exact ⟨SpecStep.stale (abs s) id (not_mem_ids_of_dead s hi id u1.symm), hinv', hlen⟩
    | some f =>
      have hmem : (id, f) ∈ s.handed := (hi.2.1 id f).mpr u1.symm
      have hst := use_stored s.pool id f (by rw [hu])
      rw [hu] at hst; simp only at hst
      have hl := length_filter_ne s.handed id f hi.2.2 hmem
      refine ⟨?_, hinv', ?_⟩
      · have := SpecStep.release (abs s) id f.1 f.2 hmem
        simp only [abs] at this ⊢
        rw [hmax]; exact this
      · simp only []; omega

/-- **refines_step**: one operation of the pool is one step the specification allows, with the answer it requires -/
theorem refines_step (s : St) (h : InvL s) (op : Op) :
    SpecStep (abs s) op (step s op).2 (abs (step s op).1) ∧ InvL (step s op).1 := by
  cases op with
  | setMiss n => exact ⟨SpecStep.setMiss (abs s) n, h⟩
  | other => exact ⟨SpecStep.other (abs s), h⟩
  | arrive fr port dl => exact arrive_refines s h fr port dl
  | use id => exact use_refines s h id
  | drop id =>
    refine ⟨?_, (use_refines s h id).2⟩
    show SpecStep (abs s) (.drop id) .nothing (abs (useStep s id).1)
    obtain ⟨u1, u2, -⟩ := use_spec s.pool id
    unfold useStep
    cases hu : use s.pool id with
    | mk p' r =>
      rw [hu] at u1 u2; simp only at u1 u2
      have hmax : p'.max = s.pool.max := by have := use_max s.pool id; rw [hu] at this; exact this
      cases r with
      | none =>
        have hsame := u2 u1.symm; subst hsame
        exact SpecStep.staleDrop (abs s) id (not_mem_ids_of_dead s h.1 id u1.symm)
      | some f =>
        have hmem : (id, f) ∈ s.handed := (h.1.2.1 id f).mpr u1.symm
        have := SpecStep.discard (abs s) id f.1 f.2 hmem
        simp only [abs] at this ⊢
        rw [hmax]; exact this
  | useCtl id dl =>
    show SpecStep (abs s) (.useCtl id dl) (useCtlStep s id dl).2 (abs (useCtlStep s id dl).1) ∧ InvL (useCtlStep s id dl).1
    unfold useCtlStep
    cases hlv : live s.pool id with
    | none => exact ⟨SpecStep.staleCtl (abs s) id dl (not_mem_ids_of_dead s h.1 id hlv), h⟩
    | some f =>
      have hmem : (id, f) ∈ s.handed := (h.1.2.1 id f).mpr hlv
      obtain ⟨ha, hia⟩ := arrive_refines s h f.1 f.2 (some dl)
      obtain ⟨hu, hiu⟩ := use_refines (arriveStep s f.1 f.2 (some dl)).1 hia id
      refine ⟨?_, hiu⟩
      -- the old id is still outstanding after the re-buffering, so `useStep` takes the `release` branch
      have hkeep : (id, f) ∈ (arriveStep s f.1 f.2 (some dl)).1.handed := by
        unfold arriveStep
        cases hal : alloc s.pool (f.1, f.2) with
        | mk p' b => cases b <;> simp [hmem]
      have hlive := (hia.1.2.1 id f).mp hkeep
      have hstate : abs (useStep (arriveStep s f.1 f.2 (some dl)).1 id).1 =
          { abs (arriveStep s f.1 f.2 (some dl)).1 with
            held := (abs (arriveStep s f.1 f.2 (some dl)).1).held.filter (fun e => e.1 ≠ id) } := by
        obtain ⟨u1, -, -⟩ := use_spec (arriveStep s f.1 f.2 (some dl)).1.pool id
        unfold useStep
        cases hu' : use (arriveStep s f.1 f.2 (some dl)).1.pool id with
        | mk p2 r =>
          rw [hu'] at u1; simp only at u1
          rw [hlive] at u1; subst u1
          have hmax : p2.max = (arriveStep s f.1 f.2 (some dl)).1.pool.max := by
            have := use_max (arriveStep s f.1 f.2 (some dl)).1.pool id; rw [hu'] at this; exact this
          simp only [abs, hmax]
      simp only []
      rw [hstate]
      exact SpecStep.releaseCtl (abs s) id dl f.1 f.2 _ _ hmem ha

/-- **refines**: every history of the buffer code is a history of the abstract specification — same answers, and the
abstract state is the controller's view (`handed`) throughout. -/
theorem refines (s : St) (h : InvL s) (ops : List Op) : SpecRun (abs s) ops (run s ops).2 (abs (run s ops).1) := by
  induction ops generalizing s with
  | nil => exact SpecRun.nil _
  | cons op ops ih =>
    obtain ⟨hs, hi⟩ := refines_step s h op
    simp only [run]
    exact SpecRun.cons _ _ _ op _ ops _ hs (ih _ hi)

theorem refines_init (max miss : Nat) (ops : List Op) :
    SpecRun { held := [], max := max, missLen := miss } ops (run (init max miss) ops).2 (abs (run (init max miss) ops).1) :=
  refines (init max miss) (init_invL max miss) ops

/-- the specification really forbids things: it never stores more than `max`, never reuses an outstanding id -/
theorem spec_arrive_sound (a a' : Spec) (fr : Bytes) (port : Nat) (dl : Option Nat) (o : Out)
    (hb : a.held.length ≤ a.max) (hn : a.ids.Nodup)
    (h : SpecStep a (.arrive fr port dl) o a') : a'.held.length ≤ a'.max ∧ a'.ids.Nodup := by
  cases h with
  | buffered _ _ _ i hlt _ hfresh =>
    refine ⟨by simp; omega, ?_⟩
    simp only [Spec.ids, List.map_append, List.map_cons, List.map_nil]
    refine List.nodup_append.mpr ⟨hn, by simp, ?_⟩
    intro x hx y hy
    simp only [List.mem_singleton] at hy
    subst hy
    intro hxy; subst hxy; exact hfresh hx
  | full _ _ _ _ => exact ⟨hb, hn⟩

theorem spec_step_sound (a a' : Spec) (op : Op) (o : Out) (hb : a.held.length ≤ a.max) (hn : a.ids.Nodup)
    (h : SpecStep a op o a') : a'.held.length ≤ a'.max ∧ a'.ids.Nodup := by
  cases h with
  | buffered fr port dl i hlt h0 hfresh => exact spec_arrive_sound a _ fr port dl _ hb hn (SpecStep.buffered a fr port dl i hlt h0 hfresh)
  | full fr port dl hf => exact ⟨hb, hn⟩
  | release id fr port _ =>
    exact ⟨Nat.le_trans (List.length_filter_le _ _) hb, (List.filter_sublist.map _).nodup hn⟩
  | stale id _ => exact ⟨hb, hn⟩
  | releaseCtl id dl fr port o' a1 hm hst =>
    obtain ⟨h1, h2⟩ := spec_arrive_sound a _ fr port (some dl) o hb hn hst
    exact ⟨Nat.le_trans (List.length_filter_le _ _) h1, (List.filter_sublist.map _).nodup h2⟩
  | staleCtl id dl _ => exact ⟨hb, hn⟩
  | discard id fr port _ =>
    exact ⟨Nat.le_trans (List.length_filter_le _ _) hb, (List.filter_sublist.map _).nodup hn⟩
  | staleDrop id _ => exact ⟨hb, hn⟩
  | setMiss n => exact ⟨hb, hn⟩
  | other => exact ⟨hb, hn⟩

/-! ## An id stays tied to its frame until it is used; a pool of any size hands out pairwise different ids

`held_frame_fixed`: whatever else happens (arrivals, other ids used, set-config, other messages — any number of them), as long
as no operation names `id`, the id stays outstanding for the very frame it was handed out for, and using it then emits
that frame.  `fill_all_buffered` / `fill_ids_distinct`: arrivals in a row, as many as there is room for — for every pool
size, 256 and 1000 as much as 2 — are all buffered, under ids that are pairwise different and different from every id
already outstanding. -/

/-- the operation names buffer `id` -/
def Names (id : Nat) : Op → Prop
  | .use j => j = id
  | .drop j => j = id
  | .useCtl j _ => j = id
  | _ => False

theorem arrive_keeps (s : St) (fr : Bytes) (port : Nat) (dl : Option Nat) (e : Nat × Frame) (he : e ∈ s.handed) :
    e ∈ (arriveStep s fr port dl).1.handed := by
  unfold arriveStep
  cases ha : alloc s.pool (fr, port) with
  | mk p' b => cases b <;> simp [he]

theorem use_keeps (s : St) (j : Nat) (e : Nat × Frame) (he : e ∈ s.handed) (hne : e.1 ≠ j) :
    e ∈ (useStep s j).1.handed := by
  unfold useStep
  cases hu : use s.pool j with
  | mk p' r =>
    cases r with
    | none => exact he
    | some g => simp only [List.mem_filter, decide_eq_true_eq, ne_eq]; exact ⟨he, hne⟩

theorem step_keeps (s : St) (op : Op) (id : Nat) (f : Frame) (he : (id, f) ∈ s.handed) (hno : ¬ Names id op) :
    (id, f) ∈ (step s op).1.handed := by
  cases op with
  | setMiss n => exact he
  | other => exact he
  | arrive fr port dl => exact arrive_keeps s fr port dl _ he
  | use j => exact use_keeps s j _ he (fun h => hno h.symm)
  | drop j => exact use_keeps s j _ he (fun h => hno h.symm)
  | useCtl j dl =>
    show (id, f) ∈ (useCtlStep s j dl).1.handed
    unfold useCtlStep
    cases hlv : live s.pool j with
    | none => exact he
    | some g => exact use_keeps _ j _ (arrive_keeps s g.1 g.2 (some dl) _ he) (fun h => hno h.symm)

/-- **held_frame_fixed**: an id given to the controller identifies the same stored packet until it is used — after any
history that does not name it, it is still outstanding for that frame, the frame is still stored under it, and using it
emits exactly that frame. -/
theorem held_frame_fixed (s : St) (h : Inv s) (id : Nat) (f : Frame) (ops : List Op)
    (he : (id, f) ∈ s.handed) (hno : ∀ op ∈ ops, ¬ Names id op) :
    (id, f) ∈ (run s ops).1.handed ∧ live (run s ops).1.pool id = some f ∧
    (step (run s ops).1 (.use id)).2 = .emit f.1 f.2 := by
  have hmem : (id, f) ∈ (run s ops).1.handed := by
    induction ops generalizing s with
    | nil => exact he
    | cons op ops ih =>
      simp only [run]
      exact ih _ (step_inv s op h) (step_keeps s op id f he (hno op (by simp))) (fun o ho => hno o (by simp [ho]))
  have hinv := reachable_inv s ops h
  exact ⟨hmem, (hinv.2.1 id f).mp hmem, ((use_once _ hinv id).1 f hmem).1⟩

/-- a row of arrivals -/
def arrivals (l : List (Bytes × Nat × Option Nat)) : List Op := l.map fun x => .arrive x.1 x.2.1 x.2.2

def bidOf : Out → Option Nat
  | .packetIn b _ _ _ => b
  | _ => none

/-- the ids outstanding after a row of arrivals are those outstanding before plus exactly the ids in the packet-ins -/
theorem arrivals_handed (s : St) (l : List (Bytes × Nat × Option Nat)) :
    (run s (arrivals l)).1.handed.map (·.1) = s.handed.map (·.1) ++ (run s (arrivals l)).2.filterMap bidOf := by
  induction l generalizing s with
  | nil => simp [arrivals, run]
  | cons x l ih =>
    have ih' := ih (arriveStep s x.1 x.2.1 x.2.2).1
    simp only [arrivals, List.map_cons, run, step] at ih' ⊢
    rw [ih']
    unfold arriveStep
    cases ha : alloc s.pool (x.1, x.2.1) with
    | mk p' b => cases b <;> simp [bidOf, List.filterMap_cons]

/-- **fill_ids_distinct**: the ids handed out by a row of arrivals are pairwise different and none of them was
outstanding before — for every pool size and every number of arrivals. -/
theorem fill_ids_distinct (s : St) (h : Inv s) (l : List (Bytes × Nat × Option Nat)) :
    ((run s (arrivals l)).2.filterMap bidOf).Nodup ∧
    ∀ i ∈ (run s (arrivals l)).2.filterMap bidOf, i ∉ s.handed.map (·.1) := by
  have hn := (reachable_inv s (arrivals l) h).2.2
  rw [arrivals_handed] at hn
  obtain ⟨_, h2, h3⟩ := List.nodup_append.mp hn
  exact ⟨h2, fun i hi hm => h3 i hm i hi rfl⟩

/-- **fill_all_buffered**: while there is room (stored + number of arrivals ≤ max) every arrival is buffered: its
packet-in carries a buffer id. -/
theorem fill_all_buffered (s : St) (h : InvL s) (l : List (Bytes × Nat × Option Nat))
    (hroom : stored s.pool + l.length ≤ s.pool.max) :
    ∀ o ∈ (run s (arrivals l)).2, ∃ i data t p, o = .packetIn (some i) data t p := by
  induction l generalizing s with
  | nil => simp [arrivals, run]
  | cons x l ih =>
    obtain ⟨_, hi'⟩ := arrive_refines s h x.1 x.2.1 x.2.2
    obtain ⟨bid, data, ho, _, _⟩ := packet_in_form s h.1 x.1 x.2.1 x.2.2
    have hne : bid ≠ none := by
      intro hb; subst hb
      have := (unbuffered_iff_full s h.1 x.1 x.2.1 x.2.2).mp ⟨_, _, _, ho⟩
      simp only [List.length_cons] at hroom; omega
    obtain ⟨i, rfl⟩ := Option.ne_none_iff_exists'.mp hne
    have ho' : (arriveStep s x.1 x.2.1 x.2.2).2 = .packetIn (some i) data x.1.length x.2.1 := ho
    have hst : stored (arriveStep s x.1 x.2.1 x.2.2).1.pool = stored s.pool + 1 := by
      have h1 := hi'.2; have h2 := h.2
      have : (arriveStep s x.1 x.2.1 x.2.2).1.handed.length = s.handed.length + 1 := by
        revert ho'
        unfold arriveStep
        cases ha : alloc s.pool (x.1, x.2.1) with
        | mk p' b => cases b <;> simp
      omega
    have hmx : (arriveStep s x.1 x.2.1 x.2.2).1.pool.max = s.pool.max := by
      unfold arriveStep
      cases ha : alloc s.pool (x.1, x.2.1) with
      | mk p' b => have := alloc_max s.pool (x.1, x.2.1); rw [ha] at this; exact this
    have ih' := ih (arriveStep s x.1 x.2.1 x.2.2).1 hi' (by simp only [List.length_cons] at hroom; omega)
    intro o hmem
    simp only [arrivals, List.map_cons, run, step, List.mem_cons] at hmem ih'
    rcases hmem with rfl | hmem
    · exact ⟨i, data, _, _, ho'⟩
    · exact ih' o hmem

/-! ## An action list over a buffered packet amounts to arrivals followed by the release

The harness puts an arbitrary action list (outputs, rewrites, output:CONTROLLER, output:TABLE into a miss — in any order) that a
packet_out / flow_mod runs over buffered packet `id` to the model as: one `.arrive` per buffering output, carrying the frame as it
is AT that output, then `.drop id` (`_process_actions_for_packet_from_buffer`: the actions run while the slot is still occupied, the
slot is cleared in the `finally`).  A release whose k-th physical output raises is the same history with the arrivals cut at the
failing output.  `list_release` says what every such history does to the controller's view, whatever the arrivals are. -/

theorem run_append (s : St) (a b : List Op) :
    run s (a ++ b) = ((run (run s a).1 b).1, (run s a).2 ++ (run (run s a).1 b).2) := by
  induction a generalizing s with
  | nil => simp [run]
  | cons op a ih =>
    simp only [List.cons_append, run]
    rw [ih]

theorem arrivals_not_names (id : Nat) (l : List (Bytes × Nat × Option Nat)) : ∀ op ∈ arrivals l, ¬ Names id op := by
  intro op hop
  simp only [arrivals, List.mem_map] at hop
  obtain ⟨x, _, rfl⟩ := hop
  simp [Names]

/-- **list_release**: an action list run over outstanding buffer `id` — any number of buffering outputs, then the release — answers
with exactly the packet-ins the arrivals alone produce (the release adds none), leaves `id` no longer outstanding, and leaves every
other id that was outstanding before tied to its frame. -/
theorem list_release (s : St) (h : Inv s) (id : Nat) (f : Frame) (l : List (Bytes × Nat × Option Nat)) (he : (id, f) ∈ s.handed) :
    (run s (arrivals l ++ [.drop id])).2 = (run s (arrivals l)).2 ++ [.nothing] ∧
    id ∉ (run s (arrivals l ++ [.drop id])).1.handed.map (·.1) ∧
    (∀ j g, j ≠ id → (j, g) ∈ s.handed → (j, g) ∈ (run s (arrivals l ++ [.drop id])).1.handed) := by
  have hno := arrivals_not_names id l
  obtain ⟨hm, -, -⟩ := held_frame_fixed s h id f (arrivals l) he hno
  have hinv := reachable_inv s (arrivals l) h
  rw [run_append]
  refine ⟨by simp [run, step], ?_, ?_⟩
  · have := ((use_once _ hinv id).1 f hm).2
    simpa [run, step] using this
  · intro j g hne hj
    have hj' : (j, g) ∈ (run s (arrivals l)).1.handed :=
      (held_frame_fixed s h j g (arrivals l) hj (arrivals_not_names j l)).1
    have := step_keeps (run s (arrivals l)).1 (.drop id) j g hj' (by simp [Names]; exact fun e => hne e.symm)
    simpa [run] using this

/-! a buffered packet (id 1) run through [output:CONTROLLER(2) after a rewrite, a length-changing rewrite, output:TABLE into a miss]:
two packet-ins showing the frame as it is at each output, then id 1 is gone and the two new ids stand for those frames -/
example : (run (init 3 9) ([.arrive [1,2,3] 7 none] ++ (arrivals [([9,2,3], 7, some 2), ([9,2,3,4], 7, none)] ++ [.drop 1, .use 1, .use 3]))).2 =
    [.packetIn (some 1) [1,2,3] 3 7, .packetIn (some 2) [9,2] 3 7, .packetIn (some 3) [9,2,3,4] 4 7, .nothing, .nothing, .emit [9,2,3,4] 7] := by decide
example : ∃ f, (1, f) ∈ (run (init 3 9) [.arrive [1,2,3] 7 none]).1.handed ∧ Inv (run (init 3 9) [.arrive [1,2,3] 7 none]).1 :=
  ⟨([1,2,3], 7), by decide, reachable_inv _ _ (init_inv 3 9)⟩

/-! non-vacuity: a pool of 2 after three arrivals and a use — ids 1, 2, none; using 1 frees it and 1 is reused -/
def demoOps : List Op :=
  [.arrive [1,2,3,4] 7 none, .arrive [5,6] 8 (some 1), .arrive [9] 9 none, .use 1, .use 1, .arrive [10,11,12] 3 none]
example : (run (init 2 2) demoOps).2 =
    [.packetIn (some 1) [1,2] 4 7, .packetIn (some 2) [5] 2 8, .packetIn none [9] 1 9,
     .emit [1,2,3,4] 7, .nothing, .packetIn (some 1) [10,11] 3 3] := by decide
example : Inv (init 2 2) := init_inv 2 2
/-! `drop` releases without emitting, `setMiss` changes what later table misses carry, `other` changes nothing -/
example : (run (init 2 9) [.arrive [1,2,3] 7 none, .other, .setMiss 1, .arrive [4,5,6] 8 none, .drop 1, .use 1, .other, .use 2]).2 =
    [.packetIn (some 1) [1,2,3] 3 7, .nothing, .nothing, .packetIn (some 2) [4] 3 8, .nothing, .nothing, .nothing, .emit [4,5,6] 8] := by decide
example : (run (init 2 9) [.arrive [1,2,3] 7 none, .useCtl 1 2, .use 1, .use 2]).2 =
    [.packetIn (some 1) [1,2,3] 3 7, .packetIn (some 2) [1,2] 3 7, .nothing, .emit [1,2,3] 7] := by decide

/-! the specification is not vacuous: it refuses to emit anything for an id that is not outstanding, and refuses an
unbuffered packet-in while a buffer is free -/
example (a' : Spec) : ¬ SpecStep { held := [], max := 2, missLen := 0 } (.use 1) (.emit [1] 0) a' := by
  intro h; cases h with
  | release id fr port hm => simp at hm
example (a' : Spec) : ¬ SpecStep { held := [], max := 2, missLen := 0 } (.arrive [1,2] 3 none) (.packetIn none [1,2] 2 3) a' := by
  intro h; cases h with
  | full fr port dl hf => simp at hf
example : SpecRun { held := [], max := 2, missLen := 2 } demoOps (run (init 2 2) demoOps).2 (abs (run (init 2 2) demoOps).1) :=
  refines_init 2 2 demoOps

/-! a pool of 300: 300 arrivals in a row are all buffered under 300 different ids (instances of the two theorems; their
hypotheses hold for the empty pool) -/
example (l : List (Bytes × Nat × Option Nat)) (hl : l.length = 300) :
    (∀ o ∈ (run (init 300 5) (arrivals l)).2, ∃ i data t p, o = .packetIn (some i) data t p) ∧
    ((run (init 300 5) (arrivals l)).2.filterMap bidOf).Nodup :=
  ⟨fill_all_buffered _ (init_invL 300 5) l (by simp [init, stored, hl]), (fill_ids_distinct _ (init_inv 300 5) l).1⟩
/-! the id of the first packet survives a history that fills the pool, uses the other id, changes the miss length —
and then yields its own frame -/
example : (step (run (init 2 9) [.arrive [1,2,3] 7 none, .arrive [4,5] 8 none, .arrive [6] 9 none, .use 2, .setMiss 1, .other, .arrive [7,8] 3 none]).1 (.use 1)).2
    = .emit [1,2,3] 7 := by decide
example : ¬ Names 1 (.use 2) ∧ Names 1 (.drop 1) := by simp [Names]

end Pox.C18
