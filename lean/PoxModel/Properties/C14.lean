import PoxModel.Proofs.PacketChain
import PoxModel.Proofs.Lldp
import PoxModel.Proofs.Gre
import PoxModel.Proofs.Igmp3
import PoxModel.Proofs.PacketExtChain
import PoxModel.Proofs.PacketExtValid
import PoxModel.Proofs.Ndp
import PoxModel.Proofs.Dhcp
import PoxModel.Proofs.IPv6Ext
/-!
# C14 — packet headers survive build → bytes → parse with valid lengths and checksums

Models: `Model/Checksum.lean` (`packet_utils.checksum` + the RFC 1071 specification), `Model/PacketLayout.lean`
(`struct` formats), `Model/PacketHdr.lean` (Ethernet, 802.1Q, ARP, IPv4, UDP, TCP, ICMP echo/unreachable/time-exceeded,
`packet_base.pack`, the per-class `parse`).  The models follow the code after the repairs D12, D13, D40, D41
(fixes/*.diff).  Every theorem is followed by an `example` instantiating its hypotheses.

Proved for all inputs (no bound on payloads other than the 16-bit length fields themselves):
* `checksum_rfc1071`, `checksum_skip_rfc1071`, `checksum_start`, `checksum_verifies` — the code's checksum is RFC 1071;
* `struct_roundtrip` — generic `struct.unpack(pack(vs)) = vs`;
* `ipv4_hdr`, `udp_hdr`, `tcp_hdr`, `icmp_hdr` — emitted length fields, data offset and (pseudo-header) checksums equal
  the specification; the IPv4 and ICMP checksums verify at a receiver;
* `ipv4_roundtrip`, `udp_roundtrip`, `icmp_roundtrip`, `eth_roundtrip`, `vlan_roundtrip`, `arp_roundtrip`,
  `echo_roundtrip`, `unreach_roundtrip`, `time_exceeded_roundtrip` — per-class `parse (hdr ++ payload)`;
* `tcp_roundtrip` — TCP header with any list of well-formed options (NOP, MSS, window scale, SACK-permitted, SACK,
  timestamps, other kinds) through `parse_options`;
* `roundtrip`, `repack_id` — whole chains (any nesting of the ten classes, including quoted datagrams inside ICMP
  errors, IPv4 options, TCP options): `parse (pack p)` is `p` with the computed attributes filled in, and
  `pack (parse (pack p)) = pack p`.

Phase 2 (`Model/PacketExt.lean`; the extended chain parser `xparse` runs the original per-class parsers unchanged):
* `llc_roundtrip` (LLC with one/two control octets, with/without SNAP), `mpls_roundtrip`, `lldp_roundtrip` (whole PDU:
  chassis/port/TTL + optional TLVs + END, every TLV length field exact), `eapol_roundtrip`, `eap_roundtrip`
  (success/failure), `vxlan_roundtrip`, `rip_roundtrip`;
* `ipv6_hdr` (40 bytes, payload-length field, all fields back), `udp6_hdr`, `tcp6_hdr`, `icmp6_hdr` (checksums over the
  IPv6 pseudo header = RFC 1071), `icmp6_roundtrip` (the receiver-side verification in `icmpv6.parse` accepts what
  `hdr` emitted), `echo6_roundtrip`;
* `gre_hdr` / `gre_roundtrip` (flags, key, sequence number; checksum = RFC 1071 and verifies);
* `igmp_v2` / `igmp_v3` (checksum = RFC 1071 and verifies, `igmp.parse` accepts it, group records come back).

* `xparse_eth_dispatch`, `xparse_ipv4_dispatch`, `xparse_udp_dispatch` — the extended chain parser (original parsers +
  probe/lift glue) demultiplexes by EtherType / protocol / UDP port exactly like the code; `lldp_frame_roundtrip` — the
  whole Ethernet+LLDP probe frame: pack, parse, re-pack.

Still not behaviour-modelled (differential testing only, see harness/c14.py): DHCP, DNS (open findings D45/D46), IPv6
extension headers (D48), ICMPv6 error/NDP bodies (D47), EAP request/response bodies (D49), GRE routing, MPTCP options.
-/
namespace Pox.C14
open Pox Pox.PktLayout Pox.Checksum Pox.Packet

deriving instance DecidableEq for Except

/-! ## the checksum routine is RFC 1071 -/

/-- `packet_utils.checksum(data)` = RFC 1071 for every datagram up to 128 KiB (little-endian sum, two folds and `ntohs`
versus big-endian sum folded to a fixed point; odd lengths pad the last byte on the right) -/
theorem checksum_rfc1071 (d : Bytes) (h : d.length ≤ 131072) : checksum d 0 none = rfc1071 d :=
  checksum_eq d h

example : checksum [0x00, 0x01, 0xf2, 0x03, 0xf4, 0xf5, 0xf6, 0xf7] 0 none = 0x220d := by decide   -- RFC 1071 §3
example : checksum [0x45, 0x00, 0x01] 0 none = rfc1071 [0x45, 0x00, 0x01] := by decide          -- odd length

/-- `skip_word = k` computes the checksum of the datagram with its `k`-th 16-bit word zeroed -/
theorem checksum_skip_rfc1071 (d : Bytes) (k : Nat) (h : d.length ≤ 131072) :
    checksum d 0 (some k) = rfc1071 (zeroWord k d) :=
  checksum_skip_eq d k h

example : checksum [1, 2, 3, 4, 5] 0 (some 1) = rfc1071 [1, 2, 0, 0, 5] := by decide

/-- `start` continues a sum: with the accumulated little-endian word sum of an even-length prefix `p` as `start`, the
result is the RFC 1071 checksum of `p ++ d` -/
theorem checksum_start (p d : Bytes) (hp : p.length % 2 = 0) (h : (p ++ d).length ≤ 131072) :
    checksum d (sumSkip (fullWordsLE p) none) none = rfc1071 (p ++ d) := by
  have := le_sum_rfc1071 (p ++ d) h
  rw [sumLE_append_even p d hp] at this
  simpa [checksum, sumLE, Nat.add_assoc] using this

example : checksum [5, 6, 7] (sumSkip (fullWordsLE [1, 2, 3, 4]) none) none = rfc1071 [1, 2, 3, 4, 5, 6, 7] := by decide

/-- the specification's carry loop is the unbounded `while s >> 16: s = (s >> 16) + (s & 0xffff)` and ends below 2^16 -/
theorem rfc1071_fold_spec (s : Nat) :
    foldAll s = (if s < 65536 then s else foldAll (s / 65536 + s % 65536)) ∧ foldAll s < 65536 :=
  ⟨foldAll_unfold s, foldAll_lt s⟩

/-- a checksum computed by the code over `a ++ 00 00 ++ b` and stored in the zeroed word verifies at the receiver -/
theorem checksum_verifies (a b : Bytes) (ha : a.length % 2 = 0) (h : (a ++ 0 :: 0 :: b).length ≤ 131072) :
    rfc1071 (a ++ be16 (checksum (a ++ 0 :: 0 :: b) 0 none) ++ b) = 0 := by
  rw [checksum_eq _ h]; exact rfc1071_verifies a b ha

example : rfc1071 ([0x45, 0x00] ++ be16 (checksum ([0x45, 0x00] ++ 0 :: 0 :: [0x11]) 0 none) ++ [0x11]) = 0 := by decide

/-- before repair D12 every odd-length input raises (`int + str`) -/
theorem checksum_d12_witness : checksumD12 [0x45, 0x00, 0x01] 0 none = .error "TypeError" := by decide

/-! ## `struct` layouts -/

/-- `struct.unpack(fmt, struct.pack(fmt, *vs) + tail)` returns `vs` and leaves `tail`, for every layout of
unsigned big-endian integers, fixed blobs and padding, and every value list in range -/
theorem struct_roundtrip (L : Layout) (vs : List Val) (tail : Bytes) (hf : fits L vs) :
    ∃ bs, encode L vs = some bs ∧ decode L (bs ++ tail) = some (vs, tail) ∧ bs.length = size L :=
  decode_encode L vs tail hf

example : fits ethL [.raw [1, 2, 3, 4, 5, 6], .raw [7, 8, 9, 10, 11, 12], .num 0x0800] := by simp [fits, ethL]

/-! ## IPv4 (ipv4.py:92-191) -/

def exIp : IPv4 := ⟨4, 6, 0x10, 20, 0x1234, 2, 0, 64, 17, 0, 0x0a000001, 0xc0a80001, [1, 1, 1, 0]⟩
theorem exIp_fits : exIp.Fits := by constructor <;> decide

/-- `ipv4.hdr(payload)` for every header in range and every payload that fits a datagram: it succeeds; the header is
`4·hl` bytes; the total-length field is `4·hl + |payload|`; the checksum field is RFC 1071 of the header with that word
zeroed, and the header as emitted verifies; the object's `iplen`/`csum` attributes are set to those values -/
theorem ipv4_hdr (h : IPv4) (n : Nat) (hf : h.Fits) (hn : h.hl * 4 + n < 65536) :
    ∃ h' bs, ipv4Hdr h n = .ok (h', bs) ∧ bs.length = 4 * h.hl ∧
      beDec (sl bs 2 4) = 4 * h.hl + n ∧ h'.iplen = 4 * h.hl + n ∧
      beDec (sl bs 10 12) = rfc1071 (zeroWord 5 bs) ∧ h'.csum = beDec (sl bs 10 12) ∧
      rfc1071 bs = 0 := by
  refine ⟨ipv4Upd h n, ipv4Bytes h n, ipv4Hdr_ok h n hf hn, ipv4Bytes_length h n hf, ?_, ?_, ?_, ?_, ipv4_verifies h n⟩
  · rw [ipv4_len_field h n hn]; omega
  · simp [ipv4Upd]; omega
  · rw [ipv4_csum_field, ← ipv4_csum_spec]
  · rw [ipv4_csum_field]; rfl

example : exIp.Fits ∧ exIp.hl * 4 + 1481 < 65536 := ⟨exIp_fits, by decide⟩

/-- `ipv4(raw = hdr(payload) + payload)`: every attribute is read back (with `iplen`, `csum` as emitted), options and
payload slices are exact, and the payload goes to the parser the protocol field selects -/
theorem ipv4_roundtrip (next : Kind → Bytes → Pkt) (h : IPv4) (payload : Bytes) (hf : h.Fits)
    (hn : h.hl * 4 + payload.length < 65536) :
    ∃ h' bs, ipv4Hdr h payload.length = .ok (h', bs) ∧
      ipv4Parse next (bs ++ payload) = .ipv4 h' (ipv4Dispatch next h.frag h.proto payload false) ∧
      h' = { h with iplen := 4 * h.hl + payload.length, csum := h'.csum } ∧
      (ipv4Hdr h' payload.length).map (·.2) = .ok bs := by
  refine ⟨_, _, ipv4Hdr_ok h _ hf hn, ipv4_parse next h payload hf hn, ?_, ?_⟩
  · simp [ipv4Upd]; omega
  · rw [ipv4Hdr_idem, ipv4Hdr_ok h _ hf hn]; rfl

/-! ## UDP (udp.py:117-173) -/

def exCtx : IPCtx := ⟨0x0a000001, 0xc0a80001, 17⟩
theorem exCtx_fits : exCtx.Fits := by constructor <;> decide
def exUdp : Udp := ⟨1000, 2000, 8, 0⟩
theorem exUdp_fits : exUdp.Fits := by constructor <;> decide

/-- `udp.hdr(payload)` inside IPv4: length field `8 + |payload|`; checksum = RFC 1071 over the pseudo header
(source, destination, zero, protocol, UDP length), the UDP header with zero checksum and the data, with 0 sent as
0xffff (RFC 768) -/
theorem udp_hdr (c : IPCtx) (h : Udp) (payload : Bytes) (hc : c.Fits) (hf : h.Fits) (hn : payload.length + 8 < 65536) :
    ∃ h' bs, udpHdr (some c) h payload = .ok (h', bs) ∧ bs.length = 8 ∧
      beDec (sl bs 4 6) = 8 + payload.length ∧ h'.len = 8 + payload.length ∧
      beDec (sl bs 6 8) = udpCsumSpec c h payload ∧ h'.csum = udpCsumSpec c h payload := by
  refine ⟨udpUpd c h payload, udpBytes c h payload, udpHdr_ok c h payload hc hf hn, udpBytes_length c h payload, ?_, ?_,
    ?_, ?_⟩
  · rw [udp_len_field c h payload hn]; omega
  · simp [udpUpd]; omega
  · exact udp_csum_field c h payload
  · simp [udpUpd]

example : exCtx.Fits ∧ exUdp.Fits ∧ ([1, 2, 3] : Bytes).length + 8 < 65536 := ⟨exCtx_fits, exUdp_fits, by decide⟩
/-- the specification really is "pseudo header ++ header ++ data" (unfolded on an example, odd payload) -/
example : udpCsumSpec exCtx exUdp [1, 2, 3] =
    rfc1071 ([0x0a, 0, 0, 1, 0xc0, 0xa8, 0, 1, 0, 17, 0, 11] ++ [0x03, 0xe8, 0x07, 0xd0, 0, 11, 0, 0] ++ [1, 2, 3]) := by
  decide +kernel

theorem udp_roundtrip (c : IPCtx) (h : Udp) (payload : Bytes) (hc : c.Fits) (hf : h.Fits) (hp : udpPlain h)
    (hn : payload.length + 8 < 65536) :
    ∃ h' bs, udpHdr (some c) h payload = .ok (h', bs) ∧ udpParse (bs ++ payload) = .udp h' (.raw payload) ∧
      udpHdr (some c) h' payload = .ok (h', bs) := by
  refine ⟨_, _, udpHdr_ok c h payload hc hf hn, udp_parse c h payload hf hp hn, ?_⟩
  rw [udpHdr_idem, udpHdr_ok c h payload hc hf hn]

example : udpPlain exUdp := by unfold udpPlain; decide

/-! ## TCP (tcp.py:665-728) -/

def exTcp : Tcp := ⟨1000, 80, 0x01020304, 0xfffefdfc, 0, 0, 0x18, 8192, 0, 0, [.mss 1460, .nop, .ws 7]⟩
theorem exTcp_fits : exTcp.Fits := by constructor <;> decide

/-- `tcp.hdr(payload)` inside IPv4, `op` being the packed options padded to a multiple of four: the header is
`20 + |op|` bytes, the data-offset nibble counts exactly those 32-bit words, and the checksum is RFC 1071 over the
pseudo header (with TCP length = header + options + data), the header with zero checksum, options and data -/
theorem tcp_hdr (c : IPCtx) (h : Tcp) (op payload : Bytes) (hc : c.Fits) (hf : h.Fits)
    (hop : tcpOptsPadded h.opts = .ok op) (hol : op.length ≤ 40) (hn : 20 + op.length + payload.length < 65536) :
    ∃ h' bs, tcpHdr (some c) h payload = .ok (h', bs) ∧ bs.length = 20 + op.length ∧ op.length % 4 = 0 ∧
      beDec (sl bs 12 13) / 16 * 4 = bs.length ∧ h'.off * 4 = bs.length ∧
      beDec (sl bs 16 18) = tcpCsumSpec c h op payload ∧ h'.csum = tcpCsumSpec c h op payload := by
  have h4 := tcpOptsPadded_mod4 h.opts op hop
  refine ⟨tcpUpd c h op payload, tcpBytes c h op payload, tcpHdr_ok c h op payload hc hf hop hol hn,
    tcpBytes_length c h op payload, h4, tcp_data_offset c h op payload hf hol h4, ?_, tcp_csum_field c h op payload, rfl⟩
  rw [tcpBytes_length]; simp [tcpUpd]; omega

example : tcpOptsPadded exTcp.opts = .ok [2, 4, 5, 180, 1, 3, 3, 7] := by decide

/-- `tcp(raw = hdr(payload) + payload)` for every option list of well-formed options (no EOL; MPTCP excluded) whose
padded serialisation fits the 40 bytes a 4-bit data offset allows: all ten attributes, the option list and the payload
come back, and re-serialising gives the same bytes -/
theorem tcp_roundtrip (c : IPCtx) (h : Tcp) (payload : Bytes) (hc : c.Fits) (hf : h.Fits) (hok : ∀ o ∈ h.opts, o.OK)
    (hol : (optsPadded h.opts).length ≤ 40) (hn : 20 + (optsPadded h.opts).length + payload.length < 65536) :
    ∃ h' bs, tcpHdr (some c) h payload = .ok (h', bs) ∧ tcpParse (bs ++ payload) = .tcp h' (.raw payload) ∧
      h'.opts = h.opts ∧ tcpHdr (some c) h' payload = .ok (h', bs) := by
  have hres := tcpHdr_ok c h _ payload hc hf (tcpOptsPadded_ok h.opts hok) hol hn
  refine ⟨_, _, hres, tcp_parse c h payload hf hok hol, rfl, ?_⟩
  rw [tcpHdr_idem, hres]

example : (∀ o ∈ exTcp.opts, o.OK) ∧ (optsPadded exTcp.opts).length ≤ 40 := by
  refine ⟨?_, by decide⟩
  intro o ho
  simp only [exTcp, List.mem_cons, List.not_mem_nil, or_false] at ho
  rcases ho with rfl | rfl | rfl <;> simp [TcpOpt.OK]
example : Tcp.Fits { exTcp with opts := [.sack [(1, 2), (3, 4)], .ts 5 6, .other 254 [1, 2, 3]] } := by constructor <;> decide

/-! ## ICMP (icmp.py:299-324) -/

def exIcmp : Icmp := ⟨8, 0, 0⟩
theorem exIcmp_fits : exIcmp.Fits := by constructor <;> decide

/-- `icmp.hdr(payload)`: the checksum is RFC 1071 over type, code, zero checksum and everything that follows; the
message as emitted verifies -/
theorem icmp_hdr (h : Icmp) (payload : Bytes) (hf : h.Fits) (hn : payload.length + 4 ≤ 131072) :
    ∃ h' bs, icmpHdr h payload = .ok (h', bs) ∧ bs.length = 4 ∧
      beDec (sl bs 2 4) = rfc1071 (beEnc 1 h.type ++ beEnc 1 h.code ++ 0 :: 0 :: payload) ∧
      h'.csum = beDec (sl bs 2 4) ∧ rfc1071 (bs ++ payload) = 0 := by
  refine ⟨icmpUpd h payload, icmpBytes h payload, icmpHdr_ok h payload hf hn, by simp [icmpBytes, icmpPre],
    icmp_csum_field h payload, ?_, icmp_verifies h payload⟩
  rw [icmp_csum_field]; rfl

theorem icmp_roundtrip (next : Kind → Bytes → Pkt) (h : Icmp) (payload : Bytes) (hf : h.Fits)
    (hn : payload.length + 4 ≤ 131072) :
    ∃ h' bs, icmpHdr h payload = .ok (h', bs) ∧
      icmpParse next (bs ++ payload) = .icmp h' (icmpDispatch next h.type payload) ∧
      icmpHdr h' payload = .ok (h', bs) := by
  refine ⟨_, _, icmpHdr_ok h payload hf hn, icmp_parse next h payload hf, ?_⟩
  rw [icmpHdr_idem, icmpHdr_ok h payload hf hn]

example : exIcmp.Fits ∧ ([1, 2, 3] : Bytes).length + 4 ≤ 131072 := ⟨exIcmp_fits, by decide⟩

/-! ## fixed-layout headers via the generic round trip -/

def exEth : Eth := ⟨[0x66, 0x77, 0x88, 0x99, 0xaa, 0xbb], [0, 0x11, 0x22, 0x33, 0x44, 0x55], 0x0800⟩
theorem exEth_fits : exEth.Fits := by constructor <;> decide

theorem eth_roundtrip (next : Kind → Bytes → Pkt) (h : Eth) (payload : Bytes) (hf : h.Fits) :
    ∃ bs, ethHdr h = .ok bs ∧ bs.length = 14 ∧ ethParse next (bs ++ payload) = .eth h (parseNext next h.type payload) :=
  ⟨ethBytes h, ethHdr_ok h hf, ethBytes_length h hf, eth_parse next h payload hf⟩

def exVlan : Vlan := ⟨5, 1, 0xabc, 0x0800⟩
theorem exVlan_fits : exVlan.Fits := by constructor <;> decide

/-- 802.1Q tag (after D13): priority, CFI/DEI bit and VLAN id come back as built, for all 2^16 tag values -/
theorem vlan_roundtrip (next : Kind → Bytes → Pkt) (h : Vlan) (payload : Bytes) (hf : h.Fits) :
    ∃ bs, vlanHdr h = .ok bs ∧ bs.length = 4 ∧
      vlanParse next (bs ++ payload) = .vlan h (parseNext next h.ethType payload) :=
  ⟨vlanBytes h, vlanHdr_ok h hf, by simp [vlanBytes], vlan_parse next h payload hf⟩

/-- D13 on the unrepaired line (`cfi = pcpid & 0x1000`): a received tag with the CFI bit set cannot be re-serialised
(`struct.error`); with the repaired parse it is reproduced -/
theorem vlan_cfi_d13_witness :
    pack none (vlanParseD13 (fun _ b => .raw b) [0x10, 0x05, 0x12, 0x34, 0x61]) = .error .struct ∧
    pack none (vlanParse (fun _ b => .raw b) [0x10, 0x05, 0x12, 0x34, 0x61]) = .ok [0x10, 0x05, 0x12, 0x34, 0x61] := by
  decide

def exArp : Arp := ⟨1, 0x0800, 6, 4, 1, [0, 0x11, 0x22, 0x33, 0x44, 0x55], 0x0a000001, [0, 0, 0, 0, 0, 0], 0x0a000002⟩
theorem exArp_fits : exArp.Fits := by constructor <;> decide

theorem arp_roundtrip (h : Arp) (payload : Bytes) (hf : h.Fits) :
    ∃ bs, arpHdr h = .ok bs ∧ bs.length = 28 ∧ arpParse (bs ++ payload) = .arp h (.raw payload) :=
  arp_parse h payload hf

theorem echo_roundtrip (h : Echo) (payload : Bytes) (hf : h.Fits) :
    ∃ bs, echoHdr h = .ok bs ∧ echoParse (bs ++ payload) = .echo h (.raw payload) :=
  ⟨echoBytes h, echoHdr_ok h hf, echo_parse h payload hf⟩

theorem unreach_roundtrip (next : Kind → Bytes → Pkt) (h : Unreach) (payload : Bytes) (hf : h.Fits) :
    ∃ bs, unreachHdr h = .ok bs ∧ unreachParse next (bs ++ payload) = .unreach h (quoted next payload) :=
  ⟨unreachBytes h, unreachHdr_ok h hf, unreach_parse next h payload hf⟩

theorem time_exceeded_roundtrip (next : Kind → Bytes → Pkt) (h : TimeEx) (payload : Bytes) (hf : h.Fits) :
    ∃ bs, timeExHdr h = .ok bs ∧ timeExParse next (bs ++ payload) = .timeEx h (quoted next payload) :=
  ⟨timeExBytes h, timeExHdr_ok h hf, timeEx_parse next h payload hf⟩

example : (⟨7, 9⟩ : Echo).Fits ∧ (⟨0, 1400⟩ : Unreach).Fits ∧ (⟨0⟩ : TimeEx).Fits :=
  ⟨by constructor <;> decide, by constructor <;> decide, by constructor <;> decide⟩

/-! ## whole chains -/

/-- **Round trip of a header stack.**  For every well-formed chain `p` of the ten modelled classes (`Good`: fields in
their wire ranges, payload classes consistent with EtherType / protocol / ICMP type, datagrams < 64 KiB; TCP headers
with well-formed option lists), of class `k`:  `pack()` succeeds with bytes `bs` of the predicted length; `k(raw = bs)` yields the
chain `p'` — the same classes, every attribute equal to the built one (`strip p' = strip p`), the computed attributes
(total length, checksums, UDP length, data offset) as `hdr` assigned them, the same payload; and `p'.pack()` is `bs`. -/
theorem roundtrip (p : Pkt) (k : Kind) (hk : kindOf p = some k) (hg : Good none p) :
    ∃ p' bs, packU none p = .ok (p', bs) ∧ bs.length = plen p ∧ parseTop k bs = p' ∧ strip p' = strip p ∧
      pack none p' = .ok bs := by
  obtain ⟨p', bs, r⟩ := chain_rt p none hg
  refine ⟨p', bs, r.packed, r.len, ?_, r.stripEq, ?_⟩
  · exact r.reparse _ k hk (by have := r.dep; omega)
  · simp [pack, r.idem, bind, Except.bind, pure, Except.pure]

/-- `pack (parse (pack p)) = pack p` -/
theorem repack_id (p : Pkt) (k : Kind) (hk : kindOf p = some k) (hg : Good none p) :
    ∃ bs, pack none p = .ok bs ∧ pack none (parseTop k bs) = .ok bs := by
  obtain ⟨p', bs, h1, _, h3, _, h5⟩ := roundtrip p k hk hg
  refine ⟨bs, ?_, ?_⟩
  · simp [pack, h1, bind, Except.bind, pure, Except.pure]
  · rw [h3]; exact h5

/-- a VLAN-tagged UDP datagram with IPv4 options and an odd payload, and an ICMP error quoting a TCP segment with options -/
def exChain1 : Pkt :=
  .eth { exEth with type := 0x8100 } (.vlan exVlan (.ipv4 exIp (.udp exUdp (.raw [1, 2, 3]))))
def exChain2 : Pkt :=
  .eth exEth (.ipv4 { exIp with proto := 1 } (.icmp ⟨3, 1, 0⟩ (.unreach ⟨0, 1400⟩
    (.ipv4 { exIp with proto := 6 } (.tcp exTcp (.raw [9, 9, 9, 9, 9, 9, 9, 9]))))))

example : kindOf exChain1 = some .eth ∧ Good none exChain1 := by
  refine ⟨rfl, ⟨by constructor <;> decide, by simp [EthCompat], ⟨exVlan_fits, by simp [EthCompat, exVlan],
    ⟨exIp_fits, by simp [IpCompat, exIp], ?_, by simp [plen, exIp]⟩⟩⟩⟩
  exact ⟨⟨_, rfl, by constructor <;> decide⟩, exUdp_fits, by unfold udpPlain; decide, trivial, by simp [plen]⟩

theorem exTcp_opts : (∀ o ∈ exTcp.opts, o.OK) ∧ (optsPadded exTcp.opts).length = 8 := by
  refine ⟨?_, by decide⟩
  intro o ho
  simp only [exTcp, List.mem_cons, List.not_mem_nil, or_false] at ho
  rcases ho with rfl | rfl | rfl <;> simp [TcpOpt.OK]

example : kindOf exChain2 = some .eth ∧ Good none exChain2 := by
  have h8 := exTcp_opts.2
  refine ⟨rfl, ⟨exEth_fits, by simp [EthCompat, exEth], ⟨by constructor <;> decide, by simp [IpCompat, exIp], ?_,
    by simp [plen, exIp, h8]⟩⟩⟩
  refine ⟨by constructor <;> decide, by simp [IcmpCompat], ?_, by simp [plen, exIp, h8]⟩
  refine ⟨by constructor <;> decide, by simp [QuoteCompat, plen, exIp],
    ⟨by constructor <;> decide, by simp [IpCompat, exIp], ?_, by simp [plen, exIp, h8]⟩⟩
  exact ⟨⟨_, rfl, by constructor <;> decide⟩, by constructor <;> decide, exTcp_opts.1, by rw [h8]; decide, trivial,
    by simp [plen, h8]⟩

/-! # Phase 2: the protocol modules of `Model/PacketExt.lean` -/

/-! ## LLC / SNAP (llc.py) -/

def exLlc : Llc := ⟨8, 0xaa, 0xaa, 3, some [0, 0, 0], 0x0800⟩
theorem exLlc_fits : exLlc.Fits := by
  constructor <;> simp [exLlc, Llc.two]

/-- `llc.hdr` / `llc.parse`: DSAP, SSAP, a one- or two-octet control field (decided by its low bits), the optional SNAP
OUI + EtherType; the header is `length` bytes; a zero OUI hands the payload to the EtherType's parser -/
theorem llc_roundtrip (next : XNext) (h : Llc) (payload : Bytes) (hf : h.Fits) :
    ∃ bs, llcHdr h = .ok bs ∧ bs.length = h.length ∧ llcParse next (bs ++ payload) = .llc h (llcNext next h payload) :=
  ⟨llcBytes h, llcHdr_ok h hf, llcBytes_length h hf, llc_parse next h payload hf⟩

example : (⟨4, 0x42, 0x42, 0x1234 * 2, none, 0xffff⟩ : Llc).Fits := by constructor <;> simp [Llc.two]

/-! ## MPLS (mpls.py) -/

theorem mpls_roundtrip (next : XNext) (h : Mpls) (payload : Bytes) (hf : h.Fits) :
    ∃ bs, mplsHdr h = .ok bs ∧ bs.length = 4 ∧ mplsParse next (bs ++ payload) = .mpls h (mplsNext next h payload) :=
  ⟨mplsBytes h, mplsHdr_ok h hf, by simp [mplsBytes], mpls_parse next h payload hf⟩

example : (⟨0xfffff, 7, 1, 255⟩ : Mpls).Fits := by constructor <;> decide

/-! ## LLDP (lldp.py) -/

/-- the PDU the discovery component sends on every probe, and any other well-formed one -/
theorem lldp_roundtrip (c p t : Tlv) (mid : List Tlv) (hc : c.OK) (hp : p.OK) (ht : t.OK) (tc : tlvType c = 1)
    (tp : tlvType p = 2) (tt : tlvType t = 3) (hmid : ∀ q ∈ mid, q.OK ∧ tlvType q ≠ 0) :
    lldpHdr (c :: p :: t :: (mid ++ [.end_])) = .ok (lldpBytes (c :: p :: t :: (mid ++ [.end_]))) ∧
    lldpParse (lldpBytes (c :: p :: t :: (mid ++ [.end_]))) = .lldp (c :: p :: t :: (mid ++ [.end_])) :=
  lldp_parse c p t mid hc hp ht tc tp tt hmid

/-- every TLV is `type << 9 | len(info)` followed by exactly `len(info)` bytes -/
theorem lldp_tlv_length (t : Tlv) (h : t.OK) :
    tlvPack t = .ok (tlvBytes t) ∧ beDec ((tlvBytes t).take 2) % 512 + 2 = (tlvBytes t).length := by
  refine ⟨tlvPack_ok t h, ?_⟩
  have hl := tlvData_len t h
  have ht := tlvType_lt t h
  have : (tlvBytes t).take 2 = be16 (tlvType t * 512 + (tlvDataBytes t).length) := take_left _ _ 2 (by simp)
  rw [this, be16, beDec_beEnc 2 _ (by simpa using (by omega : tlvType t * 512 + (tlvDataBytes t).length < 65536)),
    tlvBytes_length]
  omega

example : (Tlv.chassis 4 [0, 1, 2, 3, 4, 5]).OK ∧ (Tlv.port 2 [0x31]).OK ∧ (Tlv.ttl 120).OK ∧
    (∀ q ∈ [Tlv.payload 6 [0x64, 0x70], Tlv.mgmt 1 [10, 0, 0, 1] 2 3 [], Tlv.org [0, 0x26, 0xe1] 0 [1]],
      q.OK ∧ tlvType q ≠ 0) := by
  refine ⟨by simp [Tlv.OK], by simp [Tlv.OK], by simp [Tlv.OK], ?_⟩
  intro q hq
  simp only [List.mem_cons, List.not_mem_nil, or_false] at hq
  rcases hq with rfl | rfl | rfl <;> simp [Tlv.OK, tlvType]

/-! ## EAPOL / EAP (eapol.py, eap.py) -/

theorem eapol_roundtrip (next : XNext) (h : Eapol) (payload : Bytes) (hf : h.Fits) :
    ∃ bs, eapolHdr h = .ok bs ∧
      eapolParse next (bs ++ payload) = .eapol h (if h.type = 0 then next none .eap payload else .nil) :=
  ⟨eapolBytes h, eapolHdr_ok h hf, eapol_parse next h payload hf⟩

example : (⟨1, 0, 4⟩ : Eapol).Fits := by constructor <;> decide

/-- EAP, all four codes (repair D49): a request/response keeps type octet + type data as its payload, success/failure have
none; parse returns header and payload and `hdr + payload` is the original message -/
theorem eap_roundtrip_body (h : Eap) (payload : Bytes) (hc : h.code < 256) (hi : h.id < 256) (hl : h.length < 65536)
    (hp : payload ≠ [] → h.code = 1 ∨ h.code = 2) :
    ∃ bs, eapHdr h = .ok bs ∧
      eapParseV true (bs ++ payload) = .eap h (if payload = [] then .nil else .raw payload) := by
  have he : encode eapolL [.num h.code, .num h.id, .num h.length] = some (eapBytes h) := by
    simp [eapolL, encode, eapBytes, be16, hc, hi, hl]
  refine ⟨eapBytes h, pk_of_encode he, ?_⟩
  have hv : eapParseV true (eapBytes h ++ payload) = eapParseB (eapBytes h ++ payload) := rfl
  rw [hv, eapB_parse h payload hc hi hl]
  by_cases hn : payload = []
  · simp [hn]
  · simp [hn, hp hn]

example : ([1, 0x61] : Bytes) ≠ [] → (1 : Nat) = 1 ∨ (1 : Nat) = 2 := fun _ => Or.inl rfl


/-! ## IPv6 fixed header and the upper-layer checksums over its pseudo header (ipv6.py, udp.py, tcp.py, icmpv6.py) -/

def exIp6 : IPv6 := ⟨6, 0xb8, 0x12345, 0, 17, 64, List.replicate 15 0 ++ [1], 0xff :: 2 :: List.replicate 13 0 ++ [2]⟩
theorem exIp6_fits : exIp6.Fits := by constructor <;> decide

/-- `ipv6.hdr(payload)`: 40 bytes, the payload-length field is `|payload|`; `ipv6(raw = hdr + payload)` returns version,
traffic class, flow label, next header, hop limit, both addresses, and the exact payload slice -/
theorem ipv6_hdr (next : XNext) (h : IPv6) (payload : Bytes) (hf : h.Fits) (hn : payload.length < 65536) :
    ∃ h' bs, ipv6Hdr h payload.length = .ok (h', bs) ∧ bs.length = 40 ∧ beDec (sl bs 4 6) = payload.length ∧
      h' = { h with plen := payload.length } ∧
      ipv6Parse next (bs ++ payload) = .ipv6 h' (ipv6Next next h payload) ∧
      ipv6Hdr h' payload.length = .ok (h', bs) :=
  ⟨_, _, ipv6Hdr_ok h _ hf hn, ipv6Bytes_length h _ hf, ipv6_len_field h _ hn, rfl, ipv6_parse next h payload hf hn,
    by rw [ipv6Hdr_idem, ipv6Hdr_ok h _ hf hn]⟩

/-- UDP over IPv6: length field and RFC 1071 checksum over the 40-byte pseudo header (RFC 8200 §8.1), 0 sent as 0xffff -/
theorem udp6_hdr (src dst : Bytes) (nh : Nat) (h : Udp) (payload : Bytes) (hs : src.length = 16) (hd : dst.length = 16)
    (hnh : nh < 256) (hf : h.Fits) (hn : payload.length + 8 < 65536) :
    ∃ h' bs, udpHdr6 src dst nh h payload = .ok (h', bs) ∧ bs.length = 8 ∧ h'.len = payload.length + 8 ∧
      beDec (sl bs 6 8) = udp6CsumSpec src dst nh h payload ∧ h'.csum = udp6CsumSpec src dst nh h payload := by
  refine ⟨_, _, udpHdr6_ok src dst nh h payload hs hd hnh hf hn, by simp [udpPre_length], rfl, ?_, rfl⟩
  have : sl (udpPre h payload.length ++ be16 (udp6CsumSpec src dst nh h payload)) 6 8
      = be16 (udp6CsumSpec src dst nh h payload) := sl_tail _ _ 6 8 (by rw [udpPre_length]) (by rw [udpPre_length, be16_length])
  have hlt : udp6CsumSpec src dst nh h payload < 256 ^ 2 := udp6CsumSpec_lt src dst nh h payload
  rw [this, be16, beDec_beEnc 2 _ hlt]

/-- TCP over IPv6 -/
theorem tcp6_hdr (src dst : Bytes) (nh : Nat) (h : Tcp) (op payload : Bytes) (hs : src.length = 16)
    (hd : dst.length = 16) (hnh : nh < 256) (hf : h.Fits) (hop : tcpOptsPadded h.opts = .ok op) (hol : op.length ≤ 40)
    (hn : 20 + op.length + payload.length ≤ 131000) :
    ∃ h' bs, tcpHdr6 src dst nh h payload = .ok (h', bs) ∧ bs.length = 20 + op.length ∧ h'.off * 4 = bs.length ∧
      h'.csum = tcp6CsumSpec src dst nh h op payload ∧ beDec (sl bs 16 18) = tcp6CsumSpec src dst nh h op payload := by
  have h4 := tcpOptsPadded_mod4 h.opts op hop
  refine ⟨_, _, tcpHdr6_ok src dst nh h op payload hs hd hnh hf hop hol hn, by simp [tcpPre_length]; omega, ?_, rfl, ?_⟩
  · simp [tcpPre_length]; omega
  · have : sl (tcpPre h ((20 + op.length) / 4) ++ (be16 (tcp6CsumSpec src dst nh h op payload) ++ (be16 h.urg ++ op))) 16 18
        = be16 (tcp6CsumSpec src dst nh h op payload) :=
      sl_mid _ _ _ 16 18 (by rw [tcpPre_length]) (by rw [tcpPre_length, be16_length])
    have hlt : tcp6CsumSpec src dst nh h op payload < 256 ^ 2 := rfc1071_lt _
    rw [this, be16, beDec_beEnc 2 _ hlt]

/-- ICMPv6: checksum over the IPv6 pseudo header (next header 58) and the message -/
theorem icmp6_hdr (src dst : Bytes) (h : Icmp) (payload : Bytes) (hs : src.length = 16) (hd : dst.length = 16)
    (hf : h.Fits) (hn : payload.length + 4 ≤ 131000) :
    ∃ h' bs, icmp6Hdr src dst h payload = .ok (h', bs) ∧ bs.length = 4 ∧
      h'.csum = rfc1071 (pseudo6 src dst (payload.length + 4) 58 ++ (beEnc 1 h.type ++ beEnc 1 h.code ++ 0 :: 0 :: payload)) :=
  ⟨_, _, icmp6Hdr_ok src dst h payload hs hd hf hn, by simp [icmp6Bytes, icmpPre], rfl⟩

/-- `icmpv6.parse` verifies the checksum against the enclosing IPv6 header: it accepts exactly what `hdr` emitted -/
theorem icmp6_roundtrip (next : XNext) (src dst : Bytes) (nh : Nat) (h : Icmp) (payload : Bytes) (hs : src.length = 16)
    (hd : dst.length = 16) (hf : h.Fits) (hp : icmp6Plain h) (hn : payload.length + 4 ≤ 131000) :
    ∃ h' bs, icmp6Hdr src dst h payload = .ok (h', bs) ∧
      icmp6Parse (some (.v6 src dst nh)) next (bs ++ payload)
        = .icmp6 h' (if h.type = 128 ∨ h.type = 129 then next none .echo6 payload else .raw payload) ∧
      icmp6Hdr src dst h' payload = .ok (h', bs) :=
  ⟨_, _, icmp6Hdr_ok src dst h payload hs hd hf hn, icmp6_parse next src dst nh h payload hs hd hf hp hn,
    by rw [icmp6Hdr_idem, icmp6Hdr_ok src dst h payload hs hd hf hn]⟩

theorem echo6_roundtrip (h : Echo) (payload : Bytes) (hf : h.Fits) :
    ∃ bs, echoHdr h = .ok bs ∧ echo6Parse (bs ++ payload) = .echo6 h (.raw payload) :=
  ⟨echoBytes h, echoHdr_ok h hf, echo6_parse h payload hf⟩

example : exIp6.Fits ∧ exIp6.src.length = 16 ∧ exIp6.dst.length = 16 ∧ icmp6Plain ⟨128, 0, 0⟩ :=
  ⟨exIp6_fits, by decide, by decide, by unfold icmp6Plain; decide⟩

/-! ## GRE (gre.py, no routing) -/

def exGre : Gre := ⟨0x0800, 0, false, 0, 0, some 0xdeadbeef, some 7, .compute⟩
theorem exGre_fits : exGre.Fits := by
  constructor <;> simp [exGre]

/-- `gre.hdr` with `csum = True`: the checksum word is RFC 1071 over the header with that word zeroed plus the payload
packet, and the packet verifies; flags/key/sequence number are laid out as RFC 2890 says -/
theorem gre_hdr (h : Gre) (payload : Bytes) (hf : h.Fits) (hc : h.csum = .compute) (hn : payload.length + 16 ≤ 131072) :
    ∃ h' bs, greHdr h payload = .ok (h', bs) ∧ h'.csum = .val (greCsumSpec h payload) ∧
      beDec (sl bs 4 6) = greCsumSpec h payload ∧ rfc1071 (bs ++ payload) = 0 := by
  refine ⟨_, _, greHdr_ok h payload hf hn, by simp [hc], ?_, gre_verifies h payload hc⟩
  have : sl (greBytes h payload) 4 6 = be16 (greCsumSpec h payload) := by
    unfold greBytes; simp only [hc]
    exact sl_mid _ _ _ 4 6 (by simp) (by simp)
  have hlt : greCsumSpec h payload < 256 ^ 2 := rfc1071_lt _
  rw [this, be16, beDec_beEnc 2 _ hlt]

theorem gre_roundtrip (next : XNext) (h : Gre) (payload : Bytes) (hf : h.Fits) (hn : payload.length + 16 ≤ 131072) :
    ∃ h' bs, greHdr h payload = .ok (h', bs) ∧ greParse next (bs ++ payload) = .gre h' (greNext next h payload) ∧
      greHdr h' payload = .ok (h', bs) :=
  ⟨_, _, greHdr_ok h payload hf hn, gre_parse next h payload hf, greHdr_idem h payload hf hn⟩

/-! ## VXLAN (vxlan.py) -/

theorem vxlan_roundtrip (next : XNext) (h : Vxlan) (payload : Bytes) (hf : h.Fits) :
    ∃ bs, vxlanHdr h = .ok bs ∧ bs.length = 8 ∧
      vxlanParse next (bs ++ payload) = .vxlan h (next none (.core .eth) payload) :=
  ⟨vxlanBytes h, vxlanHdr_ok h hf, vxlanBytes_length h, vxlan_parse next h payload hf⟩

example : (⟨some 0xabcdef⟩ : Vxlan).Fits ∧ (⟨none⟩ : Vxlan).Fits := by
  constructor <;> intro v hv <;> simp at hv
  omega

/-! ## IGMP (igmp.py) -/

/-- v1/v2 messages: the checksum is RFC 1071 of the message and verifies; `igmp.parse` (which re-computes and compares
it) accepts the message and returns type, response time, group address and trailing bytes -/
theorem igmp_v2 (h : Igmp) (a : Nat) (hf : h.Fits2 a) :
    ∃ h' bs, igmpHdr h = .ok (h', bs) ∧ h'.csum = igmp2CsumSpec h a ∧ rfc1071 bs = 0 ∧ igmpParse bs = .igmp h' ∧
      igmpHdr h' = .ok (h', bs) :=
  ⟨_, _, igmpHdr_v2_ok h a hf, rfl, igmp2_verifies h a, igmp_v2_parse h a hf, by rw [igmpHdr_idem, igmpHdr_v2_ok h a hf]⟩

/-- v3 membership reports with any list of group records (record type, group, source list, auxiliary data) -/
theorem igmp_v3 (h : Igmp) (hf : h.Fits3) :
    ∃ h' bs, igmpHdr h = .ok (h', bs) ∧ h'.csum = igmp3CsumSpec h ∧ rfc1071 bs = 0 ∧ igmpParse bs = .igmp h' ∧
      igmpHdr h' = .ok (h', bs) :=
  ⟨_, _, igmpHdr_v3_ok h hf, rfl, igmp3_verifies h, igmp_v3_parse h hf, by rw [igmpHdr_idem, igmpHdr_v3_ok h hf]⟩

example : (⟨0x16, 0, 0, some 0xe0000116, [], []⟩ : Igmp).Fits2 0xe0000116 := by constructor <;> simp
example : (⟨0x22, 0, 0, none, [⟨1, 0xe0000116, [0x0a000001, 0x0a000002], []⟩], []⟩ : Igmp).Fits3 := by
  refine ⟨rfl, rfl, rfl, ?_, by decide, by decide⟩
  intro g hg
  simp only [List.mem_cons, List.not_mem_nil, or_false] at hg
  subst hg
  constructor <;> simp

/-! ## RIP (rip.py, as committed: repair D50) -/

/-- a RIP message with n ≥ 1 entries is 4 + 20·n bytes and every entry (family, tag, address, mask, next hop, metric) comes
back; the metric is the unsigned 32-bit field of RFC 2453 (`struct 'I'`, repair D50): every value 0 … 2³²−1 is packed and read back -/
theorem rip_roundtrip_unsigned (h : Rip) (hf : h.FitsU) :
    ∃ bs, ripHdrV true h = .ok bs ∧ bs.length = 4 + 20 * h.entries.length ∧ ripParseV true bs = .rip h := by
  refine ⟨ripBytes h, ripHdrU_ok h hf, ?_, ripU_parse h hf⟩
  simp [ripBytes, ripEntriesBytes_length]; omega

example : (⟨2, 2, [⟨2, 0, 0x0a000000, 0xff000000, 0, 0xffffffff⟩]⟩ : Rip).FitsU := by
  refine ⟨by decide, by decide, ?_, by simp⟩
  intro e he
  simp only [List.mem_cons, List.not_mem_nil, or_false] at he
  subst he
  constructor <;> decide


/-! ## the extended chain parser: hand-over from the original classes, and the LLDP probe frame -/

/-- `ethernet(raw)` over the extended model: same header, payload handed to VLAN / ARP / IPv4 / IPv6 / LLDP / EAPOL / MPLS /
LLC (802.3 length) or kept opaque, by EtherType -/
theorem xparse_eth_dispatch (cfg : XCfg) (f : Nat) (ctx : Option XCtx) (h : Eth) (payload : Bytes) (hf : h.Fits) :
    xparse cfg (f + 1) ctx (.core .eth) (ethBytes h ++ payload) = .eth h (xEthNext (xparse cfg f) h.type payload) :=
  xparse_eth cfg f ctx h payload hf

/-- `ipv4(raw)` over the extended model: UDP / TCP / ICMP / IGMP / GRE by protocol number, fragments and unknown
protocols opaque, an unparsed child replaced by the bytes -/
theorem xparse_ipv4_dispatch (cfg : XCfg) (f : Nat) (ctx : Option XCtx) (h : IPv4) (payload : Bytes) (hf : h.Fits)
    (hn : h.hl * 4 + payload.length < 65536) :
    xparse cfg (f + 1) ctx (.core .ipv4) (ipv4Bytes h payload.length ++ payload)
      = .ipv4 (ipv4Upd h payload.length) (xIp4Next (xparse cfg f) h.frag h.proto payload) :=
  xparse_ipv4 cfg f ctx h payload hf hn

/-- `udp(raw)` over the extended model: ports 520 → RIP, 4789 → VXLAN (67/68/53/5353 → DHCP/DNS, outside the model) -/
theorem xparse_udp_dispatch (cfg : XCfg) (f : Nat) (ctx : Option XCtx) (c : IPCtx) (h : Udp) (payload : Bytes) (hf : h.Fits)
    (hn : payload.length + 8 < 65536) :
    xparse cfg (f + 1) ctx (.core .udp) (udpBytes c h payload ++ payload)
      = .udp (udpUpd c h payload)
          (match udpSel h with
           | some tag => contOf (xparse cfg f) tag payload
           | none => .raw payload) :=
  xparse_udp cfg f ctx c h payload hf hn

example : udpSel ⟨520, 520, 0, 0⟩ = some "rip" ∧ udpSel ⟨50000, 4789, 0, 0⟩ = some "vxlan" ∧ udpSel exUdp = none := by decide

/-- the LLDP probe frame as a whole (what `discovery` sends on every port and parses on every packet-in) -/
theorem lldp_frame_roundtrip (cfg : XCfg) (e : Eth) (c p t : Tlv) (mid : List Tlv) (he : e.Fits) (hty : e.type = 0x88cc) (hc : c.OK)
    (hp : p.OK) (ht : t.OK) (tc : tlvType c = 1) (tp : tlvType p = 2) (tt : tlvType t = 3)
    (hmid : ∀ q ∈ mid, q.OK ∧ tlvType q ≠ 0) :
    xpack cfg none (.eth e (.lldp (c :: p :: t :: (mid ++ [.end_]))))
        = .ok (ethBytes e ++ lldpBytes (c :: p :: t :: (mid ++ [.end_]))) ∧
    xparseTop cfg (.core .eth) (ethBytes e ++ lldpBytes (c :: p :: t :: (mid ++ [.end_])))
        = .eth e (.lldp (c :: p :: t :: (mid ++ [.end_]))) ∧
    xpack cfg none (xparseTop cfg (.core .eth) (ethBytes e ++ lldpBytes (c :: p :: t :: (mid ++ [.end_]))))
        = .ok (ethBytes e ++ lldpBytes (c :: p :: t :: (mid ++ [.end_]))) :=
  Pox.Packet.lldp_frame_roundtrip cfg e c p t mid he hty hc hp ht tc tp tt hmid

example : ({ exEth with type := 0x88cc } : Eth).Fits := by constructor <;> decide

/-! ## whole-chain validity: the pseudo header comes from the emitted IP header -/

/-- **`chain_valid`.**  Whatever `pack()` emits for a well-formed chain is valid for a receiver that looks only at the
bytes: every IPv4 header sums to zero and its total-length field is the datagram's length; every UDP/TCP checksum is
RFC 1071 over the pseudo header built from the **enclosing IPv4 header as emitted** (source, destination, protocol read
from the bytes, `ctxOfWire`), the segment length and the segment with its checksum word zeroed; UDP length and TCP data
offset are exact; every ICMP message sums to zero — at every nesting level (VLAN tags, datagrams quoted in ICMP errors).
This is where "`pack` passes the enclosing header's addresses and protocol to `udp.checksum`/`tcp.checksum`" is proved. -/
theorem chain_valid (p : Pkt) (bs : Bytes) (hg : Good none p) (hp : pack none p = .ok bs) : Valid none p bs :=
  chain_valid' p bs hg hp

example : ∃ bs, pack none exChain1 = .ok bs := by
  obtain ⟨bs, h, _⟩ := repack_id exChain1 .eth rfl (by
    refine ⟨by constructor <;> decide, by simp [EthCompat], ⟨exVlan_fits, by simp [EthCompat, exVlan],
      ⟨exIp_fits, by simp [IpCompat, exIp], ?_, by simp [plen, exIp]⟩⟩⟩
    exact ⟨⟨_, rfl, by constructor <;> decide⟩, exUdp_fits, by unfold udpPlain; decide, trivial, by simp [plen]⟩)
  exact ⟨bs, h⟩

/-- the same over IPv6 (extended model): `ethernet/ipv6/udp`, `…/tcp`, `…/icmpv6` pack to a 40-byte IPv6 header whose
payload-length field is the segment's length and a segment whose checksum is RFC 1071 over the pseudo header built from
the **emitted IPv6 header** (addresses and next header read from the bytes; 58 for ICMPv6) -/
theorem xpack_ipv6_udp_valid (cfg : XCfg) (e : Eth) (h : IPv6) (u : Udp) (b : Bytes) (he : e.Fits) (hf : h.Fits)
    (hu : u.Fits) (hn : b.length + 8 < 65536) :
    ∃ ip6 seg, xpack cfg none (.eth e (.ipv6 h (.udp u (.raw b)))) = .ok (ethBytes e ++ (ip6 ++ seg)) ∧ ip6.length = 40 ∧
      beDec (sl ip6 4 6) = seg.length ∧ beDec (sl seg 4 6) = seg.length ∧
      beDec (sl seg 6 8) =
        (let r := rfc1071 (pseudo6 (sl ip6 8 24) (sl ip6 24 40) seg.length (beDec (sl ip6 6 7)) ++ zeroWord 3 seg)
         if r = 0 then 65535 else r) :=
  Pox.Packet.xpack_ipv6_udp_valid cfg e h u b he hf hu hn

theorem xpack_ipv6_tcp_valid (cfg : XCfg) (e : Eth) (h : IPv6) (t : Tcp) (b : Bytes) (he : e.Fits) (hf : h.Fits)
    (ht : t.Fits) (hok : ∀ o ∈ t.opts, o.OK) (hol : (optsPadded t.opts).length ≤ 40)
    (hn : 20 + (optsPadded t.opts).length + b.length < 65536) :
    ∃ ip6 seg, xpack cfg none (.eth e (.ipv6 h (.tcp t (.raw b)))) = .ok (ethBytes e ++ (ip6 ++ seg)) ∧ ip6.length = 40 ∧
      beDec (sl ip6 4 6) = seg.length ∧
      beDec (sl seg 16 18) = rfc1071 (pseudo6 (sl ip6 8 24) (sl ip6 24 40) seg.length (beDec (sl ip6 6 7)) ++ zeroWord 8 seg) :=
  Pox.Packet.xpack_ipv6_tcp_valid cfg e h t b he hf ht hok hol hn

theorem xpack_ipv6_icmp6_valid (cfg : XCfg) (e : Eth) (h : IPv6) (i : Icmp) (b : Bytes) (he : e.Fits) (hf : h.Fits)
    (hi : i.Fits) (hn : b.length + 4 < 65536) :
    ∃ ip6 seg, xpack cfg none (.eth e (.ipv6 h (.icmp6 i (.raw b)))) = .ok (ethBytes e ++ (ip6 ++ seg)) ∧ ip6.length = 40 ∧
      beDec (sl ip6 4 6) = seg.length ∧
      beDec (sl seg 2 4) = rfc1071 (pseudo6 (sl ip6 8 24) (sl ip6 24 40) seg.length 58 ++ zeroWord 1 seg) :=
  Pox.Packet.xpack_ipv6_icmp6_valid cfg e h i b he hf hi hn

example : ({ exEth with type := 0x86dd } : Eth).Fits ∧ exIp6.Fits ∧ exUdp.Fits :=
  ⟨by constructor <;> decide, exIp6_fits, exUdp_fits⟩

/-! ## a composed phase-2 frame -/

/-- VXLAN-encapsulated ARP: Ethernet / IPv4 / UDP(4789) / VXLAN / Ethernet / ARP (+ padding), six layers through the
original and the phase-2 parsers: pack, parse (same fields, computed IPv4/UDP fields filled in), re-pack -/
theorem vxlan_arp_frame (cfg : XCfg) (e1 : Eth) (ip : IPv4) (u : Udp) (vx : Vxlan) (e2 : Eth) (a : Arp) (pad : Bytes)
    (he1 : e1.Fits) (ht1 : e1.type = 0x0800) (hip : ip.Fits) (hfr : ip.frag = 0) (hpr : ip.proto = 17) (hu : u.Fits)
    (hsel : udpSel u = some "vxlan") (hvx : vx.Fits) (he2 : e2.Fits) (ht2 : e2.type = 0x0806) (ha : a.Fits)
    (hsz : 4 * ip.hl + 58 + pad.length < 65536) :
    ∃ ip' u' bs,
      xpack cfg none (.eth e1 (.ipv4 ip (.udp u (.vxlan vx (.eth e2 (.arp a (.raw pad))))))) = .ok bs ∧
      xparseTop cfg (.core .eth) bs = .eth e1 (.ipv4 ip' (.udp u' (.vxlan vx (.eth e2 (.arp a (.raw pad)))))) ∧
      xpack cfg none (.eth e1 (.ipv4 ip' (.udp u' (.vxlan vx (.eth e2 (.arp a (.raw pad))))))) = .ok bs :=
  Pox.Packet.vxlan_arp_frame cfg e1 ip u vx e2 a pad he1 ht1 hip hfr hpr hu hsel hvx he2 ht2 ha hsz

example : exEth.type = 0x0800 ∧ ({ exIp with proto := 17 } : IPv4).frag = 0 ∧ udpSel ⟨50000, 4789, 0, 0⟩ = some "vxlan" ∧
    ({ exEth with type := 0x0806 } : Eth).type = 0x0806 ∧ exArp.Fits := ⟨rfl, rfl, by decide, rfl, exArp_fits⟩

/-! ## ICMPv6 Neighbor Discovery and error messages (icmpv6.py after repair D47) -/

/-- `icmpv6.parse` for every message type: checksum verified against the enclosing IPv6 header, fields returned, the body
handed to the class `_type_to_class` names (the NDP classes get the whole message and start at offset 4) -/
theorem icmp6_dispatch (next : XNext) (src dst : Bytes) (nh : Nat) (h : Icmp) (payload : Bytes) (hs : src.length = 16)
    (hd : dst.length = 16) (hf : h.Fits) (hn : payload.length + 4 ≤ 131000) :
    ∃ h' bs, icmp6Hdr src dst h payload = .ok (h', bs) ∧
      icmp6Parse (some (.v6 src dst nh)) next (bs ++ payload) = .icmp6 h' (icmp6Next next h (bs ++ payload) payload) :=
  ⟨_, _, icmp6Hdr_ok src dst h payload hs hd hf hn, icmp6_parse_any next src dst nh h payload hs hd hf hn⟩

/-- one NDP option on the wire: type, length in units of eight octets, body; the length octet times eight is the size -/
theorem nd_option_length (o : NdOpt) (h : o.OK) :
    ndOptPack o = .ok (ndOptBytes o) ∧ (ndOptBytes o).length = 8 * (((ndBodyBytes o).length + 2) / 8) ∧
      (ndOptBytes o).length ≤ 2040 := by
  obtain ⟨h8, _, hl⟩ := ndBody_len o h
  refine ⟨ndOptPack_ok o h, ?_, ?_⟩ <;> rw [ndOptBytes_length] <;> omega

/-- the option list of an NDP message: what `_parse_ndp_options` reads is what `_pack_ndp_options`-style packing wrote -/
theorem nd_options_roundtrip (os : List NdOpt) (hok : ∀ o ∈ os, o.OK) (A : Bytes) :
    ∃ bs, ndOptsPack os = .ok bs ∧ ndOptsParse ((A ++ bs).length + 1) (A ++ bs) A.length = some os :=
  ⟨_, ndOptsPack_ok os hok, ndOptsParse_rt os hok A _ (by have := (ndOptsBytes_mod8 os hok).2; simp; omega)⟩

/-- **NDP round trip** (router solicitation/advertisement, neighbor solicitation/advertisement, each with its options):
the message packs; inside ICMPv6 — with the checksum over the IPv6 pseudo header — it parses back to the same message,
flags, target and every option included; re-packing the parsed header gives the same bytes -/
theorem ndp_roundtrip (cfg : XCfg) (fuel : Nat) (src dst : Bytes) (nh : Nat) (h : Icmp) (m : NdMsg) (hs : src.length = 16)
    (hd : dst.length = 16) (hc : h.code < 256) (ht : h.type = ndMsgType m) (hm : m.Fits)
    (hn : (ndMsgBytes m).length + 4 ≤ 131000) :
    ∃ body h' bs, ndMsgPack m = .ok body ∧ icmp6Hdr src dst h body = .ok (h', bs) ∧
      icmp6Parse (some (.v6 src dst nh)) (xparse cfg (fuel + 1)) (bs ++ body) = .icmp6 h' (.nd m) ∧
      h'.csum = rfc1071 (pseudo6 src dst (body.length + 4) 58 ++ (beEnc 1 h.type ++ beEnc 1 h.code ++ 0 :: 0 :: body)) ∧
      icmp6Hdr src dst h' body = .ok (h', bs) := by
  have htl : h.type < 256 := by rw [ht]; cases m <;> simp [ndMsgType]
  have hf : h.Fits := ⟨htl, hc⟩
  have h4 : (icmp6Bytes src dst h (ndMsgBytes m)).length = 4 := by simp [icmp6Bytes, icmpPre]
  refine ⟨_, _, _, ndMsgPack_ok m hm, icmp6Hdr_ok src dst h _ hs hd hf hn, ?_, rfl,
    by rw [icmp6Hdr_idem, icmp6Hdr_ok src dst h _ hs hd hf hn]⟩
  rw [icmp6_parse_any _ src dst nh h _ hs hd hf hn]
  have hty : h.type = 133 ∨ h.type = 134 ∨ h.type = 135 ∨ h.type = 136 := by rw [ht]; cases m <;> simp [ndMsgType]
  have hne : ¬ (h.type = 128 ∨ h.type = 129) := by omega
  simp only [icmp6Next, if_neg hne, if_pos hty]
  show XPkt.icmp6 _ (ndParse h.type _) = _
  rw [ht, nd_parse m _ hm h4]

def exNa : NdMsg := .na true true false (0xfe :: 0x80 :: List.replicate 13 0 ++ [1])
  [.lla 2 [2, 0, 0, 0, 0, 1], .prefix 64 true true 86400 14400 (0x20 :: 0x01 :: List.replicate 14 0), .mtu 1500,
   .generic 14 [1, 2, 3, 4, 5, 6]]

example : exNa.Fits ∧ ndMsgType exNa = 136 :=
  ⟨⟨by intro o ho; simp [exNa, NdMsg.opts] at ho; rcases ho with h | h | h | h <;> subst h <;> simp [NdOpt.OK], by simp [exNa]⟩,
   rfl⟩
example : (NdMsg.ra 64 true false 1800 0 0 [.mtu 1500]).Fits :=
  ⟨by intro o ho; simp [NdMsg.opts] at ho; subst ho; simp [NdOpt.OK], by simp⟩

/-- ICMPv6 errors: packet-too-big (MTU + quoted packet), time-exceeded (unused word + quote), destination-unreachable
(unused word + quote; a quote of at least 44 bytes is parsed as the offending IPv6 packet, a shorter one stays opaque) -/
theorem icmp6_errors_roundtrip (next : XNext) (w : Nat) (q : Bytes) (h : w < 4294967296) :
    toobig6Parse (beEnc 4 w ++ q) = .toobig6 w (.raw q) ∧ timeex6Parse ([0, 0, 0, 0] ++ q) = .timeex6 (.raw q) ∧
      (q.length < 44 → unreach6Parse next (beEnc 4 w ++ q) = .unreach6 w (.raw q)) :=
  ⟨toobig6_parse w q h, timeex6_parse q, unreach6_parse next w q h⟩

/-! ## DHCP (dhcp.py after repair D45) -/

/-- **DHCP option round trip**: the option dictionary packs to code/length/value parts (PAD octet after an odd part, END
at the end); a value longer than 255 bytes is split into parts of at most 255 (RFC 3396); `parseOptionSegment` returns the
same dictionary, long values concatenated again, and ignores what follows END -/
theorem dhcp_options_roundtrip (opts : List (Nat × Bytes)) (hok : DhcpOptsOK opts) (T : Bytes) :
    ∃ bs, dhcpPackOpts opts = .ok bs ∧ dhcpParseSeg ((bs ++ T).length + 1) (bs ++ T) 0 [] = opts := by
  refine ⟨_, dhcpPackOpts_ok opts hok, ?_⟩
  have := dhcp_opts_rt opts hok T ((dhcpOptsBody opts ++ [255] ++ T).length + 1) (by simp)
  simpa [List.append_assoc] using this

/-- **DHCP message round trip**: all fixed fields, `chaddr`, `sname`, `file`, the magic cookie and the options; the parsed
object differs from the built one only in `_raw_options`; packing it again gives the same bytes -/
theorem dhcp_roundtrip (h : Dhcp) (hf : h.Fits) :
    ∃ h' bs, dhcpHdr h = .ok (h', bs) ∧ dhcpParse bs = .dhcp h' ∧ h' = { h with rawOpts := h'.rawOpts } ∧
      dhcpHdr h' = .ok (h', bs) := by
  have hf' : ({ h with rawOpts := dhcpOptsBody h.opts ++ [255] } : Dhcp).Fits :=
    ⟨hf.op, hf.htype, hf.hlen, hf.hops, hf.xid, hf.secs, hf.flags, hf.ciaddr, hf.yiaddr, hf.siaddr, hf.giaddr, hf.chaddr,
     hf.chaddr6, hf.sname, hf.file, hf.magic, hf.opts, hf.some⟩
  refine ⟨_, _, dhcpHdr_ok h hf, dhcp_parse h hf, rfl, ?_⟩
  have := dhcpHdr_ok _ hf'
  simpa [dhcpBytes, dhcpNumBytes] using this

def exDhcp : Dhcp :=
  ⟨1, 1, 6, 0, 0x3903f326, 0, 0x8000, 0, 0, 0, 0, [0, 0x0b, 0x82, 1, 0xfc, 0x42] ++ List.replicate 10 0, List.replicate 64 0,
   List.replicate 128 0, DHCP_MAGIC, [(53, [1]), (61, [1, 0, 0x0b, 0x82, 1, 0xfc, 0x42]), (55, [1, 3, 6, 42]),
   (43, List.replicate 300 7)], []⟩

example : exDhcp.Fits := by
  constructor <;> first | decide | exact ⟨by decide, by decide⟩

/-! ## reverted tree: regression witnesses

The code variant without the repairs D50 / D49 (`XCfg.head`, what the harness finds by probing a tree in which those commits are
reverted).  These theorems are not about /repo as committed; they keep the model of the old code checked so that a reverted
tree is still compared against the right model. -/

/-- /repo as committed is the repaired variant; there the extended parser and packer use the repaired `rip` / `eap` code -/
theorem variant_repo (raw : Bytes) : ripParseV XCfg.repo.ripUnsigned raw = ripParseU raw ∧
    eapParseV XCfg.repo.eapBody raw = eapParseB raw ∧ ∀ h, ripHdrV XCfg.repo.ripUnsigned h = ripHdrV true h :=
  ⟨rfl, rfl, fun _ => rfl⟩

/-- reverted D50: the metric packed with `struct 'i'`: metrics below 2³¹ round-trip (larger ones make `hdr` raise) -/
theorem rip_roundtrip (h : Rip) (hf : h.Fits) :
    ∃ bs, ripHdr h = .ok bs ∧ bs.length = 4 + 20 * h.entries.length ∧ ripParse bs = .rip h :=
  ⟨ripBytes h, ripHdr_ok h hf, (rip_parse h hf).1, (rip_parse h hf).2⟩

example : (⟨2, 2, [⟨2, 0, 0x0a000000, 0xff000000, 0, 16⟩]⟩ : Rip).Fits := by
  refine ⟨by decide, by decide, ?_, by simp⟩
  intro e he
  simp only [List.mem_cons, List.not_mem_nil, or_false] at he
  subst he
  constructor <;> decide

/-- reverted D49: only success / failure (no type data) round-trip -/
theorem eap_roundtrip (h : Eap) (hf : h.Fits) : ∃ bs, eapHdr h = .ok bs ∧ eapParse bs = .eap h .nil :=
  ⟨eapBytes h, eapHdr_ok h hf, eap_parse h hf⟩

example : (⟨3, 7, 4⟩ : Eap).Fits := by constructor <;> decide

/-- in the reverted variant (`XCfg.head`) the extended parser uses the unrepaired `rip` / `eap` code paths -/
theorem variant_head (raw : Bytes) : ripParseV XCfg.head.ripUnsigned raw = ripParse raw ∧
    eapParseV XCfg.head.eapBody raw = eapParse raw ∧ ∀ h, ripHdrV XCfg.head.ripUnsigned h = ripHdr h :=
  ⟨rfl, rfl, fun _ => rfl⟩

/-! ## IPv6 extension headers (`Model/IPv6Ext.lean`: the four registered classes, `ipv6.hdr`'s serialisation of the chain
(repair D48) and the `while nht != NO_NEXT_HEADER` loop of `ipv6.parse`) -/

/-- **ipv6_ext_roundtrip**: every linked chain of well-formed extension headers — any number, any mix of Hop-by-Hop,
Routing, Destination-Options and Fragment headers, any bodies — followed by any payload of a protocol that is not itself
an extension header: `hdr` emits a whole number of 8-octet units (RFC 8200 §4), and the parse loop run on those bytes with
the payload behind them (as `ipv6.parse` runs it: type from the fixed header, length = the payload length `hdr` wrote)
gives back exactly the chain, the payload's protocol, the offset at which the payload starts, and — through the slice
`raw[offset:offset+length]` the code takes — exactly the payload (unless the chain ends in NO_NEXT_HEADER, 59, which says
that nothing follows: then the parser keeps no payload).  Packing the parsed chain reproduces the bytes
(the chain is the same object list). -/
theorem ipv6_ext_roundtrip (exts : List IPv6Ext.Ext) (t p : Nat) (payload : Bytes)
    (hw : ∀ e ∈ exts, e.WF) (hl : IPv6Ext.Linked t exts p) (hp : IPv6Ext.isExt p = false) :
    ∃ packed len, IPv6Ext.hdrExts exts payload.length = some (packed, packed.length + payload.length) ∧
      packed.length % 8 = 0 ∧
      IPv6Ext.parse (packed ++ payload) t (packed.length + payload.length) = .ok exts p packed.length len ∧
      IPv6Ext.payloadOf (packed ++ payload) (.ok exts p packed.length len) = (if p = 59 then none else some payload) := by
  obtain ⟨packed, hk, h8⟩ := IPv6Ext.packExts_wf exts hw
  have hlen : exts.length ≤ packed.length := by
    clear hl hp h8
    induction exts generalizing packed with
    | nil => simp
    | cons e es ih =>
      obtain ⟨b, hb, hb8, _⟩ := IPv6Ext.pack_wf e (hw e (by simp))
      simp only [IPv6Ext.packExts, hb] at hk
      cases hr : IPv6Ext.packExts es with
      | none => simp [hr] at hk
      | some rest =>
        simp [hr] at hk; subst hk
        have := ih (fun x hx => hw x (by simp [hx])) rest hr
        simp [List.length_append]; omega
  obtain ⟨len, hrun, hge⟩ := IPv6Ext.parseLoop_chain exts packed t p [] payload [] ((packed ++ payload).length + 1)
    (min (packed.length + payload.length) (packed ++ payload).length) hw hl hp hk
    (by simp [List.length_append]; omega) (by simp [List.length_append])
  refine ⟨packed, len, by simp [IPv6Ext.hdrExts, hk, Nat.add_comm], h8, ?_, ?_⟩
  · simpa [IPv6Ext.parse] using hrun
  · simp only [IPv6Ext.payloadOf]
    split
    · rfl
    · exact congrArg some (IPv6Ext.slice_tail packed payload len hge)

/-- a Hop-by-Hop header (6-octet body), a Fragment header and a Destination-Options header (14-octet body) in front of a
    UDP payload satisfy the hypotheses -/
def exExts : List IPv6Ext.Ext :=
  [⟨0, 44, 6, [1, 4, 0, 0, 0, 0]⟩, ⟨44, 60, 0, [0, 0, 8, 0, 0, 0, 9]⟩, ⟨60, 17, 14, List.replicate 14 7⟩]
example : (∀ e ∈ exExts, e.WF) ∧ IPv6Ext.Linked 0 exExts 17 ∧ IPv6Ext.isExt 17 = false := by
  refine ⟨?_, ⟨rfl, rfl, rfl, rfl⟩, by decide⟩
  intro e he
  simp only [exExts, List.mem_cons, List.not_mem_nil, or_false] at he
  rcases he with rfl | rfl | rfl <;> constructor <;> decide
example : IPv6Ext.parse ((IPv6Ext.packExts exExts).getD [] ++ [1, 2, 3]) 0 35 = .ok exExts 17 32 26 := by decide

/-- the code as it stands: `length -= len(o)` subtracts the length OCTET of a normal header, not the bytes it occupies, so
    the loop's `length` over-estimates what is left; the payload slice is right in `ipv6_ext_roundtrip` only because the
    buffer ends with the payload.  With bytes behind the IPv6 datagram (an Ethernet trailer) the slice takes some of them: -/
example : IPv6Ext.payloadOf ([17, 0, 1, 4, 0, 0, 0, 0] ++ [1, 2, 3] ++ [0xEE, 0xEE, 0xEE, 0xEE, 0xEE, 0xEE, 0xEE, 0xEE, 0xEE])
    (IPv6Ext.parse ([17, 0, 1, 4, 0, 0, 0, 0] ++ [1, 2, 3] ++ [0xEE, 0xEE, 0xEE, 0xEE, 0xEE, 0xEE, 0xEE, 0xEE, 0xEE]) 0 11)
    = some [1, 2, 3, 0xEE, 0xEE, 0xEE, 0xEE, 0xEE, 0xEE, 0xEE, 0xEE] := by decide

end Pox.C14
