import PoxModel.Proofs.SwitchReq
/-! # C13 — every switch request is answered once, with its transaction id, in order

`rxMessage`/`run` (Model/SwitchReq.lean) are `SoftwareSwitchBase.rx_message` and its handlers; the handler tables, message
classes and constants the model assumes are compared here with what the translator reads
off the live switch object on every run (`Generated/SwitchDispatch.lean`).  All theorems hold for every switch state, every message
body and every sequence (no bound).  Numbers in the statements are those of OpenFlow 1.0.0 `openflow.h`
(enum ofp_error_type, ofp_bad_request_code, ofp_bad_action_code, ofp_flow_mod_failed_code, ofp_port_mod_failed_code,
ofp_queue_op_failed_code, ofp_port, OFPQ_ALL).

The model follows the code with the repairs D9, D10, D27, C13-1 (committed) and C13-2 (fixes/C13-2_buffer_unknown_error.diff:
a packet_out / flow_mod naming a buffer that does not exist or was already used is answered with
BAD_REQUEST/BUFFER_UNKNOWN resp. BUFFER_EMPTY instead of silence). -/
namespace Pox.C13
open Pox.SwitchReq

/-! ## the model's tables are the ones in the source -/

/-- the four handler tables built by `SoftwareSwitchBase.__init__` -/
theorem dispatch_agrees : SwitchReq.dispatch = Generated.SwitchDispatch.dispatch := by decide

/-- the 13 kinds are exactly the message classes flagged "from controller", under their type codes; the stats request
body classes per type code are the ones the constructors of `StatsReq` stand for -/
theorem classes_agree :
    SwitchReq.msgClasses = (Generated.SwitchDispatch.msgClasses.filter (·.2.2.1)).map (fun c => (c.1, c.2.1)) ∧
    SwitchReq.statsRequestClasses = Generated.SwitchDispatch.statsRequestClasses := by decide

/-- the controller-to-switch message types of OpenFlow 1.0 (`enum ofp_type`, §5.1): HELLO 0, ECHO_REQUEST 2, ECHO_REPLY 3,
VENDOR 4, FEATURES_REQUEST 5, GET_CONFIG_REQUEST 7, SET_CONFIG 9, PACKET_OUT 13, FLOW_MOD 14, PORT_MOD 15,
STATS_REQUEST 16, BARRIER_REQUEST 18, QUEUE_GET_CONFIG_REQUEST 20 -/
def specRequestTypes : List Nat := [0, 2, 3, 4, 5, 7, 9, 13, 14, 15, 16, 18, 20]

/-- a statement about the CODE's tables (as read off the live switch object on this run), independent of the model:
every controller-to-switch message type of the standard has a handler and nothing else is dispatched; the statistics
types DESC..QUEUE (0-5), the flow-mod commands ADD..DELETE_STRICT (0-4) and the actions OUTPUT..ENQUEUE (0-11) of the
standard are exactly the keys of the other three tables (vendor statistics / vendor actions have no handler and are
answered with an error). -/
theorem requests_handled :
    (∀ c ∈ specRequestTypes, (Generated.SwitchDispatch.dispatch.rx.lookup c).isSome = true) ∧
    Generated.SwitchDispatch.dispatch.rx.map (·.1) = specRequestTypes ∧
    Generated.SwitchDispatch.dispatch.stats.map (·.1) = [0, 1, 2, 3, 4, 5] ∧
    Generated.SwitchDispatch.dispatch.flowMod.map (·.1) = [0, 1, 2, 3, 4] ∧
    Generated.SwitchDispatch.dispatch.action.map (·.1) = [0, 1, 2, 3, 4, 5, 6, 7, 8, 9, 10, 11] := by decide

open Generated.SwitchDispatch in
/-- the library's constants used by the model have the values of the standard -/
theorem consts_spec :
    OFPET_BAD_REQUEST = 1 ∧ OFPET_BAD_ACTION = 2 ∧ OFPET_FLOW_MOD_FAILED = 3 ∧ OFPET_PORT_MOD_FAILED = 4 ∧ OFPET_QUEUE_OP_FAILED = 5 ∧
    OFPBRC_BAD_STAT = 2 ∧ OFPBRC_BAD_VENDOR = 3 ∧ OFPBRC_BUFFER_EMPTY = 7 ∧ OFPBRC_BUFFER_UNKNOWN = 8 ∧ OFPBAC_BAD_TYPE = 0 ∧ OFPBAC_TOO_MANY = 7 ∧
    OFPFMFC_ALL_TABLES_FULL = 0 ∧ OFPFMFC_OVERLAP = 1 ∧ OFPFMFC_EPERM = 2 ∧ OFPFMFC_BAD_EMERG_TIMEOUT = 3 ∧ OFPFMFC_BAD_COMMAND = 4 ∧
    OFPPMFC_BAD_PORT = 0 ∧ OFPPMFC_BAD_HW_ADDR = 1 ∧ OFPQOFC_BAD_PORT = 0 ∧ OFPQOFC_BAD_QUEUE = 1 ∧
    OFPP_MAX = 0xff00 ∧ OFPP_IN_PORT = 0xfff8 ∧ OFPP_TABLE = 0xfff9 ∧ OFPP_FLOOD = 0xfffb ∧ OFPP_ALL = 0xfffc ∧
    OFPP_CONTROLLER = 0xfffd ∧ OFPP_NONE = 0xffff ∧ OFPQ_ALL = 0xffffffff ∧ TABLE_ALL = 0xff ∧
    OFPFF_SEND_FLOW_REM = 1 ∧ OFPFF_CHECK_OVERLAP = 2 ∧ OFPFF_EMERG = 4 ∧ OFPFC_ADD = 0 ∧ OFPRR_DELETE = 2 ∧ OFPPR_MODIFY = 2 ∧
    OFPPC_PORT_DOWN = 1 ∧ OFPPC_NO_STP = 2 ∧ OFPPC_NO_RECV = 4 ∧ OFPPC_NO_RECV_STP = 8 ∧ OFPPC_NO_FLOOD = 16 ∧ OFPPC_NO_FWD = 32 ∧
    OFPPC_NO_PACKET_IN = 64 ∧ OFPPS_LINK_DOWN = 1 := by decide

/-! ## one_reply -/

/-- the request kinds of the property: echo, features, get-config, barrier, statistics, queue-get-config -/
def IsRequest : Msg → Prop
  | .echoRequest .. | .featuresRequest _ | .getConfigRequest _ | .barrierRequest _ | .statsRequest .. | .queueGetConfigRequest .. => True
  | _ => False

/-- the entries a flow / aggregate statistics request selects, from the text of the standard: table id 0 or 0xff (the
switch has one table), the request's match covers the entry's match, and — unless out_port is OFPP_NONE — the entry has
an output action to out_port -/
def exactSelect (s : SwitchState) (mk : MKey) (tid op : Nat) : List Flow :=
  if tid ≠ 255 ∧ tid ≠ 0 then []
  else s.table.filter fun e => portMatches (if op = 65535 then none else some op) e && subsumes mk e.mkey

theorem statsSelect_exact (s : SwitchState) (mk : MKey) (tid op : Nat) : statsSelect s mk tid op = exactSelect s mk tid op := rfl

/-- the answer OpenFlow 1.0 specifies to statistics request `req` with xid `x` in state `s` (the whole group of
messages): list bodies may come in several parts (OFPSF_REPLY_MORE on all but the last), every part fitting into one
message; their concatenation is exactly the selected entries with their current counters -/
def SpecStats (s : SwitchState) (x : Nat) : StatsReq → List Reply → Prop
  | .desc, g => g = [.statsReply x 0 false .desc]
  | .flow mk tid op, g =>
    ∃ ls : List (List Flow), Multipart x 1 g (ls.map .flows) ∧ ls.flatten = exactSelect s mk tid op ∧
      ∀ l ∈ ls, (l.map flowEntryLen).sum ≤ 65523
  | .aggregate mk tid op, g =>
    g = [.statsReply x 2 false (.aggregate ((exactSelect s mk tid op).map (·.packets)).sum ((exactSelect s mk tid op).map (·.bytes)).sum
                                  (exactSelect s mk tid op).length)]
  | .table, g => g = [.statsReply x 3 false (.table s.maxEntries s.table.length s.lookupCount s.matchedCount)]
  | .port p, g =>
    ∃ ls : List (List PortCtr), Multipart x 4 g (ls.map .ports) ∧
      ls.flatten = (if p = 65535 then s.portStats else s.portStats.filter (·.no == p)) ∧
      ∀ l ∈ ls, (l.map portEntryLen).sum ≤ 65523
  | .queue p q, g =>
    if p ≠ 65532 ∧ knownPort s p = false then g = [.error x 5 0]          -- QUEUE_OP_FAILED / BAD_PORT
    else if q = 4294967295 then g = [.statsReply x 5 false .queues]        -- no queues: empty list
    else g = [.error x 5 1]                                                 -- QUEUE_OP_FAILED / BAD_QUEUE
  | .other _, g => g = [.error x 1 2]                                       -- BAD_REQUEST / BAD_STAT

/-- the answer the specification requires to request `m` in state `s` -/
def SpecReply (s : SwitchState) : Msg → List Reply → Prop
  | .echoRequest x b, g => g = [.echoReply x b]
  | .featuresRequest x, g => g = [.featuresReply x s.dpid s.maxBuffers 1 s.caps s.actionBits s.ports]
  | .getConfigRequest x, g => g = [.getConfigReply x s.configFlags s.missSendLen]
  | .barrierRequest x, g => g = [.barrierReply x]
  | .queueGetConfigRequest x p, g => if knownPort s p = true then g = [.queueGetConfigReply x p] else g = [.error x 5 0]
  | .statsRequest x req, g => SpecStats s x req g
  | _, _ => False

/-- OFPSF_REPLY_MORE is set -/
def isMorePart : Reply → Bool
  | .statsReply _ _ true _ => true
  | _ => false

/-- a complete answer: one message, or several parts of which exactly the last has no REPLY_MORE -/
def Complete (g : List Reply) : Prop := ∃ rs r, g = rs ++ [r] ∧ isMorePart r = false ∧ ∀ q ∈ rs, isMorePart q = true

theorem complete_single (r : Reply) (h : isMorePart r = false) : Complete [r] := ⟨[], r, rfl, h, by simp⟩

theorem multipart_complete {x t : Nat} {g : List Reply} {bs : List StatsBody} (h : Multipart x t g bs) : Complete g := by
  induction h with
  | last b => exact complete_single _ rfl
  | more b _ ih =>
    obtain ⟨rs, r, e, h1, h2⟩ := ih
    refine ⟨_ :: rs, r, by rw [e]; rfl, h1, ?_⟩
    intro q hq
    rcases List.mem_cons.mp hq with rfl | hq'
    · rfl
    · exact h2 q hq'

/-- what every answer to a request is: at least one message, each carrying the xid `x` and none asynchronous, complete -/
def AnswerTo (x : Nat) (g : List Reply) : Prop :=
  g ≠ [] ∧ (∀ r ∈ g, r.xid? = some x ∧ r.isAsync = false) ∧ Complete g

theorem answerTo_single {x : Nat} (r : Reply) (h1 : r.xid? = some x) (h2 : r.isAsync = false) (h3 : isMorePart r = false) :
    AnswerTo x [r] :=
  ⟨by simp, by intro q hq; simp only [List.mem_singleton] at hq; subst hq; exact ⟨h1, h2⟩, complete_single r h3⟩

theorem multipart_answer {x t : Nat} {g : List Reply} {bs : List StatsBody} (h : Multipart x t g bs) : AnswerTo x g :=
  ⟨h.all.1, h.all.2, multipart_complete h⟩

/-- **multipart_split**: the splitting rule of `_split_stats_body` (greedy: an entry opens a new part when it does not fit
the current one — and is then counted in the new one), for any entry type and size function: the parts, concatenated, are
exactly the list; there is at least one part; no part of a non-empty list is empty; when every single entry fits a
message, EVERY part — the first and all later ones — fits (body at most 65523 bytes, message at most 65535); and the
parts are maximal (`Greedy`): for consecutive parts p, q = e :: _ the entry e would not have fitted into p
((p.map size).sum + size e > 65523) — together with the concatenation this pins the rule (one entry per part would not do). -/
theorem multipart_split {α} (size : α → Nat) (l : List α) :
    (splitParts size l).flatten = l ∧ splitParts size l ≠ [] ∧ (l ≠ [] → ∀ p ∈ splitParts size l, p ≠ []) ∧
    Greedy size (splitParts size l) ∧
    ((∀ e ∈ l, size e ≤ 65523) → ∀ p ∈ splitParts size l, (p.map size).sum + 12 ≤ 65535) := by
  refine ⟨splitParts_flatten size l, splitParts_ne size l, splitParts_nonempty size l, splitParts_greedy size l, ?_⟩
  intro h p hp
  have := splitParts_fit size l h p hp
  have e : partLimit = 65523 := rfl
  omega

open Generated.SwitchDispatch in
theorem stats_spec (s : SwitchState) (x : Nat) (req : StatsReq) (hwf : ∀ t, req = .other t → 6 ≤ t)
    (hfit : (∃ mk tid op, req = .flow mk tid op) → FlowsFit s) :
    ∃ g, rxStats s x req = .ok (s, g) ∧ AnswerTo x g ∧ SpecStats s x req g := by
  cases req with
  | desc => exact ⟨_, rfl, answerTo_single _ rfl rfl rfl, rfl⟩
  | table => exact ⟨_, rfl, answerTo_single _ rfl rfl rfl, rfl⟩
  | aggregate mk tid op => exact ⟨_, rfl, answerTo_single _ rfl rfl rfl, rfl⟩
  | flow mk tid op =>
    have hl : statsTable.lookup (StatsReq.flow mk tid op).stype = some .flow := rfl
    have hsel : ∀ e ∈ statsSelect s mk tid op, flowEntryLen e ≤ partLimit := by
      intro e he
      unfold statsSelect at he
      split at he
      · cases he
      · exact hfit ⟨mk, tid, op, rfl⟩ e (List.mem_filter.mp he).1
    have hall : (bodyParts (.flows (statsSelect s mk tid op))).all (fun b => decide (bodyLen b ≤ partLimit)) = true := by
      simp only [bodyParts, List.all_eq_true, List.mem_map, decide_eq_true_eq]
      rintro b ⟨l, hl', rfl⟩
      exact splitParts_fit flowEntryLen _ hsel l hl'
    have hne : bodyParts (.flows (statsSelect s mk tid op)) ≠ [] := by
      simp only [bodyParts, ne_eq, List.map_eq_nil_iff]; exact splitParts_ne _ _
    have hm := markParts_multipart x 1 hne
    unfold rxStats; rw [hl]; simp only [runStats]; rw [if_pos hall]
    refine ⟨_, rfl, ?_, splitParts flowEntryLen (statsSelect s mk tid op), ?_, ?_, ?_⟩
    · exact multipart_answer hm
    · simp only [bodyParts] at hm; exact hm
    · rw [splitParts_flatten]; rfl
    · exact splitParts_fit flowEntryLen _ hsel
  | port p =>
    have hl : statsTable.lookup (StatsReq.port p).stype = some .port := rfl
    have key : ∀ (l : List PortCtr), ∃ g, (if (bodyParts (.ports l)).all (fun b => decide (bodyLen b ≤ partLimit)) = true
          then (Except.ok (s, [] ++ markParts x (StatsReq.port p).stype (bodyParts (.ports l))) : Res) else .error (.struct ((bodyParts (.ports l)).takeWhile (fun b => decide (bodyLen b ≤ partLimit))).length)) = .ok (s, g) ∧
        AnswerTo x g ∧ ∃ ls : List (List PortCtr), Multipart x 4 g (ls.map .ports) ∧ ls.flatten = l ∧ ∀ q ∈ ls, (q.map portEntryLen).sum ≤ 65523 := by
      intro l
      have hsel : ∀ e ∈ l, portEntryLen e ≤ partLimit := by intro e _; show (104 : Nat) ≤ 65523; decide
      have hall : (bodyParts (.ports l)).all (fun b => decide (bodyLen b ≤ partLimit)) = true := by
        simp only [bodyParts, List.all_eq_true, List.mem_map, decide_eq_true_eq]
        rintro b ⟨q, hq, rfl⟩
        exact splitParts_fit portEntryLen _ hsel q hq
      have hne : bodyParts (.ports l) ≠ [] := by
        simp only [bodyParts, ne_eq, List.map_eq_nil_iff]; exact splitParts_ne _ _
      have hm := markParts_multipart x 4 hne
      rw [if_pos hall]
      refine ⟨_, rfl, ?_, splitParts portEntryLen l, ?_, splitParts_flatten _ _, splitParts_fit portEntryLen _ hsel⟩
      · exact multipart_answer hm
      · simp only [bodyParts] at hm; exact hm
    unfold rxStats; rw [hl]; simp only [runStats]
    by_cases hc : p = OFPP_NONE
    · rw [if_pos hc]
      obtain ⟨g, h1, h2, ls, h3, h4, h5⟩ := key s.portStats
      have hc' : p = 65535 := hc
      exact ⟨g, h1, h2, ls, h3, by rw [h4, if_pos hc'], h5⟩
    · rw [if_neg hc]
      obtain ⟨g, h1, h2, ls, h3, h4, h5⟩ := key (s.portStats.filter (·.no == p))
      have hc' : ¬ p = 65535 := hc
      exact ⟨g, h1, h2, ls, h3, by rw [h4, if_neg hc'], h5⟩
  | queue p q =>
    have hl : statsTable.lookup (StatsReq.queue p q).stype = some .queue := rfl
    unfold rxStats; rw [hl]; simp only [runStats]
    by_cases hc : p ≠ OFPP_ALL ∧ (!knownPort s p) = true
    · rw [if_pos hc]
      have hc' : p ≠ 65532 ∧ knownPort s p = false := ⟨hc.1, by simpa using hc.2⟩
      refine ⟨_, rfl, answerTo_single _ rfl rfl rfl, ?_⟩
      simp only [SpecStats]; rw [if_pos hc']; rfl
    · rw [if_neg hc]
      have hc' : ¬ (p ≠ 65532 ∧ knownPort s p = false) := fun h => hc ⟨h.1, by simpa using h.2⟩
      by_cases hd : q = OFPQ_ALL
      · rw [if_pos hd]
        have hd' : q = 4294967295 := hd
        refine ⟨_, rfl, answerTo_single _ rfl rfl rfl, ?_⟩
        simp only [SpecStats]; rw [if_neg hc', if_pos hd']; rfl
      · rw [if_neg hd]
        have hd' : ¬ q = 4294967295 := hd
        refine ⟨_, rfl, answerTo_single _ rfl rfl rfl, ?_⟩
        simp only [SpecStats]; rw [if_neg hc', if_neg hd']; rfl
  | other t =>
    have := statsTable_none (hwf t rfl)
    simp only [rxStats, StatsReq.stype, this]
    exact ⟨_, rfl, answerTo_single _ rfl rfl rfl, rfl⟩

/-- **one_reply**: each echo, features, get-config, barrier, statistics (every type) and queue-get-config request
yields exactly one answer: at least one message, none asynchronous, each carrying the request's xid, complete (a list
of statistics entries too long for one message comes in several parts, all but the last flagged OFPSF_REPLY_MORE); it
is the reply (with the data and counters of the current state) or the error the specification names; and the request
changes nothing in the switch.  `FlowsFit`: every installed flow can be encoded in a reply at all (its action list is
shorter than 65435 bytes) — without it `ofp_stats_reply.pack` raises, see `oversize_entry_fails`. -/
theorem one_reply (s : SwitchState) (m : Msg) (hk : IsRequest m) (hwf : m.WF) (hfit : FlowsFit s) :
    ∃ g, rxMessage s m = .ok (s, g) ∧ AnswerTo m.xid g ∧ SpecReply s m g := by
  cases m with
  | echoRequest x b => exact ⟨_, rfl, answerTo_single _ rfl rfl rfl, rfl⟩
  | featuresRequest x => exact ⟨_, rfl, answerTo_single _ rfl rfl rfl, rfl⟩
  | getConfigRequest x => exact ⟨_, rfl, answerTo_single _ rfl rfl rfl, rfl⟩
  | barrierRequest x => exact ⟨_, rfl, answerTo_single _ rfl rfl rfl, rfl⟩
  | queueGetConfigRequest x p =>
    have e : rxMessage s (.queueGetConfigRequest x p) =
        (if (!knownPort s p) = true then .ok (s, [sendError x Generated.SwitchDispatch.OFPET_QUEUE_OP_FAILED Generated.SwitchDispatch.OFPQOFC_BAD_PORT])
         else .ok (s, [.queueGetConfigReply x p])) := rfl
    rw [e]
    cases hp : knownPort s p with
    | true => exact ⟨_, rfl, answerTo_single _ rfl rfl rfl, by simp [SpecReply, hp]⟩
    | false => exact ⟨_, rfl, answerTo_single _ rfl rfl rfl, by simp [SpecReply, hp]; rfl⟩
  | statsRequest x req =>
    have e : rxMessage s (.statsRequest x req) = rxStats s x req := rfl
    rw [e]
    have hw : ∀ t, req = .other t → 6 ≤ t := by
      intro t ht; subst ht; exact hwf
    exact stats_spec s x req hw (fun _ => hfit)
  | _ => exact absurd hk (by simp [IsRequest])

/-- why `one_reply` needs `FlowsFit` (an arbitrary state may hold an entry whose action list is longer than 65435 bytes):
`_rx_stats_request` packs and sends part by part, so the parts in front of the oversize one go out — all flagged
REPLY_MORE — and then `ofp_stats_reply.pack` raises `struct.error`: the request is never completed.  Here: an ordinary
entry and an oversize one; ONE part has been sent when the failure occurs (none if the oversize entry is alone).
Since repair C13-5 (`tooManyActions`) such an entry cannot be installed any more: `step_fit` makes `FlowsFit` an
invariant of every history, without any condition on the flow_mods. -/
theorem oversize_entry_fails (s : SwitchState) (x : Nat) :
    rxMessage { s with table := [{ mkey := none, priority := 2, cookie := 1, flags := 0, outs := [], actsLen := 8 },
                                 { mkey := none, priority := 1, cookie := 0, flags := 0, outs := [], actsLen := 65440 }] }
      (.statsRequest x (.flow none 0 65535)) = .error (.struct 1) ∧
    rxMessage { s with table := [{ mkey := none, priority := 1, cookie := 0, flags := 0, outs := [], actsLen := 65440 }] }
      (.statsRequest x (.flow none 0 65535)) = .error (.struct 0) := by
  have e : ∀ t, rxMessage t (.statsRequest x (.flow none 0 65535)) = rxStats t x (.flow none 0 65535) := fun _ => rfl
  rw [e, e]; exact ⟨rfl, rfl⟩

/-! ## replies_carry_xid, never_fails -/

/-- what may be written while handling request `m`: asynchronous notifications, messages carrying `m`'s xid, and the
switch's own hello (xid 0) in answer to the first hello -/
def Correlated (m : Msg) (r : Reply) : Prop :=
  r.isAsync = true ∨ r.xid? = some m.xid ∨ (m.kind = some .hello ∧ r = .hello 0)

theorem correlated_of_ok {m : Msg} {r : Reply} (h : ReplyOK m.xid r) : Correlated m r := by
  rcases h with h | ⟨t, c, rfl⟩
  · exact .inl h
  · exact .inr (.inl rfl)

/-- the full statement the property asks for (no internal failure for ANY decodable message of the 13 types).  It is NOT
proved: the model does not cover the enqueue action and output:TABLE (they answer `Err.unmodelled`; the data path is
C12's), and for a packet_out carrying data the code parses, rewrites and re-packs controller-chosen bytes
(`ethernet.unpack`, the action handlers, `pack`) — whether that can raise is C12/C15's subject; the model treats the
frame as opaque.  What is proved is `never_fails_partial`. -/
def never_fails_full : Prop :=
  ∀ (s : SwitchState) (m : Msg), m.kind.isSome → m.WF → FlowsFit s → ∃ s' out, rxMessage s m = .ok (s', out)

/-- **handled_partial** (never_fails and correlation in one statement): for every state whose flows can be reported and
every decodable message of the 13 controller-to-switch types whose action list is in the modelled vocabulary
(`InScope`: no enqueue, no output:TABLE), handling succeeds, and every message written is asynchronous or carries the
request's xid. -/
theorem handled_partial (s : SwitchState) (m : Msg) (hk : m.kind.isSome) (hwf : m.WF) (hsc : m.InScope) (hfit : FlowsFit s) :
    ∃ s' out, rxMessage s m = .ok (s', out) ∧ ∀ r ∈ out, Correlated m r := by
  cases m with
  | hello x =>
    have e : rxMessage s (.hello x) = .ok (rxHello s) := rfl
    refine ⟨_, _, e, ?_⟩
    intro r hr
    have hr' : r ∈ (rxHello s).2 := hr
    unfold rxHello at hr'
    split at hr'
    · simp at hr'
    · simp only [List.mem_singleton] at hr'
      exact .inr (.inr ⟨rfl, hr'⟩)
  | echoRequest x b => exact ⟨_, _, rfl, by intro r hr; simp only [List.mem_singleton] at hr; subst hr; exact .inr (.inl rfl)⟩
  | echoReply x b => exact ⟨_, _, rfl, by simp⟩
  | vendor x v => exact ⟨_, _, rfl, by intro r hr; simp only [List.mem_singleton] at hr; subst hr; exact .inr (.inl rfl)⟩
  | featuresRequest x => exact ⟨_, _, rfl, by intro r hr; simp only [List.mem_singleton] at hr; subst hr; exact .inr (.inl rfl)⟩
  | getConfigRequest x => exact ⟨_, _, rfl, by intro r hr; simp only [List.mem_singleton] at hr; subst hr; exact .inr (.inl rfl)⟩
  | setConfig x f l => exact ⟨_, _, rfl, by simp⟩
  | barrierRequest x => exact ⟨_, _, rfl, by intro r hr; simp only [List.mem_singleton] at hr; subst hr; exact .inr (.inl rfl)⟩
  | queueGetConfigRequest x p =>
    obtain ⟨g, h1, ⟨_, h2, _⟩, _⟩ := one_reply s (.queueGetConfigRequest x p) trivial trivial hfit
    exact ⟨_, _, h1, fun r hr => .inr (.inl (h2 r hr).1)⟩
  | statsRequest x req =>
    obtain ⟨g, h1, ⟨_, h2, _⟩, _⟩ := one_reply s (.statsRequest x req) trivial hwf hfit
    exact ⟨_, _, h1, fun r hr => .inr (.inl (h2 r hr).1)⟩
  | packetOut x b d ip acts =>
    have e : rxMessage s (.packetOut x b d ip acts) = rxPacketOut s x b d ip acts := rfl
    obtain ⟨s', o, h1, h2⟩ := rxPacketOut_ok s x b d ip acts hsc
    refine ⟨s', o, e.trans h1, ?_⟩
    intro r hr
    rcases h2 r hr with h | ⟨h, _⟩ | ⟨_, h | h⟩
    · exact .inl h
    · subst h; exact .inr (.inl rfl)
    · subst h; exact .inr (.inl rfl)
    · subst h; exact .inr (.inl rfl)
  | flowMod x c mk p ck f i hd op b acts =>
    have e : rxMessage s (.flowMod x c mk p ck f i hd op b acts) = rxFlowMod s x c mk p ck f i hd op b acts := rfl
    obtain ⟨s', o, h1, h2⟩ := rxFlowMod_ok s x c mk p ck f i hd op b acts hsc
    exact ⟨s', o, e.trans h1, fun r hr => correlated_of_ok (h2 r hr)⟩
  | portMod x p hw c mk =>
    have e : rxMessage s (.portMod x p hw c mk) = .ok (rxPortMod s x p hw c mk) := rfl
    exact ⟨_, _, e, fun r hr => correlated_of_ok (rxPortMod_out s x p hw c mk r hr)⟩
  | unhandled ty x => simp [Msg.kind] at hk

/-- **never_fails_partial**: no internal failure for any body in the modelled vocabulary (see `never_fails_full`). -/
theorem never_fails_partial (s : SwitchState) (m : Msg) (hk : m.kind.isSome) (hwf : m.WF) (hsc : m.InScope) (hfit : FlowsFit s) :
    ∃ s' out, rxMessage s m = .ok (s', out) := by
  obtain ⟨s', out, h, _⟩ := handled_partial s m hk hwf hsc hfit
  exact ⟨s', out, h⟩

/-- every message written in answer to a request is asynchronous or carries that request's xid (the switch's own hello,
sent with xid 0 on the first hello, is the one exception) -/
theorem replies_carry_xid (s s' : SwitchState) (m : Msg) (out : List Reply) (hk : m.kind.isSome) (hwf : m.WF) (hsc : m.InScope)
    (hfit : FlowsFit s) (h : rxMessage s m = .ok (s', out)) : ∀ r ∈ out, Correlated m r := by
  obtain ⟨s2, out2, h2, h3⟩ := handled_partial s m hk hwf hsc hfit
  rw [h] at h2
  cases h2
  exact h3

/-- why `never_fails` asks for one of the 13 kinds: a decodable message of any other type (here OFPT_ERROR, code 1)
has no handler and `rx_message` raises `RuntimeError` (switch.py:240-242) -/
theorem unhandled_type_fails (s : SwitchState) (x : Nat) : rxMessage s (.unhandled 1 x) = .error .runtime := rfl

/-! ## silent_kinds -/

open Generated.SwitchDispatch in
/-- **silent_kinds**: set_config, echo_reply and a second hello write nothing; an accepted port_mod, a packet_out whose
action types are all supported, and an accepted flow_mod write only asynchronous notifications (port-status,
packet-in, flow-removed) — never a reply and never an error (a buffer id, when one is named, must name a stored packet). -/
theorem silent_kinds (s : SwitchState) :
    (∀ x f l, rxMessage s (.setConfig x f l) = .ok ({ s with missSendLen := l, configFlags := f }, [])) ∧
    (∀ x b, rxMessage s (.echoReply x b) = .ok (s, [])) ∧
    (∀ x, s.hasSentHello = true → rxMessage s (.hello x) = .ok (s, [])) ∧
    (∀ x p hw c mk q, s.ports.find? (·.no == p) = some q → q.hw = hw →
        ∃ s' out, rxMessage s (.portMod x p hw c mk) = .ok (s', out) ∧ ∀ r ∈ out, r.isAsync = true) ∧
    (∀ x b d ip acts, actsInScope acts → (∀ a ∈ acts, (actionTable.lookup a.ty).isSome) →
        (d = true ∨ ∀ id, b = some id → bufferLive s id = true) →
        ∃ s' out, rxMessage s (.packetOut x b d ip acts) = .ok (s', out) ∧ ∀ r ∈ out, r.isAsync = true) ∧
    (∀ x c mk p ck f i hd op b acts, c ≤ 4 → hasBit f OFPFF_EMERG = false →
        (hasBit f OFPFF_CHECK_OVERLAP = false ∨ checkOverlap p mk s.table = false) →
        (c ≤ 2 → s.table.length < s.maxEntries) → actsInScope acts → (∀ a ∈ acts, (actionTable.lookup a.ty).isSome) →
        88 + actsLenOf acts ≤ 65523 →
        (∀ id, b = some id → bufferLive s id = true) →
        ∃ s' out, rxMessage s (.flowMod x c mk p ck f i hd op b acts) = .ok (s', out) ∧ ∀ r ∈ out, r.isAsync = true) := by
  refine ⟨fun _ _ _ => rfl, fun _ _ => rfl, ?_, ?_, ?_, ?_⟩
  · intro x h
    have e : rxMessage s (.hello x) = .ok (rxHello s) := rfl
    rw [e]; unfold rxHello; rw [if_pos h]
  · intro x p hw c mk q hq hhw
    have e : rxMessage s (.portMod x p hw c mk) = .ok (rxPortMod s x p hw c mk) := rfl
    refine ⟨_, _, e, ?_⟩
    intro r hr
    have hr' : r ∈ (rxPortMod s x p hw c mk).2 := hr
    unfold rxPortMod at hr'
    rw [hq] at hr'
    simp only [hhw, ne_eq, not_true_eq_false, if_false] at hr'
    exact portModBits_async _ _ _ _ r hr'
  · intro x b d ip acts hs hk hlive
    have e : rxMessage s (.packetOut x b d ip acts) = rxPacketOut s x b d ip acts := rfl
    obtain ⟨s', o, h1, h2⟩ := rxPacketOut_ok s x b d ip acts hs
    refine ⟨s', o, e.trans h1, ?_⟩
    intro r hr
    rcases h2 r hr with h | ⟨_, a, ha, hn⟩ | ⟨⟨hd, id, hb, hdead⟩, _⟩
    · exact h
    · have := hk a ha; rw [hn] at this; cases this
    · rcases hlive with h | h
      · rw [h] at hd; cases hd
      · rw [h id hb] at hdead; cases hdead
  · intro x c mk p ck f i hd op b acts hc he ho hlen hs hk hsize hlive
    have e : rxMessage s (.flowMod x c mk p ck f i hd op b acts) = rxFlowMod s x c mk p ck f i hd op b acts := rfl
    rw [e]
    obtain ⟨h, hl⟩ := flowModTable_some hc
    -- the table-changing part writes no error under the hypotheses
    have hfm : ∀ r ∈ (runFlowMod h s x c mk p ck f i hd op acts).2, r.isAsync = true := by
      have noerr : ∀ (st : SwitchState × List Reply),
          (st.2 = [] ∨ ∃ cc, st.2 = [.error x OFPET_FLOW_MOD_FAILED cc] ∧
            (hasBit f OFPFF_EMERG = true ∨ (hasBit f OFPFF_CHECK_OVERLAP = true ∧ checkOverlap p mk s.table = true) ∨
              s.maxEntries ≤ st.1.table.length)) →
          s.table.length < s.maxEntries →
          st.1.table.length ≤ s.table.length + 1 → (st.2 ≠ [] → st.1.table.length ≤ s.table.length) →
          ∀ r ∈ st.2, r.isAsync = true := by
        intro st hst hlen _ hle r hr
        rcases hst with h0 | ⟨cc, h1, h2⟩
        · rw [h0] at hr; simp at hr
        · rcases h2 with h2 | h2 | h2
          · rw [he] at h2; cases h2
          · rcases ho with ho | ho
            · rw [ho] at h2; cases h2.1
            · rw [ho] at h2; cases h2.2
          · have := hle (by rw [h1]; simp)
            omega
      have addLen : (flowModAdd s x c mk p ck f i hd acts).1.table.length ≤ s.table.length + 1 ∧
          ((flowModAdd s x c mk p ck f i hd acts).2 ≠ [] → (flowModAdd s x c mk p ck f i hd acts).1.table.length ≤ s.table.length) := by
        have tl : (tableForAdd c s.table mk p).length ≤ s.table.length := by
          unfold tableForAdd; split
          · exact List.length_filter_le _ _
          · exact Nat.le_refl _
        have al : ∀ (e : Flow) (t : List Flow), (addEntry e t).length = t.length + 1 := by
          intro e t
          induction t with
          | nil => rfl
          | cons y r ih => unfold addEntry; split <;> simp [ih]
        unfold flowModAdd
        rw [he]
        have hov : (hasBit f OFPFF_CHECK_OVERLAP && checkOverlap p mk s.table) = false := by
          rcases ho with ho | ho <;> simp [ho]
        simp only [Bool.false_eq_true, if_false, hov]
        split
        · exact ⟨by simp only; omega, fun _ => tl⟩
        · exact ⟨by simp only [al]; omega, fun h => absurd rfl h⟩
      cases h with
      | add => exact noerr _ (flowModAdd_out s x c mk p ck f i hd acts) (hlen (flowModTable_add_le hl (.inl rfl))) addLen.1 addLen.2
      | modify =>
        refine noerr _ (flowModModify_out false s x c mk p ck f i hd acts) (hlen (flowModTable_add_le hl (.inr (.inl rfl)))) ?_ ?_
        · simp only [runFlowMod]; unfold flowModModify; split
          · simp
          · exact addLen.1
        · simp only [runFlowMod]; unfold flowModModify; split
          · simp
          · exact addLen.2
      | modifyStrict =>
        refine noerr _ (flowModModify_out true s x c mk p ck f i hd acts) (hlen (flowModTable_add_le hl (.inr (.inr rfl)))) ?_ ?_
        · simp only [runFlowMod]; unfold flowModModify; split
          · simp
          · exact addLen.1
        · simp only [runFlowMod]; unfold flowModModify; split
          · simp
          · exact addLen.2
      | delete => exact flowModDelete_out false s mk p op
      | deleteStrict => exact flowModDelete_out true s mk p op
    unfold rxFlowMod
    rw [badActions_false hk, tooMany_false hsize]
    simp only [Bool.false_eq_true, if_false]
    unfold rxFlowModBody
    rw [hl]
    cases b with
    | none => exact ⟨_, _, rfl, hfm⟩
    | some id =>
      obtain ⟨s2, o2, e2, a2⟩ := processFromBuffer_ok x none (runFlowMod h s x c mk p ck f i hd op acts).1 acts id hs
      simp only [e2]
      refine ⟨s2, _, rfl, ?_⟩
      intro r hr
      rcases List.mem_append.mp hr with h1 | h1
      · exact hfm r h1
      · rcases a2 r h1 with h2 | ⟨_, a, ha, hn⟩ | ⟨hdead, _⟩
        · exact h2
        · have := hk a ha; rw [hn] at this; cases this
        · have hb : (runFlowMod h s x c mk p ck f i hd op acts).1.buffers = s.buffers := runFlowMod_buffers h s x c mk p ck f i hd op acts
          have : bufferLive (runFlowMod h s x c mk p ck f i hd op acts).1 id = bufferLive s id := by
            simp only [bufferLive, hb]
          rw [this, hlive id rfl] at hdead; cases hdead

/-! ## order -/

/-- **order**: handling is synchronous — the groups written for a sequence `a ++ b` are the groups of `a` followed by
the groups of `b` run from the state `a` left behind. -/
theorem order (s : SwitchState) (a b : List Msg) :
    run s (a ++ b) =
      match run s a with
      | .error e => .error e
      | .ok (s1, g1) =>
        match run s1 b with
        | .error e => .error e
        | .ok (s2, g2) => .ok (s2, g1 ++ g2) := run_append s a b

/-- the byte stream on the connection is the concatenation of the per-request replies, in request order -/
theorem stream_concat (s s1 s2 : SwitchState) (a b : List Msg) (g1 g2 : List (List Reply))
    (ha : run s a = .ok (s1, g1)) (hb : run s1 b = .ok (s2, g2)) :
    ∃ g, run s (a ++ b) = .ok (s2, g) ∧ stream g = stream g1 ++ stream g2 := by
  refine ⟨g1 ++ g2, ?_, by simp [stream]⟩
  rw [run_append, ha]; simp only; rw [hb]

/-- **barrier**: the reply to a barrier request comes after everything written for the earlier messages, and it is
emitted from the state `s1` in which all their effects are in place (it changes nothing itself); what follows starts
from that same state. -/
theorem barrier_after (s s1 : SwitchState) (before after : List Msg) (g1 : List (List Reply)) (x : Nat)
    (h : run s before = .ok (s1, g1)) :
    run s (before ++ .barrierRequest x :: after) =
      match run s1 after with
      | .error e => .error e
      | .ok (s2, g2) => .ok (s2, g1 ++ [.barrierReply x] :: g2) := by
  rw [run_append, h]
  simp only
  have e : run s1 (.barrierRequest x :: after) =
      match run s1 after with
      | .error e => .error e
      | .ok (s2, g2) => .ok (s2, [.barrierReply x] :: g2) := rfl
  rw [e]
  cases run s1 after with
  | error e => rfl
  | ok r => obtain ⟨s2, g2⟩ := r; rfl

/-- an effect that a later request observes: the configuration set by set_config is what get_config reports -/
theorem set_config_visible (s : SwitchState) (x y f l : Nat) :
    ∃ s', rxMessage s (.setConfig x f l) = .ok (s', []) ∧
      rxMessage s' (.getConfigRequest y) = .ok (s', [.getConfigReply y f l]) := ⟨_, rfl, rfl⟩

/-! ## errors_spec -/

open Generated.SwitchDispatch in
/-- **errors_spec**: every invalid-request class is answered by exactly the error type and code of the standard (with
the request's xid), and nothing else. -/
theorem errors_spec (s : SwitchState) (x : Nat) :
    -- port_mod: unknown port ↦ PORT_MOD_FAILED/BAD_PORT, wrong hardware address ↦ PORT_MOD_FAILED/BAD_HW_ADDR
    (∀ p hw c mk, s.ports.find? (·.no == p) = none → rxMessage s (.portMod x p hw c mk) = .ok (s, [.error x 4 0])) ∧
    (∀ p hw c mk q, s.ports.find? (·.no == p) = some q → q.hw ≠ hw → rxMessage s (.portMod x p hw c mk) = .ok (s, [.error x 4 1])) ∧
    -- queue-get-config and queue statistics for a port that does not exist ↦ QUEUE_OP_FAILED/BAD_PORT
    (∀ p, knownPort s p = false → rxMessage s (.queueGetConfigRequest x p) = .ok (s, [.error x 5 0])) ∧
    (∀ p q, p ≠ 65532 → knownPort s p = false → rxMessage s (.statsRequest x (.queue p q)) = .ok (s, [.error x 5 0])) ∧
    -- a specific queue (none exist) ↦ QUEUE_OP_FAILED/BAD_QUEUE
    (∀ p q, (p = 65532 ∨ knownPort s p = true) → q ≠ 4294967295 → rxMessage s (.statsRequest x (.queue p q)) = .ok (s, [.error x 5 1])) ∧
    -- unsupported statistics type ↦ BAD_REQUEST/BAD_STAT; vendor message ↦ BAD_REQUEST/BAD_VENDOR
    (∀ t, 6 ≤ t → rxMessage s (.statsRequest x (.other t)) = .ok (s, [.error x 1 2])) ∧
    (∀ v, rxMessage s (.vendor x v) = .ok (s, [.error x 1 3])) ∧
    -- unknown flow-mod command ↦ FLOW_MOD_FAILED/BAD_COMMAND (repair D9)
    (∀ c mk p ck f i hd op b acts, 5 ≤ c → rxMessage s (.flowMod x c mk p ck f i hd op b acts) = .ok (s, [.error x 3 4])) ∧
    -- emergency flow with a timeout ↦ FLOW_MOD_FAILED/BAD_EMERG_TIMEOUT
    (∀ mk p ck f i hd op acts, ((∀ a ∈ acts, (actionTable.lookup a.ty).isSome = true) ∧ 88 + actsLenOf acts ≤ 65523) → hasBit f 4 = true → (i ≠ 0 ∨ hd ≠ 0) →
        rxMessage s (.flowMod x 0 mk p ck f i hd op none acts) = .ok (s, [.error x 3 3])) ∧
    -- CHECK_OVERLAP with an overlapping entry of equal priority ↦ FLOW_MOD_FAILED/OVERLAP
    (∀ mk p ck f i hd op acts, ((∀ a ∈ acts, (actionTable.lookup a.ty).isSome = true) ∧ 88 + actsLenOf acts ≤ 65523) → hasBit f 4 = false → hasBit f 2 = true →
        checkOverlap p mk s.table = true →
        rxMessage s (.flowMod x 0 mk p ck f i hd op none acts) = .ok (s, [.error x 3 1])) ∧
    -- table full ↦ FLOW_MOD_FAILED/ALL_TABLES_FULL
    (∀ mk p ck f i hd op acts, ((∀ a ∈ acts, (actionTable.lookup a.ty).isSome = true) ∧ 88 + actsLenOf acts ≤ 65523) → hasBit f 4 = false → hasBit f 2 = false →
        s.maxEntries ≤ (tableForAdd 0 s.table mk p).length →
        rxMessage s (.flowMod x 0 mk p ck f i hd op none acts) = .ok ({ s with table := tableForAdd 0 s.table mk p }, [.error x 3 0])) ∧
    -- an action of a type the switch does not implement ↦ BAD_ACTION/BAD_TYPE
    (∀ b ip a rest, actionTable.lookup a.ty = none → rxMessage s (.packetOut x b true ip (a :: rest)) = .ok (s, [.error x 2 0])) ∧
    -- the same in an ADD / MODIFY / MODIFY_STRICT flow_mod: refused, nothing installed, a named buffer left alone (repair C13-4)
    (∀ c mk p ck f i hd op b acts, c ≤ 2 → (∃ a ∈ acts, actionTable.lookup a.ty = none) →
        rxMessage s (.flowMod x c mk p ck f i hd op b acts) = .ok (s, [.error x 2 0])) ∧
    -- more actions than a flow-statistics entry can report ↦ BAD_ACTION/TOO_MANY, nothing installed (repair C13-5)
    (∀ c mk p ck f i hd op b acts, c ≤ 2 → (∀ a ∈ acts, (actionTable.lookup a.ty).isSome = true) → 88 + actsLenOf acts > 65523 →
        rxMessage s (.flowMod x c mk p ck f i hd op b acts) = .ok (s, [.error x 2 7])) ∧
    -- a buffer id that does not exist ↦ BAD_REQUEST/BUFFER_UNKNOWN; one that was already used ↦ BAD_REQUEST/BUFFER_EMPTY (repair C13-2)
    (∀ id ip acts, (id = 0 ∨ s.buffers.length ≤ id - 1) → rxMessage s (.packetOut x (some id) false ip acts) = .ok (s, [.error x 1 8])) ∧
    (∀ id ip acts, id ≠ 0 → s.buffers[id - 1]? = some false → rxMessage s (.packetOut x (some id) false ip acts) = .ok (s, [.error x 1 7])) := by
  have addBody : ∀ mk p ck f i hd op acts, ((∀ a ∈ acts, (actionTable.lookup a.ty).isSome = true) ∧ 88 + actsLenOf acts ≤ 65523) →
      rxMessage s (.flowMod x 0 mk p ck f i hd op none acts) = .ok (flowModAdd s x 0 mk p ck f i hd acts) := by
    intro mk p ck f i hd op acts hk
    have e : rxMessage s (.flowMod x 0 mk p ck f i hd op none acts) = rxFlowMod s x 0 mk p ck f i hd op none acts := rfl
    rw [e]; unfold rxFlowMod; rw [badActions_false hk.1, tooMany_false hk.2]; rfl
  refine ⟨?_, ?_, ?_, ?_, ?_, ?_, fun _ => rfl, ?_, ?_, ?_, ?_, ?_, ?_, ?_, ?_, ?_⟩
  · intro p hw c mk h
    have e : rxMessage s (.portMod x p hw c mk) = .ok (rxPortMod s x p hw c mk) := rfl
    rw [e]; unfold rxPortMod; rw [h]; rfl
  · intro p hw c mk q h hne
    have e : rxMessage s (.portMod x p hw c mk) = .ok (rxPortMod s x p hw c mk) := rfl
    rw [e]; unfold rxPortMod; rw [h]; simp only [ne_eq, hne, not_false_eq_true, if_true]; rfl
  · intro p h
    have e : rxMessage s (.queueGetConfigRequest x p) =
        (if (!knownPort s p) = true then .ok (s, [sendError x OFPET_QUEUE_OP_FAILED OFPQOFC_BAD_PORT])
         else .ok (s, [.queueGetConfigReply x p])) := rfl
    rw [e, h]; rfl
  · intro p q hp h
    obtain ⟨g, h1, _, h4⟩ := stats_spec s x (.queue p q) (fun _ h => by cases h) (fun ⟨_, _, _, h⟩ => by cases h)
    simp only [SpecStats] at h4
    rw [if_pos ⟨hp, h⟩] at h4
    have e : rxMessage s (.statsRequest x (.queue p q)) = rxStats s x (.queue p q) := rfl
    rw [e, h1, h4]
  · intro p q hp hq
    obtain ⟨g, h1, _, h4⟩ := stats_spec s x (.queue p q) (fun _ h => by cases h) (fun ⟨_, _, _, h⟩ => by cases h)
    simp only [SpecStats] at h4
    have e : rxMessage s (.statsRequest x (.queue p q)) = rxStats s x (.queue p q) := rfl
    have hn : ¬ (p ≠ 65532 ∧ knownPort s p = false) := by
      rintro ⟨h1, h2⟩
      rcases hp with hp | hp
      · exact h1 hp
      · rw [hp] at h2; cases h2
    rw [if_neg hn, if_neg hq] at h4
    rw [e, h1, h4]
  · intro t ht
    obtain ⟨g, h1, _, h4⟩ := stats_spec s x (.other t) (fun t' h => by cases h; exact ht) (fun ⟨_, _, _, h⟩ => by cases h)
    simp only [SpecStats] at h4
    have e : rxMessage s (.statsRequest x (.other t)) = rxStats s x (.other t) := rfl
    rw [e, h1, h4]
  · intro c mk p ck f i hd op b acts hc
    have e : rxMessage s (.flowMod x c mk p ck f i hd op b acts) = rxFlowMod s x c mk p ck f i hd op b acts := rfl
    have hb : badActions c acts = false := by
      unfold badActions
      have h1 : (c == OFPFC_ADD) = false := by simp [OFPFC_ADD]; omega
      have h2 : (c == OFPFC_MODIFY) = false := by simp [OFPFC_MODIFY]; omega
      have h3 : (c == OFPFC_MODIFY_STRICT) = false := by simp [OFPFC_MODIFY_STRICT]; omega
      rw [h1, h2, h3]; rfl
    have ht : tooManyActions c acts = false := by
      unfold tooManyActions
      have h1 : (c == OFPFC_ADD) = false := by simp [OFPFC_ADD]; omega
      have h2 : (c == OFPFC_MODIFY) = false := by simp [OFPFC_MODIFY]; omega
      have h3 : (c == OFPFC_MODIFY_STRICT) = false := by simp [OFPFC_MODIFY_STRICT]; omega
      rw [h1, h2, h3]; rfl
    rw [e]; unfold rxFlowMod; rw [hb, ht]; simp only [Bool.false_eq_true, if_false]
    unfold rxFlowModBody; rw [flowModTable_none hc]; rfl
  · intro mk p ck f i hd op acts hk he ht
    rw [addBody mk p ck f i hd op acts hk]; unfold flowModAdd
    have he' : hasBit f OFPFF_EMERG = true := he
    rw [if_pos he', if_pos ht]; rfl
  · intro mk p ck f i hd op acts hk he ho hov
    rw [addBody mk p ck f i hd op acts hk]; unfold flowModAdd
    have he' : hasBit f OFPFF_EMERG = false := he
    have ho' : hasBit f OFPFF_CHECK_OVERLAP = true := ho
    rw [he', ho', hov]; rfl
  · intro mk p ck f i hd op acts hk he ho hfull
    rw [addBody mk p ck f i hd op acts hk]; unfold flowModAdd
    have he' : hasBit f OFPFF_EMERG = false := he
    have ho' : hasBit f OFPFF_CHECK_OVERLAP = false := ho
    rw [he', ho']
    simp only [Bool.false_eq_true, if_false, Bool.false_and]
    rw [if_pos hfull]; rfl
  · intro b ip a rest hl
    have e : rxMessage s (.packetOut x b true ip (a :: rest)) = processActions x (some ip) s (a :: rest) := rfl
    rw [e]; unfold processActions; rw [hl]; rfl
  · intro c mk p ck f i hd op b acts hc ⟨a, ha, hn⟩
    have e : rxMessage s (.flowMod x c mk p ck f i hd op b acts) = rxFlowMod s x c mk p ck f i hd op b acts := rfl
    have hb : badActions c acts = true := by
      unfold badActions
      have h1 : (c == OFPFC_ADD || c == OFPFC_MODIFY || c == OFPFC_MODIFY_STRICT) = true := by
        have : c = 0 ∨ c = 1 ∨ c = 2 := by omega
        rcases this with rfl | rfl | rfl <;> rfl
      have h2 : (acts.any fun a => (actionTable.lookup a.ty).isNone) = true :=
        List.any_eq_true.mpr ⟨a, ha, by rw [hn]; rfl⟩
      rw [h1, h2]; rfl
    rw [e]; unfold rxFlowMod; rw [hb]; rfl
  · intro c mk p ck f i hd op b acts hc hk hbig
    have e : rxMessage s (.flowMod x c mk p ck f i hd op b acts) = rxFlowMod s x c mk p ck f i hd op b acts := rfl
    have hb : tooManyActions c acts = true := by
      unfold tooManyActions
      have h1 : (c == OFPFC_ADD || c == OFPFC_MODIFY || c == OFPFC_MODIFY_STRICT) = true := by
        have : c = 0 ∨ c = 1 ∨ c = 2 := by omega
        rcases this with rfl | rfl | rfl <;> rfl
      have h2 : decide (88 + actsLenOf acts > partLimit) = true := by
        have : partLimit = 65523 := rfl
        simp only [decide_eq_true_eq]; omega
      rw [h1, h2]; rfl
    rw [e]; unfold rxFlowMod; rw [badActions_false hk, hb]; rfl
  · intro id ip acts hid
    have e : rxMessage s (.packetOut x (some id) false ip acts) = processFromBuffer x (some ip) s acts id := rfl
    rw [e]; unfold processFromBuffer
    by_cases h0 : id = 0
    · rw [if_pos h0]; rfl
    · rw [if_neg h0, dif_neg (by omega)]; rfl
  · intro id ip acts h0 hslot
    have e : rxMessage s (.packetOut x (some id) false ip acts) = processFromBuffer x (some ip) s acts id := rfl
    rw [e]; unfold processFromBuffer
    rw [if_neg h0]
    have hlt : id - 1 < s.buffers.length := by
      rcases Nat.lt_or_ge (id - 1) s.buffers.length with h | h
      · exact h
      · rw [List.getElem?_eq_none h] at hslot; cases hslot
    rw [dif_pos hlt]
    have hv : s.buffers[id - 1] = false := by
      rw [List.getElem?_eq_getElem hlt] at hslot; exact Option.some.inj hslot
    rw [hv]; rfl

/-- a state with one port, one stored flow and no buffered packet -/
def demoState : SwitchState :=
  { dpid := 1, maxBuffers := 2, maxEntries := 3, caps := 7, actionBits := 4095, missSendLen := 128, configFlags := 0,
    hasSentHello := true, ports := [{ no := 1, hw := 0x020000010001, config := 2, state := 0 }], portStats := [{ no := 1 }, { no := 9, txPackets := 4, txBytes := 240 }],
    table := [{ mkey := some 1, priority := 5, cookie := 77, flags := 1, outs := [2] }], lookupCount := 0, matchedCount := 0,
    buffers := [] }

/-! ## theorems over whole request histories -/

/-- a history of decodable messages of the 13 controller-to-switch types with action lists in the modelled vocabulary -/
def Admissible (ms : List Msg) : Prop := ∀ m ∈ ms, m.kind.isSome ∧ m.WF ∧ m.InScope

/-- what is written for one message of a history: only asynchronous notifications and messages carrying its xid; and
if it is a request (echo, features, get-config, barrier, statistics, queue-get-config) one complete answer: at least
one message, none asynchronous, all with its xid, REPLY_MORE on all parts but the last -/
def Answered (m : Msg) (g : List Reply) : Prop :=
  (∀ r ∈ g, Correlated m r) ∧ (IsRequest m → AnswerTo m.xid g)

/-- the groups written for a history correspond one-to-one, in order, to its messages, each being `Answered` -/
inductive AllAnswered : List Msg → List (List Reply) → Prop
  | nil : AllAnswered [] []
  | cons {m : Msg} {g : List Reply} {ms : List Msg} {gs : List (List Reply)} :
      Answered m g → AllAnswered ms gs → AllAnswered (m :: ms) (g :: gs)

/-- indexed reading of `AllAnswered`: as many groups as messages, and the i-th group answers the i-th message -/
theorem allAnswered_index {ms : List Msg} {gs : List (List Reply)} (h : AllAnswered ms gs) :
    gs.length = ms.length ∧ ∀ i (h1 : i < ms.length) (h2 : i < gs.length), Answered ms[i] gs[i] := by
  induction h with
  | nil => exact ⟨rfl, fun i h1 _ => absurd h1 (Nat.not_lt_zero i)⟩
  | cons ha _ ih =>
    refine ⟨by simp [ih.1], ?_⟩
    intro i h1 h2
    cases i with
    | zero => exact ha
    | succ j => exact ih.2 j (by simpa using h1) (by simpa using h2)

/-- only a flow_mod changes the flow table -/
theorem step_table {s s' : SwitchState} {m : Msg} {o : List Reply} (h : rxMessage s m = .ok (s', o)) :
    s'.table = s.table ∨ ∃ x c mk p ck f i hd op b acts, m = .flowMod x c mk p ck f i hd op b acts := by
  have same : ∀ {o'}, (Except.ok (s, o') : Res) = .ok (s', o) → s'.table = s.table := by
    intro o' e; injection e with e; injection e with e1 _; subst e1; rfl
  cases m with
  | hello x =>
    have e : rxMessage s (.hello x) = .ok (rxHello s) := rfl
    rw [e] at h; injection h with h
    have := rxHello_table s
    rw [h] at this; exact .inl this
  | echoRequest x b => exact .inl (same (o' := [.echoReply x b]) h)
  | echoReply x b => exact .inl (same (o' := []) h)
  | vendor x v => exact .inl (same (o' := [sendError x Generated.SwitchDispatch.OFPET_BAD_REQUEST Generated.SwitchDispatch.OFPBRC_BAD_VENDOR]) h)
  | featuresRequest x => exact .inl (same (o' := [.featuresReply x s.dpid s.maxBuffers 1 s.caps s.actionBits s.ports]) h)
  | getConfigRequest x => exact .inl (same (o' := [.getConfigReply x s.configFlags s.missSendLen]) h)
  | barrierRequest x => exact .inl (same (o' := [.barrierReply x]) h)
  | setConfig x f l =>
    have e : rxMessage s (.setConfig x f l) = .ok ({ s with missSendLen := l, configFlags := f }, []) := rfl
    rw [e] at h; injection h with h; injection h with h1 _; subst h1; exact .inl rfl
  | packetOut x b d ip acts =>
    have e : rxMessage s (.packetOut x b d ip acts) = rxPacketOut s x b d ip acts := rfl
    rw [e] at h; exact .inl (rxPacketOut_table h)
  | flowMod x c mk p ck f i hd op b acts => exact .inr ⟨x, c, mk, p, ck, f, i, hd, op, b, acts, rfl⟩
  | portMod x p hw c mk =>
    have e : rxMessage s (.portMod x p hw c mk) = .ok (rxPortMod s x p hw c mk) := rfl
    rw [e] at h; injection h with h
    have := rxPortMod_table s x p hw c mk
    rw [h] at this; exact .inl this
  | statsRequest x req =>
    have e : rxMessage s (.statsRequest x req) = rxStats s x req := rfl
    rw [e] at h; rw [rxStats_state h]; exact .inl rfl
  | queueGetConfigRequest x p =>
    have e : rxMessage s (.queueGetConfigRequest x p) =
        (if (!knownPort s p) = true then .ok (s, [sendError x Generated.SwitchDispatch.OFPET_QUEUE_OP_FAILED Generated.SwitchDispatch.OFPQOFC_BAD_PORT])
         else .ok (s, [.queueGetConfigReply x p])) := rfl
    rw [e] at h
    split at h
    · exact .inl (same h)
    · exact .inl (same h)
  | unhandled ty x =>
    exfalso
    unfold rxMessage at h
    cases hl : rxTable.lookup (Msg.unhandled ty x).ofpType with
    | none => rw [hl] at h; cases h
    | some k => rw [hl] at h; cases k <;> cases h

/-- every reachable table can be reported: the invariant `FlowsFit` survives EVERY message (a flow_mod whose flow would
not fit is refused, repair C13-5) -/
theorem step_fit {s s' : SwitchState} {m : Msg} {o : List Reply} (h : rxMessage s m = .ok (s', o))
    (hs : FlowsFit s) : FlowsFit s' := by
  rcases step_table h with ht | ⟨x, c, mk, p, ck, f, i, hd, op, b, acts, rfl⟩
  · intro e he; rw [ht] at he; exact hs e he
  · have e : rxMessage s (.flowMod x c mk p ck f i hd op b acts) = rxFlowMod s x c mk p ck f i hd op b acts := rfl
    rw [e] at h
    exact rxFlowMod_fit hs h

/-- **history_answered_partial**: for every state (whose flows can be reported) and every admissible request history
of any length, handling never fails and the groups written correspond one-to-one and in order to the messages: every
request of the history gets exactly one complete answer with its own xid, whatever came before it; nothing else but
asynchronous notifications and errors with the offending message's xid is written.  (`_partial`: `Admissible` confines
action lists to the modelled vocabulary, see `never_fails_full`.) -/
theorem history_answered_partial (s : SwitchState) (ms : List Msg) (h : Admissible ms) (hfit : FlowsFit s) :
    ∃ s' gs, run s ms = .ok (s', gs) ∧ AllAnswered ms gs ∧ FlowsFit s' := by
  induction ms generalizing s with
  | nil => exact ⟨s, [], rfl, .nil, hfit⟩
  | cons m ms ih =>
    obtain ⟨hk, hwf, hsc⟩ := h m List.mem_cons_self
    obtain ⟨s1, o, e1, c1⟩ := handled_partial s m hk hwf hsc hfit
    obtain ⟨s2, gs, e2, f2, fit2⟩ := ih s1 (fun m' hm' => h m' (List.mem_cons_of_mem _ hm')) (step_fit e1 hfit)
    refine ⟨s2, o :: gs, ?_, .cons ⟨c1, ?_⟩ f2, fit2⟩
    · simp only [run, e1, e2]
    · intro hr
      obtain ⟨g, h1, h2, _⟩ := one_reply s m hr hwf hfit
      rw [h1] at e1
      injection e1 with e1; injection e1 with _ e1
      rw [← e1]; exact h2

/-- **barrier in a history**: wherever a barrier request stands in an admissible history, its reply is written after the
complete answers to everything before it (each earlier request answered once, with its xid) and before anything written
for what follows. -/
theorem history_barrier (s : SwitchState) (before after : List Msg) (x : Nat) (hb : Admissible before) (ha : Admissible after)
    (hfit : FlowsFit s) :
    ∃ s' g1 g2, run s (before ++ .barrierRequest x :: after) = .ok (s', g1 ++ [.barrierReply x] :: g2) ∧
      AllAnswered before g1 ∧ AllAnswered after g2 ∧
      stream (g1 ++ [.barrierReply x] :: g2) = stream g1 ++ .barrierReply x :: stream g2 := by
  obtain ⟨s1, g1, e1, f1, fit1⟩ := history_answered_partial s before hb hfit
  obtain ⟨s2, g2, e2, f2, _⟩ := history_answered_partial s1 after ha fit1
  refine ⟨s2, g1, g2, ?_, f1, f2, by simp [stream]⟩
  rw [barrier_after s s1 before after g1 x e1, e2]

/-- what one message can change: nothing but the flow table and the packet buffers, except for set_config (the two
configuration fields), the first hello (the hello flag) and port_mod (config/state bits of ports) -/
theorem step_cases {s s' : SwitchState} {m : Msg} {o : List Reply} (h : rxMessage s m = .ok (s', o)) :
    fixedOf s' = fixedOf s ∨
    (∃ x f l, m = .setConfig x f l ∧ s' = { s with missSendLen := l, configFlags := f }) ∨
    (∃ x, m = .hello x ∧ s' = (rxHello s).1) ∨
    (∃ x p hw c mk, m = .portMod x p hw c mk ∧ s' = (rxPortMod s x p hw c mk).1) := by
  have same : ∀ {o'}, (Except.ok (s, o') : Res) = .ok (s', o) → fixedOf s' = fixedOf s := by
    intro o' e; injection e with e; injection e with e1 _; subst e1; rfl
  cases m with
  | hello x =>
    have e : rxMessage s (.hello x) = .ok (rxHello s) := rfl
    rw [e] at h; injection h with h
    exact .inr (.inr (.inl ⟨x, rfl, by rw [h]⟩))
  | echoRequest x b => exact .inl (same (o' := [.echoReply x b]) h)
  | echoReply x b => exact .inl (same (o' := []) h)
  | vendor x v => exact .inl (same (o' := [sendError x Generated.SwitchDispatch.OFPET_BAD_REQUEST Generated.SwitchDispatch.OFPBRC_BAD_VENDOR]) h)
  | featuresRequest x => exact .inl (same (o' := [.featuresReply x s.dpid s.maxBuffers 1 s.caps s.actionBits s.ports]) h)
  | getConfigRequest x => exact .inl (same (o' := [.getConfigReply x s.configFlags s.missSendLen]) h)
  | barrierRequest x => exact .inl (same (o' := [.barrierReply x]) h)
  | setConfig x f l =>
    have e : rxMessage s (.setConfig x f l) = .ok ({ s with missSendLen := l, configFlags := f }, []) := rfl
    rw [e] at h; injection h with h; injection h with h1 _
    exact .inr (.inl ⟨x, f, l, rfl, h1.symm⟩)
  | packetOut x b d ip acts =>
    have e : rxMessage s (.packetOut x b d ip acts) = rxPacketOut s x b d ip acts := rfl
    rw [e] at h; exact .inl (rxPacketOut_fixed h)
  | flowMod x c mk p ck f i hd op b acts =>
    have e : rxMessage s (.flowMod x c mk p ck f i hd op b acts) = rxFlowMod s x c mk p ck f i hd op b acts := rfl
    rw [e] at h; exact .inl (rxFlowMod_fixed h)
  | portMod x p hw c mk =>
    have e : rxMessage s (.portMod x p hw c mk) = .ok (rxPortMod s x p hw c mk) := rfl
    rw [e] at h; injection h with h
    exact .inr (.inr (.inr ⟨x, p, hw, c, mk, rfl, by rw [h]⟩))
  | statsRequest x req =>
    have e : rxMessage s (.statsRequest x req) = rxStats s x req := rfl
    rw [e] at h; rw [rxStats_state h]; exact .inl rfl
  | queueGetConfigRequest x p =>
    have e : rxMessage s (.queueGetConfigRequest x p) =
        (if (!knownPort s p) = true then .ok (s, [sendError x Generated.SwitchDispatch.OFPET_QUEUE_OP_FAILED Generated.SwitchDispatch.OFPQOFC_BAD_PORT])
         else .ok (s, [.queueGetConfigReply x p])) := rfl
    rw [e] at h
    split at h
    · exact .inl (same h)
    · exact .inl (same h)
  | unhandled ty x =>
    exfalso
    unfold rxMessage at h
    cases hl : rxTable.lookup (Msg.unhandled ty x).ofpType with
    | none => rw [hl] at h; cases h
    | some k => rw [hl] at h; cases k <;> cases h

/-- the identity of the switch: datapath id, capacities, capability/action bits, statistics ports, and the ports'
numbers and hardware addresses in order -/
def Ident (s s' : SwitchState) : Prop :=
  s'.dpid = s.dpid ∧ s'.maxBuffers = s.maxBuffers ∧ s'.maxEntries = s.maxEntries ∧ s'.caps = s.caps ∧
  s'.actionBits = s.actionBits ∧ s'.portStats = s.portStats ∧ portKeys s' = portKeys s

theorem step_ident {s s' : SwitchState} {m : Msg} {o : List Reply} (hu : PortsUnique s) (h : rxMessage s m = .ok (s', o)) :
    Ident s s' ∧ PortsUnique s' := by
  have fromKeys : portKeys s' = portKeys s → PortsUnique s' := by
    intro hk
    have : s'.ports.map (·.no) = s.ports.map (·.no) := by
      have := congrArg (List.map Prod.fst) hk
      simp only [portKeys, List.map_map] at this
      exact this
    unfold PortsUnique; rw [this]; exact hu
  rcases step_cases h with hf | ⟨x, f, l, _, rfl⟩ | ⟨x, _, rfl⟩ | ⟨x, p, hw, c, mk, _, rfl⟩
  · have hp : s'.ports = s.ports := congrArg Fixed.ports hf
    have hk : portKeys s' = portKeys s := by simp only [portKeys, hp]
    exact ⟨⟨congrArg Fixed.dpid hf, congrArg Fixed.maxBuffers hf, congrArg Fixed.maxEntries hf, congrArg Fixed.caps hf,
            congrArg Fixed.actionBits hf, congrArg Fixed.portStats hf, hk⟩, fromKeys hk⟩
  · exact ⟨⟨rfl, rfl, rfl, rfl, rfl, rfl, rfl⟩, hu⟩
  · have : (rxHello s).1 = s ∨ (rxHello s).1 = { s with hasSentHello := true } := by
      unfold rxHello; split
      · exact .inl rfl
      · exact .inr rfl
    rcases this with e | e <;> rw [e] <;> exact ⟨⟨rfl, rfl, rfl, rfl, rfl, rfl, rfl⟩, hu⟩
  · obtain ⟨hk, hf, _, _⟩ := rxPortMod_frame s x p hw c mk hu
    exact ⟨⟨congrArg Fixed.dpid hf, congrArg Fixed.maxBuffers hf, congrArg Fixed.maxEntries hf, congrArg Fixed.caps hf,
            congrArg Fixed.actionBits hf, congrArg Fixed.portStats hf, hk⟩, fromKeys hk⟩

/-- **history_ident**: no request history changes the identity of the switch. -/
theorem history_ident (s s' : SwitchState) (ms : List Msg) (gs : List (List Reply)) (hu : PortsUnique s)
    (h : run s ms = .ok (s', gs)) : Ident s s' ∧ PortsUnique s' := by
  induction ms generalizing s gs with
  | nil =>
    simp only [run] at h; injection h with h; injection h with h1 _; subst h1
    exact ⟨⟨rfl, rfl, rfl, rfl, rfl, rfl, rfl⟩, hu⟩
  | cons m ms ih =>
    simp only [run] at h
    cases hm : rxMessage s m with
    | error e => rw [hm] at h; cases h
    | ok r =>
      obtain ⟨s1, o⟩ := r
      rw [hm] at h; simp only at h
      cases hr : run s1 ms with
      | error e => rw [hr] at h; cases h
      | ok r2 =>
        obtain ⟨s2, g⟩ := r2
        rw [hr] at h; simp only at h
        injection h with h; injection h with h1 _; subst h1
        obtain ⟨i1, u1⟩ := step_ident hu hm
        obtain ⟨i2, u2⟩ := ih s1 g u1 hr
        obtain ⟨a1, a2, a3, a4, a5, a6, a7⟩ := i1
        obtain ⟨b1, b2, b3, b4, b5, b6, b7⟩ := i2
        exact ⟨⟨b1.trans a1, b2.trans a2, b3.trans a3, b4.trans a4, b5.trans a5, b6.trans a6, b7.trans a7⟩, u2⟩

/-- **features after any history**: a features request at the end of any request history is answered with the datapath
id, the buffer count (C18's `max`), one table, the capability and action bits of the initial switch, and a port list
with the initial ports' numbers and hardware addresses in the initial order (only config/state bits may differ). -/
theorem features_after_history (s s' : SwitchState) (ms : List Msg) (gs : List (List Reply)) (x : Nat) (hu : PortsUnique s)
    (h : run s ms = .ok (s', gs)) :
    ∃ ports, rxMessage s' (.featuresRequest x) = .ok (s', [.featuresReply x s.dpid s.maxBuffers 1 s.caps s.actionBits ports]) ∧
      ports.map (fun p => (p.no, p.hw)) = s.ports.map (fun p => (p.no, p.hw)) := by
  obtain ⟨⟨h1, h2, _, h4, h5, _, h7⟩, _⟩ := history_ident s s' ms gs hu h
  refine ⟨s'.ports, ?_, h7⟩
  have e : rxMessage s' (.featuresRequest x) = .ok (s', [.featuresReply x s'.dpid s'.maxBuffers 1 s'.caps s'.actionBits s'.ports]) := rfl
  rw [e, h1, h2, h4, h5]

/-- the configuration in force after a history: the last set_config, else the initial one -/
def lastConfig : Nat × Nat → List Msg → Nat × Nat
  | c, [] => c
  | _, .setConfig _ f l :: ms => lastConfig (f, l) ms
  | c, _ :: ms => lastConfig c ms

theorem step_config {s s' : SwitchState} {m : Msg} {o : List Reply} (h : rxMessage s m = .ok (s', o)) :
    (s'.configFlags, s'.missSendLen) = lastConfig (s.configFlags, s.missSendLen) [m] := by
  rcases step_cases h with hf | ⟨x, f, l, rfl, rfl⟩ | ⟨x, rfl, rfl⟩ | ⟨x, p, hw, c, mk, rfl, rfl⟩
  · have e1 := congrArg Fixed.configFlags hf
    have e2 := congrArg Fixed.missSendLen hf
    have e1' : s'.configFlags = s.configFlags := e1
    have e2' : s'.missSendLen = s.missSendLen := e2
    rw [e1', e2']
    cases m with
    | setConfig x f l =>
      have e : rxMessage s (.setConfig x f l) = .ok ({ s with missSendLen := l, configFlags := f }, []) := rfl
      rw [e] at h; injection h with h; injection h with h1 _; subst h1
      simp only [lastConfig] at *
      rw [← e1', ← e2']
    | _ => rfl
  · rfl
  · have : (rxHello s).1 = s ∨ (rxHello s).1 = { s with hasSentHello := true } := by
      unfold rxHello; split
      · exact .inl rfl
      · exact .inr rfl
    rcases this with e | e <;> rw [e] <;> rfl
  · obtain ⟨h1, h2⟩ := rxPortMod_cfg s x p hw c mk
    rw [h1, h2]; rfl

/-- **get-config after any history**: the reply reports exactly the last set_config of the history (or the initial
configuration when there was none), however many other messages came in between. -/
theorem config_after_history (s s' : SwitchState) (ms : List Msg) (gs : List (List Reply)) (y : Nat)
    (h : run s ms = .ok (s', gs)) :
    rxMessage s' (.getConfigRequest y) =
      .ok (s', [.getConfigReply y (lastConfig (s.configFlags, s.missSendLen) ms).1 (lastConfig (s.configFlags, s.missSendLen) ms).2]) := by
  have key : (s'.configFlags, s'.missSendLen) = lastConfig (s.configFlags, s.missSendLen) ms := by
    induction ms generalizing s gs with
    | nil => simp only [run] at h; injection h with h; injection h with h1 _; subst h1; rfl
    | cons m ms ih =>
      simp only [run] at h
      cases hm : rxMessage s m with
      | error e => rw [hm] at h; cases h
      | ok r =>
        obtain ⟨s1, o⟩ := r
        rw [hm] at h; simp only at h
        cases hr : run s1 ms with
        | error e => rw [hr] at h; cases h
        | ok r2 =>
          obtain ⟨s2, g⟩ := r2
          rw [hr] at h; simp only at h
          injection h with h; injection h with h1 _; subst h1
          have h1 := step_config hm
          have h2 := ih s1 g hr
          rw [h2]
          have : lastConfig (s.configFlags, s.missSendLen) (m :: ms) = lastConfig (lastConfig (s.configFlags, s.missSendLen) [m]) ms := by
            cases m <;> rfl
          rw [this, ← h1]
  have e : rxMessage s' (.getConfigRequest y) = .ok (s', [.getConfigReply y s'.configFlags s'.missSendLen]) := rfl
  rw [e]
  have k1 := congrArg Prod.fst key
  have k2 := congrArg Prod.snd key
  simp only at k1 k2
  rw [k1, k2]

/-! ## connection-level rejections and data-plane steps between the requests -/

/-- a history of controller messages only is the `run` above -/
theorem runEv_msgs (s : SwitchState) (ms : List Msg) : runEv s (ms.map .msg) = run s ms := by
  induction ms generalizing s with
  | nil => rfl
  | cons m ms ih =>
    simp only [List.map_cons, runEv, run, stepEv]
    cases rxMessage s m with
    | error e => rfl
    | ok r => obtain ⟨s1, o⟩ := r; simp only [ih]

/-- a message `OFConnection.read` rejects itself (unknown type: code 1 = BAD_TYPE, undecodable or ill-sized body:
code 6 = BAD_LEN) is answered with exactly one BAD_REQUEST error carrying ITS xid, and changes nothing -/
theorem rejected_answered (s : SwitchState) (x c : Nat) : stepEv s (.rejected x c) = .ok (s, [.error x 1 c]) := rfl

theorem applyFlowCtrs_fit (t : List Flow) (cs : List (Nat × Nat)) (h : ∀ f ∈ t, flowEntryLen f ≤ partLimit) :
    ∀ f ∈ applyFlowCtrs t cs, flowEntryLen f ≤ partLimit := by
  induction t generalizing cs with
  | nil => intro f hf; cases cs <;> simp [applyFlowCtrs] at hf
  | cons a r ih =>
    cases cs with
    | nil => intro f hf; exact h f (by simpa [applyFlowCtrs] using hf)
    | cons c cs' =>
      obtain ⟨p, b⟩ := c
      intro f hf
      simp only [applyFlowCtrs, List.mem_cons] at hf
      rcases hf with rfl | hf
      · exact h a List.mem_cons_self
      · exact ih cs' (fun g hg => h g (List.mem_cons_of_mem _ hg)) f hf

theorem applyFlowCtrs_outs (t : List Flow) (cs : List (Nat × Nat)) (h : ∀ f ∈ t, Generated.SwitchDispatch.OFPP_TABLE ∉ f.outs) :
    ∀ f ∈ applyFlowCtrs t cs, Generated.SwitchDispatch.OFPP_TABLE ∉ f.outs := by
  induction t generalizing cs with
  | nil => intro f hf; cases cs <;> simp [applyFlowCtrs] at hf
  | cons a r ih =>
    cases cs with
    | nil => intro f hf; exact h f (by simpa [applyFlowCtrs] using hf)
    | cons c cs' =>
      obtain ⟨p, b⟩ := c
      intro f hf
      simp only [applyFlowCtrs, List.mem_cons] at hf
      rcases hf with rfl | hf
      · exact h a List.mem_cons_self
      · exact ih cs' (fun g hg => h g (List.mem_cons_of_mem _ hg)) f hf

/-- no message in the modelled vocabulary installs an entry that re-submits to the table -/
theorem step_noresubmit {s s' : SwitchState} {m : Msg} {o : List Reply} (h : rxMessage s m = .ok (s', o))
    (hsc : m.InScope) (hs : NoResubmit s) : NoResubmit s' := by
  rcases step_table h with ht | ⟨x, c, mk, p, ck, f, i, hd, op, b, acts, rfl⟩
  · intro e he; rw [ht] at he; exact hs e he
  · have e : rxMessage s (.flowMod x c mk p ck f i hd op b acts) = rxFlowMod s x c mk p ck f i hd op b acts := rfl
    rw [e] at h
    exact rxFlowMod_noresubmit hs hsc h

/-- what is written for one event of a mixed history -/
def EvAnswered : Event → List Reply → Prop
  | .msg m, g => Answered m g
  | .rejected x c, g => g = [.error x 1 c]
  | .badVersion x st, g => g = if st then [.error x 0 0] else []
  | .traffic _, g => g = []
  | .rx _ _, g => ∀ r ∈ g, r.isAsync = true

inductive AllEvAnswered : List Event → List (List Reply) → Prop
  | nil : AllEvAnswered [] []
  | cons {e : Event} {g : List Reply} {es : List Event} {gs : List (List Reply)} :
      EvAnswered e g → AllEvAnswered es gs → AllEvAnswered (e :: es) (g :: gs)

def EvAdmissible (es : List Event) : Prop := ∀ m, Event.msg m ∈ es → m.kind.isSome ∧ m.WF ∧ m.InScope

/-- **history_events_partial**: the same over histories in which the requests are interleaved with data-plane traffic
(which moves the counters the statistics replies report) and with messages the connection rejects: every request still
gets exactly one complete answer with its xid — computed from the state at that moment, traffic included (`one_reply`
holds in every state) —, every rejected message exactly one error with ITS xid, traffic writes nothing but asynchronous
notifications (the packet_in of a table miss or of an entry that outputs to the controller).  `NoResubmit`: no entry of
the initial table re-submits to the table; in-scope messages keep it that way (`step_noresubmit`). -/
theorem history_events_partial (s : SwitchState) (es : List Event) (h : EvAdmissible es) (hfit : FlowsFit s) (hnr : NoResubmit s) :
    ∃ s' gs, runEv s es = .ok (s', gs) ∧ AllEvAnswered es gs := by
  induction es generalizing s with
  | nil => exact ⟨s, [], rfl, .nil⟩
  | cons e es ih =>
    have hrest : EvAdmissible es := fun m hm => h m (List.mem_cons_of_mem _ hm)
    cases e with
    | msg m =>
      obtain ⟨hk, hwf, hsc⟩ := h m List.mem_cons_self
      obtain ⟨s1, o, e1, c1⟩ := handled_partial s m hk hwf hsc hfit
      obtain ⟨s2, gs, e2, f2⟩ := ih s1 hrest (step_fit e1 hfit) (step_noresubmit e1 hsc hnr)
      refine ⟨s2, o :: gs, ?_, .cons ⟨c1, ?_⟩ f2⟩
      · simp only [runEv, stepEv, e1, e2]
      · intro hr
        obtain ⟨g, h1, h2, _⟩ := one_reply s m hr hwf hfit
        rw [h1] at e1
        injection e1 with e1; injection e1 with _ e1
        rw [← e1]; exact h2
    | rejected x c =>
      obtain ⟨s2, gs, e2, f2⟩ := ih s hrest hfit hnr
      exact ⟨s2, _ :: gs, by simp only [runEv, stepEv, e2]; rfl, .cons rfl f2⟩
    | badVersion x st =>
      obtain ⟨s2, gs, e2, f2⟩ := ih s hrest hfit hnr
      exact ⟨s2, _ :: gs, by simp only [runEv, stepEv, e2]; rfl, .cons rfl f2⟩
    | traffic n =>
      have hf : FlowsFit (applySnapshot s n) := applyFlowCtrs_fit s.table n.flows hfit
      have hn : NoResubmit (applySnapshot s n) := applyFlowCtrs_outs s.table n.flows hnr
      obtain ⟨s2, gs, e2, f2⟩ := ih (applySnapshot s n) hrest hf hn
      exact ⟨s2, [] :: gs, by simp only [runEv, stepEv, e2], .cons rfl f2⟩
    | rx p n =>
      obtain ⟨s1, o, e1, a1⟩ := rxPacket_ok s hnr p
      have ht := rxPacket_table e1
      have hf : FlowsFit (applySnapshot s1 n) := by
        apply applyFlowCtrs_fit s1.table n.flows; intro f hf; rw [ht] at hf; exact hfit f hf
      have hn : NoResubmit (applySnapshot s1 n) := by
        apply applyFlowCtrs_outs s1.table n.flows; intro f hf; rw [ht] at hf; exact hnr f hf
      obtain ⟨s2, gs, e2, f2⟩ := ih (applySnapshot s1 n) hrest hf hn
      exact ⟨s2, o :: gs, by simp only [runEv, stepEv, e1, e2], .cons a1 f2⟩

/-! ## the table counters (OFPST_TABLE): `lookup_count` = packets looked up in the table, `matched_count` = packets that
hit an entry — whichever way the packet reached the table -/

/-- **table_counters_packet_out**: a packet_out moves `lookup_count` by exactly the number of `output:TABLE` actions it
carries out (those in front of the first action type without handler, `submits`; none when it names a buffer that holds
no packet) and `matched_count` by the same number when some entry matches the packet's in_port, by nothing otherwise. -/
theorem table_counters_packet_out {s s' : SwitchState} {x : Nat} {b : Option Nat} {d : Bool} {p : Nat} {acts : List Act}
    {o : List Reply} (h : rxMessage s (.packetOut x b d p acts) = .ok (s', o)) :
    s'.lookupCount = s.lookupCount + (if executes s b d = true then submits acts else 0) ∧
    s'.matchedCount = s.matchedCount + (if executes s b d = true ∧ s.table.any (hitsPort p) = true then submits acts else 0) := by
  have e : rxMessage s (.packetOut x b d p acts) = rxPacketOut s x b d p acts := rfl
  rw [e] at h
  exact rxPacketOut_ctr h

/-- **table_counters_other**: no other controller message moves the two counters (a flow_mod that names a buffer applies
ITS actions to the stored packet — that is no table lookup). -/
theorem table_counters_other {s s' : SwitchState} {m : Msg} {o : List Reply} (h : rxMessage s m = .ok (s', o))
    (hm : ∀ x b d p acts, m ≠ .packetOut x b d p acts) : s'.lookupCount = s.lookupCount ∧ s'.matchedCount = s.matchedCount := by
  have same : ∀ {o'}, (Except.ok (s, o') : Res) = .ok (s', o) → CtrSame s s' := by
    intro o' e; injection e with e; injection e with e1 _; subst e1; exact ⟨rfl, rfl⟩
  cases m with
  | hello x =>
    have e : rxMessage s (.hello x) = .ok (rxHello s) := rfl
    rw [e] at h; injection h with h
    have := rxHello_ctr s
    rw [h] at this; exact this
  | echoRequest x b => exact same (o' := [.echoReply x b]) h
  | echoReply x b => exact same (o' := []) h
  | vendor x v => exact same (o' := [sendError x Generated.SwitchDispatch.OFPET_BAD_REQUEST Generated.SwitchDispatch.OFPBRC_BAD_VENDOR]) h
  | featuresRequest x => exact same (o' := [.featuresReply x s.dpid s.maxBuffers 1 s.caps s.actionBits s.ports]) h
  | getConfigRequest x => exact same (o' := [.getConfigReply x s.configFlags s.missSendLen]) h
  | barrierRequest x => exact same (o' := [.barrierReply x]) h
  | setConfig x f l =>
    have e : rxMessage s (.setConfig x f l) = .ok ({ s with missSendLen := l, configFlags := f }, []) := rfl
    rw [e] at h; injection h with h; injection h with h1 _; subst h1; exact ⟨rfl, rfl⟩
  | packetOut x b d p acts => exact absurd rfl (hm x b d p acts)
  | flowMod x c mk p ck f i hd op b acts =>
    have e : rxMessage s (.flowMod x c mk p ck f i hd op b acts) = rxFlowMod s x c mk p ck f i hd op b acts := rfl
    rw [e] at h; exact rxFlowMod_ctr h
  | portMod x p hw c mk =>
    have e : rxMessage s (.portMod x p hw c mk) = .ok (rxPortMod s x p hw c mk) := rfl
    rw [e] at h; injection h with h
    have := rxPortMod_ctr s x p hw c mk
    rw [h] at this; exact this
  | statsRequest x req =>
    have e : rxMessage s (.statsRequest x req) = rxStats s x req := rfl
    rw [e] at h; rw [rxStats_state h]; exact ⟨rfl, rfl⟩
  | queueGetConfigRequest x p =>
    have e : rxMessage s (.queueGetConfigRequest x p) =
        (if (!knownPort s p) = true then .ok (s, [sendError x Generated.SwitchDispatch.OFPET_QUEUE_OP_FAILED Generated.SwitchDispatch.OFPQOFC_BAD_PORT])
         else .ok (s, [.queueGetConfigReply x p])) := rfl
    rw [e] at h
    split at h
    · exact same h
    · exact same h
  | unhandled ty x =>
    exfalso
    unfold rxMessage at h
    cases hl : rxTable.lookup (Msg.unhandled ty x).ofpType with
    | none => rw [hl] at h; cases h
    | some k => rw [hl] at h; cases k <;> cases h

/-- **table_counters_rx**: a frame from the data plane is looked up exactly once — unless the switch has no such port or
the port does not receive (OFPPC_NO_RECV), then not at all — and counted as matched exactly when an entry matches its
in_port. -/
theorem table_counters_rx {s s' : SwitchState} {p : Nat} {n : Snapshot} {o : List Reply} (h : stepEv s (.rx p n) = .ok (s', o)) :
    (s'.lookupCount = s.lookupCount ∧ s'.matchedCount = s.matchedCount ∧
      (s.ports.find? (·.no == p) = none ∨ ∃ q, s.ports.find? (·.no == p) = some q ∧ hasBit q.config 4 = true)) ∨
    (s'.lookupCount = s.lookupCount + 1 ∧ s'.matchedCount = s.matchedCount + (if s.table.any (hitsPort p) = true then 1 else 0) ∧
      ∃ q, s.ports.find? (·.no == p) = some q ∧ hasBit q.config 4 = false) := by
  simp only [stepEv] at h
  cases hr : rxPacket s p with
  | error e => rw [hr] at h; cases h
  | ok r =>
    obtain ⟨s1, o1⟩ := r
    rw [hr] at h; simp only at h
    injection h with h; injection h with h1 _; subst h1
    unfold rxPacket at hr
    cases hf : s.ports.find? (·.no == p) with
    | none =>
      rw [hf] at hr; simp only at hr
      injection hr with hr; injection hr with h1 _; subst h1
      exact .inl ⟨rfl, rfl, .inl rfl⟩
    | some q =>
      rw [hf] at hr; simp only at hr
      by_cases hb : hasBit q.config Generated.SwitchDispatch.OFPPC_NO_RECV = true
      · rw [if_pos hb] at hr
        injection hr with hr; injection hr with h1 _; subst h1
        exact .inl ⟨rfl, rfl, .inr ⟨q, rfl, hb⟩⟩
      · rw [if_neg hb] at hr
        obtain ⟨a1, a2⟩ := lookupPacket_ctr hr
        refine .inr ⟨a1, a2, q, rfl, ?_⟩
        cases hh : hasBit q.config 4 with
        | false => rfl
        | true => exact absurd hh hb

/-- **matched_le_lookup**: whatever happens at the switch — controller messages of every kind, rejected messages, frames
from the data plane, counter snapshots — `matched_count` never exceeds `lookup_count`: no packet is counted as a hit
without being counted as looked up, whichever way it reached the table. -/
theorem matched_le_lookup {s s' : SwitchState} {e : Event} {o : List Reply} (h : stepEv s e = .ok (s', o))
    (hs : s.matchedCount ≤ s.lookupCount) : s'.matchedCount ≤ s'.lookupCount := by
  cases e with
  | msg m =>
    have h' : rxMessage s m = .ok (s', o) := h
    by_cases hp : ∃ x b d p acts, m = .packetOut x b d p acts
    · obtain ⟨x, b, d, p, acts, rfl⟩ := hp
      obtain ⟨a1, a2⟩ := table_counters_packet_out h'
      rw [a1, a2]
      by_cases he : executes s b d = true
      · rw [if_pos he]
        by_cases hh : s.table.any (hitsPort p) = true
        · rw [if_pos ⟨he, hh⟩]; omega
        · rw [if_neg (fun c => hh c.2)]; omega
      · rw [if_neg he, if_neg (fun c => he c.1)]; omega
    · obtain ⟨a1, a2⟩ := table_counters_other h' (fun x b d p acts hm => hp ⟨x, b, d, p, acts, hm⟩)
      rw [a1, a2]; exact hs
  | rejected x c =>
    simp only [stepEv] at h; injection h with h; injection h with h1 _; subst h1; exact hs
  | badVersion x st =>
    simp only [stepEv] at h; injection h with h; injection h with h1 _; subst h1; exact hs
  | traffic n =>
    simp only [stepEv] at h; injection h with h; injection h with h1 _; subst h1; exact hs
  | rx p n =>
    rcases table_counters_rx h with ⟨a1, a2, _⟩ | ⟨a1, a2, _⟩
    · rw [a1, a2]; exact hs
    · rw [a1, a2]; split <;> omega

/-- over a whole mixed history: starting from fresh counters (or any consistent ones), every OFPST_TABLE reply reports
`matched_count ≤ lookup_count` -/
theorem history_matched_le_lookup (s s' : SwitchState) (es : List Event) (gs : List (List Reply))
    (h : runEv s es = .ok (s', gs)) (hs : s.matchedCount ≤ s.lookupCount) : s'.matchedCount ≤ s'.lookupCount := by
  induction es generalizing s gs with
  | nil => simp only [runEv] at h; injection h with h; injection h with h1 _; subst h1; exact hs
  | cons e es ih =>
    simp only [runEv] at h
    cases he : stepEv s e with
    | error x => rw [he] at h; cases h
    | ok r =>
      obtain ⟨s1, o⟩ := r
      rw [he] at h; simp only at h
      cases hr : runEv s1 es with
      | error x => rw [hr] at h; cases h
      | ok r2 =>
        obtain ⟨s2, g⟩ := r2
        rw [hr] at h; simp only at h
        injection h with h; injection h with h1 _; subst h1
        exact ih s1 g hr (matched_le_lookup he hs)

/-! ## non-vacuity -/

example : IsRequest (.statsRequest 5 (.queue 9 3)) ∧ Msg.WF (.statsRequest 5 (.queue 9 3)) := ⟨trivial, trivial⟩
example : IsRequest (.statsRequest 5 (.other 0xffff)) ∧ Msg.WF (.statsRequest 5 (.other 0xffff)) := ⟨trivial, by show (6 : Nat) ≤ 65535; decide⟩
example : (Msg.flowMod 1 0 (some 1) 5 9 1 0 0 65535 none [⟨0, 2, 8⟩, ⟨1, 7, 8⟩]).InScope := by
  intro a ha; simp at ha; rcases ha with rfl | rfl <;> decide
/-- hypotheses of the flow-mod part of `silent_kinds` hold in `demoState` -/
example : demoState.table.length < demoState.maxEntries ∧ hasBit 1 Generated.SwitchDispatch.OFPFF_EMERG = false ∧
    hasBit 1 Generated.SwitchDispatch.OFPFF_CHECK_OVERLAP = false := by decide
/-- hypotheses of `errors_spec` are satisfiable: unknown port 9, known port 1 with another address, overlap -/
example : demoState.ports.find? (·.no == 9) = none ∧ knownPort demoState 9 = false ∧
    (∃ q, demoState.ports.find? (·.no == 1) = some q ∧ q.hw ≠ 5) ∧ checkOverlap 5 none demoState.table = true ∧
    demoState.maxEntries ≤ (tableForAdd 0 { demoState with maxEntries := 1 }.table none 5).length + 2 := by
  refine ⟨by decide, by decide, ⟨_, rfl, by decide⟩, by decide, by decide⟩
/-- the buffer hypotheses of `silent_kinds` / `errors_spec` are satisfiable: after a packet-in slot 1 is live, slot 2 flushed -/
example : bufferLive { demoState with buffers := [true, false] } 1 = true ∧
    ({ demoState with buffers := [true, false] } : SwitchState).buffers[2 - 1]? = some false := by decide
/-- the hypotheses of the history theorems hold for a concrete mixed history and state -/
example : Admissible [.hello 1, .echoRequest 2 [1, 2, 3], .flowMod 3 0 (some 1) 5 9 1 0 0 65535 (some 4) [⟨0, 65533, 8⟩],
    .statsRequest 4 (.other 65535), .portMod 5 1 7 1 1, .barrierRequest 6, .packetOut 7 (some 1) false 3 [⟨65535, 0, 16⟩]] ∧
    PortsUnique demoState ∧ FlowsFit demoState := by
  refine ⟨?_, by show ([1] : List Nat).Nodup; decide, by intro f hf; simp [demoState] at hf; subst hf; decide⟩
  intro m hm
  simp only [List.mem_cons, List.mem_nil_iff, or_false] at hm
  rcases hm with rfl | rfl | rfl | rfl | rfl | rfl | rfl
  · exact ⟨rfl, trivial, trivial⟩
  · exact ⟨rfl, trivial, trivial⟩
  · refine ⟨rfl, trivial, ?_⟩
    intro a ha; simp only [List.mem_singleton] at ha; subst ha; decide
  · exact ⟨rfl, by show (6 : Nat) ≤ 65535; decide, trivial⟩
  · exact ⟨rfl, trivial, trivial⟩
  · exact ⟨rfl, trivial, trivial⟩
  · refine ⟨rfl, trivial, ?_⟩
    intro a ha; simp only [List.mem_singleton] at ha; subst ha; decide
/-- a multipart reply: three flows of 30000 bytes each do not fit into one message — two parts, REPLY_MORE on the first -/
example : (rxMessage { demoState with table := [{ mkey := none, priority := 3, cookie := 1, flags := 0, outs := [], actsLen := 29912 },
                                              { mkey := none, priority := 2, cookie := 2, flags := 0, outs := [], actsLen := 29912, packets := 7, bytes := 420 },
                                              { mkey := some 4, priority := 1, cookie := 3, flags := 0, outs := [], actsLen := 29912 }] }
      (.statsRequest 9 (.flow none 255 65535))).map (·.2) =
    .ok ([.statsReply 9 1 true (.flows [{ mkey := none, priority := 3, cookie := 1, flags := 0, outs := [], actsLen := 29912 },
                                            { mkey := none, priority := 2, cookie := 2, flags := 0, outs := [], actsLen := 29912, packets := 7, bytes := 420 }]),
             .statsReply 9 1 false (.flows [{ mkey := some 4, priority := 1, cookie := 3, flags := 0, outs := [], actsLen := 29912 }])]) := by rfl
/-- a whole sequence: add a flow, read the table, barrier, delete with notification, read again -/
example : (run demoState
    [.flowMod 1 0 none 9 42 1 0 0 65535 none [⟨0, 3, 8⟩], .statsRequest 2 .table, .barrierRequest 3,
     .flowMod 4 3 none 0 0 0 0 0 65535 none [], .statsRequest 5 (.aggregate none 0 65535), .portMod 6 1 0x020000010001 1 1,
     .packetOut 7 none true 65535 [⟨0, 65533, 8⟩, ⟨65535, 0, 16⟩], .hello 8, .queueGetConfigRequest 9 4,
     .packetOut 10 (some 1) false 65535 [⟨0, 2, 8⟩], .packetOut 11 (some 1) false 65535 [], .packetOut 12 (some 5) false 65535 []]).map (·.2) =
    .ok [[], [.statsReply 2 3 false (.table 3 2 0 0)], [.barrierReply 3],
         [.flowRemoved { mkey := none, priority := 9, cookie := 42, flags := 1, outs := [3], actsLen := 8 } 2,
          .flowRemoved { mkey := some 1, priority := 5, cookie := 77, flags := 1, outs := [2] } 2],
         [.statsReply 5 2 false (.aggregate 0 0 0)], [.portStatus 2 { no := 1, hw := 0x020000010001, config := 3, state := 1 }],
         [.packetIn (some 1), .error 7 2 0], [], [.error 9 5 0], [], [.error 11 1 7], [.error 12 1 8]] := by rfl

/-- the table counters: two `output:TABLE` actions of a packet_out with in_port 1 hit the stored entry twice (nothing is
written: the entry outputs to port 2); with in_port 3 the packet misses and goes to the controller; an action type
without handler in front stops the processing before the table is reached -/
example : (rxMessage demoState (.packetOut 7 none true 1 [⟨0, 65529, 8⟩, ⟨3, 0, 8⟩, ⟨0, 65529, 8⟩])).map
    (fun r => (r.1.lookupCount, r.1.matchedCount, r.2)) = .ok (2, 2, []) := by rfl
example : (rxMessage demoState (.packetOut 7 none true 3 [⟨0, 65529, 8⟩])).map
    (fun r => (r.1.lookupCount, r.1.matchedCount, r.2)) = .ok (1, 0, [.packetIn (some 1)]) := by rfl
example : (rxMessage demoState (.packetOut 7 none true 1 [⟨65535, 0, 16⟩, ⟨0, 65529, 8⟩])).map
    (fun r => (r.1.lookupCount, r.1.matchedCount, r.2)) = .ok (0, 0, [.error 7 2 0]) := by rfl
example : submits [⟨0, 65529, 8⟩, ⟨3, 0, 8⟩, ⟨0, 65529, 8⟩] = 2 ∧ submits [⟨65535, 0, 16⟩, ⟨0, 65529, 8⟩] = 0 ∧
    executes demoState none true = true ∧ executes demoState (some 1) false = false ∧
    demoState.table.any (hitsPort 1) = true ∧ demoState.table.any (hitsPort 3) = false := by decide
/-- hypotheses of `history_events_partial` / `history_matched_le_lookup` hold in `demoState`; and a mixed history: a frame
on port 1 (hit), one on a port the switch does not have (not looked up), a packet_out through the table with in_port 3
(miss: packet_in), then the table statistics: 2 lookups, 1 hit -/
example : NoResubmit demoState ∧ demoState.matchedCount ≤ demoState.lookupCount := by
  refine ⟨?_, Nat.le_refl _⟩
  intro f hf; simp [demoState] at hf; subst hf; decide
example : (runEv demoState
    [.rx 1 { ports := [{ no := 1, rxPackets := 1, rxBytes := 60 }], flows := [(1, 60)], buffers := some [] },
     .rx 9 { ports := [{ no := 1, rxPackets := 1, rxBytes := 60 }], flows := [(1, 60)], buffers := some [] },
     .msg (.packetOut 3 none true 3 [⟨0, 65529, 8⟩]), .msg (.statsRequest 4 .table)]).map (·.2) =
    .ok [[], [], [.packetIn (some 1)], [.statsReply 4 3 false (.table 3 1 2 1)]] := by rfl

end Pox.C13
