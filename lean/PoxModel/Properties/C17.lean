import PoxModel.Proofs.PortView
import PoxModel.Proofs.StatsAgg
/-! # C17 — the controller's picture of switch ports and multipart statistics is exact

Model: `Model/PortView.lean` (`PortCollection`, `handle_FEATURES_REPLY`, `handle_PORT_STATUS`) and `Model/StatsAgg.lean`
(`_incoming_stats_reply`, `handle_OFPST_*`), both mirroring the code with the repairs D17 and D18 applied.
Specification: `Spec/PortStats.lean`.  Every theorem is over all histories (no bound on the number of ports, notifications,
parts, requests or on how they interleave).

Reading guide.
* `v0` is the state of the connection *before* the features reply — arbitrary, so the theorems also cover a features reply
  received on a connection that already has a history (it restarts the picture).
* A `PortCollection` and its chain is a list: `v.chain = [con.ports, con.original_ports]`, `v.origChain = [con.original_ports]`.
* `none` is `IndexError`. -/
namespace Pox.C17
open Pox.Spec17 Pox.PortView Pox.StatsAgg

/-! ## ports -/

/-- **ports_refine** — for every features reply `f` followed by any sequence `h` of add / modify / delete notifications:
lookup by number, `keys()` (hence iteration and `len`), membership and `values()`/`items()` of `con.ports` are those of the
abstract map "the reported ports with the notifications applied in order"; and `original_ports` still holds exactly the
features reply. -/
theorem ports_refine (v0 : View) (f : List Port) (h : List Notif) :
    let v := runNotifs (featuresReply v0 f) h
    let m := Spec17.fold f h
    (∀ k, getItemC v.chain (.no k) = m k) ∧
    (∀ k, k ∈ keysC v.chain ↔ (m k).isSome) ∧ (keysC v.chain).Nodup ∧ lenC v.chain = (keysC v.chain).length ∧
    (∀ k, containsC v.chain (.no k) = (m k).isSome) ∧
    (∃ vs, valuesC v.chain = some vs ∧ itemsC v.chain = some ((keysC v.chain).zip vs) ∧
        vs.map (fun p => p.no) = keysC v.chain ∧ vs.length = lenC v.chain ∧ ∀ p, p ∈ vs ↔ m p.no = some p) ∧
    v.orig.ports = f ∧
    (∀ k, getItemC v.origChain (.no k) = Spec17.init f k) ∧
    (∀ k, k ∈ keysC v.origChain ↔ (Spec17.init f k).isSome) := by
  intro v m
  have hr : Refines v m := refines_run _ _ h (refines_features v0 f)
  have horig : v.orig.ports = f := by
    show (runNotifs (featuresReply v0 f) h).orig.ports = f
    rw [runNotifs_orig]; rfl
  have hkeys : ∀ k, k ∈ keysC v.chain ↔ (m k).isSome := by
    intro k; rw [mem_keysC_iff, hr k]
  refine ⟨hr, hkeys, nodup_keysC _, rfl, ?_, ?_, horig, ?_, ?_⟩
  · intro k; simp only [containsC, getItemC]; rw [hr k]
  · obtain ⟨vs, h1, h2, h3⟩ := valuesC_spec v.chain
    refine ⟨vs, h1, by simp [itemsC, h1], h2, ?_, ?_⟩
    · rw [lenC, ← h2, List.length_map]
    · intro p; rw [h3, hr p.no]
  · intro k
    show getNoC [v.orig] k = _
    rw [getNoC_orig, horig]; rfl
  · intro k
    rw [mem_keysC_iff]
    show (getNoC [v.orig] k).isSome = true ↔ _
    rw [getNoC_orig, horig]; rfl

/-- **ports_by_attr** — the views by name and by hardware address: the lookup returns only ports of the current map that
carry that name / address, it fails (`IndexError`, membership `False`) exactly when the current map has no such port, and the
ports it may return under any iteration order of the underlying sets (`candidatesC`) are exactly the current ports carrying
the attribute. -/
theorem ports_by_attr (v0 : View) (f : List Port) (h : List Notif) (key : Key) :
    let v := runNotifs (featuresReply v0 f) h
    let m := Spec17.fold f h
    (∀ p, getItemC v.chain key = some p → m p.no = some p ∧ key.hits p = true) ∧
    (getItemC v.chain key = none ↔ ∀ k p, m k = some p → key.hits p = false) ∧
    (containsC v.chain key = true ↔ ∃ k p, m k = some p ∧ key.hits p = true) ∧
    (∃ cs, candidatesC v.chain key = some cs ∧ ∀ p, p ∈ cs ↔ (m p.no = some p ∧ key.hits p = true)) := by
  intro v m
  have hr : Refines v m := refines_run _ _ h (refines_features v0 f)
  have hkeyed : ∀ k p, m k = some p → p.no = k := fun k p hk => fold_keyed f h k p hk
  obtain ⟨vs, h1, _, h3⟩ := valuesC_spec v.chain
  have hvs : ∀ p, p ∈ vs ↔ m p.no = some p := by intro p; rw [h3, hr p.no]
  -- the three statements about `getItemC`, first for an index that goes through `values()`
  have viaValues : getItemC v.chain key = vs.find? key.hits ∨ ∃ k, key = .no k := by
    cases key with
    | no k => exact .inr ⟨k, rfl⟩
    | hw a => left; simp [getItemC, h1]
    | name s => left; simp [getItemC, h1]
  have hget_some : ∀ p, getItemC v.chain key = some p → m p.no = some p ∧ key.hits p = true := by
    intro p hp
    rcases viaValues with hv | ⟨k, rfl⟩
    · rw [hv] at hp
      exact ⟨(hvs p).mp (List.mem_of_find?_eq_some hp), List.find?_some hp⟩
    · have hk : m k = some p := by rw [← hr k]; exact hp
      have := hkeyed k p hk
      exact ⟨by rw [this]; exact hk, by simp [Key.hits, this]⟩
  have hget_none : getItemC v.chain key = none ↔ ∀ k p, m k = some p → key.hits p = false := by
    rcases viaValues with hv | ⟨k, rfl⟩
    · rw [hv, List.find?_eq_none]
      constructor
      · intro hall k p hk
        have hpk := hkeyed k p hk
        have : p ∈ vs := (hvs p).mpr (by rw [hpk]; exact hk)
        simpa using hall p this
      · intro hall p hp
        have := hall p.no p ((hvs p).mp hp)
        simp [this]
    · show getNoC v.chain k = none ↔ _
      rw [hr k]
      constructor
      · intro hn j p hj
        have hpj := hkeyed j p hj
        simp only [Key.hits, beq_eq_false_iff_ne, ne_eq]
        intro e; rw [hpj] at e; subst e; rw [hn] at hj; cases hj
      · intro hall
        cases hm : m k with
        | none => rfl
        | some p =>
          have := hall k p hm
          have hpk := hkeyed k p hm
          simp [Key.hits, hpk] at this
  refine ⟨hget_some, hget_none, ?_, ?_⟩
  · simp only [containsC]
    constructor
    · intro hs
      cases hg : getItemC v.chain key with
      | none => rw [hg] at hs; cases hs
      | some p => exact ⟨p.no, p, (hget_some p hg).1, (hget_some p hg).2⟩
    · rintro ⟨k, p, hk, hp⟩
      cases hg : getItemC v.chain key with
      | none => have := hget_none.mp hg k p hk; rw [this] at hp; cases hp
      | some q => rfl
  · refine ⟨vs.filter key.hits, by simp [candidatesC, h1], ?_⟩
    intro p
    rw [List.mem_filter, hvs p]

/-- **views_consistent** — in *any* state of a collection and its chain (reachable or not) the mapping interface is consistent
with itself: `len` is the number of keys, keys are listed once, a number is a key exactly when it is a member / `has_key` /
found by `[]`; `get` is `[]` with `IndexError` replaced by the default; `values()` and `items()` never raise, follow
`keys()` position by position and hold exactly the ports found under the keys; the lookups by name and address search exactly
`values()`. -/
theorem views_consistent (ch : List PC) :
    lenC ch = (keysC ch).length ∧ (keysC ch).Nodup ∧
    (∀ k, k ∈ keysC ch ↔ containsC ch (.no k) = true) ∧
    (∀ key, hasKeyC ch key = containsC ch key ∧ containsC ch key = (getItemC ch key).isSome) ∧
    (∀ key d, getC ch key d = (getItemC ch key).or d) ∧
    (∃ vs, valuesC ch = some vs ∧ vs.length = lenC ch ∧ vs.map (fun p => p.no) = keysC ch ∧
        itemsC ch = some ((keysC ch).zip vs) ∧
        (∀ p, p ∈ vs ↔ getItemC ch (.no p.no) = some p) ∧
        (∀ a, getItemC ch (.hw a) = vs.find? (Key.hw a).hits) ∧
        (∀ n, getItemC ch (.name n) = vs.find? (Key.name n).hits)) := by
  refine ⟨rfl, nodup_keysC ch, ?_, fun key => ⟨rfl, rfl⟩, ?_, ?_⟩
  · intro k; rw [mem_keysC_iff]; rfl
  · intro key d; unfold getC; cases getItemC ch key <;> rfl
  · obtain ⟨vs, h1, h2, h3⟩ := valuesC_spec ch
    refine ⟨vs, h1, by rw [lenC, ← h2, List.length_map], h2, by simp [itemsC, h1], h3, ?_, ?_⟩
    · intro a; simp [getItemC, h1]
    · intro n; simp [getItemC, h1]

/-- **copy_same_view** — `copy()` (with its `return`) never raises and yields a collection without masks and chain that
answers every lookup by number, and lists the same keys, as the collection it was taken from. -/
theorem copy_same_view (ch : List PC) :
    ∃ c, copyC ch = some c ∧ c.masks = [] ∧ (∀ k, getItemC [c] (.no k) = getItemC ch (.no k)) ∧
      (∀ k, k ∈ keysC [c] ↔ k ∈ keysC ch) := copyC_spec ch

/-- **status_unknown_reason** — `handle_PORT_STATUS` tests only for `OFPPR_DELETE`: every other reason value, defined (ADD 0,
MODIFY 2) or not (3..255), stores the carried description like a MODIFY. -/
theorem status_unknown_reason (v : View) (r : Nat) (p : Port) (hr : r ≠ 1) :
    portStatus v r p = portStatus v 2 p ∧ portStatus v r p = portStatus v 0 p := by
  simp [portStatus, OFPPR_DELETE, hr]

/-- **features_restarts** — a features reply received again (after any messages `ms`) restarts the picture: what follows is
the fold over the new reply only, and `original_ports` is the new reply. -/
theorem features_restarts (v0 : View) (ms : List PMsg) (f : List Port) (h : List Notif) :
    let v := run v0 (ms ++ PMsg.features f :: h.map (fun n => PMsg.status n.reason n.port))
    (∀ k, getItemC v.chain (.no k) = Spec17.fold f h k) ∧ v.orig.ports = f ∧
    (∀ k, k ∈ keysC v.chain ↔ (Spec17.fold f h k).isSome) := by
  intro v
  have hv : v = runNotifs (featuresReply (run v0 ms) f) h := by
    show run v0 _ = _
    simp only [run, List.foldl_append, List.foldl_cons, step, List.foldl_map, runNotifs]
  rw [hv]
  obtain ⟨h1, h2, _, _, _, _, h7, _⟩ := ports_refine (run v0 ms) f h
  exact ⟨h1, h7, h2⟩

/-- **handshake_defers_in_order** — port statuses that arrive between the features reply and the end of the handshake are
not lost and not reordered: when the connection comes up its view is the features reply with those statuses applied in
order of arrival; statuses that arrive before any features reply are dropped (the features reply that follows is newer). -/
theorem handshake_defers_in_order (c : HConn) (f : List Port) (rs : List (Nat × Port)) :
    hsFinish ((rs.map (fun x => HMsg.status x.1 x.2)).foldl hsStep (hsStep c (.features f))) =
      rs.foldl (fun v x => portStatus v x.1 x.2) (featuresReply c.view f) ∧
    (c.deferred = none → (rs.map (fun x => HMsg.status x.1 x.2)).foldl hsStep c = c) := by
  refine ⟨?_, fun hc => hs_dropped_before_features c hc rs⟩
  simp only [hsStep]
  rw [hs_statuses]
  simp [hsFinish]

/-- **view_at_connection_up** — what a `ConnectionUp` / `FeaturesReceived` handler sees.  `_finish_connecting` raises both events
before it hands the deferred port statuses to `handle_PORT_STATUS`, so at that moment, whatever statuses `rs` arrived during the
handshake, `con.ports` and `con.original_ports` are exactly the features reply: none of `rs` is applied yet.  The statuses are
then dispatched one by one, and at the k-th replayed `PortStatus` event the view is the features reply with the first k of them
applied in order (`handshake_defers_in_order` is the end of that sequence).  So the view always equals the reported ports with
the notifications *dispatched so far* folded in — it lags behind the notifications *received* only inside `_finish_connecting`,
between ConnectionUp and the last replayed event.  This is the code's stated design (comment at of_01.py:341-343); C17 reads
"notifications applied in order" relative to dispatch (see the check's assumptions). -/
theorem view_at_connection_up (c0 : HConn) (f : List Port) (rs : List (Nat × Port)) :
    let c := (rs.map (fun x => HMsg.status x.1 x.2)).foldl hsStep (hsStep c0 (.features f))
    hsUpView c = featuresReply c0.view f ∧
    (∀ k, getItemC (hsUpView c).chain (.no k) = Spec17.init f k) ∧ (hsUpView c).orig.ports = f ∧
    (∀ k, k ∈ keysC (hsUpView c).chain ↔ (Spec17.init f k).isSome) ∧
    hsReplayViews c = (List.range rs.length).map
        (fun i => (rs.take (i + 1)).foldl (fun v x => portStatus v x.1 x.2) (featuresReply c0.view f)) := by
  intro c
  have hc : c = ⟨some ([] ++ rs), featuresReply c0.view f⟩ := by
    show (rs.map _).foldl hsStep (hsStep c0 (.features f)) = _
    simp only [hsStep]
    rw [hs_statuses]
  have hv : hsUpView c = featuresReply c0.view f := by rw [hc]; rfl
  obtain ⟨h1, h2, _, _, _, _, h7, _⟩ := ports_refine c0.view f []
  refine ⟨hv, ?_, ?_, ?_, ?_⟩
  · rw [hv]; exact h1
  · rw [hv]; exact h7
  · rw [hv]; exact h2
  · rw [hc]; simp only [hsReplayViews, List.nil_append]; exact scanStatus_eq _ rs

/-- **own_entries_unique** — in every reachable state the delta layer of `con.ports` holds at most one port per number, so
the loop "first port of `_ports` with this number" (of_01.py:649-651) cannot depend on the iteration order of the set. -/
theorem own_entries_unique (v0 : View) (f : List Port) (h : List Notif) :
    ((runNotifs (featuresReply v0 f) h).cur.ports.map (fun p => p.no)).Nodup :=
  ownUnique_run _ h (ownUnique_features v0 f)

/-- with a features reply that lists every port number once, the initial map is independent of the order of the list -/
theorem init_iff (f : List Port) (hf : (f.map (fun p => p.no)).Nodup) (k : Nat) (p : Port) :
    Spec17.init f k = some p ↔ p ∈ f ∧ p.no = k := by
  unfold Spec17.init
  constructor
  · intro h; exact ⟨(find_no_some h).2, (find_no_some h).1⟩
  · rintro ⟨hp, hk⟩
    induction f with
    | nil => cases hp
    | cons a f ih =>
      simp only [List.map_cons, List.nodup_cons] at hf
      rcases List.mem_cons.mp hp with rfl | hp'
      · simp [hk]
      · have : a.no ≠ k := by
          intro e; apply hf.1; rw [e, ← hk]; exact List.mem_map.mpr ⟨p, hp', rfl⟩
        have hne : (a.no == k) = false := by simp [this]
        simp only [List.find?_cons, hne]
        exact ih hf.2 hp'

/-- **readd_deleted** — a port deleted and then added again (under any description) is there again, with exactly the new
description, whatever happened before. -/
theorem readd_deleted (v0 : View) (f : List Port) (h : List Notif) (p q : Port) (hpq : q.no = p.no) :
    let v := runNotifs (featuresReply v0 f) (h ++ [.delete p, .add q])
    getItemC v.chain (.no p.no) = some q ∧ containsC v.chain (.no p.no) = true ∧ p.no ∈ keysC v.chain ∧
    getItemC v.chain (.name q.name) ≠ none ∧ getItemC v.chain (.hw q.hw) ≠ none := by
  intro v
  have hm : Spec17.fold f (h ++ [.delete p, .add q]) p.no = some q := by
    simp [Spec17.fold, List.foldl_append, Spec17.apply, Spec17.set, hpq]
  obtain ⟨h1, h2, _, _, h5, _⟩ := ports_refine v0 f (h ++ [.delete p, .add q])
  refine ⟨by rw [h1]; exact hm, by rw [h5, hm]; rfl, (h2 p.no).mpr (by rw [hm]; rfl), ?_, ?_⟩
  · intro hn
    have := (ports_by_attr v0 f (h ++ [.delete p, .add q]) (.name q.name)).2.1.mp hn p.no q hm
    simp [Key.hits] at this
  · intro hn
    have := (ports_by_attr v0 f (h ++ [.delete p, .add q]) (.hw q.hw)).2.1.mp hn p.no q hm
    simp [Key.hits] at this

/-- **renamed_unreachable** — after a port is renamed (a MODIFY, or a DELETE followed by an ADD, carrying another name), the
old name no longer finds anything unless some *current* port has that name; likewise for the hardware address. -/
theorem renamed_unreachable (v0 : View) (f : List Port) (h : List Notif) (key : Key)
    (hnone : ∀ k p, Spec17.fold f h k = some p → key.hits p = false) :
    let v := runNotifs (featuresReply v0 f) h
    getItemC v.chain key = none ∧ containsC v.chain key = false := by
  intro v
  have hn := (ports_by_attr v0 f h key).2.1.mpr hnone
  exact ⟨hn, by simp only [containsC]; rw [hn]; rfl⟩

/-- **mask_on_readd_irrelevant** — `_update` discards the port's number from `_masks` (of_01.py:629), but nothing can depend on
it: a variant that keeps the mask yields, after every history, the same lookup by number and the same set of keys (and so
the same values, items, length, membership and lookups by name / address, which are computed from those two).  The mask of a
number is consulted only when `_ports` holds no port with that number, and `_forget` sets it again.  (This is why the
mutation "mask not cleared on re-add" cannot be detected by any check: it does not change behaviour.) -/
theorem mask_on_readd_irrelevant (v0 : View) (f : List Port) (h : List Notif) (k : Nat) :
    getNoC (runNotifsKeepMask (featuresReply v0 f) h).chain k = getNoC (runNotifs (featuresReply v0 f) h).chain k ∧
    (k ∈ keysC (runNotifsKeepMask (featuresReply v0 f) h).chain ↔ k ∈ keysC (runNotifs (featuresReply v0 f) h).chain) := by
  have h1 := refines_runKeepMask _ _ h (refines_features v0 f) k
  have h2 := refines_run _ _ h (refines_features v0 f) k
  refine ⟨by rw [h1, h2], ?_⟩
  rw [mem_keysC_iff, mem_keysC_iff, h1, h2]

/-! ### D17: the unrepaired lookup (`getItemLegacyC`, the code before `fixes/D17_…diff`) is wrong on a rename -/

def pA : Port := ⟨1, 0x61, 0xa1, 0⟩      -- port 1 "a"
def pB : Port := ⟨2, 0x62, 0xa2, 0⟩      -- port 2 "b"
def pA' : Port := ⟨1, 0x63, 0xa9, 0⟩     -- port 1 renamed "c", new address
def renameHist : List Notif := [.modify pA']
def vRename : View := runNotifs (featuresReply View.init [pA, pB]) renameHist

/-- after `MODIFY 1 → "c"`, the old lookup still finds the *old* port 1 under the name "a" and under its old address, while
the current map has no port with that name or address -/
theorem legacy_rename_defect :
    getItemLegacyC vRename.chain (.name 0x61) = some pA ∧ getItemLegacyC vRename.chain (.hw 0xa1) = some pA ∧
    (∀ k, k ∈ [1, 2] → ∀ p, Spec17.fold [pA, pB] renameHist k = some p → p.name ≠ 0x61 ∧ p.hw ≠ 0xa1) := by decide

/-- the repaired lookup on the same history -/
example : getItemC vRename.chain (.name 0x61) = none ∧ getItemC vRename.chain (.hw 0xa1) = none ∧
    getItemC vRename.chain (.name 0x63) = some pA' ∧ getItemC vRename.chain (.no 1) = some pA' ∧
    getItemC vRename.origChain (.name 0x61) = some pA := by decide

/-- delete + add under another name: the mask is cleared by the add, so the unrepaired lookup finds the old port again
(while the port is deleted it is, correctly, not found) -/
theorem legacy_delete_add_defect :
    getItemLegacyC (runNotifs (featuresReply View.init [pA, pB]) [.delete pA]).chain (.name 0x61) = none ∧
    getItemLegacyC (runNotifs (featuresReply View.init [pA, pB]) [.delete pA, .add pA']).chain (.name 0x61) = some pA ∧
    getItemLegacyC (runNotifs (featuresReply View.init [pA, pB]) [.delete pA, .add pA']).chain (.hw 0xa1) = some pA := by
  decide

/-! non-vacuity of the port theorems: a history that deletes, re-adds, renames and touches a port that was never reported -/
def demoHist : List Notif := [.delete pB, .add ⟨3, 0x64, 0xa3, 7⟩, .modify pA', .add pB, .delete ⟨9, 0, 0, 0⟩, .delete pA']
example : keysC (runNotifs (featuresReply View.init [pA, pB]) demoHist).chain = [2, 3] ∧
    valuesC (runNotifs (featuresReply View.init [pA, pB]) demoHist).chain = some [pB, ⟨3, 0x64, 0xa3, 7⟩] ∧
    (runNotifs (featuresReply View.init [pA, pB]) demoHist).cur.masks = [1, 9] ∧
    keysC (runNotifs (featuresReply View.init [pA, pB]) demoHist).origChain = [1, 2] := by decide
example : ([pA, pB].map (fun p => p.no)).Nodup := by decide
example : hsFinish ([HMsg.status 1 pA, .features [pA, pB], .status 1 pB, .status 2 pA'].foldl hsStep HConn.init) =
    runNotifs (featuresReply View.init [pA, pB]) [.delete pB, .modify pA'] := by decide
example : copyC vRename.chain = some ⟨[pA', pB], []⟩ := by decide
/-- port 2 deleted during the handshake: the ConnectionUp handler still sees it; the first replayed event's handler does not -/
example : getItemC (hsUpView ([HMsg.features [pA, pB], .status 1 pB].foldl hsStep HConn.init)).chain (.no 2) = some pB ∧
    (hsReplayViews ([HMsg.features [pA, pB], .status 1 pB].foldl hsStep HConn.init)).map
      (fun v => getItemC v.chain (.no 2)) = [none] := by decide

/-! ## statistics -/

/-- **stats_refine** — for every stream of statistics parts (any number of requests, interleaved in any way, complete or
not), the event raised at each part is the one the specification prescribes: nothing at a part with `REPLY_MORE`, and at a
final part the concatenation of that request's open parts and the final part, in order of arrival. -/
theorem stats_refine (s : List Part) (hs : ∀ p ∈ s, WellTyped p) :
    (runStats [] s).2 = (Spec17.events s).map Out.ofOption :=
  (runStats_tracks [] [] s tracks_nil (by simp) hs).1

/-- **stats_once** — whatever was received before (`pre`: any well-typed stream after which request `(xid, t)` has no open
part), a reply split into the parts `init ++ [last]` — any number of parts, any of them empty — raises nothing at the first
`init.length` parts and exactly one event at the last part, carrying all parts' entries in order. -/
theorem stats_once (pre : List Part) (hpre : ∀ p ∈ pre, WellTyped p) (xid t : Nat) (init : List (List Nat)) (last : List Nat)
    (ht : aggregatable t = true ∨ (init = [] ∧ (handlerOf t).isSome = true))
    (hclosed : openParts pre (xid, t) = []) :
    (runStats (runStats [] pre).1 (mkReply xid t init last)).2 =
      List.replicate init.length .quiet ++
        [.event ⟨t, (init ++ [last]).flatten, List.replicate (init.length + 1) xid⟩] := by
  obtain ⟨_, htr⟩ := runStats_tracks [] [] pre tracks_nil (by simp) hpre
  simp only [List.nil_append] at htr
  have hwt : ∀ p ∈ mkReply xid t init last, WellTyped p := by
    intro p hp
    simp only [mkReply, List.mem_append, List.mem_map, List.mem_singleton] at hp
    rcases ht with ha | ⟨hi, hh⟩
    · have hh : (handlerOf t).isSome = true := by rw [handlerOf_agg ha]; rfl
      rcases hp with ⟨b, _, rfl⟩ | rfl
      · exact ⟨fun _ => ha, hh⟩
      · exact ⟨fun _ => ha, hh⟩
    · subst hi
      rcases hp with ⟨b, hb, _⟩ | rfl
      · cases hb
      · exact ⟨fun h => (by simp at h), hh⟩
  obtain ⟨h1, _⟩ := runStats_tracks (runStats [] pre).1 pre (mkReply xid t init last) htr
    (fun q hq => (hpre q hq).1) hwt
  rw [h1, eventsFrom_reply, hclosed]
  simp [Out.ofOption]

/-- **stats_same_request_again** — a request id used again (a poller with a fixed xid, or xid 0): after any history `pre`, a
complete reply to `(xid, t)`, and then any parts `mid` of *other* requests (complete or not), a second reply with the same
xid and type is assembled from scratch: nothing at its non-final parts, one event at its final part, carrying exactly the
second reply's entries — none of the first reply's, and all of its own (also when the final part is empty).  By induction the
same holds for any number of rounds. -/
theorem stats_same_request_again (pre mid : List Part) (hpre : ∀ p ∈ pre, WellTyped p) (hmid : ∀ p ∈ mid, WellTyped p)
    (xid t : Nat) (ht : aggregatable t = true) (i1 i2 : List (List Nat)) (l1 l2 : List Nat)
    (hother : ∀ p ∈ mid, p.req ≠ (xid, t)) :
    (runStats (runStats [] (pre ++ mkReply xid t i1 l1 ++ mid)).1 (mkReply xid t i2 l2)).2 =
      List.replicate i2.length .quiet ++
        [.event ⟨t, (i2 ++ [l2]).flatten, List.replicate (i2.length + 1) xid⟩] := by
  apply stats_once (pre ++ mkReply xid t i1 l1 ++ mid) _ xid t i2 l2 (.inl ht)
  · rw [openParts_append_other _ _ _ hother, openParts_after_reply]
  · intro p hp
    have hh : (handlerOf t).isSome = true := by rw [handlerOf_agg ht]; rfl
    rcases List.mem_append.mp hp with hp | hp
    · rcases List.mem_append.mp hp with hp | hp
      · exact hpre p hp
      · simp only [mkReply, List.mem_append, List.mem_map, List.mem_singleton] at hp
        rcases hp with ⟨b, _, rfl⟩ | rfl
        · exact ⟨fun _ => ht, hh⟩
        · exact ⟨fun _ => ht, hh⟩
    · exact hmid p hp

/-- **stats_no_merge** — in any stream `s` of parts of any number of requests, if the parts of request `(xid, t)` — taken out
of the stream in order — form a reply `init ++ [last]`, then, whatever other requests' parts arrive in between and whether or
not those other replies are complete, request `(xid, t)` gets exactly one event, at its final part, carrying exactly its own
parts' entries in order (nothing of the others is merged in, nothing of its own is lost). -/
theorem stats_no_merge (s : List Part) (hs : ∀ p ∈ s, WellTyped p) (xid t : Nat) (init : List (List Nat)) (last : List Nat)
    (hreq : s.filter (fun p => p.req == (xid, t)) = mkReply xid t init last) :
    (s.zip (runStats [] s).2).filter (fun x => x.1.req == (xid, t)) =
      (mkReply xid t init last).zip
        (List.replicate init.length .quiet ++
          [.event ⟨t, (init ++ [last]).flatten, List.replicate (init.length + 1) xid⟩]) := by
  rw [stats_refine s hs, Spec17.events, List.zip_map_right, List.filter_map]
  have : ((fun x : Part × Out => x.1.req == (xid, t)) ∘ Prod.map id Out.ofOption) =
      (fun x : Part × Option Event => x.1.req == (xid, t)) := by
    funext x; rfl
  rw [this, events_proj [] s (xid, t), hreq, List.filter_nil, eventsFrom_reply, ← List.zip_map_right]
  simp [openParts, Out.ofOption]

/-- **stats_two_requests** — what "different requests" means in the code: the assembly is keyed by the pair (xid, type), so two
replies are kept apart as soon as they differ in the xid *or* in the statistics type.  For any stream in which the parts of
`(x1, t1)` and of `(x2, t2)` each form a reply, in any interleaving and among any other parts, both events are raised, each
exactly once at its own final part, each with exactly its own entries. -/
theorem stats_two_requests (s : List Part) (hs : ∀ p ∈ s, WellTyped p) (x1 t1 x2 t2 : Nat)
    (i1 i2 : List (List Nat)) (l1 l2 : List Nat) (_hne : x1 ≠ x2 ∨ t1 ≠ t2)
    (h1 : s.filter (fun p => p.req == (x1, t1)) = mkReply x1 t1 i1 l1)
    (h2 : s.filter (fun p => p.req == (x2, t2)) = mkReply x2 t2 i2 l2) :
    (s.zip (runStats [] s).2).filter (fun x => x.1.req == (x1, t1)) =
      (mkReply x1 t1 i1 l1).zip (List.replicate i1.length .quiet ++
          [.event ⟨t1, (i1 ++ [l1]).flatten, List.replicate (i1.length + 1) x1⟩]) ∧
    (s.zip (runStats [] s).2).filter (fun x => x.1.req == (x2, t2)) =
      (mkReply x2 t2 i2 l2).zip (List.replicate i2.length .quiet ++
          [.event ⟨t2, (i2 ++ [l2]).flatten, List.replicate (i2.length + 1) x2⟩]) :=
  ⟨stats_no_merge s hs x1 t1 i1 l1 h1, stats_no_merge s hs x2 t2 i2 l2 h2⟩

/-- **raw_event_exactly_for_stats** — over the run of any message sequence from any connection state: `RawStatsReply` is raised
once for every statistics message, in order, carrying that very message (complete or not, whatever is being assembled), and
for no other message. -/
theorem raw_event_exactly_for_stats (c : Conn) (ms : List Msg) :
    (runConn c ms).2.map (fun st => st.raw) = ms.map (fun m => match m with | .stats p => some p | _ => none) := by
  induction ms generalizing c with
  | nil => rfl
  | cons m ms ih =>
    simp only [runConn, List.map_cons, ih]
    cases m <;> rfl

/-- **stats_never_raises** — the repaired assembly never raises, in any state, for any part (the unrepaired one raises
`AttributeError` / `IndexError`, see the witnesses below). -/
theorem stats_never_raises (st : Pending) (p : Part) (x : Exc) : (incoming st p).2 ≠ .raised x := by
  unfold incoming
  split
  · split <;> simp
  · cases handlerOf p.type with
    | none => simp
    | some hd =>
      cases hd with
      | concat => simp [runHandler]
      | first =>
        cases h : dgetOrEmpty st p.req with
        | nil => simp only []; rw [h]; simp [runHandler]
        | cons q qs => simp only []; rw [h]; simp [runHandler]

/-- **other_messages_frame** — messages that are neither port messages nor statistics replies change neither picture; port
messages do not touch the assembly and statistics replies do not touch the port view: the view after any message sequence
is the view after its port messages, the assembly state is the one after its statistics parts, and every non-statistics
message is handled without raising an event.  (This holds by construction of `deliver` — the `.other` branch returns the
state unchanged, the two other branches write disjoint fields; it records how the model is composed and lets the theorems
about `run`/`runStats` be read on mixed streams.  That the real handlers of the other message kinds indeed leave
`con.ports` and `_previous_stats` alone is established only by the differential run.) -/
theorem other_messages_frame (c : Conn) (ms : List Msg) :
    (runConn c ms).1.view = PortView.run c.view (ms.filterMap (fun m => match m with | .port x => some x | _ => none)) ∧
    (runConn c ms).1.pending =
      (runStats c.pending (ms.filterMap (fun m => match m with | .stats p => some p | _ => none))).1 ∧
    (ms.zip (runConn c ms).2).filterMap (fun x => match x.1 with | .stats p => some (p, x.2.out) | _ => none) =
      (ms.filterMap (fun m => match m with | .stats p => some p | _ => none)).zip
        (runStats c.pending (ms.filterMap (fun m => match m with | .stats p => some p | _ => none))).2 ∧
    (∀ x ∈ ms.zip (runConn c ms).2, (∀ p, x.1 ≠ .stats p) → x.2.out = .quiet) := by
  induction ms generalizing c with
  | nil => simp [runConn, PortView.run, runStats]
  | cons m ms ih =>
    cases m with
    | port x =>
      obtain ⟨i1, i2, i3, i4⟩ := ih ({ c with view := PortView.step c.view x })
      refine ⟨?_, ?_, ?_, ?_⟩
      · simpa [runConn, deliver, PortView.run] using i1
      · simpa [runConn, deliver] using i2
      · simpa [runConn, deliver] using i3
      · intro y hy hne
        simp only [runConn, deliver, List.zip_cons_cons, List.mem_cons] at hy
        rcases hy with rfl | hy
        · rfl
        · exact i4 y hy hne
    | other =>
      obtain ⟨i1, i2, i3, i4⟩ := ih c
      refine ⟨?_, ?_, ?_, ?_⟩
      · simpa [runConn, deliver] using i1
      · simpa [runConn, deliver] using i2
      · simpa [runConn, deliver] using i3
      · intro y hy hne
        simp only [runConn, deliver, List.zip_cons_cons, List.mem_cons] at hy
        rcases hy with rfl | hy
        · rfl
        · exact i4 y hy hne
    | stats p =>
      obtain ⟨i1, i2, i3, i4⟩ := ih ({ c with pending := (incoming c.pending p).1 })
      refine ⟨?_, ?_, ?_, ?_⟩
      · simpa [runConn, deliver] using i1
      · simpa [runConn, deliver, runStats] using i2
      · simpa [runConn, deliver, runStats] using i3
      · intro y hy hne
        simp only [runConn, deliver, List.zip_cons_cons, List.mem_cons] at hy
        rcases hy with rfl | hy
        · exact absurd rfl (hne p)
        · exact i4 y hy hne

def a1 : Part := ⟨7, 1, true, [10]⟩        -- request A (xid 7, FLOW): first part
def b1 : Part := ⟨8, 4, false, [20]⟩       -- request B (xid 8, PORT): complete single-part reply
def a2 : Part := ⟨7, 1, false, [11, 12]⟩   -- request A: final part

/-! ## listeners: what the listeners of the events answer is an input of every handler -/

theorem deliverL_state (c : Conn) (h : Halts) (m : Msg) : (deliverL c h m).1 = (deliver c m).1 := by
  cases m <;> rfl

theorem deliverL_nexus (c : Conn) (h : Halts) (m : Msg) :
    (deliverL c h m).2.rawNexus = (deliver c m).2.raw ∧ (deliverL c h m).2.outNexus = (deliver c m).2.out := by
  cases m <;> exact ⟨rfl, rfl⟩

/-- **listeners_frame** — for every message sequence from any connection state and ANY answers of the nexus-level listeners
(halting or not, differently for every message and every event kind): the connection's state afterwards — port view and open
parts — is the one of the run without listeners; what is raised on the nexus (raw and aggregated events) is, message by
message, what the run without listeners raises; and the connection-level events are the nexus-level ones minus exactly those
a nexus-level listener halted (nothing else is lost, nothing is added).  Hence every theorem above about `runConn` / `runStats`
/ `PortView.run` holds for the nexus-level events and for the state whatever listeners do. -/
theorem listeners_frame (c : Conn) (xs : List (Halts × Msg)) :
    (runConnL c xs).1 = (runConn c (xs.map Prod.snd)).1 ∧
    (runConnL c xs).2.map (fun s => (s.rawNexus, s.outNexus)) =
      (runConn c (xs.map Prod.snd)).2.map (fun s => (s.raw, s.out)) ∧
    (∀ x ∈ xs.zip (runConnL c xs).2,
        x.2.rawCon = (if x.1.1.raw then none else x.2.rawNexus) ∧
        x.2.outCon = secondRaise x.1.1.agg x.2.outNexus ∧
        x.2.portCon = (x.2.portNexus && !x.1.1.port)) := by
  induction xs generalizing c with
  | nil => simp [runConnL, runConn]
  | cons x xs ih =>
    obtain ⟨h, m⟩ := x
    have hs := deliverL_state c h m
    have hn := deliverL_nexus c h m
    obtain ⟨i1, i2, i3⟩ := ih (deliverL c h m).1
    refine ⟨?_, ?_, ?_⟩
    · simp only [runConnL, List.map_cons, runConn]
      rw [i1, hs]
    · simp only [runConnL, List.map_cons, runConn]
      rw [i2, hs, hn.1, hn.2]
    · intro y hy
      simp only [runConnL, List.zip_cons_cons, List.mem_cons] at hy
      rcases hy with rfl | hy
      · cases m <;> simp [deliverL, secondRaise]
      · exact i3 y hy

theorem runConn_stats (c : Conn) (ps : List Part) :
    (runConn c (ps.map Msg.stats)).2.map (fun s => s.out) = (runStats c.pending ps).2 := by
  induction ps generalizing c with
  | nil => rfl
  | cons p ps ih =>
    simp only [List.map_cons, runConn, runStats, deliver]
    rw [ih]

/-- **stats_any_listeners** — the statistics clause with listeners as an input: for every stream of well-typed statistics
parts and ANY answers of the listeners of the raw and of the aggregated events at every part (so in particular a listener
that halts the `RawStatsReply` of some parts), the aggregated event raised at each part is the one the specification
prescribes — nothing at a part with `REPLY_MORE`, at a final part all of that request's parts' entries in order.  (With the
call of `_incoming_stats_reply` placed under the "not halted" guard this is false: see the witness below.) -/
theorem stats_any_listeners (v : PortView.View) (hps : List (Halts × Part)) (hs : ∀ x ∈ hps, WellTyped x.2) :
    (runConnL ⟨v, []⟩ (hps.map (fun x => (x.1, Msg.stats x.2)))).2.map (fun s => s.outNexus) =
      (Spec17.events (hps.map (fun x => x.2))).map Out.ofOption := by
  have hf := (listeners_frame ⟨v, []⟩ (hps.map (fun x => (x.1, Msg.stats x.2)))).2.1
  have h1 : (runConnL ⟨v, []⟩ (hps.map (fun x => (x.1, Msg.stats x.2)))).2.map (fun s => s.outNexus) =
      ((runConnL ⟨v, []⟩ (hps.map (fun x => (x.1, Msg.stats x.2)))).2.map (fun s => (s.rawNexus, s.outNexus))).map Prod.snd := by
    simp [List.map_map, Function.comp_def]
  rw [h1, hf]
  have h2 : (hps.map (fun x => (x.1, Msg.stats x.2))).map Prod.snd = (hps.map (fun x => x.2)).map Msg.stats := by
    simp [List.map_map, Function.comp_def]
  rw [h2, List.map_map]
  have h3 : (Prod.snd ∘ fun s : Step => (s.raw, s.out)) = fun s => s.out := by funext s; rfl
  rw [h3, runConn_stats]
  exact stats_refine _ (by
    intro p hp
    obtain ⟨x, hx, rfl⟩ := List.mem_map.mp hp
    exact hs x hx)

/-- a handler that feeds the assembler only when the raw event was not halted (the shape of every OTHER handler of the class) -/
def deliverGuarded (c : Conn) (h : Halts) : Msg → Conn × Out
  | .stats p => if h.raw then (c, .quiet) else let r := incoming c.pending p; ({ c with pending := r.1 }, r.2)
  | .port m => ({ c with view := PortView.step c.view m }, .quiet)
  | .other => (c, .quiet)

/-- the raw event of the middle part halted: the guarded handler loses that part's entries; `deliverL` does not -/
theorem guarded_assembly_defect :
    let a : Part := ⟨7, 1, true, [10]⟩; let b : Part := ⟨7, 1, true, [11]⟩; let z : Part := ⟨7, 1, false, [12]⟩
    let no : Halts := ⟨false, false, false⟩; let yes : Halts := ⟨true, false, false⟩
    (deliverGuarded (deliverGuarded (deliverGuarded Conn.init no (.stats a)).1 yes (.stats b)).1 no (.stats z)).2
      = .event ⟨1, [10, 12], [7, 7]⟩ ∧
    (runConnL Conn.init [(no, .stats a), (yes, .stats b), (no, .stats z)]).2.map (fun s => s.outNexus)
      = [.quiet, .quiet, .event ⟨1, [10, 11, 12], [7, 7, 7]⟩] ∧
    (runConnL Conn.init [(no, .stats a), (yes, .stats b), (no, .stats z)]).2.map (fun s => s.rawCon) = [some a, none, some z] := by
  decide

/-! non-vacuity: halting answers at some messages, connection-level events hidden exactly there -/
example : (runConnL Conn.init [(⟨false, true, true⟩, .stats a1), (⟨true, true, false⟩, .stats b1), (⟨false, false, true⟩, .port (.status 0 pA)),
      (⟨true, false, false⟩, .stats a2)]).2.map (fun s => (s.outNexus, s.outCon, s.portNexus, s.portCon)) =
    [(.quiet, .quiet, false, false), (.event ⟨4, [20], [8]⟩, .quiet, false, false), (.quiet, .quiet, true, false),
     (.event ⟨1, [10, 11, 12], [7, 7]⟩, .event ⟨1, [10, 11, 12], [7, 7]⟩, false, false)] := by decide
example : ∀ x ∈ [((⟨true, false, false⟩ : Halts), a1), (⟨true, true, false⟩, a2)], WellTyped x.2 := by decide

/-! ### D18: the unrepaired assembly (`incomingLegacy`, the code before `fixes/D18_…diff`) -/


/-- B's reply arriving between A's parts: the unrepaired code raises `AttributeError` and B's event is never raised -/
theorem legacy_interleave_defect :
    (runLegacy [] [a1, b1, a2]).2 = [.quiet, .raised .attributeError, .event ⟨1, [10, 11, 12], [7, 7]⟩] ∧
    (Spec17.events [a1, b1, a2]) = [none, some ⟨4, [20], [8]⟩, some ⟨1, [10, 11, 12], [7, 7]⟩] := by decide

/-- an abandoned first part is kept: a later, complete reply to another request is lost too -/
theorem legacy_stale_part_defect :
    (runLegacy [] [a1, b1, b1]).2 = [.quiet, .raised .attributeError, .raised .attributeError] := by decide

/-- a final part of a type without handler raises `IndexError` in the unrepaired code (inside the log statement) -/
theorem legacy_unknown_type_raises : (runLegacy [] [⟨9, 0xffff, false, []⟩]).2 = [.raised .indexError] := by decide

/-- the repaired assembly on the same streams -/
example : (runStats [] [a1, b1, a2]).2 = [.quiet, .event ⟨4, [20], [8]⟩, .event ⟨1, [10, 11, 12], [7, 7]⟩] ∧
    (runStats [] [a1, b1, b1]).2 = [.quiet, .event ⟨4, [20], [8]⟩, .event ⟨4, [20], [8]⟩] ∧
    (runStats [] [⟨9, 0xffff, false, []⟩]).2 = [.quiet] := by decide

/-! non-vacuity of the statistics theorems -/
example : (runStats [] (mkReply 0 1 [[1], [2]] [3] ++ [b1] ++ mkReply 0 1 [[4]] [])).2 =
    [.quiet, .quiet, .event ⟨1, [1, 2, 3], [0, 0, 0]⟩, .event ⟨4, [20], [8]⟩, .quiet, .event ⟨1, [4], [0, 0]⟩] := by decide
example : [a1, ⟨8, 1, true, [30]⟩, a2, ⟨8, 1, false, [31]⟩].filter (fun p => p.req == (8, 1)) = mkReply 8 1 [[30]] [31] ∧
    (runStats [] [a1, ⟨8, 1, true, [30]⟩, a2, ⟨8, 1, false, [31]⟩]).2 =
      [.quiet, .quiet, .event ⟨1, [10, 11, 12], [7, 7]⟩, .event ⟨1, [30, 31], [8, 8]⟩] := by decide
example : ∀ p ∈ [a1, b1, a2], WellTyped p := by decide
example : [a1, b1, a2].filter (fun p => p.req == (7, 1)) = mkReply 7 1 [[10]] [11, 12] := by decide
example : openParts [a1, b1, a2] (7, 1) = [] ∧ openParts [a1, b1] (7, 1) = [a1] := by decide
example : aggregatable 1 = true ∧ (handlerOf 0).isSome = true := by decide

end Pox.C17
