import PoxModel.Proofs.ParseTotal
/-! # C15 — parsing untrusted frames never fails

Property theorems only (helper lemmas: `Proofs/ParseTotal.lean`; model: `Model/PacketParse.lean`).

`parseEthernet cfg d bs` is `ethernet(raw=bs)` (= `PacketIn.parsed`, openflow/__init__.py:182-185) with every Python operation
that can raise kept partial.  Modelled (phase 1): Ethernet → 802.1Q (nested) / LLC-SNAP → ARP / IPv4 (+options) → ICMP (echo,
unreachable, time-exceeded with the quoted datagram, nested) / TCP (+option parser) / UDP, and LLDP with all its TLV classes;
(phase 2, `cfg.ext`): MPLS (nested), EAPOL/EAP, IPv6 fixed header + extension-header chain, ICMPv6 (checksum, echo, unreachable
with the quoted IPv6 datagram, time-exceeded, packet-too-big) + the NDP messages RS/RA/NS/NA with the option walker, IGMP v1/v2/v3,
GRE (+source routing) → IPv4/Ethernet, VXLAN → Ethernet, RIP, DNS (questions, resource records, name decompression with its
pointer loops), DHCP (fixed part + option walker).

Trees: `Cfg.tree fx vr` has the phase-1 repairs (D14, C15-1 … C15-8), the subset `fx : Fix` of the repairs of the registered
findings K1, K5 … K16 and the subset `vr : Var` of the result-changing repairs D46, D48, D49, D50 of C14; harness/c15.py decides
both by probing the behaviour of the tree it tests.  **`Cfg.current = Cfg.tree Fix.full Var.all` is /repo HEAD**: every repair is
committed, the nesting guard included — part I states the property for it, unconditionally.  Part II is the same for every
combination of repairs (what a tree with some repair reverted does), part III the regression witnesses of the reverted trees.
`Cfg.core` is the phase-1 model (phase-2 parsers left foreign), `Cfg.head` the tree before the phase-1 repairs.  `d` is the number
of nested constructor activations the interpreter still allows (RecursionError beyond).

Outside the model: what a TCP segment with the MPTCP option parses to (`Frame.foreign "mptcp"` — the only opaque layer a parse
produces; `tcp.parse` wraps `parse_options` in `except Exception`) and `pack()` of the phase-2 classes other than mpls, eapol, eap
(`repack_total`). -/
namespace Pox.C15
open Pox Pox.Packet Pox.Parse

/-- /repo HEAD: all repairs of the registered findings (K1 nesting guard, K5 … K16) and D46, D48, D49, D50 -/
def Cfg.current : Cfg := Cfg.tree Fix.full Var.all

/-! ## part II first (it is what part I instantiates): every combination of repairs -/

/-- **No exception but the registered ones, whatever subset of the repairs is in the tree.**  For EVERY byte string `bs`,
`ethernet(raw=bs)` returns an object chain for the whole input that tiles it and whose only opaque layer can be a TCP segment with
the MPTCP option — or raises at one of the registered findings whose repair is NOT in `fx` — provided the interpreter allows
`budget bs = len(bs)/4 + 1` nested constructor activations.  No other `struct.error`, `IndexError`, `TypeError`,
`TruncatedException`, `MalformedException`, `AssertionError`, no model loop running out of fuel, on any path through the modelled
parser classes. -/
theorem parse_total_with (fx : Fix) (vr : Var) (bs : Bytes) (d : Nat) (hd : budget bs ≤ d) :
    (∃ p, parseEthernet (Cfg.tree fx vr) d bs = .ok p ∧ p.bytes = bs ∧ p.Tiles ∧ ∀ c ∈ p.foreigns, c = "mptcp") ∨
    (∃ s, parseEthernet (Cfg.tree fx vr) d bs = .error (.known s) ∧ fx.fixed s = false) := by
  rcases parseD_spec (fx := fx) (vr := vr) d 0 .eth bs hd with ⟨f, h, hb, hg⟩ | ⟨s, h, hs⟩
  · exact .inl ⟨f, h, hb, good_tiles f hg, tiles_foreigns f (good_tiles f hg)⟩
  · exact .inr ⟨s, h, hs⟩

/-- with the K5 … K16 repairs the parse is total within the length budget, for every setting of the D repairs (no guard needed) -/
theorem parse_total_fixed (vr : Var) (bs : Bytes) (d : Nat) (hd : budget bs ≤ d) : ∃ p, parseEthernet (Cfg.tree Fix.all vr) d bs = .ok p := by
  rcases parse_total_with Fix.all vr bs d hd with ⟨p, h, _⟩ | ⟨s, _, hs⟩
  · exact ⟨p, h⟩
  · cases s <;> simp [Fix.fixed, Fix.all] at hs

/-- **The nesting guard (repair K1) removes the budget hypothesis.**  With `packet_base.MAX_NESTING = 32` checked in
`ethernet.parse_next`, `ipv4.parse` and `ipv6.parse` (and `prev` handed on by gre and vxlan), `nestCap + 3 = 35` nested constructor
activations are enough for EVERY byte string, however long and however nested: below the cap each activation is one level of the
`prev` chain; at the cap ethernet / vlan / llc / ipv4 / ipv6 keep their payload as bytes, and what the other classes still call
ends after at most three more activations (icmp → unreach → ipv4, udp → vxlan → ethernet, icmpv6 → unreach → ipv6); mpls nests
without `prev` but catches whatever its nested constructor raises. -/
theorem parse_total_guarded (fx : Fix) (hk : fx.k1 = true) (vr : Var) (bs : Bytes) (d : Nat) (hd : nestCap + 3 ≤ d) :
    (∃ p, parseEthernet (Cfg.tree fx vr) d bs = .ok p ∧ p.bytes = bs ∧ p.Tiles ∧ ∀ c ∈ p.foreigns, c = "mptcp") ∨
    (∃ s, parseEthernet (Cfg.tree fx vr) d bs = .error (.known s) ∧ fx.fixed s = false) := by
  rcases parseD_guarded (fx := fx) (vr := vr) hk d 0 .eth bs (by simpa [need, nestCap] using hd) with ⟨f, h, hb, hg⟩ | ⟨s, h, hs⟩
  · exact .inl ⟨f, h, hb, good_tiles f hg, tiles_foreigns f (good_tiles f hg)⟩
  · exact .inr ⟨s, h, hs⟩

/-- progress for every tree (within the length budget) -/
theorem progress_recorded_with (fx : Fix) (vr : Var) (bs : Bytes) (d : Nat) (hd : budget bs ≤ d) (p : Frame)
    (h : parseEthernet (Cfg.tree fx vr) d bs = .ok p) : p.bytes = bs ∧ p.Tiles := by
  rcases parse_total_with fx vr bs d hd with ⟨f, hf, hb, ht, _⟩ | ⟨s, hs, _⟩
  · have : f = p := by rw [hf] at h; injection h
    subst this; exact ⟨hb, ht⟩
  · rw [hs] at h; cases h

/-- re-serialisation for every tree (within the length budget): every chain inside the pack model (`Frame.packModelled`) -/
theorem repack_total_with (fx : Fix) (vr : Var) (bs : Bytes) (d : Nat) (hd : budget bs ≤ d) (p : Frame)
    (h : parseEthernet (Cfg.tree fx vr) d bs = .ok p) (hf : p.packModelled = true) : ∃ out, packF none p = .ok out := by
  rcases parseD_spec (fx := fx) (vr := vr) d 0 .eth bs hd with ⟨f, hf', _, hg⟩ | ⟨s, hs, _⟩
  · have : f = p := by rw [parseEthernet, hf'] at h; injection h
    subst this; exact packTop2 f hg hf
  · rw [parseEthernet, hs] at h; cases h

/-- printing for every tree: any chain without an opaque layer -/
theorem print_total_with (fx : Fix) (vr : Var) (p : Frame) (hf : p.foreigns = []) : printF (Cfg.tree fx vr) p = .ok () :=
  printF_ok p hf

/-! ## part I: the tree as it is (`Cfg.current`) -/

/-- **Parsing untrusted frames never fails.**  For EVERY byte string `bs` — however long, however deeply nested — `ethernet(raw=bs)`
(= `PacketIn.parsed`) of /repo HEAD returns, given 35 nested constructor activations (about 110 interpreter frames of the 1000
CPython allows): an object chain that covers the whole input, tiles it, and whose only opaque layer can be a TCP segment with the
MPTCP option.  No hypothesis on the input, no registered finding left. -/
theorem parse_total (bs : Bytes) (d : Nat) (hd : 35 ≤ d) :
    ∃ p, parseEthernet Cfg.current d bs = .ok p ∧ p.bytes = bs ∧ p.Tiles ∧ ∀ c ∈ p.foreigns, c = "mptcp" := by
  rcases parse_total_guarded Fix.full rfl Var.all bs d (by simpa [nestCap] using hd) with h | ⟨s, _, hs⟩
  · exact h
  · cases s <;> simp [Fix.fixed, Fix.full, Fix.all] at hs

/-- the same for every setting of the D repairs (a tree with one of D46 … D50 reverted is as safe) -/
theorem parse_total_any_var (vr : Var) (bs : Bytes) (d : Nat) (hd : 35 ≤ d) :
    ∃ p, parseEthernet (Cfg.tree Fix.full vr) d bs = .ok p ∧ p.bytes = bs ∧ p.Tiles ∧ ∀ c ∈ p.foreigns, c = "mptcp" := by
  rcases parse_total_guarded Fix.full rfl vr bs d (by simpa [nestCap] using hd) with h | ⟨s, _, hs⟩
  · exact h
  · cases s <;> simp [Fix.fixed, Fix.full, Fix.all] at hs

/-- The full statement — every parser module inside the model — is NOT proved: what a TCP segment with the MPTCP option parses to
is outside the model (the theorems say that this is the only opaque layer). -/
def parse_total_full : Prop :=
  ∀ (bs : Bytes) (d : Nat), 35 ≤ d → ∃ p, parseEthernet Cfg.current d bs = .ok p ∧ p.foreigns = []

/-- **Progress is recorded and nothing is lost.**  Whatever `ethernet(raw=bs)` returns is an object for the whole input (`p.bytes =
bs`; an object whose parse gave up is a leaf that keeps its bytes — that is what `Frame.unparsed`, `llc … false`, `lldp … false`
are), and the chain tiles the input: the bytes of every object are its header followed by exactly the bytes handed to the next
layer — which are kept as raw bytes when no parser takes them — followed by nothing, except that `ipv4` cuts off what lies beyond
its total-length field and `udp`/`ipv4` drop the payload when their length field contradicts the buffer (as the code does); for
the phase-2 classes: the bytes handed on are a contiguous slice of the object's bytes that starts behind the fixed part of the
header (`Ext.hdrMin`: 4 bytes of mpls / eapol / eap / icmpv6 and its messages / gre, 8 of vxlan, 40 of ipv6).  An `lldp` object has
no next layer; its TLV list is not related to the bytes here (C19 does that for the discovery probe). -/
theorem progress_recorded (bs : Bytes) (d : Nat) (hd : 35 ≤ d) (p : Frame)
    (h : parseEthernet Cfg.current d bs = .ok p) : p.bytes = bs ∧ p.Tiles := by
  obtain ⟨f, hf, hb, ht, _⟩ := parse_total bs d hd
  have : f = p := by rw [hf] at h; injection h
  subst this; exact ⟨hb, ht⟩

/-- **Printing is defined.**  `str()` / `dump()` of every parse result that has no TCP segment with MPTCP options in it returns: the
`__str__` of every phase-1 class (repairs C15-2, C15-3) and of every phase-2 class (`extStr`: the `%d` / `%i` / `%x` conversions
get numbers; the `_to_str` classes sit behind `packet_base.__str__`'s `try/except`).  The model's `printF` is an error on an opaque
layer, so the hypothesis is needed — and by `parse_total` an MPTCP segment is the only thing it excludes. -/
theorem print_total (bs : Bytes) (d : Nat) (hd : 35 ≤ d) (p : Frame) (h : parseEthernet Cfg.current d bs = .ok p)
    (hm : "mptcp" ∉ p.foreigns) : printF Cfg.current p = .ok () := by
  obtain ⟨f, hf, _, _, hfor⟩ := parse_total bs d hd
  have : f = p := by rw [hf] at h; injection h
  subst this
  apply printF_ok
  cases hfs : f.foreigns with
  | nil => rfl
  | cons c r =>
    have : c = "mptcp" := hfor c (by rw [hfs]; exact List.mem_cons_self ..)
    subst this
    exact absurd (by rw [hfs]; exact List.mem_cons_self ..) hm

/-- **Re-serialisation is defined** for parse results inside the pack model (`Frame.packModelled`: the phase-1 classes anywhere,
and mpls / eapol / eap where they occur — behind ethernet / 802.1Q / LLC-SNAP headers; no opaque layer): `pack()` returns bytes —
every `struct.pack` in `hdr()` of every layer gets values in range (fields come from `struct.unpack`; IPv4 total length, UDP length,
TCP data offset are recomputed from payloads that are never longer than what was parsed; TCP options end inside the header, C15-4;
mpls masks every field, eapol / eap re-emit what they unpacked).  The other phase-2 classes (ipv6 and what it carries, gre, vxlan,
igmp, rip, dns, dhcp) are outside the pack model: oracle only. -/
theorem repack_total (bs : Bytes) (d : Nat) (hd : budget bs ≤ d) (p : Frame)
    (h : parseEthernet Cfg.current d bs = .ok p) (hf : p.packModelled = true) : ∃ out, packF none p = .ok out :=
  repack_total_with Fix.full Var.all bs d hd p h hf

/-- **… also where the interpreter ran out of stack in the middle of a label stack.**  An MPLS label stack is parsed by one nested
constructor per entry, outside the nesting guard; with fewer activations than the stack has entries (any `d ≥ 35`, not only
`budget bs ≤ d`) the innermost constructor raises `RecursionError`, the bare `except` of mpls.parse keeps the rest of the stack as
bytes — and what was built is still inside the pack model and re-serialises.  (These are the histories the long-frame families of
the harness compare: `d` = the number of layers the implementation got to.)  What the model does NOT bound is pack()'s own
recursion — one interpreter frame per layer — which is safe in the code only because a chain built by nested constructors is never
longer than the stack that built it; that is checked by the oracle on the real classes (seeded change C15-K). -/
theorem repack_total_cutoff (bs : Bytes) (d : Nat) (hd : 35 ≤ d) (p : Frame)
    (h : parseEthernet Cfg.current d bs = .ok p) (hf : p.packModelled = true) : ∃ out, packF none p = .ok out := by
  rcases parseD_guarded (fx := Fix.full) (vr := Var.all) rfl d 0 .eth bs (by simpa [need, nestCap] using hd) with ⟨f, hf', _, hg⟩ | ⟨s, hs, _⟩
  · have : f = p := by rw [parseEthernet, Cfg.current, hf'] at h; injection h
    subst this; exact packTop2 f hg hf
  · rw [parseEthernet, Cfg.current, hs] at h; cases h

/-- **The TCP option loop never runs out of model fuel**: the `.fail` that `tcpParse` reads as "parse_options raised, caught by
`except Exception`" is never the model's fuel-0 branch — with the `off·4` rounds it is given from offset 20 the result equals that
of any larger number of rounds. -/
theorem tcp_options_fuel (cfg : Cfg) (raw : Bytes) (off : Nat) (h20 : 20 ≤ off * 4) (hd : off * 4 ≤ raw.length) (k : Nat) :
    tcpParseOptsB (off * 4 + k) raw (off * 4) (if cfg.tcpOptBound then off * 4 else raw.length) 20 =
    tcpParseOptsB (off * 4) raw (off * 4) (if cfg.tcpOptBound then off * 4 else raw.length) 20 :=
  tcpParse_opts_fuel cfg raw off h20 hd k

/-- **Relation to the C14 model.**  Whenever the exception-aware parser returns (any nesting budget, any version of the code
that has the TCP-option bound C15-4, leaves the phase-2 parsers foreign and has no nesting guard, e.g. `Cfg.core`), the total
parser `Packet.parse` of `Model/PacketHdr.lean` — which maps every would-be exception to "unparsed" — returns the same chain. -/
theorem refines_c14 (cfg : Cfg) (hc : cfg.tcpOptBound = true) (hx : cfg.ext = false) (hk1 : cfg.fix.k1 = false) (d : Nat) (bs : Bytes)
    (p : Frame) (h : parseEthernet cfg d bs = .ok p) : p.toPkt = Packet.parse d .eth bs :=
  (parseD_ref cfg hc hx hk1 d 0).same .eth .eth bs p rfl h

/-! ## part III: reverted trees — regression witnesses

What each repair is for: the tree with that repair taken out again fails on a concrete frame (each is a corpus case of
harness/c15.py, which checks that the current code handles it). -/

/-- the tree before the K repairs: an object chain or one of the registered findings K5 … K14 -/
theorem parse_total_partial (bs : Bytes) (d : Nat) (hd : budget bs ≤ d) :
    (∃ p, parseEthernet Cfg.repaired d bs = .ok p) ∨ (∃ s, parseEthernet Cfg.repaired d bs = .error (.known s)) := by
  rcases parse_total_with Fix.none Var.none bs d hd with ⟨p, h, _⟩ | ⟨s, h, _⟩
  · exact .inl ⟨p, h⟩
  · exact .inr ⟨s, h⟩

/-- the same with the exact raising set as a hypothesis: a frame that reaches none of the registered findings parses -/
theorem parse_total_of_no_known (bs : Bytes) (d : Nat) (hd : budget bs ≤ d)
    (hk : ∀ s, parseEthernet Cfg.repaired d bs ≠ .error (.known s)) : ∃ p, parseEthernet Cfg.repaired d bs = .ok p := by
  rcases parse_total_partial bs d hd with h | ⟨s, h⟩
  · exact h
  · exact absurd h (hk s)

/-- **Without the guard the nesting budget is the only way to fail, and it is real.**  For every budget `d` and every tree without
the K1 repair there is a frame of 14 + 4·d bytes (an Ethernet header and `d` 802.1Q tags) on which `ethernet(raw=…)` raises
`RecursionError`: CPython's default limit (1000 frames, 3 per VLAN tag) is exceeded by a 1376-byte frame — inside a standard MTU.
Finding K1 `parse:nesting.vlan+ethernet:RecursionError`, repaired by the nesting guard (c477d7c). -/
theorem nesting_defect (cfg : Cfg) (hk1 : cfg.fix.k1 = false) (d : Nat) :
    parseEthernet cfg d (nestFrame d) = .error .recursion ∧ (nestFrame d).length = 14 + 4 * d :=
  ⟨eth_nest cfg hk1 d, nestFrame_length d⟩

/-! ### defects of the code before the phase-1 repairs (`Cfg.head`); the witnesses are corpus cases of harness/c15.py, which now checks
that the repaired code handles them -/

/-- Ethernet/LLDP: chassis-id, port-id, then a TTL TLV header announcing 2 bytes with nothing behind it -/
def w_d14 : Bytes := [0x01, 0x80, 0xc2, 0x00, 0x00, 0x0e, 0x02, 0xa1, 0xb2, 0xc3, 0xd4, 0xe5, 0x88, 0xcc, 0x02, 0x07, 0x04, 0x02, 0xa1, 0xb2, 0xc3, 0xd4, 0xe5, 0x04, 0x02, 0x02, 0x37, 0x06, 0x02]

/-- D14 (lldp.py:125): the bound check `len(array) < length` forgets the 2-byte TLV header → `TruncatedException` escapes
`ethernet(raw)`.  Repaired by fixes/D14_lldp_tlv_bound.diff. -/
theorem lldp_d14_defect : parseExc Cfg.head w_d14 = some .truncated := by decide
example : parseExc Cfg.repaired w_d14 = none := by decide
example : parseExc { Cfg.head with tlvBound := true } w_d14 = none := by decide

/-- Ethernet/LLDP whose TTL TLV is 3 bytes long -/
def w_mal : Bytes := [0x01, 0x80, 0xc2, 0x00, 0x00, 0x0e, 0x02, 0xa1, 0xb2, 0xc3, 0xd4, 0xe5, 0x88, 0xcc, 0x02, 0x07, 0x04, 0x02, 0xa1, 0xb2, 0xc3, 0xd4, 0xe5, 0x04, 0x02, 0x02, 0x37, 0x06, 0x03, 0x00, 0x78, 0x00, 0x00, 0x00]

/-- C15-1 (lldp.py:129-134): nothing catches what a TLV constructor raises (`MalformedException`, `struct.error`,
`IndexError`) — even with D14 repaired.  Repaired by fixes/C15-1_lldp_tlv_malformed.diff. -/
theorem lldp_tlv_malformed_defect : parseExc { Cfg.head with tlvBound := true } w_mal = some .malformed := by decide
example : parseExc Cfg.repaired w_mal = none := by decide
example : classesOf Cfg.repaired w_mal = ["ethernet", "!lldp"] := by decide

/-- a 14-byte frame with a length field (0x0026) and no payload: the LLC object gives up before reading dsap/ssap -/
def w_llc : Bytes := [0x66, 0x77, 0x88, 0x99, 0xaa, 0xbb, 0x02, 0xa1, 0xb2, 0xc3, 0xd4, 0xe5, 0x00, 0x26]

/-- C15-3 (llc.py:56-58): `dump()` formats `None` with `%02x` → `TypeError`.  Repaired by fixes/C15-3_llc_str_none.diff. -/
theorem llc_print_defect : printExc Cfg.head w_llc = some .type := by decide
example : printExc Cfg.repaired w_llc = none := by decide

/-- Ethernet/LLDP whose chassis id has subtype MAC (4) and 7 bytes -/
def w_lst : Bytes := [0x01, 0x80, 0xc2, 0x00, 0x00, 0x0e, 0x02, 0xa1, 0xb2, 0xc3, 0xd4, 0xe5, 0x88, 0xcc, 0x02, 0x08, 0x04, 0x02, 0xa1, 0xb2, 0xc3, 0xd4, 0xe5, 0x00, 0x04, 0x02, 0x02, 0x37, 0x06, 0x02, 0x00, 0x78, 0x00, 0x00]

/-- C15-2 (lldp.py:352, 395): `assert len(self.id) == 6` in `__str__` → `AssertionError` out of `str()` / `dump()`.
Repaired by fixes/C15-2_lldp_str_mac_len.diff. -/
theorem lldp_print_defect : printExc Cfg.head w_lst = some .assert := by decide
example : printExc Cfg.repaired w_lst = none := by decide
example : classesOf Cfg.head w_lst = ["ethernet", "lldp"] := by decide

/-- Ethernet/IPv4/TCP with data offset 6 whose single option (kind 99) announces 42 bytes: it ends 38 bytes behind the header -/
def w_tcp : Bytes := [0x66, 0x77, 0x88, 0x99, 0xaa, 0xbb, 0x02, 0xa1, 0xb2, 0xc3, 0xd4, 0xe5, 0x08, 0x00, 0x45, 0x00, 0x00, 0x52, 0x12, 0x34, 0x40, 0x00, 0x40, 0x06, 0x5b, 0xc5, 0x0a, 0x01, 0x02, 0x03, 0xc0, 0xa8, 0x00, 0x01, 0x03, 0xe8, 0x00, 0x50, 0x01, 0x02, 0x03, 0x04, 0xff, 0xfe, 0xfd, 0xfc, 0x60, 0x18, 0x20, 0x00, 0x00, 0x00, 0x00, 0x00, 0x63, 0x2a, 0x00, 0x00, 0x00, 0x00, 0x00, 0x00, 0x00, 0x00, 0x00, 0x00, 0x00, 0x00, 0x00, 0x00, 0x00, 0x00, 0x00, 0x00, 0x00, 0x00, 0x00, 0x00, 0x00, 0x00, 0x00, 0x00, 0x00, 0x00, 0x00, 0x00, 0x00, 0x00, 0x00, 0x00, 0x00, 0x00, 0x00, 0x00, 0x00, 0x00]

/-- C15-4 (tcp.py:600): options are only required to end inside the *segment*; the parsed option list then needs a data offset of
16 words and `tcp.hdr` raises `struct.error` on re-serialisation.  Repaired by fixes/C15-4_tcp_option_within_header.diff. -/
theorem tcp_repack_defect : classesOf Cfg.head w_tcp = ["ethernet", "ipv4", "tcp", "bytes"] ∧ packExc Cfg.head w_tcp = some .struct := by
  decide +kernel
example : classesOf Cfg.repaired w_tcp = ["ethernet", "ipv4", "bytes"] ∧ packExc Cfg.repaired w_tcp = none := by decide +kernel

/-! ### the registered findings were real: one decided witness per raising site of the phase-2 parsers (each replayed on the
implementation by harness/c15.py; the keys are those of known_findings.json) -/

def w_k9 : Bytes := [0x66, 0x77, 0x88, 0x99, 0xaa, 0xbb, 0x02, 0xa1, 0xb2, 0xc3, 0xd4, 0xe5, 0x86, 0xdd, 0x61, 0x23, 0x45, 0x67, 0x00, 0x2b, 0x00, 0x40, 0xfe, 0x80, 0x00, 0x00, 0x00, 0x00, 0x00, 0x00, 0x02, 0x00, 0x00, 0xff, 0xfe, 0x00, 0x00, 0x01, 0xff, 0x02, 0x00, 0x00, 0x00, 0x00, 0x00, 0x00, 0x00, 0x00, 0x00, 0x01, 0xff, 0x00, 0x00, 0x02]
def w_k10 : Bytes := [0x66, 0x77, 0x88, 0x99, 0xaa, 0xbb, 0x02, 0xa1, 0xb2, 0xc3, 0xd4, 0xe5, 0x08, 0x00, 0x45, 0x00, 0x00, 0x3a, 0x12, 0x34, 0x40, 0x00, 0x40, 0x2f, 0x5b, 0xb4, 0x0a, 0x01, 0x02, 0x03, 0xc0, 0xa8, 0x00, 0x01, 0xb0, 0x00, 0x08, 0x00]
def w_k13 : Bytes := [0x66, 0x77, 0x88, 0x99, 0xaa, 0xbb, 0x02, 0xa1, 0xb2, 0xc3, 0xd4, 0xe5, 0x08, 0x00, 0x45, 0x00, 0x00, 0x38, 0x12, 0x34, 0x40, 0x00, 0x01, 0x02, 0x9a, 0xe3, 0x0a, 0x01, 0x02, 0x03, 0xc0, 0xa8, 0x00, 0x01, 0x22, 0x00, 0x26, 0x00, 0x00, 0x00, 0x00, 0x02]
def w_k14 : Bytes := [0x66, 0x77, 0x88, 0x99, 0xaa, 0xbb, 0x02, 0xa1, 0xb2, 0xc3, 0xd4, 0xe5, 0x08, 0x00, 0x45, 0x00, 0x00, 0x38, 0x12, 0x34, 0x40, 0x00, 0x01, 0x02, 0x9a, 0xe3, 0x0a, 0x01, 0x02, 0x03, 0xc0, 0xa8, 0x00, 0x01, 0x22, 0x00, 0x26, 0x00, 0x00, 0x00, 0x00, 0x02, 0x04, 0x00, 0x00, 0x00, 0xe0, 0x00, 0x01, 0x16, 0x01, 0x01, 0x00, 0x02, 0xe1, 0x02, 0x03, 0x04]
def w_k8 : Bytes := [0x66, 0x77, 0x88, 0x99, 0xaa, 0xbb, 0x02, 0xa1, 0xb2, 0xc3, 0xd4, 0xe5, 0x86, 0xdd, 0x61, 0x23, 0x45, 0x67, 0x00, 0x48, 0x3a, 0x40, 0xfe, 0x80, 0x00, 0x00, 0x00, 0x00, 0x00, 0x00, 0x02, 0x00, 0x00, 0xff, 0xfe, 0x00, 0x00, 0x01, 0xff, 0x02, 0x00, 0x00, 0x00, 0x00, 0x00, 0x00, 0x00, 0x00, 0x00, 0x01, 0xff, 0x00, 0x00, 0x02, 0x86, 0x00, 0x3c, 0x37, 0x40]
def w_k5v : Bytes := [0x66, 0x77, 0x88, 0x99, 0xaa, 0xbb, 0x02, 0xa1, 0xb2, 0xc3, 0xd4, 0xe5, 0x86, 0xdd, 0x61, 0x23, 0x45, 0x67, 0x00, 0x20, 0x3a, 0x40, 0xfe, 0x80, 0x00, 0x00, 0x00, 0x00, 0x00, 0x00, 0x02, 0x00, 0x00, 0xff, 0xfe, 0x00, 0x00, 0x01, 0xff, 0x02, 0x00, 0x00, 0x00, 0x00, 0x00, 0x00, 0x00, 0x00, 0x00, 0x01, 0xff, 0x00, 0x00, 0x02, 0x87, 0x00, 0x7b, 0x37, 0x00]
def w_k5i : Bytes := [0x66, 0x77, 0x88, 0x99, 0xaa, 0xbb, 0x02, 0xa1, 0xb2, 0xc3, 0xd4, 0xe5, 0x86, 0xdd, 0x61, 0x23, 0x45, 0x67, 0x00, 0x20, 0x3a, 0x40, 0xfe, 0x80, 0x00, 0x00, 0x00, 0x00, 0x00, 0x00, 0x02, 0x00, 0x00, 0xff, 0xfe, 0x00, 0x00, 0x01, 0xff, 0x02, 0x00, 0x00, 0x00, 0x00, 0x00, 0x00, 0x00, 0x00, 0x00, 0x01, 0xff, 0x00, 0x00, 0x02, 0x88, 0x00, 0x7a, 0x38]
def w_k6 : Bytes := [0x66, 0x77, 0x88, 0x99, 0xaa, 0xbb, 0x02, 0xa1, 0xb2, 0xc3, 0xd4, 0xe5, 0x86, 0xdd, 0x61, 0x23, 0x45, 0x67, 0x00, 0x10, 0x3a, 0x40, 0xfe, 0x80, 0x00, 0x00, 0x00, 0x00, 0x00, 0x00, 0x02, 0x00, 0x00, 0xff, 0xfe, 0x00, 0x00, 0x01, 0xff, 0x02, 0x00, 0x00, 0x00, 0x00, 0x00, 0x00, 0x00, 0x00, 0x00, 0x01, 0xff, 0x00, 0x00, 0x02, 0x85, 0x00, 0x7a, 0x30, 0x00, 0x00, 0x00, 0x00, 0x01, 0x01, 0x02]
def w_k7 : Bytes := [0x66, 0x77, 0x88, 0x99, 0xaa, 0xbb, 0x02, 0xa1, 0xb2, 0xc3, 0xd4, 0xe5, 0x86, 0xdd, 0x61, 0x23, 0x45, 0x67, 0x00, 0x10, 0x3a, 0x40, 0xfe, 0x80, 0x00, 0x00, 0x00, 0x00, 0x00, 0x00, 0x02, 0x00, 0x00, 0xff, 0xfe, 0x00, 0x00, 0x01, 0xff, 0x02, 0x00, 0x00, 0x00, 0x00, 0x00, 0x00, 0x00, 0x00, 0x00, 0x01, 0xff, 0x00, 0x00, 0x02, 0x85, 0x00, 0xef, 0xe0, 0x00, 0x00, 0x00, 0x00, 0x03, 0x01, 0x02, 0xa1, 0xb2, 0xc3, 0xd4, 0xe5]

/-- K9 `parse:ipv6.NormalExtensionHeader.unpack_new:error` — IPv6 header announcing a hop-by-hop header, frame cut after the fixed header -/
theorem known_k9 : parseExc Cfg.repaired w_k9 = some (.known .k9) := by decide +kernel
/-- K10 `parse:gre.gre.parse:error` — GRE flags announce checksum, key and sequence number; only the 4 fixed bytes are there -/
theorem known_k10 : parseExc Cfg.repaired w_k10 = some (.known .k10) := by decide +kernel
/-- K13 `parse:igmp.GroupRecord.unpack_new:error` — IGMPv3 report announcing 2 group records, none present -/
theorem known_k13 : parseExc Cfg.repaired w_k13 = some (.known .k13) := by decide +kernel
/-- K14 `parse:igmp.GroupRecord.unpack_new:(OSError|ValueError|UnicodeDecodeError)` — a group record announcing 2 sources, none present -/
theorem known_k14 : parseExc Cfg.repaired w_k14 = some (.known .k14) := by decide +kernel
/-- K8 `parse:icmpv6.NDRouterAdvertisement.unpack_new:error` — router advertisement of 5 bytes (valid checksum) -/
theorem known_k8 : parseExc Cfg.repaired w_k8 = some (.known .k8) := by decide +kernel
/-- K5 `parse:icmpv6.NDNeighborSolicitation.unpack_new:ValueError` — neighbour solicitation of 5 bytes (valid checksum) -/
theorem known_k5v : parseExc Cfg.repaired w_k5v = some (.known .k5v) := by decide +kernel
/-- K5 `parse:icmpv6.NDNeighborAdvertisement.unpack_new:IndexError` — neighbour advertisement of 4 bytes (valid checksum) -/
theorem known_k5i : parseExc Cfg.repaired w_k5i = some (.known .k5i) := by decide +kernel
/-- K6 `parse:icmpv6._parse_ndp_options:RuntimeError` — router solicitation whose option area is 3 bytes -/
theorem known_k6 : parseExc Cfg.repaired w_k6 = some (.known .k6) := by decide +kernel
/-- K7 `parse:icmpv6.NDOptionBase.unpack_new:RuntimeError` — source link-layer address option with length octet 3 -/
theorem known_k7 : parseExc Cfg.repaired w_k7 = some (.known .k7) := by decide +kernel

/-- every one of these witnesses parses once its repair is in the tree — alone, and all together -/
theorem known_witnesses_repaired :
    parseExc (Cfg.repairedWith { Fix.none with k9 := true }) w_k9 = none ∧ parseExc (Cfg.repairedWith { Fix.none with k10 := true }) w_k10 = none ∧
    parseExc (Cfg.repairedWith { Fix.none with k13 := true }) w_k13 = none ∧ parseExc (Cfg.repairedWith { Fix.none with k14 := true }) w_k14 = none ∧
    parseExc (Cfg.repairedWith { Fix.none with k8 := true }) w_k8 = none ∧ parseExc (Cfg.repairedWith { Fix.none with k5 := true }) w_k5v = none ∧
    parseExc (Cfg.repairedWith { Fix.none with k5 := true }) w_k5i = none ∧ parseExc (Cfg.repairedWith { Fix.none with k6 := true }) w_k6 = none ∧
    parseExc (Cfg.repairedWith { Fix.none with k7 := true }) w_k7 = none ∧
    [w_k9, w_k10, w_k13, w_k14, w_k8, w_k5v, w_k5i, w_k6, w_k7].all (fun w => parseExc Cfg.fixed w == none) = true := by
  decide +kernel
/-- what the repaired parsers leave: the GRE / IGMP object stays unparsed (IPv4 then keeps the payload as bytes), the IPv6 object
whose extension-header chain is cut stays unparsed, the short NDP messages are objects with the constructor's defaults -/
example : classesOf Cfg.fixed w_k10 = ["ethernet", "ipv4", "bytes"] ∧ classesOf Cfg.fixed w_k13 = ["ethernet", "ipv4", "bytes"] ∧
    classesOf Cfg.fixed w_k14 = ["ethernet", "ipv4", "bytes"] ∧ classesOf Cfg.fixed w_k9 = ["ethernet", "!ipv6"] ∧
    classesOf Cfg.fixed w_k5v = ["ethernet", "ipv6", "icmpv6", "NDNeighborSolicitation", "None"] := by decide +kernel

/-! ## non-vacuity: the theorems are about parses that get somewhere -/

/-- Ethernet / 802.1Q / IPv4 / UDP "abc" -/
def w_udp : Bytes := [0x66, 0x77, 0x88, 0x99, 0xaa, 0xbb, 0x02, 0xa1, 0xb2, 0xc3, 0xd4, 0xe5, 0x81, 0x00, 0xaa, 0xbc, 0x08, 0x00, 0x45, 0x00, 0x00, 0x1f, 0x12, 0x34, 0x40, 0x00, 0x40, 0x11, 0x5b, 0xed, 0x0a, 0x01, 0x02, 0x03, 0xc0, 0xa8, 0x00, 0x01, 0x03, 0xe8, 0x07, 0xd0, 0x00, 0x0b, 0x00, 0x00, 0x61, 0x62, 0x63]
/-- the LLDP frame pox.openflow.discovery sends -/
def w_lldp : Bytes := [0x01, 0x80, 0xc2, 0x00, 0x00, 0x0e, 0x02, 0xa1, 0xb2, 0xc3, 0xd4, 0xe5, 0x88, 0xcc, 0x02, 0x07, 0x07, 0x64, 0x70, 0x69, 0x64, 0x3a, 0x31, 0x04, 0x02, 0x02, 0x33, 0x06, 0x02, 0x00, 0x78, 0x0c, 0x15, 0x64, 0x70, 0x69, 0x64, 0x3a, 0x30, 0x30, 0x30, 0x30, 0x30, 0x30, 0x30, 0x30, 0x30, 0x30, 0x30, 0x30, 0x30, 0x30, 0x30, 0x31, 0x00, 0x00]
/-- 802.3 / LLC+SNAP / IPv4 / UDP -/
def w_snap : Bytes := [0x66, 0x77, 0x88, 0x99, 0xaa, 0xbb, 0x02, 0xa1, 0xb2, 0xc3, 0xd4, 0xe5, 0x00, 0x2c, 0xaa, 0xaa, 0x03, 0x00, 0x00, 0x00, 0x08, 0x00, 0x45, 0x00, 0x00, 0x20, 0x12, 0x34, 0x40, 0x00, 0x40, 0x11, 0x5b, 0xec, 0x0a, 0x01, 0x02, 0x03, 0xc0, 0xa8, 0x00, 0x01, 0x00, 0x07, 0x00, 0x09, 0x00, 0x0c, 0x00, 0x00, 0x73, 0x6e, 0x61, 0x70]
/-- ICMP destination unreachable quoting an IPv4/UDP datagram -/
def w_unreach : Bytes := [0x66, 0x77, 0x88, 0x99, 0xaa, 0xbb, 0x02, 0xa1, 0xb2, 0xc3, 0xd4, 0xe5, 0x08, 0x00, 0x45, 0x00, 0x00, 0x40, 0x12, 0x34, 0x40, 0x00, 0x40, 0x01, 0x5b, 0xdc, 0x0a, 0x01, 0x02, 0x03, 0xc0, 0xa8, 0x00, 0x01, 0x03, 0x04, 0xdb, 0xa7, 0x00, 0x00, 0x05, 0x78, 0x45, 0x00, 0x00, 0x24, 0x12, 0x34, 0x40, 0x00, 0x40, 0x11, 0x5b, 0xe8, 0x0a, 0x01, 0x02, 0x03, 0xc0, 0xa8, 0x00, 0x01, 0x03, 0xe8, 0x07, 0xd0, 0x00, 0x10, 0x00, 0x00, 0x01, 0x02, 0x03, 0x04, 0x05, 0x06, 0x07, 0x08]
/-- TCP SYN/ACK with MSS, NOP, window scale, SACK-permitted, timestamps, SACK, an unknown option, NOP, EOL -/
def w_tcpopts : Bytes := [0x66, 0x77, 0x88, 0x99, 0xaa, 0xbb, 0x02, 0xa1, 0xb2, 0xc3, 0xd4, 0xe5, 0x08, 0x00, 0x45, 0x00, 0x00, 0x50, 0x12, 0x34, 0x40, 0x00, 0x40, 0x06, 0x5b, 0xc7, 0x0a, 0x01, 0x02, 0x03, 0xc0, 0xa8, 0x00, 0x01, 0x03, 0xe8, 0x00, 0x50, 0x01, 0x02, 0x03, 0x04, 0xff, 0xfe, 0xfd, 0xfc, 0xe0, 0x12, 0x20, 0x00, 0x00, 0x00, 0x00, 0x00, 0x02, 0x04, 0x05, 0xb4, 0x01, 0x03, 0x03, 0x07, 0x04, 0x02, 0x08, 0x0a, 0x00, 0x00, 0x00, 0x03, 0x00, 0x00, 0x00, 0x04, 0x05, 0x0a, 0x00, 0x00, 0x00, 0x01, 0x00, 0x00, 0x00, 0x02, 0x4d, 0x04, 0x78, 0x79, 0x01, 0x00, 0x64, 0x61, 0x74, 0x61]

example : classesOf Cfg.repaired w_udp = ["ethernet", "vlan", "ipv4", "udp", "bytes"] := by decide
example : classesOf Cfg.repaired w_lldp = ["ethernet", "lldp"] := by decide
example : classesOf Cfg.repaired w_snap = ["ethernet", "llc", "ipv4", "udp", "bytes"] := by decide
example : classesOf Cfg.repaired w_unreach = ["ethernet", "ipv4", "icmp", "unreach", "ipv4", "udp", "bytes"] := by decide +kernel
example : classesOf Cfg.repaired w_tcpopts = ["ethernet", "ipv4", "tcp", "bytes"] ∧ packExc Cfg.repaired w_tcpopts = none := by
  decide +kernel
/-- every truncation of a valid frame still parses (here: the VLAN/IPv4/UDP frame cut inside the UDP header gives IPv4 + bytes) -/
example : classesOf Cfg.repaired (w_udp.take 40) = ["ethernet", "vlan", "ipv4", "bytes"] := by decide
/-- the hypothesis of `refines_c14` is satisfiable and the conclusion is not about an empty chain -/
example : (parseEthernet Cfg.core (budget w_udp) w_udp).toOption.map (·.classes) = some ["ethernet", "vlan", "ipv4", "udp", "bytes"] := by decide
/-- `nesting_defect` at d = 3: 26 bytes, three tags -/
example : parseEthernet Cfg.repaired 3 (nestFrame 3) = .error .recursion := (nesting_defect Cfg.repaired rfl 3).1
example : classesOf Cfg.repaired (nestFrame 3) = ["ethernet", "vlan", "vlan", "vlan", "!vlan"] := by decide

def g_ip6_udp : Bytes := [0x66, 0x77, 0x88, 0x99, 0xaa, 0xbb, 0x02, 0xa1, 0xb2, 0xc3, 0xd4, 0xe5, 0x86, 0xdd, 0x61, 0x23, 0x45, 0x67, 0x00, 0x0b, 0x11, 0x40, 0xfe, 0x80, 0x00, 0x00, 0x00, 0x00, 0x00, 0x00, 0x02, 0x00, 0x00, 0xff, 0xfe, 0x00, 0x00, 0x01, 0xff, 0x02, 0x00, 0x00, 0x00, 0x00, 0x00, 0x00, 0x00, 0x00, 0x00, 0x01, 0xff, 0x00, 0x00, 0x02, 0x03, 0xe8, 0x07, 0xd0, 0x00, 0x0b, 0x00, 0x00, 0x73, 0x69, 0x78]
def g_ip6_ra : Bytes := [0x66, 0x77, 0x88, 0x99, 0xaa, 0xbb, 0x02, 0xa1, 0xb2, 0xc3, 0xd4, 0xe5, 0x86, 0xdd, 0x61, 0x23, 0x45, 0x67, 0x00, 0x48, 0x3a, 0x40, 0xfe, 0x80, 0x00, 0x00, 0x00, 0x00, 0x00, 0x00, 0x02, 0x00, 0x00, 0xff, 0xfe, 0x00, 0x00, 0x01, 0xff, 0x02, 0x00, 0x00, 0x00, 0x00, 0x00, 0x00, 0x00, 0x00, 0x00, 0x01, 0xff, 0x00, 0x00, 0x02, 0x86, 0x00, 0xb8, 0xfa, 0x40, 0xc0, 0x07, 0x08, 0x00, 0x00, 0x00, 0x00, 0x00, 0x00, 0x00, 0x00, 0x01, 0x01, 0x02, 0xa1, 0xb2, 0xc3, 0xd4, 0xe5, 0x05, 0x01, 0x00, 0x00, 0x00, 0x00, 0x05, 0xdc, 0x03, 0x04, 0x40, 0xc0, 0x00, 0x01, 0x51, 0x80, 0x00, 0x00, 0x38, 0x40, 0x00, 0x00, 0x00, 0x00, 0xfe, 0x80, 0x00, 0x00, 0x00, 0x00, 0x00, 0x00, 0x02, 0x00, 0x00, 0xff, 0xfe, 0x00, 0x00, 0x01, 0x18, 0x01, 0x00, 0x00, 0x00, 0x00, 0x00, 0x00]
def g_mpls3 : Bytes := [0x66, 0x77, 0x88, 0x99, 0xaa, 0xbb, 0x02, 0xa1, 0xb2, 0xc3, 0xd4, 0xe5, 0x88, 0x48, 0x00, 0x3e, 0x86, 0x40, 0x00, 0x3e, 0x96, 0x40, 0xff, 0xff, 0xf7, 0x40, 0x62, 0x6f, 0x74, 0x74, 0x6f, 0x6d, 0x20, 0x6f, 0x66, 0x20, 0x73, 0x74, 0x61, 0x63, 0x6b]
def g_gre_eth : Bytes := [0x66, 0x77, 0x88, 0x99, 0xaa, 0xbb, 0x02, 0xa1, 0xb2, 0xc3, 0xd4, 0xe5, 0x08, 0x00, 0x45, 0x00, 0x00, 0x46, 0x12, 0x34, 0x40, 0x00, 0x40, 0x2f, 0x5b, 0xa8, 0x0a, 0x01, 0x02, 0x03, 0xc0, 0xa8, 0x00, 0x01, 0x20, 0x00, 0x65, 0x58, 0x00, 0x00, 0x00, 0x63, 0x66, 0x77, 0x88, 0x99, 0xaa, 0xbb, 0x02, 0xa1, 0xb2, 0xc3, 0xd4, 0xe5, 0x08, 0x06, 0x00, 0x01, 0x08, 0x00, 0x06, 0x04, 0x00, 0x01, 0x02, 0xa1, 0xb2, 0xc3, 0xd4, 0xe5, 0x0a, 0x00, 0x00, 0x01, 0x00, 0x00, 0x00, 0x00, 0x00, 0x00, 0x0a, 0x00, 0x00, 0x02]
def g_vxlan : Bytes := [0x66, 0x77, 0x88, 0x99, 0xaa, 0xbb, 0x02, 0xa1, 0xb2, 0xc3, 0xd4, 0xe5, 0x08, 0x00, 0x45, 0x00, 0x00, 0x4e, 0x12, 0x34, 0x40, 0x00, 0x40, 0x11, 0x5b, 0xbe, 0x0a, 0x01, 0x02, 0x03, 0xc0, 0xa8, 0x00, 0x01, 0xc0, 0x00, 0x12, 0xb5, 0x00, 0x3a, 0x00, 0x00, 0x08, 0x00, 0x00, 0x00, 0x12, 0x34, 0x56, 0x00, 0x66, 0x77, 0x88, 0x99, 0xaa, 0xbb, 0x02, 0xa1, 0xb2, 0xc3, 0xd4, 0xe5, 0x08, 0x06, 0x00, 0x01, 0x08, 0x00, 0x06, 0x04, 0x00, 0x01, 0x02, 0xa1, 0xb2, 0xc3, 0xd4, 0xe5, 0x0a, 0x00, 0x00, 0x01, 0x00, 0x00, 0x00, 0x00, 0x00, 0x00, 0x0a, 0x00, 0x00, 0x02]
def g_igmp_v3 : Bytes := [0x66, 0x77, 0x88, 0x99, 0xaa, 0xbb, 0x02, 0xa1, 0xb2, 0xc3, 0xd4, 0xe5, 0x08, 0x00, 0x45, 0x00, 0x00, 0x38, 0x12, 0x34, 0x40, 0x00, 0x01, 0x02, 0x9a, 0xe3, 0x0a, 0x01, 0x02, 0x03, 0xc0, 0xa8, 0x00, 0x01, 0x22, 0x00, 0x26, 0x00, 0x00, 0x00, 0x00, 0x02, 0x04, 0x00, 0x00, 0x00, 0xe0, 0x00, 0x01, 0x16, 0x01, 0x01, 0x00, 0x02, 0xe1, 0x02, 0x03, 0x04, 0x0a, 0x00, 0x00, 0x01, 0x0a, 0x00, 0x00, 0x02, 0x61, 0x75, 0x78, 0x64]
def g_rip_resp : Bytes := [0x66, 0x77, 0x88, 0x99, 0xaa, 0xbb, 0x02, 0xa1, 0xb2, 0xc3, 0xd4, 0xe5, 0x08, 0x00, 0x45, 0x00, 0x00, 0x48, 0x12, 0x34, 0x40, 0x00, 0x40, 0x11, 0x5b, 0xc4, 0x0a, 0x01, 0x02, 0x03, 0xc0, 0xa8, 0x00, 0x01, 0x02, 0x08, 0x02, 0x08, 0x00, 0x34, 0x00, 0x00, 0x02, 0x02, 0x00, 0x00, 0x00, 0x02, 0x00, 0x00, 0x0a, 0x00, 0x00, 0x00, 0xff, 0x00, 0x00, 0x00, 0x00, 0x00, 0x00, 0x00, 0x00, 0x00, 0x00, 0x01, 0x00, 0x02, 0x00, 0x07, 0xc0, 0xa8, 0x01, 0x00, 0xff, 0xff, 0xff, 0x00, 0x0a, 0x00, 0x00, 0x01, 0x00, 0x00, 0x00, 0x10]
def g_eap_req_id : Bytes := [0x66, 0x77, 0x88, 0x99, 0xaa, 0xbb, 0x02, 0xa1, 0xb2, 0xc3, 0xd4, 0xe5, 0x88, 0x8e, 0x01, 0x00, 0x00, 0x08, 0x01, 0x05, 0x00, 0x08, 0x01, 0x77, 0x68, 0x6f]
def g_ip6_ext : Bytes := [0x66, 0x77, 0x88, 0x99, 0xaa, 0xbb, 0x02, 0xa1, 0xb2, 0xc3, 0xd4, 0xe5, 0x86, 0xdd, 0x61, 0x23, 0x45, 0x67, 0x00, 0x2b, 0x00, 0x40, 0xfe, 0x80, 0x00, 0x00, 0x00, 0x00, 0x00, 0x00, 0x02, 0x00, 0x00, 0xff, 0xfe, 0x00, 0x00, 0x01, 0xff, 0x02, 0x00, 0x00, 0x00, 0x00, 0x00, 0x00, 0x00, 0x00, 0x00, 0x01, 0xff, 0x00, 0x00, 0x02, 0x2b, 0x00, 0x01, 0x04, 0x00, 0x00, 0x00, 0x00, 0x3c, 0x01, 0x00, 0x00, 0x00, 0x00, 0x00, 0x00, 0x01, 0x06, 0x00, 0x00, 0x00, 0x00, 0x00, 0x00, 0x11, 0x00, 0x01, 0x04, 0x00, 0x00, 0x00, 0x00, 0x00, 0x01, 0x00, 0x02, 0x00, 0x0b, 0x00, 0x00, 0x65, 0x78, 0x74]
def g_ip6_unreach : Bytes := [0x66, 0x77, 0x88, 0x99, 0xaa, 0xbb, 0x02, 0xa1, 0xb2, 0xc3, 0xd4, 0xe5, 0x86, 0xdd, 0x61, 0x23, 0x45, 0x67, 0x00, 0x39, 0x3a, 0x40, 0xfe, 0x80, 0x00, 0x00, 0x00, 0x00, 0x00, 0x00, 0x02, 0x00, 0x00, 0xff, 0xfe, 0x00, 0x00, 0x01, 0xff, 0x02, 0x00, 0x00, 0x00, 0x00, 0x00, 0x00, 0x00, 0x00, 0x00, 0x01, 0xff, 0x00, 0x00, 0x02, 0x01, 0x04, 0xda, 0x96, 0x00, 0x00, 0x00, 0x00, 0x61, 0x23, 0x45, 0x67, 0x00, 0x09, 0x11, 0x40, 0xfe, 0x80, 0x00, 0x00, 0x00, 0x00, 0x00, 0x00, 0x02, 0x00, 0x00, 0xff, 0xfe, 0x00, 0x00, 0x01, 0xff, 0x02, 0x00, 0x00, 0x00, 0x00, 0x00, 0x00, 0x00, 0x00, 0x00, 0x01, 0xff, 0x00, 0x00, 0x02, 0x00, 0x01, 0x00, 0x02, 0x00, 0x09, 0x00, 0x00, 0x71]

example : classesOf Cfg.repaired g_ip6_udp = ["ethernet", "ipv6", "udp", "bytes"] := by decide +kernel
example : classesOf Cfg.repaired g_ip6_ext = ["ethernet", "ipv6", "udp", "bytes"] := by decide +kernel
example : classesOf Cfg.repaired g_ip6_ra = ["ethernet", "ipv6", "icmpv6", "NDRouterAdvertisement", "None"] := by decide +kernel
example : classesOf Cfg.repaired g_ip6_unreach = ["ethernet", "ipv6", "icmpv6", "unreach6", "ipv6", "udp", "bytes"] := by decide +kernel
example : classesOf Cfg.repaired g_mpls3 = ["ethernet", "mpls", "mpls", "mpls", "bytes"] := by decide +kernel
example : classesOf Cfg.repaired g_gre_eth = ["ethernet", "ipv4", "gre", "ethernet", "arp", "bytes"] := by decide +kernel
example : classesOf Cfg.repaired g_vxlan = ["ethernet", "ipv4", "udp", "vxlan", "ethernet", "arp", "bytes"] := by decide +kernel
example : classesOf Cfg.repaired g_igmp_v3 = ["ethernet", "ipv4", "igmp", "None"] := by decide +kernel
example : classesOf Cfg.repaired g_rip_resp = ["ethernet", "ipv4", "udp", "rip", "None"] := by decide +kernel
example : classesOf Cfg.repaired g_eap_req_id = ["ethernet", "eapol", "eap", "None"] := by decide +kernel
/-- the phase-1 view of the same IPv6 frame (`Cfg.core`, what `refines_c14` speaks about) -/
example : classesOf Cfg.core g_ip6_udp = ["ethernet", "?ipv6"] := by decide +kernel


/-- the tree as it is -/
example : classesOf Cfg.current g_ip6_unreach = ["ethernet", "ipv6", "icmpv6", "unreach6", "ipv6", "udp", "bytes"] ∧
    classesOf Cfg.current g_gre_eth = ["ethernet", "ipv4", "gre", "ethernet", "arp", "bytes"] ∧
    classesOf Cfg.current g_vxlan = ["ethernet", "ipv4", "udp", "vxlan", "ethernet", "arp", "bytes"] ∧
    classesOf Cfg.current g_eap_req_id = ["ethernet", "eapol", "eap", "bytes"] ∧
    classesOf Cfg.current w_k9 = ["ethernet", "!ipv6"] ∧ classesOf Cfg.current w_k5v = ["ethernet", "ipv6", "icmpv6", "NDNeighborSolicitation", "None"] ∧
    classesOf Cfg.current w_unreach = ["ethernet", "ipv4", "icmp", "unreach", "ipv4", "udp", "bytes"] := by decide +kernel

/-! ### the nesting guard and the result-changing repairs, on concrete frames -/

/-- K1 repaired: 400 nested 802.1Q tags (1614 bytes) parse with 35 activations — ethernet, 31 vlan objects, the rest kept as bytes;
without the guard the same budget raises RecursionError -/
theorem nesting_guard_witness :
    (parseEthernet (Cfg.tree Fix.full Var.none) 35 (nestFrame 400)).toOption.map (·.classes.length) = some 33 ∧
    (match parseEthernet (Cfg.tree Fix.all Var.none) 35 (nestFrame 400) with
      | .error e => e.toString
      | .ok _ => "ok") = "RecursionError" := by decide +kernel

/-- a DNS query for "a.bc" -/
def g_dns_q : Bytes := [0x66, 0x77, 0x88, 0x99, 0xaa, 0xbb, 0x02, 0xa1, 0xb2, 0xc3, 0xd4, 0xe5, 0x08, 0x00, 0x45, 0x00, 0x00, 0x32, 0x12, 0x34, 0x40, 0x00, 0x40, 0x11, 0x5b, 0xda, 0x0a, 0x01, 0x02, 0x03, 0xc0, 0xa8, 0x00, 0x01, 0x82, 0x35, 0x00, 0x35, 0x00, 0x1e, 0x00, 0x00, 0x00, 0x07, 0x01, 0x00, 0x00, 0x01, 0x00, 0x00, 0x00, 0x00, 0x00, 0x00, 0x01, 0x61, 0x02, 0x62, 0x63, 0x00, 0x00, 0x01, 0x00, 0x01]
/-- two questions whose names are compression pointers to each other (12 → 18 → 12) -/
def g_dns_loop : Bytes := [0x66, 0x77, 0x88, 0x99, 0xaa, 0xbb, 0x02, 0xa1, 0xb2, 0xc3, 0xd4, 0xe5, 0x08, 0x00, 0x45, 0x00, 0x00, 0x34, 0x12, 0x34, 0x40, 0x00, 0x40, 0x11, 0x5b, 0xd8, 0x0a, 0x01, 0x02, 0x03, 0xc0, 0xa8, 0x00, 0x01, 0x82, 0x35, 0x00, 0x35, 0x00, 0x20, 0x00, 0x00, 0x00, 0x07, 0x01, 0x00, 0x00, 0x02, 0x00, 0x00, 0x00, 0x00, 0x00, 0x00, 0xc0, 0x12, 0x00, 0x01, 0x00, 0x01, 0xc0, 0x0c, 0x00, 0x01, 0x00, 0x01]
/-- a question whose label is not UTF-8 -/
def g_dns_badutf8 : Bytes := [0x66, 0x77, 0x88, 0x99, 0xaa, 0xbb, 0x02, 0xa1, 0xb2, 0xc3, 0xd4, 0xe5, 0x08, 0x00, 0x45, 0x00, 0x00, 0x30, 0x12, 0x34, 0x40, 0x00, 0x40, 0x11, 0x5b, 0xdc, 0x0a, 0x01, 0x02, 0x03, 0xc0, 0xa8, 0x00, 0x01, 0x82, 0x35, 0x00, 0x35, 0x00, 0x1c, 0x00, 0x00, 0x00, 0x07, 0x01, 0x00, 0x00, 0x01, 0x00, 0x00, 0x00, 0x00, 0x00, 0x00, 0x02, 0xc3, 0x28, 0x00, 0x00, 0x01, 0x00, 0x01]
/-- D46: DNS questions parse once names are read as bytes; a compression-pointer loop and a label that does not decode make parse
give up (inside its `try/except Exception`) — in no case does anything escape -/
theorem dns_names_witness :
    classesOf (Cfg.tree Fix.all Var.none) g_dns_q = ["ethernet", "ipv4", "udp", "!dns"] ∧
    classesOf (Cfg.tree Fix.all Var.all) g_dns_q = ["ethernet", "ipv4", "udp", "dns", "None"] ∧
    classesOf (Cfg.tree Fix.all Var.all) g_dns_loop = ["ethernet", "ipv4", "udp", "!dns"] ∧
    classesOf (Cfg.tree Fix.all Var.all) g_dns_badutf8 = ["ethernet", "ipv4", "udp", "!dns"] := by decide +kernel
/-- D49: an EAP request keeps its type octet and type data as payload bytes -/
example : classesOf (Cfg.tree Fix.all Var.none) g_eap_req_id = ["ethernet", "eapol", "eap", "None"] ∧
    classesOf (Cfg.tree Fix.all Var.all) g_eap_req_id = ["ethernet", "eapol", "eap", "bytes"] := by decide +kernel

/-- pack() of chains with phase-2 classes of the pack model gives the frame back -/
example : (parseEthernet Cfg.current 35 g_mpls3).toOption.map (fun p => (p.packModelled, (packF none p).toOption == some g_mpls3)) = some (true, true) ∧
    (parseEthernet Cfg.current 35 g_eap_req_id).toOption.map (fun p => (p.packModelled, (packF none p).toOption == some g_eap_req_id)) = some (true, true) := by
  decide +kernel

/-- Ethernet + 40 label stack entries, none the bottom of the stack -/
def g_mpls40 : Bytes :=
  [0x66, 0x77, 0x88, 0x99, 0xaa, 0xbb, 0x02, 0xa1, 0xb2, 0xc3, 0xd4, 0xe5, 0x88, 0x47] ++ (List.replicate 40 [0x00, 0x01, 0x00, 0x40]).flatten
/-- `repack_total_cutoff` is not vacuous: with 35 activations the chain is ethernet + 34 entries + the other 6 kept as bytes, with 60
all 40 entries (and an empty remainder); both are inside the pack model and pack() gives the frame back -/
example : (parseEthernet Cfg.current 35 g_mpls40).toOption.map
      (fun p => (p.classes.length, p.classes.getLast?, p.packModelled, (packF none p).toOption == some g_mpls40)) = some (36, some "bytes", true, true) ∧
    (parseEthernet Cfg.current 60 g_mpls40).toOption.map
      (fun p => (p.classes.length, p.classes.getLast?, p.packModelled, (packF none p).toOption == some g_mpls40)) = some (42, some "bytes", true, true) := by
  decide +kernel

end Pox.C15
