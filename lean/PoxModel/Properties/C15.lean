import PoxModel.Proofs.ParseTotal
/-! # C15 — parsing untrusted frames never fails

Property theorems only (helper lemmas: `Proofs/ParseTotal.lean`; model: `Model/PacketParse.lean`).

`parseEthernet cfg d bs` is `ethernet(raw=bs)` (= `PacketIn.parsed`, openflow/__init__.py:182-185) for the parsers
Ethernet → 802.1Q (nested) / LLC-SNAP → ARP / IPv4 (+options) → ICMP (echo, unreachable, time-exceeded with the quoted
datagram, nested) / TCP (+option parser) / UDP, and LLDP with all its TLV classes, with every Python operation that can raise kept
partial.  `cfg = Cfg.repaired` is /repo HEAD, which contains the repairs D14, C15-1 … C15-4 (commits d7ff84a, c4c3f4b,
a91c2bd, 60ec5b5, 1392d59); `Cfg.head` is the tree before them (repairs C15-5 dhcp, C15-6 eap, C15-7 icmpv6 concern parsers
outside the model).  `d` is the
number of nested constructor activations the interpreter still allows (RecursionError beyond).  Layers handed to one of the
un-modelled parsers (ipv6, icmpv6, dhcp, dns, rip, vxlan, igmp, gre, mpls, eapol/eap, the MPTCP option) end the chain as
`Frame.foreign`: the theorems say nothing about what those classes do — hence `…_partial`; for them only the differential
"nothing raises" oracle of harness/c15.py applies. -/
namespace Pox.C15
open Pox Pox.Packet Pox.Parse

/-- **No exception.**  For EVERY byte string `bs`, `ethernet(raw=bs)` of the repaired code returns an object chain, provided
the interpreter allows `budget bs = len(bs)/4 + 1` nested constructor activations (every parser that calls a nested
constructor has consumed at least four bytes).  No `struct.error`, `IndexError`, `TypeError`, `TruncatedException`,
`MalformedException`, `AssertionError`, no model loop running out of fuel. -/
theorem parse_total_partial (bs : Bytes) (d : Nat) (hd : budget bs ≤ d) :
    ∃ p, parseEthernet Cfg.repaired d bs = .ok p := by
  obtain ⟨f, h, _, _⟩ := parseD_spec d .eth bs hd
  exact ⟨f, h⟩

/-- The full statement — all 21 parser modules inside the model, no foreign layer left — is NOT proved (and false for this
model: a frame with ethertype 0x86dd ends in `foreign "ipv6"`). -/
def parse_total_full : Prop :=
  ∀ (bs : Bytes) (d : Nat), budget bs ≤ d → ∃ p, parseEthernet Cfg.repaired d bs = .ok p ∧ p.hasForeign = false

/-- **The nesting budget is the only way to fail, and it is real.**  For every budget `d` and both versions of the code there is
a frame of 14 + 4·d bytes (an Ethernet header and `d` 802.1Q tags) on which `ethernet(raw=…)` raises `RecursionError`:
CPython's default limit (1000 frames, 3 per VLAN tag) is exceeded by a 1376-byte frame — inside a standard MTU.
Not repaired; proposed known finding `parse:nesting.vlan+ethernet:RecursionError`. -/
theorem nesting_defect (cfg : Cfg) (d : Nat) :
    parseEthernet cfg d (nestFrame d) = .error .recursion ∧ (nestFrame d).length = 14 + 4 * d :=
  ⟨eth_nest cfg d, nestFrame_length d⟩

/-- **Progress is recorded and nothing is lost.**  The result is an object for the whole input (`p.bytes = bs`; an object whose
parse gave up is a leaf that keeps its bytes — that is what `Frame.unparsed`, `llc … false`, `lldp … false` are), and the chain
tiles the input: the bytes of every object are its header followed by exactly the bytes handed to the next layer — which are
kept as raw bytes when no parser takes them — followed by nothing, except that `ipv4` cuts off what lies beyond its total-length
field and `udp`/`ipv4` drop the payload when their length field contradicts the buffer (as the code does). -/
theorem progress_recorded (bs : Bytes) (d : Nat) (hd : budget bs ≤ d) :
    ∃ p, parseEthernet Cfg.repaired d bs = .ok p ∧ p.bytes = bs ∧ p.Tiles := by
  obtain ⟨f, h, hb, hg⟩ := parseD_spec d .eth bs hd
  exact ⟨f, h, hb, good_tiles f hg⟩

/-- **Re-serialisation is defined.**  `pack()` of any parse result without a foreign layer returns bytes: every `struct.pack`
in `hdr()` of every layer gets values in range (fields come from `struct.unpack`; IPv4 total length, UDP length, TCP data offset
are recomputed from payloads that are never longer than what was parsed; TCP options end inside the header after C15-4). -/
theorem repack_total_partial (bs : Bytes) (d : Nat) (hd : budget bs ≤ d) :
    ∃ p, parseEthernet Cfg.repaired d bs = .ok p ∧ (p.hasForeign = false → ∃ out, packF none p = .ok out) := by
  obtain ⟨f, h, _, hg⟩ := parseD_spec d .eth bs hd
  exact ⟨f, h, fun hf => packTop f hg hf⟩

/-- **Printing is defined.**  `str()` / `dump()` of any object chain of the modelled classes returns (repairs C15-2, C15-3). -/
theorem print_total_partial (p : Frame) : printF Cfg.repaired p = .ok () := printF_ok p

/-- **Relation to the C14 model.**  Whenever the exception-aware parser returns (any nesting budget, any version of the code
that has the TCP-option bound C15-4, which is committed and which the C14 model has too), the total parser `Packet.parse` of
`Model/PacketHdr.lean` — which maps every would-be exception to "unparsed" — returns the same chain. -/
theorem refines_c14 (cfg : Cfg) (hc : cfg.tcpOptBound = true) (d : Nat) (bs : Bytes) (p : Frame)
    (h : parseEthernet cfg d bs = .ok p) : p.toPkt = Packet.parse d .eth bs :=
  (parseD_ref cfg hc d).same .eth .eth bs p rfl h

/-! ## defects of the code before the repairs (`Cfg.head`); the witnesses are corpus cases of harness/c15.py, which now checks
that the repaired code handles them -/

/-- Ethernet/LLDP: chassis-id, port-id, then a TTL TLV header announcing 2 bytes with nothing behind it -/
def w_d14 : Bytes := [0x01, 0x80, 0xc2, 0x00, 0x00, 0x0e, 0x02, 0xa1, 0xb2, 0xc3, 0xd4, 0xe5, 0x88, 0xcc, 0x02, 0x07, 0x04, 0x02, 0xa1, 0xb2, 0xc3, 0xd4, 0xe5, 0x04, 0x02, 0x02, 0x37, 0x06, 0x02]

/-- D14 (lldp.py:125): the bound check `len(array) < length` forgets the 2-byte TLV header → `TruncatedException` escapes
`ethernet(raw)`.  Repaired by fixes/D14_lldp_tlv_bound.diff. -/
theorem lldp_d14_defect : parseExc Cfg.head w_d14 = some .truncated := by decide
example : parseExc Cfg.repaired w_d14 = none := by decide
example : parseExc { Cfg.head with tlvBound := true } w_d14 = none := by decide

/-- Ethernet/LLDP whose TTL TLV is 3 bytes long -/
def w_mal : Bytes := [0x01, 0x80, 0xc2, 0x00, 0x00, 0x0e, 0x02, 0xa1, 0xb2, 0xc3, 0xd4, 0xe5, 0x88, 0xcc, 0x02, 0x07, 0x04, 0x02, 0xa1, 0xb2, 0xc3, 0xd4, 0xe5, 0x04, 0x02, 0x02, 0x37, 0x06, 0x03, 0x00, 0x78, 0x00, 0x00, 0x00]

/-- C15-1 (lldp.py:129-134): nothing catches what a TLV constructor raises (`MalformedException`, `struct.error`,
`IndexError`) — even with D14 repaired.  Repaired by fixes/C15-1_lldp_tlv_malformed.diff. -/
theorem lldp_tlv_malformed_defect : parseExc { Cfg.head with tlvBound := true } w_mal = some .malformed := by decide
example : parseExc Cfg.repaired w_mal = none := by decide
example : classesOf Cfg.repaired w_mal = ["ethernet", "!lldp"] := by decide

/-- a 14-byte frame with a length field (0x0026) and no payload: the LLC object gives up before reading dsap/ssap -/
def w_llc : Bytes := [0x66, 0x77, 0x88, 0x99, 0xaa, 0xbb, 0x02, 0xa1, 0xb2, 0xc3, 0xd4, 0xe5, 0x00, 0x26]

/-- C15-3 (llc.py:56-58): `dump()` formats `None` with `%02x` → `TypeError`.  Repaired by fixes/C15-3_llc_str_none.diff. -/
theorem llc_print_defect : printExc Cfg.head w_llc = some .type := by decide
example : printExc Cfg.repaired w_llc = none := by decide

/-- Ethernet/LLDP whose chassis id has subtype MAC (4) and 7 bytes -/
def w_lst : Bytes := [0x01, 0x80, 0xc2, 0x00, 0x00, 0x0e, 0x02, 0xa1, 0xb2, 0xc3, 0xd4, 0xe5, 0x88, 0xcc, 0x02, 0x08, 0x04, 0x02, 0xa1, 0xb2, 0xc3, 0xd4, 0xe5, 0x00, 0x04, 0x02, 0x02, 0x37, 0x06, 0x02, 0x00, 0x78, 0x00, 0x00]

/-- C15-2 (lldp.py:352, 395): `assert len(self.id) == 6` in `__str__` → `AssertionError` out of `str()` / `dump()`.
Repaired by fixes/C15-2_lldp_str_mac_len.diff. -/
theorem lldp_print_defect : printExc Cfg.head w_lst = some .assert := by decide
example : printExc Cfg.repaired w_lst = none := by decide
example : classesOf Cfg.head w_lst = ["ethernet", "lldp"] := by decide

/-- Ethernet/IPv4/TCP with data offset 6 whose single option (kind 99) announces 42 bytes: it ends 38 bytes behind the header -/
def w_tcp : Bytes := [0x66, 0x77, 0x88, 0x99, 0xaa, 0xbb, 0x02, 0xa1, 0xb2, 0xc3, 0xd4, 0xe5, 0x08, 0x00, 0x45, 0x00, 0x00, 0x52, 0x12, 0x34, 0x40, 0x00, 0x40, 0x06, 0x5b, 0xc5, 0x0a, 0x01, 0x02, 0x03, 0xc0, 0xa8, 0x00, 0x01, 0x03, 0xe8, 0x00, 0x50, 0x01, 0x02, 0x03, 0x04, 0xff, 0xfe, 0xfd, 0xfc, 0x60, 0x18, 0x20, 0x00, 0x00, 0x00, 0x00, 0x00, 0x63, 0x2a, 0x00, 0x00, 0x00, 0x00, 0x00, 0x00, 0x00, 0x00, 0x00, 0x00, 0x00, 0x00, 0x00, 0x00, 0x00, 0x00, 0x00, 0x00, 0x00, 0x00, 0x00, 0x00, 0x00, 0x00, 0x00, 0x00, 0x00, 0x00, 0x00, 0x00, 0x00, 0x00, 0x00, 0x00, 0x00, 0x00, 0x00, 0x00, 0x00, 0x00]

/-- C15-4 (tcp.py:600): options are only required to end inside the *segment*; the parsed option list then needs a data offset of
16 words and `tcp.hdr` raises `struct.error` on re-serialisation.  Repaired by fixes/C15-4_tcp_option_within_header.diff. -/
theorem tcp_repack_defect : classesOf Cfg.head w_tcp = ["ethernet", "ipv4", "tcp", "bytes"] ∧ packExc Cfg.head w_tcp = some .struct := by
  decide +kernel
example : classesOf Cfg.repaired w_tcp = ["ethernet", "ipv4", "bytes"] ∧ packExc Cfg.repaired w_tcp = none := by decide +kernel

/-! ## non-vacuity: the theorems are about parses that get somewhere -/

/-- Ethernet / 802.1Q / IPv4 / UDP "abc" -/
def w_udp : Bytes := [0x66, 0x77, 0x88, 0x99, 0xaa, 0xbb, 0x02, 0xa1, 0xb2, 0xc3, 0xd4, 0xe5, 0x81, 0x00, 0xaa, 0xbc, 0x08, 0x00, 0x45, 0x00, 0x00, 0x1f, 0x12, 0x34, 0x40, 0x00, 0x40, 0x11, 0x5b, 0xed, 0x0a, 0x01, 0x02, 0x03, 0xc0, 0xa8, 0x00, 0x01, 0x03, 0xe8, 0x07, 0xd0, 0x00, 0x0b, 0x00, 0x00, 0x61, 0x62, 0x63]
/-- the LLDP frame pox.openflow.discovery sends -/
def w_lldp : Bytes := [0x01, 0x80, 0xc2, 0x00, 0x00, 0x0e, 0x02, 0xa1, 0xb2, 0xc3, 0xd4, 0xe5, 0x88, 0xcc, 0x02, 0x07, 0x07, 0x64, 0x70, 0x69, 0x64, 0x3a, 0x31, 0x04, 0x02, 0x02, 0x33, 0x06, 0x02, 0x00, 0x78, 0x0c, 0x15, 0x64, 0x70, 0x69, 0x64, 0x3a, 0x30, 0x30, 0x30, 0x30, 0x30, 0x30, 0x30, 0x30, 0x30, 0x30, 0x30, 0x30, 0x30, 0x30, 0x30, 0x31, 0x00, 0x00]
/-- 802.3 / LLC+SNAP / IPv4 / UDP -/
def w_snap : Bytes := [0x66, 0x77, 0x88, 0x99, 0xaa, 0xbb, 0x02, 0xa1, 0xb2, 0xc3, 0xd4, 0xe5, 0x00, 0x2c, 0xaa, 0xaa, 0x03, 0x00, 0x00, 0x00, 0x08, 0x00, 0x45, 0x00, 0x00, 0x20, 0x12, 0x34, 0x40, 0x00, 0x40, 0x11, 0x5b, 0xec, 0x0a, 0x01, 0x02, 0x03, 0xc0, 0xa8, 0x00, 0x01, 0x00, 0x07, 0x00, 0x09, 0x00, 0x0c, 0x00, 0x00, 0x73, 0x6e, 0x61, 0x70]
/-- ICMP destination unreachable quoting an IPv4/UDP datagram -/
def w_unreach : Bytes := [0x66, 0x77, 0x88, 0x99, 0xaa, 0xbb, 0x02, 0xa1, 0xb2, 0xc3, 0xd4, 0xe5, 0x08, 0x00, 0x45, 0x00, 0x00, 0x40, 0x12, 0x34, 0x40, 0x00, 0x40, 0x01, 0x5b, 0xdc, 0x0a, 0x01, 0x02, 0x03, 0xc0, 0xa8, 0x00, 0x01, 0x03, 0x04, 0xdb, 0xa7, 0x00, 0x00, 0x05, 0x78, 0x45, 0x00, 0x00, 0x24, 0x12, 0x34, 0x40, 0x00, 0x40, 0x11, 0x5b, 0xe8, 0x0a, 0x01, 0x02, 0x03, 0xc0, 0xa8, 0x00, 0x01, 0x03, 0xe8, 0x07, 0xd0, 0x00, 0x10, 0x00, 0x00, 0x01, 0x02, 0x03, 0x04, 0x05, 0x06, 0x07, 0x08]
/-- TCP SYN/ACK with MSS, NOP, window scale, SACK-permitted, timestamps, SACK, an unknown option, NOP, EOL -/
def w_tcpopts : Bytes := [0x66, 0x77, 0x88, 0x99, 0xaa, 0xbb, 0x02, 0xa1, 0xb2, 0xc3, 0xd4, 0xe5, 0x08, 0x00, 0x45, 0x00, 0x00, 0x50, 0x12, 0x34, 0x40, 0x00, 0x40, 0x06, 0x5b, 0xc7, 0x0a, 0x01, 0x02, 0x03, 0xc0, 0xa8, 0x00, 0x01, 0x03, 0xe8, 0x00, 0x50, 0x01, 0x02, 0x03, 0x04, 0xff, 0xfe, 0xfd, 0xfc, 0xe0, 0x12, 0x20, 0x00, 0x00, 0x00, 0x00, 0x00, 0x02, 0x04, 0x05, 0xb4, 0x01, 0x03, 0x03, 0x07, 0x04, 0x02, 0x08, 0x0a, 0x00, 0x00, 0x00, 0x03, 0x00, 0x00, 0x00, 0x04, 0x05, 0x0a, 0x00, 0x00, 0x00, 0x01, 0x00, 0x00, 0x00, 0x02, 0x4d, 0x04, 0x78, 0x79, 0x01, 0x00, 0x64, 0x61, 0x74, 0x61]

example : classesOf Cfg.repaired w_udp = ["ethernet", "vlan", "ipv4", "udp", "bytes"] := by decide
example : classesOf Cfg.repaired w_lldp = ["ethernet", "lldp"] := by decide
example : classesOf Cfg.repaired w_snap = ["ethernet", "llc", "ipv4", "udp", "bytes"] := by decide
example : classesOf Cfg.repaired w_unreach = ["ethernet", "ipv4", "icmp", "unreach", "ipv4", "udp", "bytes"] := by decide +kernel
example : classesOf Cfg.repaired w_tcpopts = ["ethernet", "ipv4", "tcp", "bytes"] ∧ packExc Cfg.repaired w_tcpopts = none := by
  decide +kernel
/-- every truncation of a valid frame still parses (here: the VLAN/IPv4/UDP frame cut inside the UDP header gives IPv4 + bytes) -/
example : classesOf Cfg.repaired (w_udp.take 40) = ["ethernet", "vlan", "ipv4", "bytes"] := by decide
/-- the hypothesis of `refines_c14` is satisfiable and the conclusion is not about an empty chain -/
example : (parseEthernet Cfg.repaired (budget w_udp) w_udp).toOption.map (·.classes) = some ["ethernet", "vlan", "ipv4", "udp", "bytes"] := by decide
/-- `nesting_defect` at d = 3: 26 bytes, three tags -/
example : parseEthernet Cfg.repaired 3 (nestFrame 3) = .error .recursion := (nesting_defect Cfg.repaired 3).1
example : classesOf Cfg.repaired (nestFrame 3) = ["ethernet", "vlan", "vlan", "vlan", "!vlan"] := by decide

end Pox.C15
